(** Which keys write_config can put into ofxget.cfg (Model/OfxgetCfg.v, C18): those already in the user's
    file (or in the parser's [DEFAULT] section), the default "clientuid", and CONFIGURABLE option names - so never
    "password"; and a dry run writes nothing. *)
From OfxV Require Import Base.Prelude Base.Digits Base.OfxgetBase Gen.OfxgetGen Model.OfxgetCfg.
From OfxV Require Import Proofs.OfxgetCfgMerge Proofs.OfxgetCfgParse.
From Coq Require Import Lia.
Local Open Scope N_scope.

(** every key of every section, [DEFAULT] included: the left-hand sides of the lines RawConfigParser.write emits *)
Definition cfg_keys (c : cfg) : list text :=
  map fst (c_defaults c) ++ List.concat (map (fun p => map fst (snd p)) (c_sections c)).

Lemma dset_keys_in {A} k (v : A) m k' : In k' (map fst (dset k v m)) -> k' = k \/ In k' (map fst m).
Proof. apply dset_keys. Qed.

Lemma in_concat_sections k (secs : dict section) :
  In k (List.concat (map (fun p => map fst (snd p)) secs)) <-> exists s d, In (s, d) secs /\ In k (map fst d).
Proof.
  rewrite in_concat. split.
  - intros (l & Hl & Hk). apply in_map_iff in Hl. destruct Hl as ([s d] & <- & Hin). eauto.
  - intros (s & d & Hin & Hk). exists (map fst d). split; [|exact Hk]. apply in_map_iff. exists (s, d). auto.
Qed.

Lemma In_dset_val {A} s (d : A) k v m : In (s, d) (dset k v m) -> (s = k /\ d = v) \/ In (s, d) m.
Proof.
  induction m as [|[k0 v0] m IH]; cbn [dset In].
  - intros [E|[]]. injection E as <- <-. auto.
  - destruct (text_eqb k k0) eqn:E; cbn [In].
    + apply text_eqb_eq in E. subst k0. intros [E2|H]; [injection E2 as <- <-; auto | auto].
    + intros [E2|H]; [auto | destruct (IH H); auto].
Qed.

Lemma keys_set c name k v k' :
  In k' (cfg_keys (sect_set_opt c name k v)) -> k' = k \/ In k' (cfg_keys c).
Proof.
  unfold sect_set_opt, cfg_keys. destruct (assoc name (c_sections c)) as [d|] eqn:E; cbn [c_defaults c_sections]; intro H;
    apply in_app_or in H; destruct H as [H|H].
  - right. apply in_or_app. auto.
  - apply in_concat_sections in H. destruct H as (s & d' & Hin & Hk).
    apply In_dset_val in Hin. destruct Hin as [[-> ->]|Hin].
    + apply dset_keys_in in Hk. destruct Hk as [->|Hk]; [auto|]. right. apply in_or_app. right.
      apply in_concat_sections. exists name, d. split; [apply assoc_In; exact E | exact Hk].
    + right. apply in_or_app. right. apply in_concat_sections. eauto.
  - apply dset_keys_in in H. destruct H as [->|H]; [auto|]. right. apply in_or_app. auto.
  - right. apply in_or_app. auto.
Qed.

Lemma keys_cfg_loop a lib_cfg server : forall opts c c' k,
  cfg_loop a lib_cfg server c opts = OK c' -> In k (cfg_keys c') -> In k (map fst opts) \/ In k (cfg_keys c).
Proof.
  induction opts as [|[o ty] opts IH]; intros c c' k H Hk; cbn [cfg_loop] in H.
  - apply OK_inj in H. subst. auto.
  - destruct (args_get a o) as [v|].
    + apply bind_ok in H. destruct H as (w & _ & H). destruct w.
      * apply bind_ok in H. destruct H as (s & _ & H). destruct (IH _ _ _ H Hk) as [Hin|Hin].
        { left. right. exact Hin. }
        { apply keys_set in Hin. destruct Hin as [->|Hin]; [left; left; reflexivity | right; exact Hin]. }
      * destruct (IH _ _ _ H Hk) as [Hin|Hin]; [left; right; exact Hin | right; exact Hin].
    + destruct (IH _ _ _ H Hk) as [Hin|Hin]; [left; right; exact Hin | right; exact Hin].
Qed.

(** merging a parsed file into a parser state brings in only the file's keys *)
Lemma dmerge_keys {A} k : forall (d d0 : dict A), In k (map fst (dmerge d0 d)) -> In k (map fst d0) \/ In k (map fst d).
Proof.
  unfold dmerge. induction d as [|[k1 v1] d IH]; intros d0 H; cbn [fold_left fst snd] in H; [auto|].
  apply IH in H. destruct H as [H|H]; [|right; right; exact H].
  apply dset_keys_in in H. destruct H as [->|H]; [right; left; reflexivity | left; exact H].
Qed.

Lemma merge_sections_keys k : forall (fcs secs0 : dict section),
  In k (List.concat (map (fun p => map fst (snd p)) (fold_left merge_section fcs secs0))) ->
  In k (List.concat (map (fun p => map fst (snd p)) secs0)) \/ In k (List.concat (map (fun p => map fst (snd p)) fcs)).
Proof.
  induction fcs as [|[n d] fcs IH]; intros secs0 H; cbn [fold_left] in H; [auto|].
  apply IH in H. destruct H as [H|H].
  - unfold merge_section in H. cbn [fst snd] in H. destruct (assoc n secs0) as [d0|] eqn:E.
    + apply in_concat_sections in H. destruct H as (s & d' & Hin & Hk). apply In_dset_val in Hin. destruct Hin as [[-> ->]|Hin].
      * apply dmerge_keys in Hk. destruct Hk as [Hk|Hk].
        { left. apply in_concat_sections. exists n, d0. split; [apply assoc_In; exact E | exact Hk]. }
        { right. cbn [map List.concat snd]. apply in_or_app. left. exact Hk. }
      * left. apply in_concat_sections. eauto.
    + rewrite map_app, concat_app in H. apply in_app_or in H. destruct H as [H|H]; [left; exact H|].
      right. cbn [map List.concat snd] in *. rewrite app_nil_r in H. apply in_or_app. left. exact H.
  - right. cbn [map List.concat snd]. apply in_or_app. right. exact H.
Qed.

Lemma cfg_merge_keys c0 fc k : In k (cfg_keys (cfg_merge c0 fc)) -> In k (cfg_keys c0) \/ In k (cfg_keys fc).
Proof.
  unfold cfg_keys, cfg_merge. cbn [c_defaults c_sections]. intro H. apply in_app_or in H. destruct H as [H|H].
  - apply dmerge_keys in H. destruct H; [left | right]; apply in_or_app; auto.
  - apply merge_sections_keys in H. destruct H; [left | right]; apply in_or_app; auto.
Qed.

(** the keys of the configuration mk_server_cfg builds *)
Lemma mk_server_cfg_keys uuid a memd user lib c cu k :
  mk_server_cfg uuid a memd user lib = OK c -> parse_opt user = OK cu ->
  In k (cfg_keys c) ->
  In k (map fst og_configurable) \/ k = T "clientuid" \/ In k (map fst memd) \/ In k (cfg_keys cu).
Proof.
  unfold mk_server_cfg. intros H Hcu Hk. apply bind_ok in H. destruct H as (c1 & H1 & H).
  assert (K1 : forall k, In k (cfg_keys c1) -> In k (map fst memd) \/ In k (cfg_keys cu)).
  { intros k0 Hk0. destruct user as [u|]; cbn [read_files parse_opt] in *.
    - apply bind_ok in H1. destruct H1 as (c1' & H1 & E). apply OK_inj in E. subst c1'.
      unfold read_text in H1. apply bind_ok in H1. destruct H1 as (fc & Hfc & E). apply OK_inj in E. subst c1.
      rewrite Hcu in Hfc. apply OK_inj in Hfc. subst fc.
      apply cfg_merge_keys in Hk0. destruct Hk0 as [Hk0|Hk0]; [left | right; exact Hk0].
      unfold cfg_keys in Hk0. cbn in Hk0. rewrite app_nil_r in Hk0. exact Hk0.
    - apply OK_inj in H1. subst c1. left. unfold cfg_keys in Hk0. cbn in Hk0. rewrite app_nil_r in Hk0. exact Hk0. }
  set (c2 := if has_key (T "clientuid") (c_defaults c1) then c1 else _) in H.
  assert (K2 : forall k, In k (cfg_keys c2) -> k = T "clientuid" \/ In k (cfg_keys c1)).
  { intros k0. subst c2. destruct (has_key (T "clientuid") (c_defaults c1)); [auto|].
    unfold cfg_keys. cbn [c_defaults c_sections]. intro Hk0. apply in_app_or in Hk0. destruct Hk0 as [Hk0|Hk0].
    - apply dset_keys_in in Hk0. destruct Hk0 as [->|Hk0]; [auto | right; apply in_or_app; auto].
    - right. apply in_or_app. auto. }
  destruct (args_get a (T "url")) as [url|]; [|discriminate].
  destruct (negb (py_truthy (get_or a (T "server") PNone)) || py_eq (get_or a (T "server") PNone) url); [discriminate|].
  destruct (get_or a (T "server") PNone) as [|s| | |]; try discriminate.
  apply bind_ok in H. destruct H as (lib_cfg & _ & H).
  apply (keys_cfg_loop _ _ _ _ _ _ k) in H; [|exact Hk]. destruct H as [H|H]; [auto|].
  assert (K3 : In k (cfg_keys c2)).
  { destruct (has_key s (c_sections c2)); [exact H|]. destruct (text_eqb s DEFAULTSECT).
    - unfold cfg_keys in *. cbn [c_defaults c_sections map app] in H. apply in_or_app. right. exact H.
    - unfold cfg_keys in *. cbn [c_defaults c_sections] in H. rewrite map_app, concat_app in H. cbn in H.
      rewrite app_nil_r in H. exact H. }
  apply K2 in K3. destruct K3 as [->|K3]; [auto|]. apply K1 in K3. destruct K3; auto.
Qed.

Lemma password_not_configurable : has_key (T "password") og_configurable = false.
Proof. vm_compute. reflexivity. Qed.

Lemma password_never_written_l :
  has_key (T "password") og_configurable = false /\
  forall uuid a memd user lib c cu,
    mk_server_cfg uuid a memd user lib = OK c -> parse_opt user = OK cu ->
    ~ In (T "password") (map fst memd) -> ~ In (T "password") (cfg_keys cu) ->
    ~ In (T "password") (cfg_keys c).
Proof.
  split; [exact password_not_configurable|]. intros uuid a memd user lib c cu H Hcu Hm Hu Hin.
  destruct (mk_server_cfg_keys _ _ _ _ _ _ _ _ H Hcu Hin) as [K|[K|[K|K]]]; try contradiction.
  - apply has_key_keys in K. rewrite password_not_configurable in K. discriminate.
  - discriminate.
Qed.

(** --dryrun: write_config returns before touching anything *)
Lemma dryrun_writes_nothing_l uuid a memd user lib d :
  args_get a (T "dryrun") = Some d -> py_truthy d = true -> write_config uuid a memd user lib = OK None.
Proof. unfold write_config. intros -> ->. reflexivity. Qed.

Lemma dryrun_run_l lookup uuid fi user cli a w :
  run_ofxget lookup uuid fi user cli = OK (a, w) -> py_truthy (get_or a (T "dryrun") PNone) = true -> w = OK None.
Proof.
  unfold run_ofxget. intros H Hd. apply bind_ok in H. destruct H as (ucfg & _ & H). apply bind_ok in H. destruct H as (lib & _ & H).
  apply bind_ok in H. destruct H as (a' & _ & H).
  destruct (py_truthy (get_or a' (T "write") PNone)); apply OK_inj in H; injection H as <- <-; [|reflexivity].
  unfold write_config. unfold get_or in Hd. destruct (args_get a' (T "dryrun")) as [d|]; [|discriminate]. rewrite Hd. reflexivity.
Qed.
