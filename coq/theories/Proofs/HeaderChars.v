(** Facts about the generated character classes and the small text utilities of Model/Header.v, by finite sweeps
    (vm_compute over the ASCII range / the three-digit numbers) lifted with forallb_forall, and by induction. *)
From OfxV Require Import Base.Prelude Base.Digits Gen.HeaderGen Model.Header Model.HeaderLayout.
From Coq Require Import ZifyBool ZifyN ZifyNat.
Local Open Scope N_scope.

Definition Nrange (n : nat) : list N := map N.of_nat (seq 0 n).
Lemma Nrange_in n c : c < N.of_nat n -> In c (Nrange n).
Proof. intro H. apply in_map_iff. exists (N.to_nat c). split; [lia|]. apply in_seq. lia. Qed.
Lemma sweep (P : N -> bool) n : forallb P (Nrange n) = true -> forall c, c < N.of_nat n -> P c = true.
Proof. intros S c H. rewrite forallb_forall in S. apply S, Nrange_in, H. Qed.

Lemma sweep_impl (P Q : N -> bool) n :
  forallb (fun c => implb (P c) (Q c)) (Nrange n) = true -> forall c, c < N.of_nat n -> P c = true -> Q c = true.
Proof. intros S c H HP. pose proof (sweep _ n S c H) as F. cbv beta in F. rewrite HP in F. exact F. Qed.

Lemma uidc_lt c : uidc c = true -> c < 128.
Proof. unfold uidc. lia. Qed.
Lemma wsc_lt c : wsc c = true -> c < 128.
Proof. unfold wsc. lia. Qed.
Lemma is_digit_lt c : is_digit c = true -> c < 128.
Proof. unfold is_digit. lia. Qed.
Lemma is_AZ_lt c : is_AZ c = true -> c < 128.
Proof. unfold is_AZ. lia. Qed.

Lemma uidc_word_dash c : uidc c = true -> is_word_dash c = true.
Proof. intro U. refine (sweep_impl uidc is_word_dash 128 _ c (uidc_lt c U) U). vm_compute. reflexivity. Qed.
Lemma uidc_not_space c : uidc c = true -> is_space c = false.
Proof. intro U. apply negb_true_iff. refine (sweep_impl uidc (fun c => negb (is_space c)) 128 _ c (uidc_lt c U) U). vm_compute. reflexivity. Qed.
Lemma uidc_not_colon c : uidc c = true -> c <> 58.
Proof. unfold uidc. lia. Qed.
Lemma wsc_space c : wsc c = true -> is_space c = true.
Proof. intro U. refine (sweep_impl wsc is_space 128 _ c (wsc_lt c U) U). vm_compute. reflexivity. Qed.
Lemma digit_decimal c : is_digit c = true -> is_decimal c = true.
Proof. intro U. refine (sweep_impl is_digit is_decimal 128 _ c (is_digit_lt c U) U). vm_compute. reflexivity. Qed.
Lemma digit_not_space c : is_digit c = true -> is_space c = false.
Proof. intro U. apply negb_true_iff. refine (sweep_impl is_digit (fun c => negb (is_space c)) 128 _ c (is_digit_lt c U) U). vm_compute. reflexivity. Qed.

(** whitespace is outside every value class, on all of Unicode (the space table is finite) *)
Definition space_facts (c : N) : bool :=
  negb (is_word_dash c) && negb (is_decimal c) && negb (is_AZ c) && negb (is_enc c) && negb (is_word c) && negb (c =? 58).
Lemma space_table_facts : forallb space_facts space_table = true.
Proof. vm_compute. reflexivity. Qed.
Lemma is_space_in c : is_space c = true -> In c space_table.
Proof.
  unfold is_space, mem_N. intro H. apply existsb_exists in H. destruct H as [x [I E]].
  apply N.eqb_eq in E. subst. exact I.
Qed.
Lemma space_fact c : is_space c = true -> space_facts c = true.
Proof. intro H. pose proof space_table_facts as S. rewrite forallb_forall in S. apply S, is_space_in, H. Qed.
Lemma space_not_word_dash c : is_space c = true -> is_word_dash c = false.
Proof. intro H. apply space_fact in H. unfold space_facts in H. lia. Qed.
Lemma space_not_decimal c : is_space c = true -> is_decimal c = false.
Proof. intro H. apply space_fact in H. unfold space_facts in H. lia. Qed.
Lemma space_not_AZ c : is_space c = true -> is_AZ c = false.
Proof. intro H. apply space_fact in H. unfold space_facts in H. destruct (is_AZ c); [|reflexivity]. lia. Qed.
Lemma space_not_enc c : is_space c = true -> is_enc c = false.
Proof. intro H. apply space_fact in H. unfold space_facts in H. destruct (is_enc c); [|reflexivity]. lia. Qed.
Lemma space_not_word c : is_space c = true -> is_word c = false.
Proof. intro H. apply space_fact in H. unfold space_facts in H. lia. Qed.
Lemma space_not_colon c : is_space c = true -> c <> 58.
Proof. intro H. apply space_fact in H. unfold space_facts in H. lia. Qed.

(** * three-digit numbers: str(int) then int(str), and the digits are decimal digits *)
Definition num_ok (n : N) : bool :=
  option_eqb Z.eqb (int_of_text (dec_of_N n)) (Some (Z.of_N n))
  && forallb is_digit (dec_of_N n) && negb (len (dec_of_N n) =? 0).
Lemma num_ok_sweep : forallb num_ok (Nrange 1000) = true.
Proof. vm_compute. reflexivity. Qed.
Lemma int_of_dec n : n < 1000 -> int_of_text (dec_of_N n) = Some (Z.of_N n).
Proof.
  intro H. pose proof (sweep num_ok 1000 num_ok_sweep n H) as F. unfold num_ok in F.
  rewrite !andb_true_iff in F. destruct F as [[F _] _].
  destruct (int_of_text (dec_of_N n)) as [z|]; cbn in F; [|discriminate]. apply Z.eqb_eq in F. congruence.
Qed.
Lemma dec_nonempty n : dec_of_N n <> [].
Proof.
  unfold dec_of_N. intro E. apply uint_to_text_nil in E.
  destruct n as [|p]; [discriminate E|]. cbn in E. exact (DecimalPos.Unsigned.to_uint_nonnil p E).
Qed.
Lemma dec_decimal n : forallb is_decimal (dec_of_N n) = true.
Proof.
  pose proof (dec_of_N_all_digits n) as D. rewrite forallb_forall in *. intros c I. apply digit_decimal, D, I.
Qed.

(** * list utilities *)
Lemma forallb_app' {A} (p : A -> bool) a b : forallb p (a ++ b) = forallb p a && forallb p b.
Proof. apply forallb_app. Qed.
Lemma len_app a b : len (a ++ b) = len a + len b.
Proof. unfold len. rewrite app_length. lia. Qed.
Lemma len_cons c a : len (c :: a) = 1 + len a.
Proof. unfold len. cbn [List.length]. lia. Qed.

Lemma skipws_app_space w s : forallb is_space w = true -> skipws (w ++ s) = skipws s.
Proof. induction w as [|c w IH]; [reflexivity|]. cbn [forallb app skipws]. intro H. apply andb_true_iff in H. destruct H as [H1 H2]. rewrite H1. auto. Qed.
Lemma skipws_stop c s : is_space c = false -> skipws (c :: s) = c :: s.
Proof. intro H. cbn [skipws]. rewrite H. reflexivity. Qed.
Lemma skipws_nil : skipws [] = [].
Proof. reflexivity. Qed.

Lemma span_app p v c rest : forallb p v = true -> p c = false -> span p (v ++ c :: rest) = (v, c :: rest).
Proof.
  induction v as [|x v IH]; cbn [forallb app span]; intros H1 H2.
  - rewrite H2. reflexivity.
  - apply andb_true_iff in H1. destruct H1 as [Hx Hv]. rewrite Hx, (IH Hv H2). reflexivity.
Qed.
Lemma span_all p v : forallb p v = true -> span p v = (v, []).
Proof.
  induction v as [|x v IH]; cbn [forallb span]; intro H; [reflexivity|].
  apply andb_true_iff in H. destruct H as [Hx Hv]. rewrite Hx, (IH Hv). reflexivity.
Qed.
Lemma strip_prefix_app p s : strip_prefix p (p ++ s) = Some s.
Proof. induction p as [|a p IH]; [destruct s; reflexivity|]. cbn [app strip_prefix]. rewrite N.eqb_refl. exact IH. Qed.
