(** C02: every rendering of a well-formed document parses to the document's tree
    ([parse_render_faithful_l]) and its consequences. *)
From OfxV Require Import Base.Prelude Base.SgmlBase Model.Sgml Model.SgmlSpec Proofs.SgmlNest Proofs.SgmlScan.
From Coq Require Import Lia.
Local Open Scope N_scope.

(** ---------------------------------------------------------------- induction over nested documents *)
Section RdocInd.
  Variable P : rdoc -> Prop.
  Hypothesis Hleaf : forall t cd w1 x w2 cl w3, P (RLeaf t cd w1 x w2 cl w3).
  Hypothesis Hagg : forall t ws1 ch ws2, Forall P ch -> P (RAgg t ws1 ch ws2).
  Fixpoint rdoc_ind' (r : rdoc) : P r :=
    match r with
    | RLeaf t cd w1 x w2 cl w3 => Hleaf t cd w1 x w2 cl w3
    | RAgg t ws1 ch ws2 =>
      Hagg t ws1 ch ws2 ((fix go (l : list rdoc) : Forall P l :=
                            match l with [] => Forall_nil P | c :: l' => Forall_cons c (rdoc_ind' c) (go l') end) ch)
    end.
End RdocInd.
Section DocInd.
  Variable P : doc -> Prop.
  Hypothesis Hleaf : forall t x, P (Leaf t x).
  Hypothesis Hagg : forall t ch, Forall P ch -> P (Agg t ch).
  Fixpoint doc_ind' (d : doc) : P d :=
    match d with
    | Leaf t x => Hleaf t x
    | Agg t ch =>
      Hagg t ch ((fix go (l : list doc) : Forall P l :=
                    match l with [] => Forall_nil P | c :: l' => Forall_cons c (doc_ind' c) (go l') end) ch)
    end.
End DocInd.

(** ---------------------------------------------------------------- events of a document *)
Fixpoint events_doc (d : doc) : list ev :=
  match d with
  | Leaf t x => [ELeaf t x]
  | Agg t [] => [EEmpty t]
  | Agg t ch => EOpen t :: (flat_map events_doc ch ++ [EClose t])%list
  end.

Lemma forest_events_doc d : forest (events_doc d) [tree_of d].
Proof.
  induction d as [t x|t ch IH] using doc_ind'.
  - cbn. repeat constructor.
  - assert (Hf : forest (flat_map events_doc ch) (map tree_of ch)).
    { induction IH as [|c ch' Hc _ IHl]; cbn [flat_map map]; [constructor|].
      change (tree_of c :: map tree_of ch') with ([tree_of c] ++ map tree_of ch')%list. apply forest_app; assumption. }
    destruct ch as [|c ch'].
    + cbn. repeat constructor.
    + change (events_doc (Agg t (c :: ch'))) with (EOpen t :: (flat_map events_doc (c :: ch') ++ EClose t :: [])%list).
      cbn [tree_of]. constructor; [exact Hf|constructor].
Qed.

Lemma events_flatten r : map ev_of_tok (flatten r) = events_doc (erase r).
Proof.
  induction r as [t cd w1 x w2 cl w3|t ws1 ch ws2 IH] using rdoc_ind'; [reflexivity|].
  assert (Hf : map ev_of_tok (flat_map flatten ch) = flat_map events_doc (map erase ch)).
  { induction IH as [|c ch' Hc _ IHl]; cbn [flat_map map]; [reflexivity|]. rewrite map_app, Hc, IHl. reflexivity. }
  destruct ch as [|c ch']; [reflexivity|].
  change (flatten (RAgg t ws1 (c :: ch') ws2)) with (TOpen t ws1 :: (flat_map flatten (c :: ch') ++ [TClose t ws2])%list).
  cbn [map ev_of_tok]. rewrite map_app, Hf. reflexivity.
Qed.

(** ---------------------------------------------------------------- the tokens of a rendering are well formed ... *)
Lemma forallb_flat_map {A B} (p : B -> bool) (f : A -> list B) l :
  forallb p (flat_map f l) = forallb (fun a => forallb p (f a)) l.
Proof. induction l as [|a l IH]; cbn [flat_map forallb]; [reflexivity|]. rewrite forallb_app', IH. reflexivity. Qed.

Lemma flatten_wf r : wf_doc (erase r) = true -> rend_ok r = true -> forallb tok_wf (flatten r) = true.
Proof.
  induction r as [t cd w1 x w2 cl w3|t ws1 ch ws2 IH] using rdoc_ind'; intros Hd Hr.
  - cbn [erase wf_doc] in Hd. cbn [rend_ok] in Hr. cbn [flatten forallb tok_wf].
    apply andb_true_iff in Hd as [Ht Hx]. rewrite !andb_true_iff in Hr. destruct Hr as [[[H1 H2] H3] H4].
    rewrite Ht, Hx, H1, H2, H3, H4. reflexivity.
  - cbn [erase wf_doc] in Hd. cbn [rend_ok] in Hr. apply andb_true_iff in Hd as [Ht Hch].
    rewrite !andb_true_iff in Hr. destruct Hr as [[[H1 H2] H3] _].
    assert (Hf : forallb tok_wf (flat_map flatten ch) = true).
    { rewrite forallb_flat_map. rewrite forallb_forall in *. intros c Hin. rewrite Forall_forall in IH.
      apply IH; [exact Hin| |apply H3; exact Hin]. apply Hch. apply in_map. exact Hin. }
    destruct ch as [|c ch'].
    + cbn [flatten forallb tok_wf]. rewrite Ht, H1, H2. reflexivity.
    + change (flatten (RAgg t ws1 (c :: ch') ws2)) with (TOpen t ws1 :: (flat_map flatten (c :: ch') ++ [TClose t ws2])%list).
      cbn [forallb tok_wf]. rewrite forallb_app', Hf. cbn [forallb tok_wf]. rewrite Ht, H1, H2. reflexivity.
Qed.

(** ---------------------------------------------------------------- ... and no end tag is captured by its neighbour *)
Definition is_close (k : tok) : bool := match k with TClose _ _ => true | _ => false end.
Lemma adj_not_close a b : is_close b = false -> adj a b = true.
Proof. destruct a as [| | ? ? ? ? ? [|] ?|], b; try reflexivity; discriminate. Qed.

Lemma chain_ok_app_start a b : chain_ok a = true -> chain_ok b = true ->
  (b = [] \/ exists k r, b = k :: r /\ is_close k = false) -> chain_ok (a ++ b) = true.
Proof.
  intros Ha Hb Hh. induction a as [|x a IH]; [exact Hb|]. destruct a as [|y a'].
  - cbn [app]. destruct Hh as [->|(k & r & -> & Hk)]; [reflexivity|]. cbn [chain_ok]. rewrite (adj_not_close x k Hk).
    exact Hb.
  - cbn [chain_ok] in Ha. apply andb_true_iff in Ha as [Hxy Ha]. cbn [app chain_ok]. rewrite Hxy. apply IH. exact Ha.
Qed.
Lemma chain_ok_snoc ts k : chain_ok ts = true -> (forall pre l, ts = (pre ++ [l])%list -> adj l k = true) ->
  chain_ok (ts ++ [k]) = true.
Proof.
  intros Ha Hl. induction ts as [|x ts IH]; [reflexivity|]. destruct ts as [|y ts'].
  - cbn [app chain_ok]. rewrite (Hl [] x eq_refl). reflexivity.
  - cbn [chain_ok] in Ha. apply andb_true_iff in Ha as [Hxy Ha]. cbn [app chain_ok]. rewrite Hxy. apply IH; [exact Ha|].
    intros pre l E. apply (Hl (x :: pre) l). rewrite E. reflexivity.
Qed.

Lemma flatten_head r : exists k rest, flatten r = k :: rest /\ is_close k = false.
Proof. destruct r as [t ws1 [|c ch] ws2|t cd w1 x w2 cl w3]; cbn [flatten]; eauto. Qed.
Lemma flat_map_flatten_head ch : flat_map flatten ch = [] \/ exists k r, flat_map flatten ch = k :: r /\ is_close k = false.
Proof.
  destruct ch as [|c ch]; [left; reflexivity|right]. cbn [flat_map].
  destruct (flatten_head c) as (k & rest & -> & Hk). cbn [app]. eauto.
Qed.
(** the last token of a rendering *)
Lemma flatten_last r : exists pre k, flatten r = (pre ++ [k])%list /\
  match r with
  | RLeaf t cd w1 x w2 cl w3 => k = TLeaf t cd w1 x w2 cl w3
  | RAgg _ _ _ _ => match k with TClose _ _ | TEmpty _ _ _ => True | _ => False end
  end.
Proof.
  destruct r as [t ws1 [|c ch] ws2|t cd w1 x w2 cl w3].
  - exists [], (TEmpty t ws1 ws2). split; [reflexivity|exact I].
  - exists (TOpen t ws1 :: flat_map flatten (c :: ch)), (TClose t ws2). split; [reflexivity|exact I].
  - exists [], (TLeaf t cd w1 x w2 cl w3). split; reflexivity.
Qed.

Lemma text_eqb_sym a b : text_eqb a b = text_eqb b a.
Proof.
  destruct (text_eqb a b) eqn:E1, (text_eqb b a) eqn:E2; try reflexivity.
  - apply text_eqb_eq in E1. subst. rewrite text_eqb_refl in E2. discriminate.
  - apply text_eqb_eq in E2. subst. rewrite text_eqb_refl in E1. discriminate.
Qed.

Lemma flatten_chain r : rend_ok r = true -> chain_ok (flatten r) = true.
Proof.
  induction r as [t cd w1 x w2 cl w3|t ws1 ch ws2 IH] using rdoc_ind'; intro Hr; [reflexivity|].
  cbn [rend_ok] in Hr. rewrite !andb_true_iff in Hr. destruct Hr as [[[_ _] H3] H4].
  assert (Hf : chain_ok (flat_map flatten ch) = true).
  { clear H4. induction IH as [|c ch' Hc _ IHl]; [reflexivity|]. cbn [forallb] in H3. apply andb_true_iff in H3 as [Hc3 H3].
    cbn [flat_map]. apply chain_ok_app_start; [apply Hc; exact Hc3|apply IHl; exact H3|apply flat_map_flatten_head]. }
  destruct ch as [|c ch']; [reflexivity|].
  change (flatten (RAgg t ws1 (c :: ch') ws2)) with (TOpen t ws1 :: (flat_map flatten (c :: ch') ++ [TClose t ws2])%list).
  assert (Hs : chain_ok (flat_map flatten (c :: ch') ++ [TClose t ws2]) = true).
  { apply chain_ok_snoc; [exact Hf|]. intros pre l E.
    (* the last child *)
    assert (Hlast : exists ch0 cn, (c :: ch' = ch0 ++ [cn])%list) by (exists (removelast (c :: ch')), (last (c :: ch') c); apply app_removelast_last; discriminate).
    destruct Hlast as (ch0 & cn & Ech). rewrite Ech in E, H4. rewrite rev_app_distr in H4. cbn [rev app] in H4.
    rewrite flat_map_app in E. cbn [flat_map] in E. rewrite app_nil_r in E.
    destruct (flatten_last cn) as (pre' & k & Ek & Hk). rewrite Ek, app_assoc in E.
    apply app_inj_tail in E as [_ <-].
    destruct cn as [u ws1' ch'' ws2'|u cd w1 x w2 cl w3].
    - destruct k; try contradiction; reflexivity.
    - subst k. destruct cl; [reflexivity|]. cbn [open_leaf_named] in H4. cbn [adj]. rewrite text_eqb_sym. exact H4. }
  destruct (flatten_head c) as (k & rest & Ec & Hk).
  cbn [flat_map] in *. rewrite Ec in *. cbn [app] in *. cbn [chain_ok]. rewrite (adj_not_close _ k Hk). exact Hs.
Qed.

(** ---------------------------------------------------------------- the theorem *)
Theorem parse_render_faithful_l ws0 r d :
  wf_doc d = true -> ok_rendering ws0 r d -> parse repaired (render ws0 r) = OK (Some (tree_of d)).
Proof.
  intros Hd (<- & Hr & H0). unfold parse, render.
  rewrite (scan_leading_blank ws0 _ H0).
  rewrite (scan_render_toks _ (forallb_wf_shape _ (flatten_wf r Hd Hr)) (flatten_chain r Hr)).
  rewrite (feed_events repaired _ b0 _ (events_of_toks _ (flatten_wf r Hd Hr))).
  rewrite events_flatten. apply (run_forest _ _ (forest_events_doc (erase r))).
Qed.

(** all renderings of one document agree *)
Corollary all_renderings_agree_l d ws1 r1 ws2 r2 :
  wf_doc d = true -> ok_rendering ws1 r1 d -> ok_rendering ws2 r2 d ->
  parse repaired (render ws1 r1) = parse repaired (render ws2 r2).
Proof. intros Hd H1 H2. rewrite (parse_render_faithful_l _ _ _ Hd H1), (parse_render_faithful_l _ _ _ Hd H2). reflexivity. Qed.

(** nothing dropped, merged, re-parented or invented: the tree determines the document *)
Lemma tree_of_injective_l d1 : forall d2, tree_of d1 = tree_of d2 -> d1 = d2.
Proof.
  induction d1 as [t x|t ch IH] using doc_ind'; intros [t2 ch2|t2 x2] E; cbn [tree_of] in E; try discriminate.
  - inversion E; subst. reflexivity.
  - inversion E as [[Et Ech]]. subst t2. f_equal. clear E. revert ch2 Ech.
    induction IH as [|c ch' Hc _ IHl]; intros [|c2 ch2] Ech; cbn [map] in Ech; try discriminate; [reflexivity|].
    inversion Ech as [[E1 E2]]. f_equal; [apply Hc; exact E1|apply IHl; exact E2].
Qed.

(** two renderings parse alike ONLY IF they render the same document *)
Corollary same_tree_same_doc_l d1 d2 ws1 r1 ws2 r2 :
  wf_doc d1 = true -> wf_doc d2 = true -> ok_rendering ws1 r1 d1 -> ok_rendering ws2 r2 d2 ->
  parse repaired (render ws1 r1) = parse repaired (render ws2 r2) -> d1 = d2.
Proof.
  intros Hd1 Hd2 H1 H2 E. rewrite (parse_render_faithful_l _ _ _ Hd1 H1), (parse_render_faithful_l _ _ _ Hd2 H2) in E.
  inversion E as [E']. apply tree_of_injective_l. exact E'.
Qed.

(** the all-end-tags (XML) and the no-leaf-end-tags (SGML) spellings without blanks *)
Fixpoint plain_rendering (closed : bool) (d : doc) : rdoc :=
  match d with
  | Leaf t x => RLeaf t false [] x [] closed []
  | Agg t ch => RAgg t [] (map (plain_rendering closed) ch) []
  end.
Lemma erase_plain closed d : erase (plain_rendering closed d) = d.
Proof.
  induction d as [t x|t ch IH] using doc_ind'; [reflexivity|]. cbn [plain_rendering erase]. f_equal.
  rewrite map_map. induction IH as [|c ch' Hc _ IHl]; [reflexivity|]. cbn [map]. rewrite Hc, IHl. reflexivity.
Qed.
Lemma rend_ok_xml d : rend_ok (plain_rendering true d) = true.
Proof.
  induction d as [t x|t ch IH] using doc_ind'; [reflexivity|]. cbn [plain_rendering rend_ok blank forallb andb].
  assert (Hall : forallb rend_ok (map (plain_rendering true) ch) = true).
  { induction IH as [|c ch' Hc _ IHl]; [reflexivity|]. cbn [map forallb]. rewrite Hc, IHl. reflexivity. }
  rewrite Hall. cbn [andb]. apply negb_true_iff.
  destruct (rev (map (plain_rendering true) ch)) as [|c l] eqn:E; [reflexivity|].
  assert (Hin : In c (map (plain_rendering true) ch)) by (apply in_rev; rewrite E; left; reflexivity).
  apply in_map_iff in Hin as (d0 & <- & _). destruct d0; reflexivity.
Qed.
Corollary xml_rendering_faithful_l d : wf_doc d = true ->
  parse repaired (render [] (plain_rendering true d)) = OK (Some (tree_of d)).
Proof.
  intro Hd. apply parse_render_faithful_l; [exact Hd|]. split; [apply erase_plain|]. split; [apply rend_ok_xml|reflexivity].
Qed.
