(** The C10 / C11 property theorems at the level of [elem] (any type, parameters, required flag, ListElement nesting), assembled from the per-type
    lemmas of ScalarsProofs / ScalarsLexProofs / ScalarsText / PyDecimalProofs; Props/C10/*.v and Props/C11/*.v restate them one per file. *)
From OfxV Require Import Base.Prelude Base.Digits Gen.ScalarsGen Model.PyDecimal Model.Scalars Model.ScalarsLex Proofs.ScalarsText Proofs.PyDecimalProofs Proofs.ScalarsProofs Proofs.ScalarsLexProofs.
Local Open Scope N_scope.

Lemma Integer_bool_reads_back_as_int_l : forall e l b s w,
  elem_sty e = TInteger l -> unconvert e (PBool b) = OK (Some s, w) ->
  convert e (PBool b) = OK (PBool b, false) /\ convert e (PStr s) = OK (PInt (Z_of_bool b), false)
  /\ (s = [49] /\ b = true \/ s = [48] /\ b = false).
Proof.
  intros e l b s w Ht Hu. rewrite !convert_elem. rewrite unconvert_elem in Hu. rewrite Ht in *. cbn [unconvert_sty convert_sty] in *.
  destruct (unconvert_integer l (elem_required e) (PBool b)) as [o|] eqn:E; cbn [nowarn rmap] in Hu; [|discriminate]. injection Hu as -> _.
  destruct (integer_bool_reads_back l _ b s E) as [H1 H2]. rewrite H1, H2. repeat split.
  cbn [unconvert_integer] in E. destruct (enforce_length_int l (Z_of_bool b)) as [[]|]; cbn [bind] in E; [|discriminate].
  destruct b; vm_compute in E; injection E as <-; auto.
Qed.

Lemma ListElement_delegates_l : forall c r v, convert (ListElem c r) v = convert c v /\ unconvert (ListElem c r) v = unconvert c v.
Proof. intros. split; reflexivity. Qed.

Lemma T_bad_text_rejected_on_read_l : forall e s,
  (elem_sty e = TBool -> s <> [89] -> s <> [78] -> convert e (PStr s) = Err Reject) /\
  (forall valid, elem_sty e = TOneOf valid -> s <> [] -> ~ In s valid -> convert e (PStr s) = Err Reject) /\
  (forall l, elem_sty e = TInteger l -> s <> [] -> has_digit s = false -> convert e (PStr s) = Err Reject) /\
  (forall sc, elem_sty e = TDecimal sc -> has_digit s = false -> is_ok (convert e (PStr s)) = false).
Proof.
  intros e s. rewrite convert_elem. repeat split.
  - intros -> H1 H2. exact (bool_bad_text _ s H1 H2).
  - intros valid -> H1 H2. exact (oneof_bad_text valid _ s H1 H2).
  - intros l -> H1 H2. exact (integer_non_numeric l _ s H1 H2).
  - intros sc -> H. exact (decimal_non_numeric sc _ s H).
Qed.

Lemma T_canonical_fixed_point_l : forall e s v w,
  convert e (PStr s) = OK (v, w) -> v <> PNone -> entity_free v ->
  exists c w1, unconvert e v = OK (Some c, w1) /\ convert e (PStr c) = OK (v, w1)
               /\ bind (convert e (PStr c)) (fun vw => unconvert e (fst vw)) = OK (Some c, w1).
Proof.
  intros e s v w. rewrite convert_elem. intros Hc Hn Hf.
  destruct (canonical_sty _ _ _ _ _ Hc Hn Hf) as (c & w1 & Hu & Hc2). exists c, w1.
  rewrite convert_elem, unconvert_elem. repeat split; try assumption. rewrite Hc2. cbn [bind fst]. rewrite unconvert_elem. exact Hu.
Qed.

Lemma T_canonical_fixed_point_unguarded_refuted_l : exists e s v w c w1,
  convert e (PStr s) = OK (v, w) /\ v <> PNone /\ unconvert e v = OK (Some c, w1) /\ convert e (PStr c) <> OK (v, w1).
Proof.
  exists (Elem (TString None true) false), (T "&amp;amp;"), (PStr (T "&amp;")), false, (T "&amp;"), false.
  split; [vm_compute; reflexivity|]. split; [discriminate|]. split; [vm_compute; reflexivity|]. vm_compute. discriminate.
Qed.

Lemma T_convert_unconvert_l : forall e v w s w',
  value_wf v -> ~ bool_in_integer (elem_sty e) v ->
  convert e v = OK (v, w) -> unconvert e v = OK (Some s, w') ->
  convert e (PStr s) = OK (v, w').
Proof. intros e v w s w'. rewrite !convert_elem, unconvert_elem. apply convert_unconvert_sty. Qed.

Lemma T_limits_strict_l : forall e,
  (forall n strict s, elem_sty e = TString (Some n) strict ->
     (tlen s <= n -> unconvert e (PStr s) = OK (Some s, false)) /\
     (n < tlen s -> (strict = true -> unconvert e (PStr s) = Err Reject) /\ (strict = false -> unconvert e (PStr s) = OK (Some s, true))) /\
     (s <> [] -> string_unescape s = s ->
        (tlen s <= n -> convert e (PStr s) = OK (PStr s, false)) /\
        (n < tlen s -> (strict = true -> convert e (PStr s) = Err Reject) /\ (strict = false -> convert e (PStr s) = OK (PStr s, true))))) /\
  (forall n z, elem_sty e = TInteger (Some n) ->
     ((Z.abs z < Z.of_N (10 ^ n))%Z ->
        convert e (PInt z) = OK (PInt z, false) /\
        ((List.length (dec_of_N (Z.abs_N z)) <= MAX_STR_DIGITS)%nat ->
           unconvert e (PInt z) = OK (Some (Z_text z), false) /\ convert e (PStr (Z_text z)) = OK (PInt z, false))) /\
     ((Z.of_N (10 ^ n) <= Z.abs z)%Z ->
        convert e (PInt z) = Err Reject /\ unconvert e (PInt z) = Err Reject /\
        ((List.length (dec_of_N (Z.abs_N z)) <= MAX_STR_DIGITS)%nat -> convert e (PStr (Z_text z)) = Err Reject))) /\
  (forall n, elem_sty e = TDecimal (Some n) ->
     (forall neg c ex, ex <> quantum_exp n -> unconvert e (PDec (Fin neg c ex)) = Err Reject) /\
     (forall x d w, convert e x = OK (PDec d, w) -> exists neg c, d = Fin neg c (quantum_exp n) /\ (c = 0 \/ (ndigits c <= PREC)%Z))) /\
  (forall sc d, elem_sty e = TDecimal sc -> is_finite d = false -> unconvert e (PDec d) = Err Reject /\ convert e (PDec d) = Err Reject).
Proof.
  intro e. split; [|split; [|split]].
  - intros n strict s H. rewrite !convert_elem, !unconvert_elem, H.
    destruct (string_limits n strict (elem_required e) s) as (A & B & C).
    split; [exact A|]. split.
    + intro Hlt. destruct (B Hlt) as [B1 B2]. split; intros ->; assumption.
    + intros Hne Hfree. destruct (C Hne Hfree) as [C1 C2]. split; [exact C1|]. intro Hlt. destruct (C2 Hlt) as [C3 C4]. split; intros ->; assumption.
  - intros n z H. rewrite !convert_elem, !unconvert_elem, H. destruct (integer_limits n (elem_required e) z) as [A B]. split.
    + intro Hlt. destruct (A Hlt) as (A1 & A2 & A3). split; [exact A1|exact A3].
    + exact B.
  - intros n H. destruct (decimal_limits n (elem_required e)) as (A & B & _). split.
    + intros neg c ex Hx. rewrite unconvert_elem, H. exact (A neg c ex Hx).
    + intros x d w. rewrite convert_elem, H. exact (B x d w).
  - intros sc d H Hf. rewrite convert_elem, unconvert_elem, H. destruct (decimal_limits 0 (elem_required e)) as (_ & _ & C). exact (C d Hf sc).
Qed.

Lemma T_none_passthrough_l : forall e,
  (elem_required e = false <-> convert e PNone = OK (PNone, false)) /\ (elem_required e = false <-> unconvert e PNone = OK (None, false)) /\
  (elem_required e = true <-> convert e PNone = Err Reject) /\ (elem_required e = true <-> unconvert e PNone = Err Reject).
Proof.
  intro e. rewrite convert_elem, unconvert_elem. destruct (none_passthrough_sty (elem_sty e) (elem_required e)) as [H0 H1].
  destruct (elem_required e); [destruct (H1 eq_refl) as [-> ->]|destruct (H0 eq_refl) as [-> ->]]; repeat split; intros; try reflexivity; try discriminate.
Qed.

Lemma T_wrong_type_rejected_on_write_l : forall e v, right_type (elem_sty e) v = false -> unconvert e v = Err Reject.
Proof. intros e v. rewrite unconvert_elem. apply wrong_type_rejected_sty. Qed.

Lemma decimal_plain_roundtrip_l : forall neg c e,
  (e <= 0)%Z -> representable c e = true ->
  of_string (to_plain_fin neg c e) = OK (Fin neg c e) /\ of_string_comma (to_plain_fin neg c e) = OK (Fin neg c e)
  /\ (forall e0 q d, quantize neg c e0 q = OK d -> exists c', d = Fin neg c' q /\ dec_wf d = true /\ quantize neg c' q q = OK d).
Proof.
  intros neg c e He Hr. split; [exact (decimal_plain_roundtrip_l neg c e He Hr)|]. split; [exact (decimal_plain_roundtrip_comma neg c e He Hr)|].
  intros e0 q d H. destruct (quantize_result _ _ _ _ _ H) as (c' & -> & Hq & Hc). exists c'. split; [reflexivity|].
  split; [exact (fits_representable c' q Hq Hc)|exact (quantize_fixed neg c' q Hq Hc)].
Qed.

Lemma unescape_escape_l : forall f s, string_unescape (wire_datum f s) = s.
Proof. intros f s. unfold string_unescape. apply unescape_escape_l. vm_compute. reflexivity. Qed.

Lemma closed_wire_data_ok_l : forall s, wire_data_ok (wire_datum WClosed s) = true /\ wire_datum WClosed s = flat_map esc1 s.
Proof. intro s. split; [apply wire_datum_ok|apply wire_datum_flat]. Qed.

Lemma unclosed_wire_data_ok_l : forall s, wire_data_ok (wire_datum WUnclosed s) = true /\ wire_datum WUnclosed s = wire_datum WClosed s.
Proof. intro s. split; [apply wire_datum_ok|rewrite !wire_datum_flat; reflexivity]. Qed.

Lemma unconvert_lexical_l : forall e v s w, unconvert e v = OK (Some s, w) -> lexical_ok (elem_sty e) s = true.
Proof. intros e v s w. rewrite unconvert_elem. apply unconvert_lexical_sty. Qed.

Lemma unrepaired_behaviour_refuted_l :
  (exists d, lexical_ok (TDecimal None) (to_sci d) = false /\ is_finite d = true) /\
  (exists d, lexical_ok (TDecimal None) (to_sci d) = false /\ is_finite d = false) /\
  (exists s, wire_data_ok (wire_datum_unclosed_unrepaired s) = false).
Proof.
  split; [exists (Fin false 1 2); vm_compute; auto|]. split; [exists (NaN false false 0); vm_compute; auto|].
  exists (T "p&a<ss"). vm_compute. reflexivity.
Qed.

Lemma unwritable_values_refused_l : forall e,
  (forall sc d, elem_sty e = TDecimal sc -> is_finite d = false -> unconvert e (PDec d) = Err Reject) /\
  (forall n neg c ex, elem_sty e = TDecimal (Some n) -> ex <> quantum_exp n -> unconvert e (PDec (Fin neg c ex)) = Err Reject) /\
  (forall n s, elem_sty e = TString (Some n) true -> n < tlen s -> unconvert e (PStr s) = Err Reject) /\
  (forall valid s, elem_sty e = TOneOf valid -> ~ In s valid -> unconvert e (PStr s) = Err Reject) /\
  (forall n z, elem_sty e = TInteger (Some n) -> (Z.of_N (10 ^ n) <= Z.abs z)%Z -> unconvert e (PInt z) = Err Reject) /\
  (forall v, right_type (elem_sty e) v = false -> unconvert e v = Err Reject).
Proof.
  intro e. repeat split.
  - intros sc d H Hf. rewrite unconvert_elem, H. exact (nonfinite_refused sc _ d Hf).
  - intros n neg c ex H Hx. rewrite unconvert_elem, H. destruct (decimal_limits n (elem_required e)) as (A & _). exact (A neg c ex Hx).
  - intros n s H Hlt. rewrite unconvert_elem, H. destruct (string_limits n true (elem_required e) s) as (_ & B & _). exact (proj1 (B Hlt)).
  - intros valid s H Hn. rewrite unconvert_elem, H. cbn [unconvert_sty unconvert_oneof]. destruct (mem_text s valid) eqn:E; [|reflexivity].
    apply mem_text_In in E. contradiction.
  - intros n z H Hz. rewrite unconvert_elem, H. destruct (integer_limits n (elem_required e) z) as [_ B]. exact (proj1 (proj2 (B Hz))).
  - intros v H. rewrite unconvert_elem. exact (wrong_type_rejected_sty _ _ v H).
Qed.
