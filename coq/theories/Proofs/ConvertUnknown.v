(** C07: inserting unknown or vendor-prefixed subtrees never changes the converted model.
    For EVERY class table, every element-converter oracle, every document, every insertion path, every subtree. *)
From OfxV Require Import Base.Prelude Model.Schema Model.Convert.
Local Open Scope string_scope.

Section Unknown.
  Variable sval : Type.
  Variable conv : N -> sin sval -> result (option sval).
  Variable S : schema.
  Notation inst := (inst sval).
  Notation kwval := (kwval sval).
  Notation acc := (acc sval).
  Notation from_etree := (from_etree sval conv S).
  Notation step := (step sval).
  Notation construct := (construct sval conv S).

  (** the accumulator without its warnings *)
  Definition core (a : acc) := match a with (args, kw, p, pl, ws, rn) => (args, kw, p, pl, rn) end.
  Definition warns (a : acc) : list string := match a with (_, _, _, _, ws, _) => ws end.
  Definition same_core (a b : result acc) : Prop :=
    match a, b with
    | OK x, OK y => core x = core y
    | Err j, Err k => j = k
    | _, _ => False
    end.

  Lemma same_core_refl a : same_core a a.
  Proof. destruct a as [x|k]; cbn; reflexivity. Qed.

  (** [step] looks at an element only through its tag, its text and the recursive conversion of it *)
  Lemma step_same_core fe fe' c st st' e e' :
    same_core st st' -> etag e = etag e' -> etext e = etext e' ->
    rmap fst (fe e) = rmap fst (fe' e') ->
    same_core (step fe c st e) (step fe' c st' e').
  Proof.
    intros Hs Ht Hx Hf. destruct st as [a|k], st' as [a'|k']; cbn in Hs; try contradiction; [|cbn; exact Hs].
    destruct a as [[[[[args kw] p] pl] ws] rn], a' as [[[[[args' kw'] p'] pl'] ws'] rn'].
    cbn in Hs. injection Hs as -> -> -> -> ->.
    unfold Convert.step. rewrite <- Ht, <- Hx.
    destruct (groomed_tag c rn' (etag e)) as [tag rn2].
    destruct (has_dot tag); [cbn; reflexivity|].
    destruct (index_of (lower tag) (map fst (ci_spec c))) as [idx|]; [|cbn; reflexivity].
    destruct (assoc (lower tag) (ci_spec c)) as [at_|]; [|cbn; reflexivity].
    destruct (Nat.ltb idx p' && negb (is_list_attr at_ && pl'))%bool; [cbn; reflexivity|].
    destruct (is_unsup at_).
    { destruct (is_list_attr at_); [cbn; reflexivity|]. destruct (kw_has sval kw' (lower tag)); cbn; reflexivity. }
    destruct (text_truthy (etext e)).
    { destruct (is_list_attr at_); [cbn; reflexivity|]. destruct (kw_has sval kw' (lower tag)); cbn; reflexivity. }
    destruct (negb (tag =? etag e)); [cbn; reflexivity|].
    destruct (fe e) as [[i w]|k], (fe' e') as [[i' w']|k']; cbn in Hf; try discriminate.
    - injection Hf as <-. destruct (is_list_attr at_); [cbn; reflexivity|]. destruct (kw_has sval kw' (lower tag)); cbn; reflexivity.
    - injection Hf as <-. cbn. reflexivity.
  Qed.

  Lemma fold_same_core fe c l : forall st st', same_core st st' ->
    same_core (fold_left (step fe c) l st) (fold_left (step fe c) l st').
  Proof.
    induction l as [|e l IH]; intros st st' H; [exact H|]. cbn [fold_left]. apply IH.
    apply step_same_core; [exact H|reflexivity|reflexivity|reflexivity].
  Qed.

  (** a subtree the enclosing class [c] does not define: vendor-prefixed, or its lower-cased tag is no attribute of [c];
      and it is not the wire spelling that groom renames (FROM in MAIL, YIELD in MFINFO/STOCKINFO), which IS defined *)
  Definition unknown_for (c : cinfo) (u : etree) : Prop :=
    (match ci_rename c with Some (wire, _) => etag u <> wire | None => True end) /\
    (has_dot (etag u) = true \/ index_of (lower (etag u)) (map fst (ci_spec c)) = None).

  Lemma groomed_tag_other c rn t : (match ci_rename c with Some (wire, _) => t <> wire | None => True end) -> groomed_tag c rn t = (t, rn).
  Proof.
    unfold groomed_tag. destruct (ci_rename c) as [[wire py]|]; [|reflexivity]. intro H.
    destruct (String.eqb_spec t wire) as [E|E]; [contradiction|]. reflexivity.
  Qed.

  Lemma step_unknown fe c st u : unknown_for c u -> same_core (step fe c st u) st.
  Proof.
    intros [Hr Hu]. destruct st as [a|k]; [|cbn; reflexivity].
    destruct a as [[[[[args kw] p] pl] ws] rn]. unfold Convert.step. rewrite (groomed_tag_other c rn _ Hr).
    destruct Hu as [Hd|Hi]; [rewrite Hd; cbn; reflexivity|].
    destruct (has_dot (etag u)); [cbn; reflexivity|]. rewrite Hi. cbn. reflexivity.
  Qed.

  (** vendor-prefixed subtrees leave the accumulator exactly as it was: no warning either *)
  Lemma step_vendor fe c st u :
    (match ci_rename c with Some (wire, _) => etag u <> wire | None => True end) -> has_dot (etag u) = true -> step fe c st u = st.
  Proof.
    intros Hr Hd. destruct st as [a|k]; [|reflexivity].
    destruct a as [[[[[args kw] p] pl] ws] rn]. unfold Convert.step. rewrite (groomed_tag_other c rn _ Hr), Hd. reflexivity.
  Qed.

  Definition finish (tag : string) (r : result acc) : result inst :=
    match r with
    | Err k => Err k
    | OK (args, kw, _, _, _, _) => construct tag (rev args) (rev kw)
    end.
  Lemma finish_same_core tag a b : same_core a b -> finish tag a = finish tag b.
  Proof.
    destruct a as [x|j], b as [y|k]; cbn; try contradiction; [|intros ->; reflexivity].
    destruct x as [[[[[args kw] p] pl] ws] rn], y as [[[[[args' kw'] p'] pl'] ws'] rn']. cbn. intro H. injection H as -> -> _ _ _. reflexivity.
  Qed.

  Lemma from_etree_unfold tag x ch :
    rmap fst (from_etree (Node tag x ch)) =
    match lookup_tag S tag with
    | None => Err Reject
    | Some c => finish tag (fold_left (step from_etree c) ch (OK (acc0 sval)))
    end.
  Proof.
    cbn [Convert.from_etree]. destruct (lookup_tag S tag) as [c|]; [|reflexivity].
    destruct (fold_left (step from_etree c) ch (OK (acc0 sval))) as [a|k]; [|reflexivity].
    destruct a as [[[[[args kw] p] pl] ws] rn]. cbn [finish]. destruct (construct tag (rev args) (rev kw)); reflexivity.
  Qed.

  (** one level: inserting [u] among the children of an aggregate whose class does not define it *)
  Lemma insert_here tag x ch1 ch2 u :
    (forall c, lookup_tag S tag = Some c -> unknown_for c u) ->
    rmap fst (from_etree (Node tag x (ch1 ++ u :: ch2))) = rmap fst (from_etree (Node tag x (ch1 ++ ch2))).
  Proof.
    intro Hu. rewrite !from_etree_unfold. destruct (lookup_tag S tag) as [c|]; [|reflexivity].
    apply finish_same_core. rewrite !fold_left_app. cbn [fold_left]. apply fold_same_core. apply step_unknown. apply Hu. reflexivity.
  Qed.

  (** congruence: replacing one child by a tree with the same tag, text and conversion *)
  Lemma replace_child tag x ch1 ch2 e e' :
    etag e = etag e' -> etext e = etext e' -> rmap fst (from_etree e) = rmap fst (from_etree e') ->
    rmap fst (from_etree (Node tag x (ch1 ++ e :: ch2))) = rmap fst (from_etree (Node tag x (ch1 ++ e' :: ch2))).
  Proof.
    intros Ht Hx Hf. rewrite !from_etree_unfold. destruct (lookup_tag S tag) as [c|]; [|reflexivity].
    apply finish_same_core. rewrite !fold_left_app. cbn [fold_left]. apply fold_same_core.
    apply step_same_core; [apply same_core_refl|exact Ht|exact Hx|exact Hf].
  Qed.

  (** insertion at any depth.  A path is the list of child indices leading to the aggregate that receives [u],
      followed by the position among its children. *)
  Definition splice (k : nat) (x : etree) (ch : list etree) : list etree := (firstn k ch ++ x :: skipn (Datatypes.S k) ch)%list.
  Fixpoint insert_at (path : list nat) (pos : nat) (u : etree) (e : etree) : option etree :=
    match e with
    | Node tag x ch =>
      match path with
      | [] => if Nat.leb pos (List.length ch) then Some (Node tag x (firstn pos ch ++ u :: skipn pos ch)) else None
      | k :: path' =>
        match nth_error ch k with
        | None => None
        | Some child =>
          match insert_at path' pos u child with
          | None => None
          | Some child' => Some (Node tag x (splice k child' ch))
          end
        end
      end
    end.
  (** the class of the aggregate that receives [u] does not define it *)
  Fixpoint receiver_unknown (path : list nat) (u : etree) (e : etree) : Prop :=
    match e with
    | Node tag x ch =>
      match path with
      | [] => forall c, lookup_tag S tag = Some c -> unknown_for c u
      | k :: path' => match nth_error ch k with Some child => receiver_unknown path' u child | None => True end
      end
    end.

  Lemma insert_at_tag path pos u e e' : insert_at path pos u e = Some e' -> etag e' = etag e /\ etext e' = etext e.
  Proof.
    destruct e as [tag x ch]. destruct path as [|k path]; cbn [insert_at].
    - destruct (Nat.leb pos (List.length ch)); [|discriminate]. intro H. injection H as <-. split; reflexivity.
    - destruct (nth_error ch k); [|discriminate]. destruct (insert_at path pos u e); [|discriminate]. intro H. injection H as <-. split; reflexivity.
  Qed.

  Lemma nth_error_split {A} (l : list A) k x : nth_error l k = Some x -> l = (firstn k l ++ x :: skipn (Datatypes.S k) l)%list.
  Proof.
    revert k. induction l as [|y l IH]; intros [|k] H; cbn in H; try discriminate.
    - injection H as ->. reflexivity.
    - cbn [firstn skipn app]. f_equal. apply IH. exact H.
  Qed.

  Theorem unknown_insert_invisible_l : forall path pos u e e',
    insert_at path pos u e = Some e' -> receiver_unknown path u e ->
    rmap fst (from_etree e') = rmap fst (from_etree e).
  Proof.
    induction path as [|k path IH]; intros pos u e e' Hi Hr; destruct e as [tag x ch]; cbn [insert_at receiver_unknown] in Hi, Hr.
    - destruct (Nat.leb pos (List.length ch)); [|discriminate]. injection Hi as <-.
      rewrite <- (firstn_skipn pos ch) at 3. apply insert_here. exact Hr.
    - destruct (nth_error ch k) as [child|] eqn:En; [|discriminate].
      destruct (insert_at path pos u child) as [child'|] eqn:Ec; [|discriminate]. injection Hi as <-.
      pose proof (nth_error_split ch k child En) as Hs. unfold splice.
      remember (firstn k ch) as a eqn:Ha. remember (skipn (Datatypes.S k) ch) as b eqn:Hb. rewrite Hs.
      destruct (insert_at_tag _ _ _ _ _ Ec) as [Ht Hx].
      apply replace_child; [exact Ht|exact Hx|]. apply (IH pos u child child' Ec Hr).
  Qed.

  (** vendor-prefixed insertions do not even warn: the whole result (model and warnings) is unchanged *)
  Lemma insert_here_vendor tag x ch1 ch2 u :
    (forall c, lookup_tag S tag = Some c -> match ci_rename c with Some (wire, _) => etag u <> wire | None => True end) ->
    has_dot (etag u) = true ->
    from_etree (Node tag x (ch1 ++ u :: ch2)) = from_etree (Node tag x (ch1 ++ ch2)).
  Proof.
    intros Hr Hd. cbn [Convert.from_etree]. destruct (lookup_tag S tag) as [c|]; [|reflexivity].
    rewrite !fold_left_app. cbn [fold_left]. rewrite (step_vendor _ c _ u (Hr c eq_refl) Hd). reflexivity.
  Qed.
End Unknown.

(** ---- warnings: a non-vendor unknown child adds exactly one UnknownTagWarning, naming its tag, and changes nothing else ---- *)
Section Warns.
  Variable sval : Type.
  Variable conv : N -> sin sval -> result (option sval).
  Variable S : schema.
  Notation acc := (acc sval).
  Notation step := (step sval).
  Notation from_etree := (from_etree sval conv S).

  (** [ins t ws ws']: ws' is ws with one more entry t *)
  Definition ins (t : string) (ws ws' : list string) : Prop := exists a b, ws = (a ++ b)%list /\ ws' = (a ++ t :: b)%list.
  Definition ins_state (t : string) (st st' : result acc) : Prop :=
    match st, st' with
    | OK (args, kw, p, pl, ws, rn), OK (args', kw', p', pl', ws', rn') =>
      args = args' /\ kw = kw' /\ p = p' /\ pl = pl' /\ rn = rn' /\ ins t ws ws'
    | Err j, Err k => j = k
    | _, _ => False
    end.

  Lemma ins_cons t x ws ws' : ins t ws ws' -> ins t (x :: ws) (x :: ws').
  Proof. intros (a & b & -> & ->). exists (x :: a), b. split; reflexivity. Qed.
  Lemma ins_app t l ws ws' : ins t ws ws' -> ins t (l ++ ws) (l ++ ws').
  Proof. intros (a & b & -> & ->). exists (l ++ a)%list, b. rewrite <- !app_assoc. split; reflexivity. Qed.

  Lemma step_ins fe c t st st' e : ins_state t st st' -> ins_state t (step fe c st e) (step fe c st' e).
  Proof.
    intro H. destruct st as [[[[[[args kw] p] pl] ws] rn]|j], st' as [[[[[[args' kw'] p'] pl'] ws'] rn']|k]; cbn in H; try contradiction; [|cbn; exact H].
    destruct H as (-> & -> & -> & -> & -> & Hi). unfold Convert.step.
    destruct (groomed_tag c rn' (etag e)) as [tag rn2].
    destruct (has_dot tag); [cbn; auto 7|].
    destruct (index_of (lower tag) (map fst (ci_spec c))) as [idx|]; [|cbn; repeat split; try reflexivity; apply ins_cons; exact Hi].
    destruct (assoc (lower tag) (ci_spec c)) as [at_|]; [|cbn; repeat split; try reflexivity; apply ins_cons; exact Hi].
    destruct (Nat.ltb idx p' && negb (is_list_attr at_ && pl'))%bool; [cbn; reflexivity|].
    set (rv := if is_unsup at_ then OK (KNone sval, @nil string)
               else if text_truthy (etext e) then OK (match etext e with Some s => KText sval s | None => KNone sval end, [])
               else if negb (String.eqb tag (etag e)) then Err Reject
               else match fe e with OK (i, w) => OK (KInst sval i, w) | Err k => Err k end).
    destruct rv as [[v w]|k]; [|cbn; reflexivity].
    destruct (is_list_attr at_); [cbn; repeat split; try reflexivity; apply ins_app; exact Hi|].
    destruct (kw_has sval kw' (lower tag)); [cbn; reflexivity|]. cbn. repeat split; try reflexivity. apply ins_app. exact Hi.
  Qed.

  Lemma fold_ins fe c t l : forall st st', ins_state t st st' -> ins_state t (fold_left (step fe c) l st) (fold_left (step fe c) l st').
  Proof. induction l as [|e l IH]; intros st st' H; [exact H|]. cbn [fold_left]. apply IH. apply step_ins. exact H. Qed.

  Lemma step_unknown_warns fe c st u :
    (match ci_rename c with Some (wire, _) => etag u <> wire | None => True end) ->
    has_dot (etag u) = false -> index_of (lower (etag u)) (map fst (ci_spec c)) = None ->
    ins_state (etag u) st (step fe c st u).
  Proof.
    intros Hr Hd Hi. destruct st as [a|k]; [|cbn; reflexivity].
    destruct a as [[[[[args kw] p] pl] ws] rn]. unfold Convert.step. rewrite (groomed_tag_other c rn _ Hr), Hd, Hi.
    cbn. repeat split; try reflexivity. exists [], ws. split; reflexivity.
  Qed.

  Lemma ins_rev t ws ws' : ins t ws ws' -> ins t (rev ws) (rev ws').
  Proof. intros (a & b & -> & ->). exists (rev b), (rev a). rewrite !rev_app_distr. cbn [rev]. rewrite <- app_assoc. split; reflexivity. Qed.

  (** the contaminated document converts to the same instance, and its warnings are those of the clean document plus one: the inserted tag *)
  Theorem unknown_insert_warns_l tag x ch1 ch2 u i w :
    (forall c, lookup_tag S tag = Some c ->
       (match ci_rename c with Some (wire, _) => etag u <> wire | None => True end)
       /\ has_dot (etag u) = false /\ index_of (lower (etag u)) (map fst (ci_spec c)) = None) ->
    from_etree (Node tag x (ch1 ++ ch2)) = OK (i, w) ->
    exists w', from_etree (Node tag x (ch1 ++ u :: ch2)) = OK (i, w') /\ ins (etag u) w w'.
  Proof.
    intros Hu H. cbn [Convert.from_etree] in *. destruct (lookup_tag S tag) as [c|]; [|discriminate].
    destruct (Hu c eq_refl) as (Hr & Hd & Hi). rewrite fold_left_app in *. cbn [fold_left].
    pose proof (fold_ins from_etree c (etag u) ch2 _ _ (step_unknown_warns from_etree c (fold_left (Convert.step sval from_etree c) ch1 (OK (acc0 sval))) u Hr Hd Hi)) as Hf.
    destruct (fold_left (Convert.step sval from_etree c) ch2 (fold_left (Convert.step sval from_etree c) ch1 (OK (acc0 sval)))) as [a|k]; [|discriminate].
    destruct (fold_left (Convert.step sval from_etree c) ch2 (Convert.step sval from_etree c (fold_left (Convert.step sval from_etree c) ch1 (OK (acc0 sval))) u)) as [a'|k']; [|destruct a as [[[[[? ?] ?] ?] ?] ?]; cbn in Hf; contradiction].
    destruct a as [[[[[args kw] p] pl] ws] rn], a' as [[[[[args' kw'] p'] pl'] ws'] rn']. cbn in Hf. destruct Hf as (<- & <- & _ & _ & _ & Hins).
    destruct (construct sval conv S tag (rev args) (rev kw)) as [j|k]; [|discriminate]. cbn in *. injection H as <- <-.
    exists (rev ws'). split; [reflexivity|apply ins_rev; exact Hins].
  Qed.
End Warns.
