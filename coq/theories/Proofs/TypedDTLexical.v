(** C11 at instance level, date-time leaves included: with the C09 engine's writer for UTC values in the typed model, every leaf of
    instance.to_etree() is lexical for a type of the table, or is the OFX date-time notation YYYYMMDDHHMMSS.XXX[+0:UTC] with every
    field in range (for instants whose year has four digits), or the time notation HHMMSS.XXX[+0:UTC]. *)
From OfxV Require Import Base.Prelude Base.Digits Model.Schema Model.Convert Model.Calendar Model.DateTimeM Model.DateTimeMCases
     Model.Scalars Model.ScalarsLex Model.Typed Model.TypedDT Proofs.CalendarProofs Proofs.DateTimeMDigits Proofs.DateTimeMRead
     Proofs.DateTimeMWrite Proofs.TypedLexical Proofs.TypedDTRoundTrip Proofs.TypedDTHeld Gen.DateTimeGen.
From Coq Require Import ZifyBool ZifyN ZifyNat.
Local Open Scope Z_scope.
Ltac Zify.zify_post_hook ::= Z.to_euclidean_division_equations.

Definition utc_off : offspec := mkoff SPlus 0 None (Some UTC_NAME).
Definition is_dt_notation (s : text) : Prop :=
  exists y mo d h mi sec ms, s = render_dt y mo d (Some (h, mi, sec, Some ms, Some utc_off))
    /\ (1000 <= y <= 9999 /\ 1 <= mo <= 12 /\ 1 <= d <= 31 /\ h < 24 /\ mi < 60 /\ sec < 60 /\ ms < 1000)%N.
Definition is_tm_notation (s : text) : Prop :=
  exists h mi sec ms, s = time_render (h, mi, sec, Some ms, Some utc_off) /\ (h < 24 /\ mi < 60 /\ sec < 60 /\ ms < 1000)%N.

Lemma utc_written_off : written_off 0 (Some UTC_NAME) = utc_off.
Proof. reflexivity. Qed.

Lemma utc_dt_notation x s : dt_range x -> unconv_dt_utc false (PDT x) = OK s -> is_dt_notation s.
Proof.
  intros R E.
  cbn [unconv_dt_utc] in E.
  destruct ((0 <=? x + EPOCH_US) && (x + EPOCH_US <? MAXORDINAL * US_DAY)); [|discriminate].
  set (v0 := utc_value (fields_of_us (x + EPOCH_US))) in *.
  assert (R' := R). unfold dt_range in R'.
  change (days_before_year 1000) with 364877 in R'. change (days_before_year 9999) with 3651694 in R'. unfold US_DAY in R'.
  destruct (us_of_fields_of_us (x + EPOCH_US) ltac:(lia)) as [Eu Vv]. specialize (Vv ltac:(unfold MAXORDINAL, US_DAY; lia)).
  assert (Y0 : 1000 <= f_y (a_f v0) <= 9998).
  { apply year_of_instant; [exact Vv|]. cbn [v0 utc_value a_f]. rewrite Eu. exact R. }
  destruct (dt_unconvert_render nd_zeros v0 0 eq_refl Vv Y0) as (b & _ & _ & B3 & YB & Eb).
  rewrite E in Eb. injection Eb as ->.
  apply valid_fields_iff in B3. destruct B3 as ((_ & M & D) & H & MI & Sx & Ux).
  assert (D31 : days_in_month (f_y b) (f_mo b) <= 31).
  { unfold days_in_month. destruct (f_mo b =? 2); [destruct (is_leap (f_y b))|destruct (_ || _)]; lia. }
  unfold is_dt_notation, written_time. cbn [v0 utc_value a_name]. rewrite utc_written_off.
  do 7 eexists. split; [reflexivity|]. lia.
Qed.

Lemma utc_tm_notation x s : unconv_dt_utc true (PTime x) = OK s -> is_tm_notation s.
Proof.
  intro E. cbn [unconv_dt_utc] in E.
  destruct ((0 <=? x) && (x <? US_DAY)) eqn:Er; [|discriminate].
  assert (R0 : x < MAXORDINAL * US_DAY) by (unfold MAXORDINAL, US_DAY in *; lia).
  destruct (us_of_fields_of_us x ltac:(lia)) as [Eu Vv]. specialize (Vv R0).
  set (v0 := utc_value (fields_of_us x)) in *.
  assert (TV : time_valid (a_f v0)).
  { apply valid_fields_iff in Vv. cbn [v0 utc_value a_f]. unfold time_valid. lia. }
  destruct (tm_unconvert_render nd_zeros v0 0 eq_refl TV) as (b & _ & _ & B3 & Eb).
  rewrite E in Eb. injection Eb as ->.
  apply valid_fields_iff in B3. destruct B3 as (_ & H & MI & Sx & Ux).
  unfold is_tm_notation, written_time. cbn [v0 utc_value a_name]. rewrite utc_written_off.
  do 4 eexists. split; [reflexivity|]. lia.
Qed.

Section Lex.
  Variable table : list (N * ety).
  Variable S : schema.
  Definition datum_ok_utc (s : text) : Prop :=
    (exists t e, lookup_ety table t = Some (ESty e) /\ lexical_ok (elem_sty e) s = true)
    \/ (exists x, unconv_dt_utc false (PDT x) = OK s /\ (dt_range x -> is_dt_notation s))
    \/ (exists x, unconv_dt_utc true (PTime x) = OK s /\ is_tm_notation s).

  Theorem to_etree_leaves_lexical_utc_l : forall (i : inst pyval) e,
    to_etree pyval (unconv_typed table unconv_dt_utc) S i = OK e -> Forall datum_ok_utc (texts e).
  Proof.
    intros i e He. pose proof (to_etree_leaves_lexical_l table unconv_dt_utc S i e He) as H.
    eapply Forall_impl; [|exact H]. intros s [Hl|(b & v & Hu)]; [left; exact Hl|right].
    destruct b.
    - right. destruct v as [| | | | | |x|]; try discriminate. exists x. split; [exact Hu|]. apply (utc_tm_notation x s Hu).
    - left. destruct v as [| | | | |x| |]; try discriminate. exists x. split; [exact Hu|]. intro R. apply (utc_dt_notation x s R Hu).
  Qed.
End Lex.
