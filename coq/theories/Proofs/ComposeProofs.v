(** Lemmas about the [Compose] model (property C06).  The class table regenerated from /repo is never unfolded
    here: every lemma holds whatever string limits / required flags / OneOf domains it carries; the only
    generated facts used are the ORDER of the five parameter-class names and of the three message-set class
    names ([kind_order], [msgset_order]: finite checks). *)
From OfxV Require Import Base.Prelude Base.Digits Base.ComposeBase Gen.ComposeGen Model.Compose.
From Coq Require Import Permutation Arith.
Local Open Scope N_scope.

(* ------------------------------------------------------------------ inversion of the result monad *)
Lemma bind_ok {A B} (r : result A) (f : A -> result B) b :
  bind r f = OK b -> exists a, r = OK a /\ f a = OK b.
Proof. destruct r as [a|k]; cbn [bind]; [eauto|discriminate]. Qed.
Lemma rmap_ok {A B} (f : A -> B) (r : result A) b : rmap f r = OK b -> exists a, r = OK a /\ b = f a.
Proof. destruct r as [a|k]; cbn [rmap]; [intros E; injection E; eauto|discriminate]. Qed.

Ltac inv_ok :=
  repeat match goal with
  | H : bind _ _ = OK _ |- _ => apply bind_ok in H; destruct H as [? [? H]]
  | H : rmap _ _ = OK _ |- _ => apply rmap_ok in H; destruct H as [? [? H]]
  | H : OK _ = OK _ |- _ => injection H as H
  | H : Err _ = OK _ |- _ => discriminate H
  end.

Ltac solve_ok := let E := fresh "E" in intros E; first [discriminate E | inversion E; subst; reflexivity].

(* ------------------------------------------------------------------ what a converted value looks like *)
(** a value without '&' is untouched by the constructor's unescape *)
Definition no_amp (s : text) : bool := forallb (fun x => negb (x =? 38)) s.
Lemma unescape_no_amp s : no_amp s = true -> unescape s = s.
Proof.
  intros H. unfold unescape.
  rewrite (replace_absent (T "&lt;") (T "<") 38 (T "lt;") s) by (reflexivity || exact H).
  rewrite (replace_absent (T "&gt;") (T ">") 38 (T "gt;") s) by (reflexivity || exact H).
  rewrite (replace_absent (T "&nbsp;") (T " ") 38 (T "nbsp;") s) by (reflexivity || exact H).
  rewrite (replace_absent (T "&apos;") (T "'") 38 (T "apos;") s) by (reflexivity || exact H).
  rewrite (replace_absent (T "&quot;") [34] 38 (T "quot;") s) by (reflexivity || exact H).
  apply (replace_absent (T "&amp;") (T "&") 38 (T "amp;") s); [reflexivity|exact H].
Qed.

(** the value a String attribute holds after construction: None and "" are absent, anything else is unescaped *)
Definition norm (v : option text) : option text :=
  match v with Some (c :: r) => Some (unescape (c :: r)) | _ => None end.
(** a OneOf attribute: "" is absent, anything else is kept *)
Definition keep (v : option text) : option text := match v with Some (c :: r) => Some (c :: r) | _ => None end.
Definition flag (v : option bool) : option text := option_map (fun b : bool => if b then T "Y" else T "N") v.
Definition dtext (d : pdate) : option text := match d with DAware f => Some f | _ => None end.

Lemma conv_string_ok len strict req v x : conv_string len strict req v = OK x -> x = norm v.
Proof.
  unfold conv_string, enforce_required, norm. destruct v as [[|c r]|]; try (destruct req; solve_ok).
  cbv zeta. destruct len as [n|]; [destruct ((n <? tlen (unescape (c :: r))) && strict)|]; solve_ok.
Qed.
Lemma conv_oneof_ok valid req v x : conv_oneof valid req v = OK x -> x = keep v.
Proof.
  unfold conv_oneof, enforce_required, keep. destruct v as [[|c r]|]; try (destruct req; solve_ok).
  destruct (existsb (text_eqb (c :: r)) valid); solve_ok.
Qed.
Lemma conv_bool_ok req v x : conv_bool req v = OK x -> x = flag v.
Proof. unfold conv_bool, enforce_required, flag. destruct v as [[|]|]; cbn [option_map]; try destruct req; solve_ok. Qed.
Lemma conv_date_ok req v x : conv_date req v = OK x -> x = dtext v /\ v <> DNaive.
Proof.
  unfold conv_date, enforce_required, dtext. destruct v; try destruct req; intros E; try discriminate E;
  inversion E; subst; (split; [reflexivity|discriminate]).
Qed.

Lemma fstr_ok cls attr v l : fstr cls attr v = OK l -> l = leaf (up attr) (norm v).
Proof.
  unfold fstr. destruct (lookup_attr cls attr) as [[]|]; try discriminate. intros H. inv_ok. subst.
  f_equal. eapply conv_string_ok; eassumption.
Qed.
Lemma foneof_ok cls attr v l : foneof cls attr v = OK l -> l = leaf (up attr) (keep v).
Proof.
  unfold foneof. destruct (lookup_attr cls attr) as [[]|]; try discriminate. intros H. inv_ok. subst.
  f_equal. eapply conv_oneof_ok; eassumption.
Qed.
Lemma fbool_ok cls attr v l : fbool cls attr v = OK l -> l = leaf (up attr) (flag v).
Proof.
  unfold fbool. destruct (lookup_attr cls attr) as [[]|]; try discriminate. intros H. inv_ok. subst.
  f_equal. eapply conv_bool_ok; eassumption.
Qed.
Lemma fdate_ok cls attr v l : fdate cls attr v = OK l -> l = leaf (up attr) (dtext v) /\ v <> DNaive.
Proof.
  unfold fdate. destruct (lookup_attr cls attr) as [[]|]; try discriminate. intros H. inv_ok. subst.
  match goal with H : conv_date _ _ = OK _ |- _ => apply conv_date_ok in H; destruct H as [-> ?] end. split; [reflexivity|assumption].
Qed.
Definition olist {A} (o : option A) : list A := match o with Some x => [x] | None => [] end.
Lemma fsub_ok cls attr ch l : fsub cls attr ch = OK l -> l = olist ch.
Proof.
  unfold fsub. destruct (lookup_attr cls attr) as [[]|]; try discriminate. destruct ch as [x|]; cbn [olist].
  - destruct (text_eqb (tag_of x) target); solve_ok.
  - destruct req; solve_ok.
Qed.
Lemma agg_ok cls fields t : agg cls fields = OK t -> exists ch, collect fields = OK ch /\ t = Node cls None ch.
Proof. unfold agg. destruct (lookup_class cls); [|discriminate]. intros H. inv_ok. eauto. Qed.
Lemma aggl_ok cls ms t : aggl cls ms = OK t -> t = Node cls None ms.
Proof. unfold aggl. destruct (lookup_class cls); [|discriminate]. destruct (forallb (member_ok cls) ms); solve_ok. Qed.
Lemma collect_cons r rest ch : collect (r :: rest) = OK ch -> exists a b, r = OK a /\ collect rest = OK b /\ ch = (a ++ b)%list.
Proof. cbn [collect]. intros H. inv_ok. subst. eauto. Qed.
Lemma collect_nil ch : collect [] = OK ch -> ch = [].
Proof. cbn [collect]. solve_ok. Qed.

(** turn [agg cls [f1; ...; fn] = OK t] into the shape of [t] *)
Ltac inv_agg H :=
  apply agg_ok in H; let ch := fresh "ch" in let Hc := fresh "Hc" in destruct H as [ch [Hc H]];
  repeat (apply collect_cons in Hc; let a := fresh "a" in let b := fresh "b" in let Ha := fresh "Ha" in let E := fresh "E" in
          destruct Hc as [a [b [Ha [Hc E]]]]; subst ch; rename b into ch);
  apply collect_nil in Hc; subst ch.
Ltac inv_fields :=
  repeat match goal with
  | H : fstr _ _ _ = OK _ |- _ => apply fstr_ok in H; subst
  | H : foneof _ _ _ = OK _ |- _ => apply foneof_ok in H; subst
  | H : fbool _ _ _ = OK _ |- _ => apply fbool_ok in H; subst
  | H : fdate _ _ _ = OK _ |- _ => apply fdate_ok in H; destruct H as [H ?]; subst
  | H : fsub _ _ _ = OK _ |- _ => apply fsub_ok in H; subst
  end.

(* ------------------------------------------------------------------ the sign-on *)
(** explicit form of the sign-on for the identity the caller supplied *)
Definition spec_signon (c : cfg) (d : pdate) (uid userpass : text) : etree :=
  Node (T "SIGNONMSGSRQV1") None
   [Node (T "SONRQ") None
     (leaf (T "DTCLIENT") (dtext d)
      ++ leaf (T "USERID") (norm (Some uid)) ++ leaf (T "USERPASS") (norm (Some userpass))
      ++ leaf (T "LANGUAGE") (keep (Some (language c)))
      ++ (if truthy (org c)
          then [Node (T "FI") None (leaf (T "ORG") (norm (org c)) ++ leaf (T "FID") (norm (fid c)))] else [])
      ++ leaf (T "APPID") (norm (Some (appid c))) ++ leaf (T "APPVER") (norm (Some (appver c)))
      ++ leaf (T "CLIENTUID") (if version c <? 103 then None else norm (clientuid c)))%list].

Lemma signon_shape c d pw ou so :
  signon c d pw ou = OK so ->
  so = spec_signon c d (dflt ou (userid c)) pw /\ d <> DNaive
  /\ nonempty (dflt ou (userid c)) = true /\ nonempty pw = true.
Proof.
  unfold signon. intros H. inv_ok.
  match goal with H : mk_SONRQ _ _ _ _ _ _ _ _ = OK _ |- _ => unfold mk_SONRQ in H; rename H into HS end.
  destruct (nonempty (dflt ou (userid c)) && nonempty pw) eqn:NE; [|discriminate].
  apply andb_true_iff in NE. destruct NE as [NE1 NE2].
  inv_agg HS. inv_agg H. inv_fields.
  split; [|split; [assumption|split; assumption]].
  unfold spec_signon. cbn [olist app]. repeat f_equal.
  - destruct (truthy (org c)); [|inversion H0; reflexivity].
    inv_ok. subst. match goal with H : mk_FI _ _ = OK _ |- _ => unfold mk_FI in H; inv_agg H end. inv_fields.
    cbn [olist]. rewrite app_nil_r. reflexivity.
  - rewrite app_nil_r. destruct (version c <? 103); reflexivity.
Qed.

(* ------------------------------------------------------------------ the wrappers *)
Definition acct_bank (c : cfg) (a t : option text) : etree :=
  Node (T "BANKACCTFROM") None
    (leaf (T "BANKID") (norm (bankid c)) ++ leaf (T "ACCTID") (norm a) ++ leaf (T "ACCTTYPE") (keep t))%list.
Definition acct_cc (a : option text) : etree := Node (T "CCACCTFROM") None (leaf (T "ACCTID") (norm a)).
Definition acct_inv (c : cfg) (a : option text) : etree :=
  Node (T "INVACCTFROM") None (leaf (T "BROKERID") (norm (brokerid c)) ++ leaf (T "ACCTID") (norm a))%list.
Definition inctran_node (s e : pdate) (i : option bool) : etree :=
  Node (T "INCTRAN") None
    (leaf (T "DTSTART") (dtext s) ++ leaf (T "DTEND") (dtext e) ++ leaf (T "INCLUDE") (flag i))%list.
Definition wrapper (cls : string) (u : text) (inner : etree) : etree :=
  Node (T cls) None (leaf (T "TRNUID") (norm (Some u)) ++ [inner])%list.

(** what the transaction wrapper of one request must look like: that request's account id, type, bank / broker id,
    dates and flags, and the transaction id it was given *)
Definition spec_wrapper (c : cfg) (r : rq) (u : text) : etree :=
  match r with
  | StmtRq a t s e i =>
    wrapper "STMTTRNRQ" u (Node (T "STMTRQ") None [acct_bank c a t; inctran_node s e i])
  | CcStmtRq a s e i =>
    wrapper "CCSTMTTRNRQ" u (Node (T "CCSTMTRQ") None [acct_cc a; inctran_node s e i])
  | InvStmtRq a s e d i oo p b =>
    wrapper "INVSTMTTRNRQ" u
      (Node (T "INVSTMTRQ") None
         ([acct_inv c a] ++ (match i with Some true => [inctran_node s e i] | _ => [] end)
          ++ leaf (T "INCOO") (flag oo)
          ++ [Node (T "INCPOS") None (leaf (T "DTASOF") (dtext d) ++ leaf (T "INCLUDE") (flag p))]
          ++ leaf (T "INCBAL") (flag b)))%list
  | StmtEndRq a t s e =>
    wrapper "STMTENDTRNRQ" u
      (Node (T "STMTENDRQ") None ([acct_bank c a t] ++ leaf (T "DTSTART") (dtext s) ++ leaf (T "DTEND") (dtext e)))%list
  | CcStmtEndRq a s e =>
    wrapper "CCSTMTENDTRNRQ" u
      (Node (T "CCSTMTENDRQ") None ([acct_cc a] ++ leaf (T "DTSTART") (dtext s) ++ leaf (T "DTEND") (dtext e)))%list
  end.

Ltac inv_aggs := repeat match goal with H : agg _ _ = OK _ |- _ => inv_agg H; subst end.

Lemma build_trnrq_ok c r u w : build_trnrq c r u = OK w -> w = spec_wrapper c r u.
Proof.
  destruct r; cbn [build_trnrq spec_wrapper];
  unfold stmttrnrq, ccstmttrnrq, invstmttrnrq, stmtendtrnrq, ccstmtendtrnrq, trnrq,
         mk_BANKACCTFROM, mk_CCACCTFROM, mk_INVACCTFROM, mk_INCTRAN, mk_INCPOS; intros H; inv_ok.
  Show.
Abort.
