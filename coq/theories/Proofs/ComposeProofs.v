(** Lemmas about the [Compose] model (property C06).  The class table regenerated from /repo is never unfolded
    here: every lemma holds whatever string limits / required flags / OneOf domains it carries; the only
    generated facts used are the ORDER of the five parameter-class names and of the three message-set class
    names ([kind_order], [msgset_order]: finite checks). *)
From OfxV Require Import Base.Prelude Base.Digits Base.ComposeBase Gen.ComposeGen Model.Compose.
From Coq Require Import Permutation Arith.
Local Open Scope N_scope.

(* ------------------------------------------------------------------ inversion of the result monad *)
Lemma bind_ok {A B} (r : result A) (f : A -> result B) b :
  bind r f = OK b -> exists a, r = OK a /\ f a = OK b.
Proof. destruct r as [a|k]; cbn [bind]; [eauto|discriminate]. Qed.
Lemma rmap_ok {A B} (f : A -> B) (r : result A) b : rmap f r = OK b -> exists a, r = OK a /\ b = f a.
Proof. destruct r as [a|k]; cbn [rmap]; [intros E; injection E; eauto|discriminate]. Qed.

Ltac inv_ok :=
  repeat match goal with
  | H : bind _ _ = OK _ |- _ => apply bind_ok in H; destruct H as [? [? H]]
  | H : rmap _ _ = OK _ |- _ => apply rmap_ok in H; destruct H as [? [? H]]
  | H : OK _ = OK _ |- _ => injection H as H
  | H : Err _ = OK _ |- _ => discriminate H
  end.

Ltac solve_ok := let E := fresh "E" in intros E; first [discriminate E | inversion E; subst; reflexivity].

(* ------------------------------------------------------------------ what a converted value looks like *)
(** a value without '&' is untouched by the constructor's unescape *)
Definition no_amp (s : text) : bool := forallb (fun x => negb (x =? 38)) s.
Lemma unescape_no_amp s : no_amp s = true -> unescape s = s.
Proof.
  intros H. unfold unescape.
  rewrite (replace_absent (T "&lt;") (T "<") 38 (T "lt;") s) by (reflexivity || exact H).
  rewrite (replace_absent (T "&gt;") (T ">") 38 (T "gt;") s) by (reflexivity || exact H).
  rewrite (replace_absent (T "&nbsp;") (T " ") 38 (T "nbsp;") s) by (reflexivity || exact H).
  rewrite (replace_absent (T "&apos;") (T "'") 38 (T "apos;") s) by (reflexivity || exact H).
  rewrite (replace_absent (T "&quot;") [34] 38 (T "quot;") s) by (reflexivity || exact H).
  apply (replace_absent (T "&amp;") (T "&") 38 (T "amp;") s); [reflexivity|exact H].
Qed.

(** the value a String attribute holds after construction: None and "" are absent, anything else is unescaped *)
Definition norm (v : option text) : option text :=
  match v with Some (c :: r) => Some (unescape (c :: r)) | _ => None end.
(** a OneOf attribute: "" is absent, anything else is kept *)
Definition keep (v : option text) : option text := match v with Some (c :: r) => Some (c :: r) | _ => None end.
Definition flag (v : option bool) : option text := option_map (fun b : bool => if b then T "Y" else T "N") v.
Definition dtext (d : pdate) : option text := match d with DAware f => Some f | _ => None end.

Lemma conv_string_ok len strict req v x : conv_string len strict req v = OK x -> x = norm v.
Proof.
  unfold conv_string, enforce_required, norm. destruct v as [[|c r]|]; try (destruct req; solve_ok).
  cbv zeta. destruct len as [n|]; [destruct ((n <? tlen (unescape (c :: r))) && strict)|]; solve_ok.
Qed.
Lemma conv_oneof_ok valid req v x : conv_oneof valid req v = OK x -> x = keep v.
Proof.
  unfold conv_oneof, enforce_required, keep. destruct v as [[|c r]|]; try (destruct req; solve_ok).
  destruct (existsb (text_eqb (c :: r)) valid); solve_ok.
Qed.
Lemma conv_bool_ok req v x : conv_bool req v = OK x -> x = flag v.
Proof. unfold conv_bool, enforce_required, flag. destruct v as [[|]|]; cbn [option_map]; try destruct req; solve_ok. Qed.
Lemma conv_date_ok req v x : conv_date req v = OK x -> x = dtext v /\ v <> DNaive.
Proof.
  unfold conv_date, enforce_required, dtext. destruct v; try destruct req; intros E; try discriminate E;
  inversion E; subst; (split; [reflexivity|discriminate]).
Qed.

Lemma fstr_ok cls attr v l : fstr cls attr v = OK l -> l = leaf (up attr) (norm v).
Proof.
  unfold fstr. destruct (lookup_attr cls attr) as [[]|]; try discriminate. intros H. inv_ok. subst.
  f_equal. eapply conv_string_ok; eassumption.
Qed.
Lemma foneof_ok cls attr v l : foneof cls attr v = OK l -> l = leaf (up attr) (keep v).
Proof.
  unfold foneof. destruct (lookup_attr cls attr) as [[]|]; try discriminate. intros H. inv_ok. subst.
  f_equal. eapply conv_oneof_ok; eassumption.
Qed.
Lemma fbool_ok cls attr v l : fbool cls attr v = OK l -> l = leaf (up attr) (flag v).
Proof.
  unfold fbool. destruct (lookup_attr cls attr) as [[]|]; try discriminate. intros H. inv_ok. subst.
  f_equal. eapply conv_bool_ok; eassumption.
Qed.
Lemma fdate_ok cls attr v l : fdate cls attr v = OK l -> l = leaf (up attr) (dtext v) /\ v <> DNaive.
Proof.
  unfold fdate. destruct (lookup_attr cls attr) as [[]|]; try discriminate. intros H. inv_ok. subst.
  match goal with H : conv_date _ _ = OK _ |- _ => apply conv_date_ok in H; destruct H as [-> ?] end. split; [reflexivity|assumption].
Qed.
Definition olist {A} (o : option A) : list A := match o with Some x => [x] | None => [] end.
Lemma fsub_ok cls attr ch l : fsub cls attr ch = OK l -> l = olist ch.
Proof.
  unfold fsub. destruct (lookup_attr cls attr) as [[]|]; try discriminate. destruct ch as [x|]; cbn [olist].
  - destruct (text_eqb (tag_of x) target); solve_ok.
  - destruct req; solve_ok.
Qed.
Lemma agg_ok cls fields t : agg cls fields = OK t -> exists ch, collect fields = OK ch /\ t = Node cls None ch.
Proof. unfold agg. destruct (lookup_class cls); [|discriminate]. intros H. inv_ok. eauto. Qed.
Lemma aggl_ok cls ms t : aggl cls ms = OK t -> t = Node cls None ms.
Proof. unfold aggl. destruct (lookup_class cls); [|discriminate]. destruct (forallb (member_ok cls) ms); solve_ok. Qed.
Lemma collect_cons r rest ch : collect (r :: rest) = OK ch -> exists a b, r = OK a /\ collect rest = OK b /\ ch = (a ++ b)%list.
Proof. cbn [collect]. intros H. inv_ok. subst. eauto. Qed.
Lemma collect_nil ch : collect [] = OK ch -> ch = [].
Proof. cbn [collect]. solve_ok. Qed.

(** turn [agg cls [f1; ...; fn] = OK t] into the shape of [t] *)
Ltac inv_agg H :=
  apply agg_ok in H; let ch := fresh "ch" in let Hc := fresh "Hc" in destruct H as [ch [Hc H]];
  repeat (apply collect_cons in Hc; let a := fresh "a" in let b := fresh "b" in let Ha := fresh "Ha" in let E := fresh "E" in
          destruct Hc as [a [b [Ha [Hc E]]]]; subst ch; rename b into ch);
  apply collect_nil in Hc; subst ch.
Ltac inv_fields :=
  repeat match goal with
  | H : fstr _ _ _ = OK _ |- _ => apply fstr_ok in H; subst
  | H : foneof _ _ _ = OK _ |- _ => apply foneof_ok in H; subst
  | H : fbool _ _ _ = OK _ |- _ => apply fbool_ok in H; subst
  | H : fdate _ _ _ = OK _ |- _ => apply fdate_ok in H; destruct H as [H ?]; subst
  | H : fsub _ _ _ = OK _ |- _ => apply fsub_ok in H; subst
  end.

(* ------------------------------------------------------------------ the sign-on *)
(** explicit form of the sign-on for the identity the caller supplied *)
Definition spec_signon (c : cfg) (d : pdate) (uid userpass : text) : etree :=
  Node (T "SIGNONMSGSRQV1") None
   [Node (T "SONRQ") None
     (leaf (T "DTCLIENT") (dtext d)
      ++ leaf (T "USERID") (norm (Some uid)) ++ leaf (T "USERPASS") (norm (Some userpass))
      ++ leaf (T "LANGUAGE") (keep (Some (language c)))
      ++ (if truthy (org c)
          then [Node (T "FI") None (leaf (T "ORG") (norm (org c)) ++ leaf (T "FID") (norm (fid c)))] else [])
      ++ leaf (T "APPID") (norm (Some (appid c))) ++ leaf (T "APPVER") (norm (Some (appver c)))
      ++ leaf (T "CLIENTUID") (if version c <? 103 then None else norm (clientuid c)))%list].

Lemma signon_shape c d pw ou so :
  signon c d pw ou = OK so ->
  so = spec_signon c d (dflt ou (userid c)) pw /\ d <> DNaive
  /\ nonempty (dflt ou (userid c)) = true /\ nonempty pw = true.
Proof.
  unfold signon. intros H. inv_ok.
  match goal with H : mk_SONRQ _ _ _ _ _ _ _ _ = OK _ |- _ => unfold mk_SONRQ in H; rename H into HS end.
  destruct (nonempty (dflt ou (userid c)) && nonempty pw) eqn:NE; [|discriminate].
  apply andb_true_iff in NE. destruct NE as [NE1 NE2].
  inv_agg HS. inv_agg H. inv_fields.
  split; [|split; [assumption|split; assumption]].
  unfold spec_signon. cbn [olist app]. repeat f_equal.
  - destruct (truthy (org c)); [|inversion H0; reflexivity].
    inv_ok. subst. match goal with H : mk_FI _ _ = OK _ |- _ => unfold mk_FI in H; inv_agg H end. inv_fields.
    cbn [olist]. rewrite app_nil_r. reflexivity.
  - rewrite app_nil_r. destruct (version c <? 103); reflexivity.
Qed.

(* ------------------------------------------------------------------ the wrappers *)
Definition acct_bank (c : cfg) (a t : option text) : etree :=
  Node (T "BANKACCTFROM") None
    (leaf (T "BANKID") (norm (bankid c)) ++ leaf (T "ACCTID") (norm a) ++ leaf (T "ACCTTYPE") (keep t))%list.
Definition acct_cc (a : option text) : etree := Node (T "CCACCTFROM") None (leaf (T "ACCTID") (norm a)).
Definition acct_inv (c : cfg) (a : option text) : etree :=
  Node (T "INVACCTFROM") None (leaf (T "BROKERID") (norm (brokerid c)) ++ leaf (T "ACCTID") (norm a))%list.
Definition inctran_node (s e : pdate) (i : option bool) : etree :=
  Node (T "INCTRAN") None
    (leaf (T "DTSTART") (dtext s) ++ leaf (T "DTEND") (dtext e) ++ leaf (T "INCLUDE") (flag i))%list.
Definition wrapper (cls : string) (u : text) (inner : etree) : etree :=
  Node (T cls) None (leaf (T "TRNUID") (norm (Some u)) ++ [inner])%list.

(** what the transaction wrapper of one request must look like: that request's account id, type, bank / broker id,
    dates and flags, and the transaction id it was given *)
Definition spec_wrapper (c : cfg) (r : rq) (u : text) : etree :=
  match r with
  | StmtRq a t s e i =>
    wrapper "STMTTRNRQ" u (Node (T "STMTRQ") None [acct_bank c a t; inctran_node s e i])
  | CcStmtRq a s e i =>
    wrapper "CCSTMTTRNRQ" u (Node (T "CCSTMTRQ") None [acct_cc a; inctran_node s e i])
  | InvStmtRq a s e d i oo p b =>
    wrapper "INVSTMTTRNRQ" u
      (Node (T "INVSTMTRQ") None
         ([acct_inv c a] ++ (match i with Some true => [inctran_node s e i] | _ => [] end)
          ++ leaf (T "INCOO") (flag oo)
          ++ [Node (T "INCPOS") None (leaf (T "DTASOF") (dtext d) ++ leaf (T "INCLUDE") (flag p))]
          ++ leaf (T "INCBAL") (flag b)))%list
  | StmtEndRq a t s e =>
    wrapper "STMTENDTRNRQ" u
      (Node (T "STMTENDRQ") None ([acct_bank c a t] ++ leaf (T "DTSTART") (dtext s) ++ leaf (T "DTEND") (dtext e)))%list
  | CcStmtEndRq a s e =>
    wrapper "CCSTMTENDTRNRQ" u
      (Node (T "CCSTMTENDRQ") None ([acct_cc a] ++ leaf (T "DTSTART") (dtext s) ++ leaf (T "DTEND") (dtext e)))%list
  end.

Ltac inv_aggs := repeat match goal with H : agg _ _ = OK _ |- _ => inv_agg H; subst end.

Lemma build_trnrq_ok c r u w : build_trnrq c r u = OK w -> w = spec_wrapper c r u.
Proof.
  destruct r; cbn [build_trnrq spec_wrapper];
  unfold stmttrnrq, ccstmttrnrq, invstmttrnrq, stmtendtrnrq, ccstmtendtrnrq, trnrq,
         mk_BANKACCTFROM, mk_CCACCTFROM, mk_INVACCTFROM, mk_INCTRAN, mk_INCPOS; intros H; inv_ok.
  1,2,4,5: inv_aggs; inv_fields; unfold wrapper, acct_bank, acct_cc, inctran_node; cbn [olist app]; rewrite ?app_nil_r; reflexivity.
  destruct inctran as [[|]|]; inv_ok; subst; inv_aggs; inv_fields;
    unfold wrapper, acct_inv, inctran_node; cbn [olist app]; rewrite ?app_nil_r; reflexivity.
Qed.

(* ------------------------------------------------------------------ the two sorts: generated names, fixed ranks *)
Definition krank (k : kind) : nat :=
  match k with KCcStmtEnd => 0 | KCcStmt => 1 | KInvStmt => 2 | KStmtEnd => 3 | KStmt => 4 end%nat.
Definition mrank (m : msgset) : nat := match m with MBank => 0 | MCc => 1 | MInv => 2 end%nat.
(** the order of the class names regenerated from Client.py: CcStmtEndRq < CcStmtRq < InvStmtRq < StmtEndRq < StmtRq *)
Lemma kind_order k1 k2 : text_leb (kind_name k1) (kind_name k2) = Nat.leb (krank k1) (krank k2).
Proof. destruct k1, k2; vm_compute; reflexivity. Qed.
(** BANKMSGSRQV1 < CREDITCARDMSGSRQV1 < INVSTMTMSGSRQV1 *)
Lemma msgset_order m1 m2 : text_leb (msgset_name m1) (msgset_name m2) = Nat.leb (mrank m1) (mrank m2).
Proof. destruct m1, m2; vm_compute; reflexivity. Qed.

Lemma kind_eqb_eq a b : kind_eqb a b = true <-> a = b.
Proof. destruct a, b; cbn; split; congruence. Qed.
Lemma msgset_eqb_eq a b : msgset_eqb a b = true <-> a = b.
Proof. destruct a, b; cbn; split; congruence. Qed.

(** the requests of one kind, in request order *)
Definition of_kind (k : kind) (reqs : list rq) : list rq := filter (fun r => kind_eqb (kind_of r) k) reqs.

Lemma of_rank_kind k reqs : of_rank (fun r => krank (kind_of r)) (krank k) reqs = of_kind k reqs.
Proof. unfold of_rank, of_kind. apply filter_ext. intros r. destruct (kind_of r), k; reflexivity. Qed.

Lemma sort_closed reqs :
  isort kind_leb reqs =
  (of_kind KCcStmtEnd reqs ++ of_kind KCcStmt reqs ++ of_kind KInvStmt reqs ++ of_kind KStmtEnd reqs ++ of_kind KStmt reqs)%list.
Proof.
  rewrite (isort_ext kind_leb (rleb (fun r => krank (kind_of r)))) by (intros a b; apply kind_order).
  rewrite (isort_by_ranks _ 5).
  - unfold by_ranks. cbn [seq flat_map].
    rewrite <- (of_rank_kind KCcStmtEnd), <- (of_rank_kind KCcStmt), <- (of_rank_kind KInvStmt),
            <- (of_rank_kind KStmtEnd), <- (of_rank_kind KStmt). cbn [krank]. rewrite app_nil_r. reflexivity.
  - apply Forall_forall. intros r _. destruct (kind_of r); cbn [krank]; lia.
Qed.

Definition kblocks (reqs : list rq) : list (kind * list rq) :=
  [(KCcStmtEnd, of_kind KCcStmtEnd reqs); (KCcStmt, of_kind KCcStmt reqs); (KInvStmt, of_kind KInvStmt reqs);
   (KStmtEnd, of_kind KStmtEnd reqs); (KStmt, of_kind KStmt reqs)].

Lemma of_kind_key k reqs : Forall (fun r => kind_of r = k) (of_kind k reqs).
Proof. apply Forall_forall. intros r H. apply filter_In in H. apply kind_eqb_eq, H. Qed.

Lemma groups_closed reqs : groupby kind_eqb kind_of (isort kind_leb reqs) = flat_map block (kblocks reqs).
Proof.
  rewrite sort_closed.
  pose proof (groupby_blocks kind_eqb kind_of kind_eqb_eq (kblocks reqs)) as G.
  cbn [kblocks blocks_of snd map fst] in G. rewrite app_nil_r in G. apply G.
  - repeat constructor; cbn; intuition congruence.
  - repeat constructor; cbn [fst snd]; apply of_kind_key.
Qed.

(* ------------------------------------------------------------------ threading the uuid stream *)
Definition W (c : cfg) (l : list rq) (us : list text) : list etree :=
  map (fun p => spec_wrapper c (fst p) (snd p)) (combine l us).
Definition blk (m : msgset) (ws : list etree) : list (msgset * list etree) :=
  match ws with [] => [] | _ :: _ => [(m, ws)] end.

Lemma wrap_all_ok c l : forall uu ws uu',
  wrap_all c l uu = OK (ws, uu') ->
  exists us, uu = (us ++ uu')%list /\ List.length us = List.length l /\ ws = W c l us.
Proof.
  induction l as [|r l IH]; intros uu ws uu' H; cbn [wrap_all] in H.
  - inversion H; subst. exists []. repeat split.
  - destruct uu as [|u uu1]; [discriminate|]. cbn [take_uuid bind fst snd] in H. inv_ok.
    match goal with H : build_trnrq _ _ _ = OK _ |- _ => apply build_trnrq_ok in H; subst end.
    match goal with x : (list etree * list text)%type |- _ => destruct x as [ws1 uu2] end. cbn [fst snd] in *.
    match goal with H : wrap_all _ _ _ = OK _ |- _ => apply IH in H; destruct H as [us [-> [L ->]]] end.
    exists (u :: us). split; [reflexivity|]. split; [cbn [List.length]; congruence|]. reflexivity.
Qed.

Lemma wrap_groups_app c g1 : forall g2 uu res uu',
  wrap_groups c (g1 ++ g2) uu = OK (res, uu') ->
  exists r1 u1 r2, wrap_groups c g1 uu = OK (r1, u1) /\ wrap_groups c g2 u1 = OK (r2, uu') /\ res = (r1 ++ r2)%list.
Proof.
  induction g1 as [|[k rqs] g1 IH]; intros g2 uu res uu' H.
  - exists [], uu, res. repeat split. exact H.
  - cbn [app wrap_groups] in *. inv_ok.
    repeat match goal with x : (_ * _)%type |- _ => destruct x end. cbn [fst snd] in *.
    match goal with H : wrap_groups _ (_ ++ _) _ = OK _ |- _ => apply IH in H; destruct H as [r1 [u3 [r2 [E1 [E2 ->]]]]] end.
    inversion H; subst.
    match goal with H : wrap_all _ _ _ = OK _ |- _ => rewrite H end. cbn [bind fst snd]. rewrite E1. cbn [bind fst snd].
    eexists _, _, _. split; [reflexivity|]. split; [exact E2|reflexivity].
Qed.

Lemma wrap_groups_block c k b uu res uu' :
  wrap_groups c (block (k, b)) uu = OK (res, uu') ->
  exists us, uu = (us ++ uu')%list /\ List.length us = List.length b /\ res = blk (msgset_of k) (W c b us).
Proof.
  unfold block. cbn [snd]. destruct b as [|r b].
  - cbn [wrap_groups]. intros H. inversion H; subst. exists []. repeat split.
  - cbn [wrap_groups]. intros H. inv_ok.
    repeat match goal with x : (_ * _)%type |- _ => destruct x end. cbn [fst snd] in *. inversion H; subst.
    match goal with H : wrap_all _ _ _ = OK _ |- _ => apply wrap_all_ok in H; destruct H as [us [-> [L ->]]] end.
    repeat match goal with H : (_, _) = (_, _) |- _ => inversion H; subst; clear H end.
    exists us. split; [reflexivity|]. split; [assumption|].
    destruct us as [|u us]; [discriminate L|]. reflexivity.
Qed.

(* ------------------------------------------------------------------ second sort, grouping, dict *)
Definition mset (m : msgset) (ws : list etree) : option etree :=
  match ws with [] => None | _ :: _ => Some (Node (msgset_name m) None ws) end.
Definition members (m : msgset) (res : list (msgset * list etree)) : list etree :=
  List.concat (map snd (filter (fun p => msgset_eqb (fst p) m) res)).

Lemma of_rank_msgset m (res : list (msgset * list etree)) :
  of_rank (fun p => mrank (fst p)) (mrank m) res = filter (fun p => msgset_eqb (fst p) m) res.
Proof. unfold of_rank. apply filter_ext. intros p. destruct (fst p), m; reflexivity. Qed.

Lemma stage2 res msgs :
  Forall (fun p : msgset * list etree => snd p <> []) res ->
  mk_msgs (groupby msgset_eqb fst (isort pair_leb res)) = OK msgs ->
  forall m, dict_get m msgs = mset m (members m res).
Proof.
  intros NE H.
  rewrite (isort_ext pair_leb (rleb (fun p => mrank (fst p)))) in H by (intros a b; apply msgset_order).
  rewrite (isort_by_ranks _ 3) in H by (apply Forall_forall; intros p _; destruct (fst p); cbn [mrank]; lia).
  unfold by_ranks in H. cbn [seq flat_map] in H.
  change 2%nat with (mrank MInv) in H. change 1%nat with (mrank MCc) in H. change 0%nat with (mrank MBank) in H.
  rewrite !of_rank_msgset in H. rewrite app_nil_r in H.
  pose (F := fun m => filter (fun p : msgset * list etree => msgset_eqb (fst p) m) res).
  change (filter (fun p : msgset * list etree => msgset_eqb (fst p) MBank) res) with (F MBank) in H.
  change (filter (fun p : msgset * list etree => msgset_eqb (fst p) MCc) res) with (F MCc) in H.
  change (filter (fun p : msgset * list etree => msgset_eqb (fst p) MInv) res) with (F MInv) in H.
  assert (FNE : forall m p l, F m = p :: l -> exists y ys, snd p = y :: ys).
  { intros m p l E. assert (I : In p (F m)) by (rewrite E; left; reflexivity).
    unfold F in I. apply filter_In in I. destruct I as [I _].
    rewrite Forall_forall in NE. specialize (NE p I). destruct (snd p) as [|y ys]; [congruence|eauto]. }
  pose proof (groupby_blocks msgset_eqb fst msgset_eqb_eq [(MBank, F MBank); (MCc, F MCc); (MInv, F MInv)]) as G.
  cbn [blocks_of snd map fst] in G. rewrite app_nil_r in G.
  destruct G as [G _].
  { repeat constructor; cbn; intuition congruence. }
  { repeat constructor; cbn [fst snd]; apply Forall_forall; intros p I; apply filter_In in I; apply msgset_eqb_eq, I. }
  rewrite G in H. clear G. cbn [flat_map] in H. unfold block in H. cbn [snd] in H.
  intros m. unfold members. change (filter (fun p : msgset * list etree => msgset_eqb (fst p) m) res) with (F m).
  destruct (F MBank) as [|p0 l0] eqn:E0; destruct (F MCc) as [|p1 l1] eqn:E1; destruct (F MInv) as [|p2 l2] eqn:E2;
    cbn [app mk_msgs] in H; inv_ok; subst;
    repeat match goal with H : aggl _ _ = OK _ |- _ => apply aggl_ok in H; subst end;
    try (destruct (FNE _ _ _ E0) as [y0 [ys0 Y0]]); try (destruct (FNE _ _ _ E1) as [y1 [ys1 Y1]]);
    try (destruct (FNE _ _ _ E2) as [y2 [ys2 Y2]]);
    destruct m; rewrite ?E0, ?E1, ?E2; cbn [map List.concat snd fst];
    rewrite ?Y0, ?Y1, ?Y2; reflexivity.
Qed.

Lemma blk_ne m ws : Forall (fun p : msgset * list etree => snd p <> []) (blk m ws).
Proof. destruct ws; cbn [blk]; repeat constructor. cbn [snd]. discriminate. Qed.
Lemma members_app m a b : members m (a ++ b) = (members m a ++ members m b)%list.
Proof. unfold members. rewrite filter_app, map_app, concat_app. reflexivity. Qed.
Lemma members_blk m m' ws : members m (blk m' ws) = if msgset_eqb m' m then ws else [].
Proof.
  unfold members. destruct ws as [|w ws]; cbn [blk filter fst]; [destruct (msgset_eqb m' m); reflexivity|].
  destruct (msgset_eqb m' m); cbn [map snd List.concat]; [apply app_nil_r|reflexivity].
Qed.

(* ------------------------------------------------------------------ serialize, header *)
Lemma serialize_ok c ov oc nf body r :
  serialize c ov oc nf body = OK r ->
  c_body r = body /\ header_text (dflt ov (version c)) nf = OK (c_header r)
  /\ negb (dflt oc (close_elements c)) && (200 <=? dflt ov (version c)) = false.
Proof.
  unfold serialize. intros H. inv_ok.
  destruct (negb (dflt oc (close_elements c)) && (200 <=? dflt ov (version c))); [discriminate|].
  inversion H; subst. cbn [c_body c_header]. repeat split; assumption.
Qed.

Lemma mk_OFX_ok so rest t :
  mk_OFX so rest = OK t -> exists ch, collect rest = OK ch /\ t = Node (T "OFX") None (so :: ch).
Proof.
  unfold mk_OFX. intros H. apply agg_ok in H. destruct H as [ch [Hc ->]].
  apply collect_cons in Hc. destruct Hc as [a [b [Ha [Hb ->]]]]. apply fsub_ok in Ha. subst. eauto.
Qed.

(** the uuid taken for NEWFILEUID *)
Lemma newfileuid_ok (gen : bool) uu (nf : option text * list text) :
  (if gen then rmap (fun p : text * list text => (Some (fst p), snd p)) (take_uuid uu) else OK (None, uu)) = OK nf ->
  fst nf = (if gen then hd_error uu else None).
Proof.
  destruct gen; intros H; [|inversion H; reflexivity].
  destruct uu as [|u uu]; cbn [take_uuid rmap] in H; [discriminate|]. inversion H. reflexivity.
Qed.

(* ------------------------------------------------------------------ request_statements, closed form *)
Theorem statements_closed c uuids d pw gen reqs r :
  request_statements c uuids d pw gen reqs = OK r ->
  exists u0 u1 u2 u3 u4 rest,
    uuids = (u0 ++ u1 ++ u2 ++ u3 ++ u4 ++ rest)%list
    /\ List.length u0 = List.length (of_kind KCcStmtEnd reqs) /\ List.length u1 = List.length (of_kind KCcStmt reqs)
    /\ List.length u2 = List.length (of_kind KInvStmt reqs) /\ List.length u3 = List.length (of_kind KStmtEnd reqs)
    /\ List.length u4 = List.length (of_kind KStmt reqs)
    /\ c_body r = Node (T "OFX") None
         (spec_signon c d (userid c) pw
          :: olist (mset MBank (W c (of_kind KStmtEnd reqs) u3 ++ W c (of_kind KStmt reqs) u4))
          ++ olist (mset MCc (W c (of_kind KCcStmtEnd reqs) u0 ++ W c (of_kind KCcStmt reqs) u1))
          ++ olist (mset MInv (W c (of_kind KInvStmt reqs) u2)))%list
    /\ header_text (version c) (if gen then hd_error rest else None) = OK (c_header r)
    /\ negb (close_elements c) && (200 <=? version c) = false.
Proof.
  unfold request_statements. intros H. inv_ok. unfold statements_tail in H. inv_ok.
  match goal with H : wrap_groups _ _ _ = OK _ |- _ => rename H into HW end.
  rewrite groups_closed in HW. cbn [kblocks flat_map] in HW.
  match goal with x : (list (msgset * list etree) * list text)%type |- _ => destruct x as [res uu'] end. cbn [fst snd] in *.
  apply wrap_groups_app in HW. destruct HW as [r0 [v0 [q0 [B0 [HW ->]]]]].
  apply wrap_groups_app in HW. destruct HW as [r1 [v1 [q1 [B1 [HW ->]]]]].
  apply wrap_groups_app in HW. destruct HW as [r2 [v2 [q2 [B2 [HW ->]]]]].
  apply wrap_groups_app in HW. destruct HW as [r3 [v3 [q3 [B3 [HW ->]]]]].
  apply wrap_groups_app in HW. destruct HW as [r4 [v4 [q4 [B4 [HW ->]]]]].
  cbn [wrap_groups] in HW. inversion HW; subst; clear HW.
  apply wrap_groups_block in B0. destruct B0 as [u0 [-> [L0 ->]]].
  apply wrap_groups_block in B1. destruct B1 as [u1 [-> [L1 ->]]].
  apply wrap_groups_block in B2. destruct B2 as [u2 [-> [L2 ->]]].
  apply wrap_groups_block in B3. destruct B3 as [u3 [-> [L3 ->]]].
  apply wrap_groups_block in B4. destruct B4 as [u4 [-> [L4 ->]]].
  match goal with H : mk_msgs _ = OK _ |- _ => rename H into HM end.
  assert (NE : Forall (fun p : msgset * list etree => snd p <> [])
                 (blk (msgset_of KCcStmtEnd) (W c (of_kind KCcStmtEnd reqs) u0) ++ blk (msgset_of KCcStmt) (W c (of_kind KCcStmt reqs) u1)
                  ++ blk (msgset_of KInvStmt) (W c (of_kind KInvStmt reqs) u2) ++ blk (msgset_of KStmtEnd) (W c (of_kind KStmtEnd reqs) u3)
                  ++ blk (msgset_of KStmt) (W c (of_kind KStmt reqs) u4) ++ [])%list).
  { do 5 (apply Forall_app; split; [apply blk_ne|]). constructor. }
  pose proof (stage2 _ _ NE HM) as D. clear NE.
  match goal with H : signon _ _ _ _ = OK _ |- _ => apply signon_shape in H; destruct H as [-> _] end.
  match goal with H : mk_OFX _ _ = OK _ |- _ => apply mk_OFX_ok in H; destruct H as [ch [Hc ->]] end.
  repeat (apply collect_cons in Hc; let a := fresh "a" in let b := fresh "b" in let Ha := fresh "Ha" in
          destruct Hc as [a [b [Ha [Hc ->]]]]).
  apply collect_nil in Hc. subst. inv_fields.
  rewrite !D in H. rewrite !members_app, !members_blk in H. cbn [msgset_of msgset_eqb app] in H. rewrite !app_nil_r in H.
  apply serialize_ok in H. destruct H as [Eb [Eh Eg]].
  match goal with H : _ = OK ?nf |- _ => apply newfileuid_ok in H; rename H into En end.
  exists u0, u1, u2, u3, u4, uu'. cbn [dflt] in *. rewrite En in Eh. rewrite Eb.
  repeat (split; [assumption || reflexivity|]). assumption.
Qed.

(** one wrapper per request: the five per-kind lists partition the requests *)
Lemma of_kind_total reqs :
  (List.length (of_kind KCcStmtEnd reqs) + List.length (of_kind KCcStmt reqs) + List.length (of_kind KInvStmt reqs)
   + List.length (of_kind KStmtEnd reqs) + List.length (of_kind KStmt reqs) = List.length reqs)%nat.
Proof.
  rewrite <- (isort_length kind_leb reqs), sort_closed, !app_length. lia.
Qed.
(** "in request order within each kind": the wrappers of a kind follow the sub-sequence of the requests of that kind *)
Lemma of_kind_cons k r reqs :
  of_kind k (r :: reqs) = if kind_eqb (kind_of r) k then r :: of_kind k reqs else of_kind k reqs.
Proof. reflexivity. Qed.

(* ------------------------------------------------------------------ the other three requests *)
Lemma norm_or_none v : norm (or_none v) = norm v.
Proof. destruct v as [[|x s]|]; reflexivity. Qed.

Theorem accounts_closed c uuids d pw dtacctup gen r :
  request_accounts c uuids d pw dtacctup gen = OK r ->
  exists u rest,
    uuids = u :: rest
    /\ c_body r = Node (T "OFX") None
         [spec_signon c d (userid c) pw;
          Node (T "SIGNUPMSGSRQV1") None
            [wrapper "ACCTINFOTRNRQ" u (Node (T "ACCTINFORQ") None (leaf (T "DTACCTUP") (dtext dtacctup)))]]
    /\ header_text (version c) (if gen then hd_error rest else None) = OK (c_header r)
    /\ negb (close_elements c) && (200 <=? version c) = false.
Proof.
  unfold request_accounts, trnrq. intros H. inv_ok.
  destruct uuids as [|u rest]; [discriminate|]. cbn [take_uuid] in *.
  repeat match goal with H : OK (_, _) = OK _ |- _ => inversion H; subst; clear H end. cbn [fst snd] in *.
  match goal with H : signon _ _ _ _ = OK _ |- _ => apply signon_shape in H; destruct H as [-> _] end.
  match goal with H : mk_OFX _ _ = OK _ |- _ => apply mk_OFX_ok in H; destruct H as [ch [Hc ->]] end.
  repeat (apply collect_cons in Hc; let a := fresh "a" in let b := fresh "b" in let Ha := fresh "Ha" in
          destruct Hc as [a [b [Ha [Hc ->]]]]).
  apply collect_nil in Hc. subst.
  match goal with H : aggl _ _ = OK _ |- _ => apply aggl_ok in H; subst end.
  inv_aggs. inv_fields.
  match goal with H : serialize _ _ _ _ _ = OK _ |- _ => apply serialize_ok in H; destruct H as [Eb [Eh Eg]] end.
  match goal with H : _ = OK ?nf |- _ => apply newfileuid_ok in H; rename H into En end.
  exists u, rest. cbn [dflt] in *. rewrite En in Eh. rewrite Eb.
  split; [reflexivity|]. split; [|split; assumption].
  unfold wrapper. cbn [olist app]. rewrite ?app_nil_r. reflexivity.
Qed.

Theorem tax_closed c uuids d pw years acctnum recid gen r :
  request_tax1099 c uuids d pw years acctnum recid gen = OK r ->
  exists u rest len ys,
    uuids = u :: rest
    /\ lookup_attr (T "TAX1099RQ") (T "taxyear") = Some (CListInt len)
    /\ taxyear_elems len years = OK ys
    /\ c_body r = Node (T "OFX") None
         [spec_signon c d (userid c) pw;
          Node (T "TAX1099MSGSRQV1") None
            [wrapper "TAX1099TRNRQ" u
               (Node (T "TAX1099RQ") None
                  (leaf (T "ACCTNUM") (norm acctnum) ++ leaf (T "RECID") (norm recid) ++ ys))]]%list
    /\ header_text (version c) (if gen then hd_error rest else None) = OK (c_header r)
    /\ negb (close_elements c) && (200 <=? version c) = false.
Proof.
  unfold request_tax1099, trnrq. intros H. inv_ok.
  destruct uuids as [|u rest]; [discriminate|]. cbn [take_uuid] in *.
  repeat match goal with H : OK (_, _) = OK _ |- _ => inversion H; subst; clear H end. cbn [fst snd] in *.
  match goal with H : signon _ _ _ _ = OK _ |- _ => apply signon_shape in H; destruct H as [-> _] end.
  match goal with H : mk_OFX _ _ = OK _ |- _ => apply mk_OFX_ok in H; destruct H as [ch [Hc ->]] end.
  repeat (apply collect_cons in Hc; let a := fresh "a" in let b := fresh "b" in let Ha := fresh "Ha" in
          destruct Hc as [a [b [Ha [Hc ->]]]]).
  apply collect_nil in Hc. subst.
  match goal with H : aggl _ _ = OK _ |- _ => apply aggl_ok in H; subst end.
  match goal with H : mk_TAX1099RQ _ _ _ = OK _ |- _ => unfold mk_TAX1099RQ in H; rename H into HT end.
  destruct (lookup_class (T "TAX1099RQ")) as [cl|]; [|discriminate].
  destruct (lookup_attr (T "TAX1099RQ") (T "taxyear")) as [[| | | | | |len| |]|] eqn:EL; try discriminate.
  destruct (cc_elementlist cl); [|discriminate]. inv_ok.
  match goal with H : collect _ = OK _ |- _ => rename H into Hc end.
  repeat (apply collect_cons in Hc; let a := fresh "a" in let b := fresh "b" in let Ha := fresh "Ha" in
          destruct Hc as [a [b [Ha [Hc ->]]]]).
  apply collect_nil in Hc. subst.
  inv_aggs. inv_fields.
  match goal with H : serialize _ _ _ _ _ = OK _ |- _ => apply serialize_ok in H; destruct H as [Eb [Eh Eg]] end.
  match goal with H : (if gen then _ else _) = OK ?nf |- _ => apply newfileuid_ok in H; rename H into En end.
  match goal with H : taxyear_elems _ _ = OK ?ys |- _ => exists u, rest, len, ys; rename H into HY end.
  cbn [dflt] in *. rewrite En in Eh. rewrite Eb.
  split; [reflexivity|]. split; [reflexivity|]. split; [exact HY|]. split; [|split; assumption].
  unfold wrapper. cbn [olist app]. rewrite ?app_nil_r, !norm_or_none, <- ?app_assoc. reflexivity.
Qed.

Theorem profile_closed c uuids d dtprofup ov oc gen r :
  request_profile c uuids d dtprofup ov oc gen = OK r ->
  exists u rest,
    uuids = u :: rest
    /\ c_body r = Node (T "OFX") None
         [spec_signon c d auth_placeholder auth_placeholder;
          Node (T "PROFMSGSRQV1") None
            [wrapper "PROFTRNRQ" u
               (Node (T "PROFRQ") None
                  (leaf (T "CLIENTROUTING") (Some (T "NONE"))
                   ++ leaf (T "DTPROFUP") (dtext (match dtprofup with DNone => default_dtprofup | _ => dtprofup end))))]]%list
    /\ header_text (dflt ov (version c)) (if gen then hd_error rest else None) = OK (c_header r)
    /\ negb (dflt oc (close_elements c)) && (200 <=? dflt ov (version c)) = false.
Proof.
  unfold request_profile, trnrq. intros H. inv_ok.
  destruct uuids as [|u rest]; [discriminate|]. cbn [take_uuid] in *.
  repeat match goal with H : OK (_, _) = OK _ |- _ => inversion H; subst; clear H end. cbn [fst snd] in *.
  match goal with H : signon _ _ _ _ = OK _ |- _ => apply signon_shape in H; destruct H as [-> _] end.
  match goal with H : mk_OFX _ _ = OK _ |- _ => apply mk_OFX_ok in H; destruct H as [ch [Hc ->]] end.
  repeat (apply collect_cons in Hc; let a := fresh "a" in let b := fresh "b" in let Ha := fresh "Ha" in
          destruct Hc as [a [b [Ha [Hc ->]]]]).
  apply collect_nil in Hc. subst.
  match goal with H : aggl _ _ = OK _ |- _ => apply aggl_ok in H; subst end.
  inv_aggs. inv_fields.
  match goal with H : serialize _ _ _ _ _ = OK _ |- _ => apply serialize_ok in H; destruct H as [Eb [Eh Eg]] end.
  match goal with H : (if gen then _ else _) = OK ?nf |- _ => apply newfileuid_ok in H; rename H into En end.
  exists u, rest. rewrite En in Eh. rewrite Eb.
  split; [reflexivity|]. split; [|split; assumption].
  unfold wrapper. cbn [olist app dflt keep]. rewrite ?app_nil_r. reflexivity.
Qed.

(* ------------------------------------------------------------------ transaction ids *)
(** the TRNUID a wrapper carries (its first child, if that is a TRNUID element) *)
Definition wrapper_trnuid (w : etree) : list text :=
  match children_of w with
  | Node g (Some x) [] :: _ => if text_eqb g (T "TRNUID") then [x] else []
  | _ => []
  end.
(** all TRNUIDs of a composed body, in document order: message sets, then their wrappers *)
Definition trnuids (body : etree) : list text :=
  flat_map (fun m => flat_map wrapper_trnuid (children_of m)) (children_of body).

Definition not_trnuid (n : etree) : Prop := text_eqb (tag_of n) (T "TRNUID") = false \/ txt_of n = None.
Lemma wrapper_trnuid_none g x l : Forall not_trnuid l -> wrapper_trnuid (Node g x l) = [].
Proof.
  unfold wrapper_trnuid. cbn [children_of]. destruct l as [|[g' [t|] ch] l]; intros F; try reflexivity.
  inversion F; subst. destruct H1 as [E|E]; cbn [tag_of txt_of] in E; [rewrite E; destruct ch; reflexivity|discriminate].
Qed.
Lemma leaf_not_trnuid t v : text_eqb t (T "TRNUID") = false -> Forall not_trnuid (leaf t v).
Proof. intros E. destruct v; cbn [leaf]; [constructor; [left; exact E|constructor]|constructor]. Qed.

Lemma signon_no_trnuid c d uid pw : flat_map wrapper_trnuid (children_of (spec_signon c d uid pw)) = [].
Proof.
  unfold spec_signon. cbn [children_of flat_map]. rewrite app_nil_r. apply wrapper_trnuid_none.
  repeat (apply Forall_app; split); try (apply leaf_not_trnuid; reflexivity).
  destruct (truthy (org c)); [constructor; [right; reflexivity|constructor]|constructor].
Qed.

Definition trnuid_of (u : text) : list text := olist (norm (Some u)).
Lemma wrapper_trnuid_spec c r u : wrapper_trnuid (spec_wrapper c r u) = trnuid_of u.
Proof.
  unfold trnuid_of, norm. destruct r; cbn [spec_wrapper]; unfold wrapper, wrapper_trnuid; cbn [children_of];
  destruct u as [|x s]; cbn [leaf app olist]; reflexivity.
Qed.
Lemma trnuids_W c l : forall us, List.length us = List.length l -> flat_map wrapper_trnuid (W c l us) = flat_map trnuid_of us.
Proof.
  unfold W. induction l as [|r l IH]; intros [|u us] L; try discriminate L; [reflexivity|].
  cbn [combine map flat_map fst snd]. rewrite wrapper_trnuid_spec. f_equal. apply IH. injection L. auto.
Qed.
Lemma trnuids_mset m ws :
  flat_map (fun n => flat_map wrapper_trnuid (children_of n)) (olist (mset m ws)) = flat_map wrapper_trnuid ws.
Proof. destruct ws as [|w ws]; [reflexivity|]. cbn [mset olist flat_map children_of]. apply app_nil_r. Qed.

(** a uuid as uuid4 prints it: non-empty, no '&' *)
Definition plain (u : text) : bool := nonempty u && no_amp u.
Lemma trnuid_of_plain us : forallb plain us = true -> flat_map trnuid_of us = us.
Proof.
  induction us as [|u us IH]; [reflexivity|]. cbn [forallb flat_map]. intros H. apply andb_true_iff in H. destruct H as [P H].
  rewrite IH by assumption. unfold plain in P. apply andb_true_iff in P. destruct P as [NE NA].
  unfold trnuid_of, norm. destruct u as [|x s]; [discriminate|]. rewrite unescape_no_amp by assumption. reflexivity.
Qed.

Lemma NoDup_app_l {A} (a b : list A) : NoDup (a ++ b) -> NoDup a.
Proof.
  induction a as [|x a IH]; intros H; [constructor|]. inversion H; subst. constructor; [|auto].
  intros I. apply H2. apply in_or_app. left. exact I.
Qed.

Theorem statements_trnuids c uuids d pw gen reqs r :
  request_statements c uuids d pw gen reqs = OK r ->
  forallb plain uuids = true -> NoDup uuids ->
  NoDup (trnuids (c_body r)) /\ List.length (trnuids (c_body r)) = List.length reqs
  /\ forall u, In u (trnuids (c_body r)) -> In u uuids.
Proof.
  intros H P ND. apply statements_closed in H.
  destruct H as [u0 [u1 [u2 [u3 [u4 [rest [-> [L0 [L1 [L2 [L3 [L4 [-> _]]]]]]]]]]]]].
  unfold trnuids. cbn [children_of flat_map]. rewrite signon_no_trnuid. cbn [app].
  rewrite !flat_map_app, !trnuids_mset, !flat_map_app, !trnuids_W by assumption.
  rewrite !forallb_app in P. repeat (apply andb_true_iff in P; let Q := fresh "Q" in destruct P as [Q P]).
  rewrite !trnuid_of_plain by assumption.
  assert (PM : Permutation ((u3 ++ u4) ++ (u0 ++ u1) ++ u2) (u0 ++ u1 ++ u2 ++ u3 ++ u4)).
  { assert (E1 : ((u3 ++ u4) ++ (u0 ++ u1) ++ u2 = (u3 ++ u4) ++ (u0 ++ u1 ++ u2))%list) by (rewrite <- !app_assoc; reflexivity).
    assert (E2 : (u0 ++ u1 ++ u2 ++ u3 ++ u4 = (u0 ++ u1 ++ u2) ++ (u3 ++ u4))%list) by (rewrite <- !app_assoc; reflexivity).
    rewrite E1, E2. apply Permutation_app_comm. }
  assert (ND5 : NoDup (u0 ++ u1 ++ u2 ++ u3 ++ u4)).
  { rewrite !app_assoc in ND. apply NoDup_app_l in ND. rewrite <- !app_assoc in ND. exact ND. }
  split; [|split].
  - eapply Permutation_NoDup; [apply Permutation_sym, PM|exact ND5].
  - rewrite (Permutation_length PM). rewrite !app_length, <- (of_kind_total reqs). lia.
  - intros u I. eapply Permutation_in in I; [|exact PM]. rewrite !app_assoc. apply in_or_app. left. rewrite <- !app_assoc. exact I.
Qed.

(* ------------------------------------------------------------------ header, refusals *)
Lemma header_text_ok ver nf h :
  header_text ver nf = OK h ->
  exists nf', (ver / 100 = 1 /\ h = header_v1 ver nf')
              \/ (ver / 100 = 2 /\ In ver hdr_v2_versions /\ h = header_v2 ver nf').
Proof.
  unfold header_text. intros H. inv_ok. exists x.
  destruct (ver / 100 =? 1) eqn:E1.
  - apply N.eqb_eq in E1. destruct (ver <? 10 ^ hdr_v1_version_len); inversion H. left. auto.
  - destruct (ver / 100 =? 2) eqn:E2; [|discriminate]. apply N.eqb_eq in E2.
    destruct (existsb (N.eqb ver) hdr_v2_versions) eqn:EX; inversion H. right. split; [assumption|]. split; [|reflexivity].
    apply existsb_exists in EX. destruct EX as [v [I E]]. apply N.eqb_eq in E. subst. exact I.
Qed.

(** the VERSION field of the header text is the decimal numeral of the version *)
Lemma header_v1_version ver nf : exists a b, header_v1 ver nf = (a ++ T "VERSION:" ++ dec_of_N ver ++ crlf ++ b)%list
                                         /\ a = (T "OFXHEADER:100" ++ crlf ++ T "DATA:OFXSGML" ++ crlf)%list.
Proof. eexists _, _. split; [|reflexivity]. unfold header_v1. rewrite <- !app_assoc. reflexivity. Qed.
Lemma header_v2_version ver nf : exists a b, header_v2 ver nf = (a ++ T "VERSION=""" ++ dec_of_N ver ++ T """" ++ b)%list
                                         /\ a = (T "<?xml version=""1.0"" encoding=""UTF-8"" standalone=""no""?>" ++ crlf ++ T "<?OFX OFXHEADER=""200"" ")%list.
Proof. eexists _, _. split; [|reflexivity]. unfold header_v2. rewrite <- !app_assoc. reflexivity. Qed.

Lemma client_init_refuses a :
  dflt (a_close_elements a) d_close_elements = false -> 200 <= dflt (a_version a) d_version ->
  client_init a = Err Reject.
Proof.
  intros C V. unfold client_init. cbn [close_elements version]. rewrite C. apply N.leb_le in V. rewrite V. reflexivity.
Qed.
Lemma client_init_ok a c : client_init a = OK c -> negb (close_elements c) && (200 <=? version c) = false.
Proof.
  unfold client_init. match goal with |- (if ?g then _ else _) = _ -> _ => destruct g eqn:G end; [discriminate|].
  intros E. inversion E; subst. exact G.
Qed.
Lemma serialize_refuses c ov oc nf body :
  dflt oc (close_elements c) = false -> 200 <= dflt ov (version c) -> is_ok (serialize c ov oc nf body) = false.
Proof.
  intros C V. unfold serialize. destruct (header_text (dflt ov (version c)) nf); [|reflexivity].
  cbn [bind]. rewrite C. apply N.leb_le in V. rewrite V. reflexivity.
Qed.

(* ------------------------------------------------------------------ subclass-named requests with the stock names *)
Lemma insert_map {A B} (g : A -> B) (leA : A -> A -> bool) (leB : B -> B -> bool) :
  (forall a b, leB (g a) (g b) = leA a b) -> forall x l, insert leB (g x) (map g l) = map g (insert leA x l).
Proof. intros E x l. induction l as [|y l IH]; [reflexivity|]. cbn [map insert]. rewrite E. destruct (leA x y); [reflexivity|]. cbn [map]. rewrite IH. reflexivity. Qed.
Lemma isort_map {A B} (g : A -> B) (leA : A -> A -> bool) (leB : B -> B -> bool) :
  (forall a b, leB (g a) (g b) = leA a b) -> forall l, isort leB (map g l) = map g (isort leA l).
Proof. intros E l. induction l as [|x l IH]; [reflexivity|]. cbn [map isort]. rewrite IH. apply insert_map, E. Qed.
Lemma groupby_map {A B K K'} (g : A -> B) (kf : K -> K') keqb keqb' (key : A -> K) (key' : B -> K') :
  (forall x, key' (g x) = kf (key x)) -> (forall a b, keqb' (kf a) (kf b) = keqb a b) ->
  forall l, groupby keqb' key' (map g l) = map (fun kg => (kf (fst kg), map g (snd kg))) (groupby keqb key l).
Proof.
  intros E1 E2 l. induction l as [|x l IH]; [reflexivity|]. cbn [map groupby]. rewrite IH.
  destruct (groupby keqb key l) as [|[k gr] gs]; cbn [map fst snd]; [rewrite E1; reflexivity|].
  rewrite E1, E2. destruct (keqb (key x) k); reflexivity.
Qed.
(** every group of groupby is non-empty and keyed by its first member *)
Lemma groupby_heads {A K} keqb (key : A -> K) : (forall a b, keqb a b = true <-> a = b) ->
  forall l, Forall (fun kg => match snd kg with x :: _ => key x = fst kg | [] => False end) (groupby keqb key l).
Proof.
  intros Q l. induction l as [|x l IH]; [constructor|]. cbn [groupby]. destruct (groupby keqb key l) as [|[k gr] gs].
  - repeat constructor.
  - inversion IH; subst. destruct (keqb (key x) k) eqn:E.
    + constructor; [cbn [fst snd]; apply Q in E; exact E|assumption].
    + constructor; [reflexivity|]. constructor; assumption.
Qed.

Definition tag_stock (r : rq) : named := (kind_name (kind_of r), r).
Lemma kind_name_inj a b : text_eqb (kind_name a) (kind_name b) = kind_eqb a b.
Proof. destruct a, b; vm_compute; reflexivity. Qed.
Lemma wrap_named_stock c gs : forall uu,
  Forall (fun kg : kind * list rq => match snd kg with x :: _ => kind_of x = fst kg | [] => False end) gs ->
  wrap_named_groups c (map (fun kg => (kind_name (fst kg), map tag_stock (snd kg))) gs) uu = wrap_groups c gs uu.
Proof.
  induction gs as [|[k rqs] gs IH]; intros uu F; [reflexivity|]. inversion F; subst. cbn [fst snd] in *.
  cbn [map wrap_named_groups wrap_groups fst snd]. destruct rqs as [|x rqs]; [contradiction|]. cbn [map tag_stock snd].
  change (x :: map snd (map tag_stock rqs)) with (map snd (map tag_stock (x :: rqs))).
  rewrite map_map. cbn [tag_stock snd]. rewrite map_id. rewrite H1.
  destruct (wrap_all c (x :: rqs) uu) as [ws|e]; [|reflexivity]. cbn [bind]. rewrite IH by assumption. reflexivity.
Qed.
(** with the stock class names the general composition is [request_statements]: its theorems are the stock case of the model
    the subclass cases are run through *)
Theorem named_stock c uuids d pw gen reqs :
  request_statements_named c uuids d pw gen (map tag_stock reqs) = request_statements c uuids d pw gen reqs.
Proof.
  unfold request_statements_named, request_statements.
  rewrite (isort_map tag_stock kind_leb name_leb) by reflexivity.
  rewrite (groupby_map tag_stock kind_name kind_eqb text_eqb kind_of fst) by (reflexivity || apply kind_name_inj).
  rewrite wrap_named_stock by (apply groupby_heads, kind_eqb_eq). reflexivity.
Qed.
