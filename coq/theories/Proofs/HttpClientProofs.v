(** Lemmas about Model/HttpClient.v (C14).  Everything is for an ARBITRARY world (adaptive server) and by induction over
    EVERY finite sequence of calls on any number of client instances. *)
From Coq Require Import List NArith Bool Lia.
From OfxV Require Import Base.Prelude Model.HttpClient.
Import ListNotations.
Local Open Scope N_scope.

(** ---------- decidable equalities ---------- *)
Lemma url_eqb_eq a b : url_eqb a b = true <-> a = b.
Proof.
  destruct a as [h p], b as [h' p']. unfold url_eqb; cbn. rewrite andb_true_iff, !N.eqb_eq.
  split; [intros [-> ->]; reflexivity | intros E; injection E; auto].
Qed.
Lemma optn_eqb_eq (a b : option N) : option_eqb N.eqb a b = true <-> a = b.
Proof.
  destruct a, b; cbn; try (split; [discriminate | discriminate]); [|tauto].
  rewrite N.eqb_eq. split; [intros ->; reflexivity | intros E; injection E; auto].
Qed.
Lemma ckey_eqb_eq (a b : ckey) : ckey_eqb a b = true <-> a = b.
Proof.
  destruct a as [o f], b as [o' f']. unfold ckey_eqb; cbn. rewrite andb_true_iff, !optn_eqb_eq.
  split; [intros [-> ->]; reflexivity | intros E; injection E; auto].
Qed.
Lemma ckey_eqb_refl a : ckey_eqb a a = true.
Proof. apply ckey_eqb_eq; reflexivity. Qed.

Lemma cache_get_set ca k v k' :
  cache_get (cache_set ca k v) k' = if ckey_eqb k k' then Some v else cache_get ca k'.
Proof.
  induction ca as [|[k0 v0] r IH]; cbn.
  - destruct (ckey_eqb k k'); reflexivity.
  - destruct (ckey_eqb k0 k) eqn:E0; cbn.
    + apply ckey_eqb_eq in E0; subst k0. destruct (ckey_eqb k k'); reflexivity.
    + destruct (ckey_eqb k0 k') eqn:E1.
      * destruct (ckey_eqb k k') eqn:E2; [|reflexivity].
        apply ckey_eqb_eq in E1, E2; subst. rewrite ckey_eqb_refl in E0; discriminate.
      * exact IH.
Qed.

(** ---------- set_nth / nth_error ---------- *)
Lemma nth_error_set_nth_eq {A} (l : list A) k x y : nth_error l k = Some y -> nth_error (set_nth l k x) k = Some x.
Proof. revert k; induction l as [|a l IH]; intros [|k]; cbn; try discriminate; auto. Qed.
Lemma nth_error_set_nth_neq {A} (l : list A) k k' x : k <> k' -> nth_error (set_nth l k x) k' = nth_error l k'.
Proof. revert k k'; induction l as [|a l IH]; intros [|k] [|k'] H; cbn; auto; try congruence. Qed.
Lemma map_set_nth {A B} (f : A -> B) (l : list A) k x y :
  nth_error l k = Some y -> f x = f y -> map f (set_nth l k x) = map f l.
Proof.
  revert k; induction l as [|a l IH]; intros [|k]; cbn; try discriminate; intros H E.
  - injection H as ->. rewrite E; reflexivity.
  - rewrite (IH _ H E); reflexivity.
Qed.

(** ---------- post_request ---------- *)
Lemma post_spec w n cl u b cl1 rq rs :
  post w n cl u b = (cl1, rq, rs) ->
  rq = Rq u true mime_ofx accept_ofx (c_ua (cl_cfg cl)) (if c_persist (cl_cfg cl) then jar_get (cl_jar cl) (u_host u) else []) b
  /\ rs = w n rq
  /\ cl_cfg cl1 = cl_cfg cl
  /\ cl_jar cl1 = if c_persist (cl_cfg cl) && rs_transport rs then jar_update (cl_jar cl) (u_host u) (rs_cookies rs) else cl_jar cl.
Proof. unfold post. intros H. injection H as <- <- <-. cbn. auto. Qed.

(** ================= dryrun_sends_nothing ================= *)
Lemma dryrun_sends_nothing_l w st k o :
  o_mode o = MDry -> exists r, step w st k o = (st, [], r).
Proof.
  intros Hm. unfold step. destruct (nth_error (s_clients st) k); [|eauto].
  rewrite Hm. destruct (o_kind o); eauto.
Qed.

Definition all_dry (ops : list (nat * op)) : Prop := Forall (fun ko => o_mode (snd ko) = MDry) ops.
Lemma dryrun_history_l w st ops :
  all_dry ops -> fst (run w st ops) = st /\ flat (snd (run w st ops)) = [].
Proof.
  revert st; induction ops as [|[k o] r IH]; intros st H; cbn; [auto|].
  inversion H as [|? ? Ho Hr]; subst. cbn in Ho.
  destruct (dryrun_sends_nothing_l w st k o Ho) as [res E]. rewrite E.
  specialize (IH st Hr). destruct (run w st r) as [st2 tr]. cbn in *. destruct IH as [-> F]. split; [reflexivity|].
  unfold flat in *; cbn. exact F.
Qed.

(** ================= one_post_per_request ================= *)
Definition wf_rq (c : cfg) (rq : http_request) : Prop :=
  rq_post rq = true /\ rq_ctype rq = mime_ofx /\ rq_accept rq = accept_ofx /\ rq_ua rq = c_ua c.
(** a profile request: to the configured URL, anonymous *)
Definition profile_rq (c : cfg) (rq : http_request) : Prop :=
  rq_url rq = c_url c /\ b_kind (rq_body rq) = KProfile /\ b_user (rq_body rq) = placeholder /\ b_pass (rq_body rq) = placeholder.
(** the request the caller asked for: its kind, the configured user, the password given *)
Definition authed_rq (c : cfg) (o : op) (rq : http_request) : Prop :=
  b_kind (rq_body rq) = o_kind o /\ b_user (rq_body rq) = c_user c /\ b_pass (rq_body rq) = o_pass o.
Definition is_err {A} (r : result A) : Prop := match r with Err _ => True | OK _ => False end.

Definition shape (c : cfg) (o : op) (xs : list xchg) (res : result outcome) : Prop :=
  match o_kind o, o_mode o with
  | _, MDry => xs = []
  | KProfile, _ => exists x, xs = [x] /\ profile_rq c (fst x)
  | _, MSkip => exists x, xs = [x] /\ authed_rq c o (fst x) /\ rq_url (fst x) = c_url c
  | _, MNormal => exists x, profile_rq c (fst x) /\
                   ((xs = [x] /\ is_err res) \/ exists y, xs = [x; y] /\ authed_rq c o (fst y))
  end.

Lemma one_post_per_request_l w st k o cl :
  nth_error (s_clients st) k = Some cl ->
  let '(st', xs, res) := step w st k o in
  Forall (fun x => wf_rq (cl_cfg cl) (fst x)) xs
  /\ s_nreq st' = (s_nreq st + List.length xs)%nat
  /\ shape (cl_cfg cl) o xs res.
Proof.
  intros Hn. unfold step. rewrite Hn. unfold shape.
  destruct (o_kind o) eqn:Hk, (o_mode o) eqn:Hm;
    try (cbn; repeat split; auto; fail);
    try (destruct (post w (s_nreq st) cl (c_url (cl_cfg cl)) _) as [[cl1 rq] rs] eqn:HP;
         destruct (post_spec _ _ _ _ _ _ _ _ HP) as (Erq & Ers & Ecfg & Ejar)).
  (* KProfile skip / normal *)
  1,2: destruct (accept_profile _ _ _) as [ca1 r]; cbn; repeat split;
       [constructor; [subst rq; cbn; repeat split; auto | constructor] | lia
       | exists (rq, rs); split; [reflexivity | subst rq; cbn; repeat split; auto]].
  (* skip: stmt, acct, tax *)
  1,3,5: cbn; repeat split;
       [constructor; [subst rq; cbn; repeat split; auto | constructor] | lia
       | exists (rq, rs); split; [reflexivity | subst rq; cbn; repeat split; auto]].
  (* normal: stmt, acct, tax *)
  all: destruct (accept_profile _ _ _) as [ca1 r]; destruct r as [p|e];
    [ destruct (service_url p) as [u|];
      [ destruct (post w _ cl1 u _) as [[cl2 rq2] rs2] eqn:HP2;
        destruct (post_spec _ _ _ _ _ _ _ _ HP2) as (Erq2 & Ers2 & Ecfg2 & Ejar2); cbn; repeat split;
        [ constructor; [subst rq; cbn; repeat split; auto | constructor; [subst rq2; cbn; rewrite Ecfg; repeat split; auto | constructor]]
        | lia
        | exists (rq, rs); split; [subst rq; cbn; repeat split; auto | right; exists (rq2, rs2); split; [reflexivity | subst rq2; cbn; rewrite Ecfg; repeat split; auto]] ]
      | cbn; repeat split;
        [ constructor; [subst rq; cbn; repeat split; auto | constructor] | lia
        | exists (rq, rs); split; [subst rq; cbn; repeat split; auto | left; split; [reflexivity | exact I]] ] ]
    | cbn; repeat split;
      [ constructor; [subst rq; cbn; repeat split; auto | constructor] | lia
      | exists (rq, rs); split; [subst rq; cbn; repeat split; auto | left; split; [reflexivity | exact I]] ] ].
Qed.

(** ================= credentials_only_to_advertised_url ================= *)
Lemma delivered_ok rs pl : delivered rs = OK pl -> rs_transport rs = true /\ rs_http_ok rs = true /\ rs_payload rs = pl.
Proof.
  unfold delivered. destruct (rs_transport rs), (rs_http_ok rs); cbn; try discriminate.
  intros E; injection E; auto.
Qed.

Lemma accept_profile_spec ca c r0 ca1 r :
  accept_profile ca c r0 = (ca1, r) ->
  (ca1 = ca \/ exists p, r0 = OK (RProfile p) /\ ca1 = cache_set ca (key_of c) (p, c_url c))
  /\ (forall p, r = OK p -> r0 = OK (RProfile p) \/ exists o, cache_get ca (key_of c) = Some (p, o)).
Proof.
  unfold accept_profile. destruct r0 as [[p| | |]|e].
  - destruct (cache_get ca (key_of c)) as [[h o]|] eqn:G.
    + destruct (pf_date h <=? pf_date p); intros E; injection E as <- <-.
      * split; [right; eauto|]. intros q Eq; injection Eq as <-; auto.
      * split; [auto|]. discriminate.
    + intros E; injection E as <- <-. split; [right; eauto|]. intros q Eq; injection Eq as <-; auto.
  - destruct (cache_get ca (key_of c)) as [[h o]|] eqn:G; intros E; injection E as <- <-; (split; [auto|]).
    + intros q Eq; injection Eq as <-; eauto.
    + discriminate.
  - intros E; injection E as <- <-. split; [auto|discriminate].
  - intros E; injection E as <- <-. split; [auto|discriminate].
  - intros E; injection E as <- <-. split; [auto|discriminate].
Qed.

Lemma xchg_profile_in u rq rs p :
  rq_url rq = u -> b_kind (rq_body rq) = KProfile -> delivered rs = OK (RProfile p) -> In p (xchg_profile u (rq, rs)).
Proof.
  intros Hu Hk Hd. destruct (delivered_ok _ _ Hd) as (Ht & Hh & Hp).
  unfold xchg_profile; cbn. rewrite Hk, Hp, Ht, Hh.
  replace (url_eqb (rq_url rq) u) with true by (symmetry; apply url_eqb_eq; exact Hu). cbn. auto.
Qed.

(** where one request of a call went, judged against the profiles the client's OWN server delivered in this call
    ([sent_now]) and what the cache held when the call began *)
Definition rq_ok (c : cfg) (o : op) (ca : cache) (sent_now : list profile) (rq : http_request) : Prop :=
  (b_kind (rq_body rq) = KProfile -> rq_url rq = c_url c /\ has_credentials (rq_body rq) = false)
  /\ (b_kind (rq_body rq) <> KProfile ->
        b_user (rq_body rq) = c_user c /\ b_pass (rq_body rq) = o_pass o /\
        ((o_mode o = MSkip /\ rq_url rq = c_url c)
         \/ (o_mode o = MNormal /\ exists p, service_url p = Some (rq_url rq)
               /\ (In p sent_now \/ exists org, cache_get ca (key_of c) = Some (p, org))))).

Lemma rq_ok_profile c o ca sent ua ck :
  rq_ok c o ca sent (Rq (c_url c) true mime_ofx accept_ofx ua ck (profile_body ca c)).
Proof. split; cbn; [intros _; split; reflexivity | intros X; exfalso; apply X; reflexivity]. Qed.
Lemma rq_ok_skip' c o ca sent ua ck kd :
  o_mode o = MSkip -> o_kind o = kd -> kd <> KProfile ->
  rq_ok c o ca sent (Rq (c_url c) true mime_ofx accept_ofx ua ck (Body kd (c_user c) (o_pass o) None)).
Proof. intros Hm Hk Hn. split; cbn; [intros X; contradiction | intros _; repeat split; auto]. Qed.
Lemma rq_ok_normal' c o ca sent ua ck p u kd :
  o_mode o = MNormal -> o_kind o = kd -> kd <> KProfile -> service_url p = Some u ->
  (In p sent \/ exists org, cache_get ca (key_of c) = Some (p, org)) ->
  rq_ok c o ca sent (Rq u true mime_ofx accept_ofx ua ck (Body kd (c_user c) (o_pass o) None)).
Proof. intros Hm Hk Hn Hs Hp. split; cbn; [intros X; contradiction | intros _; repeat split; auto]. right. split; [exact Hm|]. exists p; auto. Qed.

Lemma step_spec w st k o cl :
  nth_error (s_clients st) k = Some cl ->
  let c := cl_cfg cl in
  let '(st', xs, res) := step w st k o in
  let sent_now := flat_map (xchg_profile (c_url c)) xs in
  Forall (fun x => rq_ok c o (s_cache st) sent_now (fst x)) xs
  /\ map cl_cfg (s_clients st') = map cl_cfg (s_clients st)
  /\ (s_cache st' = s_cache st
      \/ exists p, In p sent_now /\ s_cache st' = cache_set (s_cache st) (key_of c) (p, c_url c)).
Proof.
  intros Hn c. unfold step. rewrite Hn. fold c.
  destruct (o_mode o) eqn:Hm.
  - (* dry *) destruct (o_kind o); cbn; repeat split; auto.
  - (* skip *)
    destruct (o_kind o) eqn:Hk.
    + destruct (post w (s_nreq st) cl (c_url c) _) as [[cl1 rq] rs] eqn:HP.
      destruct (post_spec _ _ _ _ _ _ _ _ HP) as (Erq & Ers & Ecfg & Ejar).
      destruct (accept_profile _ _ _) as [ca1 r] eqn:HA. destruct (accept_profile_spec _ _ _ _ _ HA) as (Hca & _).
      cbn -[xchg_profile]. rewrite app_nil_r.
      split; [constructor; [rewrite Erq; apply rq_ok_profile | constructor] |].
      split; [apply (map_set_nth cl_cfg _ _ _ _ Hn Ecfg) |].
      destruct Hca as [->|(p & Hd & ->)]; [left; reflexivity | right; exists p; split; [apply xchg_profile_in; subst rq; auto | reflexivity]].
    + destruct (post w (s_nreq st) cl (c_url c) _) as [[cl1 rq] rs] eqn:HP.
      destruct (post_spec _ _ _ _ _ _ _ _ HP) as (Erq & Ers & Ecfg & Ejar).
      cbn -[xchg_profile]. split; [constructor; [rewrite Erq; apply rq_ok_skip'; auto; discriminate | constructor] |].
      split; [apply (map_set_nth cl_cfg _ _ _ _ Hn Ecfg) | left; reflexivity].
    + destruct (post w (s_nreq st) cl (c_url c) _) as [[cl1 rq] rs] eqn:HP.
      destruct (post_spec _ _ _ _ _ _ _ _ HP) as (Erq & Ers & Ecfg & Ejar).
      cbn -[xchg_profile]. split; [constructor; [rewrite Erq; apply rq_ok_skip'; auto; discriminate | constructor] |].
      split; [apply (map_set_nth cl_cfg _ _ _ _ Hn Ecfg) | left; reflexivity].
    + destruct (post w (s_nreq st) cl (c_url c) _) as [[cl1 rq] rs] eqn:HP.
      destruct (post_spec _ _ _ _ _ _ _ _ HP) as (Erq & Ers & Ecfg & Ejar).
      cbn -[xchg_profile]. split; [constructor; [rewrite Erq; apply rq_ok_skip'; auto; discriminate | constructor] |].
      split; [apply (map_set_nth cl_cfg _ _ _ _ Hn Ecfg) | left; reflexivity].
  - (* normal *)
    assert (Hprofile : forall cl1 rq rs ca1 r,
      post w (s_nreq st) cl (c_url c) (profile_body (s_cache st) c) = (cl1, rq, rs) ->
      accept_profile (s_cache st) c (delivered rs) = (ca1, r) ->
      let sent := xchg_profile (c_url c) (rq, rs) in
      (forall more, rq_ok c o (s_cache st) more rq)
      /\ map cl_cfg (set_nth (s_clients st) k cl1) = map cl_cfg (s_clients st)
      /\ cl_cfg cl1 = c
      /\ (ca1 = s_cache st \/ exists p, In p sent /\ ca1 = cache_set (s_cache st) (key_of c) (p, c_url c))
      /\ (forall p, r = OK p -> In p sent \/ exists org, cache_get (s_cache st) (key_of c) = Some (p, org))).
    { intros cl1 rq rs ca1 r HP HA.
      destruct (post_spec _ _ _ _ _ _ _ _ HP) as (Erq & Ers & Ecfg & Ejar).
      destruct (accept_profile_spec _ _ _ _ _ HA) as (Hca & Hr).
      assert (Hin : forall p, delivered rs = OK (RProfile p) -> In p (xchg_profile (c_url c) (rq, rs)))
        by (intros p Hd; apply xchg_profile_in; subst rq; auto).
      split; [intros more; rewrite Erq; apply rq_ok_profile|].
      split; [apply (map_set_nth cl_cfg _ _ _ _ Hn Ecfg)|]. split; [exact Ecfg|].
      split.
      - destruct Hca as [->|(p & Hd & ->)]; [left; reflexivity | right; exists p; split; [apply Hin; exact Hd | reflexivity]].
      - intros p Ep. destruct (Hr p Ep) as [Hd|Hc]; [left; apply Hin; exact Hd | right; exact Hc]. }
    assert (Hkinds : forall kd, o_kind o = kd -> kd <> KProfile ->
      let '(st', xs, res) :=
        (let '(cl1, rq, rs) := post w (s_nreq st) cl (c_url c) (profile_body (s_cache st) c) in
         let '(ca1, r) := accept_profile (s_cache st) c (delivered rs) in
         let st1 := St (set_nth (s_clients st) k cl1) ca1 (S (s_nreq st)) in
         match r with
         | Err e => (st1, [(rq, rs)], Err e)
         | OK p =>
            match service_url p with
            | None => (st1, [(rq, rs)], Err Crash)
            | Some u =>
                let '(cl2, rq2, rs2) := post w (s_nreq st1) cl1 u (Body kd (c_user c) (o_pass o) None) in
                (St (set_nth (s_clients st1) k cl2) ca1 (S (s_nreq st1)), [(rq, rs); (rq2, rs2)],
                 rmap (fun _ => OAnswer (s_nreq st1)) (delivered rs2))
            end
         end) in
      let sent_now := flat_map (xchg_profile (c_url c)) xs in
      Forall (fun x => rq_ok c o (s_cache st) sent_now (fst x)) xs
      /\ map cl_cfg (s_clients st') = map cl_cfg (s_clients st)
      /\ (s_cache st' = s_cache st
          \/ exists p, In p sent_now /\ s_cache st' = cache_set (s_cache st) (key_of c) (p, c_url c))).
    { intros kd Hk Hkd.
      destruct (post w (s_nreq st) cl (c_url c) _) as [[cl1 rq] rs] eqn:HP.
      destruct (accept_profile _ _ _) as [ca1 r] eqn:HA.
      destruct (Hprofile _ _ _ _ _ eq_refl HA) as (Hrq & Hmap & Hcfg1 & Hca & Hr).
      destruct r as [p|e].
      - destruct (service_url p) as [u|] eqn:Hs.
        + cbv zeta. match goal with |- context [post w ?n cl1 u ?b] => destruct (post w n cl1 u b) as [[cl2 rq2] rs2] eqn:HP2 end.
          destruct (post_spec _ _ _ _ _ _ _ _ HP2) as (Erq2 & Ers2 & Ecfg2 & Ejar2).
          cbn -[xchg_profile].
          split.
          { constructor; [apply Hrq|]. constructor; [|constructor]. cbn [fst]. rewrite Erq2, Hcfg1.
            apply rq_ok_normal' with (p := p); auto.
            destruct (Hr p eq_refl) as [Hi|Hc]; [left; apply in_or_app; left; exact Hi | right; exact Hc]. }
          split.
          { rewrite (map_set_nth cl_cfg _ _ cl2 cl1); [exact Hmap | apply (nth_error_set_nth_eq _ _ _ _ Hn) | exact Ecfg2]. }
          destruct Hca as [->|(q & Hq & ->)]; [left; reflexivity | right; exists q; split; [apply in_or_app; left; exact Hq | reflexivity]].
        + cbn -[xchg_profile]. rewrite app_nil_r.
          split; [constructor; [apply Hrq | constructor]|]. split; [exact Hmap|].
          destruct Hca as [->|(q & Hq & ->)]; [left; reflexivity | right; exists q; split; [exact Hq | reflexivity]].
      - cbn -[xchg_profile]. rewrite app_nil_r.
        split; [constructor; [apply Hrq | constructor]|]. split; [exact Hmap|].
        destruct Hca as [->|(q & Hq & ->)]; [left; reflexivity | right; exists q; split; [exact Hq | reflexivity]]. }
    destruct (o_kind o) eqn:Hk.
    + destruct (post w (s_nreq st) cl (c_url c) _) as [[cl1 rq] rs] eqn:HP.
      destruct (accept_profile _ _ _) as [ca1 r] eqn:HA.
      destruct (Hprofile _ _ _ _ _ eq_refl HA) as (Hrq & Hmap & Hcfg1 & Hca & Hr).
      cbn -[xchg_profile]. rewrite app_nil_r.
      split; [constructor; [apply Hrq | constructor]|]. split; [exact Hmap|].
      destruct Hca as [->|(q & Hq & ->)]; [left; reflexivity | right; exists q; split; [exact Hq | reflexivity]].
    + apply (Hkinds KStmt eq_refl); discriminate.
    + apply (Hkinds KAcct eq_refl); discriminate.
    + apply (Hkinds KTax eq_refl); discriminate.
Qed.

Definition keys_not_shared (cfgs : list cfg) : Prop :=
  forall c c', In c cfgs -> In c' cfgs -> key_of c = key_of c' -> c_url c = c_url c'.

Definition cache_inv (cfgs : list cfg) (tr : list event) (ca : cache) : Prop :=
  forall key p org, cache_get ca key = Some (p, org) ->
    In p (profiles_sent tr org) /\ forall c, In c cfgs -> key_of c = key -> c_url c = org.

(** what C14 says about the requests of one call [ev], [upto] being the history up to and including that call *)
Definition event_ok (cfgs : list cfg) (upto : list event) (ev : event) : Prop :=
  forall c, nth_error cfgs (e_client ev) = Some c ->
  forall x, In x (e_xchg ev) ->
    (b_kind (rq_body (fst x)) = KProfile -> rq_url (fst x) = c_url c /\ has_credentials (rq_body (fst x)) = false)
    /\ (b_kind (rq_body (fst x)) <> KProfile ->
          (o_mode (e_op ev) = MSkip /\ rq_url (fst x) = c_url c)
          \/ (o_mode (e_op ev) = MNormal /\ exists p, service_url p = Some (rq_url (fst x)) /\ In p (profiles_sent upto (c_url c)))).

Lemma profiles_sent_app a b u : profiles_sent (a ++ b) u = (profiles_sent a u ++ profiles_sent b u)%list.
Proof. unfold profiles_sent. apply flat_map_app. Qed.

Lemma run_credentials w cfgs : keys_not_shared cfgs ->
  forall ops st tr0, map cl_cfg (s_clients st) = cfgs -> cache_inv cfgs tr0 (s_cache st) ->
  let '(st', tr) := run w st ops in
  map cl_cfg (s_clients st') = cfgs /\ cache_inv cfgs (tr0 ++ tr) (s_cache st')
  /\ forall pre ev post, tr = (pre ++ ev :: post)%list -> event_ok cfgs (tr0 ++ pre ++ [ev]) ev.
Proof.
  intros HK. induction ops as [|[k o] r IH]; intros st tr0 Hm Hc; cbn.
  - rewrite app_nil_r. split; [exact Hm|]. split; [exact Hc|]. intros [|? ?] ev post E; discriminate.
  - destruct (step w st k o) as [[st1 xs] res] eqn:Hs.
    set (ev := Ev k o xs res).
    assert (H1 : map cl_cfg (s_clients st1) = cfgs /\ cache_inv cfgs (tr0 ++ [ev]) (s_cache st1) /\ event_ok cfgs (tr0 ++ [ev]) ev).
    { destruct (nth_error (s_clients st) k) as [cl|] eqn:Hn.
      - pose proof (step_spec w st k o cl Hn) as S. rewrite Hs in S. cbv zeta in S. destruct S as (Hrq & Hmap & Hca).
        assert (Hcfg : nth_error cfgs k = Some (cl_cfg cl)) by (rewrite <- Hm; apply map_nth_error; exact Hn).
        assert (Hin : In (cl_cfg cl) cfgs) by (eapply nth_error_In; exact Hcfg).
        assert (Hsent : forall p, In p (flat_map (xchg_profile (c_url (cl_cfg cl))) xs) -> In p (profiles_sent (tr0 ++ [ev]) (c_url (cl_cfg cl)))).
        { intros p Hp. rewrite profiles_sent_app. apply in_or_app; right. unfold profiles_sent; cbn. rewrite app_nil_r. exact Hp. }
        split; [rewrite Hmap; exact Hm|]. split.
        + intros key p org Hg. destruct Hca as [E|(q & Hq & E)]; rewrite E in Hg.
          * destruct (Hc _ _ _ Hg) as (A & B). split; [rewrite profiles_sent_app; apply in_or_app; left; exact A | exact B].
          * rewrite cache_get_set in Hg. destruct (ckey_eqb (key_of (cl_cfg cl)) key) eqn:Ek.
            -- injection Hg as <- <-. apply ckey_eqb_eq in Ek. split; [apply Hsent; exact Hq|].
               intros c' Hc' Ekey. apply HK; auto. congruence.
            -- destruct (Hc _ _ _ Hg) as (A & B). split; [rewrite profiles_sent_app; apply in_or_app; left; exact A | exact B].
        + intros c Ec x Hx. cbn in Ec. rewrite Hcfg in Ec. injection Ec as <-.
          rewrite Forall_forall in Hrq. destruct (Hrq x Hx) as (P1 & P2). split; [exact P1|].
          intros Hnp. destruct (P2 Hnp) as (_ & _ & [Hskip | (Hnorm & p & Hsu & Hp)]); [left; exact Hskip|].
          right. split; [exact Hnorm|]. exists p. split; [exact Hsu|].
          destruct Hp as [Hp|(org & Hg)]; [apply Hsent; exact Hp|].
          destruct (Hc _ _ _ Hg) as (A & B). rewrite (B _ Hin eq_refl). rewrite profiles_sent_app; apply in_or_app; left; exact A.
      - unfold step in Hs. rewrite Hn in Hs. injection Hs as <- <- <-.
        split; [exact Hm|]. split.
        + intros key p org Hg. destruct (Hc _ _ _ Hg) as (A & B). split; [rewrite profiles_sent_app; apply in_or_app; left; exact A | exact B].
        + intros c Ec x Hx. destruct Hx. }
    destruct H1 as (Hm1 & Hc1 & Hev).
    specialize (IH st1 (tr0 ++ [ev])%list Hm1 Hc1). destruct (run w st1 r) as [st2 tr].
    destruct IH as (Hm2 & Hc2 & Hrest). rewrite <- app_assoc in Hc2. cbn in Hc2.
    split; [exact Hm2|]. split; [exact Hc2|].
    intros [|e0 pre] ev' post E; cbn in E; injection E as <- E.
    + cbn. exact Hev.
    + specialize (Hrest pre ev' post E). rewrite <- app_assoc in Hrest. cbn in Hrest. exact Hrest.
Qed.

Lemma credentials_only_to_advertised_url_l w cfgs ops :
  keys_not_shared cfgs ->
  forall pre ev post, snd (run w (init cfgs) ops) = (pre ++ ev :: post)%list -> event_ok cfgs (pre ++ [ev]) ev.
Proof.
  intros HK pre ev post E.
  pose proof (run_credentials w cfgs HK ops (init cfgs) []) as R.
  destruct (run w (init cfgs) ops) as [st tr]. cbn in E. subst tr.
  destruct R as (_ & _ & R).
  - unfold init; cbn. rewrite map_map; cbn. apply map_id.
  - intros key p org Hg. discriminate.
  - exact (R pre ev post eq_refl).
Qed.

(** ================= cookies ================= *)
Lemma jar_get_app a b h : jar_get (a ++ b) h = (jar_get a h ++ jar_get b h)%list.
Proof. induction a as [|[h0 nv] a IH]; cbn; [reflexivity|]. destruct (h0 =? h); cbn; rewrite IH; reflexivity. Qed.
Lemma jar_get_drop_sub j h n h' nv : In nv (jar_get (jar_drop j h n) h') -> In nv (jar_get j h').
Proof.
  induction j as [|[h0 [n0 v0]] j IH]; cbn; [auto|].
  destruct ((h0 =? h) && (n0 =? n)); cbn; destruct (h0 =? h'); cbn; intuition.
Qed.
Lemma jar_get_drop_keep j h n h' n' v' :
  In (n', v') (jar_get j h') -> (h' <> h \/ n' <> n) -> In (n', v') (jar_get (jar_drop j h n) h').
Proof.
  intros H Hne. induction j as [|[h0 [n0 v0]] j IH]; cbn in *; [auto|].
  destruct (h0 =? h') eqn:E1.
  - apply N.eqb_eq in E1; subst h0. destruct H as [E|H].
    + injection E as -> ->. destruct ((h' =? h) && (n' =? n)) eqn:E2.
      * apply andb_true_iff in E2. rewrite !N.eqb_eq in E2. destruct E2; destruct Hne; contradiction.
      * cbn. rewrite N.eqb_refl. left; reflexivity.
    + destruct ((h' =? h) && (n0 =? n)); cbn; [auto|]. rewrite N.eqb_refl. right; auto.
  - destruct ((h0 =? h) && (n0 =? n)); cbn; [auto|]. rewrite E1. auto.
Qed.

Lemma jar_set1_sound j h nv h' x : In x (jar_get (jar_set1 j h nv) h') -> (h = h' /\ x = nv) \/ In x (jar_get j h').
Proof.
  unfold jar_set1. rewrite jar_get_app. intros H. apply in_app_or in H. destruct H as [H|H].
  - right. eapply jar_get_drop_sub; exact H.
  - cbn in H. destruct (h =? h') eqn:E; cbn in H; [|contradiction]. apply N.eqb_eq in E. destruct H as [<-|[]]. left; auto.
Qed.
Lemma jar_update_sound cs : forall j h h' x,
  In x (jar_get (jar_update j h cs) h') -> (h = h' /\ In x cs) \/ In x (jar_get j h').
Proof.
  unfold jar_update. induction cs as [|nv cs IH]; intros j h h' x H; cbn in *; [auto|].
  destruct (IH _ _ _ _ H) as [[E I]|I]; [left; auto|].
  destruct (jar_set1_sound _ _ _ _ _ I) as [[E ->]|I']; [left; auto | right; exact I'].
Qed.

Lemma jar_set1_keep j h nv h' n' v' :
  In (n', v') (jar_get j h') -> (h' <> h \/ n' <> fst nv) -> In (n', v') (jar_get (jar_set1 j h nv) h').
Proof. intros H Hne. unfold jar_set1. rewrite jar_get_app. apply in_or_app; left. apply jar_get_drop_keep; auto. Qed.
Lemma jar_update_keep cs : forall j h h' n' v',
  In (n', v') (jar_get j h') -> (h' <> h \/ ~ In n' (map fst cs)) -> In (n', v') (jar_get (jar_update j h cs) h').
Proof.
  unfold jar_update. induction cs as [|nv cs IH]; intros j h h' n' v' H Hne; cbn in *; [auto|].
  apply IH.
  - apply jar_set1_keep; [exact H|]. destruct Hne as [A|B]; [left; exact A | right; intros E; apply B; left; auto].
  - destruct Hne as [A|B]; [left; exact A | right; intros E; apply B; right; exact E].
Qed.
Lemma jar_set1_has j h nv : In nv (jar_get (jar_set1 j h nv) h).
Proof. unfold jar_set1. rewrite jar_get_app. apply in_or_app; right. cbn. rewrite N.eqb_refl. left; reflexivity. Qed.
Lemma jar_update_has cs : forall j h n v,
  NoDup (map fst cs) -> In (n, v) cs -> In (n, v) (jar_get (jar_update j h cs) h).
Proof.
  induction cs as [|nv cs IH]; intros j h n v ND H; [destruct H|].
  cbn in ND. inversion ND as [|? ? Hnotin ND']; subst.
  change (jar_update j h (nv :: cs)) with (jar_update (jar_set1 j h nv) h cs).
  destruct H as [->|H].
  - apply jar_update_keep; [apply jar_set1_has | right; exact Hnotin].
  - apply IH; assumption.
Qed.

(** jar_spec over an extended history *)
Definition jar_step (k : nat) (j : jar) (kx : nat * xchg) : jar :=
  if Nat.eqb (fst kx) k && rs_transport (snd (snd kx))
  then jar_update j (u_host (rq_url (fst (snd kx)))) (rs_cookies (snd (snd kx))) else j.
Lemma jar_spec_snoc xs kx k : jar_spec (xs ++ [kx]) k = jar_step k (jar_spec xs k) kx.
Proof. unfold jar_spec. rewrite fold_left_app. reflexivity. Qed.

(** the exchanges of one call, threaded through the calling client's jar *)
Fixpoint chain (persist : bool) (j : jar) (xs : list xchg) (jend : jar) : Prop :=
  match xs with
  | [] => jend = j
  | x :: r => rq_cookies (fst x) = (if persist then jar_get j (u_host (rq_url (fst x))) else [])
              /\ chain persist (if persist && rs_transport (snd x) then jar_update j (u_host (rq_url (fst x))) (rs_cookies (snd x)) else j) r jend
  end.

Lemma step_cookies w st k o cl :
  nth_error (s_clients st) k = Some cl ->
  let '(st', xs, res) := step w st k o in
  (exists cl', nth_error (s_clients st') k = Some cl' /\ cl_cfg cl' = cl_cfg cl
               /\ chain (c_persist (cl_cfg cl)) (cl_jar cl) xs (cl_jar cl'))
  /\ (forall k', k' <> k -> nth_error (s_clients st') k' = nth_error (s_clients st) k').
Proof.
  intros Hn. unfold step. rewrite Hn. set (c := cl_cfg cl).
  assert (Hdry : forall r : result outcome, (exists cl', nth_error (s_clients st) k = Some cl' /\ cl_cfg cl' = c /\ chain (c_persist c) (cl_jar cl) [] (cl_jar cl'))
                 /\ (forall k', k' <> k -> nth_error (s_clients st) k' = nth_error (s_clients st) k'))
    by (intros _; split; [exists cl; cbn; auto | auto]).
  assert (Hone : forall cl1 rq rs u b ca n, post w (s_nreq st) cl u b = (cl1, rq, rs) ->
     (exists cl', nth_error (s_clients (St (set_nth (s_clients st) k cl1) ca n)) k = Some cl' /\ cl_cfg cl' = c
                  /\ chain (c_persist c) (cl_jar cl) [(rq, rs)] (cl_jar cl'))
     /\ (forall k', k' <> k -> nth_error (s_clients (St (set_nth (s_clients st) k cl1) ca n)) k' = nth_error (s_clients st) k')).
  { intros cl1 rq rs u b ca n HP. destruct (post_spec _ _ _ _ _ _ _ _ HP) as (Erq & Ers & Ecfg & Ejar). cbn [s_clients].
    split; [|intros k' Hk'; apply nth_error_set_nth_neq; auto].
    exists cl1. split; [apply (nth_error_set_nth_eq _ _ _ _ Hn)|]. split; [exact Ecfg|].
    cbn. split; [subst rq; reflexivity|]. subst rq; cbn in *. exact Ejar. }
  destruct (o_mode o) eqn:Hm.
  - destruct (o_kind o); apply Hdry; exact (OK ODry).
  - destruct (o_kind o);
      destruct (post w (s_nreq st) cl (c_url c) _) as [[cl1 rq] rs] eqn:HP;
      try (destruct (accept_profile _ _ _) as [ca1 r]); eapply Hone; exact HP.
  - assert (Htwo : forall kd,
      let '(st', xs, res) :=
        (let '(cl1, rq, rs) := post w (s_nreq st) cl (c_url c) (profile_body (s_cache st) c) in
         let '(ca1, r) := accept_profile (s_cache st) c (delivered rs) in
         let st1 := St (set_nth (s_clients st) k cl1) ca1 (S (s_nreq st)) in
         match r with
         | Err e => (st1, [(rq, rs)], Err e)
         | OK p =>
            match service_url p with
            | None => (st1, [(rq, rs)], Err Crash)
            | Some u =>
                let '(cl2, rq2, rs2) := post w (s_nreq st1) cl1 u (Body kd (c_user c) (o_pass o) None) in
                (St (set_nth (s_clients st1) k cl2) ca1 (S (s_nreq st1)), [(rq, rs); (rq2, rs2)],
                 rmap (fun _ => OAnswer (s_nreq st1)) (delivered rs2))
            end
         end) in
      (exists cl', nth_error (s_clients st') k = Some cl' /\ cl_cfg cl' = c /\ chain (c_persist c) (cl_jar cl) xs (cl_jar cl'))
      /\ (forall k', k' <> k -> nth_error (s_clients st') k' = nth_error (s_clients st) k')).
    { intros kd.
      destruct (post w (s_nreq st) cl (c_url c) _) as [[cl1 rq] rs] eqn:HP.
      destruct (accept_profile _ _ _) as [ca1 r].
      destruct r as [p|e]; [destruct (service_url p) as [u|]|]; try (cbv zeta; eapply Hone; exact HP).
      cbv zeta. match goal with |- context [post w ?n cl1 u ?b] => destruct (post w n cl1 u b) as [[cl2 rq2] rs2] eqn:HP2 end.
      destruct (post_spec _ _ _ _ _ _ _ _ HP) as (Erq & Ers & Ecfg & Ejar).
      destruct (post_spec _ _ _ _ _ _ _ _ HP2) as (Erq2 & Ers2 & Ecfg2 & Ejar2). cbn [s_clients].
      split.
      - exists cl2. split; [apply nth_error_set_nth_eq with (y := cl1); apply (nth_error_set_nth_eq _ _ _ _ Hn)|].
        split; [rewrite Ecfg2; exact Ecfg|].
        cbn. split; [subst rq; reflexivity|]. split.
        + rewrite Erq2. cbn. rewrite Ecfg. fold c. rewrite Ejar. subst rq; reflexivity.
        + rewrite Ejar2, Ecfg, Ejar. fold c. subst rq rq2; reflexivity.
      - intros k' Hk'. rewrite !nth_error_set_nth_neq; auto. }
    destruct (o_kind o).
    + destruct (post w (s_nreq st) cl (c_url c) _) as [[cl1 rq] rs] eqn:HP.
      destruct (accept_profile _ _ _) as [ca1 r]. eapply Hone; exact HP.
    + apply (Htwo KStmt).
    + apply (Htwo KAcct).
    + apply (Htwo KTax).
Qed.

Definition tag (k : nat) (xs : list xchg) : list (nat * xchg) := map (fun x => (k, x)) xs.
Lemma flat_app a b : flat (a ++ b) = (flat a ++ flat b)%list.
Proof. unfold flat. apply flat_map_app. Qed.
Lemma flat_cons ev tr : flat (ev :: tr) = (tag (e_client ev) (e_xchg ev) ++ flat tr)%list.
Proof. reflexivity. Qed.

Lemma jar_spec_other k k' xs : k' <> k -> forall hist, jar_spec (hist ++ tag k xs) k' = jar_spec hist k'.
Proof.
  intros Hne. induction xs as [|x xs IH] using rev_ind; intros hist; cbn; [rewrite app_nil_r; reflexivity|].
  unfold tag. rewrite map_app, app_assoc. cbn. rewrite jar_spec_snoc. unfold jar_step; cbn.
  replace (Nat.eqb k k') with false by (symmetry; apply Nat.eqb_neq; auto). cbn. apply IH.
Qed.

Lemma chain_spec persist k : forall xs j jend hist,
  chain persist j xs jend -> j = (if persist then jar_spec hist k else []) ->
  jend = (if persist then jar_spec (hist ++ tag k xs) k else [])
  /\ forall pre x post, xs = (pre ++ x :: post)%list ->
       rq_cookies (fst x) = if persist then jar_get (jar_spec (hist ++ tag k pre) k) (u_host (rq_url (fst x))) else [].
Proof.
  induction xs as [|x r IH]; intros j jend hist Hc Hj; cbn in Hc.
  - cbn. rewrite app_nil_r. split; [congruence|]. intros [|? ?] ? ? E; discriminate.
  - destruct Hc as (Hck & Hc).
    assert (Hj' : (if persist && rs_transport (snd x) then jar_update j (u_host (rq_url (fst x))) (rs_cookies (snd x)) else j)
                  = if persist then jar_spec (hist ++ [(k, x)]) k else []).
    { rewrite jar_spec_snoc. unfold jar_step; cbn. rewrite Nat.eqb_refl. destruct persist; cbn; [|exact Hj]. rewrite Hj; reflexivity. }
    destruct (IH _ _ _ Hc Hj') as (He & Hrest).
    split.
    + rewrite He. cbn. rewrite <- app_assoc. reflexivity.
    + intros [|p0 pre] y post E; cbn in E; injection E as <- E.
      * cbn. rewrite app_nil_r. rewrite Hck, Hj. destruct persist; reflexivity.
      * rewrite (Hrest _ _ _ E). cbn. rewrite <- app_assoc. reflexivity.
Qed.

Definition jars_inv (st : state) (hist : list (nat * xchg)) : Prop :=
  forall k cl, nth_error (s_clients st) k = Some cl ->
    cl_jar cl = if c_persist (cl_cfg cl) then jar_spec hist k else [].

(** what a request carries: exactly what the answers given earlier to the SAME client left for that host *)
Definition cookies_ok (cfgs : list cfg) (hist : list (nat * xchg)) (ev : event) : Prop :=
  forall c, nth_error cfgs (e_client ev) = Some c ->
  forall xs1 x xs2, e_xchg ev = (xs1 ++ x :: xs2)%list ->
    rq_cookies (fst x) = if c_persist c then jar_get (jar_spec (hist ++ tag (e_client ev) xs1) (e_client ev)) (u_host (rq_url (fst x))) else [].

Lemma run_cookies w cfgs : forall ops st hist,
  map cl_cfg (s_clients st) = cfgs -> jars_inv st hist ->
  let '(st', tr) := run w st ops in
  map cl_cfg (s_clients st') = cfgs /\ jars_inv st' (hist ++ flat tr)
  /\ forall pre ev post, tr = (pre ++ ev :: post)%list -> cookies_ok cfgs (hist ++ flat pre) ev.
Proof.
  induction ops as [|[k o] r IH]; intros st hist Hm Hj; cbn.
  - rewrite app_nil_r. split; [exact Hm|]. split; [exact Hj|]. intros [|? ?] ? ? E; discriminate.
  - destruct (step w st k o) as [[st1 xs] res] eqn:Hs.
    set (ev := Ev k o xs res).
    assert (H1 : map cl_cfg (s_clients st1) = cfgs /\ jars_inv st1 (hist ++ tag k xs) /\ cookies_ok cfgs hist ev).
    { destruct (nth_error (s_clients st) k) as [cl|] eqn:Hn.
      - pose proof (step_spec w st k o cl Hn) as S. rewrite Hs in S. cbv zeta in S. destruct S as (_ & Hmap & _).
        pose proof (step_cookies w st k o cl Hn) as S. rewrite Hs in S. destruct S as ((cl' & Hn' & Hcfg' & Hch) & Hoth).
        assert (Hcfg : nth_error cfgs k = Some (cl_cfg cl)) by (rewrite <- Hm; apply map_nth_error; exact Hn).
        destruct (chain_spec _ k _ _ _ hist Hch (Hj _ _ Hn)) as (Hend & Hrq).
        split; [rewrite Hmap; exact Hm|]. split.
        + intros k' cl0 Hk'. destruct (Nat.eq_dec k' k) as [->|Hne].
          * rewrite Hn' in Hk'. injection Hk' as <-. rewrite Hcfg'. exact Hend.
          * rewrite (Hoth _ Hne) in Hk'. rewrite (Hj _ _ Hk'). rewrite jar_spec_other; auto.
        + intros c Ec xs1 x xs2 E. cbn in Ec, E. rewrite Hcfg in Ec. injection Ec as <-. cbn. exact (Hrq _ _ _ E).
      - unfold step in Hs. rewrite Hn in Hs. injection Hs as <- <- <-. cbn. rewrite app_nil_r.
        split; [exact Hm|]. split; [exact Hj|]. intros c Ec [|? ?] ? ? E; discriminate. }
    destruct H1 as (Hm1 & Hj1 & Hev).
    specialize (IH st1 (hist ++ tag k xs)%list Hm1 Hj1). destruct (run w st1 r) as [st2 tr].
    destruct IH as (Hm2 & Hj2 & Hrest).
    split; [exact Hm2|]. split.
    + rewrite flat_cons. cbn [e_client e_xchg ev]. rewrite app_assoc. exact Hj2.
    + intros [|e0 pre] ev' post E; cbn in E; injection E as <- E.
      * cbn. rewrite app_nil_r. exact Hev.
      * specialize (Hrest pre ev' post E). rewrite flat_cons. cbn [e_client e_xchg ev]. rewrite app_assoc. exact Hrest.
Qed.

Lemma cookies_replayed_same_client_l w cfgs ops :
  forall pre ev post, snd (run w (init cfgs) ops) = (pre ++ ev :: post)%list -> cookies_ok cfgs (flat pre) ev.
Proof.
  intros pre ev post E.
  pose proof (run_cookies w cfgs ops (init cfgs) []) as R.
  destruct (run w (init cfgs) ops) as [st tr]. cbn in E. subst tr.
  destruct R as (_ & _ & R).
  - unfold init; cbn. rewrite map_map; cbn. apply map_id.
  - intros k cl Hk. unfold init in Hk; cbn in Hk. rewrite nth_error_map in Hk.
    destruct (nth_error cfgs k); [|discriminate]. injection Hk as <-. cbn. destruct (c_persist c); reflexivity.
  - exact (R pre ev post eq_refl).
Qed.

(** soundness of the jar: whatever it holds for a host was set by an answer to THAT client from that host *)
Lemma jar_spec_sound k h nv : forall hist,
  In nv (jar_get (jar_spec hist k) h) ->
  exists x, In (k, x) hist /\ u_host (rq_url (fst x)) = h /\ rs_transport (snd x) = true /\ In nv (rs_cookies (snd x)).
Proof.
  induction hist as [|[k0 x0] hist IH] using rev_ind; intros H; [destruct H|].
  rewrite jar_spec_snoc in H. unfold jar_step in H; cbn in H.
  destruct (Nat.eqb k0 k && rs_transport (snd x0)) eqn:E.
  - apply andb_true_iff in E. destruct E as (Ek & Et). apply Nat.eqb_eq in Ek; subst k0.
    destruct (jar_update_sound _ _ _ _ _ H) as [(Eh & Hin)|Hold].
    + exists x0. split; [apply in_or_app; right; left; reflexivity|]. auto.
    + destruct (IH Hold) as (x & Hx & R). exists x. split; [apply in_or_app; left; exact Hx | exact R].
  - destruct (IH H) as (x & Hx & R). exists x. split; [apply in_or_app; left; exact Hx | exact R].
Qed.

(** completeness: a cookie set for client [k] by an answer from host [h] stays in what is replayed to [h] until a later answer
    from [h] to the same client sets that name again *)
Lemma jar_spec_survives k h n v a x0 : forall b,
  u_host (rq_url (fst x0)) = h -> rs_transport (snd x0) = true -> NoDup (map fst (rs_cookies (snd x0))) -> In (n, v) (rs_cookies (snd x0)) ->
  (forall y, In (k, y) b -> u_host (rq_url (fst y)) = h -> rs_transport (snd y) = true -> ~ In n (map fst (rs_cookies (snd y)))) ->
  In (n, v) (jar_get (jar_spec (a ++ (k, x0) :: b) k) h).
Proof.
  intros b Hh Ht Hnd Hin. induction b as [|[k1 y] b IH] using rev_ind; intros Hlater.
  - change (a ++ [(k, x0)])%list with (a ++ [(k, x0)])%list. rewrite jar_spec_snoc. unfold jar_step; cbn.
    rewrite Nat.eqb_refl, Ht. cbn. rewrite Hh. apply jar_update_has; assumption.
  - replace (a ++ (k, x0) :: b ++ [(k1, y)])%list with ((a ++ (k, x0) :: b) ++ [(k1, y)])%list by (rewrite <- app_assoc; reflexivity).
    rewrite jar_spec_snoc. unfold jar_step; cbn.
    assert (Hprev : In (n, v) (jar_get (jar_spec (a ++ (k, x0) :: b) k) h))
      by (apply IH; intros y' Hy'; apply Hlater; apply in_or_app; left; exact Hy').
    destruct (Nat.eqb k1 k && rs_transport (snd y)) eqn:E; [|exact Hprev].
    apply andb_true_iff in E. destruct E as (Ek & Ety). apply Nat.eqb_eq in Ek; subst k1.
    apply jar_update_keep; [exact Hprev|].
    destruct (N.eq_dec (u_host (rq_url (fst y))) h) as [Eh|Nh]; [|left; auto].
    right. apply Hlater; auto. apply in_or_app; right; left; reflexivity.
Qed.

(** ================= finding 18: without [keys_not_shared] the statement fails ================= *)
Definition cfgA18 : cfg := Cfg (Url 0 0) 1 None None true 0.
Definition cfgB18 : cfg := Cfg (Url 1 0) 2 None None true 0.
Definition pA18 : profile := Profile 1 10 [MsgSet SBank (Url 2 0) false].
(** server A answers the profile request with its profile; server B says "up to date"; the statement server answers *)
Definition w18 : world := fun n _ =>
  match n with
  | O => Rs true true [] (RProfile pA18)
  | S O => Rs true true [] RUpToDate
  | _ => Rs true true [] ROpaque
  end.
Definition ops18 : list (nat * op) := [(0%nat, Op KProfile MNormal 0); (1%nat, Op KStmt MNormal 7)].

Lemma credentials_to_foreign_url_refuted_l :
  exists pre ev post x c,
    snd (run w18 (init [cfgA18; cfgB18]) ops18) = (pre ++ ev :: post)%list
    /\ key_of cfgA18 = key_of cfgB18 /\ c_url cfgA18 <> c_url cfgB18
    /\ nth_error [cfgA18; cfgB18] (e_client ev) = Some c /\ In x (e_xchg ev)
    /\ has_credentials (rq_body (fst x)) = true /\ o_mode (e_op ev) = MNormal
    /\ rq_url (fst x) = Url 2 0 /\ c_url c = Url 1 0
    /\ profiles_sent (pre ++ [ev]) (c_url c) = []
    /\ ~ event_ok [cfgA18; cfgB18] (pre ++ [ev]) ev.
Proof.
  eexists [_], _, [], _, cfgB18. split; [vm_compute; reflexivity|].
  split; [reflexivity|]. split; [discriminate|]. split; [reflexivity|].
  split; [right; left; reflexivity|]. split; [reflexivity|]. split; [reflexivity|].
  split; [reflexivity|]. split; [reflexivity|]. split; [vm_compute; reflexivity|].
  intros H. specialize (H cfgB18 eq_refl _ (or_intror (or_introl eq_refl))). destruct H as (_ & H).
  destruct H as [(Hm & _)|(_ & p & _ & Hp)]; [discriminate | discriminate | vm_compute in Hp; exact Hp].
Qed.

(** ================= the cookie theorems in the form the property states them ================= *)
Lemma cookies_never_cross_clients_l w cfgs ops pre ev post :
  snd (run w (init cfgs) ops) = (pre ++ ev :: post)%list ->
  forall c, nth_error cfgs (e_client ev) = Some c ->
  forall xs1 x xs2, e_xchg ev = (xs1 ++ x :: xs2)%list ->
  forall nv, In nv (rq_cookies (fst x)) ->
  exists x0, In (e_client ev, x0) (flat pre ++ tag (e_client ev) xs1)
    /\ u_host (rq_url (fst x0)) = u_host (rq_url (fst x)) /\ rs_transport (snd x0) = true /\ In nv (rs_cookies (snd x0)).
Proof.
  intros E c Hc xs1 x xs2 Ex nv Hin.
  pose proof (cookies_replayed_same_client_l w cfgs ops pre ev post E c Hc xs1 x xs2 Ex) as H.
  rewrite H in Hin. destruct (c_persist c); [|destruct Hin].
  exact (jar_spec_sound _ _ _ _ Hin).
Qed.

Lemma cookies_replayed_l w cfgs ops pre ev post :
  snd (run w (init cfgs) ops) = (pre ++ ev :: post)%list ->
  forall c, nth_error cfgs (e_client ev) = Some c -> c_persist c = true ->
  forall xs1 x xs2, e_xchg ev = (xs1 ++ x :: xs2)%list ->
  let k := e_client ev in
  let hist := (flat pre ++ tag k xs1)%list in
  rq_cookies (fst x) = jar_get (jar_spec hist k) (u_host (rq_url (fst x)))
  /\ forall a x0 b n v, hist = (a ++ (k, x0) :: b)%list ->
       u_host (rq_url (fst x0)) = u_host (rq_url (fst x)) -> rs_transport (snd x0) = true ->
       NoDup (map fst (rs_cookies (snd x0))) -> In (n, v) (rs_cookies (snd x0)) ->
       (forall y, In (k, y) b -> u_host (rq_url (fst y)) = u_host (rq_url (fst x)) -> rs_transport (snd y) = true ->
                  ~ In n (map fst (rs_cookies (snd y)))) ->
       In (n, v) (rq_cookies (fst x)).
Proof.
  intros E c Hc Hp xs1 x xs2 Ex k hist.
  pose proof (cookies_replayed_same_client_l w cfgs ops pre ev post E c Hc xs1 x xs2 Ex) as H. rewrite Hp in H.
  split; [exact H|].
  intros a x0 b n v Eh Hh Ht Hnd Hin Hlater. rewrite H. fold k. fold hist. rewrite Eh.
  apply jar_spec_survives; assumption.
Qed.
