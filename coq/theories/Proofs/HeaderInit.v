(** The constructors on the values of a valid header, OFXHeaderV1.parse on every laid-out valid header,
    str-then-parse (C12 v1_roundtrip), make_header's routing (C12 make_header_kind), and the domain theorems. *)
From OfxV Require Import Base.Prelude Base.Digits Gen.HeaderGen Model.Header Model.HeaderLayout
  Proofs.HeaderChars Proofs.HeaderMatch Proofs.HeaderV1.
From Coq Require Import ZifyBool ZifyN ZifyNat.
Local Open Scope N_scope.

(** * validators on valid values *)
Lemma uid_ok_inv u : uid_ok u = true -> forallb uidc u = true /\ u <> [] /\ len u <= 36.
Proof.
  unfold uid_ok. rewrite !andb_true_iff. intros [[A B] D]. split; [exact A|]. split; [|lia].
  intro E. subst u. discriminate B.
Qed.
Lemma uid_no_amp u : forallb uidc u = true -> mem_N 38 u = false.
Proof.
  induction u as [|c u IH]; [reflexivity|]. cbn [forallb]. rewrite andb_true_iff. intros [A B].
  unfold mem_N in *. cbn [existsb]. rewrite (IH B). unfold uidc in A. destruct (38 =? c) eqn:E; [|reflexivity]. lia.
Qed.
Lemma string_conv_uid u : uid_ok u = true -> string_conv (Some 36) u = OK u.
Proof.
  intro H. apply uid_ok_inv in H. destruct H as [A [B D]]. unfold string_conv, unescape.
  rewrite (uid_no_amp u A). destruct (36 <? len u) eqn:E; [lia|reflexivity].
Qed.
Lemma or_text_some u d : u <> [] -> or_text (Some u) d = u.
Proof. destruct u; [contradiction|reflexivity]. Qed.
Lemma uid_word_dash u : forallb uidc u = true -> forallb is_word_dash u = true.
Proof. rewrite !forallb_forall. intros H c I. apply uidc_word_dash, H, I. Qed.

Lemma mem_text_in t l : mem_text t l = true -> In t l.
Proof.
  unfold mem_text. intro H. apply existsb_exists in H. destruct H as [x [I E]]. apply text_eqb_eq in E. subst. exact I.
Qed.

(** the generated domains contain the specification's tokens (a dropped token breaks these) *)
Lemma sec1_ok s : mem_text s spec_security = true -> oneof_text v1_security_valid s = OK s /\ s <> [] /\ forallb is_word s = true.
Proof. intro H. apply mem_text_in in H. cbn [spec_security In] in H. destruct H as [H|[H|[]]]; subst s; (split; [vm_compute; reflexivity|split; [discriminate|vm_compute; reflexivity]]). Qed.
Lemma sec2_ok s : mem_text s spec_security = true -> oneof_text v2_security_valid s = OK s /\ s <> [] /\ forallb is_word s = true.
Proof. intro H. apply mem_text_in in H. cbn [spec_security In] in H. destruct H as [H|[H|[]]]; subst s; (split; [vm_compute; reflexivity|split; [discriminate|vm_compute; reflexivity]]). Qed.
Lemma enc1_ok s : mem_text s spec_encoding = true -> oneof_text v1_encoding_valid s = OK s /\ s <> [] /\ forallb is_enc s = true.
Proof. intro H. apply mem_text_in in H. cbn [spec_encoding In] in H. destruct H as [H|[H|[H|[]]]]; subst s; (split; [vm_compute; reflexivity|split; [discriminate|vm_compute; reflexivity]]). Qed.
Lemma chs1_ok s : mem_text s spec_charset = true -> oneof_text v1_charset_valid s = OK s /\ s <> [] /\ forallb is_word_dash s = true.
Proof. intro H. apply mem_text_in in H. cbn [spec_charset In] in H. destruct H as [H|[H|[H|[]]]]; subst s; (split; [vm_compute; reflexivity|split; [discriminate|vm_compute; reflexivity]]). Qed.

Lemma dec_of_Z_nonneg z : (0 <= z)%Z -> dec_of_Z z = dec_of_N (Z.to_N z).
Proof. intro H. unfold dec_of_Z. destruct (z <? 0)%Z eqn:E; [lia|reflexivity]. Qed.
Lemma version_text z : (0 <= z < 1000)%Z ->
  int_or (Some (VStr (dec_of_Z z))) 102 = OK z /\ dec_of_Z z <> [] /\ forallb is_decimal (dec_of_Z z) = true
  /\ py_int (VStr (dec_of_Z z)) = Some z.
Proof.
  intro H. rewrite dec_of_Z_nonneg by lia.
  assert (I : int_of_text (dec_of_N (Z.to_N z)) = Some z) by (rewrite int_of_dec by lia; f_equal; lia).
  split; [|split; [apply dec_nonempty|split; [apply dec_decimal|exact I]]].
  unfold int_or, truthy, py_int. rewrite I.
  destruct (dec_of_N (Z.to_N z)) eqn:E; [exfalso; exact (dec_nonempty _ E)|]. reflexivity.
Qed.

Record valid1_facts (h : hdr1) : Prop := {
  f_oh : h1_ofxheader h = 100%Z; f_da : h1_data h = T "OFXSGML"; f_ve : (0 <= h1_version h < 1000)%Z;
  f_se : mem_text (h1_security h) spec_security = true; f_en : mem_text (h1_encoding h) spec_encoding = true;
  f_ch : mem_text (h1_charset h) spec_charset = true; f_co : h1_compression h = T "NONE";
  f_ol : uid_ok (h1_old h) = true; f_ne : uid_ok (h1_new h) = true }.
Lemma valid1_inv h : valid1 h = true -> valid1_facts h.
Proof.
  unfold valid1. rewrite !andb_true_iff. intros [[[[[[[[[A B] C] D] E] F] G] H] I] J].
  constructor; try assumption; try (apply text_eqb_eq; assumption); lia.
Qed.

(** the OFXHeaderV1 constructor on the values of a valid header, COMPRESSION matched or not *)
Lemma init_v1_valid h (comp : bool) : valid1 h = true ->
  init_v1 (VStr (dec_of_Z (h1_version h))) (Some (VStr (dec_of_Z (h1_ofxheader h)))) (Some (h1_data h))
          (Some (h1_security h)) (Some (h1_encoding h)) (Some (h1_charset h))
          (if comp then Some (h1_compression h) else None) (Some (h1_old h)) (Some (h1_new h)) = OK h.
Proof.
  intro V. destruct (valid1_inv h V) as [Foh Fda Fve Fse Fen Fch Fco Fol Fne].
  destruct h as [oh da ve se en ch co ol ne]. cbn [h1_ofxheader h1_data h1_version h1_security h1_encoding h1_charset h1_compression h1_old h1_new] in *.
  subst oh da co.
  destruct (version_text ve Fve) as [Ive _].
  destruct (sec1_ok se Fse) as [Ose [Nse _]]. destruct (enc1_ok en Fen) as [Oen [Nen _]]. destruct (chs1_ok ch Fch) as [Och [Nch _]].
  pose proof (uid_ok_inv ol Fol) as [_ [Nol _]]. pose proof (uid_ok_inv ne Fne) as [_ [Nne _]].
  unfold init_v1.
  change (int_or (Some (VStr (dec_of_Z 100))) 100) with (OK 100%Z : result Z). cbn [bind].
  change (oneof_int v1_ofxheader_valid 100) with (OK 100%Z : result Z). cbn [bind].
  change (oneof_text v1_data_valid (or_text (Some (T "OFXSGML")) (T "OFXSGML"))) with (OK (T "OFXSGML") : result text). cbn [bind].
  rewrite Ive. cbn [bind].
  assert (IC : integer_conv v1_version_len ve = OK ve).
  { unfold integer_conv, v1_version_len. change (Z.of_N (10 ^ 3)) with 1000%Z. destruct (1000 <=? Z.abs ve)%Z eqn:E; [lia|reflexivity]. }
  rewrite IC. cbn [bind].
  rewrite (or_text_some se) by exact Nse. rewrite Ose. cbn [bind].
  rewrite (or_text_some en) by exact Nen. rewrite Oen. cbn [bind].
  rewrite (or_text_some ch) by exact Nch. rewrite Och. cbn [bind].
  assert (CO : oneof_text v1_compression_valid (or_text (if comp then Some (T "NONE") else None) (T "NONE")) = OK (T "NONE"))
    by (destruct comp; vm_compute; reflexivity).
  rewrite CO. cbn [bind].
  rewrite (or_text_some ol) by exact Nol. change v1_old_len with (Some 36). rewrite (string_conv_uid ol Fol). cbn [bind].
  rewrite (or_text_some ne) by exact Nne. change v1_new_len with (Some 36). rewrite (string_conv_uid ne Fne). cbn [bind].
  reflexivity.
Qed.

(** * OFXHeaderV1.parse on a laid-out valid header *)
Record lay1_facts (l : lay1) (h : hdr1) : Prop := {
  g_lines : (List.length (l_lines l) <= 7)%nat; g_blank : forallb all_blank (l_lines l) = true; g_ind : all_blank (l_indent l) = true;
  g_w1 : all_ws (l_w1 l) = true; g_w2 : all_ws (l_w2 l) = true; g_w3 : all_ws (l_w3 l) = true; g_w4 : all_ws (l_w4 l) = true;
  g_w5 : all_ws (l_w5 l) = true; g_w6 : all_ws (l_w6 l) = true; g_w7 : all_ws (l_w7 l) = true; g_w8 : all_ws (l_w8 l) = true;
  g_w9 : all_ws (l_w9 l) = true;
  g_s1 : all_ws (l_s1 l) = true; g_s2 : all_ws (l_s2 l) = true; g_s3 : all_ws (l_s3 l) = true; g_s4 : all_ws (l_s4 l) = true;
  g_s5 : all_ws (l_s5 l) = true; g_s6 : all_ws (l_s6 l) = true; g_s7 : all_ws (l_s7 l) = true; g_s8 : all_ws (l_s8 l) = true;
  g_gap : all_ws (l_gap l) = true; g_lf : (count_lf (hdr_text l h) <= 8)%nat }.
Lemma lay1_inv l h : lay1_ok l h = true -> lay1_facts l h.
Proof.
  unfold lay1_ok. rewrite !andb_true_iff.
  intros [[[[[[[[[[[[[[[[[[[[[A0 A1] A2] A3] A4] A5] A6] A7] A8] A9] A10] A11] A12] A13] A14] A15] A16] A17] A18] A19] A20] A21].
  constructor; try assumption; apply Nat.leb_le; assumption.
Qed.

Lemma search_v1_layout l h rest : valid1 h = true -> lay1_ok l h = true -> stops is_word_dash rest ->
  search_v1 (hdr_text l h ++ rest) =
  Some (dec_of_Z (h1_ofxheader h), (h1_data h, (dec_of_Z (h1_version h), (h1_security h, (h1_encoding h, (h1_charset h,
       ((if l_comp l then Some (h1_compression h) else None), (h1_old h, (h1_new h, rest))))))))).
Proof.
  intros V L R. destruct (valid1_inv h V) as [Foh Fda Fve Fse Fen Fch Fco Fol Fne].
  destruct (lay1_inv l h L) as [_ _ Gi G1 G2 G3 G4 G5 G6 G7 G8 G9 H1 H2 H3 H4 H5 H6 H7 H8 _ _].
  destruct (version_text _ Fve) as [_ [Nve [Dve _]]].
  destruct (sec1_ok _ Fse) as [_ [Nse Dse]]. destruct (enc1_ok _ Fen) as [_ [Nen Den]]. destruct (chs1_ok _ Fch) as [_ [Nch Dch]].
  pose proof (uid_ok_inv _ Fol) as [Uol [Nol _]]. pose proof (uid_ok_inv _ Fne) as [Une [Nne _]].
  pose proof (search_v1_T1 (l_w1 l) (l_w2 l) (l_w3 l) (l_w4 l) (l_w5 l) (l_w6 l) (l_w7 l) (l_w8 l) (l_w9 l)
     (l_s1 l) (l_s2 l) (l_s3 l) (l_s4 l) (l_s5 l) (l_s6 l) (l_s7 l) (l_s8 l)
     (dec_of_Z (h1_ofxheader h)) (h1_data h) (dec_of_Z (h1_version h)) (h1_security h) (h1_encoding h) (h1_charset h)
     (h1_compression h) (h1_old h) (h1_new h) rest) as M.
  assert (Xoh : dec_of_Z (h1_ofxheader h) <> [] /\ forallb is_decimal (dec_of_Z (h1_ofxheader h)) = true)
    by (rewrite Foh; split; [discriminate|vm_compute; reflexivity]).
  assert (Xda : h1_data h <> [] /\ forallb is_AZ (h1_data h) = true) by (rewrite Fda; split; [discriminate|vm_compute; reflexivity]).
  assert (Xco : h1_compression h <> [] /\ forallb is_AZ (h1_compression h) = true) by (rewrite Fco; split; [discriminate|vm_compute; reflexivity]).
  specialize (M (all_ws_space _ G1) (all_ws_space _ G2) (all_ws_space _ G3) (all_ws_space _ G4) (all_ws_space _ G5)
                (all_ws_space _ G6) (all_ws_space _ G7) (all_ws_space _ G8) (all_ws_space _ G9)
                (all_ws_space _ H1) (all_ws_space _ H2) (all_ws_space _ H3) (all_ws_space _ H4) (all_ws_space _ H5)
                (all_ws_space _ H6) (all_ws_space _ H7) (all_ws_space _ H8)
                Xoh Xda (conj Nve Dve) (conj Nse Dse) (conj Nen Den) (conj Nch Dch) Xco
                (conj Nol (uid_word_dash _ Uol)) (conj Nne (uid_word_dash _ Une)) R).
  specialize (M (l_comp l) (l_indent l) (all_ws_space _ (all_blank_ws _ Gi))).
  rewrite <- M. f_equal. unfold hdr_text, hdr_fields, v1_ctail_text, v1_tail_text.
  destruct (l_comp l); repeat (rewrite fld_app || rewrite <- app_assoc || rewrite <- app_comm_cons); reflexivity.
Qed.

Theorem parse_v1_layout l h rest : valid1 h = true -> lay1_ok l h = true -> stops is_word_dash rest ->
  parse_v1 (hdr_text l h ++ rest) = OK (h, len (hdr_text l h)).
Proof.
  intros V L R. unfold parse_v1. rewrite (search_v1_layout l h rest V L R).
  rewrite (init_v1_valid h (l_comp l) V). cbn [bind]. rewrite len_app. f_equal. f_equal. lia.
Qed.

(** * C12: str(header) parses back (the match ends right after the NEWFILEUID value: 4 = two CRLF) *)
Lemma str_v1_layout h : str_v1 h = hdr_text lay1_str h ++ CRLF ++ CRLF.
Proof.
  unfold str_v1, hdr_text, hdr_fields, v1_ctail_text, v1_tail_text, lay1_str, fld.
  cbn [l_indent l_w1 l_w2 l_w3 l_w4 l_w5 l_w6 l_w7 l_w8 l_w9 l_s1 l_s2 l_s3 l_s4 l_s5 l_s6 l_s7 l_s8 l_comp].
  cbn [app]. repeat rewrite <- app_assoc. cbn [app]. reflexivity.
Qed.

(** no line feed inside the values of a valid header *)
Lemma count_lf_app a b : count_lf (a ++ b) = (count_lf a + count_lf b)%nat.
Proof. unfold count_lf. rewrite filter_app, app_length. reflexivity. Qed.
Lemma count_lf_cons c a : count_lf (c :: a) = ((if (c =? 10)%N then 1 else 0) + count_lf a)%nat.
Proof. unfold count_lf. cbn [filter]. rewrite N.eqb_sym. destruct (c =? 10); reflexivity. Qed.
Lemma count_lf_none v : (forall c, In c v -> c <> 10) -> count_lf v = 0%nat.
Proof.
  induction v as [|c v IH]; intro H; [reflexivity|]. rewrite count_lf_cons, IH by (intros; apply H; right; assumption).
  destruct (c =? 10) eqn:E; [|reflexivity]. apply N.eqb_eq in E. exfalso. apply (H c); [left; reflexivity|exact E].
Qed.
Lemma count_lf_uid u : forallb uidc u = true -> count_lf u = 0%nat.
Proof. intro H. apply count_lf_none. rewrite forallb_forall in H. intros c I. apply H in I. unfold uidc in I. lia. Qed.
Lemma count_lf_dec z : (0 <= z)%Z -> count_lf (dec_of_Z z) = 0%nat.
Proof.
  intro H. rewrite dec_of_Z_nonneg by exact H. apply count_lf_none. pose proof (dec_of_N_all_digits (Z.to_N z)) as D.
  rewrite forallb_forall in D. intros c I. apply D in I. unfold is_digit in I. lia.
Qed.
Lemma count_lf_token s l : mem_text s l = true -> forallb (fun t => Nat.eqb (count_lf t) 0) l = true -> count_lf s = 0%nat.
Proof. intros M F. apply mem_text_in in M. rewrite forallb_forall in F. apply F in M. apply Nat.eqb_eq in M. exact M. Qed.

Lemma lay1_str_ok h : valid1 h = true -> lay1_ok lay1_str h = true.
Proof.
  intro V. destruct (valid1_inv h V) as [Foh Fda Fve Fse Fen Fch Fco Fol Fne].
  assert (C : count_lf (hdr_text lay1_str h) = 8%nat).
  { unfold hdr_text, hdr_fields, v1_ctail_text, v1_tail_text, lay1_str, fld.
    cbn [l_indent l_w1 l_w2 l_w3 l_w4 l_w5 l_w6 l_w7 l_w8 l_w9 l_s1 l_s2 l_s3 l_s4 l_s5 l_s6 l_s7 l_s8 l_comp].
    repeat (rewrite count_lf_app || rewrite count_lf_cons).
    rewrite Foh, Fda, Fco. rewrite (count_lf_dec (h1_version h)) by lia.
    rewrite (count_lf_token _ _ Fse) by reflexivity. rewrite (count_lf_token _ _ Fen) by reflexivity.
    rewrite (count_lf_token _ _ Fch) by reflexivity.
    rewrite (count_lf_uid (h1_old h)) by (apply uid_ok_inv; exact Fol).
    rewrite (count_lf_uid (h1_new h)) by (apply uid_ok_inv; exact Fne).
    vm_compute. reflexivity. }
  unfold lay1_ok. rewrite C. vm_compute. reflexivity.
Qed.

Theorem v1_roundtrip_l h : valid1 h = true -> parse_v1 (str_v1 h) = OK (h, len (str_v1 h) - 4).
Proof.
  intro V. rewrite str_v1_layout. rewrite (parse_v1_layout lay1_str h (CRLF ++ CRLF) V (lay1_str_ok h V)).
  - rewrite len_app. f_equal. f_equal. change (len (CRLF ++ CRLF)) with 4. lia.
  - vm_compute. reflexivity.
Qed.
