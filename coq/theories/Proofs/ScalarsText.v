(** Text-level lemmas of the Scalars engine: str.replace with a one-character pattern is a character-wise
    substitution; ET._escape_cdata / saxutils.escape as character-wise maps; escaped data is wire-clean;
    saxutils.unescape (with any well-formed entity table) inverts escaping for EVERY text. *)
From OfxV Require Import Base.Prelude Base.Digits Gen.ScalarsGen Model.PyDecimal Model.Scalars Model.ScalarsLex.
From Coq Require Import Lia ZifyBool ZifyN ZifyNat.
Local Open Scope N_scope.

(** ---- generic list facts ---- *)
Lemma flat_map_flat_map {A B C} (f : A -> list B) (g : B -> list C) (s : list A) :
  flat_map g (flat_map f s) = flat_map (fun x => flat_map g (f x)) s.
Proof. induction s as [|x s IH]; [reflexivity|]. cbn [flat_map]. rewrite flat_map_app, IH. reflexivity. Qed.

Lemma flat_map_single {A} (s : list A) : flat_map (fun x => [x]) s = s.
Proof. induction s as [|x s IH]; [reflexivity|]. cbn [flat_map app]. rewrite IH. reflexivity. Qed.

(** ---- one-character patterns ---- *)
Definition sub1 (c : N) (rep : text) (x : N) : text := if x =? c then rep else [x].

Lemma replace_go_single c rep s : replace_go [c] rep 0 s = flat_map (sub1 c rep) s.
Proof.
  induction s as [|x s IH]; [reflexivity|].
  cbn [replace_go prefixb flat_map List.length Nat.sub]. unfold sub1 at 1.
  rewrite andb_true_r, (N.eqb_sym c x). destruct (x =? c); rewrite IH; reflexivity.
Qed.
Lemma replace_all_single c rep s : replace_all [c] rep s = flat_map (sub1 c rep) s.
Proof. exact (replace_go_single c rep s). Qed.

(** the character-wise escaping both serializers perform *)
Definition esc1 (x : N) : text :=
  if x =? 38 then [38;97;109;112;59] else if x =? 60 then [38;108;116;59] else if x =? 62 then [38;103;116;59] else [x].

Lemma escape_cdata_flat s : escape_cdata s = flat_map esc1 s.
Proof.
  unfold escape_cdata, replace_seq. cbn [fold_left fst snd].
  change (T "&") with [38]. change (T "<") with [60]. change (T ">") with [62].
  rewrite !replace_all_single, !flat_map_flat_map. apply flat_map_ext. intro x.
  unfold sub1 at 3. destruct (x =? 38) eqn:E1.
  - apply N.eqb_eq in E1. subst x. reflexivity.
  - cbn [flat_map]. rewrite app_nil_r. unfold sub1 at 2. destruct (x =? 60) eqn:E2.
    + apply N.eqb_eq in E2. subst x. reflexivity.
    + cbn [flat_map]. rewrite app_nil_r. unfold sub1, esc1. rewrite E1, E2. destruct (x =? 62) eqn:E3; [|reflexivity].
      apply N.eqb_eq in E3. subst x. reflexivity.
Qed.
Lemma sax_escape_flat s : sax_escape s = flat_map esc1 s.
Proof.
  unfold sax_escape, replace_seq. cbn [fold_left fst snd].
  change (T "&") with [38]. change (T "<") with [60]. change (T ">") with [62].
  rewrite !replace_all_single, !flat_map_flat_map. apply flat_map_ext. intro x.
  unfold sub1 at 3. destruct (x =? 38) eqn:E1.
  - apply N.eqb_eq in E1. subst x. reflexivity.
  - cbn [flat_map]. rewrite app_nil_r. unfold sub1 at 2. destruct (x =? 62) eqn:E2.
    + apply N.eqb_eq in E2. subst x. reflexivity.
    + cbn [flat_map]. rewrite app_nil_r. unfold sub1, esc1. rewrite E1, E2. destruct (x =? 60) eqn:E3; [|reflexivity].
      apply N.eqb_eq in E3. subst x. reflexivity.
Qed.
(** both serializers write the same datum *)
Lemma wire_datum_flat f s : wire_datum f s = flat_map esc1 s.
Proof. destruct f; [apply escape_cdata_flat | apply sax_escape_flat]. Qed.

(** ---- escaped data is clean on the wire ---- *)
Lemma wire_plain c r : (c =? 60) = false -> (c =? 38) = false -> wire_data_ok (c :: r) = wire_data_ok r.
Proof. intros H1 H2. cbn [wire_data_ok]. rewrite H1, H2. reflexivity. Qed.

Lemma wire_unit_amp r : wire_data_ok (38 :: 97 :: 109 :: 112 :: 59 :: r) = wire_data_ok r.
Proof. reflexivity. Qed.
Lemma wire_unit_lt r : wire_data_ok (38 :: 108 :: 116 :: 59 :: r) = wire_data_ok r.
Proof. reflexivity. Qed.
Lemma wire_unit_gt r : wire_data_ok (38 :: 103 :: 116 :: 59 :: r) = wire_data_ok r.
Proof. reflexivity. Qed.

Lemma wire_data_ok_flat s : wire_data_ok (flat_map esc1 s) = true.
Proof.
  induction s as [|x s IH]; [reflexivity|]. cbn [flat_map]. unfold esc1.
  destruct (x =? 38) eqn:E1; [|destruct (x =? 60) eqn:E2; [|destruct (x =? 62) eqn:E3]].
  - cbn [app]. rewrite wire_unit_amp. exact IH.
  - cbn [app]. rewrite wire_unit_lt. exact IH.
  - cbn [app]. rewrite wire_unit_gt. exact IH.
  - cbn [app]. rewrite wire_plain by assumption. exact IH.
Qed.

Lemma wire_datum_ok f s : wire_data_ok (wire_datum f s) = true.
Proof. rewrite wire_datum_flat. apply wire_data_ok_flat. Qed.

(** ---- un-escaping: patterns of the form '&' p, texts made of units ---- *)
Definition no_amp (b : text) : bool := forallb (fun c => negb (c =? 38)) b.
(** two texts differ at a position both have (neither is a prefix of the other) *)
Fixpoint mismatch (b p : text) : bool :=
  match b, p with
  | x :: b', y :: p' => negb (x =? y) || mismatch b' p'
  | _, _ => false
  end.
(** a unit, seen from the pattern '&' p: one character other than '&', or '&' b with b free of '&' and either b = p or b, p clash *)
Definition unit_for (p u : text) : bool :=
  match u with
  | [] => false
  | c :: b => if c =? 38 then no_amp b && (text_eqb b p || mismatch b p)
              else match b with [] => true | _ => false end
  end.

Lemma prefixb_app_self p r : prefixb p (p ++ r) = true.
Proof. induction p as [|a p IH]; [reflexivity|]. cbn [prefixb app]. rewrite N.eqb_refl, IH. reflexivity. Qed.
Lemma mismatch_prefixb b p r : mismatch b p = true -> prefixb p (b ++ r) = false.
Proof.
  revert p. induction b as [|x b IH]; intros [|y p] H; cbn [mismatch] in H; try discriminate.
  cbn [prefixb app]. apply orb_true_iff in H. destruct H as [H|H].
  - rewrite (N.eqb_sym y x). apply negb_true_iff in H. rewrite H. reflexivity.
  - rewrite (IH _ H). apply andb_false_r.
Qed.
Lemma mismatch_neq b p : mismatch b p = true -> text_eqb b p = false.
Proof.
  revert p. induction b as [|x b IH]; intros [|y p] H; cbn [mismatch] in H; try discriminate.
  unfold text_eqb. cbn [list_eqb]. apply orb_true_iff in H. destruct H as [H|H].
  - apply negb_true_iff in H. rewrite H. reflexivity.
  - apply IH in H. unfold text_eqb in H. rewrite H. apply andb_false_r.
Qed.

Section OnePass.
  Variable p rep : text.
  Let pat := 38 :: p.

  Lemma replace_go_skip b r : replace_go pat rep (List.length b) (b ++ r) = replace_go pat rep 0 r.
  Proof.
    induction b as [|x b IH]; [reflexivity|]. cbn [List.length app replace_go]. exact IH.
  Qed.
  Lemma replace_go_plain b r : no_amp b = true -> replace_go pat rep 0 (b ++ r) = b ++ replace_go pat rep 0 r.
  Proof.
    induction b as [|x b IH]; intro H; [reflexivity|]. cbn [no_amp forallb] in H. apply andb_true_iff in H. destruct H as [Hx Hb].
    cbn [app replace_go]. unfold pat at 1. cbn [prefixb]. apply negb_true_iff in Hx. rewrite (N.eqb_sym 38 x), Hx. cbn [andb].
    rewrite (IH Hb). reflexivity.
  Qed.

  Lemma replace_units (f : N -> text) (s : text) :
    (forall x, unit_for p (f x) = true) ->
    replace_go pat rep 0 (flat_map f s) = flat_map (fun x => if text_eqb (f x) pat then rep else f x) s.
  Proof.
    intro Hu. induction s as [|x s IH]; [reflexivity|]. cbn [flat_map]. specialize (Hu x).
    destruct (f x) as [|c b] eqn:Efx; [discriminate Hu|]. cbn [unit_for] in Hu.
    destruct (c =? 38) eqn:Ec.
    - apply N.eqb_eq in Ec. subst c. apply andb_true_iff in Hu. destruct Hu as [Hb Hm].
      destruct (text_eqb b p) eqn:Ebp.
      + apply text_eqb_eq in Ebp. subst b.
        assert (Et : text_eqb (38 :: p) pat = true) by (apply text_eqb_eq; reflexivity). rewrite Et.
        cbn [app replace_go]. fold pat. change (38 :: p ++ flat_map f s) with (pat ++ flat_map f s).
        rewrite prefixb_app_self. unfold pat at 2. cbn [List.length Nat.sub]. rewrite Nat.sub_0_r.
        rewrite replace_go_skip, IH. reflexivity.
      + cbn [orb] in Hm.
        assert (Et : text_eqb (38 :: b) pat = false).
        { unfold pat, text_eqb. cbn [list_eqb]. rewrite N.eqb_refl. cbn [andb]. exact (mismatch_neq _ _ Hm). }
        rewrite Et. cbn [app replace_go]. unfold pat at 1. cbn [prefixb]. rewrite N.eqb_refl. cbn [andb].
        rewrite (mismatch_prefixb _ _ _ Hm). fold pat. rewrite (replace_go_plain _ _ Hb), IH. reflexivity.
    - destruct b as [|? ?]; [|discriminate Hu].
      assert (Et : text_eqb [c] pat = false).
      { unfold pat, text_eqb. cbn [list_eqb]. rewrite Ec. reflexivity. }
      rewrite Et. cbn [app replace_go]. unfold pat at 1. cbn [prefixb]. rewrite (N.eqb_sym 38 c), Ec. cbn [andb].
      fold pat. rewrite IH. reflexivity.
  Qed.
End OnePass.

(** the units after the two fixed passes (&lt; and &gt; undone): every character but '&' stands for itself *)
Definition esc_amp (x : N) : text := if x =? 38 then [38;97;109;112;59] else [x].
Definition esc_amp_lt (x : N) : text := if x =? 38 then [38;97;109;112;59] else if x =? 62 then [38;103;116;59] else [x].

(** an entity table under which un-escaping stays the inverse of escaping: every key is '&' p with p
    clashing with "amp;" (so no key is, or overlaps ambiguously with, "&amp;") *)
Definition entity_ok (kv : text * text) : bool :=
  match fst kv with
  | c :: p => (c =? 38) && mismatch [97;109;112;59] p
  | [] => false
  end.
Definition entities_ok (ents : list (text * text)) : bool := forallb entity_ok ents.

Lemma replace_all_amp_pat p rep s : replace_all (38 :: p) rep s = replace_go (38 :: p) rep 0 s.
Proof. reflexivity. Qed.

Lemma entity_pass_id kv s : entity_ok kv = true -> replace_all (fst kv) (snd kv) (flat_map esc_amp s) = flat_map esc_amp s.
Proof.
  unfold entity_ok. destruct (fst kv) as [|c p]; [discriminate|]. intro H.
  apply andb_true_iff in H. destruct H as [Hc Hm].
  apply N.eqb_eq in Hc. subst c. rewrite replace_all_amp_pat, (replace_units p (snd kv) esc_amp).
  - apply flat_map_ext. intro x. unfold esc_amp. destruct (x =? 38) eqn:E.
    + assert (Et : text_eqb [38;97;109;112;59] (38 :: p) = false).
      { unfold text_eqb. cbn [list_eqb]. change (38 =? 38) with true. cbn [andb]. exact (mismatch_neq _ _ Hm). }
      rewrite Et. reflexivity.
    + assert (Et : text_eqb [x] (38 :: p) = false).
      { unfold text_eqb. cbn [list_eqb]. rewrite E. reflexivity. }
      rewrite Et. reflexivity.
  - intro x. unfold esc_amp. destruct (x =? 38) eqn:E.
    + cbn [unit_for]. change (38 =? 38) with true. cbv iota. change (no_amp [97;109;112;59]) with true. rewrite Hm. rewrite orb_true_r. reflexivity.
    + cbn [unit_for]. rewrite E. reflexivity.
Qed.

Lemma entities_pass_id ents s : entities_ok ents = true ->
  fold_left (fun acc kv => replace_all (fst kv) (snd kv) acc) ents (flat_map esc_amp s) = flat_map esc_amp s.
Proof.
  induction ents as [|kv ents IH]; intro H; [reflexivity|]. cbn [entities_ok forallb] in H. apply andb_true_iff in H.
  destruct H as [H1 H2]. cbn [fold_left]. rewrite (entity_pass_id kv s H1). exact (IH H2).
Qed.

(** saxutils.unescape(saxutils.escape(s)) = s and the same for ET's escaping, for EVERY text s *)
Lemma unescape_flat ents s : entities_ok ents = true -> sax_unescape ents (flat_map esc1 s) = s.
Proof.
  intro He. unfold sax_unescape, replace_seq. rewrite !fold_left_app. cbn [fold_left fst snd].
  (* pass 1: &lt; *)
  change (T "&lt;") with (38 :: [108;116;59]). rewrite replace_all_amp_pat, (replace_units [108;116;59] (T "<") esc1).
  2:{ intro x. unfold esc1. destruct (x =? 38) eqn:E1; [reflexivity|]. destruct (x =? 60) eqn:E2; [reflexivity|].
      destruct (x =? 62) eqn:E3; [reflexivity|]. cbn [unit_for]. rewrite E1. reflexivity. }
  assert (P1 : forall x, (if text_eqb (esc1 x) [38;108;116;59] then T "<" else esc1 x) = esc_amp_lt x).
  { intro x. unfold esc1, esc_amp_lt. destruct (x =? 38) eqn:E1; [reflexivity|]. destruct (x =? 60) eqn:E2.
    - apply N.eqb_eq in E2. subst x. reflexivity.
    - destruct (x =? 62) eqn:E3; [reflexivity|]. unfold text_eqb. cbn [list_eqb]. rewrite E1. reflexivity. }
  rewrite (flat_map_ext _ _ P1).
  (* pass 2: &gt; *)
  change (T "&gt;") with (38 :: [103;116;59]). rewrite replace_all_amp_pat, (replace_units [103;116;59] (T ">") esc_amp_lt).
  2:{ intro x. unfold esc_amp_lt. destruct (x =? 38) eqn:E1; [reflexivity|]. destruct (x =? 62) eqn:E3; [reflexivity|].
      cbn [unit_for]. rewrite E1. reflexivity. }
  assert (P2 : forall x, (if text_eqb (esc_amp_lt x) [38;103;116;59] then T ">" else esc_amp_lt x) = esc_amp x).
  { intro x. unfold esc_amp_lt, esc_amp. destruct (x =? 38) eqn:E1; [reflexivity|]. destruct (x =? 62) eqn:E3.
    - apply N.eqb_eq in E3. subst x. reflexivity.
    - unfold text_eqb. cbn [list_eqb]. rewrite E1. reflexivity. }
  rewrite (flat_map_ext _ _ P2).
  (* the entity table changes nothing *)
  rewrite (entities_pass_id ents s He).
  (* last pass: &amp; *)
  change (T "&amp;") with (38 :: [97;109;112;59]). rewrite replace_all_amp_pat, (replace_units [97;109;112;59] (T "&") esc_amp).
  2:{ intro x. unfold esc_amp. destruct (x =? 38) eqn:E1; [reflexivity|]. cbn [unit_for]. rewrite E1. reflexivity. }
  rewrite <- (flat_map_single s) at 2. apply flat_map_ext. intro x. unfold esc_amp. destruct (x =? 38) eqn:E1.
  - apply N.eqb_eq in E1. subst x. reflexivity.
  - unfold text_eqb. cbn [list_eqb]. rewrite E1. reflexivity.
Qed.

Lemma unescape_escape_l ents s f : entities_ok ents = true -> sax_unescape ents (wire_datum f s) = s.
Proof. intro H. rewrite wire_datum_flat. exact (unescape_flat ents s H). Qed.
