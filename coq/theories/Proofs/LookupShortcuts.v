(** C16: every shortcut equals its explicit path.  Generic in the class table and the class-attribute table; the side
    conditions are the boolean predicates of Model/LookupWalk.v (stored spec attributes). *)
From OfxV Require Import Base.Prelude Model.Schema Model.Convert Model.Shortcuts Model.Lookup Model.LookupWalk Proofs.LookupCore.
Local Open Scope string_scope.

Section Sc.
  Variable sval : Type.
  Variable fx : bool.
  Variable S : schema.
  Variable tb : ltab.
  Notation inst := (inst sval).
  Notation fval := (fval sval).
  Notation member := (member sval).
  Notation lres := (lres sval).
  Notation pyobj := (pyobj sval).
  Notation lookup := (lookup sval fx S tb).
  Notation fsub_of := (fsub_of sval fx S tb).
  Notation msub_of := (msub_of sval fx S tb).
  Notation stored_b := (stored_b sval S).
  Notation class_level_b := (class_level_b S tb).

  Lemma own_lookup w a : stored_b w a = true ->
    exists c f, find_cls S (icls sval w) = Some c /\ assoc a (ifields sval w) = Some f /\
                own_get sval c (ifields sval w) a = LOK sval (obj_of_fval sval f) /\ lookup w a = LOK sval (obj_of_fval sval f).
  Proof.
    destruct w as [cn fs ms]. unfold LookupWalk.stored_b. cbn [icls ifields].
    destruct (find_cls S cn) as [c|] eqn:Hc; [|discriminate].
    destruct (assoc a (ci_spec c)) as [at_|] eqn:Hs; [|discriminate].
    destruct (assoc a fs) as [f|] eqn:Ea; [|destruct at_; discriminate].
    intro H. exists c, f. split; [reflexivity|]. split; [reflexivity|].
    assert (Ho : own_get sval c fs a = LOK sval (obj_of_fval sval f)).
    { unfold own_get. rewrite Hs, Ea. destruct at_; try reflexivity; discriminate. }
    split; [exact Ho|]. rewrite lookup_unfold. unfold lookup_body. rewrite Hc, Hs. exact Ho.
  Qed.

  Lemma class_level_spec cn n k : class_level_b cn n k = true ->
    exists c x, find_cls S cn = Some c /\ assoc n (ci_spec c) = None /\ class_attr tb cn n = Some x /\ k x = true.
  Proof.
    unfold LookupWalk.class_level_b. destruct (find_cls S cn) as [c|]; [|discriminate].
    destruct (assoc n (ci_spec c)) eqn:Es; [discriminate|]. destruct (class_attr tb cn n) as [x|]; [|discriminate].
    intro H. exists c, x. repeat split; auto.
  Qed.

  Lemma lookup_shortcut cn fs ms n c sc :
    find_cls S cn = Some c -> assoc n (ci_spec c) = None -> class_attr tb cn n = Some (KShortcut sc) ->
    lookup (Inst sval cn fs ms) n =
    match run_shortcut sval S tb c fs ms (fsub_of fs) (msub_of ms) sc with
    | LAttr _ => proxy_loop sval fx (subaggregates c) (fsub_of fs n)
    | r => r
    end.
  Proof. intros Hc Hs Hk. rewrite lookup_unfold. unfold lookup_body. rewrite Hc, Hs, Hk. reflexivity. Qed.

  (** ---- simple aliases: STMTRS.account ... *TRNRS.statement, PROFTRNRS.profile ---- *)
  Theorem alias_core cn fs ms n a c :
    find_cls S cn = Some c -> assoc n (ci_spec c) = None -> class_attr tb cn n = Some (KShortcut (SCAlias a)) ->
    (exists at_, assoc a (ci_spec c) = Some at_) ->
    lookup (Inst sval cn fs ms) n = lookup (Inst sval cn fs ms) a.
  Proof.
    intros Hc Hs Hk (at_ & Ha). rewrite (lookup_shortcut cn fs ms n c _ Hc Hs Hk). cbn [run_shortcut].
    rewrite (lookup_unfold sval fx S tb cn fs ms a). unfold lookup_body. rewrite Hc, Ha.
    unfold own_get. rewrite Ha. destruct at_; try reflexivity; destruct (assoc a fs); reflexivity.
  Qed.

  (** ---- self.a.n': SONRS.org / fid ---- *)
  Lemma via_sub c fs a n' j : (exists at_, assoc a (ci_spec c) = Some at_ /\ at_ <> AUnsupported) -> assoc a fs = Some (FSub sval j) ->
    via sval tb c fs (fsub_of fs) a n' = lookup j n'.
  Proof.
    intros (at_ & Ha & Hu) Ea. unfold via, own_get. rewrite Ha, Ea. rewrite assoc_fsub, Ea.
    destruct at_; try reflexivity. contradiction.
  Qed.
  Theorem via_core cn fs ms n a n' c j v :
    find_cls S cn = Some c -> assoc n (ci_spec c) = None -> class_attr tb cn n = Some (KShortcut (SCVia a n')) ->
    (exists at_, assoc a (ci_spec c) = Some at_ /\ at_ <> AUnsupported) -> assoc a fs = Some (FSub sval j) ->
    lookup j n' = LOK sval v -> lookup (Inst sval cn fs ms) n = LOK sval v.
  Proof.
    intros Hc Hs Hk Ha Ea Hj. rewrite (lookup_shortcut cn fs ms n c _ Hc Hs Hk). cbn [run_shortcut].
    rewrite (via_sub c fs a n' j Ha Ea), Hj. reflexivity.
  Qed.

  (** ---- Origcurrency.curtype / cursym / currate ---- *)
  Definition cur_path (fs : list (string * fval)) (a1 a2 : string) : option inst :=
    match assoc a1 fs with
    | Some (FSub _ j) => Some j
    | Some (FNone _) => match assoc a2 fs with Some (FSub _ j) => Some j | _ => None end
    | _ => None
    end.
  Theorem cur_core cn fs ms n a1 a2 w c j :
    find_cls S cn = Some c -> assoc n (ci_spec c) = None -> class_attr tb cn n = Some (KShortcut (SCCur a1 a2 w)) ->
    (exists t1, assoc a1 (ci_spec c) = Some t1 /\ t1 <> AUnsupported) -> (exists t2, assoc a2 (ci_spec c) = Some t2 /\ t2 <> AUnsupported) ->
    cur_path fs a1 a2 = Some j ->
    match w with
    | None => lookup (Inst sval cn fs ms) n = LOK sval (PName sval (icls sval j))
    | Some n' => forall v, lookup j n' = LOK sval v -> lookup (Inst sval cn fs ms) n = LOK sval v
    end.
  Proof.
    intros Hc Hs Hk (t1 & H1 & U1) (t2 & H2 & U2) Hp. unfold cur_path in Hp.
    assert (O1 : forall f, assoc a1 fs = Some f -> own_get sval c fs a1 = LOK sval (obj_of_fval sval f)).
    { intros f E. unfold own_get. rewrite H1, E. destruct t1; try reflexivity; contradiction. }
    assert (O2 : forall f, assoc a2 fs = Some f -> own_get sval c fs a2 = LOK sval (obj_of_fval sval f)).
    { intros f E. unfold own_get. rewrite H2, E. destruct t2; try reflexivity; contradiction. }
    rewrite (lookup_shortcut cn fs ms n c _ Hc Hs Hk). cbn [run_shortcut].
    destruct (assoc a1 fs) as [[|v1|j1]|] eqn:E1; try discriminate.
    - destruct (assoc a2 fs) as [[|v2|j2]|] eqn:E2; try discriminate. injection Hp as ->.
      rewrite (O1 _ eq_refl), (O2 _ eq_refl). cbn [obj_of_fval]. unfold cur_of.
      destruct w as [n'|]; [|reflexivity]. intros v Hv. rewrite assoc_fsub, E2. cbn [option_map held_get]. rewrite Hv. reflexivity.
    - injection Hp as ->. rewrite (O1 _ eq_refl). cbn [obj_of_fval]. unfold cur_of.
      destruct w as [n'|]; [|reflexivity]. intros v Hv. rewrite assoc_fsub, E1. cbn [option_map held_get]. rewrite Hv. reflexivity.
  Qed.
  Theorem cur_none_core cn fs ms n a1 a2 w c :
    find_cls S cn = Some c -> assoc n (ci_spec c) = None -> class_attr tb cn n = Some (KShortcut (SCCur a1 a2 w)) ->
    (exists t1, assoc a1 (ci_spec c) = Some t1 /\ t1 <> AUnsupported) -> (exists t2, assoc a2 (ci_spec c) = Some t2 /\ t2 <> AUnsupported) ->
    assoc a1 fs = Some (FNone sval) -> assoc a2 fs = Some (FNone sval) ->
    lookup (Inst sval cn fs ms) n = LOK sval (PNone sval).
  Proof.
    intros Hc Hs Hk (t1 & H1 & U1) (t2 & H2 & U2) E1 E2.
    rewrite (lookup_shortcut cn fs ms n c _ Hc Hs Hk). cbn [run_shortcut]. unfold own_get. rewrite H1, H2, E1, E2.
    destruct t1; try contradiction; destruct t2; try contradiction; reflexivity.
  Qed.

  (** ---- OFX.signon ---- *)
  Theorem signon_core cn fs ms n a1 n1 a2 n2 c :
    find_cls S cn = Some c -> assoc n (ci_spec c) = None -> class_attr tb cn n = Some (KShortcut (SCSignon a1 n1 a2 n2)) ->
    (exists t1, assoc a1 (ci_spec c) = Some t1 /\ t1 <> AUnsupported) -> (exists t2, assoc a2 (ci_spec c) = Some t2 /\ t2 <> AUnsupported) ->
    (forall j v, assoc a1 fs = Some (FSub sval j) -> lookup j n1 = LOK sval v -> lookup (Inst sval cn fs ms) n = LOK sval v) /\
    (forall j v, assoc a1 fs = Some (FNone sval) -> assoc a2 fs = Some (FSub sval j) -> lookup j n2 = LOK sval v ->
                 lookup (Inst sval cn fs ms) n = LOK sval v).
  Proof.
    intros Hc Hs Hk A1 A2. pose proof A1 as (t1 & H1 & U1). pose proof A2 as (t2 & H2 & U2).
    rewrite (lookup_shortcut cn fs ms n c _ Hc Hs Hk). cbn [run_shortcut]. split.
    - intros j v E1 Hv. rewrite (via_sub c fs a1 n1 j A1 E1), Hv. unfold own_get. rewrite H1, E1.
      destruct t1; try contradiction; reflexivity.
    - intros j v E1 E2 Hv. rewrite (via_sub c fs a2 n2 j A2 E2), Hv. unfold own_get. rewrite H1, H2, E1, E2.
      destruct t1; try contradiction; destruct t2; try contradiction; reflexivity.
  Qed.

  (** ---- message sets: statements = the wrapped (closing) statement of every wrapper that has one, in document order ---- *)
  Lemma staple_reads_ok w st : forallb (stored_b w) st = true -> first_err sval (map (fun n => lookup w n) st) = None.
  Proof.
    induction st as [|s st IH]; [reflexivity|]. cbn [forallb map]. intro H. apply andb_true_iff in H. destruct H as [Hs Ht].
    destruct (own_lookup w s Hs) as (c & f & _ & _ & _ & ->). cbn [first_err]. apply IH. exact Ht.
  Qed.

  Lemma wrapped_loop_spec st ea tests : forall ms acc,
      forallb (member_ok_b sval S st ea tests) ms = true ->
      wrapped_loop sval S ea tests (msub_of ms (wrapped_pick sval S st tests)) acc
      = LOK sval (PList sval (acc ++ map (PInst sval) (walk_members sval S tests ms))).
  Proof.
    induction ms as [|m ms IH]; intros acc Hok.
    - cbn. rewrite app_nil_r. reflexivity.
    - cbn [forallb] in Hok. apply andb_true_iff in Hok. destruct Hok as [Hm Hrest].
      unfold walk_members. cbn [flat_map]. fold (walk_members sval S tests ms). rewrite map_app, app_assoc.
      destruct m as [w|s|v]; cbn [Lookup.msub_of wrapped_loop member_ok_b wrapped_of] in *.
      + destruct (first_test sval S tests w) as [[A a]|] eqn:Ft.
        * apply andb_true_iff in Hm. destruct Hm as [Hm Hst]. apply andb_true_iff in Hm. destruct Hm as [Hsa Hnv].
          destruct (own_lookup w a Hsa) as (c & f & _ & Ea & _ & Hl).
          unfold wrapped_pick. rewrite Ft. cbn [map]. rewrite Hl, Ea in *.
          destruct f as [|v|x]; cbn [obj_of_fval]; [|discriminate|].
          -- cbn [map app]. rewrite app_nil_r. apply IH. exact Hrest.
          -- rewrite (staple_reads_ok w st Hst). cbn [map]. apply IH. exact Hrest.
        * destruct ea; [discriminate|]. cbn [map app]. rewrite app_nil_r. apply IH. exact Hrest.
      + destruct ea; [discriminate|]. cbn [map app]. rewrite app_nil_r. apply IH. exact Hrest.
      + destruct ea; [discriminate|]. cbn [map app]. rewrite app_nil_r. apply IH. exact Hrest.
  Qed.

  Theorem wrapped_core n j : wrapped_ok_b sval S tb n j = true ->
    lookup j n = LOK sval (PList sval (map (PInst sval) (walk_of sval S tb n j))).
  Proof.
    destruct j as [cn fs ms]. unfold wrapped_ok_b, walk_of. cbn [icls imembers]. intro H. apply andb_true_iff in H. destruct H as [Hcl Hm].
    destruct (class_level_spec _ _ _ Hcl) as (c & x & Hc & Hs & Hk & _).
    unfold wrapped_desc in *. rewrite Hk in *. destruct x as [sc|]; [|discriminate]. destruct sc; try discriminate.
    rewrite (lookup_shortcut cn fs ms n c _ Hc Hs Hk). cbn [run_shortcut].
    rewrite (wrapped_loop_spec _ _ _ ms [] Hm). reflexivity.
  Qed.

  (** ---- OFX.statements: concatenation over the message sets in the descriptor's order ---- *)
  Lemma concat_loop_spec c fs ms n' : forall attrs acc,
      find_cls S (icls sval (Inst sval (ci_name c) fs ms)) = find_cls S (ci_name c) ->
      forallb (concat_field_ok_b sval S tb n' (Inst sval (ci_name c) fs ms)) attrs = true ->
      find_cls S (ci_name c) = Some c ->
      concat_loop sval tb c fs (fsub_of fs) n' attrs acc
      = LOK sval (PList sval (acc ++ map (PInst sval)
              (flat_map (fun a => match assoc a fs with Some (FSub _ j) => walk_of sval S tb n' j | _ => [] end) attrs))).
  Proof.
    induction attrs as [|a attrs IH]; intros acc _ Hok Hc.
    - cbn. rewrite app_nil_r. reflexivity.
    - cbn [forallb] in Hok. apply andb_true_iff in Hok. destruct Hok as [Ha Hrest].
      unfold concat_field_ok_b in Ha. cbn [ifields] in Ha. apply andb_true_iff in Ha. destruct Ha as [Hst Hf].
      destruct (own_lookup _ a Hst) as (c' & f & Hc' & Ea & Ho & _). cbn [icls ifields] in *. rewrite Hc in Hc'. injection Hc' as <-.
      cbn [concat_loop flat_map]. rewrite Ho, Ea in *. rewrite map_app, app_assoc.
      destruct f as [|v|j]; cbn [obj_of_fval truthy_obj]; [|discriminate|].
      + cbn [map app]. rewrite app_nil_r. apply IH; auto.
      + pose proof (wrapped_core n' j Hf) as Hw.
        destruct (imembers sval j) as [|m0 ms0] eqn:Em.
        * assert (E : walk_of sval S tb n' j = []).
          { unfold walk_of. rewrite Em. destruct (wrapped_desc tb (icls sval j) n') as [[[? ?] ?]|]; reflexivity. }
          rewrite E. cbn [map app]. rewrite app_nil_r. apply IH; auto.
        * unfold via. rewrite Ho. cbn [obj_of_fval]. rewrite assoc_fsub, Ea. cbn [option_map held_get]. rewrite Hw. apply IH; auto.
  Qed.

  Theorem concat_core n i : concat_ok_b sval S tb n i = true ->
    lookup i n = LOK sval (PList sval (map (PInst sval) (concat_walk sval S tb n i))).
  Proof.
    destruct i as [cn fs ms]. unfold concat_ok_b, concat_walk. cbn [icls ifields]. intro H. apply andb_true_iff in H. destruct H as [Hcl Hm].
    destruct (class_level_spec _ _ _ Hcl) as (c & x & Hc & Hs & Hk & _).
    unfold concat_desc in *. rewrite Hk in *. destruct x as [sc|]; [|discriminate]. destruct sc; try discriminate.
    rewrite (lookup_shortcut cn fs ms n c _ Hc Hs Hk). cbn [run_shortcut].
    assert (En : ci_name c = cn).
    { clear - Hc. induction S as [|c0 S0 IH]; [discriminate|]. cbn [find_cls] in Hc. destruct (String.eqb (ci_name c0) cn) eqn:E.
      - injection Hc as <-. apply String.eqb_eq. exact E.
      - apply IH. exact Hc. }
    subst cn. rewrite (concat_loop_spec c fs ms n0 attrs [] eq_refl Hm Hc). reflexivity.
  Qed.

  (** ---- securities ---- *)
  Theorem members_core cn fs ms n A c :
    find_cls S cn = Some c -> assoc n (ci_spec c) = None -> class_attr tb cn n = Some (KShortcut (SCMembersOf A)) ->
    lookup (Inst sval cn fs ms) n = LOK sval (PList sval (sec_members sval S A ms)).
  Proof. intros Hc Hs Hk. rewrite (lookup_shortcut cn fs ms n c _ Hc Hs Hk). reflexivity. Qed.

  Theorem truthy_core n i : truthy_ok_b sval S tb n i = true ->
    lookup i n = LOK sval (PList sval (truthy_walk sval S tb n i)).
  Proof.
    destruct i as [cn fs ms]. unfold truthy_ok_b, truthy_walk. cbn [icls ifields]. intro H. apply andb_true_iff in H. destruct H as [Hcl Hm].
    destruct (class_level_spec _ _ _ Hcl) as (c & x & Hc & Hs & Hk & _).
    unfold truthy_desc in *. rewrite Hk in *. destruct x as [sc|]; [|discriminate]. destruct sc; try discriminate.
    apply andb_true_iff in Hm. destruct Hm as [Hst Hf].
    destruct (own_lookup _ a Hst) as (c' & f & Hc' & Ea & Ho & _). cbn [icls ifields] in *. rewrite Hc in Hc'. injection Hc' as <-.
    rewrite (lookup_shortcut cn fs ms n c _ Hc Hs Hk). cbn [run_shortcut]. rewrite Ho, Ea in *.
    destruct f as [|v|j]; cbn [obj_of_fval truthy_obj]; [reflexivity|discriminate|].
    destruct (class_level_spec _ _ _ Hf) as (cj & xj & Hcj & Hsj & Hkj & Hx).
    destruct xj as [scj|]; [|discriminate]. destruct scj; try discriminate.
    unfold sec_of, members_desc. rewrite Hkj.
    destruct j as [cnj fsj msj]. cbn [icls imembers] in *. destruct msj as [|m0 ms0]; [reflexivity|].
    unfold via. rewrite Ho. cbn [obj_of_fval]. rewrite assoc_fsub, Ea. cbn [option_map held_get].
    rewrite (members_core cnj fsj (m0 :: ms0) n0 cls cj Hcj Hsj Hkj). reflexivity.
  Qed.
End Sc.
