(** Lemmas behind the C20 obligations: the string manipulation of utils.py equals the
    published check-digit algorithms, completed identifiers validate, any other check
    character fails, CUSIP/SEDOL -> ISIN conversion validates and embeds the original. *)
From OfxV Require Import Base.Prelude Base.Digits Model.Ident.
From Coq Require Import ZifyBool ZifyN ZifyNat.
Local Open Scope N_scope.

Fixpoint map_opt {A B} (f : A -> option B) (l : list A) : option (list B) :=
  match l with
  | [] => Some []
  | x :: r => match f x, map_opt f r with Some y, Some t => Some (y :: t) | _, _ => None end
  end.

Lemma map_opt_app {A B} (f : A -> option B) a b xs ys :
  map_opt f a = Some xs -> map_opt f b = Some ys -> map_opt f (a ++ b) = Some (xs ++ ys).
Proof.
  revert xs. induction a as [|x a IH]; cbn [map_opt app]; intros xs Ha Hb.
  - injection Ha as <-. exact Hb.
  - destruct (f x) as [y|]; [|discriminate]. destruct (map_opt f a) as [t|]; [|discriminate].
    injection Ha as <-. rewrite (IH t eq_refl Hb). reflexivity.
Qed.

Lemma map_opt_length {A B} (f : A -> option B) l ys : map_opt f l = Some ys -> List.length ys = List.length l.
Proof.
  revert ys. induction l as [|x l IH]; cbn [map_opt]; intros ys H.
  - injection H as <-. reflexivity.
  - destruct (f x); [|discriminate]. destruct (map_opt f l) as [t|]; [|discriminate].
    injection H as <-. cbn. f_equal. apply IH. reflexivity.
Qed.

Lemma val36_bound c v : val36 c = Some v -> v < 36.
Proof.
  unfold val36. intro H.
  destruct ((48 <=? c) && (c <=? 57)) eqn:E1; [injection H as <-; lia|].
  destruct ((65 <=? c) && (c <=? 90)) eqn:E2; [injection H as <-; lia|].
  destruct ((97 <=? c) && (c <=? 122)) eqn:E3; [injection H as <-; lia|discriminate].
Qed.

Lemma cusip_val_bound c v : cusip_val c = Some v -> v < 39.
Proof.
  unfold cusip_val. intro H.
  destruct (c =? 42); [injection H as <-; lia|].
  destruct (c =? 64); [injection H as <-; lia|].
  destruct (c =? 35); [injection H as <-; lia|].
  apply val36_bound in H. lia.
Qed.

Lemma ds2_digit_sum n : n < 100 -> digit_sum (dec_of_N n) = ds2 n.
Proof. apply small_digit_sum. Qed.

(** single digits print as one character *)
Definition small_dec_ok (n : N) : bool := text_eqb (dec_of_N n) [48 + n].
Lemma small_dec_sweep : forallb small_dec_ok (map N.of_nat (seq 0 10)) = true.
Proof. vm_compute. reflexivity. Qed.
Lemma dec_of_N_small n : n < 10 -> dec_of_N n = [48 + n].
Proof.
  intro H. pose proof small_dec_sweep as S. rewrite forallb_forall in S.
  apply text_eqb_eq. apply (S n). apply in_map_iff. exists (N.to_nat n). split; [lia|]. apply in_seq. lia.
Qed.
Lemma check_char_single s : exists d, check_char s = [d] /\ d = 48 + spec_check s.
Proof.
  unfold check_char, spec_check. eexists. split; [apply dec_of_N_small|reflexivity].
  apply N.mod_lt. lia.
Qed.

(** ---------------- CUSIP ---------------- *)
Lemma cusip_encode_spec s : forall odd t,
  cusip_encode odd s = Some t ->
  exists vs, map_opt cusip_val s = Some vs /\ digit_sum t = cusip_spec_sum odd vs.
Proof.
  induction s as [|c s IH]; cbn [cusip_encode map_opt]; intros odd t H.
  - injection H as <-. exists []. split; reflexivity.
  - destruct (cusip_val c) as [v|] eqn:Ev; [|discriminate].
    destruct (cusip_encode (negb odd) s) as [t'|] eqn:Et; [|discriminate].
    injection H as <-. destruct (IH _ _ Et) as (vs & Hvs & Hs).
    exists (v :: vs). rewrite Hvs. split; [reflexivity|].
    rewrite digit_sum_app, Hs. cbn [cusip_spec_sum]. f_equal.
    apply ds2_digit_sum. apply cusip_val_bound in Ev. destruct odd; lia.
Qed.

Lemma cusip_encode_total s : forall odd vs, map_opt cusip_val s = Some vs -> exists t, cusip_encode odd s = Some t.
Proof.
  induction s as [|c s IH]; cbn [cusip_encode map_opt]; intros odd vs H.
  - eexists; reflexivity.
  - destruct (cusip_val c) as [v|]; [|discriminate].
    destruct (map_opt cusip_val s) as [t|] eqn:E; [|discriminate].
    destruct (IH (negb odd) t eq_refl) as (t' & ->). eexists; reflexivity.
Qed.

Lemma len_eqb_length (s : text) (n : nat) : (len s =? N.of_nat n) = Nat.eqb (List.length s) n.
Proof. unfold len. destruct (Nat.eqb_spec (List.length s) n) as [->|H]; [apply N.eqb_refl|]. apply N.eqb_neq. lia. Qed.

Lemma cusip_check_is_published_l base vs :
  List.length base = 8%nat -> map_opt cusip_val base = Some vs ->
  cusip_checksum base = OK [48 + spec_check (cusip_spec_sum false vs)].
Proof.
  intros HL Hv. unfold cusip_checksum.
  change 8 with (N.of_nat 8). rewrite len_eqb_length, HL. cbn [Nat.eqb negb].
  destruct (cusip_encode_total _ false _ Hv) as (t & Ht). rewrite Ht.
  destruct (cusip_encode_spec _ _ _ Ht) as (vs' & Hvs' & Hs). rewrite Hv in Hvs'. injection Hvs' as <-.
  rewrite Hs. destruct (check_char_single (cusip_spec_sum false vs)) as (d & -> & ->). reflexivity.
Qed.

Lemma cusip_checksum_ok_inv base c : cusip_checksum base = OK c -> List.length base = 8%nat /\ exists d, c = [d].
Proof.
  unfold cusip_checksum. change 8 with (N.of_nat 8). rewrite len_eqb_length.
  destruct (Nat.eqb_spec (List.length base) 8) as [HL|]; cbn [negb]; [|discriminate].
  destruct (cusip_encode false base) as [t|]; [|discriminate].
  intro H. injection H as <-. split; [exact HL|]. destruct (check_char_single (digit_sum t)) as (d & -> & _). eauto.
Qed.

Lemma firstn_app_exact {A} (a b : list A) n : List.length a = n -> firstn n (a ++ b) = a.
Proof. intros <-. rewrite firstn_app, Nat.sub_diag, firstn_all, firstn_O, app_nil_r. reflexivity. Qed.
Lemma skipn_app_exact {A} (a b : list A) n : List.length a = n -> skipn n (a ++ b) = b.
Proof. intros <-. rewrite skipn_app, Nat.sub_diag, skipn_all. reflexivity. Qed.
Lemma text_eqb_refl t : text_eqb t t = true. Proof. apply text_eqb_eq. reflexivity. Qed.
Lemma text_eqb_neq a b : a <> b -> text_eqb a b = false.
Proof. intro H. destruct (text_eqb a b) eqn:E; [|reflexivity]. apply text_eqb_eq in E. contradiction. Qed.

Lemma cusip_complete_validates_l base c : cusip_checksum base = OK c -> validate_cusip (base ++ c) = OK true.
Proof.
  intro H. destruct (cusip_checksum_ok_inv _ _ H) as (HL & d & ->).
  unfold validate_cusip. change 9 with (N.of_nat 9). rewrite len_eqb_length, app_length, HL. cbn [List.length Nat.add Nat.eqb].
  rewrite (firstn_app_exact _ _ 8 HL), (skipn_app_exact _ _ 8 HL), H. cbn [bind]. rewrite text_eqb_refl. reflexivity.
Qed.

Lemma cusip_wrong_check_fails_l base c c' : cusip_checksum base = OK c -> c' <> c -> validate_cusip (base ++ c') = OK false.
Proof.
  intros H Hne. destruct (cusip_checksum_ok_inv _ _ H) as (HL & _).
  unfold validate_cusip. destruct (len (base ++ c') =? 9); [|reflexivity].
  rewrite (firstn_app_exact _ _ 8 HL), (skipn_app_exact _ _ 8 HL), H. cbn [bind].
  rewrite text_eqb_neq; [reflexivity|congruence].
Qed.

Lemma cusip_wrong_length_l s : List.length s <> 9%nat -> validate_cusip s = OK false.
Proof.
  intro H. unfold validate_cusip. change 9 with (N.of_nat 9). rewrite len_eqb_length.
  destruct (Nat.eqb_spec (List.length s) 9); [contradiction|reflexivity].
Qed.

(** ---------------- SEDOL ---------------- *)
Lemma sedol_sum_spec s : forall ws vs, (List.length s <= List.length ws)%nat -> map_opt val36 s = Some vs ->
  sedol_sum ws s = Some (sedol_spec_sum ws vs).
Proof.
  induction s as [|c s IH]; intros ws vs HL Hv; cbn [map_opt] in Hv.
  - injection Hv as <-. destruct ws; reflexivity.
  - destruct ws as [|w ws]; [cbn in HL; lia|].
    destruct (val36 c) as [v|] eqn:Ev; [|discriminate]. destruct (map_opt val36 s) as [t|] eqn:Et; [|discriminate].
    injection Hv as <-. cbn [sedol_sum sedol_spec_sum]. rewrite Ev. rewrite (IH ws t); [reflexivity| cbn in HL; lia | reflexivity].
Qed.

Lemma sedol_check_is_published_l base vs :
  List.length base = 6%nat -> existsb is_AEIO base = false -> map_opt val36 base = Some vs ->
  sedol_checksum base = OK [48 + spec_check (sedol_spec_sum sedol_weights vs)].
Proof.
  intros HL HA Hv. unfold sedol_checksum. change 6 with (N.of_nat 6). rewrite len_eqb_length, HL. cbn [Nat.eqb negb]. rewrite HA.
  rewrite (sedol_sum_spec base sedol_weights vs ltac:(rewrite HL; cbn; lia) Hv).
  destruct (check_char_single (sedol_spec_sum sedol_weights vs)) as (d & -> & ->). reflexivity.
Qed.

Lemma sedol_checksum_ok_inv base c : sedol_checksum base = OK c ->
  List.length base = 6%nat /\ (exists d, c = [d] /\ 48 <= d <= 57) /\ exists vs, map_opt val36 base = Some vs.
Proof.
  unfold sedol_checksum. change 6 with (N.of_nat 6). rewrite len_eqb_length.
  destruct (Nat.eqb_spec (List.length base) 6) as [HL|]; cbn [negb]; [|discriminate].
  destruct (existsb is_AEIO base); [discriminate|].
  destruct (sedol_sum sedol_weights base) as [s|] eqn:E; [|discriminate].
  intro H. injection H as <-. split; [exact HL|]. split.
  - destruct (check_char_single s) as (d & -> & ->). eexists. split; [reflexivity|].
    unfold spec_check. pose proof (N.mod_lt (10 - s mod 10) 10 ltac:(lia)). lia.
  - clear HL. revert s E. generalize sedol_weights. induction base as [|c b IH]; intros ws s E.
    + exists []. reflexivity.
    + destruct ws as [|w ws]; cbn [sedol_sum] in E; [discriminate|].
      destruct (val36 c) as [v|] eqn:Ev; [|discriminate]. destruct (sedol_sum ws b) as [t|] eqn:Et; [|discriminate].
      destruct (IH ws t Et) as (vs & Hvs). exists (v :: vs). cbn [map_opt]. rewrite Ev, Hvs. reflexivity.
Qed.

(** ---------------- ISIN ---------------- *)
Definition expand_digits (v : N) : list N := if v <? 10 then [v] else [v / 10; v mod 10].
Definition expand_ok (v : N) : bool := list_eqb N.eqb (map digit_val (dec_of_N v)) (expand_digits v).
Lemma expand_sweep : forallb expand_ok (map N.of_nat (seq 0 36)) = true.
Proof. vm_compute. reflexivity. Qed.
Lemma expand_digits_dec v : v < 36 -> map digit_val (dec_of_N v) = expand_digits v.
Proof.
  intro H. pose proof expand_sweep as S. rewrite forallb_forall in S.
  apply (list_eqb_eq N.eqb N.eqb_eq). apply (S v). apply in_map_iff. exists (N.to_nat v). split; [lia|]. apply in_seq. lia.
Qed.

Lemma isin_expand_spec s : forall t, isin_expand s = Some t ->
  exists vs, map_opt val36 s = Some vs /\ map digit_val t = List.concat (map expand_digits vs) /\ forallb is_digit t = true.
Proof.
  induction s as [|c s IH]; cbn [isin_expand map_opt]; intros t H.
  - injection H as <-. exists []. repeat split.
  - destruct (val36 c) as [v|] eqn:Ev; [|discriminate]. destruct (isin_expand s) as [t'|] eqn:Et; [|discriminate].
    injection H as <-. destruct (IH _ eq_refl) as (vs & Hvs & Hm & Hd). exists (v :: vs). rewrite Hvs. split; [reflexivity|]. split.
    + rewrite map_app, Hm. cbn [map List.concat]. rewrite expand_digits_dec; [reflexivity|]. eapply val36_bound; eassumption.
    + rewrite forallb_app, Hd, dec_of_N_all_digits. reflexivity.
Qed.

Lemma isin_expand_total s vs : map_opt val36 s = Some vs -> exists t, isin_expand s = Some t.
Proof.
  revert vs. induction s as [|c s IH]; cbn [isin_expand map_opt]; intros vs H.
  - eexists; reflexivity.
  - destruct (val36 c); [|discriminate]. destruct (map_opt val36 s) as [t|]; [|discriminate].
    destruct (IH t eq_refl) as (t' & ->). eexists; reflexivity.
Qed.

Lemma is_digit_val d : is_digit d = true -> digit_val d < 10.
Proof. unfold is_digit, digit_val. intro H. apply andb_true_iff in H. destruct H as [H1 H2]. apply N.leb_le in H1, H2. lia. Qed.

Lemma isin_double_luhn s : forall odd, forallb is_digit s = true ->
  digit_sum (isin_double odd s) = luhn_sum (negb odd) (map digit_val s).
Proof.
  induction s as [|d s IH]; intros odd H; [reflexivity|].
  cbn [forallb] in H. apply andb_true_iff in H. destruct H as [Hd Hs].
  cbn [isin_double map luhn_sum]. rewrite digit_sum_app, (IH _ Hs), negb_involutive. f_equal.
  pose proof (is_digit_val _ Hd). destruct odd; cbn [negb].
  - cbn [digit_sum]. lia.
  - apply ds2_digit_sum. lia.
Qed.

Lemma forallb_rev {A} (f : A -> bool) l : forallb f (rev l) = forallb f l.
Proof. induction l as [|x l IH]; [reflexivity|]. cbn [rev forallb]. rewrite forallb_app, IH. cbn. rewrite andb_true_r, andb_comm. reflexivity. Qed.

Section WithAgencies.
  Variable agencies : list text.

  Lemma isin_check_is_luhn_l base vs :
    List.length base = 11%nat -> is_agency agencies (firstn 2 base) = true -> map_opt val36 base = Some vs ->
    isin_checksum agencies base = OK [48 + spec_check (luhn_sum true (rev (List.concat (map expand_digits vs))))].
  Proof.
    intros HL HA Hv. unfold isin_checksum. change 11 with (N.of_nat 11). rewrite len_eqb_length, HL, HA. cbn [Nat.eqb negb].
    destruct (isin_expand_total _ _ Hv) as (t & Ht). rewrite Ht.
    destruct (isin_expand_spec _ _ Ht) as (vs' & Hvs' & Hm & Hd). rewrite Hv in Hvs'. injection Hvs' as <-.
    rewrite isin_double_luhn by (rewrite forallb_rev; exact Hd). cbn [negb]. rewrite map_rev, Hm.
    destruct (check_char_single (luhn_sum true (rev (List.concat (map expand_digits vs))))) as (d & -> & ->). reflexivity.
  Qed.

  Lemma isin_checksum_ok_inv base c : isin_checksum agencies base = OK c ->
    List.length base = 11%nat /\ is_agency agencies (firstn 2 base) = true /\ exists d, c = [d].
  Proof.
    unfold isin_checksum. change 11 with (N.of_nat 11). rewrite len_eqb_length.
    destruct (Nat.eqb_spec (List.length base) 11) as [HL|]; cbn [negb]; [|discriminate].
    destruct (is_agency agencies (firstn 2 base)); cbn [negb]; [|discriminate].
    destruct (isin_expand base) as [t|]; [|discriminate].
    intro H. injection H as <-. repeat split; [exact HL|]. destruct (check_char_single (digit_sum (isin_double false (rev t)))) as (d & -> & _). eauto.
  Qed.

  Lemma firstn_firstn_app {A} (a b : list A) n m : List.length a = m -> (n <= m)%nat -> firstn n (a ++ b) = firstn n a.
  Proof. intros <- H. rewrite firstn_app. replace (n - List.length a)%nat with 0%nat by lia. rewrite firstn_O, app_nil_r. reflexivity. Qed.

  Lemma isin_complete_validates_l base c : isin_checksum agencies base = OK c -> validate_isin agencies (base ++ c) = OK true.
  Proof.
    intro H. destruct (isin_checksum_ok_inv _ _ H) as (HL & HA & d & ->).
    unfold validate_isin. change 12 with (N.of_nat 12). rewrite len_eqb_length, app_length, HL. cbn [List.length Nat.add Nat.eqb andb].
    rewrite (firstn_firstn_app _ _ 2 11 HL ltac:(lia)), HA.
    rewrite (firstn_app_exact _ _ 11 HL), (skipn_app_exact _ _ 11 HL), H. cbn [bind]. rewrite text_eqb_refl. reflexivity.
  Qed.

  Lemma isin_wrong_check_fails_l base c c' : isin_checksum agencies base = OK c -> c' <> c -> validate_isin agencies (base ++ c') = OK false.
  Proof.
    intros H Hne. destruct (isin_checksum_ok_inv _ _ H) as (HL & _).
    unfold validate_isin. destruct ((len (base ++ c') =? 12) && is_agency agencies (firstn 2 (base ++ c'))); [|reflexivity].
    rewrite (firstn_app_exact _ _ 11 HL), (skipn_app_exact _ _ 11 HL), H. cbn [bind].
    rewrite text_eqb_neq; [reflexivity|congruence].
  Qed.

  Lemma isin_wrong_length_l s : List.length s <> 12%nat -> validate_isin agencies s = OK false.
  Proof.
    intro H. unfold validate_isin. change 12 with (N.of_nat 12). rewrite len_eqb_length.
    destruct (Nat.eqb_spec (List.length s) 12); [contradiction|reflexivity].
  Qed.

  Lemma isin_unknown_prefix_l s : is_agency agencies (firstn 2 s) = false -> validate_isin agencies s = OK false.
  Proof. intro H. unfold validate_isin. rewrite H, andb_false_r. reflexivity. Qed.

  (** conversion: a valid alphanumeric CUSIP under a two-character alphanumeric agency prefix *)
  Lemma cusip2isin_valid_and_embeds_l cusip nation vsn vsc :
    validate_cusip cusip = OK true -> nation <> [] -> is_agency agencies nation = true -> List.length nation = 2%nat ->
    map_opt val36 nation = Some vsn -> map_opt val36 cusip = Some vsc ->
    exists i, cusip2isin agencies cusip nation = OK i /\ validate_isin agencies i = OK true
              /\ firstn 9 (skipn 2 i) = cusip /\ firstn 2 i = nation.
  Proof.
    intros Hv Hne HA HLn Hvn Hvc.
    assert (HLc : List.length cusip = 9%nat).
    { destruct (Nat.eq_dec (List.length cusip) 9) as [E|E]; [exact E|]. rewrite (cusip_wrong_length_l _ E) in Hv. discriminate. }
    unfold cusip2isin. rewrite Hv. cbn [bind negb].
    destruct nation as [|n0 nr] eqn:En; [contradiction|]. rewrite <- En in *. rewrite HA. cbn [negb].
    assert (HLb : List.length (nation ++ cusip) = 11%nat) by (rewrite app_length, HLn, HLc; reflexivity).
    assert (HAb : is_agency agencies (firstn 2 (nation ++ cusip)) = true) by (rewrite (firstn_app_exact _ _ 2 HLn); exact HA).
    rewrite (isin_check_is_luhn_l _ _ HLb HAb (map_opt_app _ _ _ _ _ Hvn Hvc)). cbn [bind].
    eexists. split; [reflexivity|]. split.
    - apply isin_complete_validates_l. apply (isin_check_is_luhn_l _ _ HLb HAb (map_opt_app _ _ _ _ _ Hvn Hvc)).
    - rewrite <- app_assoc. rewrite (skipn_app_exact _ _ 2 HLn), (firstn_app_exact _ _ 9 HLc), (firstn_app_exact _ _ 2 HLn). split; reflexivity.
  Qed.

  Lemma sedol2isin_valid_and_embeds_l base c nation vsn :
    sedol_checksum base = OK c -> nation <> [] -> is_agency agencies nation = true -> List.length nation = 2%nat ->
    map_opt val36 nation = Some vsn ->
    exists i, sedol2isin agencies (base ++ c) nation = OK i /\ validate_isin agencies i = OK true
              /\ skipn 4 (firstn 11 i) = base ++ c /\ firstn 4 i = nation ++ [48; 48].
  Proof.
    intros Hs Hne HA HLn Hvn.
    destruct (sedol_checksum_ok_inv _ _ Hs) as (HLb & (d & -> & Hd) & (vsb & Hvb)).
    unfold sedol2isin. destruct nation as [|n0 nr] eqn:En; [contradiction|]. rewrite <- En in *.
    change 7 with (N.of_nat 7). rewrite len_eqb_length, app_length, HLb. cbn [List.length Nat.add Nat.eqb negb].
    rewrite (firstn_app_exact _ _ 6 HLb), (skipn_app_exact _ _ 6 HLb), Hs. cbn [bind]. rewrite text_eqb_refl. cbn [negb].
    set (b := nation ++ [48; 48] ++ base ++ [d]).
    assert (HL : List.length b = 11%nat) by (unfold b; rewrite !app_length, HLn, HLb; reflexivity).
    assert (HAb : is_agency agencies (firstn 2 b) = true) by (unfold b; rewrite (firstn_app_exact _ _ 2 HLn); exact HA).
    assert (Hvd : val36 d = Some (d - 48)).
    { unfold val36. replace ((48 <=? d) && (d <=? 57)) with true; [reflexivity|]. symmetry. apply andb_true_iff. split; apply N.leb_le; lia. }
    assert (Hv : map_opt val36 b = Some (vsn ++ [0; 0] ++ vsb ++ [d - 48])).
    { unfold b. apply map_opt_app; [exact Hvn|]. apply (map_opt_app val36 [48; 48] (base ++ [d]) [0; 0]); [reflexivity|].
      apply map_opt_app; [exact Hvb|]. cbn [map_opt]. rewrite Hvd. reflexivity. }
    rewrite (isin_check_is_luhn_l _ _ HL HAb Hv). cbn [bind].
    eexists. split; [reflexivity|]. split.
    - apply isin_complete_validates_l. apply (isin_check_is_luhn_l _ _ HL HAb Hv).
    - rewrite (firstn_app_exact _ _ 11 HL). unfold b. split.
      + change (nation ++ [48; 48] ++ base ++ [d]) with (nation ++ ([48; 48] ++ (base ++ [d]))).
        rewrite app_assoc. apply skipn_app_exact. rewrite app_length, HLn. reflexivity.
      + rewrite <- app_assoc. change (nation ++ ([48; 48] ++ base ++ [d]) ++ ?x) with (nation ++ ([48; 48] ++ ((base ++ [d]) ++ x))).
        rewrite app_assoc. apply firstn_app_exact. rewrite app_length, HLn. reflexivity.
  Qed.
End WithAgencies.

(** decidable well-formedness of the regenerated agency table: every prefix the library
    accepts as a nation must be usable to build an ISIN (two alphanumeric characters) *)
Definition agency_ok (k : text) : bool :=
  Nat.eqb (List.length k) 2 && match map_opt val36 k with Some _ => true | None => false end.
Definition agencies_ok (ag : list text) : bool := forallb agency_ok ag.
Definition bad_agencies (ag : list text) : list text := filter (fun k => negb (agency_ok k)) ag.

Lemma agencies_ok_use ag nation : agencies_ok ag = true -> is_agency ag nation = true ->
  nation <> [] /\ List.length nation = 2%nat /\ exists vs, map_opt val36 nation = Some vs.
Proof.
  unfold agencies_ok, is_agency. intros H HA. apply existsb_exists in HA. destruct HA as (k & Hin & He).
  apply text_eqb_eq in He. subst k. rewrite forallb_forall in H. specialize (H _ Hin). unfold agency_ok in H.
  apply andb_true_iff in H. destruct H as [HL Hm]. apply Nat.eqb_eq in HL.
  split; [intros ->; discriminate|]. split; [exact HL|]. destruct (map_opt val36 nation); [eauto|discriminate].
Qed.
