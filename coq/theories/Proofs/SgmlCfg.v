(** Each repair suffices for its own theorem: the scanner depends on [cdata_lazy] only, the builder on [checked] only.
    [parse_render_faithful_g] for every configuration with the repaired regex (whatever the builder),
    [parse_ok_implies_nested_g] for every configuration with the repaired builder (whatever the regex). *)
From OfxV Require Import Base.Prelude Base.SgmlBase Model.Sgml Model.SgmlSpec Proofs.SgmlNest Proofs.SgmlScan Proofs.SgmlFaithful Proofs.SgmlReject.
Local Open Scope N_scope.

Lemma body_cfg g r : cdata_lazy g = true -> body g r = body repaired r.
Proof. intro H. unfold body. rewrite H. reflexivity. Qed.
Lemma match_at_cfg g s : cdata_lazy g = true -> match_at g s = match_at repaired s.
Proof. intro H. unfold match_at. destruct s as [|c s1]; [reflexivity|].
  destruct (c =? LT); [|reflexivity]. destruct (take_while is_tagch s1) as [tag r]. destruct tag; [reflexivity|].
  destruct r as [|c2 r1]; [reflexivity|]. destruct (c2 =? GT); [|reflexivity]. rewrite (body_cfg g r1 H). reflexivity.
Qed.
Lemma scan_cfg g : cdata_lazy g = true -> forall s k, scan g k s = scan repaired k s.
Proof.
  intro H. induction s as [|c s IH]; intro k; [reflexivity|]. cbn [scan]. destruct k as [|k]; [|apply IH].
  rewrite (match_at_cfg g _ H). destruct (match_at repaired (c :: s)) as [[m n]|]; [f_equal|]; apply IH.
Qed.

Lemma b_end_cfg g t b : checked g = true -> b_end g t b = b_end repaired t b.
Proof. intro H. unfold b_end. rewrite H. reflexivity. Qed.
Lemma step_cfg g b e : checked g = true -> step g b e = step repaired b e.
Proof.
  intro H. destruct e; cbn [step]; rewrite ?(b_end_cfg g _ _ H); try reflexivity.
  - destruct (b_start t b); cbn [bind]; [apply b_end_cfg; exact H|reflexivity].
  - destruct (b_start t b); cbn [bind]; [apply b_end_cfg; exact H|reflexivity].
Qed.
Lemma feed_cfg g ms : checked g = true -> forall b, feed g ms b = feed repaired ms b.
Proof.
  intro H. induction ms as [|m ms IH]; intro b; [reflexivity|]. cbn [feed]. destruct (event_of m) as [e|k]; cbn [bind]; [|reflexivity].
  rewrite (step_cfg g b e H). destruct (step repaired b e); cbn [bind]; [apply IH|reflexivity].
Qed.
Lemma b_close_cfg g b : checked g = true -> b_close g b = b_close repaired b.
Proof. intro H. unfold b_close. rewrite H. reflexivity. Qed.

(** C08, whatever the regex variant *)
Theorem parse_ok_implies_nested_g g s t : checked g = true ->
  parse g s = OK (Some t) -> exists es, toks g s = OK es /\ nested es t.
Proof.
  intros Hg H. unfold parse, toks in *. rewrite (feed_cfg g _ Hg) in H.
  destruct (feed repaired (scan g 0 s) b0) as [b|k] eqn:Hf; cbn [bind] in H; [|discriminate].
  rewrite (b_close_cfg g b Hg) in H.
  destruct (feed_ok_events _ _ _ _ Hf) as (es & Hes & Hrun). exists es. split; [exact Hes|].
  apply run_ok_forest. unfold accept. rewrite Hrun. exact H.
Qed.

(** where the checked builder succeeds, the unchecked one does the same *)
Lemma b_end_mono g t b b' : b_end repaired t b = OK b' -> b_end g t b = OK b'.
Proof.
  unfold b_end. cbn [repaired checked]. destruct (stack b) as [|[[t' x] ch] rest]; [discriminate|].
  destruct (text_eqb t t'); cbn [andb negb]; [|discriminate]. rewrite andb_false_r. auto.
Qed.
Lemma step_mono g b e b' : step repaired b e = OK b' -> step g b e = OK b'.
Proof.
  destruct e; cbn [step]; try apply b_end_mono; auto.
  - destruct (b_start t b); cbn [bind]; [apply b_end_mono|discriminate].
  - destruct (b_start t b); cbn [bind]; [apply b_end_mono|discriminate].
Qed.
Lemma feed_mono g ms : forall b b', feed repaired ms b = OK b' -> feed g ms b = OK b'.
Proof.
  induction ms as [|m ms IH]; intros b b' H; [exact H|]. cbn [feed] in *. destruct (event_of m) as [e|k]; cbn [bind] in *; [|discriminate].
  destruct (step repaired b e) as [b1|k] eqn:Es; cbn [bind] in H; [|discriminate].
  rewrite (step_mono g b e b1 Es). cbn [bind]. apply IH. exact H.
Qed.
Lemma b_close_mono g b o : b_close repaired b = OK o -> b_close g b = OK o.
Proof. unfold b_close. cbn [repaired checked]. destruct (stack b); [auto|discriminate]. Qed.

(** C02, whatever the builder variant *)
Theorem parse_render_faithful_g g ws0 r d : cdata_lazy g = true ->
  wf_doc d = true -> ok_rendering ws0 r d -> parse g (render ws0 r) = OK (Some (tree_of d)).
Proof.
  intros Hg Hd Hr. pose proof (parse_render_faithful_l ws0 r d Hd Hr) as H. unfold parse in *.
  rewrite (scan_cfg g Hg).
  destruct (feed repaired (scan repaired 0 (render ws0 r)) b0) as [b|k] eqn:Hf; cbn [bind] in H; [|discriminate].
  rewrite (feed_mono g _ _ _ Hf). cbn [bind]. apply b_close_mono. exact H.
Qed.

Corollary all_renderings_agree_g g d ws1 r1 ws2 r2 : cdata_lazy g = true ->
  wf_doc d = true -> ok_rendering ws1 r1 d -> ok_rendering ws2 r2 d ->
  parse g (render ws1 r1) = parse g (render ws2 r2).
Proof. intros Hg Hd H1 H2. rewrite (parse_render_faithful_g g _ _ _ Hg Hd H1), (parse_render_faithful_g g _ _ _ Hg Hd H2). reflexivity. Qed.
Corollary same_tree_same_doc_g g d1 d2 ws1 r1 ws2 r2 : cdata_lazy g = true ->
  wf_doc d1 = true -> wf_doc d2 = true -> ok_rendering ws1 r1 d1 -> ok_rendering ws2 r2 d2 ->
  parse g (render ws1 r1) = parse g (render ws2 r2) -> d1 = d2.
Proof.
  intros Hg Hd1 Hd2 H1 H2 E. rewrite (parse_render_faithful_g g _ _ _ Hg Hd1 H1), (parse_render_faithful_g g _ _ _ Hg Hd2 H2) in E.
  inversion E as [E']. apply tree_of_injective_l. exact E'.
Qed.
