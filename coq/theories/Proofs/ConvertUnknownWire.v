(** C07 through the wire: composition of the tree-level theorem (ConvertUnknown) with the tokenizer / tree builder theorem of the
    Sgml engine (parse_render_faithful): whatever renderings (XML, SGML, mixed, any white space, CDATA) the clean and the
    contaminated document are given in, parsing and converting the contaminated text gives what parsing and converting the clean
    text gives. *)
From OfxV Require Import Base.Prelude Base.SgmlBase Model.Schema Model.Convert Model.Sgml Model.SgmlSpec
     Proofs.SgmlFaithful Proofs.ConvertUnknown Proofs.WireRoundTrip.

Section UnknownWire.
  Variable sval : Type.
  Variable conv : N -> sin sval -> result (option sval).
  Variable S : schema.

  Theorem unknown_insert_invisible_on_the_wire_l path pos u e e' d d' ws0 r ws0' r' :
    insert_at path pos u e = Some e' -> receiver_unknown S path u e ->
    wf_doc d = true -> wf_doc d' = true -> tree_of d = up e -> tree_of d' = up e' ->
    ok_rendering ws0 r d -> ok_rendering ws0' r' d' ->
    parse repaired (render ws0 r) = OK (Some (up e))
    /\ parse repaired (render ws0' r') = OK (Some (up e'))
    /\ rmap fst (from_etree sval conv S e') = rmap fst (from_etree sval conv S e).
  Proof.
    intros Hi Hu Hd Hd' Ht Ht' Hr Hr'. split; [|split].
    - rewrite <- Ht. apply parse_render_faithful_l; assumption.
    - rewrite <- Ht'. apply parse_render_faithful_l; assumption.
    - apply (unknown_insert_invisible_l sval conv S path pos u e e' Hi Hu).
  Qed.
End UnknownWire.
