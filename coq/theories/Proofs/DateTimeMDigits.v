(** DateTimeM, part 1: fixed-width digit fields (print/parse inverses both ways), newline-freeness, the hours
    text [dec_of_N] for the 24 values an offset can have, [%Y] for four-digit years, instants <-> field tuples. *)
From OfxV Require Import Base.Prelude Base.Digits Model.Calendar Model.DateTimeM Proofs.CalendarProofs.
From Coq Require Import ZifyBool ZifyN ZifyNat.
Local Open Scope N_scope.
Ltac Zify.zify_post_hook ::= Z.to_euclidean_division_equations.

Lemma is_digit_iff c : is_digit c = true <-> 48 <= c <= 57.
Proof. unfold is_digit. lia. Qed.
Lemma is_digit_off k : k < 10 -> is_digit (48 + k) = true.
Proof. intro. apply is_digit_iff. lia. Qed.

(** ---- print then parse ---- *)
Lemma take2_d2 n r : n < 100 -> take2 (d2 n ++ r) = Some (n, r).
Proof.
  intro H. cbn [d2 take2 app]. rewrite !is_digit_off by lia. cbn [andb]. unfold dval. do 2 f_equal. lia.
Qed.
Lemma take3_d3 n r : n < 1000 -> take3 (d3 n ++ r) = Some (n, r).
Proof.
  intro H. cbn [d3 take3 app]. rewrite !is_digit_off by lia. cbn [andb]. unfold dval. do 2 f_equal. lia.
Qed.
Lemma take4_d4 n r : n < 10000 -> take4 (d4 n ++ r) = Some (n, r).
Proof.
  intro H. cbn [d4 take4 app]. rewrite !is_digit_off by lia. cbn [andb]. unfold dval. do 2 f_equal. lia.
Qed.

(** ---- parse then print ---- *)
Lemma take2_inv s n r : take2 s = Some (n, r) -> s = (d2 n ++ r)%list /\ n < 100.
Proof.
  destruct s as [|a [|b s]]; cbn [take2]; try discriminate.
  destruct (is_digit a) eqn:A; [|discriminate]. destruct (is_digit b) eqn:B; [|discriminate]. cbn [andb].
  apply is_digit_iff in A. apply is_digit_iff in B. intro E. injection E as <- <-. unfold dval, d2. cbn [app].
  split; [|lia]. f_equal; [lia|]. f_equal. lia.
Qed.
Lemma take3_inv s n r : take3 s = Some (n, r) -> s = (d3 n ++ r)%list /\ n < 1000.
Proof.
  destruct s as [|a [|b [|c s]]]; cbn [take3]; try discriminate.
  destruct (is_digit a) eqn:A; [|discriminate]. destruct (is_digit b) eqn:B; [|discriminate].
  destruct (is_digit c) eqn:Cc; [|discriminate]. cbn [andb].
  apply is_digit_iff in A. apply is_digit_iff in B. apply is_digit_iff in Cc.
  intro E. injection E as <- <-. unfold dval, d3. cbn [app].
  split; [|lia]. f_equal; [lia|]. f_equal; [lia|]. f_equal. lia.
Qed.
Lemma take4_inv s n r : take4 s = Some (n, r) -> s = (d4 n ++ r)%list /\ n < 10000.
Proof.
  destruct s as [|a [|b [|c [|d s]]]]; cbn [take4]; try discriminate.
  destruct (is_digit a) eqn:A; [|discriminate]. destruct (is_digit b) eqn:B; [|discriminate].
  destruct (is_digit c) eqn:Cc; [|discriminate]. destruct (is_digit d) eqn:D; [|discriminate]. cbn [andb].
  apply is_digit_iff in A. apply is_digit_iff in B. apply is_digit_iff in Cc. apply is_digit_iff in D.
  intro E. injection E as <- <-. unfold dval, d4. cbn [app].
  split; [|lia]. f_equal; [lia|]. f_equal; [lia|]. f_equal; [lia|]. f_equal. lia.
Qed.

(** ---- newline-freeness ---- *)
Definition no_nl (s : text) : Prop := existsb (N.eqb 10) s = false.
Lemma no_nl_app a b : no_nl a -> no_nl b -> no_nl (a ++ b).
Proof. unfold no_nl. rewrite existsb_app. intros -> ->. reflexivity. Qed.
Lemma no_nl_cons c a : c <> 10 -> no_nl a -> no_nl (c :: a).
Proof. unfold no_nl. cbn [existsb]. intros H ->. destruct (N.eqb_spec 10 c); [congruence|reflexivity]. Qed.
Lemma no_nl_nil : no_nl []. Proof. reflexivity. Qed.
Lemma no_nl_d2 n : no_nl (d2 n).
Proof. unfold d2. repeat apply no_nl_cons; try lia. apply no_nl_nil. Qed.
Lemma no_nl_d3 n : no_nl (d3 n).
Proof. unfold d3. repeat apply no_nl_cons; try lia. apply no_nl_nil. Qed.
Lemma no_nl_d4 n : no_nl (d4 n).
Proof. unfold d4. repeat apply no_nl_cons; try lia. apply no_nl_nil. Qed.
Lemma no_nl_digits s : forallb is_digit s = true -> no_nl s.
Proof.
  induction s as [|c s IH]; [reflexivity|]. cbn [forallb]. intro H. apply andb_true_iff in H as [H1 H2].
  apply no_nl_cons; [apply is_digit_iff in H1; lia | auto].
Qed.
Lemma strip_nl_no_nl s : no_nl s -> strip_nl s = s.
Proof.
  intro H. unfold strip_nl. destruct (rev s) as [|c r] eqn:E; [reflexivity|].
  destruct (N.eqb_spec c 10) as [->|N].
  - exfalso. assert (S : s = (rev r ++ [10])%list) by (rewrite <- (rev_involutive s), E; reflexivity).
    unfold no_nl in H. rewrite S, existsb_app in H. cbn in H. rewrite orb_true_r in H. discriminate.
  - destruct c as [|p]; [reflexivity|].
    do 4 (destruct p as [p|p|]; try reflexivity). exfalso. apply N. reflexivity.
Qed.
Lemma strip_nl_trailing s : no_nl s -> strip_nl (s ++ [10]) = s.
Proof. intros _. unfold strip_nl. rewrite rev_unit. apply rev_involutive. Qed.

(** ---- the hours text: one optional sign and [str(hh)] for hh < 24 ---- *)
Definition hh_ok (hh : N) : bool :=
  let t := dec_of_N hh in
  forallb is_digit t && negb (match t with [] => true | _ => false end)
  && match pyint t with Some v => (v =? Z.of_N hh)%Z | None => false end
  && match pyint (43 :: t) with Some v => (v =? Z.of_N hh)%Z | None => false end
  && match pyint (45 :: t) with Some v => (v =? - Z.of_N hh)%Z | None => false end
  && negb (starts_minus t).
Lemma hh_sweep : forallb hh_ok (map N.of_nat (seq 0 24)) = true.
Proof. vm_compute. reflexivity. Qed.
Lemma hh_facts hh : hh < 24 ->
  forallb is_digit (dec_of_N hh) = true /\ dec_of_N hh <> []
  /\ pyint (dec_of_N hh) = Some (Z.of_N hh) /\ pyint (43 :: dec_of_N hh) = Some (Z.of_N hh)
  /\ pyint (45 :: dec_of_N hh) = Some (- Z.of_N hh)%Z /\ starts_minus (dec_of_N hh) = false.
Proof.
  intro H. pose proof hh_sweep as S. rewrite forallb_forall in S.
  specialize (S hh). unfold hh_ok in S.
  assert (I : In hh (map N.of_nat (seq 0 24))).
  { apply in_map_iff. exists (N.to_nat hh). split; [lia|]. apply in_seq. lia. }
  specialize (S I). repeat (apply andb_true_iff in S as [S ?]).
  repeat split; try assumption.
  - intro E. rewrite E in *. discriminate.
  - destruct (pyint (dec_of_N hh)) as [v|]; [f_equal; lia|discriminate].
  - destruct (pyint (43 :: dec_of_N hh)) as [v|]; [f_equal; lia|discriminate].
  - destruct (pyint (45 :: dec_of_N hh)) as [v|]; [f_equal; lia|discriminate].
  - destruct (starts_minus (dec_of_N hh)); [discriminate|reflexivity].
Qed.

(** ---- strftime %Y for four-digit years ---- *)
Definition year_ok (z : Z) : bool := text_eqb (dec_of_N (Z.to_N z)) (d4 (Z.to_N z)).
Lemma year_sweep : forall_from year_ok (Z.to_nat 9000) 1000 = true.
Proof. vm_cast_no_check (eq_refl true). Qed.
Lemma year_text y : 1000 <= y < 10000 -> dec_of_N y = d4 y.
Proof.
  intro H. pose proof (forall_from_spec _ _ _ year_sweep (Z.of_N y) ltac:(lia)) as S.
  unfold year_ok in S. rewrite N2Z.id in S. apply text_eqb_eq. exact S.
Qed.

(** ---- instants and field tuples ---- *)
Local Open Scope Z_scope.
Lemma valid_date_iff y m d :
  valid_date y m d = true <-> 1 <= y <= 9999 /\ 1 <= m <= 12 /\ 1 <= d <= days_in_month y m.
Proof. unfold valid_date. lia. Qed.
Lemma valid_fields_iff f : valid_fields f = true <->
  (1 <= f_y f <= 9999 /\ 1 <= f_mo f <= 12 /\ 1 <= f_d f <= days_in_month (f_y f) (f_mo f))
  /\ 0 <= f_h f < 24 /\ 0 <= f_mi f < 60 /\ 0 <= f_s f < 60 /\ 0 <= f_us f < 1000000.
Proof. unfold valid_fields. rewrite !andb_true_iff, valid_date_iff. lia. Qed.

Lemma dbm_table_bounds m : 0 <= dbm_table m <= 334.
Proof. unfold dbm_table. repeat match goal with |- context [if ?b then _ else _] => destruct b end; lia. Qed.

Lemma fields_of_us_of_fields f : valid_fields f = true -> fields_of_us (us_of_fields f) = f.
Proof.
  intro V. apply valid_fields_iff in V. destruct V as ((Y & M & D) & H & MI & S & U).
  destruct f as [y mo d h mi s us]. cbn [f_y f_mo f_d f_h f_mi f_s f_us] in *.
  unfold fields_of_us, us_of_fields, US_DAY. cbn [f_y f_mo f_d f_h f_mi f_s f_us].
  set (o := ymd2ord y mo d).
  replace ((((((o - 1) * 24 + h) * 60 + mi) * 60 + s) * 1000000 + us) / 86400000000) with (o - 1) by lia.
  replace ((((((o - 1) * 24 + h) * 60 + mi) * 60 + s) * 1000000 + us) mod 86400000000)
    with (((h * 60 + mi) * 60 + s) * 1000000 + us) by lia.
  replace (o - 1 + 1) with o by lia. unfold o. rewrite calendar_inverse_l by lia.
  f_equal; lia.
Qed.
Lemma us_of_fields_of_us t : 0 <= t ->
  us_of_fields (fields_of_us t) = t /\
  (t < MAXORDINAL * US_DAY -> valid_fields (fields_of_us t) = true).
Proof.
  intro T. unfold fields_of_us.
  pose proof (ord_inverse_l (t / US_DAY + 1) ltac:(unfold US_DAY; lia)) as O.
  destruct (ord2ymd (t / US_DAY + 1)) as [[y m] d] eqn:E. destruct O as (Y & M & D & EO).
  unfold us_of_fields. cbn [f_y f_mo f_d f_h f_mi f_s f_us]. rewrite EO. unfold US_DAY in *.
  split; [lia|]. intro Hlt. apply valid_fields_iff. cbn [f_y f_mo f_d f_h f_mi f_s f_us].
  assert (Y9 : y <= 9999).
  { destruct (Z_le_gt_dec y 9999) as [|G]; [assumption|exfalso].
    pose proof (dbm_table_bounds m) as B.
    assert (L : 3652060 <= ymd2ord y m d).
    { unfold ymd2ord, days_before_month, days_before_year. destruct ((2 <? m) && is_leap y); lia. }
    unfold MAXORDINAL in Hlt. lia. }
  lia.
Qed.
Lemma us_of_fields_civil f : 1 <= f_mo f <= 12 ->
  us_of_fields f = civil_us (f_y f) (f_mo f) (f_d f) (f_h f) (f_mi f) (f_s f) (f_us f).
Proof. intro M. unfold us_of_fields, civil_us, US_DAY. rewrite ymd2ord_is_days_from_civil_l by assumption. lia. Qed.

Lemma dt_add_us_ok f delta : valid_fields f = true ->
  0 <= us_of_fields f + delta < MAXORDINAL * US_DAY ->
  exists g, dt_add_us f delta = OK g /\ us_of_fields g = us_of_fields f + delta /\ valid_fields g = true.
Proof.
  intros V R. unfold dt_add_us.
  destruct ((0 <=? us_of_fields f + delta) && (us_of_fields f + delta <? MAXORDINAL * US_DAY)) eqn:E; [|lia].
  eexists. split; [reflexivity|]. destruct (us_of_fields_of_us (us_of_fields f + delta) ltac:(lia)) as [A B].
  split; [exact A | apply B; lia].
Qed.
