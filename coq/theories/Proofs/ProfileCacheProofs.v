(** Lemmas about Model/ProfileCache.v (C15): invariants of the REPAIRED cache protocol over unbounded event sequences (any number of
    calls, any interleaving of their atomic steps, a kill between any two steps, adversarial server), for any codec with
    [dec (enc p) = Some p]; refutations for the protocol as found (in-place write) and for the shared cache key. *)
From Coq Require Import List NArith Bool Lia Arith.
From OfxV Require Import Base.Prelude Model.ProfileCache.
Import ListNotations.
Local Open Scope N_scope.

(** ---------- names and the file system ---------- *)
Lemma optn_eqb_eq (a b : option N) : option_eqb N.eqb a b = true <-> a = b.
Proof.
  destruct a, b; cbn; try (split; [discriminate | discriminate]); [|tauto].
  rewrite N.eqb_eq. split; [intros ->; reflexivity | intros E; injection E; auto].
Qed.
Lemma ckey_eqb_eq (a b : ckey) : ckey_eqb a b = true <-> a = b.
Proof.
  destruct a as [o f], b as [o' f']. unfold ckey_eqb; cbn. rewrite andb_true_iff, !optn_eqb_eq.
  split; [intros [-> ->]; reflexivity | intros E; injection E; auto].
Qed.
Lemma fname_eqb_eq a b : fname_eqb a b = true <-> a = b.
Proof.
  destruct a, b; cbn; try (split; discriminate).
  - rewrite ckey_eqb_eq. split; [intros ->; reflexivity | intros E; injection E; auto].
  - rewrite Nat.eqb_eq. split; [intros ->; reflexivity | intros E; injection E; auto].
Qed.
Lemma fname_eqb_refl a : fname_eqb a a = true.
Proof. apply fname_eqb_eq; reflexivity. Qed.
Lemma fname_eqb_neq a b : a <> b -> fname_eqb a b = false.
Proof. intros H. destruct (fname_eqb a b) eqn:E; [apply fname_eqb_eq in E; contradiction | reflexivity]. Qed.

Lemma fs_get_del_eq f n : fs_get (fs_del f n) n = None.
Proof.
  induction f as [|[m c] r IH]; cbn; [reflexivity|].
  destruct (fname_eqb m n) eqn:E; [exact IH|]. cbn. rewrite E. exact IH.
Qed.
Lemma fs_get_del_neq f n m : n <> m -> fs_get (fs_del f n) m = fs_get f m.
Proof.
  intros H. induction f as [|[k c] r IH]; cbn; [reflexivity|].
  destruct (fname_eqb k n) eqn:E.
  - apply fname_eqb_eq in E; subst k. rewrite (fname_eqb_neq _ _ H). exact IH.
  - cbn. destruct (fname_eqb k m); [reflexivity | exact IH].
Qed.
Lemma fs_get_set_eq f n c : fs_get (fs_set f n c) n = Some c.
Proof. unfold fs_set; cbn. rewrite fname_eqb_refl. reflexivity. Qed.
Lemma fs_get_set_neq f n c m : n <> m -> fs_get (fs_set f n c) m = fs_get f m.
Proof. intros H. unfold fs_set; cbn. rewrite (fname_eqb_neq _ _ H). apply fs_get_del_neq; exact H. Qed.

Lemma nth_error_set_nth_eq {A} (l : list A) k x y : nth_error l k = Some y -> nth_error (set_nth l k x) k = Some x.
Proof. revert k; induction l as [|a l IH]; intros [|k]; cbn; try discriminate; auto. Qed.
Lemma nth_error_set_nth_neq {A} (l : list A) k k' x : k <> k' -> nth_error (set_nth l k x) k' = nth_error l k'.
Proof. revert k k'; induction l as [|a l IH]; intros [|k] [|k'] H; cbn; auto; try congruence. Qed.
Lemma set_nth_length {A} (l : list A) k x : List.length (set_nth l k x) = List.length l.
Proof. revert k; induction l as [|a l IH]; intros [|k]; cbn; auto. Qed.

Section Proofs.
  Variable enc : profile -> bytes.
  Variable dec : bytes -> option profile.
  Hypothesis dec_enc : forall p, dec (enc p) = Some p.

  Notation tstep := (tstep enc dec).
  Notation exec := (exec enc dec).
  Notation run := (run enc dec).

  (** ================= the invariant of the repaired protocol ================= *)
  (** [cfgs]: the configurations calls are ever made with.  What a cache file holds was delivered by the server of SOME
      configuration with that key (its writer's). *)
  Definition sent_to_key (cfgs : list cfg) (sent : list (N * profile)) (k : ckey) (p : profile) : Prop :=
    exists c0, In c0 cfgs /\ key_of c0 = k /\ In (c_url c0, p) sent.

  Definition thread_ok (cfgs : list cfg) (f : fs) (sent : list (N * profile)) (i : nat) (c : cfg) (t : tstate) : Prop :=
    In c cfgs /\
    match t with
    | TStart | TRead | TNet None | TDone (Err _) | TKilled => True
    | TNet (Some p) => sent_to_key cfgs sent (key_of c) p
    | TAcc p | TW1 p | TW2 p => In (c_url c, p) sent
    | TW3 p | TW4 p | TW5 p => In (c_url c, p) sent /\ fs_get f (FTmp i) = Some (enc p)
    | TO1 p | TO2 p => False                     (* states of the old protocol: unreachable *)
    | TDone (OK p) => sent_to_key cfgs sent (key_of c) p
    end.
  Definition cache_ok (cfgs : list cfg) (f : fs) (sent : list (N * profile)) : Prop :=
    forall k content, fs_get f (FCache k) = Some content -> exists p, content = enc p /\ sent_to_key cfgs sent k p.

  Definition inv (cfgs : list cfg) (st : state) : Prop :=
    cache_ok cfgs (s_fs st) (s_sent st)
    /\ (forall i c t, nth_error (s_threads st) i = Some (c, t) -> thread_ok cfgs (s_fs st) (s_sent st) i c t).

  Definition ok_event (cfgs : list cfg) (e : event) : Prop := match e with ESpawn c => In c cfgs | _ => True end.

  Lemma sent_to_key_mono cfgs sent more k p : sent_to_key cfgs sent k p -> sent_to_key cfgs (sent ++ more) k p.
  Proof. intros (c0 & A & B & D). exists c0. repeat split; auto. apply in_or_app; left; exact D. Qed.

  Lemma inv_init cfgs : inv cfgs init.
  Proof. split; [intros k content H; discriminate | intros [|i] c t H; discriminate]. Qed.

  Lemma cache_ok_frame cfgs f f' sent more :
    (forall k, fs_get f' (FCache k) = fs_get f (FCache k)) -> cache_ok cfgs f sent -> cache_ok cfgs f' (sent ++ more).
  Proof.
    intros Hf H k content Hg. rewrite Hf in Hg. destruct (H _ _ Hg) as (p & E & S). exists p. split; [exact E | apply sent_to_key_mono; exact S].
  Qed.
  Lemma thread_ok_frame cfgs f f' sent more j c t :
    fs_get f' (FTmp j) = fs_get f (FTmp j) -> thread_ok cfgs f sent j c t -> thread_ok cfgs f' (sent ++ more) j c t.
  Proof.
    intros Hf (Hc & H). split; [exact Hc|].
    destruct t as [| |[p|]|p|p|p|p|p|p|p|p|[p|e]|]; cbn in *; auto;
      try (apply sent_to_key_mono; exact H); try (apply in_or_app; left; exact H);
      try (destruct H as (A & B); split; [apply in_or_app; left; exact A | rewrite Hf; exact B]).
  Qed.

  (** one step of call [i] in the repaired protocol: what it does to the files, and that it keeps everything in order *)
  Lemma tstep_inv cfgs i c b f t sent :
    cache_ok cfgs f sent -> thread_ok cfgs f sent i c t ->
    let '(f', t', nm, more, asked) := tstep PNew i c b f t in
    cache_ok cfgs f' (sent ++ more)
    /\ thread_ok cfgs f' (sent ++ more) i c t'
    /\ (forall j, j <> i -> fs_get f' (FTmp j) = fs_get f (FTmp j)).
  Proof.
    intros Hc (Hin & Ht).
    assert (Hsame : forall more, cache_ok cfgs f (sent ++ more)) by (intros more; apply (cache_ok_frame cfgs f f); auto).
    assert (Htmp : forall x more, cache_ok cfgs (fs_set f (FTmp i) x) (sent ++ more))
      by (intros x more; apply (cache_ok_frame cfgs f); auto; intros k; apply fs_get_set_neq; discriminate).
    assert (Hoth : forall x j, j <> i -> fs_get (fs_set f (FTmp i) x) (FTmp j) = fs_get f (FTmp j))
      by (intros x j Hj; apply fs_get_set_neq; intros E; injection E; auto).
    destruct t as [| |held|p|p|p|p|p|p|p|p|r|]; cbn [tstep ProfileCache.tstep].
    - (* TStart *) split; [apply Hsame|]. split; [|auto]. split; [exact Hin|]. destruct (fs_get f (FCache (key_of c))); exact I.
    - (* TRead *) split; [apply Hsame|]. split; [|auto]. split; [exact Hin|].
      destruct (fs_get f (FCache (key_of c))) as [content|] eqn:G; [|exact I].
      destruct (Hc _ _ G) as (p & -> & S). rewrite dec_enc. cbn. apply sent_to_key_mono; exact S.
    - (* TNet *) split; [apply Hsame|]. split; [|auto]. split; [exact Hin|].
      destruct b as [p| | | |]; cbn [decide].
      + destruct held as [h|]; [destruct (p_date h <=? p_date p)|]; cbn; auto; apply in_or_app; right; left; reflexivity.
      + destruct held as [h|]; cbn; [apply sent_to_key_mono; exact Ht | exact I].
      + exact I.
      + exact I.
      + exact I.
    - (* TAcc *) split; [apply Htmp|]. split; [|apply Hoth]. split; [exact Hin|]. cbn. apply in_or_app; left; exact Ht.
    - (* TW1 *) split; [apply Hsame|]. split; [|auto]. split; [exact Hin|]. cbn. apply in_or_app; left; exact Ht.
    - (* TW2 *) split; [apply Htmp|]. split; [|apply Hoth]. split; [exact Hin|]. split; [apply in_or_app; left; exact Ht | apply fs_get_set_eq].
    - (* TW3 *) split; [apply Hsame|]. split; [|auto]. split; [exact Hin|]. cbn. destruct Ht; split; [apply in_or_app; left|]; auto.
    - (* TW4 *) split; [apply Hsame|]. split; [|auto]. split; [exact Hin|]. cbn. destruct Ht; split; [apply in_or_app; left|]; auto.
    - (* TW5 *) destruct Ht as (Hs & Hg). rewrite Hg. rewrite app_nil_r.
      split; [|split].
      + intros k content G. destruct (ckey_eqb (key_of c) k) eqn:E.
        * apply ckey_eqb_eq in E; subst k. rewrite fs_get_set_eq in G. injection G as <-.
          exists p. split; [reflexivity|]. exists c. auto.
        * assert (key_of c <> k) by (intros X; subst k; rewrite (proj2 (ckey_eqb_eq _ _) eq_refl) in E; discriminate).
          rewrite fs_get_set_neq in G by (intros X; injection X; auto).
          rewrite fs_get_del_neq in G by discriminate. exact (Hc _ _ G).
      + split; [exact Hin|]. cbn. exists c. auto.
      + intros j Hj. rewrite fs_get_set_neq by discriminate. apply fs_get_del_neq. intros X; injection X; auto.
    - destruct Ht.
    - destruct Ht.
    - (* TDone *) split; [apply Hsame|]. split; [|auto]. split; [exact Hin|]. destruct r as [p|e]; cbn; [apply sent_to_key_mono; exact Ht | exact I].
    - split; [apply Hsame|]. split; [|auto]. split; [exact Hin|]. exact I.
  Qed.

  Lemma inv_exec cfgs st e : inv cfgs st -> ok_event cfgs e -> inv cfgs (fst (exec PNew st e)).
  Proof.
    intros (Hc & Ht) He. destruct e as [i b|i|c]; cbn [exec ProfileCache.exec].
    - destruct (nth_error (s_threads st) i) as [[c t]|] eqn:Hn; [|split; assumption].
      pose proof (tstep_inv cfgs i c b (s_fs st) t (s_sent st) Hc (Ht _ _ _ Hn)) as S.
      destruct (tstep PNew i c b (s_fs st) t) as [[[[f' t'] nm] more] asked]. destruct S as (Hc' & Hti & Hoth). cbn.
      split; [exact Hc'|]. intros j cj tj Hj. cbn [s_threads s_fs s_sent] in *.
      destruct (Nat.eq_dec i j) as [<-|Hne].
      + rewrite (nth_error_set_nth_eq _ _ _ _ Hn) in Hj. injection Hj as <- <-. exact Hti.
      + rewrite nth_error_set_nth_neq in Hj by exact Hne. apply thread_ok_frame with (f := s_fs st); [apply Hoth; auto | exact (Ht _ _ _ Hj)].
    - destruct (nth_error (s_threads st) i) as [[c t]|] eqn:Hn; [|split; assumption].
      assert (Hk : inv cfgs (St (s_fs st) (set_nth (s_threads st) i (c, TKilled)) (s_sent st) (s_asked st))).
      { split; [exact Hc|]. cbn. intros j cj tj Hj. destruct (Nat.eq_dec i j) as [<-|Hne].
        - rewrite (nth_error_set_nth_eq _ _ _ _ Hn) in Hj. injection Hj as <- <-. split; [exact (proj1 (Ht _ _ _ Hn)) | exact I].
        - rewrite nth_error_set_nth_neq in Hj by exact Hne. exact (Ht _ _ _ Hj). }
      destruct t; try exact Hk. split; assumption.
    - cbn. split; [exact Hc|]. intros j cj tj Hj. cbn [s_threads s_fs s_sent] in *.
      destruct (Nat.lt_ge_cases j (List.length (s_threads st))) as [Hlt|Hge].
      + rewrite nth_error_app1 in Hj by exact Hlt. exact (Ht _ _ _ Hj).
      + rewrite nth_error_app2 in Hj by exact Hge. destruct (j - List.length (s_threads st))%nat as [|m]; cbn in Hj.
        * injection Hj as <- <-. split; [exact He | exact I].
        * destruct m; discriminate.
  Qed.

  Lemma inv_run cfgs es : forall st, inv cfgs st -> Forall (ok_event cfgs) es -> inv cfgs (run PNew st es).
  Proof.
    induction es as [|e r IH]; intros st Hi Hf; cbn; [exact Hi|].
    inversion Hf; subst. apply IH; [apply inv_exec; assumption | assumption].
  Qed.

  Definition spawned (es : list event) : list cfg := flat_map (fun e => match e with ESpawn c => [c] | _ => [] end) es.
  Lemma spawned_ok es : forall cfgs, incl (spawned es) cfgs -> Forall (ok_event cfgs) es.
  Proof.
    induction es as [|e r IH]; intros cfgs H; constructor.
    - destruct e; cbn; auto; try (apply H; left; reflexivity).
    - apply IH. intros x Hx. apply H. destruct e; cbn; auto.
  Qed.
  Lemma reachable_inv es : inv (spawned es) (run PNew init es).
  Proof. apply inv_run; [apply inv_init | apply spawned_ok; apply incl_refl]. Qed.

  (** ================= cache_always_whole ================= *)
  Lemma cache_always_whole_l es k content :
    fs_get (s_fs (run PNew init es)) (FCache k) = Some content ->
    exists u p, In (u, p) (s_sent (run PNew init es)) /\ content = enc p.
  Proof.
    intros H. destruct (reachable_inv es) as (Hc & _). destruct (Hc _ _ H) as (p & E & c0 & _ & _ & Hs).
    exists (c_url c0), p. auto.
  Qed.
End Proofs.
