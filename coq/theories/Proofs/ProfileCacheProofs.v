(** Lemmas about Model/ProfileCache.v (C15): invariants of the REPAIRED cache protocol over unbounded event sequences (any number of
    calls, any interleaving of their atomic steps, a kill between any two steps, adversarial server), for any codec with
    [dec (enc p) = Some p]; refutations for the protocol as found (in-place write) and for the shared cache key. *)
From Coq Require Import List NArith Bool Lia Arith.
From OfxV Require Import Base.Prelude Model.ProfileCache.
Import ListNotations.
Local Open Scope N_scope.

(** ---------- names and the file system ---------- *)
Lemma optn_eqb_eq (a b : option N) : option_eqb N.eqb a b = true <-> a = b.
Proof.
  destruct a, b; cbn; try (split; [discriminate | discriminate]); [|tauto].
  rewrite N.eqb_eq. split; [intros ->; reflexivity | intros E; injection E; auto].
Qed.
Lemma ckey_eqb_eq (a b : ckey) : ckey_eqb a b = true <-> a = b.
Proof.
  destruct a as [o f], b as [o' f']. unfold ckey_eqb; cbn. rewrite andb_true_iff, !optn_eqb_eq.
  split; [intros [-> ->]; reflexivity | intros E; injection E; auto].
Qed.
Lemma fname_eqb_eq a b : fname_eqb a b = true <-> a = b.
Proof.
  destruct a, b; cbn; try (split; discriminate).
  - rewrite ckey_eqb_eq. split; [intros ->; reflexivity | intros E; injection E; auto].
  - rewrite Nat.eqb_eq. split; [intros ->; reflexivity | intros E; injection E; auto].
Qed.
Lemma fname_eqb_refl a : fname_eqb a a = true.
Proof. apply fname_eqb_eq; reflexivity. Qed.
Lemma fname_eqb_neq a b : a <> b -> fname_eqb a b = false.
Proof. intros H. destruct (fname_eqb a b) eqn:E; [apply fname_eqb_eq in E; contradiction | reflexivity]. Qed.

Lemma fs_get_del_eq f n : fs_get (fs_del f n) n = None.
Proof.
  induction f as [|[m c] r IH]; cbn; [reflexivity|].
  destruct (fname_eqb m n) eqn:E; [exact IH|]. cbn. rewrite E. exact IH.
Qed.
Lemma fs_get_del_neq f n m : n <> m -> fs_get (fs_del f n) m = fs_get f m.
Proof.
  intros H. induction f as [|[k c] r IH]; cbn; [reflexivity|].
  destruct (fname_eqb k n) eqn:E.
  - apply fname_eqb_eq in E; subst k. rewrite (fname_eqb_neq _ _ H). exact IH.
  - cbn. destruct (fname_eqb k m); [reflexivity | exact IH].
Qed.
Lemma fs_get_set_eq f n c : fs_get (fs_set f n c) n = Some c.
Proof. unfold fs_set; cbn. rewrite fname_eqb_refl. reflexivity. Qed.
Lemma fs_get_set_neq f n c m : n <> m -> fs_get (fs_set f n c) m = fs_get f m.
Proof. intros H. unfold fs_set; cbn. rewrite (fname_eqb_neq _ _ H). apply fs_get_del_neq; exact H. Qed.

Lemma nth_error_set_nth_eq {A} (l : list A) k x y : nth_error l k = Some y -> nth_error (set_nth l k x) k = Some x.
Proof. revert k; induction l as [|a l IH]; intros [|k]; cbn; try discriminate; auto. Qed.
Lemma nth_error_set_nth_neq {A} (l : list A) k k' x : k <> k' -> nth_error (set_nth l k x) k' = nth_error l k'.
Proof. revert k k'; induction l as [|a l IH]; intros [|k] [|k'] H; cbn; auto; try congruence. Qed.
Lemma set_nth_length {A} (l : list A) k x : List.length (set_nth l k x) = List.length l.
Proof. revert k; induction l as [|a l IH]; intros [|k]; cbn; auto. Qed.

Section Proofs.
  Variable enc : profile -> bytes.
  Variable dec : bytes -> option profile.
  Hypothesis dec_enc : forall p, dec (enc p) = Some p.

  Notation tstep := (tstep enc dec).
  Notation exec := (exec enc dec).
  Notation run := (run enc dec).

  (** ================= the invariant of the repaired protocol ================= *)
  (** [cfgs]: the configurations calls are ever made with.  What a cache file holds was delivered by the server of SOME
      configuration with that key (its writer's). *)
  Definition sent_to_key (cfgs : list cfg) (sent : list (N * profile)) (k : ckey) (p : profile) : Prop :=
    exists c0, In c0 cfgs /\ key_of c0 = k /\ In (c_url c0, p) sent.

  Definition thread_ok (cfgs : list cfg) (f : fs) (sent : list (N * profile)) (i : nat) (c : cfg) (t : tstate) : Prop :=
    In c cfgs /\
    match t with
    | TStart | TRead | TNet None | TDone (Err _) | TKilled => True
    | TNet (Some p) => sent_to_key cfgs sent (key_of c) p
    | TAcc p | TW1 p | TW2 p => In (c_url c, p) sent
    | TW3 p | TW4 p | TW5 p => In (c_url c, p) sent /\ fs_get f (FTmp i) = Some (enc p)
    | TO1 p | TO2 p => False                     (* states of the old protocol: unreachable *)
    | TDone (OK p) => sent_to_key cfgs sent (key_of c) p
    end.
  Definition cache_ok (cfgs : list cfg) (f : fs) (sent : list (N * profile)) : Prop :=
    forall k content, fs_get f (FCache k) = Some content -> exists p, content = enc p /\ sent_to_key cfgs sent k p.

  Definition inv (cfgs : list cfg) (st : state) : Prop :=
    cache_ok cfgs (s_fs st) (s_sent st)
    /\ (forall i c t, nth_error (s_threads st) i = Some (c, t) -> thread_ok cfgs (s_fs st) (s_sent st) i c t).

  Definition ok_event (cfgs : list cfg) (e : event) : Prop := match e with ESpawn c => In c cfgs | _ => True end.

  Lemma sent_to_key_mono cfgs sent more k p : sent_to_key cfgs sent k p -> sent_to_key cfgs (sent ++ more) k p.
  Proof. intros (c0 & A & B & D). exists c0. repeat split; auto. apply in_or_app; left; exact D. Qed.

  Lemma inv_init cfgs : inv cfgs init.
  Proof. split; [intros k content H; discriminate | intros [|i] c t H; discriminate]. Qed.

  Lemma cache_ok_frame cfgs f f' sent more :
    (forall k, fs_get f' (FCache k) = fs_get f (FCache k)) -> cache_ok cfgs f sent -> cache_ok cfgs f' (sent ++ more).
  Proof.
    intros Hf H k content Hg. rewrite Hf in Hg. destruct (H _ _ Hg) as (p & E & S). exists p. split; [exact E | apply sent_to_key_mono; exact S].
  Qed.
  Lemma thread_ok_frame cfgs f f' sent more j c t :
    fs_get f' (FTmp j) = fs_get f (FTmp j) -> thread_ok cfgs f sent j c t -> thread_ok cfgs f' (sent ++ more) j c t.
  Proof.
    intros Hf (Hc & H). split; [exact Hc|].
    destruct t as [| |[p|]|p|p|p|p|p|p|p|p|[p|e]|]; cbn in *; auto;
      try (apply sent_to_key_mono; exact H); try (apply in_or_app; left; exact H);
      try (destruct H as (A & B); split; [apply in_or_app; left; exact A | rewrite Hf; exact B]).
  Qed.

  (** one step of call [i] in the repaired protocol: what it does to the files, and that it keeps everything in order *)
  Lemma tstep_inv cfgs i c b f t sent :
    cache_ok cfgs f sent -> thread_ok cfgs f sent i c t ->
    let '(f', t', nm, more, asked) := tstep PNew i c b f t in
    cache_ok cfgs f' (sent ++ more)
    /\ thread_ok cfgs f' (sent ++ more) i c t'
    /\ (forall j, j <> i -> fs_get f' (FTmp j) = fs_get f (FTmp j)).
  Proof.
    intros Hc (Hin & Ht).
    assert (Hsame : forall more, cache_ok cfgs f (sent ++ more)) by (intros more; apply (cache_ok_frame cfgs f f); auto).
    assert (Htmp : forall x more, cache_ok cfgs (fs_set f (FTmp i) x) (sent ++ more))
      by (intros x more; apply (cache_ok_frame cfgs f); auto; intros k; apply fs_get_set_neq; discriminate).
    assert (Hoth : forall x j, j <> i -> fs_get (fs_set f (FTmp i) x) (FTmp j) = fs_get f (FTmp j))
      by (intros x j Hj; apply fs_get_set_neq; intros E; injection E; auto).
    destruct t as [| |held|p|p|p|p|p|p|p|p|r|]; cbn [tstep ProfileCache.tstep].
    - (* TStart *) split; [apply Hsame|]. split; [|auto]. split; [exact Hin|]. destruct (fs_get f (FCache (key_of c))); exact I.
    - (* TRead *) split; [apply Hsame|]. split; [|auto]. split; [exact Hin|].
      destruct (fs_get f (FCache (key_of c))) as [content|] eqn:G; [|exact I].
      destruct (Hc _ _ G) as (p & -> & S). rewrite dec_enc. cbn. apply sent_to_key_mono; exact S.
    - (* TNet *) split; [apply Hsame|]. split; [|auto]. split; [exact Hin|].
      destruct b as [p| | | |]; cbn [decide].
      + destruct held as [h|]; [destruct (p_date h <=? p_date p)|]; cbn; auto; apply in_or_app; right; left; reflexivity.
      + destruct held as [h|]; cbn; [apply sent_to_key_mono; exact Ht | exact I].
      + exact I.
      + exact I.
      + exact I.
    - (* TAcc *) split; [apply Htmp|]. split; [|apply Hoth]. split; [exact Hin|]. cbn. apply in_or_app; left; exact Ht.
    - (* TW1 *) split; [apply Hsame|]. split; [|auto]. split; [exact Hin|]. cbn. apply in_or_app; left; exact Ht.
    - (* TW2 *) split; [apply Htmp|]. split; [|apply Hoth]. split; [exact Hin|]. split; [apply in_or_app; left; exact Ht | apply fs_get_set_eq].
    - (* TW3 *) split; [apply Hsame|]. split; [|auto]. split; [exact Hin|]. cbn. destruct Ht; split; [apply in_or_app; left|]; auto.
    - (* TW4 *) split; [apply Hsame|]. split; [|auto]. split; [exact Hin|]. cbn. destruct Ht; split; [apply in_or_app; left|]; auto.
    - (* TW5 *) destruct Ht as (Hs & Hg). rewrite Hg. rewrite app_nil_r.
      split; [|split].
      + intros k content G. destruct (ckey_eqb (key_of c) k) eqn:E.
        * apply ckey_eqb_eq in E; subst k. rewrite fs_get_set_eq in G. injection G as <-.
          exists p. split; [reflexivity|]. exists c. auto.
        * assert (key_of c <> k) by (intros X; subst k; rewrite (proj2 (ckey_eqb_eq _ _) eq_refl) in E; discriminate).
          rewrite fs_get_set_neq in G by (intros X; injection X; auto).
          rewrite fs_get_del_neq in G by discriminate. exact (Hc _ _ G).
      + split; [exact Hin|]. cbn. exists c. auto.
      + intros j Hj. rewrite fs_get_set_neq by discriminate. apply fs_get_del_neq. intros X; injection X; auto.
    - destruct Ht.
    - destruct Ht.
    - (* TDone *) split; [apply Hsame|]. split; [|auto]. split; [exact Hin|]. destruct r as [p|e]; cbn; [apply sent_to_key_mono; exact Ht | exact I].
    - split; [apply Hsame|]. split; [|auto]. split; [exact Hin|]. exact I.
  Qed.

  Lemma inv_exec cfgs st e : inv cfgs st -> ok_event cfgs e -> inv cfgs (fst (exec PNew st e)).
  Proof.
    intros (Hc & Ht) He. destruct e as [i b|i|c]; cbn [exec ProfileCache.exec].
    - destruct (nth_error (s_threads st) i) as [[c t]|] eqn:Hn; [|split; assumption].
      pose proof (tstep_inv cfgs i c b (s_fs st) t (s_sent st) Hc (Ht _ _ _ Hn)) as S.
      destruct (tstep PNew i c b (s_fs st) t) as [[[[f' t'] nm] more] asked]. destruct S as (Hc' & Hti & Hoth). cbn.
      split; [exact Hc'|]. intros j cj tj Hj. cbn [s_threads s_fs s_sent] in *.
      destruct (Nat.eq_dec i j) as [<-|Hne].
      + rewrite (nth_error_set_nth_eq _ _ _ _ Hn) in Hj. injection Hj as <- <-. exact Hti.
      + rewrite nth_error_set_nth_neq in Hj by exact Hne. apply thread_ok_frame with (f := s_fs st); [apply Hoth; auto | exact (Ht _ _ _ Hj)].
    - destruct (nth_error (s_threads st) i) as [[c t]|] eqn:Hn; [|split; assumption].
      assert (Hk : inv cfgs (St (s_fs st) (set_nth (s_threads st) i (c, TKilled)) (s_sent st) (s_asked st))).
      { split; [exact Hc|]. cbn. intros j cj tj Hj. destruct (Nat.eq_dec i j) as [<-|Hne].
        - rewrite (nth_error_set_nth_eq _ _ _ _ Hn) in Hj. injection Hj as <- <-. split; [exact (proj1 (Ht _ _ _ Hn)) | exact I].
        - rewrite nth_error_set_nth_neq in Hj by exact Hne. exact (Ht _ _ _ Hj). }
      destruct t; try exact Hk. split; assumption.
    - cbn. split; [exact Hc|]. intros j cj tj Hj. cbn [s_threads s_fs s_sent] in *.
      destruct (Nat.lt_ge_cases j (List.length (s_threads st))) as [Hlt|Hge].
      + rewrite nth_error_app1 in Hj by exact Hlt. exact (Ht _ _ _ Hj).
      + rewrite nth_error_app2 in Hj by exact Hge. destruct (j - List.length (s_threads st))%nat as [|m]; cbn in Hj.
        * injection Hj as <- <-. split; [exact He | exact I].
        * destruct m; discriminate.
  Qed.

  Lemma inv_run cfgs es : forall st, inv cfgs st -> Forall (ok_event cfgs) es -> inv cfgs (run PNew st es).
  Proof.
    induction es as [|e r IH]; intros st Hi Hf; cbn; [exact Hi|].
    inversion Hf; subst. apply IH; [apply inv_exec; assumption | assumption].
  Qed.

  Definition spawned (es : list event) : list cfg := flat_map (fun e => match e with ESpawn c => [c] | _ => [] end) es.
  Lemma spawned_ok es : forall cfgs, incl (spawned es) cfgs -> Forall (ok_event cfgs) es.
  Proof.
    induction es as [|e r IH]; intros cfgs H; constructor.
    - destruct e; cbn; auto; try (apply H; left; reflexivity).
    - apply IH. intros x Hx. apply H. destruct e; cbn; auto.
  Qed.
  Lemma reachable_inv es : inv (spawned es) (run PNew init es).
  Proof. apply inv_run; [apply inv_init | apply spawned_ok; apply incl_refl]. Qed.

  (** ================= cache_always_whole ================= *)
  Lemma cache_always_whole_l es k content :
    fs_get (s_fs (run PNew init es)) (FCache k) = Some content ->
    exists u p, In (u, p) (s_sent (run PNew init es)) /\ content = enc p.
  Proof.
    intros H. destruct (reachable_inv es) as (Hc & _). destruct (Hc _ _ H) as (p & E & c0 & _ & _ & Hs).
    exists (c_url c0), p. auto.
  Qed.
End Proofs.

(** ================= one call alone; sequential histories; provenance; refutations ================= *)
Lemma set_nth_app_last {A} (l : list A) x y : set_nth (l ++ [x]) (List.length l) y = (l ++ [y])%list.
Proof. induction l as [|a l IH]; cbn; [reflexivity | rewrite IH; reflexivity]. Qed.
Lemma nth_error_app_last {A} (l : list A) x : nth_error (l ++ [x]) (List.length l) = Some x.
Proof. induction l as [|a l IH]; cbn; auto. Qed.

Section Proofs2.
  Variable enc : profile -> bytes.
  Variable dec : bytes -> option profile.
  Hypothesis dec_enc : forall p, dec (enc p) = Some p.

  (** a call running alone: only its own entry of the thread table moves *)
  Definition lstate := (fs * tstate * list (N * profile) * list (nat * option N))%type.
  Definition lstep (pr : proto) (i : nat) (c : cfg) (b : behaviour) (s : lstate) : lstate :=
    let '(f, t, sent, asked) := s in
    let '(f', t', _, more, ask) := tstep enc dec pr i c b f t in (f', t', (sent ++ more)%list, (asked ++ ask)%list).
  Fixpoint literate (pr : proto) (i : nat) (c : cfg) (b : behaviour) (n : nat) (s : lstate) : lstate :=
    match n with O => s | S n' => literate pr i c b n' (lstep pr i c b s) end.
  Definition embed (ths : list (cfg * tstate)) (c : cfg) (s : lstate) : state :=
    let '(f, t, sent, asked) := s in St f (ths ++ [(c, t)]) sent asked.

  Lemma solo_last pr ths c b : forall n s,
    solo enc dec pr n (embed ths c s) (List.length ths) b = embed ths c (literate pr (List.length ths) c b n s).
  Proof.
    induction n as [|n IH]; intros [[[f t] sent] asked]; [reflexivity|].
    cbn [solo literate]. rewrite <- IH. f_equal.
    cbn [embed exec fst s_threads]. rewrite nth_error_app_last. cbn [lstep s_fs s_sent s_asked].
    destruct (tstep enc dec pr (List.length ths) c b f t) as [[[[f' t'] nm] more] ask]. cbn.
    rewrite set_nth_app_last. reflexivity.
  Qed.
  Lemma call_last pr st c b :
    call enc dec pr st c b = embed (s_threads st) c (literate pr (List.length (s_threads st)) c b solo_steps (s_fs st, TStart, s_sent st, s_asked st)).
  Proof. unfold call. rewrite <- solo_last. reflexivity. Qed.

  (** request_profile as a function of what it holds and what the server answers (repaired protocol) *)
  Definition outcome (held : option profile) (b : behaviour) : option profile * result profile :=
    match decide held b with
    | TAcc p => (Some p, OK p)
    | TDone r => (held, r)
    | _ => (held, Err Crash)
    end.
  Definition sent_by (c : cfg) (b : behaviour) : list (N * profile) := match b with BProfile p => [(c_url c, p)] | _ => [] end.

  Lemma call_spec st c b held :
    fs_get (s_fs st) (FCache (key_of c)) = option_map enc held ->
    let i := List.length (s_threads st) in
    let st' := call enc dec PNew st c b in
    result_of st' i = Some (snd (outcome held b))
    /\ fs_get (s_fs st') (FCache (key_of c)) = option_map enc (fst (outcome held b))
    /\ (forall m, m <> FCache (key_of c) -> m <> FTmp i -> fs_get (s_fs st') m = fs_get (s_fs st) m)
    /\ (is_ok (snd (outcome held b)) = false -> s_fs st' = s_fs st)
    /\ s_sent st' = (s_sent st ++ sent_by c b)%list
    /\ s_asked st' = (s_asked st ++ [(i, option_map p_date held)])%list
    /\ (forall j, j <> i -> nth_error (s_threads st') j = nth_error (s_threads st) j).
  Proof.
    intros Hg i st'. subst st'. rewrite call_last. fold i. unfold solo_steps.
    assert (Hthreads : forall f t se a j, j <> i -> nth_error (s_threads (St f (s_threads st ++ [(c, t)]) se a)) j = nth_error (s_threads st) j).
    { intros f t se a j Hj. cbn. destruct (Nat.lt_ge_cases j i) as [Hl|Hge].
      - rewrite nth_error_app1; auto.
      - rewrite (proj2 (nth_error_None _ _) Hge). apply nth_error_None. rewrite app_length; cbn. unfold i in *. lia. }
    assert (Hres : forall s, result_of (embed (s_threads st) c s) i = match snd (fst (fst s)) with TDone r => Some r | _ => None end).
    { intros [[[f t] se] a]. unfold result_of; cbn. unfold i. rewrite nth_error_app_last. reflexivity. }
    unfold outcome.
    destruct held as [h|]; cbn [option_map] in Hg.
    - (* a profile is cached *)
      cbn [literate lstep tstep]. rewrite Hg. cbn [literate lstep tstep]. rewrite Hg, dec_enc. cbn [literate lstep tstep].
      destruct b as [p| | | |]; cbn [decide].
      + destruct (p_date h <=? p_date p) eqn:Hd.
        * cbn [literate lstep tstep]. rewrite !fs_get_set_eq. cbn [literate lstep tstep].
          rewrite Hres. cbn [fst snd embed s_fs s_sent s_asked]. rewrite !app_nil_r. rewrite <- ?app_assoc; cbn [app].
          split; [reflexivity|]. split; [apply fs_get_set_eq|].
          split; [intros m Hm1 Hm2; rewrite fs_get_set_neq by congruence; rewrite fs_get_del_neq by congruence;
                  rewrite !fs_get_set_neq by congruence; reflexivity|].
          split; [discriminate|]. split; [reflexivity|]. split; [reflexivity|]. apply Hthreads.
        * cbn [literate lstep tstep]. rewrite Hres. cbn [fst snd embed s_fs s_sent s_asked]. rewrite !app_nil_r. rewrite <- ?app_assoc; cbn [app].
          repeat split; auto; try apply Hthreads.
      + cbn [literate lstep tstep]. rewrite Hres. cbn [fst snd embed s_fs s_sent s_asked]. rewrite !app_nil_r.
        repeat split; auto; try apply Hthreads.
      + cbn [literate lstep tstep]. rewrite Hres. cbn [fst snd embed s_fs s_sent s_asked]. rewrite !app_nil_r.
        repeat split; auto; try apply Hthreads.
      + cbn [literate lstep tstep]. rewrite Hres. cbn [fst snd embed s_fs s_sent s_asked]. rewrite !app_nil_r.
        repeat split; auto; try apply Hthreads.
      + cbn [literate lstep tstep]. rewrite Hres. cbn [fst snd embed s_fs s_sent s_asked]. rewrite !app_nil_r.
        repeat split; auto; try apply Hthreads.
    - (* nothing cached *)
      cbn [literate lstep tstep]. rewrite Hg. cbn [literate lstep tstep].
      destruct b as [p| | | |]; cbn [decide].
      + cbn [literate lstep tstep]. rewrite !fs_get_set_eq. cbn [literate lstep tstep].
        rewrite Hres. cbn [fst snd embed s_fs s_sent s_asked]. rewrite !app_nil_r. rewrite <- ?app_assoc; cbn [app].
        split; [reflexivity|]. split; [apply fs_get_set_eq|].
        split; [intros m Hm1 Hm2; rewrite fs_get_set_neq by congruence; rewrite fs_get_del_neq by congruence;
                rewrite !fs_get_set_neq by congruence; reflexivity|].
        split; [discriminate|]. split; [reflexivity|]. split; [reflexivity|]. apply Hthreads.
      + cbn [literate lstep tstep]. rewrite Hres. cbn [fst snd embed s_fs s_sent s_asked]. rewrite !app_nil_r.
        repeat split; auto; try apply Hthreads.
      + cbn [literate lstep tstep]. rewrite Hres. cbn [fst snd embed s_fs s_sent s_asked]. rewrite !app_nil_r.
        repeat split; auto; try apply Hthreads.
      + cbn [literate lstep tstep]. rewrite Hres. cbn [fst snd embed s_fs s_sent s_asked]. rewrite !app_nil_r.
        repeat split; auto; try apply Hthreads.
      + cbn [literate lstep tstep]. rewrite Hres. cbn [fst snd embed s_fs s_sent s_asked]. rewrite !app_nil_r.
        repeat split; auto; try apply Hthreads.
  Qed.

  (** ================= later_request_never_poisoned ================= *)
  (** a server that answers a request sensibly: "up to date" only to a client that holds something, or a profile not older than it *)
  Definition well_behaved (held : option profile) (b : behaviour) : Prop :=
    match b, held with
    | BUpToDate, Some _ => True
    | BProfile q, Some h => p_date h <=? p_date q = true
    | BProfile q, None => True
    | _, _ => False
    end.

  Lemma later_request_never_poisoned_l es c b :
    let st := run enc dec PNew init es in
    exists held, fs_get (s_fs st) (FCache (key_of c)) = option_map enc held
      /\ (well_behaved held b ->
            exists p, result_of (call enc dec PNew st c b) (List.length (s_threads st)) = Some (OK p)
                      /\ fs_get (s_fs (call enc dec PNew st c b)) (FCache (key_of c)) = Some (enc p)).
  Proof.
    intros st. destruct (reachable_inv enc dec dec_enc es) as (Hc & _). fold st in Hc.
    destruct (fs_get (s_fs st) (FCache (key_of c))) as [content|] eqn:G.
    - destruct (Hc _ _ G) as (h & -> & _). exists (Some h). split; [reflexivity|]. intros Hw.
      destruct (call_spec st c b (Some h) G) as (R & F & _). unfold outcome in *.
      destruct b as [q| | | |]; cbn in Hw; try contradiction; cbn [decide] in *.
      + rewrite Hw in *. exists q. auto.
      + exists h. auto.
    - exists None. split; [reflexivity|]. intros Hw.
      destruct (call_spec st c b None G) as (R & F & _). unfold outcome in *.
      destruct b as [q| | | |]; cbn in Hw; try contradiction; cbn [decide] in *. exists q. auto.
  Qed.

  (** ================= sequential_history ================= *)
  Definition seqrun (st : state) (c : cfg) (bs : list behaviour) : state := fold_left (fun st b => call enc dec PNew st c b) bs st.
  Definition profiles_of (bs : list behaviour) : list profile := flat_map (fun b => match b with BProfile p => [p] | _ => [] end) bs.
  (** the newest of the profiles sent, the later one among equal dates *)
  Definition newer (acc : option profile) (p : profile) : option profile :=
    match acc with Some h => if p_date h <=? p_date p then Some p else Some h | None => Some p end.
  Definition newest (l : list profile) : option profile := fold_left newer l None.
  Definition date_le (a b : option profile) : Prop :=
    match a, b with None, _ => True | Some h, Some h' => (p_date h <= p_date h')%N | Some _, None => False end.

  Lemma outcome_newer held b : fst (outcome held b) = fold_left newer (profiles_of [b]) held.
  Proof.
    unfold outcome. destruct b as [p| | | |]; cbn; try (destruct held; reflexivity).
    destruct held as [h|]; cbn; [destruct (p_date h <=? p_date p); reflexivity | reflexivity].
  Qed.
  Lemma newest_snoc pre b : newest (profiles_of (pre ++ [b])) = fst (outcome (newest (profiles_of pre)) b).
  Proof. unfold newest, profiles_of. rewrite flat_map_app, fold_left_app. rewrite outcome_newer. reflexivity. Qed.

  Lemma seqrun_cache c : forall bs st held,
    fs_get (s_fs st) (FCache (key_of c)) = option_map enc held ->
    fs_get (s_fs (seqrun st c bs)) (FCache (key_of c)) = option_map enc (fold_left newer (profiles_of bs) held).
  Proof.
    induction bs as [|b r IH]; intros st held Hg; [exact Hg|].
    destruct (call_spec st c b held Hg) as (_ & F & _).
    specialize (IH _ _ F). unfold seqrun in *. cbn [fold_left]. rewrite IH. f_equal.
    replace (profiles_of (b :: r)) with (profiles_of [b] ++ profiles_of r)%list by (unfold profiles_of; cbn [flat_map]; rewrite app_nil_r; reflexivity).
    rewrite fold_left_app, <- outcome_newer. reflexivity.
  Qed.

  Lemma sequential_history_l c pre b :
    let st0 := seqrun init c pre in
    let st1 := call enc dec PNew st0 c b in
    let i := List.length (s_threads st0) in
    let held := newest (profiles_of pre) in
    fs_get (s_fs st0) (FCache (key_of c)) = option_map enc held
    /\ s_asked st1 = (s_asked st0 ++ [(i, option_map p_date held)])%list
    /\ (exists r, result_of st1 i = Some r)
    /\ (forall p, result_of st1 i = Some (OK p) -> Some p = newest (profiles_of (pre ++ [b])))
    /\ (forall e, result_of st1 i = Some (Err e) -> s_fs st1 = s_fs st0)
    /\ fs_get (s_fs st1) (FCache (key_of c)) = option_map enc (newest (profiles_of (pre ++ [b])))
    /\ date_le held (newest (profiles_of (pre ++ [b]))).
  Proof.
    intros st0 st1 i held.
    assert (Hg : fs_get (s_fs st0) (FCache (key_of c)) = option_map enc held) by (apply (seqrun_cache c pre init None); reflexivity).
    destruct (call_spec st0 c b held Hg) as (R & F & _ & Hfail & _ & A & _). fold st1 i in R, F, Hfail, A.
    rewrite newest_snoc. fold held.
    split; [exact Hg|]. split; [exact A|]. split; [eauto|].
    split; [|split; [|split; [exact F|]]].
    - intros p Hp. rewrite R in Hp. injection Hp as Hp. unfold outcome in *.
      destruct b as [q| | | |]; cbn [decide] in *.
      + destruct held as [h|]; [destruct (p_date h <=? p_date q)|]; cbn [fst snd] in *; congruence.
      + destruct held as [h|]; cbn [fst snd] in *; congruence.
      + discriminate.
      + discriminate.
      + discriminate.
    - intros e He. rewrite R in He. injection He as He. apply Hfail. rewrite He. reflexivity.
    - unfold outcome, date_le. destruct b as [q| | | |]; cbn [decide]; destruct held as [h|]; cbn [fst snd]; auto; try lia.
      destruct (p_date h <=? p_date q) eqn:E; cbn [fst snd]; [apply N.leb_le; exact E | lia].
  Qed.

  (** ================= cache_not_shared_across_servers ================= *)
  Definition keys_not_shared (cfgs : list cfg) : Prop :=
    forall c c', In c cfgs -> In c' cfgs -> key_of c = key_of c' -> c_url c = c_url c'.

  Lemma cache_not_shared_across_servers_l es :
    keys_not_shared (spawned es) ->
    let st := run enc dec PNew init es in
    forall i c t, nth_error (s_threads st) i = Some (c, t) ->
    forall p, (t = TNet (Some p) \/ t = TDone (OK p)) -> In (c_url c, p) (s_sent st).
  Proof.
    intros HK st i c t Hn p Ht. destruct (reachable_inv enc dec dec_enc es) as (_ & Hth). fold st in Hth.
    destruct (Hth _ _ _ Hn) as (Hin & H).
    assert (S : sent_to_key (spawned es) (s_sent st) (key_of c) p) by (destruct Ht as [-> | ->]; exact H).
    destruct S as (c0 & Hin0 & Hk & Hs). rewrite <- (HK _ _ Hin0 Hin Hk). exact Hs.
  Qed.
End Proofs2.

(** ================= the concrete codec satisfies the hypothesis ================= *)
Lemma forallb_repeat (x : N) n : forallb (N.eqb x) (repeat x n) = true.
Proof. induction n; cbn; [reflexivity | rewrite N.eqb_refl; exact IHn]. Qed.
Lemma dec_enc_c p : dec_c (enc_c p) = Some p.
Proof.
  destruct p as [i d l]. unfold enc_c, dec_c; cbn [p_id p_date p_len].
  rewrite repeat_length, N.eqb_refl, forallb_repeat. reflexivity.
Qed.

(** ================= refutations on the faithful model ================= *)
Definition c17 : cfg := Cfg 0 (Some 1) (Some 1).
Definition p_long : profile := Profile 1 10 4.
Definition p_short : profile := Profile 2 11 1.
Definition p_next : profile := Profile 3 12 2.
(** finding 17 (a): the call dies right after open(persistpath, "wb") *)
Definition crash_trace : list event :=
  [ESpawn c17; EStep 0 (BProfile p_long); EStep 0 (BProfile p_long); EStep 0 (BProfile p_long); EKill 0].
(** finding 17 (b): two calls of one client, the long document first, the short one over it *)
Definition splice_trace : list event :=
  [ESpawn c17; ESpawn c17;
   EStep 0 (BProfile p_long); EStep 0 (BProfile p_long); EStep 1 (BProfile p_short); EStep 1 (BProfile p_short);
   EStep 0 (BProfile p_long); EStep 1 (BProfile p_short);
   EStep 0 (BProfile p_long); EStep 0 (BProfile p_long); EStep 1 (BProfile p_short); EStep 1 (BProfile p_short)].

Lemma cache_whole_refuted_l :
  (let st := run enc_c dec_c POld init crash_trace in
   fs_get (s_fs st) (FCache (key_of c17)) = Some []
   /\ (forall p, enc_c p <> [])
   /\ result_of (call enc_c dec_c POld st c17 (BProfile p_next)) (List.length (s_threads st)) = Some (Err Reject)
   /\ result_of (call enc_c dec_c PNew st c17 (BProfile p_next)) (List.length (s_threads st)) = Some (Err Reject))
  /\ (let st := run enc_c dec_c POld init splice_trace in
      fs_get (s_fs st) (FCache (key_of c17)) = Some (enc_c p_short ++ skipn (List.length (enc_c p_short)) (enc_c p_long))%list
      /\ result_of st 0 = Some (OK p_long) /\ result_of st 1 = Some (OK p_short)
      /\ (forall p, In p (map snd (s_sent st)) -> fs_get (s_fs st) (FCache (key_of c17)) <> Some (enc_c p))
      /\ result_of (call enc_c dec_c POld st c17 BUpToDate) (List.length (s_threads st)) = Some (Err Reject)).
Proof.
  split.
  - split; [vm_compute; reflexivity|]. split; [intros [i d l]; discriminate|]. split; vm_compute; reflexivity.
  - split; [vm_compute; reflexivity|]. split; [vm_compute; reflexivity|]. split; [vm_compute; reflexivity|].
    split; [|vm_compute; reflexivity].
    intros p Hp. vm_compute in Hp. destruct Hp as [<-|[<-|[]]]; vm_compute; discriminate.
Qed.

(** finding 18: the cache file of a client without ORG/FID is the cache file of every such client, whatever its URL *)
Definition cA18 : cfg := Cfg 0 None None.
Definition cB18 : cfg := Cfg 1 None None.
Definition shared_trace : list event :=
  [ESpawn cA18] ++ repeat (EStep 0 (BProfile p_long)) 8 ++ [ESpawn cB18] ++ repeat (EStep 1 BUpToDate) 3.
Lemma cache_shared_across_servers_refuted_l :
  let st := run enc_c dec_c PNew init shared_trace in
  key_of cA18 = key_of cB18 /\ c_url cA18 <> c_url cB18
  /\ nth_error (s_threads st) 1 = Some (cB18, TDone (OK p_long))
  /\ s_asked st = [(0%nat, None); (1%nat, Some (p_date p_long))]
  /\ ~ In (c_url cB18, p_long) (s_sent st)
  /\ ~ keys_not_shared (spawned shared_trace).
Proof.
  split; [reflexivity|]. split; [discriminate|]. split; [vm_compute; reflexivity|]. split; [vm_compute; reflexivity|].
  split.
  - vm_compute. intros [H|[]]. discriminate.
  - intros H. specialize (H cA18 cB18). cbn in H. assert (E : 0 = 1) by (apply H; auto). discriminate.
Qed.
