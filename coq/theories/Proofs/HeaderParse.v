(** C05: parse_header (the repaired function) on every tolerated file layout returns the header's fields and exactly
    the body.  Byte-level reasoning: the blank-line skip, the nine-line window, the offset, the decode and the strip. *)
From OfxV Require Import Base.Prelude Base.Digits Gen.HeaderGen Model.Header Model.HeaderLayout
  Proofs.HeaderChars Proofs.HeaderMatch Proofs.HeaderV1 Proofs.HeaderInit Proofs.HeaderV2 Proofs.HeaderSound.
From Coq Require Import ZifyBool ZifyN ZifyNat.
Local Open Scope N_scope.

(** * readline and the line window *)
Lemma readline_pre p X : ~ In 10 p -> readline (p ++ X) = (p ++ fst (readline X), snd (readline X)).
Proof.
  induction p as [|c p IH]; intro NI; [cbn [app]; destruct (readline X); reflexivity|].
  cbn [app readline]. destruct (c =? 10) eqn:E; [apply N.eqb_eq in E; exfalso; apply NI; left; exact E|].
  rewrite IH by (intro I; apply NI; right; exact I). reflexivity.
Qed.
Lemma readline_line x more : ~ In 10 x -> readline (x ++ 10 :: more) = (x ++ [10], more).
Proof. intro NI. rewrite readline_pre by exact NI. cbn [readline]. rewrite N.eqb_refl. reflexivity. Qed.
Lemma readline_split b : b = fst (readline b) ++ snd (readline b).
Proof.
  induction b as [|c b IH]; [reflexivity|]. cbn [readline]. destruct (c =? 10) eqn:E; [apply N.eqb_eq in E; subst c; reflexivity|].
  destruct (readline b) as [l r]. cbn [fst snd app] in *. f_equal. exact IH.
Qed.

(** the first n physical lines of b, and what follows *)
Fixpoint take_lines (n : nat) (b : text) : text * text :=
  match n with
  | O => ([], b)
  | S n' => let (raw, r) := readline b in let (x, y) := take_lines n' r in (raw ++ x, y)
  end.
Lemma take_lines_S n b : take_lines (S n) b =
  (fst (readline b) ++ fst (take_lines n (snd (readline b))), snd (take_lines n (snd (readline b)))).
Proof. cbn [take_lines]. destruct (readline b) as [raw r]. cbn [fst snd]. destruct (take_lines n r) as [x y]. reflexivity. Qed.
Lemma take_lines_split n : forall b, b = fst (take_lines n b) ++ snd (take_lines n b).
Proof.
  induction n as [|n IH]; intro b; [reflexivity|]. cbn [take_lines].
  pose proof (readline_split b) as R. destruct (readline b) as [raw r]. cbn [fst snd] in R.
  pose proof (IH r) as T. destruct (take_lines n r) as [x y]. cbn [fst snd] in *. rewrite <- app_assoc, <- T. exact R.
Qed.
Lemma take_lines_cons n x b : x <> 10 -> take_lines (S n) (x :: b) = (x :: fst (take_lines (S n) b), snd (take_lines (S n) b)).
Proof.
  intro NE. cbn [take_lines readline]. destruct (x =? 10) eqn:E; [apply N.eqb_eq in E; contradiction|].
  destruct (readline b) as [raw r]. destruct (take_lines n r) as [p q]. reflexivity.
Qed.
Lemma take_lines_prefix a : forall n c, (count_lf a < n)%nat ->
  exists c1 c2, c = c1 ++ c2 /\ fst (take_lines n (a ++ c)) = a ++ c1.
Proof.
  induction a as [|x a IH]; intros n c L.
  - exists (fst (take_lines n c)), (snd (take_lines n c)). split; [apply take_lines_split|reflexivity].
  - destruct n as [|n]; [exfalso; lia|]. rewrite count_lf_cons in L. destruct (x =? 10) eqn:E.
    + apply N.eqb_eq in E. subst x. cbn [app take_lines readline]. rewrite N.eqb_refl.
      destruct (IH n c) as [c1 [c2 [E1 E2]]]; [lia|]. exists c1, c2. split; [exact E1|].
      destruct (take_lines n (a ++ c)) as [p q]. cbn [fst] in *. rewrite E2. reflexivity.
    + apply N.eqb_neq in E. cbn [app]. rewrite take_lines_cons by exact E. cbn [fst].
      destruct (IH (S n) c) as [c1 [c2 [E1 E2]]]; [lia|]. exists c1, c2. split; [exact E1|]. rewrite E2. reflexivity.
Qed.
Lemma read_lines_take n : forall b, read_lines true n b = OK (map scan_char (fst (take_lines n b))).
Proof.
  induction n as [|n IH]; intro b; [reflexivity|]. cbn [read_lines take_lines]. destruct (readline b) as [raw r].
  cbn [scan_dec bind]. rewrite IH. cbn [rmap]. destruct (take_lines n r) as [x y]. cbn [fst]. rewrite map_app. reflexivity.
Qed.

(** * ASCII text is unchanged by the scanner's decoding *)
Definition ascii (s : text) : bool := forallb (fun c => c <? 128) s.
Lemma scan_ascii s : ascii s = true -> map scan_char s = s.
Proof.
  induction s as [|c s IH]; [reflexivity|]. unfold ascii. cbn [forallb map]. rewrite andb_true_iff. intros [A B].
  unfold scan_char at 1. rewrite A. f_equal. apply IH. exact B.
Qed.
Lemma ascii_app a b : ascii (a ++ b) = ascii a && ascii b.
Proof. apply forallb_app. Qed.
Lemma ascii_cons c s : ascii (c :: s) = (c <? 128) && ascii s.
Proof. reflexivity. Qed.
Lemma ascii_ws w : all_ws w = true -> ascii w = true.
Proof. unfold all_ws, ascii. rewrite !forallb_forall. intros H c I. apply H in I. unfold wsc in I. lia. Qed.
Lemma ascii_uid u : forallb uidc u = true -> ascii u = true.
Proof. unfold ascii. rewrite !forallb_forall. intros H c I. apply H in I. apply uidc_lt in I. lia. Qed.
Lemma ascii_dec z : (0 <= z)%Z -> ascii (dec_of_Z z) = true.
Proof.
  intro H. rewrite dec_of_Z_nonneg by exact H. pose proof (dec_of_N_all_digits (Z.to_N z)) as D. unfold ascii.
  rewrite forallb_forall in *. intros c I. apply D in I. apply is_digit_lt in I. lia.
Qed.
Lemma ascii_token s l : mem_text s l = true -> forallb ascii l = true -> ascii s = true.
Proof. intros M F. apply mem_text_in in M. rewrite forallb_forall in F. apply F, M. Qed.
Lemma ascii_fld n w v : ascii n = true -> ascii w = true -> ascii v = true -> ascii (fld n w v) = true.
Proof. intros A B C. unfold fld. rewrite ascii_app. change (58 :: w ++ v) with ([58] ++ w ++ v). rewrite !ascii_app, A, B, C. reflexivity. Qed.

Lemma ascii_hdr_text l h : valid1 h = true -> lay1_ok l h = true -> ascii (hdr_text l h) = true.
Proof.
  intros V L. destruct (valid1_inv h V) as [Foh Fda Fve Fse Fen Fch Fco Fol Fne].
  destruct (lay1_inv l h L) as [_ _ Gi G1 G2 G3 G4 G5 G6 G7 G8 G9 H1 H2 H3 H4 H5 H6 H7 H8 _ _].
  pose proof (uid_ok_inv _ Fol) as [Uol _]. pose proof (uid_ok_inv _ Fne) as [Une _].
  unfold hdr_text, hdr_fields, v1_ctail_text, v1_tail_text.
  assert (Aoh : ascii (dec_of_Z (h1_ofxheader h)) = true) by (rewrite Foh; reflexivity).
  assert (Ada : ascii (h1_data h) = true) by (rewrite Fda; reflexivity).
  assert (Aco : ascii (h1_compression h) = true) by (rewrite Fco; reflexivity).
  assert (Ave : ascii (dec_of_Z (h1_version h)) = true) by (apply ascii_dec; exact (proj1 Fve)).
  assert (Ase : ascii (h1_security h) = true) by (apply (ascii_token _ _ Fse); reflexivity).
  assert (Aen : ascii (h1_encoding h) = true) by (apply (ascii_token _ _ Fen); reflexivity).
  assert (Ach : ascii (h1_charset h) = true) by (apply (ascii_token _ _ Fch); reflexivity).
  assert (Aol : ascii (h1_old h) = true) by (apply ascii_uid; exact Uol).
  assert (Ane : ascii (h1_new h) = true) by (apply ascii_uid; exact Une).
  pose proof (ascii_ws _ (all_blank_ws _ Gi)) as Bi.
  pose proof (ascii_ws _ G1) as B1. pose proof (ascii_ws _ G2) as B2. pose proof (ascii_ws _ G3) as B3. pose proof (ascii_ws _ G4) as B4.
  pose proof (ascii_ws _ G5) as B5. pose proof (ascii_ws _ G6) as B6. pose proof (ascii_ws _ G7) as B7. pose proof (ascii_ws _ G8) as B8.
  pose proof (ascii_ws _ G9) as B9.
  pose proof (ascii_ws _ H1) as D1. pose proof (ascii_ws _ H2) as D2. pose proof (ascii_ws _ H3) as D3. pose proof (ascii_ws _ H4) as D4.
  pose proof (ascii_ws _ H5) as D5. pose proof (ascii_ws _ H6) as D6. pose proof (ascii_ws _ H7) as D7. pose proof (ascii_ws _ H8) as D8.
  unfold fld. destruct (l_comp l); repeat (rewrite ascii_app || rewrite ascii_cons);
    rewrite ?Bi, ?B1, ?B2, ?B3, ?B4, ?B5, ?B6, ?B7, ?B8, ?B9, ?D1, ?D2, ?D3, ?D4, ?D5, ?D6, ?D7, ?D8, ?Aoh, ?Ada, ?Aco, ?Ave, ?Ase, ?Aen, ?Ach, ?Aol, ?Ane; reflexivity.
Qed.

(** * the blank-line skip *)
Lemma blank_no_lf x : all_blank x = true -> ~ In 10 x.
Proof. unfold all_blank. rewrite forallb_forall. intros H I. apply H in I. unfold blankc in I. lia. Qed.
Lemma blank_line_scan x : all_blank x = true -> map scan_char (x ++ [10]) = x ++ [10] /\ nonblank (x ++ [10]) = false.
Proof.
  intro B. assert (W : all_ws (x ++ [10]) = true).
  { unfold all_ws. rewrite forallb_app. fold (all_ws x). rewrite (all_blank_ws x B). reflexivity. }
  split; [apply scan_ascii, ascii_ws, W|]. unfold nonblank. apply all_ws_space in W.
  induction (x ++ [10]) as [|c s IH]; [reflexivity|]. cbn [forallb existsb] in *. apply andb_true_iff in W. destruct W as [Wc Ws].
  rewrite Wc. cbn [negb orb]. apply IH. exact Ws.
Qed.
Lemma lead_text_cons x ls : lead_text (x :: ls) = x ++ 10 :: lead_text ls.
Proof. unfold lead_text. cbn [map List.concat]. rewrite <- app_assoc. reflexivity. Qed.

Lemma skip_blank_lead lines : forall n rest pos,
  forallb all_blank lines = true -> (List.length lines < n)%nat ->
  nonblank (map scan_char (fst (readline rest))) = true ->
  skip_blank true n (lead_text lines ++ rest) pos =
  OK (pos + len (lead_text lines), map scan_char (fst (readline rest)), snd (readline rest)).
Proof.
  induction lines as [|x ls IH]; intros n rest pos B L NB.
  - destruct n as [|n]; [exfalso; cbn in L; lia|]. cbn [lead_text map List.concat app skip_blank].
    destruct (readline rest) as [raw r]. cbn [fst snd scan_dec bind] in *. rewrite NB. change (len []) with 0. rewrite N.add_0_r. reflexivity.
  - destruct n as [|n]; [exfalso; cbn in L; lia|]. cbn [forallb] in B. apply andb_true_iff in B. destruct B as [Bx Bl].
    rewrite lead_text_cons. rewrite <- app_assoc. cbn [app skip_blank]. rewrite readline_line by (apply blank_no_lf; exact Bx).
    cbn [scan_dec bind]. destruct (blank_line_scan x Bx) as [E1 E2]. rewrite E1, E2.
    rewrite IH; [|exact Bl|cbn [List.length] in L; lia|exact NB].
    assert (EL : pos + len (x ++ [10]) + len (lead_text ls) = pos + len (x ++ 10 :: lead_text ls))
      by (change (x ++ 10 :: lead_text ls) with (x ++ [10] ++ lead_text ls); rewrite app_assoc, !len_app; lia).
    rewrite EL. reflexivity.
Qed.

(** * strip, skipN *)
Lemma skipN_app a b : skipN (len a) (a ++ b) = b.
Proof. unfold skipN, len. rewrite Nat2N.id. induction a as [|c a IH]; [reflexivity|]. cbn [List.length skipn app]. exact IH. Qed.
Lemma body_ok_inv b : body_ok b = true -> (exists b', b = 60 :: b') /\ (exists r, rev b = 62 :: r).
Proof.
  unfold body_ok. destruct b as [|c b]; [discriminate|]. destruct (rev (c :: b)) as [|d r]; [discriminate|].
  rewrite andb_true_iff, !N.eqb_eq. intros [-> ->]. split; eexists; reflexivity.
Qed.
Lemma strip_body g b t : forallb is_space g = true -> forallb is_space t = true -> body_ok b = true -> strip (g ++ b ++ t) = b.
Proof.
  intros G Tt B. unfold strip. rewrite skipws_app_space by exact G.
  destruct (body_ok_inv b B) as [[b' E] [r R]]. subst b. cbn [app]. rewrite skipws_stop by (vm_compute; reflexivity).
  change (60 :: b' ++ t) with ((60 :: b') ++ t). rewrite rev_app_distr.
  rewrite skipws_app_space by (rewrite forallb_forall in *; intros x I; apply in_rev in I; apply Tt; exact I).
  rewrite R. rewrite skipws_stop by (vm_compute; reflexivity). rewrite <- R. apply rev_involutive.
Qed.

(** * the declared codec *)
Definition spec_codec (charset : text) : option N :=
  if text_eqb charset (T "ISO-8859-1") then Some 0 else if text_eqb charset (T "1252") then Some 1
  else if text_eqb charset (T "NONE") then Some 2 else None.
Lemma codec_declared h : valid1 h = true -> exists cd, spec_codec (h1_charset h) = Some cd /\ codec_of h = OK cd.
Proof.
  intro V. destruct (valid1_inv h V) as [_ _ _ _ _ Fch _ _ _]. apply mem_text_in in Fch. unfold codec_of.
  cbn [spec_charset In] in Fch. destruct Fch as [E|[E|[E|[]]]]; rewrite <- E; eexists; split; vm_compute; reflexivity.
Qed.

(** * version 1 *)
Theorem parse_header_exact_v1_l l h cd encbody body trail :
  valid1 h = true -> lay1_ok l h = true -> body_ok body = true -> all_ws trail = true ->
  spec_codec (h1_charset h) = Some cd ->
  decode_opt cd (l_gap l ++ encbody) = Some (l_gap l ++ body ++ trail) -> (exists r, encbody = 60 :: r) ->
  parse_header (file1 l h encbody) = OK (H1 h, body).
Proof.
  intros V L B Tr SC DE [er EB].
  destruct (lay1_inv l h L) as [Gn Gb Gi _ _ _ _ _ _ _ _ _ _ _ _ _ _ _ _ _ Gg Glf].
  destruct (codec_declared h V) as [cd' [SC' CO]]. rewrite SC in SC'. injection SC' as <-.
  pose proof (ascii_hdr_text l h V L) as AH.
  unfold parse_header, parse_header_gen, file1.
  set (rest := hdr_text l h ++ l_gap l ++ encbody).
  (* the first non-blank line holds the O of OFXHEADER *)
  assert (FL : exists X, fst (readline rest) = l_indent l ++ 79 :: X).
  { unfold rest, hdr_text, hdr_fields, fld. rewrite <- !app_assoc. rewrite readline_pre by (apply blank_no_lf; exact Gi).
    change (T "OFXHEADER" ++ ?x) with (79 :: (T "FXHEADER" ++ x)). cbn [app readline]. change (79 =? 10) with false. cbv iota.
    match goal with |- context [readline ?Y] => destruct (readline Y) as [a b] end. cbn [fst]. eexists. reflexivity. }
  destruct FL as [X FL].
  assert (NB : nonblank (map scan_char (fst (readline rest))) = true).
  { rewrite FL, map_app. unfold nonblank. rewrite existsb_app. cbn [map existsb]. change (is_space (scan_char 79)) with false. cbn [negb orb]. apply orb_true_r. }
  rewrite (skip_blank_lead (l_lines l) 8 rest 0 Gb ltac:(clear - Gn; lia) NB). cbn [bind]. rewrite N.add_0_l.
  assert (NX : match_xml (map scan_char (fst (readline rest))) = false).
  { rewrite FL, map_app. unfold match_xml. destruct (l_indent l) as [|c ind] eqn:EI.
    - cbn [map app]. change (scan_char 79) with 79. reflexivity.
    - cbn [map app]. cbn [all_blank forallb] in Gi. apply andb_true_iff in Gi. destruct Gi as [Gc _].
      unfold blankc in Gc. assert (C60 : scan_char c <> 60) by (clear - Gc; unfold scan_char; destruct (c <? 128); lia).
      change (T "<?xml") with (60 :: T "?xml"). cbn [strip_prefix]. destruct (60 =? scan_char c) eqn:E; [clear - E C60; lia|]. reflexivity. }
  rewrite NX. rewrite read_lines_take. cbn [bind app].
  (* the nine-line window holds the whole header *)
  assert (WIN : exists c1 c2, l_gap l ++ encbody = c1 ++ c2 /\ fst (take_lines 9 rest) = hdr_text l h ++ c1).
  { unfold rest. apply take_lines_prefix. clear - Glf. lia. }
  destruct WIN as [c1 [c2 [EG W9]]].
  assert (RAW : map scan_char (fst (readline rest)) ++ map scan_char (fst (take_lines 8 (snd (readline rest)))) = hdr_text l h ++ map scan_char c1).
  { rewrite <- map_app. change 9%nat with (S 8) in W9. rewrite take_lines_S in W9. cbn [fst] in W9.
    rewrite W9, map_app, (scan_ascii _ AH). reflexivity. }
  rewrite RAW.
  assert (ST : stops is_word_dash (map scan_char c1)).
  { destruct c1 as [|c c1]; [exact I|]. cbn [map stops]. destruct (l_gap l) as [|g gap] eqn:EGap.
    - cbn [app] in EG. rewrite EB in EG. injection EG as EG _. subst c. reflexivity.
    - cbn [app] in EG. injection EG as EG _. subst c. cbn [all_ws forallb] in Gg. apply andb_true_iff in Gg. destruct Gg as [Gc _].
      assert (Sg : scan_char g = g) by (clear - Gc; unfold scan_char; apply wsc_lt in Gc; destruct (g <? 128) eqn:E; [reflexivity|lia]).
      rewrite Sg. apply space_not_word_dash, wsc_space, Gc. }
  rewrite (parse_v1_layout l h (map scan_char c1) V L ST). cbn [bind]. rewrite CO. cbn [bind].
  subst rest. rewrite <- len_app. rewrite app_assoc. rewrite skipN_app. unfold decode. rewrite DE. cbn [bind].
  rewrite strip_body; [reflexivity|apply all_ws_space; exact Gg|apply all_ws_space; exact Tr|exact B].
Qed.

(** * version 2 *)
Lemma lead_text_ws ls : forallb all_blank ls = true -> all_ws (lead_text ls) = true.
Proof.
  induction ls as [|x ls IH]; [reflexivity|]. cbn [forallb]. rewrite andb_true_iff. intros [A B]. rewrite lead_text_cons.
  unfold all_ws. rewrite forallb_app. cbn [forallb]. fold (all_ws x). fold (all_ws (lead_text ls)). rewrite (all_blank_ws x A), (IH B). reflexivity.
Qed.
Lemma xml_decl_facts v e s : quote_ok v = true -> quote_ok e = true -> quote_ok s = true ->
  ~ In 10 (xml_decl_gen v e s) /\ ascii (xml_decl_gen v e s) = true /\ (forall Y, match_xml (xml_decl_gen v e s ++ Y) = true)
  /\ exists x, xml_decl_gen v e s = 60 :: x.
Proof.
  intros Qv Qe Qs.
  destruct (quote_cases v Qv) as [-> | [-> | ->]]; destruct (quote_cases e Qe) as [-> | [-> | ->]]; destruct (quote_cases s Qs) as [-> | [-> | ->]];
    (split; [vm_compute; intuition discriminate|split; [reflexivity|split; [intro Y; vm_compute; reflexivity|eexists; reflexivity]]]).
Qed.

Theorem parse_header_exact_v2_l l h encbody body' :
  valid2 h = true -> lay2_ok l = true -> (exists r, body' = 60 :: r) ->
  decode_opt 2 (head2 l h ++ encbody) = Some (head2 l h ++ body') ->
  parse_header (file2 l h encbody) = OK (H2 h, body').
Proof.
  intros V L [br EB] DE.
  unfold lay2_ok in L. rewrite !andb_true_iff in L. destruct L as [[[[[[Ln Lb] Qv] Qe] Qs] La] Lbb].
  destruct (xml_decl_facts _ _ _ Qv Qe Qs) as [XN [XA [XM [xx XE]]]].
  unfold parse_header, parse_header_gen, file2.
  assert (HD : head2 l h ++ encbody = lead_text (m_lines l) ++ (xml_decl_gen (m_ver l) (m_enc l) (m_sa l) ++ m_a l ++ ofx_decl h ++ m_b l ++ encbody)).
  { unfold head2. rewrite <- !app_assoc. reflexivity. }
  rewrite HD. set (rest := xml_decl_gen (m_ver l) (m_enc l) (m_sa l) ++ m_a l ++ ofx_decl h ++ m_b l ++ encbody).
  assert (FL : fst (readline rest) = xml_decl_gen (m_ver l) (m_enc l) (m_sa l) ++ fst (readline (m_a l ++ ofx_decl h ++ m_b l ++ encbody))).
  { unfold rest. rewrite readline_pre by exact XN. reflexivity. }
  assert (NB : nonblank (map scan_char (fst (readline rest))) = true).
  { rewrite FL, map_app, (scan_ascii _ XA), XE. reflexivity. }
  rewrite (skip_blank_lead (m_lines l) 8 rest 0 Lb ltac:(clear - Ln; apply Nat.leb_le in Ln; lia) NB). cbn [bind].
  rewrite FL, map_app, (scan_ascii _ XA), XM.
  subst rest. rewrite <- HD. change v2_codec with 2. unfold decode. rewrite DE. cbn [bind].
  assert (SRC : head2 l h ++ body' = (lead_text (m_lines l) ++ xml_decl_gen (m_ver l) (m_enc l) (m_sa l) ++ m_a l) ++ ofx_decl h ++ (m_b l ++ body')).
  { unfold head2. rewrite <- !app_assoc. reflexivity. }
  rewrite SRC. rewrite parse_v2_at; [|exact V|].
  - cbn [bind]. rewrite skipws_app_space by (apply all_ws_space; exact Lbb). rewrite EB. rewrite skipws_stop by (vm_compute; reflexivity).
    rewrite <- EB. f_equal. f_equal.
    assert (E : (lead_text (m_lines l) ++ xml_decl_gen (m_ver l) (m_enc l) (m_sa l) ++ m_a l) ++ ofx_decl h ++ m_b l ++ body'
                = ((lead_text (m_lines l) ++ xml_decl_gen (m_ver l) (m_enc l) (m_sa l) ++ m_a l) ++ ofx_decl h ++ m_b l) ++ body') by (rewrite <- !app_assoc; reflexivity).
    rewrite E. rewrite len_app. rewrite N.add_sub. apply skipN_app.
  - rewrite <- !app_assoc. rewrite search_v2_skip by (apply ws_no_lt, lead_text_ws; exact Lb).
    rewrite xml_decl_gen_skip by assumption. apply search_v2_skip. apply ws_no_lt. exact La.
Qed.
