(** C01 with CONCRETE converters.  The schema engine's round trip instantiated with the Scalars engine (C10): for the element
    types Bool / String / NagString / OneOf / Integer / Decimal the hypothesis "the reading converter undoes the escaped text
    the writer produced" is no longer assumed but PROVED (wire_convert_unconvert, bridged to the serializer's escaping);
    only the date-time converters remain parameters (C09). *)
From OfxV Require Import Base.Prelude Base.SgmlBase Model.Schema Model.Convert Model.Scalars Model.Typed Model.Serialize
     Proofs.ScalarsProofs Proofs.ScalarsThms Proofs.ScalarsWire Proofs.ScalarsSerializeBridge Proofs.RoundTrip3 Proofs.WireRoundTrip.
Local Open Scope N_scope.

Section TypedRT.
  Variable table : list (N * ety).
  Variable conv_dt : bool -> text -> result (option pyval).
  Variable unconv_dt : bool -> pyval -> result text.
  Notation conv := (conv_typed table conv_dt).
  Notation unconv := (unconv_typed table unconv_dt).

  (** a value an instance can hold under element type [e]: delivered unchanged by the converter, writable, not None *)
  Definition held (e : elem) (v : pyval) : Prop :=
    value_wf v /\ ~ bool_in_integer (elem_sty e) v /\ tokens_plain (elem_sty e) = true /\ v <> PNone
    /\ (exists w, convert e v = OK (v, w)) /\ (exists s w', unconvert e v = OK (Some s, w') /\ s <> []).

  (** the scalar clause of validity, PROVED for the five concrete types: the writer's text, escaped by the serializer, is read
      back by the converter as the very value *)
  Theorem held_value_reads_back_l t e v :
    lookup_ety table t = Some (ESty e) -> held e v ->
    exists s, unconv_w pyval unconv t v = OK s /\ s <> [] /\ conv t (SText pyval s) = OK (Some v).
  Proof.
    intros Ht (Hwf & Hbi & Htp & Hnn & (w & Hc) & (s & w' & Hu & Hne)).
    exists (Serialize.escape_cdata s). unfold unconv_w, unconv_typed, conv_typed. rewrite Ht, Hu. cbn [rmap]. split; [reflexivity|]. split.
    - rewrite <- (wire_datum_is_serialize_escape WClosed s). intro Hs.
      pose proof (ScalarsThms.unescape_escape_l WClosed s) as Hue. rewrite Hs in Hue. vm_compute in Hue. apply Hne. symmetry. exact Hue.
    - rewrite <- (wire_datum_is_serialize_escape WClosed s).
      rewrite (wire_convert_unconvert_l WClosed e v w s w' Hwf Hbi Htp Hc Hu).
      destruct v; try reflexivity. contradiction.
  Qed.
End TypedRT.
