(** C11, instance level: every piece of element data that to_etree writes was produced by the converter of an element type -
    and, with the concrete converters of the Scalars engine, is therefore lexically valid OFX for that type
    (unconvert_lexical, C11); date-time data is what the date-time writer (C09: dt_unconvert_shape) returns. *)
From OfxV Require Import Base.Prelude Model.Schema Model.Convert Model.Scalars Model.ScalarsLex Model.Typed
     Proofs.ScalarsLexProofs Proofs.ScalarsThms Proofs.RoundTrip1 Proofs.RoundTrip3.
Local Open Scope string_scope.

Fixpoint texts (e : etree) : list text :=
  match e with
  | Node _ x ch => ((match x with Some s => [s] | None => [] end) ++ flat_map texts ch)%list
  end.

Lemma texts_rename_first a b ch : flat_map texts (rename_first a b ch) = flat_map texts ch.
Proof.
  induction ch as [|[t x c] ch IH]; [reflexivity|]. cbn [rename_first]. destruct (String.eqb t a); [reflexivity|].
  cbn [flat_map]. rewrite IH. reflexivity.
Qed.

Section Written.
  Variable sval : Type.
  Variable unconv : N -> sval -> result text.
  Variable S : schema.
  Notation to_etree := (to_etree sval unconv S).
  Definition from_unconv (s : text) : Prop := exists t x, unconv t x = OK s.

  Lemma leaf_written k t x l : leaf sval unconv k t x = OK l -> Forall from_unconv (flat_map texts l).
  Proof.
    unfold leaf. destruct (unconv t x) as [s|e] eqn:E; cbn; [|discriminate]. intro H. injection H as <-.
    cbn. constructor; [exists t, x; exact E|constructor].
  Qed.

  Lemma in_firstn_l {A} (l : list A) n x : In x (firstn n l) -> In x l.
  Proof. intro H. rewrite <- (firstn_skipn n l). apply in_or_app. left. exact H. Qed.
  Lemma in_skipn_l {A} (l : list A) n x : In x (skipn n l) -> In x l.
  Proof. intro H. rewrite <- (firstn_skipn n l). apply in_or_app. right. exact H. Qed.

  (** all element data in the tree to_etree returns comes out of [unconv] *)
  Theorem written_by_unconv_l : forall i e, to_etree i = OK e -> Forall from_unconv (texts e).
  Proof.
    induction i as [cn fs ms IHf IHm] using (inst_ind' sval). intros e He.
    rewrite to_etree_unfold in He. destruct (find_cls S cn) as [c|]; [|discriminate].
    destruct (emit_top sval unconv S c ms fs (split_at (ci_spec c))) as [ch|k0] eqn:Eem; cbn in He; [|discriminate]. injection He as <-.
    cbn [texts app].
    assert (Hgoal : Forall from_unconv (flat_map texts ch)).
    2:{ unfold ungroom. destruct (ci_rename c) as [[w p]|]; [rewrite texts_rename_first|]; exact Hgoal. }
    assert (Hitem : forall p l, In p fs -> item_top sval unconv S c p = OK l -> Forall from_unconv (flat_map texts l)).
    { intros [k1 v] l Hin Hl. destruct v as [|x|j]; cbn [item_top] in Hl.
      - injection Hl as <-. constructor.
      - destruct (assoc k1 (ci_spec c)) as [[t r| | | |]|]; try discriminate. eapply leaf_written. exact Hl.
      - destruct (Convert.to_etree sval unconv S j) as [ej|] eqn:Ej; cbn in Hl; [|discriminate]. injection Hl as <-.
        cbn [flat_map]. rewrite app_nil_r. apply (IHf k1 j Hin ej Ej). }
    assert (Hitems : forall l r, (forall p, In p l -> In p fs) -> items_top sval unconv S c l = OK r -> Forall from_unconv (flat_map texts r)).
    { induction l as [|p l IHl]; intros r Hl Hr; cbn [items_top] in Hr.
      - injection Hr as <-. constructor.
      - destruct (item_top sval unconv S c p) as [a|] eqn:Ea; cbn [bind] in Hr; [|discriminate].
        destruct (items_top sval unconv S c l) as [b|] eqn:Eb; cbn [bind] in Hr; [|discriminate]. injection Hr as <-.
        rewrite flat_map_app. apply Forall_app. split; [apply (Hitem p a (Hl p (or_introl eq_refl)) Ea)|].
        apply (IHl b); [intros q Hq; apply Hl; right; exact Hq|reflexivity]. }
    assert (Hmem : forall m l, In m ms -> member_top sval unconv S c m = OK l -> Forall from_unconv (flat_map texts l)).
    { intros m l Hin Hl. destruct m as [j|s|[x|]]; cbn [member_top] in Hl; try discriminate.
      - destruct (ci_elist c); [discriminate|]. destruct (Convert.to_etree sval unconv S j) as [ej|] eqn:Ej; cbn in Hl; [|discriminate].
        injection Hl as <-. cbn [flat_map]. rewrite app_nil_r. apply (IHm j Hin ej Ej).
      - destruct (if ci_elist c then the_listelem c else None) as [[k1 t]|]; [eapply leaf_written; exact Hl|discriminate]. }
    assert (Hmems : forall l r, (forall m, In m l -> In m ms) -> mems_top sval unconv S c l = OK r -> Forall from_unconv (flat_map texts r)).
    { induction l as [|m l IHl]; intros r Hl Hr; cbn [mems_top] in Hr.
      - injection Hr as <-. constructor.
      - destruct (member_top sval unconv S c m) as [a|] eqn:Ea; cbn [bind] in Hr; [|discriminate].
        destruct (mems_top sval unconv S c l) as [b|] eqn:Eb; cbn [bind] in Hr; [|discriminate]. injection Hr as <-.
        rewrite flat_map_app. apply Forall_app. split; [apply (Hmem m a (Hl m (or_introl eq_refl)) Ea)|].
        apply (IHl b); [intros q Hq; apply Hl; right; exact Hq|reflexivity]. }
    pose proof (emit_top_split sval unconv S c ms fs _ ch Eem) as Hsp. destruct (split_at (ci_spec c)) as [n|].
    - destruct Hsp as (a & m & b & Ha & Hm & Hb & ->). rewrite !flat_map_app. apply Forall_app. split.
      + apply (Hitems (firstn n fs) a); [intros p Hp; eapply in_firstn_l; exact Hp|exact Ha].
      + apply Forall_app. split; [apply (Hmems ms m); [intros q Hq; exact Hq|exact Hm]|].
        apply (Hitems (skipn n fs) b); [intros p Hp; eapply in_skipn_l; exact Hp|exact Hb].
    - apply (Hitems fs ch); [intros p Hp; exact Hp|exact Hsp].
  Qed.
End Written.

(** with the concrete converters: every element datum written is lexically valid OFX for an element type of the table
    (Y|N; signed digits; plain decimal notation; a declared token; length within the limit), or is date-time data *)
Section TypedLex.
  Variable table : list (N * ety).
  Variable unconv_dt : bool -> pyval -> result text.
  Variable S : schema.
  Definition datum_ok (s : text) : Prop :=
    (exists t e, lookup_ety table t = Some (ESty e) /\ lexical_ok (elem_sty e) s = true)
    \/ (exists b v, unconv_dt b v = OK s).

  Theorem to_etree_leaves_lexical_l : forall (i : inst pyval) e,
    to_etree pyval (unconv_typed table unconv_dt) S i = OK e -> Forall datum_ok (texts e).
  Proof.
    intros i e He. pose proof (written_by_unconv_l pyval (unconv_typed table unconv_dt) S i e He) as H.
    eapply Forall_impl; [|exact H]. intros s (t & x & Hu). unfold unconv_typed in Hu.
    destruct (lookup_ety table t) as [[el|r|r|]|] eqn:Et; try discriminate.
    - destruct (unconvert el x) as [[[s0|] w]|k] eqn:Eu; try discriminate. injection Hu as <-.
      left. exists t, el. split; [exact Et|]. eapply unconvert_lexical_l. exact Eu.
    - right. eauto.
    - right. eauto.
  Qed.
End TypedLex.
