(** What the serializers of OFXClient.serialize emit is one of the renderings C02 quantifies over:
    [html_is_render], [unclosed_is_render] (plain and after [indent]), [indent_only_adds_whitespace].
    With [parse_render_faithful] this gives: the parser reads back the tree that was written, with element
    text entity-escaped ([serialize_then_parse]). *)
From OfxV Require Import Base.Prelude Base.SgmlBase Model.Sgml Model.SgmlSpec Model.Serialize
  Proofs.SgmlNest Proofs.SgmlScan Proofs.SgmlFaithful.
From Coq Require Import Lia ZifyBool ZifyN.
Local Open Scope N_scope.

(** ---------------------------------------------------------------- induction over trees with tails *)
Section ItreeInd.
  Variable P : itree -> Prop.
  Hypothesis H : forall t x tl ch, Forall P ch -> P (INode t x tl ch).
  Fixpoint itree_ind' (e : itree) : P e :=
    match e with
    | INode t x tl ch =>
      H t x tl ch ((fix go (l : list itree) : Forall P l :=
                      match l with [] => Forall_nil P | c :: l' => Forall_cons c (itree_ind' c) (go l') end) ch)
    end.
End ItreeInd.
Section EtreeInd.
  Variable P : etree -> Prop.
  Hypothesis H : forall t x ch, Forall P ch -> P (Node t x ch).
  Fixpoint etree_ind' (e : etree) : P e :=
    match e with
    | Node t x ch =>
      H t x ch ((fix go (l : list etree) : Forall P l :=
                   match l with [] => Forall_nil P | c :: l' => Forall_cons c (etree_ind' c) (go l') end) ch)
    end.
End EtreeInd.

(** the nested fixes of the model are maps / flat_maps *)
Lemma html_children he ch :
  (fix go (l : list itree) : text := match l with [] => [] | c :: r => (html_text he c ++ go r)%list end) ch
  = flat_map (html_text he) ch.
Proof. induction ch as [|c ch IH]; [reflexivity|]. cbn [flat_map]. rewrite IH. reflexivity. Qed.
Lemma unclosed_children esc ch :
  (fix go (l : list itree) : text := match l with [] => [] | c :: r => (unclosed_text esc c ++ go r)%list end) ch
  = flat_map (unclosed_text esc) ch.
Proof. induction ch as [|c ch IH]; [reflexivity|]. cbn [flat_map]. rewrite IH. reflexivity. Qed.
Lemma indent_children level ch :
  (fix go (l : list itree) : list itree := match l with [] => [] | c :: r => indent level c :: go r end) ch
  = map (indent level) ch.
Proof. induction ch as [|c ch IH]; [reflexivity|]. cbn [map]. rewrite IH. reflexivity. Qed.

(** ---------------------------------------------------------------- what a tree denotes on the wire *)
(** the document written for a tree: element text entity-escaped; blank text and tails carry no information *)
Fixpoint wire_it (e : itree) : doc :=
  match e with
  | INode t x _ ch =>
    match ch with
    | [] => match x with Some s => if stripped s then Leaf t (escape_cdata s) else Agg t [] | None => Agg t [] end
    | _ :: _ => Agg t (map wire_it ch)
    end
  end.
Definition wire_doc (e : etree) : doc := wire_it (embed e).

(** tags the html writer treats as ordinary elements *)
Definition tag_ok (he : list text) (t : text) : bool :=
  wf_tag t && negb (mem_text (lower_ascii t) (SCRIPT :: STYLE :: he)).
(** trees as Aggregate.to_etree builds them, possibly indented: data elements carry trimmed non-empty text,
    aggregates (also empty ones) carry no text or blank text; tails are absent or blank *)
Fixpoint shape_ok (he : list text) (e : itree) : bool :=
  match e with
  | INode t x tl ch =>
    tag_ok he t && blank (or_empty tl) &&
    match ch with
    | [] => match x with None => true | Some s => stripped s end
    | _ :: _ => blank (or_empty x) && forallb (shape_ok he) ch
    end
  end.
Fixpoint ser_ok (he : list text) (e : etree) : bool :=
  match e with
  | Node t x ch =>
    tag_ok he t &&
    match ch with
    | [] => match x with None => true | Some s => stripped s end
    | _ :: _ => match x with None => true | Some _ => false end && forallb (ser_ok he) ch
    end
  end.

Lemma ser_ok_shape he e : ser_ok he e = true -> shape_ok he (embed e) = true.
Proof.
  induction e as [t x ch IH] using etree_ind'. intro H. cbn [ser_ok] in H.
  apply andb_true_iff in H as [Ht H]. cbn [embed shape_ok or_empty]. rewrite Ht. cbn [andb blank forallb].
  destruct ch as [|c ch'].
  - exact H.
  - apply andb_true_iff in H as [Hx Hc]. destruct x; [discriminate|]. cbn [map]. cbn [or_empty]. cbn [blank]. cbn [andb].
    change (forallb is_space []) with true. cbn [andb].
    change (embed c :: map embed ch') with (map embed (c :: ch')).
    apply forallb_forall. intros y Hy. apply in_map_iff in Hy as (e0 & <- & Hin).
    rewrite Forall_forall in IH. rewrite forallb_forall in Hc. apply IH; [exact Hin|apply Hc; exact Hin].
Qed.

(** ---------------------------------------------------------------- escaping *)
Lemma replace1_nochange a b s : forallb (fun c => negb (c =? a)) s = true -> replace1 a b s = s.
Proof.
  induction s as [|c s IH]; [reflexivity|]. cbn [forallb replace1]. intro H. apply andb_true_iff in H as [Hc Hs].
  apply negb_true_iff in Hc. rewrite Hc, (IH Hs). reflexivity.
Qed.
Lemma escape_blank w : blank w = true -> escape_cdata w = w.
Proof.
  intro H. unfold escape_cdata. assert (forall a, is_space a = false -> forallb (fun c => negb (c =? a)) w = true).
  { intros a Ha. unfold blank in H. rewrite forallb_forall in *. intros c Hc. specialize (H c Hc).
    apply negb_true_iff. destruct (c =? a) eqn:E; [apply N.eqb_eq in E; congruence|reflexivity]. }
  rewrite (replace1_nochange 38), (replace1_nochange 60), (replace1_nochange 62); auto.
Qed.
Lemma replace1_forall (p : N -> bool) a b s : forallb p b = true -> (forall c, c <> a -> p c = true) ->
  forallb p (replace1 a b s) = true.
Proof.
  intros Hb Hp. induction s as [|c s IH]; [reflexivity|]. cbn [replace1]. destruct (c =? a) eqn:E.
  - rewrite forallb_app', Hb, IH. reflexivity.
  - cbn [forallb]. rewrite IH, Hp; [reflexivity|]. intro Ec. subst. rewrite N.eqb_refl in E. discriminate.
Qed.
Lemma replace1_keeps (p : N -> bool) a b s : forallb p b = true -> forallb p s = true -> forallb p (replace1 a b s) = true.
Proof.
  intros Hb. induction s as [|c s IH]; [reflexivity|]. cbn [forallb replace1]. intro H. apply andb_true_iff in H as [Hc Hs].
  destruct (c =? a); [rewrite forallb_app', Hb, (IH Hs); reflexivity|]. cbn [forallb]. rewrite Hc, (IH Hs). reflexivity.
Qed.
Lemma escape_no_lt s : forallb not_lt (escape_cdata s) = true.
Proof.
  unfold escape_cdata. apply replace1_keeps; [reflexivity|]. apply replace1_forall; [reflexivity|].
  intros c Hc. unfold not_lt, LT. apply negb_true_iff. destruct (c =? 60) eqn:E; [apply N.eqb_eq in E; congruence|reflexivity].
Qed.
(** replacing a non-blank character by a text that begins and ends with non-blank characters keeps "trimmed" *)
Lemma replace1_head a b c s : c <> a -> replace1 a b (c :: s) = c :: replace1 a b s.
Proof. intro H. cbn [replace1]. destruct (c =? a) eqn:E; [apply N.eqb_eq in E; congruence|reflexivity]. Qed.
Lemma last_app_ne {A} (a b : list A) d : b <> [] -> last (a ++ b) d = last b d.
Proof.
  intro Hb. induction a as [|x a IH]; [reflexivity|]. cbn [app]. destruct (a ++ b) eqn:E.
  - apply app_eq_nil in E as [_ E]. congruence.
  - rewrite <- E. cbn [last]. rewrite E in *. exact IH.
Qed.
Definition ends_ok (b : text) : Prop :=
  exists c b', b = c :: b' /\ is_space c = false /\ is_space (last b 0) = false.
Lemma stripped_iff x : stripped x = true <-> ends_ok x.
Proof.
  split.
  - intro H. destruct (stripped_inv x H) as (c & x' & -> & H1 & H2). exists c, x'. auto.
  - intros (c & x' & -> & H1 & H2). unfold stripped. rewrite H1, H2. reflexivity.
Qed.
Lemma replace1_stripped a b s : ends_ok b -> stripped s = true -> stripped (replace1 a b s) = true.
Proof.
  intros Hb Hs. apply stripped_iff. apply stripped_iff in Hs. destruct Hb as (cb & b' & -> & Hb1 & Hb2).
  destruct Hs as (c & s' & -> & H1 & H2).
  assert (Hlast : forall s0, s0 <> [] -> is_space (last s0 0) = false -> replace1 a (cb :: b') s0 <> [] /\ is_space (last (replace1 a (cb :: b') s0) 0) = false).
  { induction s0 as [|d s0 IH]; [congruence|]. intros _ Hl. cbn [replace1]. destruct s0 as [|d' s0'].
    - cbn [replace1]. destruct (d =? a); [rewrite app_nil_r; split; [discriminate|exact Hb2]|split; [discriminate|exact Hl]].
    - assert (Hl' : is_space (last (d' :: s0') 0) = false) by exact Hl.
      destruct (IH ltac:(discriminate) Hl') as [Hne Hls]. destruct (d =? a).
      + split; [discriminate|]. rewrite last_app_ne by exact Hne. exact Hls.
      + split; [discriminate|]. destruct (replace1 a (cb :: b') (d' :: s0')) eqn:E; [congruence|]. exact Hls. }
  destruct (Hlast (c :: s') ltac:(discriminate) H2) as [Hne Hl].
  cbn [replace1] in *. destruct (c =? a).
  - exists cb, (b' ++ replace1 a (cb :: b') s')%list. split; [reflexivity|]. split; [exact Hb1|exact Hl].
  - exists c, (replace1 a (cb :: b') s'). split; [reflexivity|]. split; [exact H1|exact Hl].
Qed.
Lemma escape_stripped s : stripped s = true -> stripped (escape_cdata s) = true.
Proof.
  intro H. unfold escape_cdata. repeat apply replace1_stripped; try exact H;
    (eexists _, _; split; [reflexivity|split; reflexivity]).
Qed.
Lemma escape_wf_data s : stripped s = true -> wf_data (escape_cdata s) = true.
Proof. intro H. unfold wf_data. rewrite (escape_stripped s H), escape_no_lt. reflexivity. Qed.

(** ---------------------------------------------------------------- the rendering an html dump is *)
Fixpoint rend_html (e : itree) : rdoc :=
  match e with
  | INode t x tl ch =>
    match ch with
    | [] => match x with
            | Some s => if stripped s then RLeaf t false [] (escape_cdata s) [] true (or_empty tl) else RAgg t [] [] (or_empty tl)
            | None => RAgg t [] [] (or_empty tl)
            end
    | _ :: _ => RAgg t (or_empty x) (map rend_html ch) (or_empty tl)
    end
  end.

Lemma tag_ok_inv he t : tag_ok he t = true ->
  wf_tag t = true /\ text_eqb (lower_ascii t) SCRIPT = false /\ text_eqb (lower_ascii t) STYLE = false
  /\ mem_text (lower_ascii t) he = false.
Proof.
  unfold tag_ok, mem_text. cbn [existsb]. intro H. apply andb_true_iff in H as [Ht H]. apply negb_true_iff in H.
  apply orb_false_iff in H as [H1 H]. apply orb_false_iff in H as [H2 H3]. auto.
Qed.
Lemma truthy_blank_escape o : blank (or_empty o) = true ->
  (if truthy o return list N then escape_cdata (or_empty o) else []) = or_empty o.
Proof. intro H. destruct o as [[|c s]|]; try reflexivity. cbn [truthy]. apply escape_blank. exact H. Qed.
Lemma stripped_truthy s : stripped s = true -> truthy (Some s) = true.
Proof. destruct s; [discriminate|reflexivity]. Qed.
Lemma not_stripped_blank_case s : stripped s = false -> blank s = true -> s = [] \/ True.
Proof. auto. Qed.

Lemma flat_map_render ch (f : itree -> rdoc) :
  flat_map (fun c => render_toks (flatten (f c))) ch = render_toks (flat_map flatten (map f ch)).
Proof.
  induction ch as [|c ch IH]; [reflexivity|]. cbn [flat_map map]. unfold render_toks in *. rewrite flat_map_app, IH. reflexivity.
Qed.
Lemma flat_map_ext_in {A B} (f g : A -> list B) l : (forall a, In a l -> f a = g a) -> flat_map f l = flat_map g l.
Proof. intro H. induction l as [|a l IH]; [reflexivity|]. cbn [flat_map]. rewrite H by (left; reflexivity). rewrite IH; [reflexivity|]. intros; apply H; right; assumption. Qed.

(** an aggregate whose text is not trimmed-non-empty and blank: the html writer emits the blank text *)
Lemma html_render he e : shape_ok he e = true -> html_text he e = render_toks (flatten (rend_html e)).
Proof.
  induction e as [t x tl ch IH] using itree_ind'. intro H. cbn [shape_ok] in H.
  apply andb_true_iff in H as [H Hc]. apply andb_true_iff in H as [Ht Htl].
  destruct (tag_ok_inv he t Ht) as (_ & Hs1 & Hs2 & Hhe).
  cbn [html_text]. rewrite html_children, Hs1, Hs2, Hhe. cbn [orb]. rewrite (truthy_blank_escape tl Htl).
  destruct ch as [|c ch'].
  - cbn [flat_map rend_html]. destruct x as [s|].
    + rewrite Hc. rewrite (stripped_truthy s Hc). cbn [or_empty flatten render_toks flat_map render_tok]. unfold endtag.
      repeat first [rewrite <- app_assoc | rewrite app_nil_r | progress cbn [app]]. reflexivity.
    + cbn [truthy flatten render_toks flat_map render_tok]. unfold endtag.
      repeat first [rewrite <- app_assoc | rewrite app_nil_r | progress cbn [app]]. reflexivity.
  - apply andb_true_iff in Hc as [Hx Hch]. rewrite (truthy_blank_escape x Hx).
    assert (Hf : flat_map (html_text he) (c :: ch') = render_toks (flat_map flatten (map rend_html (c :: ch')))).
    { rewrite <- flat_map_render. apply flat_map_ext_in. intros a Ha. rewrite Forall_forall in IH. apply IH; [exact Ha|].
      rewrite forallb_forall in Hch. apply Hch. exact Ha. }
    rewrite Hf. cbn [rend_html].
    change (flatten (RAgg t (or_empty x) (map rend_html (c :: ch')) (or_empty tl)))
      with (TOpen t (or_empty x) :: (flat_map flatten (map rend_html (c :: ch')) ++ [TClose t (or_empty tl)])%list).
    unfold render_toks at 2. cbn [flat_map]. fold (render_toks (flat_map flatten (map rend_html (c :: ch')) ++ [TClose t (or_empty tl)])).
    unfold render_toks at 2. rewrite flat_map_app. fold (render_toks (flat_map flatten (map rend_html (c :: ch')))).
    cbn [flat_map render_tok]. unfold endtag.
    repeat first [rewrite <- app_assoc | rewrite app_nil_r | progress cbn [app]]. reflexivity.
Qed.

Lemma rend_html_ok he e : shape_ok he e = true ->
  rend_ok (rend_html e) = true /\ erase (rend_html e) = wire_it e /\ wf_doc (wire_it e) = true.
Proof.
  induction e as [t x tl ch IH] using itree_ind'. intro H. cbn [shape_ok] in H.
  apply andb_true_iff in H as [H Hc]. apply andb_true_iff in H as [Ht Htl].
  destruct (tag_ok_inv he t Ht) as (Hwt & _). destruct ch as [|c ch'].
  - cbn [rend_html wire_it]. destruct x as [s|].
    + rewrite Hc. cbn [rend_ok erase wf_doc blank forallb andb]. rewrite Htl, Hwt, (escape_wf_data s Hc). auto.
    + cbn [rend_ok erase wf_doc blank forallb andb rev map]. rewrite Htl, Hwt. auto.
  - apply andb_true_iff in Hc as [Hx Hch].
    assert (Hall : forall a, In a (c :: ch') -> rend_ok (rend_html a) = true /\ erase (rend_html a) = wire_it a /\ wf_doc (wire_it a) = true).
    { intros a Ha. rewrite Forall_forall in IH. apply IH; [exact Ha|]. rewrite forallb_forall in Hch. apply Hch. exact Ha. }
    cbn [rend_html wire_it]. cbn [rend_ok erase wf_doc]. rewrite Hx, Htl, Hwt. cbn [andb]. repeat split.
    + apply andb_true_iff. split.
      * apply forallb_forall. intros y Hy. apply in_map_iff in Hy as (a & <- & Ha). apply (Hall a Ha).
      * apply negb_true_iff. destruct (rev (map rend_html (c :: ch'))) as [|l ls] eqn:E; [reflexivity|].
        assert (Hin : In l (map rend_html (c :: ch'))) by (apply in_rev; rewrite E; left; reflexivity).
        apply in_map_iff in Hin as (a & <- & Ha). destruct a as [ta xa tla [|ca cha]]; cbn [rend_html]; [|reflexivity].
        destruct xa as [sa|]; [|reflexivity]. destruct (stripped sa); reflexivity.
    + f_equal. rewrite map_map. apply map_ext_in. intros a Ha. apply (Hall a Ha).
    + apply forallb_forall. intros y Hy. apply in_map_iff in Hy as (a & <- & Ha). apply (Hall a Ha).
Qed.

(** ---------------------------------------------------------------- indent *)
Lemma blank_ind level : blank (ind level) = true.
Proof. unfold ind. cbn [blank forallb]. induction level as [|k IH]; [reflexivity|]. cbn [spaces2 forallb]. exact IH. Qed.
Lemma blankish_of_blank o : blank (or_empty o) = true -> blankish o = true.
Proof. intro H. unfold blankish. rewrite (strip_blank _ H). reflexivity. Qed.
Lemma blankish_stripped s : stripped s = true -> blankish (Some s) = false.
Proof.
  intro H. unfold blankish. cbn [or_empty]. pose proof (strip_pad [] s [] eq_refl eq_refl H) as E. cbn [app] in E.
  rewrite app_nil_r in E. rewrite E. destruct s; [discriminate|reflexivity].
Qed.

Lemma wire_it_set_tail tl e : wire_it (set_tail tl e) = wire_it e.
Proof. destruct e; reflexivity. Qed.
Lemma shape_ok_set_tail he i e : blank i = true -> shape_ok he e = true -> shape_ok he (set_tail (Some i) e) = true.
Proof.
  intros Hi H. destruct e as [t x tl ch]. cbn [set_tail shape_ok or_empty] in *.
  apply andb_true_iff in H as [H Hc]. apply andb_true_iff in H as [Ht _]. rewrite Ht, Hi, Hc. reflexivity.
Qed.
Lemma fix_last_spec he i l : blank i = true -> forallb (shape_ok he) l = true ->
  forallb (shape_ok he) (fix_last i l) = true /\ map wire_it (fix_last i l) = map wire_it l
  /\ (l <> [] -> fix_last i l <> []).
Proof.
  intros Hi. induction l as [|e l IH]; intro H; [repeat split; auto|].
  cbn [forallb] in H. apply andb_true_iff in H as [He Hl]. destruct l as [|e' l'].
  - cbn [fix_last]. destruct (blankish (itail e)).
    + cbn [forallb map]. rewrite (shape_ok_set_tail he i e Hi He), wire_it_set_tail. repeat split; [discriminate].
    + cbn [forallb map]. rewrite He. repeat split; discriminate.
  - destruct (IH Hl) as (H1 & H2 & H3).
    change (fix_last i (e :: e' :: l')) with (e :: fix_last i (e' :: l')). cbn [forallb map]. rewrite He, H1, H2.
    repeat split; discriminate.
Qed.

Lemma indent_shape he e : forall level, shape_ok he e = true ->
  shape_ok he (indent level e) = true /\ wire_it (indent level e) = wire_it e.
Proof.
  induction e as [t x tl ch IH] using itree_ind'. intros level H. cbn [shape_ok] in H.
  apply andb_true_iff in H as [H Hc]. apply andb_true_iff in H as [Ht Htl].
  destruct ch as [|c ch'].
  - cbn [indent shape_ok wire_it]. rewrite Ht, Hc. cbn [andb]. split; [|reflexivity].
    destruct (negb (Nat.eqb level 0) && blankish tl); [cbn [or_empty]; rewrite blank_ind; reflexivity|rewrite Htl; reflexivity].
  - apply andb_true_iff in Hc as [Hx Hch]. cbn [indent]. rewrite indent_children.
    change (indent (S level) c :: map (indent (S level)) ch') with (map (indent (S level)) (c :: ch')).
    rewrite (blankish_of_blank x Hx), (blankish_of_blank tl Htl).
    assert (Hmap : forallb (shape_ok he) (map (indent (S level)) (c :: ch')) = true
                   /\ map wire_it (map (indent (S level)) (c :: ch')) = map wire_it (c :: ch')).
    { split.
      - apply forallb_forall. intros y Hy. apply in_map_iff in Hy as (a & <- & Ha). rewrite Forall_forall in IH.
        apply IH; [exact Ha|]. rewrite forallb_forall in Hch. apply Hch. exact Ha.
      - rewrite map_map. apply map_ext_in. intros a Ha. rewrite Forall_forall in IH. apply IH; [exact Ha|].
        rewrite forallb_forall in Hch. apply Hch. exact Ha. }
    destruct Hmap as [Hm1 Hm2].
    destruct (fix_last_spec he (ind level) _ (blank_ind level) Hm1) as (Hf1 & Hf2 & Hf3).
    specialize (Hf3 ltac:(discriminate)).
    destruct (fix_last (ind level) (map (indent (S level)) (c :: ch'))) as [|f fs] eqn:Ef; [congruence|].
    cbn [shape_ok wire_it or_empty]. rewrite Ht, blank_ind, Hf1. rewrite Hf2, Hm2.
    assert (Hb : blank (ind level ++ [32; 32]) = true) by (apply blank_app; [apply blank_ind|reflexivity]).
    rewrite Hb. split; reflexivity.
Qed.

(** [indent] changes nothing but blank text and tails *)
Theorem indent_only_adds_whitespace_l he e level : ser_ok he e = true ->
  shape_ok he (indent level (embed e)) = true /\ wire_it (indent level (embed e)) = wire_doc e.
Proof. intro H. apply indent_shape. apply ser_ok_shape. exact H. Qed.

(** ---------------------------------------------------------------- html dumps are renderings *)
Theorem html_is_render_l he e (pretty : bool) : ser_ok he e = true ->
  exists r, wf_doc (wire_doc e) = true /\ ok_rendering [] r (wire_doc e)
            /\ html_text he (if pretty then indent 0 (embed e) else embed e) = render [] r.
Proof.
  intro H. pose proof (ser_ok_shape he e H) as Hs.
  set (it := if pretty then indent 0 (embed e) else embed e).
  assert (Hit : shape_ok he it = true /\ wire_it it = wire_doc e).
  { subst it. destruct pretty; [apply indent_shape; exact Hs|split; [exact Hs|reflexivity]]. }
  destruct Hit as [Hit Hw]. destruct (rend_html_ok he it Hit) as (Hr & He & Hwf).
  exists (rend_html it). rewrite <- Hw. split; [exact Hwf|]. split.
  - split; [exact He|]. split; [exact Hr|reflexivity].
  - unfold render. cbn [app]. apply html_render. exact Hit.
Qed.

(** written with ET.tostring(method="html"), plain or pretty-printed, then parsed: the same tree, text entity-escaped *)
Corollary serialize_then_parse_l he e (pretty : bool) : ser_ok he e = true ->
  parse repaired (html_text he (if pretty then indent 0 (embed e) else embed e)) = OK (Some (tree_of (wire_doc e))).
Proof.
  intro H. destruct (html_is_render_l he e pretty H) as (r & Hwf & Hok & ->).
  apply parse_render_faithful_l; assumption.
Qed.

(** ---------------------------------------------------------------- tostring_unclosed_elements (text escaped: esc = true) *)
Fixpoint rend_unc (e : itree) : rdoc :=
  match e with
  | INode t x tl ch =>
    match ch with
    | [] => RLeaf t false [] (escape_cdata (or_empty x)) [] false (or_empty tl)
    | _ :: _ => RAgg t (or_empty tl) (map rend_unc ch) (or_empty tl)
    end
  end.

Lemma unclosed_render e : unclosed_text true e = render_toks (flatten (rend_unc e)).
Proof.
  induction e as [t x tl ch IH] using itree_ind'. cbn [unclosed_text]. rewrite unclosed_children. destruct ch as [|c ch'].
  - cbn [rend_unc flatten render_toks flat_map render_tok].
    repeat first [rewrite <- app_assoc | rewrite app_nil_r | progress cbn [app]]. reflexivity.
  - assert (Hf : flat_map (unclosed_text true) (c :: ch') = render_toks (flat_map flatten (map rend_unc (c :: ch')))).
    { rewrite <- flat_map_render. apply flat_map_ext_in. intros a Ha. rewrite Forall_forall in IH. apply IH. exact Ha. }
    rewrite Hf. cbn [rend_unc].
    change (flatten (RAgg t (or_empty tl) (map rend_unc (c :: ch')) (or_empty tl)))
      with (TOpen t (or_empty tl) :: (flat_map flatten (map rend_unc (c :: ch')) ++ [TClose t (or_empty tl)])%list).
    unfold render_toks at 2. cbn [flat_map]. fold (render_toks (flat_map flatten (map rend_unc (c :: ch')) ++ [TClose t (or_empty tl)])).
    unfold render_toks at 2. rewrite flat_map_app. fold (render_toks (flat_map flatten (map rend_unc (c :: ch')))).
    cbn [flat_map render_tok]. unfold endtag.
    repeat first [rewrite <- app_assoc | rewrite app_nil_r | progress cbn [app]]. reflexivity.
Qed.

(** documents that have an SGML form without end tags on data elements: no empty aggregate (the writer emits a bare
    start tag for it, which swallows the following siblings) and no data element closing an aggregate of its own name *)
Definition nonempty_l (l : list doc) : bool := match l with [] => false | _ :: _ => true end.
Fixpoint sgml_ok (d : doc) : bool :=
  match d with
  | Leaf _ _ => true
  | Agg t ch =>
    nonempty_l ch && forallb sgml_ok ch
    && negb (match rev ch with Leaf u _ :: _ => text_eqb t u | _ => false end)
  end.

Lemma rend_unc_ok he e : shape_ok he e = true -> sgml_ok (wire_it e) = true ->
  rend_ok (rend_unc e) = true /\ erase (rend_unc e) = wire_it e.
Proof.
  induction e as [t x tl ch IH] using itree_ind'. intros H Hs. cbn [shape_ok] in H.
  apply andb_true_iff in H as [H Hc]. apply andb_true_iff in H as [Ht Htl]. destruct ch as [|c ch'].
  - cbn [wire_it] in Hs. cbn [rend_unc wire_it]. destruct x as [s|]; [|discriminate]. rewrite Hc in *.
    cbn [rend_ok erase or_empty blank forallb andb]. rewrite Htl. auto.
  - apply andb_true_iff in Hc as [Hx Hch]. cbn [wire_it sgml_ok] in Hs.
    apply andb_true_iff in Hs as [Hs Hlast]. apply andb_true_iff in Hs as [_ Hall]. apply negb_true_iff in Hlast.
    assert (Hk : forall a, In a (c :: ch') -> shape_ok he a = true /\ sgml_ok (wire_it a) = true).
    { intros a Ha. split; [rewrite forallb_forall in Hch; apply Hch; exact Ha|].
      rewrite forallb_forall in Hall. apply Hall. apply in_map. exact Ha. }
    assert (Hi : forall a, In a (c :: ch') -> rend_ok (rend_unc a) = true /\ erase (rend_unc a) = wire_it a).
    { intros a Ha. rewrite Forall_forall in IH. destruct (Hk a Ha). apply IH; assumption. }
    cbn [rend_unc wire_it]. cbn [rend_ok erase]. rewrite Htl. cbn [andb]. split.
    + apply andb_true_iff. split.
      * apply forallb_forall. intros y Hy. apply in_map_iff in Hy as (a & <- & Ha). apply (Hi a Ha).
      * apply negb_true_iff. rewrite <- map_rev. rewrite <- map_rev in Hlast.
        destruct (rev (c :: ch')) as [|a ls] eqn:E; [reflexivity|]. cbn [map] in *.
        assert (Ha : In a (c :: ch')) by (apply in_rev; rewrite E; left; reflexivity).
        destruct (Hk a Ha) as [Hsa Hga]. destruct a as [ta xa tla [|ca cha]]; [|reflexivity].
        cbn [rend_unc open_leaf_named]. cbn [wire_it] in Hlast, Hga. cbn [shape_ok] in Hsa.
        destruct xa as [sa|]; [|discriminate]. apply andb_true_iff in Hsa as [_ Hsa]. rewrite Hsa in *. exact Hlast.
    + f_equal. rewrite map_map. apply map_ext_in. intros a Ha. apply (Hi a Ha).
Qed.

Theorem unclosed_is_render_l he e (pretty : bool) : ser_ok he e = true -> sgml_ok (wire_doc e) = true ->
  exists r, wf_doc (wire_doc e) = true /\ ok_rendering [] r (wire_doc e)
            /\ unclosed_text true (if pretty then indent 0 (embed e) else embed e) = render [] r.
Proof.
  intros H Hg. pose proof (ser_ok_shape he e H) as Hs.
  set (it := if pretty then indent 0 (embed e) else embed e).
  assert (Hit : shape_ok he it = true /\ wire_it it = wire_doc e).
  { subst it. destruct pretty; [apply indent_shape; exact Hs|split; [exact Hs|reflexivity]]. }
  destruct Hit as [Hit Hw]. destruct (rend_html_ok he it Hit) as (_ & _ & Hwf).
  rewrite <- Hw in Hg. destruct (rend_unc_ok he it Hit Hg) as (Hr & He).
  exists (rend_unc it). rewrite <- Hw. split; [exact Hwf|]. split.
  - split; [exact He|]. split; [exact Hr|reflexivity].
  - unfold render. cbn [app]. apply unclosed_render.
Qed.
Corollary unclosed_then_parse_l he e (pretty : bool) : ser_ok he e = true -> sgml_ok (wire_doc e) = true ->
  parse repaired (unclosed_text true (if pretty then indent 0 (embed e) else embed e)) = OK (Some (tree_of (wire_doc e))).
Proof.
  intros H Hg. destruct (unclosed_is_render_l he e pretty H Hg) as (r & Hwf & Hok & ->).
  apply parse_render_faithful_l; assumption.
Qed.
