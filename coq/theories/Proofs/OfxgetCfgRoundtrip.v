(** What RawConfigParser.write emits for a clean configuration, the reader reads back unchanged
    (Model/OfxgetCfg.v, C18): parse_text (cfg_write c) = OK c. *)
From OfxV Require Import Base.Prelude Base.Digits Base.OfxgetBase Gen.OfxgetGen Model.OfxgetCfg.
From OfxV Require Import Proofs.OfxgetCfgMerge Proofs.OfxgetCfgParse.
From Coq Require Import Lia.
Local Open Scope N_scope.

(* ------------------------------------------------------------------ the stated domain of file contents *)
Definition no_nl (s : text) : bool := forallb (fun c => negb ((c =? 10) || (c =? 13))) s.
Definition khead_ok (k : text) : bool :=
  match k with
  | c :: _ => negb (is_space c) && negb (c =? 35) && negb (c =? 59) && negb (c =? 91)
  | [] => false
  end.
(** an option name as the reader would hand it back: one line, no surrounding blanks, no delimiter, not
    starting like a comment or a header, lower case *)
Definition clean_key (k : text) : bool :=
  khead_ok k && no_nl k && text_eqb (rstrip k) k && forallb (fun c => negb (is_delim c)) k && text_eqb (lower k) k.
Definition vhead_ok (v : text) : bool := match v with c :: _ => negb (is_space c) | [] => true end.
(** a value: one line, no surrounding blanks *)
Definition clean_value (v : text) : bool := vhead_ok v && no_nl v && text_eqb (rstrip v) v.
Definition clean_name (s : text) : bool := negb (is_nil s) && no_nl s && negb (text_eqb s DEFAULTSECT).
Definition clean_item (kv : text * text) : bool := clean_key (fst kv) && clean_value (snd kv).
Definition clean_section (p : text * section) : bool := clean_name (fst p) && forallb clean_item (snd p).
Record clean_cfg (c : cfg) : Prop := {
  cc_wfk : wfk c;
  cc_defaults : forallb clean_item (c_defaults c) = true;
  cc_sections : forallb clean_section (c_sections c) = true }.

(* ------------------------------------------------------------------ facts about the generated whitespace table *)
Definition space_facts : bool :=
  is_space 10 && is_space 13 && is_space 32 && is_space 9
  && negb (is_space 91) && negb (is_space 93) && negb (is_space 61) && negb (is_space 35) && negb (is_space 59).
Lemma space_facts_true : space_facts = true.
Proof. vm_compute. reflexivity. Qed.
Lemma sp10 : is_space 10 = true. Proof. vm_compute. reflexivity. Qed.
Lemma sp32 : is_space 32 = true. Proof. vm_compute. reflexivity. Qed.
Lemma sp91 : is_space 91 = false. Proof. vm_compute. reflexivity. Qed.
Lemma sp93 : is_space 93 = false. Proof. vm_compute. reflexivity. Qed.
Lemma sp61 : is_space 61 = false. Proof. vm_compute. reflexivity. Qed.

(* ------------------------------------------------------------------ strip *)
Lemma rstrip_snoc_nonspace s c : is_space c = false -> rstrip (s ++ [c]) = s ++ [c].
Proof.
  intro H. induction s as [|x s IH]; cbn [app rstrip].
  - rewrite H. reflexivity.
  - rewrite IH. destruct (s ++ [c]) eqn:E; [destruct s; discriminate | reflexivity].
Qed.
Lemma rstrip_snoc_space s c : is_space c = true -> rstrip (s ++ [c]) = rstrip s.
Proof.
  intro H. induction s as [|x s IH]; cbn [app rstrip].
  - rewrite H. reflexivity.
  - rewrite IH. reflexivity.
Qed.
Lemma rstrip_app_r a v : rstrip v = v -> v <> [] -> rstrip (a ++ v) = a ++ v.
Proof.
  intros Hv Hn. induction a as [|x a IH]; cbn [app rstrip]; [exact Hv|].
  rewrite IH. destruct (a ++ v) eqn:E; [|reflexivity]. destruct a; [cbn in E; contradiction | discriminate].
Qed.
Lemma lstrip_head c s : is_space c = false -> lstrip (c :: s) = c :: s.
Proof. intro H. cbn [lstrip]. rewrite H. reflexivity. Qed.
Lemma lstrip_cons_space c s : is_space c = true -> lstrip (c :: s) = lstrip s.
Proof. intro H. cbn [lstrip]. rewrite H. reflexivity. Qed.
Lemma lstrip_vhead v : vhead_ok v = true -> lstrip v = v.
Proof. destruct v as [|c v]; [reflexivity|]. cbn [vhead_ok]. intro H. apply negb_true_iff in H. apply lstrip_head. exact H. Qed.

(* ------------------------------------------------------------------ lines of a file *)
Lemma unl_id s : forallb (fun c => negb (c =? 13)) s = true -> unl s = s.
Proof.
  induction s as [|c s IH]; [reflexivity|]. cbn [forallb unl]. intro H. apply andb_true_iff in H. destruct H as [H1 H2].
  apply negb_true_iff in H1. rewrite H1, IH by exact H2. reflexivity.
Qed.

Lemma split_aux_line l rest :
  forallb (fun c => negb (c =? 10)) l = true ->
  split_aux 10 (l ++ 10 :: rest) = (l, let (p, ps) := split_aux 10 rest in p :: ps).
Proof.
  induction l as [|c l IH]; intro H.
  - cbn [app split_aux]. destruct (split_aux 10 rest). reflexivity.
  - cbn [forallb] in H. apply andb_true_iff in H. destruct H as [H1 H2]. apply negb_true_iff in H1.
    cbn [app split_aux]. rewrite (IH H2). rewrite H1. reflexivity.
Qed.

Definition nl_lines (ls : list text) : text := List.concat (map (fun l => l ++ [10]) ls).

Lemma split_on_lines ls :
  forallb (fun l => forallb (fun c => negb (c =? 10)) l) ls = true -> split_on 10 (nl_lines ls) = ls ++ [[]].
Proof.
  unfold split_on, nl_lines. induction ls as [|l ls IH]; intro H; [reflexivity|].
  cbn [forallb] in H. apply andb_true_iff in H. destruct H as [H1 H2].
  cbn [map List.concat]. rewrite <- app_assoc. cbn [app]. rewrite (split_aux_line _ _ H1).
  specialize (IH H2). destruct (split_aux 10 (List.concat (map (fun l0 => l0 ++ [10]) ls))) as [p ps]. rewrite IH. reflexivity.
Qed.

Lemma drop_last_empty_snoc ls : drop_last_empty (ls ++ [[]]) = ls.
Proof.
  induction ls as [|l ls IH]; [reflexivity|]. cbn [app]. cbn [drop_last_empty].
  destruct (ls ++ [[]]) eqn:E; [destruct ls; discriminate|]. rewrite IH. reflexivity.
Qed.

Lemma no_nl_10 l : no_nl l = true -> forallb (fun c => negb (c =? 10)) l = true.
Proof.
  unfold no_nl. induction l as [|c l IH]; [reflexivity|]. cbn [forallb]. intro H. apply andb_true_iff in H. destruct H as [H1 H2].
  apply negb_true_iff, orb_false_iff in H1. destruct H1 as [H1 _]. rewrite H1, IH by exact H2. reflexivity.
Qed.
Lemma no_nl_13 l : no_nl l = true -> forallb (fun c => negb (c =? 13)) l = true.
Proof.
  unfold no_nl. induction l as [|c l IH]; [reflexivity|]. cbn [forallb]. intro H. apply andb_true_iff in H. destruct H as [H1 H2].
  apply negb_true_iff, orb_false_iff in H1. destruct H1 as [_ H1]. rewrite H1, IH by exact H2. reflexivity.
Qed.

Lemma forallb_concat {A} (p : A -> bool) ls : forallb (forallb p) ls = true -> forallb p (List.concat ls) = true.
Proof.
  induction ls as [|l ls IH]; [reflexivity|]. cbn [forallb List.concat]. intro H. apply andb_true_iff in H. destruct H as [H1 H2].
  rewrite forallb_app, H1, IH by exact H2. reflexivity.
Qed.

Lemma file_lines_nl ls : forallb no_nl ls = true -> file_lines (nl_lines ls) = ls.
Proof.
  intro H. unfold file_lines. rewrite unl_id.
  - rewrite split_on_lines; [apply drop_last_empty_snoc|].
    rewrite forallb_forall in *. intros l Hl. apply no_nl_10. apply H. exact Hl.
  - unfold nl_lines. apply forallb_concat. rewrite forallb_forall. intros x Hx. apply in_map_iff in Hx. destruct Hx as (l & <- & Hl).
    rewrite forallb_app. rewrite (no_nl_13 l). reflexivity. rewrite forallb_forall in H. apply H. exact Hl.
Qed.

(* ------------------------------------------------------------------ what the writer emits, as lines *)
Definition header_line (name : text) : text := [91] ++ name ++ [93].
Definition item_line (kv : text * text) : text := fst kv ++ [32; 61; 32] ++ snd kv.
Definition section_lines (name : text) (d : section) : list text := header_line name :: map item_line d ++ [[]].
Definition cfg_lines (c : cfg) : list text :=
  (if is_nil (c_defaults c) then [] else section_lines DEFAULTSECT (c_defaults c))
  ++ List.concat (map (fun p => section_lines (fst p) (snd p)) (c_sections c)).

Lemma replace_nl_id v : forallb (fun c => negb (c =? 10)) v = true -> replace_nl v = v.
Proof.
  induction v as [|c v IH]; [reflexivity|]. cbn [forallb replace_nl]. intro H. apply andb_true_iff in H. destruct H as [H1 H2].
  apply negb_true_iff in H1. rewrite H1, IH by exact H2. reflexivity.
Qed.

Lemma clean_item_parts kv : clean_item kv = true ->
  khead_ok (fst kv) = true /\ no_nl (fst kv) = true /\ rstrip (fst kv) = fst kv /\
  forallb (fun c => negb (is_delim c)) (fst kv) = true /\ lower (fst kv) = fst kv /\
  vhead_ok (snd kv) = true /\ no_nl (snd kv) = true /\ rstrip (snd kv) = snd kv.
Proof.
  unfold clean_item, clean_key, clean_value. intro H.
  repeat match goal with X : _ && _ = true |- _ => apply andb_true_iff in X; destruct X end.
  repeat match goal with X : text_eqb _ _ = true |- _ => apply text_eqb_eq in X end. repeat split; assumption.
Qed.

Lemma write_section_lines name d : forallb clean_item d = true ->
  write_section name d = nl_lines (section_lines name d).
Proof.
  intro H. unfold write_section, nl_lines, section_lines, header_line. cbn [map List.concat].
  rewrite map_app, concat_app. cbn [map List.concat]. rewrite <- !app_assoc. cbn [app]. do 5 f_equal.
  rewrite map_map. f_equal. apply map_ext_in. intros kv Hkv.
  rewrite forallb_forall in H. destruct (clean_item_parts _ (H _ Hkv)) as (_ & _ & _ & _ & _ & _ & Hn & _).
  unfold write_item, item_line. rewrite (replace_nl_id _ (no_nl_10 _ Hn)). rewrite <- !app_assoc. reflexivity.
Qed.

Lemma nl_lines_app a b : nl_lines (a ++ b) = nl_lines a ++ nl_lines b.
Proof. unfold nl_lines. rewrite map_app, concat_app. reflexivity. Qed.

Lemma cfg_write_lines c : clean_cfg c -> cfg_write c = nl_lines (cfg_lines c).
Proof.
  intros [_ Hd Hs]. unfold cfg_write, cfg_lines. rewrite nl_lines_app. f_equal.
  - destruct (is_nil (c_defaults c)); [reflexivity | apply write_section_lines; exact Hd].
  - induction (c_sections c) as [|[n d] secs IH]; [reflexivity|]. cbn [forallb] in Hs. apply andb_true_iff in Hs. destruct Hs as [H1 H2].
    cbn [map List.concat fst snd]. rewrite nl_lines_app, IH by exact H2. f_equal. apply write_section_lines.
    unfold clean_section in H1. apply andb_true_iff in H1. apply H1.
Qed.

(* ------------------------------------------------------------------ one line at a time *)
Lemma khead_parts k : khead_ok k = true ->
  exists c r, k = c :: r /\ is_space c = false /\ (c =? 35) = false /\ (c =? 59) = false /\ (c =? 91) = false.
Proof.
  destruct k as [|c r]; cbn [khead_ok]; [discriminate|]. intro H.
  repeat match goal with X : _ && _ = true |- _ => apply andb_true_iff in X; destruct X end.
  repeat match goal with X : negb _ = true |- _ => apply negb_true_iff in X end. exists c, r. repeat split; assumption.
Qed.

Lemma strip_header name : strip (header_line name) = header_line name.
Proof.
  unfold strip, header_line. cbn [app]. rewrite (lstrip_head _ _ sp91).
  change (91 :: name ++ [93]) with ((91 :: name) ++ [93]). apply rstrip_snoc_nonspace. exact sp93.
Qed.

Lemma upto_last_snoc name : upto_last_rbracket (name ++ [93]) = Some name.
Proof. induction name as [|c name IH]; [reflexivity|]. cbn [app upto_last_rbracket]. rewrite IH. reflexivity. Qed.

Lemma section_header_line name : name <> [] -> section_header (header_line name) = Some name.
Proof.
  intro H. unfold header_line, section_header. cbn [app]. rewrite upto_last_snoc. destruct name; [contradiction | reflexivity].
Qed.

(** the stripped form of an item line *)
Definition item_sline (kv : text * text) : text :=
  fst kv ++ [32; 61] ++ match snd kv with [] => [] | _ => 32 :: snd kv end.

Lemma strip_item kv : clean_item kv = true -> strip (item_line kv) = item_sline kv.
Proof.
  intro H. destruct (clean_item_parts _ H) as (Hk & _ & _ & _ & _ & Hv & _ & Hr).
  destruct (khead_parts _ Hk) as (c & r & Ek & Hc & _). destruct kv as [k v]. cbn [fst snd] in *. subst k.
  unfold strip, item_line, item_sline. cbn [fst snd].
  change ((c :: r) ++ [32; 61; 32] ++ v) with (c :: (r ++ [32; 61; 32] ++ v)). rewrite (lstrip_head _ _ Hc).
  destruct v as [|d v].
  - change (c :: r ++ [32; 61; 32] ++ []) with ((c :: r) ++ [32; 61] ++ [32]). rewrite app_assoc.
    rewrite (rstrip_snoc_space _ _ sp32).
    change ((c :: r) ++ [32; 61]) with ((c :: r) ++ [32] ++ [61]). rewrite app_assoc.
    rewrite (rstrip_snoc_nonspace _ _ sp61). rewrite <- app_assoc. reflexivity.
  - change (c :: r ++ [32; 61; 32] ++ d :: v) with ((c :: r) ++ [32; 61; 32] ++ d :: v). rewrite app_assoc.
    rewrite rstrip_app_r by (auto; discriminate). rewrite <- app_assoc. reflexivity.
Qed.

Lemma break_at_app p a d b : forallb (fun c => negb (p c)) a = true -> p d = true -> break_at p (a ++ d :: b) = Some (a, d, b).
Proof.
  intros Ha Hd. induction a as [|c a IH]; cbn [app break_at].
  - rewrite Hd. reflexivity.
  - cbn [forallb] in Ha. apply andb_true_iff in Ha. destruct Ha as [H1 H2]. apply negb_true_iff in H1. rewrite H1, (IH H2). reflexivity.
Qed.

Lemma split_item kv : clean_item kv = true -> split_option (item_sline kv) = Some (fst kv, snd kv).
Proof.
  intro H. destruct (clean_item_parts _ H) as (Hk & _ & Hrk & Hd & _ & Hv & _ & Hrv).
  unfold split_option, item_sline. destruct kv as [k v]. cbn [fst snd] in *.
  replace (k ++ [32; 61] ++ match v with [] => [] | _ :: _ => 32 :: v end)
    with ((k ++ [32]) ++ 61 :: match v with [] => [] | _ :: _ => 32 :: v end) by (rewrite <- app_assoc; reflexivity).
  rewrite break_at_app.
  - rewrite (rstrip_snoc_space _ _ sp32), Hrk. f_equal. f_equal.
    destruct v as [|d v]; [reflexivity|]. unfold strip. rewrite (lstrip_cons_space _ _ sp32), (lstrip_vhead _ Hv). exact Hrv.
  - rewrite forallb_app, Hd. reflexivity.
  - reflexivity.
Qed.

Lemma item_sline_head kv : clean_item kv = true ->
  is_comment (item_sline kv) = false /\ is_nil (item_sline kv) = false /\ section_header (item_sline kv) = None.
Proof.
  intro H. destruct (clean_item_parts _ H) as (Hk & _). destruct (khead_parts _ Hk) as (c & r & Ek & Hc & H35 & H59 & H91).
  unfold item_sline. rewrite Ek. cbn [app is_comment is_nil section_header]. rewrite H35, H59, H91. auto.
Qed.

Lemma item_indent kv : clean_item kv = true -> indent_of (item_line kv) = 0.
Proof.
  intro H. destruct (clean_item_parts _ H) as (Hk & _). destruct (khead_parts _ Hk) as (c & r & Ek & Hc & _).
  unfold item_line. rewrite Ek. cbn [app indent_of]. rewrite Hc. reflexivity.
Qed.

Lemma ltb_0 n : (n <? 0) = false.
Proof. apply N.ltb_ge. lia. Qed.

(** reading one [key = value] line inside section [name] *)
Lemma read_item st name kv :
  rs_cur st = Some name -> clean_item kv = true -> pair_mem name (fst kv) (rs_opts st) = false ->
  read_step st (item_line kv) =
  OK {| rs_cfg := flush st; rs_cur := Some name; rs_pend := Some (fst kv, [snd kv]); rs_indent := 0;
        rs_secs := rs_secs st; rs_opts := (name, fst kv) :: rs_opts st |}.
Proof.
  intros Hcur Hc Hp. unfold read_step. rewrite (strip_item _ Hc).
  destruct (item_sline_head _ Hc) as (H1 & H2 & H3). rewrite H1, H2.
  unfold is_continuation. rewrite (item_indent _ Hc).
  replace (match rs_pend st with Some _ => rs_indent st <? 0 | None => false end) with false by (destruct (rs_pend st); [rewrite ltb_0|]; reflexivity).
  unfold read_header_or_option. rewrite (strip_item _ Hc), H3, Hcur, (split_item _ Hc), (item_indent _ Hc).
  destruct (clean_item_parts _ Hc) as (Hk & _ & _ & _ & Hl & _). destruct (khead_parts _ Hk) as (c & r & Ek & _).
  rewrite Hl. rewrite Ek at 1. cbn [is_nil]. rewrite Hp. reflexivity.
Qed.

Lemma read_blank st : read_step st [] = OK (append_pending st []).
Proof. reflexivity. Qed.

Lemma join_two v : join [10] [v; []] = v ++ [10].
Proof. reflexivity. Qed.

Lemma join_snoc_nil : forall ls, ls <> [] -> join [10] (ls ++ [[]]) = join [10] ls ++ [10].
Proof.
  induction ls as [|l ls IH]; intro H; [contradiction|]. destruct ls as [|l2 ls].
  - reflexivity.
  - change ((l :: l2 :: ls) ++ [[]]) with (l :: (l2 :: ls) ++ [[]]). cbn [join] in *. cbn [app] in *.
    rewrite IH by discriminate. rewrite <- !app_assoc. reflexivity.
Qed.

Lemma flush_blank st : flush (append_pending st []) = flush st.
Proof.
  destruct st as [c cur pend ind secs opts]. unfold flush, append_pending. cbn [rs_pend rs_cur rs_cfg].
  destruct pend as [[k ls]|]; [|reflexivity]. cbn [rs_pend rs_cur rs_cfg].
  destruct cur; [|reflexivity]. f_equal.
  destruct ls as [|l ls]; [reflexivity|]. rewrite join_snoc_nil by discriminate. apply (rstrip_snoc_space _ _ sp10).
Qed.

Lemma read_lines_app : forall a b st, read_lines st (a ++ b) = bind (read_lines st a) (fun st' => read_lines st' b).
Proof.
  induction a as [|l a IH]; intros b st; [reflexivity|]. cbn [app read_lines]. destruct (read_step st l); cbn [bind]; [apply IH | reflexivity].
Qed.

Lemma pair_mem_cons a b x y l : pair_mem a b ((x, y) :: l) = (text_eqb a x && text_eqb b y) || pair_mem a b l.
Proof. reflexivity. Qed.

(* ------------------------------------------------------------------ the items of one section *)
Section Items.
  Variable name : text.
  Variable mk : section -> cfg.
  Hypothesis Hmk : forall d k v, sect_set_opt (mk d) name k v = mk (dset k v d).

  Lemma items_ok : forall items st done,
    rs_cur st = Some name -> flush st = mk done ->
    forallb clean_item items = true -> NoDup (map fst (done ++ items)) ->
    (forall k, In k (map fst items) -> pair_mem name k (rs_opts st) = false) ->
    exists st', read_lines st (map item_line items) = OK st' /\ flush st' = mk (done ++ items) /\ rs_cur st' = Some name /\
                rs_secs st' = rs_secs st /\
                (forall sn k, pair_mem sn k (rs_opts st') = true -> pair_mem sn k (rs_opts st) = true \/ sn = name).
  Proof.
    induction items as [|[k v] items IH]; intros st done Hcur Hfl Hcl Hnd Hpm.
    - exists st. rewrite app_nil_r. cbn [map read_lines]. repeat split; auto.
    - cbn [forallb] in Hcl. apply andb_true_iff in Hcl. destruct Hcl as [Hc1 Hc2].
      cbn [map read_lines]. rewrite (read_item st name (k, v) Hcur Hc1) by (apply Hpm; left; reflexivity). cbn [bind fst snd].
      set (st1 := {| rs_cfg := flush st; rs_cur := Some name; rs_pend := Some (k, [v]); rs_indent := 0;
                     rs_secs := rs_secs st; rs_opts := (name, k) :: rs_opts st |}).
      destruct (clean_item_parts _ Hc1) as (_ & _ & _ & _ & _ & _ & _ & Hrv). cbn [snd] in Hrv.
      assert (Hk : ~ In k (map fst done)).
      { rewrite map_app in Hnd. cbn [map fst] in Hnd. apply NoDup_remove_2 in Hnd. intro Hin. apply Hnd. apply in_or_app. left. exact Hin. }
      assert (Hfl1 : flush st1 = mk (done ++ [(k, v)])).
      { unfold flush, st1. cbn [rs_pend rs_cur rs_cfg join]. rewrite Hrv, Hfl, Hmk, dset_new by exact Hk. reflexivity. }
      destruct (IH st1 (done ++ [(k, v)])) as (st' & Hr & Hf & Hc & Hs & Ho); auto.
      + rewrite <- app_assoc. exact Hnd.
      + intros k' Hk'. unfold st1. cbn [rs_opts]. rewrite pair_mem_cons, text_eqb_refl. cbn [andb].
        rewrite (Hpm k') by (right; exact Hk'). rewrite orb_false_r. apply text_eqb_neq. intros ->.
        rewrite map_app in Hnd. cbn [map fst] in Hnd. apply NoDup_remove_2 in Hnd. apply Hnd. apply in_or_app. right. exact Hk'.
      + exists st'. rewrite <- app_assoc in Hf. repeat split; auto.
        intros sn k' Hp. destruct (Ho _ _ Hp) as [Hq|Hq]; [|auto].
        unfold st1 in Hq. cbn [rs_opts] in Hq. rewrite pair_mem_cons in Hq. apply orb_true_iff in Hq. destruct Hq as [Hq|Hq]; [|auto].
        apply andb_true_iff in Hq. destruct Hq as [Hq _]. apply text_eqb_eq in Hq. auto.
  Qed.
End Items.

Lemma sect_set_last D pre name d k v : ~ In name (map fst pre) ->
  sect_set_opt {| c_defaults := D; c_sections := pre ++ [(name, d)] |} name k v =
  {| c_defaults := D; c_sections := pre ++ [(name, dset k v d)] |}.
Proof.
  intro H. unfold sect_set_opt. cbn [c_sections c_defaults]. rewrite (assoc_app_last _ _ _ H), (dset_app_last _ _ _ _ H). reflexivity.
Qed.
Lemma sect_set_default d pre k v : has_key DEFAULTSECT pre = false ->
  sect_set_opt {| c_defaults := d; c_sections := pre |} DEFAULTSECT k v = {| c_defaults := dset k v d; c_sections := pre |}.
Proof.
  intro H. unfold sect_set_opt, has_key in *. cbn [c_sections c_defaults]. destruct (assoc DEFAULTSECT pre); [discriminate | reflexivity].
Qed.

(** the invariants on the duplicate-detection sets: only names of sections already read *)
Definition secs_inv (st : rstate) (pre : dict section) : Prop :=
  (forall n, mem_text n (rs_secs st) = true -> In n (map fst pre)) /\
  (forall sn k, pair_mem sn k (rs_opts st) = true -> In sn (map fst pre) \/ sn = DEFAULTSECT).

Lemma header_step st name :
  name <> [] -> no_nl name = true ->
  read_step st (header_line name) = read_header_or_option st (header_line name)
  /\ strip (header_line name) = header_line name /\ section_header (header_line name) = Some name /\ indent_of (header_line name) = 0.
Proof.
  intros Hn _. unfold read_step. rewrite strip_header. unfold header_line at 1 2. cbn [app is_comment is_nil N.eqb orb].
  assert (Hi : indent_of (header_line name) = 0) by (unfold header_line; cbn [app indent_of]; rewrite sp91; reflexivity).
  unfold is_continuation. rewrite Hi.
  replace (match rs_pend st with Some _ => rs_indent st <? 0 | None => false end) with false by (destruct (rs_pend st); [rewrite ltb_0|]; reflexivity).
  repeat split; auto using strip_header, section_header_line.
Qed.

(** reading one whole section that the state does not know yet *)
Lemma section_ok st D pre name d :
  flush st = {| c_defaults := D; c_sections := pre |} -> secs_inv st pre ->
  clean_section (name, d) = true -> ~ In name (map fst pre) -> NoDup (map fst d) ->
  exists st', read_lines st (section_lines name d) = OK st' /\
              flush st' = {| c_defaults := D; c_sections := pre ++ [(name, d)] |} /\ secs_inv st' (pre ++ [(name, d)]).
Proof.
  intros Hfl [I1 I2] Hcl Hnew Hnd. unfold clean_section in Hcl. cbn [fst snd] in Hcl. apply andb_true_iff in Hcl. destruct Hcl as [Hname Hitems].
  unfold clean_name in Hname. repeat match goal with X : _ && _ = true |- _ => apply andb_true_iff in X; destruct X end.
  assert (Hne : name <> []) by (destruct name; [discriminate | discriminate]).
  assert (Hnd' : text_eqb name DEFAULTSECT = false) by (apply negb_true_iff; assumption).
  destruct (header_step st name Hne) as (Hs1 & Hs2 & Hs3 & Hs4); [assumption|].
  unfold section_lines. cbn [read_lines]. rewrite Hs1. unfold read_header_or_option. rewrite Hs2, Hs3, Hs4, Hfl. cbn [c_sections c_defaults].
  replace (has_key name pre) with false by (symmetry; apply has_key_false; exact Hnew). rewrite Hnd'.
  replace (mem_text name (rs_secs st)) with (mem_text name (rs_secs st)) by reflexivity. cbn [bind].
  set (st1 := {| rs_cfg := {| c_defaults := D; c_sections := pre ++ [(name, [])] |}; rs_cur := Some name; rs_pend := None; rs_indent := 0;
                 rs_secs := name :: rs_secs st; rs_opts := rs_opts st |}).
  rewrite read_lines_app.
  destruct (items_ok name (fun x => {| c_defaults := D; c_sections := pre ++ [(name, x)] |})
                     (fun x k v => sect_set_last D pre name x k v Hnew) d st1 []) as (st2 & Hr & Hf & Hc & Hsec & Hop); auto.
  - intros k Hk. destruct (pair_mem name k (rs_opts st1)) eqn:E; [|reflexivity]. unfold st1 in E. cbn [rs_opts] in E.
    destruct (I2 _ _ E) as [Hin|Hd]; [contradiction|]. subst name. rewrite text_eqb_refl in Hnd'. discriminate.
  - rewrite Hr. cbn [bind read_lines]. rewrite read_blank. cbn [bind]. eexists. split; [reflexivity|]. split.
    + rewrite flush_blank. exact Hf.
    + unfold secs_inv. unfold append_pending. split.
      * intros n Hn. replace (rs_secs (match rs_pend st2 with Some (k, ls) => _ | None => st2 end)) with (rs_secs st2) in Hn by (destruct (rs_pend st2) as [[? ?]|]; reflexivity).
        rewrite Hsec in Hn. unfold st1 in Hn. cbn [rs_secs mem_text existsb] in Hn. rewrite map_app. cbn [map fst]. apply in_or_app.
        apply orb_true_iff in Hn. destruct Hn as [Hn|Hn]; [apply text_eqb_eq in Hn; subst; right; left; reflexivity | left; apply I1; exact Hn].
      * intros sn k Hp. replace (rs_opts (match rs_pend st2 with Some (k, ls) => _ | None => st2 end)) with (rs_opts st2) in Hp by (destruct (rs_pend st2) as [[? ?]|]; reflexivity).
        rewrite map_app. cbn [map fst]. destruct (Hop _ _ Hp) as [Hq|Hq].
        { unfold st1 in Hq. cbn [rs_opts] in Hq. destruct (I2 _ _ Hq); [left; apply in_or_app; auto | auto]. }
        { subst sn. left. apply in_or_app. right. left. reflexivity. }
Qed.

(* ------------------------------------------------------------------ the whole file *)
Definition st0 : rstate := {| rs_cfg := empty_cfg; rs_cur := None; rs_pend := None; rs_indent := 0; rs_secs := []; rs_opts := [] |}.

Lemma default_ok d :
  forallb clean_item d = true -> NoDup (map fst d) ->
  exists st', read_lines st0 (section_lines DEFAULTSECT d) = OK st' /\
              flush st' = {| c_defaults := d; c_sections := [] |} /\ secs_inv st' [].
Proof.
  intros Hcl Hnd.
  assert (Hne : DEFAULTSECT <> []) by discriminate.
  destruct (header_step st0 DEFAULTSECT Hne) as (Hs1 & Hs2 & Hs3 & Hs4); [reflexivity|].
  unfold section_lines. cbn [read_lines]. rewrite Hs1. unfold read_header_or_option. rewrite Hs2, Hs3, Hs4.
  change (flush st0) with empty_cfg. cbn [empty_cfg c_sections c_defaults has_key assoc]. rewrite text_eqb_refl. cbn [bind].
  match goal with |- context [read_lines ?s (map item_line d ++ _)] => set (st1 := s) end.
  rewrite read_lines_app.
  destruct (items_ok DEFAULTSECT (fun x => {| c_defaults := x; c_sections := [] |})
                     (fun x k v => sect_set_default x [] k v eq_refl) d st1 []) as (st2 & Hr & Hf & Hc & Hsec & Hop); auto.
  rewrite Hr. cbn [bind read_lines]. rewrite read_blank. cbn [bind]. eexists. split; [reflexivity|]. split.
  - rewrite flush_blank. exact Hf.
  - unfold secs_inv, append_pending. split.
    + intros n Hn. replace (rs_secs (match rs_pend st2 with Some (k, ls) => _ | None => st2 end)) with (rs_secs st2) in Hn by (destruct (rs_pend st2) as [[? ?]|]; reflexivity).
      rewrite Hsec in Hn. discriminate.
    + intros sn k Hp. replace (rs_opts (match rs_pend st2 with Some (k, ls) => _ | None => st2 end)) with (rs_opts st2) in Hp by (destruct (rs_pend st2) as [[? ?]|]; reflexivity).
      destruct (Hop _ _ Hp) as [Hq|Hq]; [discriminate | auto].
Qed.

Lemma sections_ok : forall secs st D pre,
  flush st = {| c_defaults := D; c_sections := pre |} -> secs_inv st pre ->
  forallb clean_section secs = true -> NoDup (map fst (pre ++ secs)) -> Forall (fun p => NoDup (map fst (snd p))) secs ->
  exists st', read_lines st (List.concat (map (fun p => section_lines (fst p) (snd p)) secs)) = OK st' /\
              flush st' = {| c_defaults := D; c_sections := pre ++ secs |}.
Proof.
  induction secs as [|[name d] secs IH]; intros st D pre Hfl Hinv Hcl Hnd Hu.
  - exists st. rewrite app_nil_r. auto.
  - cbn [forallb] in Hcl. apply andb_true_iff in Hcl. destruct Hcl as [Hc1 Hc2]. inversion Hu as [|? ? Hu1 Hu2]; subst.
    cbn [map List.concat fst snd]. rewrite read_lines_app.
    assert (Hnew : ~ In name (map fst pre)).
    { rewrite map_app in Hnd. cbn [map fst] in Hnd. apply NoDup_remove_2 in Hnd. intro Hin. apply Hnd. apply in_or_app. left. exact Hin. }
    destruct (section_ok st D pre name d Hfl Hinv Hc1 Hnew Hu1) as (st1 & Hr1 & Hf1 & Hi1). rewrite Hr1. cbn [bind].
    destruct (IH st1 D (pre ++ [(name, d)]) Hf1 Hi1 Hc2) as (st2 & Hr2 & Hf2); auto.
    + rewrite <- app_assoc. exact Hnd.
    + exists st2. rewrite <- app_assoc in Hf2. auto.
Qed.

Lemma no_nl_app a b : no_nl (a ++ b) = no_nl a && no_nl b.
Proof. apply forallb_app. Qed.

Lemma section_lines_no_nl name d : no_nl name = true -> forallb clean_item d = true -> forallb no_nl (section_lines name d) = true.
Proof.
  intros Hn Hd. unfold section_lines. cbn [forallb]. apply andb_true_iff. split.
  - unfold header_line. rewrite !no_nl_app, Hn. reflexivity.
  - rewrite forallb_app. cbn [forallb]. rewrite andb_true_r. rewrite forallb_forall. intros l Hl.
    apply in_map_iff in Hl. destruct Hl as (kv & <- & Hkv). rewrite forallb_forall in Hd.
    destruct (clean_item_parts _ (Hd _ Hkv)) as (_ & Hk & _ & _ & _ & _ & Hv & _).
    unfold item_line. rewrite !no_nl_app, Hk, Hv. reflexivity.
Qed.

Lemma cfg_lines_no_nl c : clean_cfg c -> forallb no_nl (cfg_lines c) = true.
Proof.
  intros [_ Hd Hs]. unfold cfg_lines. rewrite forallb_app. apply andb_true_iff. split.
  - destruct (is_nil (c_defaults c)); [reflexivity|]. apply section_lines_no_nl; [reflexivity | exact Hd].
  - apply forallb_concat. rewrite forallb_forall. intros ls Hls. apply in_map_iff in Hls. destruct Hls as ([n d] & <- & Hin).
    rewrite forallb_forall in Hs. specialize (Hs _ Hin). unfold clean_section in Hs. cbn [fst snd] in *.
    apply andb_true_iff in Hs. destruct Hs as [Hn Hd']. unfold clean_name in Hn.
    repeat match goal with X : _ && _ = true |- _ => apply andb_true_iff in X; destruct X end.
    apply section_lines_no_nl; assumption.
Qed.

(** what the writer emits, the reader reads back unchanged *)
Theorem parse_write_roundtrip c : clean_cfg c -> parse_text (cfg_write c) = OK c.
Proof.
  intro Hc. pose proof Hc as [Hw Hd Hs]. destruct Hw as [Wd Wn Ws Wnd].
  unfold parse_text. rewrite (cfg_write_lines _ Hc), (file_lines_nl _ (cfg_lines_no_nl _ Hc)).
  change {| rs_cfg := empty_cfg; rs_cur := None; rs_pend := None; rs_indent := 0; rs_secs := []; rs_opts := [] |} with st0.
  unfold cfg_lines. rewrite read_lines_app.
  assert (Hstart : exists st1, read_lines st0 (if is_nil (c_defaults c) then [] else section_lines DEFAULTSECT (c_defaults c)) = OK st1 /\
                               flush st1 = {| c_defaults := c_defaults c; c_sections := [] |} /\ secs_inv st1 []).
  { destruct (c_defaults c) as [|kv d] eqn:E.
    - exists st0. cbn [is_nil read_lines]. repeat split; intros; discriminate.
    - cbn [is_nil]. apply default_ok; [exact Hd | exact Wd]. }
  destruct Hstart as (st1 & Hr1 & Hf1 & Hi1). rewrite Hr1. cbn [bind].
  destruct (sections_ok (c_sections c) st1 (c_defaults c) [] Hf1 Hi1 Hs) as (st2 & Hr2 & Hf2); auto.
  rewrite Hr2. cbn [bind]. rewrite Hf2. cbn [app]. destruct c; reflexivity.
Qed.
