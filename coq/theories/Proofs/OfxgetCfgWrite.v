(** mk_server_cfg / write_config (Model/OfxgetCfg.v, C18): what ends up in the nickname's section and in
    [DEFAULT], and that a clean configuration stays clean. *)
From OfxV Require Import Base.Prelude Base.Digits Base.OfxgetBase Gen.OfxgetGen Model.OfxgetCfg.
From OfxV Require Import Proofs.OfxgetCfgMerge Proofs.OfxgetCfgParse Proofs.OfxgetCfgRoundtrip Proofs.OfxgetCfgValues.
From Coq Require Import Lia.
Local Open Scope N_scope.

(* ------------------------------------------------------------------ setting one option of an existing section *)
Lemma has_key_assoc {A} k (m : dict A) : has_key k m = true -> exists v, assoc k m = Some v.
Proof. unfold has_key. destruct (assoc k m); [eauto | discriminate]. Qed.

Lemma sect_set_section c s k v o :
  has_key s (c_sections c) = true ->
  sec_get (sect_set_opt c s k v) s o = (if text_eqb o k then Some v else sec_get c s o)
  /\ c_defaults (sect_set_opt c s k v) = c_defaults c
  /\ has_key s (c_sections (sect_set_opt c s k v)) = true.
Proof.
  intro H. destruct (has_key_assoc _ _ H) as (d & E). unfold sect_set_opt, sec_get. rewrite E. cbn [c_sections c_defaults].
  rewrite assoc_dset, text_eqb_refl, assoc_dset. repeat split; auto. rewrite has_key_dset, text_eqb_refl. reflexivity.
Qed.

Lemma forallb_dset {A} (p : text * A -> bool) k v m :
  forallb p m = true -> p (k, v) = true -> forallb p (dset k v m) = true.
Proof.
  intros Hm Hp. induction m as [|[k0 v0] m IH]; cbn [dset forallb] in *; [rewrite Hp; reflexivity|].
  apply andb_true_iff in Hm. destruct Hm as [H1 H2]. destruct (text_eqb k k0) eqn:E; cbn [forallb].
  - apply text_eqb_eq in E. subst k0. rewrite Hp, H2. reflexivity.
  - rewrite H1, IH by exact H2. reflexivity.
Qed.

Lemma forallb_assoc {A} (p : text * A -> bool) k m v : forallb p m = true -> assoc k m = Some v -> p (k, v) = true.
Proof. intros H E. apply assoc_In in E. rewrite forallb_forall in H. apply (H _ E). Qed.

Lemma clean_set c s k v :
  clean_cfg c -> has_key s (c_sections c) = true -> clean_key k = true -> clean_value v = true ->
  clean_cfg (sect_set_opt c s k v).
Proof.
  intros [Hw Hd Hs] H Hk Hv. destruct (has_key_assoc _ _ H) as (d & E). constructor.
  - apply wfk_set. exact Hw.
  - unfold sect_set_opt. rewrite E. exact Hd.
  - unfold sect_set_opt. rewrite E. cbn [c_sections]. apply forallb_dset; [exact Hs|].
    pose proof (forallb_assoc _ _ _ _ Hs E) as Hc. unfold clean_section in *. cbn [fst snd] in *.
    apply andb_true_iff in Hc. destruct Hc as [Hn Hi]. rewrite Hn. cbn [andb].
    apply forallb_dset; [exact Hi|]. unfold clean_item. cbn [fst snd]. rewrite Hk, Hv. reflexivity.
Qed.

(* ------------------------------------------------------------------ the loop over CONFIGURABLE *)
(** the text the loop stores for option [o], if it stores one *)
Definition will_write (a : args) (lib_cfg : amap) (duid : option text) (o : text) (ty : oty) : option text :=
  match args_get a o with
  | Some v => match test_cfg_val duid lib_cfg o v with
              | OK true => match arg2config ty v with OK t => Some t | Err _ => None end
              | _ => None
              end
  | None => None
  end.

Lemma cfg_loop_spec a lib_cfg s : forall opts c c',
  cfg_loop a lib_cfg s c opts = OK c' -> has_key s (c_sections c) = true -> NoDup (map fst opts) ->
  c_defaults c' = c_defaults c /\ has_key s (c_sections c') = true /\
  (forall o, sec_get c' s o =
             match assoc o opts with
             | Some ty => match will_write a lib_cfg (assoc (T "clientuid") (c_defaults c)) o ty with
                          | Some t => Some t
                          | None => sec_get c s o
                          end
             | None => sec_get c s o
             end) /\
  (clean_cfg c ->
   (forall o ty t, In (o, ty) opts -> will_write a lib_cfg (assoc (T "clientuid") (c_defaults c)) o ty = Some t ->
                   clean_key o = true /\ clean_value t = true) ->
   clean_cfg c').
Proof.
  induction opts as [|[o1 ty1] opts IH]; intros c c' H Hs Hnd; cbn [cfg_loop] in H.
  - apply OK_inj in H. subst c'. split; [reflexivity|]. split; [exact Hs|]. split; [intro o; reflexivity | intros Hc _; exact Hc].
  - cbn [map fst] in Hnd. inversion Hnd as [|? ? Hn1 Hnd']; subst.
    assert (Skip : cfg_loop a lib_cfg s c opts = OK c' ->
                   will_write a lib_cfg (assoc (T "clientuid") (c_defaults c)) o1 ty1 = None ->
                   c_defaults c' = c_defaults c /\ has_key s (c_sections c') = true /\
                   (forall o, sec_get c' s o =
                              match assoc o ((o1, ty1) :: opts) with
                              | Some ty => match will_write a lib_cfg (assoc (T "clientuid") (c_defaults c)) o ty with
                                           | Some t => Some t
                                           | None => sec_get c s o
                                           end
                              | None => sec_get c s o
                              end) /\
                   (clean_cfg c ->
                    (forall o ty t, In (o, ty) ((o1, ty1) :: opts) -> will_write a lib_cfg (assoc (T "clientuid") (c_defaults c)) o ty = Some t ->
                                    clean_key o = true /\ clean_value t = true) -> clean_cfg c')).
    { intros H' Hw. destruct (IH _ _ H' Hs Hnd') as (I1 & I2 & I3 & I4). split; [exact I1|]. split; [exact I2|]. split.
      - intro o. rewrite I3. cbn [assoc]. destruct (text_eqb o o1) eqn:E; [|reflexivity].
        apply text_eqb_eq in E. subst o. rewrite Hw. apply assoc_None_keys in Hn1. rewrite Hn1. reflexivity.
      - intros Hc Hcl. apply I4; auto. intros o ty t Hin. apply Hcl. right. exact Hin. }
    unfold will_write in Skip. destruct (args_get a o1) as [v|] eqn:Ev; [|apply Skip; auto].
    apply bind_ok in H. destruct H as (w & Hw & H). rewrite Hw in Skip. destruct w; [|apply Skip; auto].
    apply bind_ok in H. destruct H as (t1 & Ht1 & H). clear Skip.
    destruct (sect_set_section c s o1 t1 o1 Hs) as (_ & Sd & Sh).
    destruct (IH _ _ H Sh Hnd') as (I1 & I2 & I3 & I4). rewrite Sd in *. split; [exact I1|]. split; [exact I2|]. split.
    + intro o. rewrite I3. destruct (sect_set_section c s o1 t1 o Hs) as (Sg & _ & _). rewrite Sg. cbn [assoc].
      destruct (text_eqb o o1) eqn:E.
      * apply text_eqb_eq in E. subst o. apply assoc_None_keys in Hn1. rewrite Hn1.
        unfold will_write. rewrite Ev, Hw, Ht1. reflexivity.
      * reflexivity.
    + intros Hc Hcl. apply I4.
      * destruct (Hcl o1 ty1 t1) as [K1 K2]; [left; reflexivity | unfold will_write; rewrite Ev, Hw, Ht1; reflexivity|].
        apply clean_set; auto.
      * intros o ty t Hin. apply Hcl. right. exact Hin.
Qed.

(* ------------------------------------------------------------------ the configuration mk_server_cfg starts from *)
Lemma merge_into_empty : forall (secs pre : dict section), NoDup (map fst (pre ++ secs)) -> fold_left merge_section secs pre = pre ++ secs.
Proof.
  induction secs as [|[n d] secs IH]; intros pre H; cbn [fold_left]; [rewrite app_nil_r; reflexivity|].
  unfold merge_section at 2. cbn [fst snd].
  assert (E : assoc n pre = None).
  { apply assoc_None_keys. rewrite map_app in H. cbn [map fst] in H. apply NoDup_remove_2 in H. intro Hin. apply H. apply in_or_app. left. exact Hin. }
  rewrite E, IH; [rewrite <- app_assoc; reflexivity|]. rewrite <- app_assoc. exact H.
Qed.

Lemma ukeys_dmerge {A} : forall (d d0 : dict A), ukeys d0 -> ukeys (dmerge d0 d).
Proof.
  unfold dmerge. induction d as [|[k v] d IH]; intros d0 H; cbn [fold_left fst snd]; [exact H|]. apply IH. apply ukeys_dset. exact H.
Qed.
Lemma clean_dmerge : forall (d d0 : section), forallb clean_item d0 = true -> forallb clean_item d = true -> forallb clean_item (dmerge d0 d) = true.
Proof.
  unfold dmerge. induction d as [|[k v] d IH]; intros d0 H0 Hd; cbn [fold_left fst snd]; [exact H0|].
  cbn [forallb] in Hd. apply andb_true_iff in Hd. destruct Hd as [H1 H2]. apply IH; [|exact H2]. apply forallb_dset; assumption.
Qed.

(** USERCFG.clear(); USERCFG.read(USERCONFIGPATH): the user's file on top of the retained [DEFAULT] entries *)
Definition start_cfg (memd : section) (cu : cfg) : cfg :=
  {| c_defaults := dmerge memd (c_defaults cu); c_sections := c_sections cu |}.

Lemma read_user_start memd user cu c1 :
  parse_opt user = OK cu -> read_files {| c_defaults := memd; c_sections := [] |} [user] = OK c1 -> c1 = start_cfg memd cu.
Proof.
  intros Hcu H. destruct user as [u|]; cbn [parse_opt read_files] in *.
  - apply bind_ok in H. destruct H as (c1' & H & E). apply OK_inj in E. subst c1'. unfold read_text in H. rewrite Hcu in H. cbn [bind] in H.
    apply OK_inj in H. subst c1. unfold cfg_merge, start_cfg. cbn [c_defaults c_sections]. f_equal.
    apply (merge_into_empty _ []). cbn [app]. apply (wfk_names _ (parse_text_wfk _ _ Hcu)).
  - apply OK_inj in Hcu. apply OK_inj in H. subst. reflexivity.
Qed.

Lemma clean_start memd cu : ukeys memd -> forallb clean_item memd = true -> clean_cfg cu -> clean_cfg (start_cfg memd cu).
Proof.
  intros Hu Hm [[Wd Wn Ws Wnd] Hd Hs]. constructor.
  - constructor; cbn [start_cfg c_defaults c_sections]; auto. apply ukeys_dmerge. exact Hu.
  - cbn [start_cfg c_defaults]. apply clean_dmerge; assumption.
  - exact Hs.
Qed.

Definition clientuid_key_facts : bool := clean_key (T "clientuid") && forallb (fun p => clean_key (fst p)) og_configurable.
Lemma clientuid_key_facts_true : clientuid_key_facts = true.
Proof. vm_compute. reflexivity. Qed.
Lemma configurable_keys_clean o ty : In (o, ty) og_configurable -> clean_key o = true.
Proof.
  intro H. pose proof clientuid_key_facts_true as F. unfold clientuid_key_facts in F. apply andb_true_iff in F. destruct F as [_ F].
  rewrite forallb_forall in F. apply (F _ H).
Qed.
Lemma configurable_nodup : NoDup (map fst og_configurable).
Proof.
  assert (H : forall l : list text, (fix nd (l : list text) : bool := match l with [] => true | x :: r => negb (mem_text x r) && nd r end) l = true -> NoDup l).
  { induction l as [|x l IH]; intro H; [constructor|]. apply andb_true_iff in H. destruct H as [H1 H2]. constructor; [|auto].
    intro Hin. apply mem_text_In in Hin. rewrite Hin in H1. discriminate. }
  apply H. vm_compute. reflexivity.
Qed.

(** mk_server_cfg, for a nickname other than "DEFAULT" *)
Lemma mk_server_cfg_spec uuid a memd user lib cw cu :
  mk_server_cfg uuid a memd user lib = OK cw -> parse_opt user = OK cu ->
  exists s lib_cfg,
    get_or a (T "server") PNone = PStr s /\ s <> [] /\ read_config lib s = OK lib_cfg /\
    let defs1 := dmerge memd (c_defaults cu) in
    let duid := match assoc (T "clientuid") defs1 with Some u => u | None => uuid end in
    (text_eqb s DEFAULTSECT = false ->
       has_key s (c_sections cw) = true /\
       (forall o, assoc o (c_defaults cw) = if text_eqb o (T "clientuid") then Some duid else assoc o defs1) /\
       (forall o, sec_get cw s o =
                  match assoc o og_configurable with
                  | Some ty => match will_write a lib_cfg (Some duid) o ty with Some t => Some t | None => sec_get cu s o end
                  | None => sec_get cu s o
                  end) /\
       (ukeys memd -> forallb clean_item memd = true -> clean_cfg cu -> clean_value uuid = true -> clean_name s = true ->
        (forall o ty t, In (o, ty) og_configurable -> will_write a lib_cfg (Some duid) o ty = Some t -> clean_value t = true) ->
        clean_cfg cw)).
Proof.
  unfold mk_server_cfg. intros H Hcu. apply bind_ok in H. destruct H as (c1 & H1 & H).
  rewrite (read_user_start _ _ _ _ Hcu H1) in *. clear H1 c1.
  set (defs1 := dmerge memd (c_defaults cu)) in *.
  set (duid := match assoc (T "clientuid") defs1 with Some u => u | None => uuid end).
  set (c2 := if has_key (T "clientuid") (c_defaults (start_cfg memd cu)) then start_cfg memd cu else _) in H.
  assert (D2 : forall o, assoc o (c_defaults c2) = if text_eqb o (T "clientuid") then Some duid else assoc o defs1).
  { intro o. subst c2 duid. cbn [start_cfg c_defaults]. fold defs1. unfold has_key. destruct (assoc (T "clientuid") defs1) as [u|] eqn:E.
    - cbn [start_cfg c_defaults]. fold defs1. destruct (text_eqb o (T "clientuid")) eqn:Eo; [apply text_eqb_eq in Eo; subst o; exact E | reflexivity].
    - cbn [c_defaults]. rewrite assoc_dset. reflexivity. }
  assert (S2 : c_sections c2 = c_sections cu) by (subst c2; destruct (has_key _ _); reflexivity).
  destruct (args_get a (T "url")) as [url|]; [|discriminate].
  destruct (negb (py_truthy (get_or a (T "server") PNone)) || py_eq (get_or a (T "server") PNone) url) eqn:Esrv; [discriminate|].
  apply orb_false_iff in Esrv. destruct Esrv as [Etr _]. apply negb_false_iff in Etr.
  destruct (get_or a (T "server") PNone) as [|s| | |] eqn:Es; try discriminate.
  apply bind_ok in H. destruct H as (lib_cfg & Hlib & H).
  exists s, lib_cfg. split; [reflexivity|]. split; [destruct s; [discriminate | discriminate]|]. split; [exact Hlib|].
  cbv zeta. fold defs1. fold duid. intro Hnd. rewrite Hnd in H.
  set (c3 := if has_key s (c_sections c2) then c2 else _) in H.
  assert (H3 : has_key s (c_sections c3) = true).
  { subst c3. destruct (has_key s (c_sections c2)) eqn:E; [exact E|]. cbn [c_sections]. rewrite has_key_app. unfold has_key at 2. cbn [assoc].
    rewrite text_eqb_refl. apply orb_true_r. }
  assert (D3 : c_defaults c3 = c_defaults c2) by (subst c3; destruct (has_key s (c_sections c2)); reflexivity).
  assert (G3 : forall o, sec_get c3 s o = sec_get cu s o).
  { intro o. subst c3. unfold sec_get. destruct (has_key s (c_sections c2)) eqn:E.
    - rewrite S2. reflexivity.
    - cbn [c_sections]. rewrite assoc_app. unfold has_key in E. rewrite S2 in *. destruct (assoc s (c_sections cu)); [discriminate|].
      cbn [assoc]. rewrite text_eqb_refl. reflexivity. }
  destruct (cfg_loop_spec _ _ _ _ _ _ H H3 configurable_nodup) as (L1 & L2 & L3 & L4).
  assert (Duid : assoc (T "clientuid") (c_defaults c3) = Some duid).
  { rewrite D3, D2. reflexivity. }
  rewrite Duid in *. split; [exact L2|]. split; [|split].
  - intro o. rewrite L1, D3. apply D2.
  - intro o. rewrite L3, G3. reflexivity.
  - intros Hu Hm Hc Huuid Hname Hvals. apply L4.
    + assert (C2 : clean_cfg c2).
      { pose proof (clean_start _ _ Hu Hm Hc) as C1. subst c2. destruct (has_key (T "clientuid") (c_defaults (start_cfg memd cu))); [exact C1|].
        destruct C1 as [[Wd Wn Ws Wnd] Cd Cs]. constructor; [constructor|..]; cbn [c_defaults c_sections]; auto.
        - apply ukeys_dset. exact Wd.
        - apply forallb_dset; [exact Cd|]. unfold clean_item. cbn [fst snd]. rewrite Huuid.
          pose proof clientuid_key_facts_true as F. unfold clientuid_key_facts in F. apply andb_true_iff in F. destruct F as [F _]. rewrite F. reflexivity. }
      subst c3. destruct (has_key s (c_sections c2)) eqn:E; [exact C2|].
      destruct C2 as [Cw Cd Cs]. constructor; cbn [c_defaults c_sections]; auto.
      * apply wfk_add; auto.
      * rewrite forallb_app, Cs. cbn [forallb]. unfold clean_section. cbn [fst snd forallb]. rewrite Hname. reflexivity.
    + intros o ty t Hin Hw. split; [eapply configurable_keys_clean; exact Hin | eapply Hvals; eassumption].
Qed.
