(** C18 statements assembled from OfxgetCfgMerge (merge_config) and OfxgetCfgParse (the two files). *)
From OfxV Require Import Base.Prelude Base.Digits Base.OfxgetBase Gen.OfxgetGen Model.OfxgetCfg.
From OfxV Require Import Proofs.OfxgetCfgMerge Proofs.OfxgetCfgParse.
From Coq Require Import Lia.
Local Open Scope N_scope.

Lemma effective_is_first_setter_full lookup cli fi user c a :
  read_files empty_cfg [Some fi; user] = OK c -> merge_config lookup cli c = OK a ->
  exists cf cu ucfg,
    parse_text fi = OK cf /\ parse_opt user = OK cu /\ user_layer cli c = OK ucfg /\
    (forall s, assoc (T "server") cli = Some (PStr s) -> forall o,
        match assoc o og_configurable, raw_sources cf cu s o with
        | Some ty, Some raw => exists v, typed ty raw = OK v /\ assoc o ucfg = Some v
        | _, _ => assoc o ucfg = None
        end) /\
    (assoc (T "server") cli = None -> ucfg = []) /\
    let ohl := oh_layer lookup [cli; ucfg; og_defaults] in
    let chain o := first_of [assoc o cli; assoc o ucfg; first_of (map (assoc o) ohl); assoc o og_defaults] in
    ((forall o, args_get a o = chain o)
     \/ (exists s, assoc (T "server") cli = Some (PStr s) /\ has_scheme s = true /\
                   py_truthy (match chain (T "url") with Some v => v | None => PNone end) = false /\
                   forall o, args_get a o =
                             if text_eqb o (T "server") then Some PNone
                             else if text_eqb o (T "url") then Some (PStr s) else chain o)).
Proof.
  intros Hr Hm. destruct (read_two_files _ _ _ Hr) as (cf & cu & Hcf & Hcu & Hhas & Hget).
  destruct (effective_is_first_setter_l _ _ _ _ Hm) as (ucfg & Hu & Hchain).
  exists cf, cu, ucfg. repeat split; auto.
  - intros s Es o. unfold user_layer in Hu. rewrite Es in Hu.
    pose proof (read_config_lookup _ _ _ o Hu) as L. rewrite Hget in L.
    destruct (cfg_has c s) eqn:Eh; [exact L|]. subst ucfg.
    rewrite Hhas in Eh. unfold raw_sources.
    destruct (text_eqb s DEFAULTSECT); [discriminate|]. cbn [orb] in Eh. rewrite Eh.
    destruct (assoc o og_configurable); reflexivity.
  - intro Es. unfold user_layer in Hu. rewrite Es in Hu. apply OK_inj in Hu. auto.
Qed.
