(** Lemmas behind the C11 theorems: every text an [unconvert] returns satisfies the independent lexical rule of
    its type (so what has no valid text is refused), for every parameterisation and every Python value. *)
From OfxV Require Import Base.Prelude Base.Digits Gen.ScalarsGen Model.PyDecimal Model.Scalars Model.ScalarsLex
  Proofs.ScalarsText Proofs.PyDecimalProofs Proofs.ScalarsProofs.
From Coq Require Import Lia ZifyBool ZifyN ZifyNat.
Local Open Scope N_scope.

Lemma nonempty_digits_intro s : forallb is_digit s = true -> s <> [] -> nonempty_digits s = true.
Proof. intros H Hn. unfold nonempty_digits, all_digits. rewrite H. destruct s; [congruence|reflexivity]. Qed.

Lemma drop_sign_digit d r : is_digit d = true -> drop_sign (d :: r) = d :: r.
Proof. intro H. apply digit_range in H. unfold drop_sign. destruct ((d =? 43) || (d =? 45)) eqn:E; [lia|reflexivity]. Qed.
Lemma drop_sign_text neg d r : is_digit d = true -> drop_sign (sign_text neg ++ d :: r) = d :: r.
Proof. intro H. destruct neg; cbn [sign_text app]; [reflexivity|apply drop_sign_digit; exact H]. Qed.

(** str(int) is [-]digits *)
Lemma lex_integer_Z_text z : lex_integer (Z_text z) = true.
Proof.
  unfold lex_integer, Z_text. pose proof (dec_of_N_all_digits (Z.abs_N z)) as Hd. pose proof (dec_of_N_nonnil (Z.abs_N z)) as Hn.
  destruct (dec_of_N (Z.abs_N z)) as [|d r] eqn:E; [congruence|].
  assert (Hdd : is_digit d = true) by (cbn [forallb] in Hd; apply andb_true_iff in Hd; tauto).
  destruct (z <? 0)%Z; cbn [app].
  - cbn [drop_sign]. change ((45 =? 43) || (45 =? 45)) with true. cbv iota. apply nonempty_digits_intro; [exact Hd|discriminate].
  - rewrite (drop_sign_digit d r Hdd). apply nonempty_digits_intro; [exact Hd|discriminate].
Qed.

Lemma split_sep_digits ip r : forallb is_digit ip = true -> split_sep (ip ++ r) = (ip ++ fst (split_sep r), snd (split_sep r)).
Proof.
  intro H. induction ip as [|c ip IH]; [cbn [app]; destruct (split_sep r); reflexivity|].
  cbn [forallb] in H. apply andb_true_iff in H. destruct H as [Hc Hi]. cbn [app split_sep].
  assert (E : is_sep c = false) by (apply digit_range in Hc; unfold is_sep; lia). rewrite E, (IH Hi). reflexivity.
Qed.

Lemma lex_decimal_parts neg ip fp : forallb is_digit ip = true -> ip <> [] -> forallb is_digit fp = true ->
  lex_decimal (sign_text neg ++ ip ++ frac_text fp) = true.
Proof.
  intros Hip Hne Hfp. destruct ip as [|d ip]; [congruence|].
  assert (Hd : is_digit d = true) by (cbn [forallb] in Hip; apply andb_true_iff in Hip; tauto).
  unfold lex_decimal. change ((d :: ip) ++ frac_text fp) with (d :: (ip ++ frac_text fp)). rewrite (drop_sign_text neg d _ Hd).
  change (d :: ip ++ frac_text fp) with ((d :: ip) ++ frac_text fp). rewrite (split_sep_digits _ _ Hip).
  destruct fp as [|f fp]; cbn [frac_text split_sep fst snd].
  - rewrite app_nil_r. apply nonempty_digits_intro; [exact Hip|discriminate].
  - change (is_sep 46) with true. cbv iota. cbn [fst snd]. rewrite app_nil_r. unfold all_digits. rewrite Hip. cbn [andb].
    apply nonempty_digits_intro; [exact Hfp|discriminate].
Qed.

(** format(d, "f") is plain decimal notation, whatever the exponent *)
Lemma lex_decimal_to_plain neg c e : lex_decimal (to_plain_fin neg c e) = true.
Proof.
  destruct (Z.leb_spec e 0) as [He|He].
  - destruct (to_plain_split neg c e He) as (ip & fp & -> & Hip & Hne & Hfp & _). exact (lex_decimal_parts neg ip fp Hip Hne Hfp).
  - unfold to_plain_fin. destruct (0 <=? e)%Z eqn:E; [|lia].
    set (ip := if c =? 0 then [48] else dec_of_N c ++ zeros (Z.to_nat e)).
    assert (Hip : forallb is_digit ip = true).
    { unfold ip. destruct (c =? 0); [reflexivity|]. rewrite forallb_app, dec_of_N_all_digits, zeros_all_digits. reflexivity. }
    assert (Hne : ip <> []).
    { unfold ip. destruct (c =? 0); [discriminate|]. pose proof (dec_of_N_nonnil c). destruct (dec_of_N c); [congruence|discriminate]. }
    pose proof (lex_decimal_parts neg ip [] Hip Hne eq_refl) as H. cbn [frac_text] in H. rewrite app_nil_r in H. exact H.
Qed.

Lemma lex_bool_inv (b : bool) : lex_bool (if b then [89] else [78]) = true.
Proof. destruct b; reflexivity. Qed.

Theorem unconvert_lexical_sty t req v s w : unconvert_sty t req v = OK (Some s, w) -> lexical_ok t s = true.
Proof.
  intro H. destruct t as [|l strict|valid|l|scale]; cbn [unconvert_sty lexical_ok] in *.
  - destruct v; cbn [unconvert_bool] in H; try discriminate.
    + exfalso. exact (req_none_not_some _ _ _ H).
    + rewrite bool_inv in H. cbn [nowarn rmap] in H. injection H as <- _. apply lex_bool_inv.
  - destruct v; cbn [unconvert_string] in H; try discriminate.
    + exfalso. exact (req_none_not_some _ _ _ H).
    + unfold enforce_length_str in H. destruct l as [n|]; [|reflexivity]. destruct strict; [|reflexivity].
      destruct (n <? tlen s0) eqn:E; cbn [rmap fst snd] in H; [discriminate|]. injection H as <- _. unfold tlen in E. lia.
  - destruct v; cbn [unconvert_oneof] in H; try discriminate.
    + exfalso. exact (req_none_not_some _ _ _ H).
    + destruct (mem_text s0 valid) eqn:E; cbn [nowarn rmap] in H; [|discriminate]. injection H as <- _. exact E.
  - assert (Hz : forall z, nowarn (bind (enforce_length_int l z) (fun _ => rmap Some (py_str_of_int z))) = OK (Some s, w) -> lex_integer s = true).
    { intros z Hz. destruct (enforce_length_int l z) as [[]|]; cbn [bind] in Hz; [|discriminate]. unfold py_str_of_int in Hz.
      destruct (MAX_STR_DIGITS <? List.length (dec_of_N (Z.abs_N z)))%nat; cbn [rmap nowarn] in Hz; [discriminate|]. injection Hz as <- _. apply lex_integer_Z_text. }
    destruct v; cbn [unconvert_integer] in H; try discriminate.
    + exfalso. exact (req_none_not_some _ _ _ H).
    + exact (Hz _ H).
    + exact (Hz _ H).
  - destruct v; cbn [unconvert_decimal] in H; try discriminate.
    + exfalso. exact (req_none_not_some _ _ _ H).
    + destruct d as [neg c e| |]; cbn [is_finite negb] in H; try discriminate. cbn [to_plain] in H.
      destruct scale as [n|]; [destruct (same_quantum_exp (Fin neg c e) (quantum_exp n))|]; cbn [nowarn rmap] in H; try discriminate;
        injection H as <- _; apply lex_decimal_to_plain.
Qed.

(** what has no valid text is refused *)
Lemma nonfinite_refused sc req d : is_finite d = false -> unconvert_sty (TDecimal sc) req (PDec d) = Err Reject.
Proof. intro H. cbn [unconvert_sty unconvert_decimal]. rewrite H. reflexivity. Qed.

(** the defects the repairs removed, pinned on the model: str() notation and unescaped data are NOT valid *)
Lemma str_notation_not_lexical : lex_decimal (to_sci (Fin false 1 2)) = false /\ lex_decimal (to_sci (Fin false 1 (-7))) = false
  /\ lex_decimal (to_sci (NaN false false 0)) = false /\ lex_decimal (to_sci (Inf true)) = false.
Proof. vm_compute. repeat split; reflexivity. Qed.
Lemma unescaped_data_not_wire_ok : wire_data_ok (wire_datum_unclosed_unrepaired (T "p&a<ss")) = false.
Proof. vm_compute. reflexivity. Qed.
