(** write_read_same_effective (C18): after a run that saved the settings, a run on the new file without the
    persistable options on its command line puts the same value in effect for every CONFIGURABLE option. *)
From OfxV Require Import Base.Prelude Base.Digits Base.OfxgetBase Gen.OfxgetGen Model.OfxgetCfg.
From OfxV Require Import Proofs.OfxgetCfgMerge Proofs.OfxgetCfgParse Proofs.OfxgetCfgRoundtrip Proofs.OfxgetCfgValues Proofs.OfxgetCfgWrite.
From Coq Require Import Lia.
Local Open Scope N_scope.

(* ------------------------------------------------------------------ unpacking a run *)
Lemma run_wrote lookup uuid fi user cli a t' :
  run_ofxget lookup uuid fi user cli = OK (a, OK (Some t')) ->
  exists c1 lib cw,
    read_files empty_cfg [Some fi; user] = OK c1 /\ read_files empty_cfg [Some fi] = OK lib /\
    merge_config lookup cli c1 = OK a /\ py_truthy (get_or a (T "dryrun") PNone) = false /\
    mk_server_cfg uuid a (c_defaults c1) user lib = OK cw /\ t' = cfg_write cw.
Proof.
  unfold run_ofxget. intro H. apply bind_ok in H. destruct H as (c1 & H1 & H). apply bind_ok in H. destruct H as (lib & H2 & H).
  apply bind_ok in H. destruct H as (a' & H3 & H).
  destruct (py_truthy (get_or a' (T "write") PNone)); apply OK_inj in H; injection H as <- Hw; [|discriminate].
  unfold write_config in Hw. unfold get_or. destruct (args_get a' (T "dryrun")) as [d|]; [|discriminate].
  destruct (py_truthy d) eqn:Ed; [discriminate|]. apply bind_ok in Hw. destruct Hw as (cw & Hcw & Hw). apply OK_inj in Hw. injection Hw as <-.
  exists c1, lib, cw. repeat split; auto.
Qed.

Lemma read_two_files_struct fi user c :
  read_files empty_cfg [Some fi; user] = OK c ->
  exists cf cu, parse_text fi = OK cf /\ parse_opt user = OK cu /\ c = cfg_merge (cfg_merge empty_cfg cf) cu.
Proof.
  cbn [read_files]. unfold read_text. intro H.
  apply bind_ok in H. destruct H as (c1 & H1 & H). apply bind_ok in H1. destruct H1 as (cf & Hcf & H1). apply OK_inj in H1. subst c1.
  exists cf. destruct user as [u|]; cbn [parse_opt] in *.
  - apply bind_ok in H. destruct H as (c2 & H2 & H). apply OK_inj in H. subst c2.
    apply bind_ok in H2. destruct H2 as (cu & Hcu & H2). apply OK_inj in H2. subst c. exists cu. auto.
  - apply OK_inj in H. subst c. exists empty_cfg. auto.
Qed.

Lemma read_one_file fi c : read_files empty_cfg [Some fi] = OK c -> exists cf, parse_text fi = OK cf /\ c = cfg_merge empty_cfg cf.
Proof.
  cbn [read_files]. unfold read_text. intro H. apply bind_ok in H. destruct H as (c1 & H1 & H). apply OK_inj in H. subst c1.
  apply bind_ok in H1. destruct H1 as (cf & Hcf & H1). apply OK_inj in H1. subst c. eauto.
Qed.

(* ------------------------------------------------------------------ what a typed layer holds, as a function of the raw text *)
Definition layer_val (cf cu : cfg) (s o : text) : option (result pyval) :=
  match assoc o og_configurable, raw_sources cf cu s o with
  | Some ty, Some raw => Some (typed ty raw)
  | _, _ => None
  end.

Lemma layer_lookup c cf cu s m o :
  read_config c s = OK m -> (forall o, cfg_get c s o = raw_sources cf cu s o) ->
  (cfg_has c s = false -> forall o, raw_sources cf cu s o = None) ->
  match layer_val cf cu s o with
  | Some r => exists v, r = OK v /\ assoc o m = Some v
  | None => assoc o m = None
  end.
Proof.
  intros H Hget Hno. pose proof (read_config_lookup _ _ _ o H) as L. unfold layer_val. rewrite <- Hget.
  destruct (cfg_has c s) eqn:Eh.
  - destruct (assoc o og_configurable) as [ty|]; [|exact L]. destruct (cfg_get c s o) as [raw|]; [|exact L].
    destruct L as (v & Hv & Ha). eauto.
  - subst m. rewrite Hget, (Hno eq_refl o). destruct (assoc o og_configurable); reflexivity.
Qed.

Lemma layer_agree cf cu1 cu2 s o (m1 m2 : amap) :
  layer_val cf cu1 s o = layer_val cf cu2 s o ->
  match layer_val cf cu1 s o with Some r => exists v, r = OK v /\ assoc o m1 = Some v | None => assoc o m1 = None end ->
  match layer_val cf cu2 s o with Some r => exists v, r = OK v /\ assoc o m2 = Some v | None => assoc o m2 = None end ->
  assoc o m1 = assoc o m2.
Proof.
  intros E H1 H2. rewrite <- E in H2. destruct (layer_val cf cu1 s o) as [r|].
  - destruct H1 as (v1 & E1 & A1). destruct H2 as (v2 & E2 & A2). rewrite A1, A2. congruence.
  - congruence.
Qed.

(* ------------------------------------------------------------------ facts about the generated tables *)
Definition table_facts : bool :=
  negb (has_key (T "server") og_configurable)
  && negb (has_key (T "ofxhome") og_ofxhome_keys) && negb (has_key (T "clientuid") og_ofxhome_keys)
  && forallb (fun p => has_key (fst p) og_defaults) og_configurable
  && match assoc (T "clientuid") og_configurable with Some TStr => true | _ => false end
  && match assoc (T "clientuid") og_defaults with Some (PStr []) => true | _ => false end.
Lemma table_facts_true : table_facts = true.
Proof. vm_compute. reflexivity. Qed.

(* ------------------------------------------------------------------ the OFX Home layer as a function of the id in effect *)
Definition oh_of (lookup : text -> option ohrec) (id : option pyval) : list amap :=
  match id with
  | Some (PStr s) => if py_truthy (PStr s) then match lookup s with Some r => [ofxhome_map r] | None => [] end else []
  | _ => []
  end.
Lemma oh_layer_of lookup cli ucfg :
  oh_layer lookup [cli; ucfg; og_defaults] =
  oh_of lookup (first_of [assoc (T "ofxhome") cli; assoc (T "ofxhome") ucfg; assoc (T "ofxhome") og_defaults]).
Proof. unfold oh_layer, oh_of. rewrite args_get_first. reflexivity. Qed.

Lemma oh_no_key lookup id k : has_key k og_ofxhome_keys = false -> first_of (map (assoc k) (oh_of lookup id)) = None.
Proof.
  intro H. unfold oh_of. destruct id as [[|s| | |]|]; try reflexivity. destruct (py_truthy (PStr s)); [|reflexivity].
  destruct (lookup s) as [r|]; [|reflexivity]. cbn [map first_of]. unfold ofxhome_map.
  assert (E : assoc k (map (fun p : text * N => (fst p, opt2py (oh_field r (snd p)))) og_ofxhome_keys) = None).
  { unfold has_key in H. induction og_ofxhome_keys as [|[k0 i0] l IH]; [reflexivity|]. cbn [map assoc fst snd] in *.
    destruct (text_eqb k k0); [discriminate | apply IH; exact H]. }
  rewrite E. reflexivity.
Qed.

Lemma In_assoc_nodup {A} (m : dict A) k v : NoDup (map fst m) -> In (k, v) m -> assoc k m = Some v.
Proof.
  induction m as [|[k0 v0] m IH]; intros N H; [contradiction|]. cbn [map fst] in N. inversion N as [|? ? Hk Hl]; subst. cbn [assoc].
  destruct H as [E|H].
  - injection E as -> ->. rewrite text_eqb_refl. reflexivity.
  - destruct (text_eqb k k0) eqn:Eo; [|apply IH; auto]. apply text_eqb_eq in Eo. subst k0. exfalso. apply Hk.
    apply (in_map fst) in H. exact H.
Qed.

Lemma merge_defaults_eq a b : c_defaults (cfg_merge a b) = dmerge (c_defaults a) (c_defaults b).
Proof. reflexivity. Qed.

Definition null_val (v : pyval) : bool := existsb (py_eq v) og_null_args.

Section Persist.
  Variable lookup : text -> option ohrec.
  Variables (uuid fi : text) (user : option text) (cli1 cli2 : amap) (a1 a2 : args) (t' : text) (c2 : cfg).
  Variables (s : text) (cf cu : cfg) (lib_cfg : amap).

  (** the file layer of run 1, option by option *)
  Definition layer1 (o : text) : option pyval :=
    match layer_val cf cu s o with Some (OK v) => Some v | _ => None end.
  Definition id1 : option pyval := first_of [assoc (T "ofxhome") cli1; layer1 (T "ofxhome"); assoc (T "ofxhome") og_defaults].
  (** what run 1 would have had in effect for [o] without its command line *)
  Definition lower1 (o : text) : option pyval :=
    first_of [layer1 o; first_of (map (assoc o) (oh_of lookup id1)); assoc o og_defaults].
  Definition duid : text := match assoc (T "clientuid") (c_defaults cu) with Some u => u | None => uuid end.
  Definition stored (o : text) (ty : oty) : bool :=
    match will_write a1 lib_cfg (Some duid) o ty with Some _ => true | None => false end.

  Hypothesis Hrun1 : run_ofxget lookup uuid fi user cli1 = OK (a1, OK (Some t')).
  Hypothesis Hread2 : read_files empty_cfg [Some fi; Some t'] = OK c2.
  Hypothesis Hrun2 : merge_config lookup cli2 c2 = OK a2.
  Hypothesis Hs1 : assoc (T "server") cli1 = Some (PStr s).
  Hypothesis Hs2 : assoc (T "server") cli2 = Some (PStr s).
  Hypothesis Hcli2 : forall o ty, In (o, ty) og_configurable -> assoc o cli2 = None.
  Hypothesis Hcf : parse_text fi = OK cf.
  Hypothesis Hcfd : c_defaults cf = [].
  Hypothesis Hcu : parse_opt user = OK cu.
  Hypothesis Hlib : read_config (cfg_merge empty_cfg cf) s = OK lib_cfg.
  Hypothesis Hclean : clean_cfg cu.
  Hypothesis Hname : clean_name s = true.
  Hypothesis Huuid : clean_value uuid = true.
  Hypothesis Hvals : forall o ty v, In (o, ty) og_configurable -> args_get a1 o = Some v -> null_val v = false -> clean_val ty v = true.
  Hypothesis Hurl : py_truthy (get_or a1 (T "url") PNone) = true.
  Hypothesis Hreset : forall o ty v, In (o, ty) og_configurable -> assoc o cli1 = Some v -> stored o ty = true \/ lower1 o = Some v.
  Hypothesis Hseen : has_key s (c_sections cu) || has_key s (c_sections cf) = true
                     \/ forall o ty, In (o, ty) og_configurable -> o <> T "clientuid" -> assoc o (c_defaults cu) = None.

  Lemma s_not_default : text_eqb s DEFAULTSECT = false.
  Proof. unfold clean_name in Hname. repeat match goal with X : _ && _ = true |- _ => apply andb_true_iff in X; destruct X end. apply negb_true_iff. assumption. Qed.

  Lemma In_conf_assoc o ty : In (o, ty) og_configurable -> assoc o og_configurable = Some ty.
  Proof. apply In_assoc_nodup. exact configurable_nodup. Qed.

  Lemma test_true_nonnull d l o v : test_cfg_val d l o v = OK true -> null_val v = false.
  Proof. unfold test_cfg_val, null_val. destruct (existsb (py_eq v) og_null_args); [discriminate | reflexivity]. Qed.

  (** a stored text is clean and reads back as the value that was in effect *)
  Lemma written_roundtrip o ty t :
    In (o, ty) og_configurable -> will_write a1 lib_cfg (Some duid) o ty = Some t ->
    exists v, args_get a1 o = Some v /\ clean_value t = true /\ typed ty t = OK v.
  Proof.
    intros Hin Hw. unfold will_write in Hw. destruct (args_get a1 o) as [v|] eqn:Ev; [|discriminate].
    destruct (test_cfg_val (Some duid) lib_cfg o v) as [[|]|] eqn:Et; try discriminate.
    destruct (arg2config ty v) as [t0|] eqn:Ea; [|discriminate]. injection Hw as <-.
    pose proof (Hvals _ _ _ Hin Ev (test_true_nonnull _ _ _ _ Et)) as Hc.
    destruct (arg2config_roundtrip _ _ Hc) as (txt & E1 & E2 & E3). rewrite Ea in E1. apply OK_inj in E1. subst txt. eauto.
  Qed.

  Lemma sec_get_has c k o x : sec_get c k o = Some x -> has_key k (c_sections c) = true.
  Proof. unfold sec_get, has_key. destruct (assoc k (c_sections c)); [reflexivity | discriminate]. Qed.

  Theorem persist_main : forall o ty, In (o, ty) og_configurable ->
    args_get a2 o = args_get a1 o
    \/ (o = T "clientuid" /\ py_truthy (get_or a1 o PNone) = false /\ args_get a2 o = Some (PStr duid)).
  Proof.
    pose proof table_facts_true as TF. unfold table_facts in TF.
    repeat match goal with X : _ && _ = true |- _ => apply andb_true_iff in X; destruct X end.
    repeat match goal with X : negb _ = true |- _ => apply negb_true_iff in X end.
    rename H into Tsrv, H4 into Toh, H3 into Tuid, H2 into Tdef, H1 into Tty, H0 into Tud.
    (* ---- run 1 *)
    destruct (run_wrote _ _ _ _ _ _ _ Hrun1) as (c1 & lib & cw & Hr1 & Hrl & Hm1 & Hdry & Hmk & Ht').
    destruct (read_two_files_struct _ _ _ Hr1) as (cf' & cu' & Hcf' & Hcu' & Ec1).
    rewrite Hcf in Hcf'. apply OK_inj in Hcf'. subst cf'. rewrite Hcu in Hcu'. apply OK_inj in Hcu'. subst cu'.
    destruct (read_one_file _ _ Hrl) as (cf'' & Hcf'' & El). rewrite Hcf in Hcf''. apply OK_inj in Hcf''. subst cf''.
    pose proof (cc_wfk _ Hclean) as Wu.
    destruct (read_two_files _ _ _ Hr1) as (cfa & cua & Hcfa & Hcua & Hhas1 & Hget1).
    rewrite Hcf in Hcfa. apply OK_inj in Hcfa. subst cfa. rewrite Hcu in Hcua. apply OK_inj in Hcua. subst cua.
    assert (Mk : ukeys (c_defaults c1) /\ forallb clean_item (c_defaults c1) = true /\ forall k, assoc k (c_defaults c1) = assoc k (c_defaults cu)).
    { rewrite Ec1. rewrite !merge_defaults_eq. cbn [c_defaults empty_cfg]. rewrite Hcfd.
      change (@dmerge text [] []) with (@nil (text * text)). split; [|split].
      - apply ukeys_dmerge. constructor.
      - apply clean_dmerge; [reflexivity | apply (cc_defaults _ Hclean)].
      - intro k. rewrite dmerge_assoc by apply (wfk_defaults _ Wu). destruct (assoc k (c_defaults cu)); reflexivity. }
    destruct Mk as (Mu & Mc & Ma).
    destruct (merge_config_shape _ _ _ _ Hm1) as (ucfg1 & Hu1 & Sh1). cbv zeta in Sh1.
    destruct (mk_server_cfg_spec _ _ _ _ _ _ _ Hmk Hcu) as (s' & lib_cfg' & Hsv & Hsn & Hlc & Hspec).
    assert (Ea1 : a1 = cli1 :: ucfg1 :: oh_layer lookup [cli1; ucfg1; og_defaults] ++ [og_defaults]).
    { destruct Sh1 as [E|(sx & _ & _ & _ & _ & E)]; [exact E|]. exfalso. rewrite E in Hsv. unfold get_or, url_as_server in Hsv.
      cbn [args_get] in Hsv. rewrite assoc_dset, text_eqb_refl in Hsv. discriminate. }
    assert (Es' : s' = s).
    { rewrite Ea1 in Hsv. unfold get_or in Hsv. cbn [args_get] in Hsv. rewrite Hs1 in Hsv. injection Hsv as <-. reflexivity. }
    subst s'. rewrite El, Hlib in Hlc. apply OK_inj in Hlc. subst lib_cfg'.
    cbv zeta in Hspec. specialize (Hspec s_not_default).
    assert (Eduid : match assoc (T "clientuid") (dmerge (c_defaults c1) (c_defaults cu)) with Some u => u | None => uuid end = duid).
    { unfold duid. rewrite dmerge_assoc by apply (wfk_defaults _ Wu). rewrite Ma. destruct (assoc (T "clientuid") (c_defaults cu)); reflexivity. }
    rewrite Eduid in Hspec. destruct Hspec as (Hk & Hd & Hg & Hcl).
    assert (Hd' : forall k, assoc k (c_defaults cw) = if text_eqb k (T "clientuid") then Some duid else assoc k (c_defaults cu)).
    { intro k. rewrite Hd. rewrite dmerge_assoc by apply (wfk_defaults _ Wu). rewrite Ma. destruct (assoc k (c_defaults cu)); reflexivity. }
    assert (Ccw : clean_cfg cw).
    { apply Hcl; auto. intros o ty t Hin Hw. destruct (written_roundtrip _ _ _ Hin Hw) as (v & _ & Hc & _). exact Hc. }
    pose proof (parse_write_roundtrip _ Ccw) as Hrt. rewrite <- Ht' in Hrt.
    (* ---- run 2 *)
    destruct (read_two_files _ _ _ Hread2) as (cfb & cub & Hcfb & Hcub & Hhas2 & Hget2).
    rewrite Hcf in Hcfb. apply OK_inj in Hcfb. subst cfb. cbn [parse_opt] in Hcub. rewrite Hrt in Hcub. apply OK_inj in Hcub. subst cub.
    destruct (merge_config_shape _ _ _ _ Hrun2) as (ucfg2 & Hu2 & Sh2). cbv zeta in Sh2.
    unfold user_layer in Hu1, Hu2. rewrite Hs1 in Hu1. rewrite Hs2 in Hu2.
    assert (No1 : cfg_has c1 s = false -> forall o, raw_sources cf cu s o = None).
    { intros E o. rewrite Hhas1 in E. unfold raw_sources. rewrite s_not_default in *. cbn [orb] in E. rewrite E. reflexivity. }
    assert (No2 : cfg_has c2 s = false -> forall o, raw_sources cf cw s o = None).
    { intros E o. rewrite Hhas2, Hk in E. rewrite orb_true_r in E. discriminate. }
    pose proof (fun o => layer_lookup _ _ _ _ _ o Hu1 (Hget1 s) No1) as L1.
    pose proof (fun o => layer_lookup _ _ _ _ _ o Hu2 (Hget2 s) No2) as L2.
    assert (U1 : forall o, assoc o ucfg1 = layer1 o).
    { intro o. unfold layer1. specialize (L1 o). destruct (layer_val cf cu s o) as [r|]; [|exact L1].
      destruct L1 as (v & -> & E). exact E. }
    (* raw text seen by run 2 for a configurable option *)
    assert (Raw2 : forall o, raw_sources cf cw s o = first_of [sec_get cw s o; sec_get cf s o; assoc o (c_defaults cw); assoc o (c_defaults cf)]).
    { intro o. unfold raw_sources. rewrite Hk. reflexivity. }
    assert (Rel : forall o ty, In (o, ty) og_configurable ->
              match will_write a1 lib_cfg (Some duid) o ty with
              | Some t => exists v, args_get a1 o = Some v /\ assoc o ucfg2 = Some v
              | None => assoc o ucfg2 = layer1 o
                        \/ (o = T "clientuid" /\ layer1 o = None /\ assoc o ucfg2 = Some (PStr duid))
              end).
    { intros o ty Hin. pose proof (In_conf_assoc _ _ Hin) as Eo. specialize (L2 o). unfold layer_val in L2. rewrite Eo, Raw2, Hg, Eo in L2.
      destruct (will_write a1 lib_cfg (Some duid) o ty) as [t|] eqn:Ew.
      - destruct (written_roundtrip _ _ _ Hin Ew) as (v & Ev & _ & Et). cbn [first_of] in L2. destruct L2 as (v2 & E2 & A2).
        rewrite Et in E2. apply OK_inj in E2. subst v2. eauto.
      - rewrite Hcfd in L2. cbn [assoc] in L2. rewrite Hd' in L2.
        assert (R1 : raw_sources cf cu s o = if has_key s (c_sections cu) || has_key s (c_sections cf)
                                             then first_of [sec_get cu s o; sec_get cf s o; assoc o (c_defaults cu)] else None).
        { unfold raw_sources. rewrite s_not_default, Hcfd. cbn [assoc first_of].
          destruct (has_key s (c_sections cu) || has_key s (c_sections cf)); [|reflexivity].
          destruct (sec_get cu s o); [reflexivity|]. destruct (sec_get cf s o); [reflexivity|]. destruct (assoc o (c_defaults cu)); reflexivity. }
        assert (Lv1 : layer1 o = match raw_sources cf cu s o with Some raw => match typed ty raw with OK v => Some v | Err _ => None end | None => None end).
        { unfold layer1, layer_val. rewrite Eo. destruct (raw_sources cf cu s o); reflexivity. }
        destruct (sec_get cu s o) as [x|] eqn:E1.
        { left. rewrite Lv1, R1, (sec_get_has _ _ _ _ E1). cbn [orb first_of]. cbn [first_of] in L2. destruct L2 as (v2 & -> & A2). exact A2. }
        destruct (sec_get cf s o) as [x|] eqn:E2.
        { left. rewrite Lv1, R1, (sec_get_has _ _ _ _ E2), orb_true_r. cbn [first_of]. cbn [first_of] in L2. destruct L2 as (v2 & -> & A2). exact A2. }
        cbn [first_of] in L2. destruct (text_eqb o (T "clientuid")) eqn:Ec.
        + apply text_eqb_eq in Ec. subst o. rewrite Eo in *. destruct ty; try discriminate. cbn [first_of typed] in L2.
          destruct L2 as (v2 & E2' & A2). apply OK_inj in E2'. subst v2.
          rewrite Lv1, R1. cbn [first_of]. destruct (has_key s (c_sections cu) || has_key s (c_sections cf)).
          * destruct (assoc (T "clientuid") (c_defaults cu)) as [u|] eqn:Eu.
            { left. unfold duid in A2. rewrite Eu in A2. cbn [typed]. exact A2. }
            { right. auto. }
          * right. auto.
        + rewrite Lv1, R1. left. destruct (has_key s (c_sections cu) || has_key s (c_sections cf)) eqn:Eh.
          * cbn [first_of]. destruct (assoc o (c_defaults cu)) as [raw|].
            { cbn [first_of] in L2. destruct L2 as (v2 & -> & A2). exact A2. }
            { cbn [first_of] in L2. exact L2. }
          * destruct Hseen as [Hs|Hs]; [rewrite Hs in Eh; discriminate|].
            rewrite (Hs _ _ Hin) in L2 by (intros ->; rewrite text_eqb_refl in Ec; discriminate). cbn [first_of] in L2. exact L2. }
    (* the OFX Home id is the same in both runs *)
    assert (Hofx : In (T "ofxhome", TStr) og_configurable) by (vm_compute; auto 20).
    assert (A1 : forall o, args_get a1 o = match assoc o cli1 with Some v => Some v | None => lower1 o end).
    { intro o. rewrite Ea1, chain_lookup. cbn [first_of]. destruct (assoc o cli1); [reflexivity|]. unfold lower1.
      rewrite U1, oh_layer_of, U1. fold id1. cbn [first_of]. reflexivity. }
    assert (Id2 : first_of [assoc (T "ofxhome") cli2; assoc (T "ofxhome") ucfg2; assoc (T "ofxhome") og_defaults] = id1).
    { rewrite (Hcli2 _ _ Hofx). cbn [first_of]. pose proof (Rel _ _ Hofx) as R. unfold id1.
      destruct (will_write a1 lib_cfg (Some duid) (T "ofxhome") TStr) as [t|] eqn:Ew.
      - destruct R as (v & Ev & A2). rewrite A2. rewrite A1 in Ev. unfold lower1 in Ev. rewrite (oh_no_key _ _ _ Toh) in Ev. cbn [first_of] in *.
        destruct (assoc (T "ofxhome") cli1); [congruence|]. destruct (layer1 (T "ofxhome")); [congruence|]. cbn [first_of]. congruence.
      - destruct R as [R|(R & _)]; [|discriminate]. rewrite R.
        destruct (assoc (T "ofxhome") cli1) as [v|] eqn:Ec; [|reflexivity].
        destruct (Hreset _ _ _ Hofx Ec) as [Hst|Hlow]; [unfold stored in Hst; rewrite Ew in Hst; discriminate|].
        unfold lower1 in Hlow. rewrite (oh_no_key _ _ _ Toh) in Hlow. cbn [first_of] in *. exact Hlow. }
    (* every configurable option, in the chain of run 2 *)
    assert (Chain2 : forall o ty, In (o, ty) og_configurable ->
              let c2o := first_of [assoc o cli2; assoc o ucfg2; first_of (map (assoc o) (oh_layer lookup [cli2; ucfg2; og_defaults])); assoc o og_defaults] in
              c2o = args_get a1 o \/ (o = T "clientuid" /\ py_truthy (get_or a1 o PNone) = false /\ c2o = Some (PStr duid))).
    { intros o ty Hin. cbv zeta. rewrite (Hcli2 _ _ Hin), oh_layer_of, Id2. cbn [first_of]. pose proof (Rel _ _ Hin) as R. rewrite A1.
      destruct (will_write a1 lib_cfg (Some duid) o ty) as [t|] eqn:Ew.
      - destruct R as (v & Ev & A2). rewrite A2. left. rewrite A1 in Ev. symmetry. exact Ev.
      - destruct R as [R|(-> & Rl & R)].
        + left. rewrite R. fold (lower1 o). destruct (assoc o cli1) as [v|] eqn:Ec; [|reflexivity].
          destruct (Hreset _ _ _ Hin Ec) as [Hst|Hlow]; [unfold stored in Hst; rewrite Ew in Hst; discriminate | exact Hlow].
        + right. split; [reflexivity|]. rewrite R. split; [|reflexivity]. unfold get_or. rewrite A1.
          assert (Lw : lower1 (T "clientuid") = Some (PStr [])).
          { unfold lower1. rewrite Rl, (oh_no_key _ _ _ Tuid). cbn [first_of]. destruct (assoc (T "clientuid") og_defaults) as [[|[|]| | |]|]; try discriminate. reflexivity. }
          destruct (assoc (T "clientuid") cli1) as [v|] eqn:Ec.
          * destruct (Hreset _ _ _ Hin Ec) as [Hst|Hlow]; [unfold stored in Hst; rewrite Ew in Hst; discriminate|]. rewrite Lw in Hlow. injection Hlow as <-. reflexivity.
          * rewrite Lw. reflexivity. }
    (* run 2 does not take the URL-as-nickname route *)
    assert (Hurlc : In (T "url", TStr) og_configurable) by (vm_compute; auto 20).
    assert (Ea2 : forall o, args_get a2 o = first_of [assoc o cli2; assoc o ucfg2; first_of (map (assoc o) (oh_layer lookup [cli2; ucfg2; og_defaults])); assoc o og_defaults]).
    { destruct Sh2 as [E|(sx & _ & _ & Tu & _ & _)]; [intro o; rewrite E; apply chain_lookup|]. exfalso.
      unfold get_or in Tu. rewrite chain_lookup in Tu. destruct (Chain2 _ _ Hurlc) as [E|(E & _)]; [|discriminate]. cbv zeta in E.
      rewrite E in Tu. unfold get_or in Hurl. rewrite Hurl in Tu. discriminate. }
    intros o ty Hin. rewrite Ea2. exact (Chain2 _ _ Hin).
  Qed.
End Persist.
