(** OFXHeaderV2.regex (hand recogniser) on the OFX declaration of a valid header, wherever it stands after an XML
    declaration; OFXHeaderV2.parse; str-then-parse (C12 v2_roundtrip). *)
From OfxV Require Import Base.Prelude Base.Digits Gen.HeaderGen Model.Header Model.HeaderLayout
  Proofs.HeaderChars Proofs.HeaderMatch Proofs.HeaderV1 Proofs.HeaderInit.
From Coq Require Import ZifyBool ZifyN ZifyNat.
Local Open Scope N_scope.

Lemma qval_ok cls q v rest : v <> [] -> forallb cls v = true -> cls q = false ->
  qval cls q (v ++ q :: rest) = Some (v, rest).
Proof.
  intros NE V Q. unfold qval. rewrite (span_app cls v q rest V Q). destruct v; [contradiction|]. rewrite N.eqb_refl. reflexivity.
Qed.
Lemma attr_step {B} name cls v rest (f : text * text -> option B) :
  v <> [] -> forallb cls v = true -> cls 34 = false ->
  obind (attr2 name cls (name ++ T "=""" ++ v ++ 34 :: rest)) f = f (v, rest).
Proof.
  intros NE V Q. unfold attr2. rewrite app_assoc, strip_prefix_app. cbn [obind]. rewrite qval_ok by assumption. reflexivity.
Qed.
Lemma sp32 : is_space 32 = true. Proof. vm_compute. reflexivity. Qed.
Lemma ws1_name n x : forallb is_AZ n = true -> n <> [] -> ws1 (32 :: n ++ x) = Some (n ++ x).
Proof.
  intros A NE. unfold ws1. rewrite sp32. destruct n as [|c n]; [contradiction|]. cbn [forallb] in A. apply andb_true_iff in A.
  cbn [app]. rewrite skipws_stop by (apply AZ_not_space; tauto). reflexivity.
Qed.
Lemma quote_decimal : is_decimal 34 = false. Proof. vm_compute. reflexivity. Qed.
Lemma quote_word : is_word 34 = false. Proof. vm_compute. reflexivity. Qed.
Lemma quote_word_dash : is_word_dash 34 = false. Proof. vm_compute. reflexivity. Qed.

Section V2Match.
  Variables oh ve se ol ne rest : text.
  Hypothesis Voh : oh <> [] /\ forallb is_decimal oh = true.
  Hypothesis Vve : ve <> [] /\ forallb is_decimal ve = true.
  Hypothesis Vse : se <> [] /\ forallb is_word se = true.
  Hypothesis Vol : ol <> [] /\ forallb is_word_dash ol = true.
  Hypothesis Vne : ne <> [] /\ forallb is_word_dash ne = true.

  Definition decl_text : text :=
    T "<?OFX" ++ 32 :: T "OFXHEADER" ++ T "=""" ++ oh ++ 34 :: 32 :: T "VERSION" ++ T "=""" ++ ve ++ 34 :: 32 ::
    T "SECURITY" ++ T "=""" ++ se ++ 34 :: 32 :: T "OLDFILEUID" ++ T "=""" ++ ol ++ 34 :: 32 ::
    T "NEWFILEUID" ++ T "=""" ++ ne ++ 34 :: 63 :: 62 :: rest.

  Lemma match_v2_decl : match_v2_at decl_text = Some (oh, (ve, (se, (ol, (ne, skipws rest))))).
  Proof.
    unfold match_v2_at, decl_text.
    rewrite strip_prefix_app. cbn [obind]. rewrite ws1_name by (try reflexivity; discriminate). cbn [obind].
    rewrite attr_step by (try tauto; exact quote_decimal). rewrite ws1_name by (try reflexivity; discriminate). cbn [obind].
    rewrite attr_step by (try tauto; exact quote_decimal). rewrite ws1_name by (try reflexivity; discriminate). cbn [obind].
    rewrite attr_step by (try tauto; exact quote_word). rewrite ws1_name by (try reflexivity; discriminate). cbn [obind].
    rewrite attr_step by (try tauto; exact quote_word_dash). rewrite ws1_name by (try reflexivity; discriminate). cbn [obind].
    rewrite attr_step by (try tauto; exact quote_word_dash).
    rewrite skipws_stop by (vm_compute; reflexivity).
    change (strip_prefix (T "?>") (63 :: 62 :: rest)) with (Some rest). cbn [obind]. reflexivity.
  Qed.
End V2Match.

(** the recogniser needs '<' first *)
Lemma match_v2_not_lt c t : c <> 60 -> match_v2_at (c :: t) = None.
Proof. intro H. unfold match_v2_at. change (T "<?OFX") with (60 :: T "?OFX"). cbn [strip_prefix]. destruct (60 =? c) eqn:E; [lia|reflexivity]. Qed.
Lemma search_skip {A} (m : text -> option A) pre t :
  (forall p1 p2, pre = p1 ++ p2 -> p2 <> [] -> m (p2 ++ t) = None) -> search m (pre ++ t) = search m t.
Proof.
  induction pre as [|c pre IH]; intro H; [reflexivity|].
  assert (H0 : m (c :: pre ++ t) = None) by (apply (H [] (c :: pre) eq_refl); discriminate).
  cbn [app search]. rewrite H0.
  apply IH. intros p1 p2 E NE. apply (H (c :: p1) p2); [cbn [app]; f_equal; exact E|exact NE].
Qed.
Lemma search_v2_skip pre t : forallb (fun c => negb (c =? 60)) pre = true -> search_v2 (pre ++ t) = search_v2 t.
Proof.
  intro H. unfold search_v2. apply search_skip. intros p1 p2 E NE. subst pre. rewrite forallb_app in H. apply andb_true_iff in H.
  destruct H as [_ H]. destruct p2 as [|c p2]; [contradiction|]. cbn [forallb] in H. apply andb_true_iff in H. destruct H as [H _].
  cbn [app]. apply match_v2_not_lt. lia.
Qed.
Lemma ws_no_lt w : all_ws w = true -> forallb (fun c => negb (c =? 60)) w = true.
Proof. unfold all_ws. rewrite !forallb_forall. intros H c I. apply H in I. unfold wsc in I. lia. Qed.

Lemma ofx_decl_text h rest :
  ofx_decl h ++ rest = decl_text (dec_of_Z (h2_ofxheader h)) (dec_of_Z (h2_version h)) (h2_security h) (h2_old h) (h2_new h) rest.
Proof. unfold ofx_decl, decl_text. repeat rewrite <- app_assoc. reflexivity. Qed.

Record valid2_facts (h : hdr2) : Prop := {
  f2_oh : h2_ofxheader h = 200%Z; f2_ve : In (h2_version h) spec_v2_versions;
  f2_se : mem_text (h2_security h) spec_security = true; f2_ol : uid_ok (h2_old h) = true; f2_ne : uid_ok (h2_new h) = true }.
Lemma valid2_inv h : valid2 h = true -> valid2_facts h.
Proof.
  unfold valid2. rewrite !andb_true_iff. intros [[[[A B] C] D] E]. constructor; try assumption; [lia|].
  apply existsb_exists in B. destruct B as [x [I B]]. apply Z.eqb_eq in B. subst. exact I.
Qed.
Lemma v2_version_range z : In z spec_v2_versions -> (0 <= z < 1000)%Z /\ oneof_int v2_version_valid z = OK z.
Proof. cbn [spec_v2_versions In]. intros [H|[H|[H|[H|[H|[H|[H|[]]]]]]]]; subst z; (split; [lia|vm_compute; reflexivity]). Qed.

Lemma init_v2_valid h : valid2 h = true ->
  init_v2 (VStr (dec_of_Z (h2_version h))) (Some (VStr (dec_of_Z (h2_ofxheader h)))) (Some (h2_security h)) (Some (h2_old h)) (Some (h2_new h)) = OK h.
Proof.
  intro V. destruct (valid2_inv h V) as [Foh Fve Fse Fol Fne].
  destruct h as [oh ve se ol ne]. cbn [h2_ofxheader h2_version h2_security h2_old h2_new] in *. subst oh.
  destruct (v2_version_range ve Fve) as [R O]. destruct (version_text ve R) as [_ [_ [_ P]]].
  destruct (sec2_ok se Fse) as [Ose [Nse _]].
  pose proof (uid_ok_inv ol Fol) as [_ [Nol _]]. pose proof (uid_ok_inv ne Fne) as [_ [Nne _]].
  unfold init_v2. rewrite P, O. cbn [bind].
  change (int_or (Some (VStr (dec_of_Z 200))) 200) with (OK 200%Z : result Z). cbn [bind].
  change (oneof_int v2_ofxheader_valid 200) with (OK 200%Z : result Z). cbn [bind].
  rewrite (or_text_some se) by exact Nse. rewrite Ose. cbn [bind].
  rewrite (or_text_some ol) by exact Nol. change v2_old_len with (Some 36). rewrite (string_conv_uid ol Fol). cbn [bind].
  rewrite (or_text_some ne) by exact Nne. change v2_new_len with (Some 36). rewrite (string_conv_uid ne Fne). cbn [bind].
  reflexivity.
Qed.

Lemma match_v2_valid h rest : valid2 h = true ->
  match_v2_at (ofx_decl h ++ rest) =
  Some (dec_of_Z (h2_ofxheader h), (dec_of_Z (h2_version h), (h2_security h, (h2_old h, (h2_new h, skipws rest))))).
Proof.
  intro V. destruct (valid2_inv h V) as [Foh Fve Fse Fol Fne]. rewrite ofx_decl_text.
  destruct (v2_version_range _ Fve) as [R _]. destruct (version_text _ R) as [_ [Nve [Dve _]]].
  destruct (sec2_ok _ Fse) as [_ [Nse Dse]].
  pose proof (uid_ok_inv _ Fol) as [Uol [Nol _]]. pose proof (uid_ok_inv _ Fne) as [Une [Nne _]].
  apply match_v2_decl; try (split; assumption); try (split; [assumption|apply uid_word_dash; assumption]).
  rewrite Foh. split; [discriminate|vm_compute; reflexivity].
Qed.

(** OFXHeaderV2.parse finds the declaration after any prefix without '<' (and after an XML declaration, below) *)
Theorem parse_v2_at pre h rest : valid2 h = true -> search_v2 (pre ++ ofx_decl h ++ rest) = search_v2 (ofx_decl h ++ rest) ->
  parse_v2 (pre ++ ofx_decl h ++ rest) = OK (h, len (pre ++ ofx_decl h ++ rest) - len (skipws rest)).
Proof.
  intros V S. unfold parse_v2. rewrite S. unfold search_v2. rewrite (search_hit _ _ _ (match_v2_valid h rest V)).
  rewrite (init_v2_valid h V). reflexivity.
Qed.

(** the XML declaration (any quotes, any of the pseudo-attributes) holds no start of an OFX declaration *)
Lemma quote_cases o : quote_ok o = true -> o = None \/ o = Some 34 \/ o = Some 39.
Proof. destruct o as [c|]; [|left; reflexivity]. cbn [quote_ok]. intro H. right. destruct (c =? 34) eqn:E; [left; f_equal; lia|right; f_equal; lia]. Qed.
Lemma xml_decl_gen_skip v e s t : quote_ok v = true -> quote_ok e = true -> quote_ok s = true ->
  search_v2 (xml_decl_gen v e s ++ t) = search_v2 t.
Proof.
  intros Qv Qe Qs.
  assert (E : exists x, xml_decl_gen v e s = 60 :: x /\ forallb (fun c => negb (c =? 60)) x = true /\ forall t, match_v2_at (60 :: x ++ t) = None).
  { destruct (quote_cases v Qv) as [-> | [-> | ->]]; destruct (quote_cases e Qe) as [-> | [-> | ->]]; destruct (quote_cases s Qs) as [-> | [-> | ->]];
      (eexists; split; [reflexivity|split; [vm_compute; reflexivity|intro; reflexivity]]). }
  destruct E as [x [E [F M]]]. rewrite E. cbn [app]. unfold search_v2 at 1. cbn [search]. rewrite M.
  fold (search_v2 (x ++ t)). apply search_v2_skip. exact F.
Qed.
Lemma xml_decl_skip q t : (q = 34 \/ q = 39) -> search_v2 (xml_decl_q q ++ t) = search_v2 t.
Proof. intro Q. unfold xml_decl_q. apply xml_decl_gen_skip; destruct Q; subst q; reflexivity. Qed.

Lemma str_v2_layout h : str_v2 h = xml_decl_q 34 ++ CRLF ++ ofx_decl h ++ CRLF.
Proof. unfold str_v2, ofx_decl, xml_decl, xml_decl_q. repeat rewrite <- app_assoc. reflexivity. Qed.

(** C12: str(header) parses back; the match takes the trailing CRLF (the pattern ends with optional whitespace) *)
Theorem v2_roundtrip_l h : valid2 h = true -> parse_v2 (str_v2 h) = OK (h, len (str_v2 h)).
Proof.
  intro V. rewrite str_v2_layout.
  change (xml_decl_q 34 ++ CRLF ++ ofx_decl h ++ CRLF) with ((xml_decl_q 34 ++ CRLF) ++ ofx_decl h ++ CRLF).
  rewrite parse_v2_at; [|exact V|].
  - change (skipws CRLF) with (@nil N). change (len []) with 0. rewrite N.sub_0_r. reflexivity.
  - rewrite <- app_assoc. rewrite xml_decl_skip by (left; reflexivity). apply search_v2_skip. reflexivity.
Qed.
