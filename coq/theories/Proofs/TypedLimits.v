(** C04's limit clauses for the CONCRETE converters (typed schema model): an over-long string, an integer with too many digits,
    a token outside the enumeration, a text that is not Y / N - under an element of that declared type - makes keyword
    construction fail and makes conversion from an element tree fail; values exactly at the limit are accepted by the
    converter.  Composition of converter_error_rejected (schema engine) with C10's T_limits_strict / T_bad_text_rejected_on_read
    through conv_typed, and of the tree route with from_etree_is_construct_of_denoted. *)
From OfxV Require Import Base.Prelude Base.Digits Model.Schema Model.Convert Model.PyDecimal Model.Scalars Model.Typed
     Proofs.ConvertSound Proofs.ConvertPlaces Proofs.ScalarsThms.
Local Open Scope N_scope.

Section Limits.
  Variable table : list (N * ety).
  Variable conv_dt : bool -> text -> result (option pyval).
  Variable S : schema.
  Let conv := conv_typed table conv_dt.

  (** a text the declared type's converter refuses *)
  Definition violates (e : elem) (x : text) : Prop :=
    (exists n, elem_sty e = TString (Some n) true /\ n < tlen x /\ x <> [] /\ string_unescape x = x)
    \/ (exists n z, elem_sty e = TInteger (Some n) /\ x = Z_text z /\ (Z.of_N (10 ^ n) <= Z.abs z)%Z
                    /\ (List.length (dec_of_N (Z.abs_N z)) <= MAX_STR_DIGITS)%nat)
    \/ (exists valid, elem_sty e = TOneOf valid /\ x <> [] /\ ~ In x valid)
    \/ (elem_sty e = TBool /\ x <> [89] /\ x <> [78]).

  Lemma violates_refused e x : violates e x -> convert e (PStr x) = Err Reject.
  Proof.
    intros [(n & Hs & Hl & Hne & Hu)|[(n & z & Hs & -> & Hz & Hd)|[(valid & Hs & Hne & Hin)|(Hs & HY & HN)]]].
    - destruct (T_limits_strict_l e) as (HS & _). destruct (HS n true x Hs) as (_ & _ & HC). destruct (HC Hne Hu) as (_ & HR).
      destruct (HR Hl) as (HR' & _). apply HR'. reflexivity.
    - destruct (T_limits_strict_l e) as (_ & HI & _). destruct (HI n z Hs) as (_ & HR). destruct (HR Hz) as (_ & _ & HT). apply HT. exact Hd.
    - destruct (T_bad_text_rejected_on_read_l e x) as (_ & HO & _). apply (HO valid Hs Hne Hin).
    - destruct (T_bad_text_rejected_on_read_l e x) as (HB & _). apply (HB Hs HY HN).
  Qed.

  Lemma typed_refusal t e x k : lookup_ety table t = Some (ESty e) -> convert e (PStr x) = Err k -> conv t (SText pyval x) = Err k.
  Proof. intros Ht Hc. unfold conv, conv_typed. rewrite Ht, Hc. reflexivity. Qed.

  (** keyword construction *)
  Theorem typed_limit_violation_rejected_kw_l cn c args kw k t req e x :
    find_cls S cn = Some c -> In (k, AElem t req) (spec_no_list c) -> kwget pyval kw k = KText pyval x ->
    lookup_ety table t = Some (ESty e) -> violates e x ->
    exists err, construct pyval conv S cn args kw = Err err.
  Proof.
    intros Hc Hin Hk Ht Hv.
    apply (converter_error_rejected_l pyval conv S cn c args kw k t req x Reject Hc Hin).
    split; [exact Hk|]. apply (typed_refusal t e x Reject Ht). apply violates_refused. exact Hv.
  Qed.

  (** ... at the limit the converter accepts (what the constructor then stores is that very value) *)
  Theorem typed_at_limit_accepted_l t e :
    lookup_ety table t = Some (ESty e) ->
    (forall n strict s, elem_sty e = TString (Some n) strict -> tlen s <= n -> s <> [] -> string_unescape s = s ->
       conv t (SText pyval s) = OK (Some (PStr s)))
    /\ (forall n z, elem_sty e = TInteger (Some n) -> (Z.abs z < Z.of_N (10 ^ n))%Z -> (List.length (dec_of_N (Z.abs_N z)) <= MAX_STR_DIGITS)%nat ->
       conv t (SText pyval (Z_text z)) = OK (Some (PInt z))).
  Proof.
    intro Ht. split.
    - intros n strict s Hs Hl Hne Hu. destruct (T_limits_strict_l e) as (HS & _). destruct (HS n strict s Hs) as (_ & _ & HC).
      destruct (HC Hne Hu) as (HA & _). unfold conv, conv_typed. rewrite Ht, (HA Hl). reflexivity.
    - intros n z Hs Hz Hd. destruct (T_limits_strict_l e) as (_ & HI & _). destruct (HI n z Hs) as (HA & _). destruct (HA Hz) as (_ & HT).
      destruct (HT Hd) as (_ & HC). unfold conv, conv_typed. rewrite Ht, HC. reflexivity.
  Qed.

  (** conversion from an element tree: the defined children of the document that are not list members are [pre ++ en :: post], [en]
      is the first one carrying the tag of attribute k, it holds the text x *)
  Lemma kwget_first (fe : etree -> result (inst pyval * list string)) :
    forall ens (dkw : list (string * kwval pyval)) k pre en post v,
      map fst dkw = map (entry_name) ens -> Convert.map_res (entry_value pyval fe) ens = OK (map snd dkw) ->
      ens = (pre ++ en :: post)%list -> entry_name en = k -> (forall p, In p pre -> entry_name p <> k) ->
      entry_value pyval fe en = OK v -> kwget pyval dkw k = v.
  Proof.
    intros ens dkw k pre. revert ens dkw. induction pre as [|p pre IH]; intros ens dkw en post v Hk Hv -> Hn Hp He.
    - cbn [app] in *. destruct dkw as [|[k0 v0] dkw]; [discriminate|]. cbn [map fst snd] in *.
      injection Hk as Hk0 _. cbn [Convert.map_res] in Hv. rewrite He in Hv.
      destruct (Convert.map_res (entry_value pyval fe) post) as [r|?]; [|discriminate]. injection Hv as -> _.
      unfold kwget. cbn [assoc]. rewrite Hk0, Hn, String.eqb_refl. reflexivity.
    - cbn [app] in *. destruct dkw as [|[k0 v0] dkw]; [discriminate|]. cbn [map fst snd] in *.
      injection Hk as Hk0 Hk'. cbn [Convert.map_res] in Hv.
      destruct (entry_value pyval fe p) as [vp|?]; [|discriminate].
      destruct (Convert.map_res (entry_value pyval fe) (pre ++ en :: post)) as [r|?] eqn:Er; [|discriminate]. injection Hv as _ Hr.
      assert (Hne : k0 <> k) by (rewrite Hk0; apply Hp; left; reflexivity).
      unfold kwget. cbn [assoc]. destruct (String.eqb_spec k k0) as [E|_]; [congruence|].
      apply (IH (pre ++ en :: post)%list dkw en post v Hk'); [rewrite Er, Hr; reflexivity|reflexivity|exact Hn| |exact He].
      intros q Hq. apply Hp. right. exact Hq.
  Qed.

  Theorem typed_limit_violation_rejected_tree_l tag xx ch c k t req e child rn x pre post :
    lookup_tag S tag = Some c -> In (k, AElem t req) (spec_no_list c) ->
    filter (fun en => negb (is_list_entry en)) (entries c false ch) = (pre ++ (k, AElem t req, child, rn) :: post)%list ->
    (forall p, In p pre -> entry_name p <> k) ->
    etext child = Some x -> x <> [] ->
    lookup_ety table t = Some (ESty e) -> violates e x ->
    exists err, from_etree pyval conv S (Node tag xx ch) = Err err.
  Proof.
    intros Hc Hin Hen Hpre Hx Hne Ht Hv. apply not_ok_err. intros [i w] H.
    destruct (from_etree_is_construct_of_denoted_l pyval conv S tag xx ch i w H) as (c' & dargs & dkw & Hc' & _ & Hkw & Hnames & Hcons).
    rewrite Hc in Hc'. injection Hc' as <-.
    assert (Hk : kwget pyval dkw k = KText pyval x).
    { apply (kwget_first (from_etree pyval conv S) _ dkw k pre (k, AElem t req, child, rn) post (KText pyval x) Hnames Hkw Hen eq_refl Hpre).
      unfold entry_value. cbn [is_unsup]. rewrite Hx. destruct x; [contradiction|reflexivity]. }
    assert (Hf : find_cls S tag = Some c).
    { unfold lookup_tag in Hc. destruct (find_cls S tag) as [c0|]; [|discriminate]. destruct (ci_export c0); [congruence|discriminate]. }
    destruct (typed_limit_violation_rejected_kw_l tag c dargs dkw k t req e x Hf Hin Hk Ht Hv) as (err & Herr). congruence.
  Qed.
End Limits.

(** * the empty string under the concrete converters: never a value; refused where the element is required (the two converter
      hypotheses of construct_sound_any_kw, PROVED for the typed model - date-time readers included when they refuse "") *)
Lemma convert_empty e : match convert e (PStr []) with OK (PNone, _) => elem_required e = false | OK _ => False | Err _ => True end.
Proof.
  induction e as [s r|c IH n]; [|exact IH].
  destruct s as [|l st|v|l|sc]; destruct r; try (destruct l); try (destruct st); try (destruct sc); vm_compute; auto.
Qed.

Section TypedEmpty.
  Variable table : list (N * ety).
  Variable conv_dt : bool -> text -> result (option pyval).
  Hypothesis conv_dt_refuses_empty : forall b, exists k, conv_dt b [] = Err k.

  Theorem typed_conv_empty_never_value : conv_empty_never_value pyval (conv_typed table conv_dt).
  Proof.
    intros t x. unfold conv_typed. destruct (lookup_ety table t) as [[e|r|r|]|]; try discriminate.
    - pose proof (convert_empty e) as H. destruct (convert e (PStr [])) as [[v w]|k]; [|discriminate].
      destruct v; try contradiction. discriminate.
    - destruct (conv_dt_refuses_empty false) as [k ->]. discriminate.
    - destruct (conv_dt_refuses_empty true) as [k ->]. discriminate.
  Qed.

  (** where the element-type table agrees with the class about what is required *)
  Definition required_agree (c : cinfo) : Prop :=
    forall k t, In (k, AElem t true) (spec_no_list c) ->
      (exists e, lookup_ety table t = Some (ESty e) /\ elem_required e = true)
      \/ (exists r, lookup_ety table t = Some (EDateTime r)) \/ (exists r, lookup_ety table t = Some (ETime r)).
  Theorem typed_conv_required_refuses_empty c : required_agree c -> conv_required_refuses_empty pyval (conv_typed table conv_dt) c.
  Proof.
    intros Hreq k t Hin. unfold conv_typed. destruct (Hreq k t Hin) as [(e & Ht & He)|[(r & Ht)|(r & Ht)]]; rewrite Ht.
    - pose proof (convert_empty e) as H. destruct (convert e (PStr [])) as [[v w]|k0]; [|discriminate].
      destruct v; try contradiction. congruence.
    - destruct (conv_dt_refuses_empty false) as [k0 ->]. discriminate.
    - destruct (conv_dt_refuses_empty true) as [k0 ->]. discriminate.
  Qed.
End TypedEmpty.

Definition required_agree_b (table : list (N * ety)) (c : cinfo) : bool :=
  forallb (fun ka => match snd ka with
                     | AElem t true => match lookup_ety table t with
                                       | Some (ESty e) => elem_required e
                                       | Some (EDateTime _) | Some (ETime _) => true
                                       | _ => false
                                       end
                     | _ => true
                     end) (spec_no_list c).
Lemma required_agree_b_sound table c : required_agree_b table c = true -> required_agree table c.
Proof.
  unfold required_agree_b, required_agree. rewrite forallb_forall. intros H k t Hin. specialize (H (k, AElem t true) Hin). cbn [snd] in H.
  destruct (lookup_ety table t) as [[e|r|r|]|]; try discriminate; eauto.
Qed.
