(** C06 x C01/C02/C05: the bytes OFXClient.serialize writes for a composed request (header text ++ body written by the html
    writer or by the repaired tostring_unclosed_elements, plain or pretty-printed) are split by parse_header into that very
    header and read by the tree builder into the composed tree with its element data entity-escaped.
    The pieces: Proofs/FileRoundTrip.v (client_tree_bytes_v1_l / _v2_l), this engine's closed forms (Proofs/ComposeProofs.v). *)
From OfxV Require Import Base.Prelude Base.Digits Base.SgmlBase Model.Sgml Model.SgmlSpec Model.Serialize
     Model.Header Model.HeaderLayout Gen.HeaderGen Gen.SgmlGen
     Proofs.SerializeProofs Proofs.HeaderParse Proofs.FileRoundTrip.
From OfxV Require Import Base.ComposeBase Gen.ComposeGen Model.Compose Proofs.ComposeProofs.
From Coq Require Import Lia ZifyBool ZifyN.
Local Open Scope N_scope.

(** the composed tree as the writers' element tree (same structure) *)
Fixpoint to_sg (t : Compose.etree) : SgmlBase.etree :=
  match t with Compose.Node g x ch => SgmlBase.Node g x (map to_sg ch) end.

Section CEtreeInd.
  Variable P : Compose.etree -> Prop.
  Hypothesis H : forall g x ch, Forall P ch -> P (Compose.Node g x ch).
  Fixpoint cetree_ind (e : Compose.etree) : P e :=
    match e with
    | Compose.Node g x ch =>
      H g x ch ((fix go (l : list Compose.etree) : Forall P l :=
                   match l with [] => Forall_nil P | c :: l' => Forall_cons c (cetree_ind c) (go l') end) ch)
    end.
End CEtreeInd.

(** the frame of a tree: every tag is one the writers treat as an ordinary OFX element, an element with children has no text *)
Definition tagok (g : text) : bool := tag_ok html_empty g.
Fixpoint frame_ok (t : Compose.etree) : bool :=
  match t with
  | Compose.Node g x ch =>
    tagok g && match ch with [] => true | _ :: _ => match x with None => true | Some _ => false end && forallb frame_ok ch end
  end.
(** the data: every element without children either has no text (an empty aggregate) or text that is non-empty and has no
    surrounding white space *)
Fixpoint leaves_stripped (t : Compose.etree) : bool :=
  match t with
  | Compose.Node g x ch =>
    match ch with [] => match x with None => true | Some s => stripped s end | _ :: _ => forallb leaves_stripped ch end
  end.

Lemma ser_ok_split t : frame_ok t = true -> leaves_stripped t = true -> ser_ok html_empty (to_sg t) = true.
Proof.
  induction t as [g x ch IH] using cetree_ind. cbn [frame_ok leaves_stripped to_sg ser_ok]. intros F L.
  apply andb_true_iff in F. destruct F as [Fg F]. unfold tagok in Fg. rewrite Fg. cbn [andb].
  destruct ch as [|c ch]; [exact L|]. cbn [map]. apply andb_true_iff in F. destruct F as [Fx F].
  destruct x; [discriminate|]. cbn [andb]. change (to_sg c :: map to_sg ch) with (map to_sg (c :: ch)).
  apply forallb_forall. intros y I. apply in_map_iff in I. destruct I as [z [<- I]]. rewrite Forall_forall in IH.
  rewrite forallb_forall in F, L. apply IH; auto.
Qed.

(* ------------------------------------------------------------------ the frame of every composed tree is fine *)
Lemma frame_leaf g v : tagok g = true -> forallb frame_ok (leaf g v) = true.
Proof. intros G. destruct v; cbn [leaf forallb frame_ok]; [rewrite G|]; reflexivity. Qed.
Lemma frame_node g l : tagok g = true -> forallb frame_ok l = true -> frame_ok (Compose.Node g None l) = true.
Proof. intros G L. cbn [frame_ok]. rewrite G. destruct l; [reflexivity|exact L]. Qed.
Lemma frame_cons t l : frame_ok t = true -> forallb frame_ok l = true -> forallb frame_ok (t :: l) = true.
Proof. intros A B. cbn [forallb]. rewrite A, B. reflexivity. Qed.

Ltac fr :=
  repeat first
    [ reflexivity
    | rewrite forallb_app; apply andb_true_intro; split
    | apply frame_leaf; vm_compute; reflexivity
    | apply frame_cons
    | apply frame_node; [vm_compute; reflexivity|] ].

Lemma frame_signon c d uid pw : frame_ok (spec_signon c d uid pw) = true.
Proof. unfold spec_signon. destruct (truthy (org c)); fr. Qed.

Lemma frame_wrapper c r u : frame_ok (spec_wrapper c r u) = true.
Proof.
  destruct r; cbn [spec_wrapper]; unfold wrapper, acct_bank, acct_cc, acct_inv, inctran_node; try (fr; fail).
  destruct inctran as [[|]|]; fr.
Qed.
Lemma frame_W c l us : forallb frame_ok (W c l us) = true.
Proof.
  unfold W. apply forallb_forall. intros w I. apply in_map_iff in I. destruct I as [p [<- _]]. apply frame_wrapper.
Qed.
Lemma tagok_msgset m : tagok (msgset_name m) = true.
Proof. destruct m; vm_compute; reflexivity. Qed.
Lemma frame_mset m ws : forallb frame_ok ws = true -> forallb frame_ok (olist (mset m ws)) = true.
Proof.
  intros H. destruct ws as [|w ws]; [reflexivity|]. cbn [mset olist]. apply frame_cons; [|reflexivity].
  apply frame_node; [apply tagok_msgset|exact H].
Qed.

Lemma frame_statements c uuids d pw gen reqs r :
  request_statements c uuids d pw gen reqs = OK r -> frame_ok (c_body r) = true.
Proof.
  intros H. apply statements_closed in H.
  destruct H as [u0 [u1 [u2 [u3 [u4 [rest [_ [_ [_ [_ [_ [_ [-> _]]]]]]]]]]]]].
  apply frame_node; [vm_compute; reflexivity|]. apply frame_cons; [apply frame_signon|].
  rewrite !forallb_app. repeat (apply andb_true_intro; split); apply frame_mset; rewrite ?forallb_app, !frame_W; reflexivity.
Qed.
Lemma frame_accounts c uuids d pw dt gen r :
  request_accounts c uuids d pw dt gen = OK r -> frame_ok (c_body r) = true.
Proof.
  intros H. apply accounts_closed in H. destruct H as [u [rest [_ [-> _]]]]. unfold wrapper.
  apply frame_node; [vm_compute; reflexivity|]. apply frame_cons; [apply frame_signon|]. fr.
Qed.
Lemma frame_profile c uuids d dp ov oc gen r :
  request_profile c uuids d dp ov oc gen = OK r -> frame_ok (c_body r) = true.
Proof.
  intros H. apply profile_closed in H. destruct H as [u [rest [_ [-> _]]]]. unfold wrapper.
  apply frame_node; [vm_compute; reflexivity|]. apply frame_cons; [apply frame_signon|]. fr.
Qed.

Lemma frame_taxyears len : forall ys es, taxyear_elems len ys = OK es -> forallb frame_ok es = true.
Proof.
  induction ys as [|y ys IH]; intros es H; cbn [taxyear_elems] in H; [inversion H; reflexivity|]. inv_ok. subst.
  apply frame_cons; [|eapply IH; eassumption].
  match goal with H : taxyear_elem _ _ = OK _ |- _ => unfold taxyear_elem in H; rename H into HY end.
  destruct y; [inversion HY; vm_compute; reflexivity|].
  destruct (py_int (n :: y)) as [[neg k]|]; [|discriminate].
  match type of HY with (if ?b then _ else _) = _ => destruct b end; [discriminate|]. inversion HY. vm_compute. reflexivity.
Qed.
Lemma frame_tax c uuids d pw ys an rid gen r :
  request_tax1099 c uuids d pw ys an rid gen = OK r -> frame_ok (c_body r) = true.
Proof.
  intros H. apply tax_closed in H. destruct H as [u [rest [len [es [_ [_ [HY [-> _]]]]]]]]. unfold wrapper.
  apply frame_node; [vm_compute; reflexivity|]. apply frame_cons; [apply frame_signon|].
  apply frame_cons; [|reflexivity]. apply frame_node; [vm_compute; reflexivity|]. apply frame_cons; [|reflexivity].
  apply frame_node; [vm_compute; reflexivity|]. rewrite forallb_app. apply andb_true_intro. split; [fr|].
  apply frame_cons; [|reflexivity]. apply frame_node; [vm_compute; reflexivity|].
  rewrite !forallb_app. repeat (apply andb_true_intro; split); [fr|fr|]. eapply frame_taxyears; eassumption.
Qed.

(* ------------------------------------------------------------------ the header text is the Header engine's str(header) *)
(** newfileuid or "NONE" *)
Definition uid_in (nf : option text) : text := match nf with Some (c :: r) => c :: r | _ => T "NONE" end.
Definition h1_of (ver : N) (nf : text) : hdr1 :=
  Hdr1 100 (T "OFXSGML") (Z.of_N ver) (T "NONE") (T "USASCII") (T "NONE") (T "NONE") (T "NONE") nf.
Definition h2_of (ver : N) (nf : text) : hdr2 := Hdr2 200 (Z.of_N ver) (T "NONE") (T "NONE") nf.
Definition hdr_version (h : hdr) : Z := match h with H1 a => h1_version a | H2 a => h2_version a end.
Definition hdr_newfileuid (h : hdr) : text := match h with H1 a => h1_new a | H2 a => h2_new a end.

Lemma dec_of_Z_N n : dec_of_Z (Z.of_N n) = dec_of_N n.
Proof. unfold dec_of_Z. destruct (Z.of_N n <? 0)%Z eqn:E; [lia|]. rewrite N2Z.id. reflexivity. Qed.
Lemma header_v1_str ver nf : header_v1 ver nf = str_v1 (h1_of ver nf).
Proof.
  unfold header_v1, str_v1, h1_of. cbn [h1_ofxheader h1_data h1_version h1_security h1_encoding h1_charset h1_compression h1_old h1_new].
  rewrite dec_of_Z_N. generalize (dec_of_N ver). intros a. vm_compute. reflexivity.
Qed.
Lemma header_v2_str ver nf : header_v2 ver nf = str_v2 (h2_of ver nf).
Proof.
  unfold header_v2, str_v2, h2_of. cbn [h2_ofxheader h2_version h2_security h2_old h2_new].
  rewrite dec_of_Z_N. generalize (dec_of_N ver). intros a. vm_compute. reflexivity.
Qed.

Lemma uid_no_amp u : uid_ok u = true -> no_amp u = true.
Proof.
  unfold uid_ok, no_amp. intros H. apply andb_true_iff in H. destruct H as [H _]. apply andb_true_iff in H. destruct H as [H _].
  rewrite forallb_forall in *. intros x I. specialize (H x I). unfold uidc in H. destruct (x =? 38) eqn:E; [|reflexivity].
  apply N.eqb_eq in E. subst. discriminate.
Qed.
Lemma uid_nonempty u : uid_ok u = true -> exists c r, u = c :: r.
Proof. destruct u; [discriminate|eauto]. Qed.
Lemma conv_fileuid_uid nf x : conv_fileuid nf = OK x -> uid_ok (uid_in nf) = true -> x = uid_in nf.
Proof.
  unfold conv_fileuid. intros H U. inv_ok.
  assert (E : match nf with Some [] | None => T "NONE" | Some s => s end = uid_in nf) by (destruct nf as [[|? ?]|]; reflexivity).
  rewrite E in *. destruct (uid_nonempty _ U) as [c [r Eu]].
  match goal with H : conv_string _ _ _ _ = OK _ |- _ => apply conv_string_ok in H; rename H into HC end. subst.
  rewrite Eu in H. cbn [norm] in H. rewrite <- Eu in H. rewrite unescape_no_amp in H by (apply uid_no_amp; exact U).
  inversion H. reflexivity.
Qed.

Lemma v2_versions_spec : forallb (fun v => existsb (Z.eqb (Z.of_N v)) spec_v2_versions) hdr_v2_versions = true.
Proof. vm_compute. reflexivity. Qed.
Lemma valid2_of ver nf : In ver hdr_v2_versions -> uid_ok nf = true -> valid2 (h2_of ver nf) = true.
Proof.
  intros I U. unfold valid2, h2_of. cbn [h2_ofxheader h2_version h2_security h2_old h2_new]. rewrite U.
  pose proof v2_versions_spec as S. rewrite forallb_forall in S. rewrite (S ver I). vm_compute. reflexivity.
Qed.
Lemma valid1_of ver nf : ver / 100 = 1 -> uid_ok nf = true -> valid1 (h1_of ver nf) = true.
Proof.
  intros D U. unfold valid1, h1_of.
  cbn [h1_ofxheader h1_data h1_version h1_security h1_encoding h1_charset h1_compression h1_old h1_new]. rewrite U.
  assert (ver < 200).
  { pose proof (N.div_mod ver 100 ltac:(discriminate)) as E. pose proof (N.mod_lt ver 100 ltac:(discriminate)) as M.
    rewrite D in E. set (m := ver mod 100) in *. clearbody m. lia. }
  assert (A : (0 <=? Z.of_N ver)%Z = true) by lia. assert (B : (Z.of_N ver <? 1000)%Z = true) by lia. rewrite A, B.
  vm_compute. reflexivity.
Qed.

Lemma utf8_strict_scalar s : scalar_text s = true -> utf8_strict s = OK (utf8_xcr s).
Proof.
  induction s as [|x s IH]; intros H; [reflexivity|]. cbn [scalar_text forallb] in H. apply andb_true_iff in H. destruct H as [Hx Hs].
  apply andb_true_iff in Hx. destruct Hx as [Hsur _]. apply negb_true_iff in Hsur. cbn [utf8_strict utf8_xcr]. rewrite Hsur.
  rewrite (IH Hs). reflexivity.
Qed.

(* ------------------------------------------------------------------ serialize, read back *)
(** the text one of the two writers produces for the tree [t] *)
Definition written_text (pretty closed : bool) (t : Compose.etree) : text :=
  let it := if pretty then indent 0%nat (embed (to_sg t)) else embed (to_sg t) in
  if closed then html_text html_empty it else unclosed_text true it.
(** what reading the bytes back must give: the header record and the tree with its data entity-escaped *)
Definition read_back (hdr_text : text) (body : list N) (ver : N) (nf : option text) (t : Compose.etree) : Prop :=
  exists hd msg, parse_header (hdr_text ++ body)%list = OK (hd, msg)
                 /\ hdr_version hd = Z.of_N ver /\ hdr_newfileuid hd = uid_in nf
                 /\ parse repaired msg = OK (Some (tree_of (wire_doc (to_sg t)))).

Lemma written_parses_back ver nf h t (pretty closed : bool) body :
  header_text ver nf = OK h -> negb closed && (200 <=? ver) = false ->
  uid_ok (uid_in nf) = true ->
  frame_ok t = true -> leaves_stripped t = true -> is_agg (wire_doc (to_sg t)) = true ->
  (closed = false -> sgml_ok (wire_doc (to_sg t)) = true) ->
  scalar_text (written_text pretty closed t) = true ->
  serialize_body html_empty true pretty closed (to_sg t) = OK body ->
  read_back h body ver nf t.
Proof.
  intros Eh Eg U F L A SG SC SB.
  pose proof (ser_ok_split t F L) as SO.
  unfold header_text in Eh. apply bind_ok in Eh. destruct Eh as [x [Ex Eh]].
  apply conv_fileuid_uid in Ex; [|exact U]. subst x.
  unfold written_text in SC. unfold serialize_body in SB.
  assert (EB : body = utf8_xcr (if closed then html_text html_empty (if pretty then indent 0%nat (embed (to_sg t)) else embed (to_sg t))
                                else unclosed_text true (if pretty then indent 0%nat (embed (to_sg t)) else embed (to_sg t)))).
  { destruct closed; [inversion SB; reflexivity|]. unfold tostring_unclosed in SB. rewrite (utf8_strict_scalar _ SC) in SB.
    inversion SB. reflexivity. }
  destruct (ver / 100 =? 1) eqn:E1.
  - apply N.eqb_eq in E1. destruct (ver <? 10 ^ hdr_v1_version_len); [|discriminate]. inversion Eh as [Eh'].
    unfold read_back. rewrite header_v1_str.
    destruct (client_tree_bytes_v1_l (h1_of ver (uid_in nf)) 2 (to_sg t) pretty closed body) as [msg [P1 P2]].
    + apply valid1_of; assumption.
    + reflexivity.
    + exact SO.
    + intros C. split; [apply SG; exact C|exact A].
    + cbv zeta. unfold encode_opt. rewrite EB. apply utf8_encoders_agree. exact SC.
    + exists (H1 (h1_of ver (uid_in nf))), msg. repeat split; assumption.
  - destruct (ver / 100 =? 2) eqn:E2; [|discriminate]. apply N.eqb_eq in E2.
    destruct (existsb (N.eqb ver) hdr_v2_versions) eqn:EX; [|discriminate]. inversion Eh as [Eh'].
    apply existsb_exists in EX. destruct EX as [v [I Ev]]. apply N.eqb_eq in Ev. subst v.
    assert (C : closed = true).
    { destruct closed; [reflexivity|]. cbn [negb andb] in Eg. apply N.leb_gt in Eg.
      pose proof (N.div_mod ver 100 ltac:(discriminate)) as D. rewrite E2 in D. lia. }
    rewrite C in *. unfold read_back. rewrite header_v2_str.
    destruct (client_tree_bytes_v2_l (h2_of ver (uid_in nf)) (to_sg t) pretty) as [msg [P1 P2]].
    + apply valid2_of; assumption.
    + exact SO.
    + exact SC.
    + inversion SB. exists (H2 (h2_of ver (uid_in nf))), msg. repeat split; assumption.
Qed.

Lemma serialize_parses_back c ov oc nf t r (pretty : bool) body :
  serialize c ov oc nf t = OK r ->
  uid_ok (uid_in nf) = true ->
  frame_ok t = true -> leaves_stripped t = true -> is_agg (wire_doc (to_sg t)) = true ->
  (dflt oc (close_elements c) = false -> sgml_ok (wire_doc (to_sg t)) = true) ->
  scalar_text (written_text pretty (dflt oc (close_elements c)) t) = true ->
  serialize_body html_empty true pretty (dflt oc (close_elements c)) (to_sg t) = OK body ->
  read_back (c_header r) body (dflt ov (version c)) nf (c_body r).
Proof.
  intros HS. apply serialize_ok in HS. destruct HS as [Eb [Eh Eg]]. rewrite Eb. intros. eapply written_parses_back; eassumption.
Qed.

(** the uuid written as NEWFILEUID is one of the stream *)
Lemma nf_uid_ok (gen : bool) rest uuids :
  (forall u, In u rest -> In u uuids) -> forallb uid_ok uuids = true ->
  uid_ok (uid_in (if gen then hd_error rest else None)) = true.
Proof.
  intros S U. destruct gen; [|reflexivity]. destruct rest as [|u rest]; [reflexivity|]. cbn [hd_error uid_in].
  rewrite forallb_forall in U. assert (K : uid_ok u = true) by (apply U, S; left; reflexivity).
  destruct u; [discriminate K|exact K].
Qed.

(** every composed request, written by OFXClient.serialize with the client's own settings, is read back *)
Theorem composed_parses_back_l :
  (forall c uuids d pw gen reqs r body,
     request_statements c uuids d pw gen reqs = OK r ->
     forallb uid_ok uuids = true -> leaves_stripped (c_body r) = true ->
     (close_elements c = false -> sgml_ok (wire_doc (to_sg (c_body r))) = true) ->
     scalar_text (written_text (prettyprint c) (close_elements c) (c_body r)) = true ->
     serialize_body html_empty true (prettyprint c) (close_elements c) (to_sg (c_body r)) = OK body ->
     exists nf, read_back (c_header r) body (version c) nf (c_body r))
  /\ (forall c uuids d pw dt gen r body,
     request_accounts c uuids d pw dt gen = OK r ->
     forallb uid_ok uuids = true -> leaves_stripped (c_body r) = true ->
     (close_elements c = false -> sgml_ok (wire_doc (to_sg (c_body r))) = true) ->
     scalar_text (written_text (prettyprint c) (close_elements c) (c_body r)) = true ->
     serialize_body html_empty true (prettyprint c) (close_elements c) (to_sg (c_body r)) = OK body ->
     exists nf, read_back (c_header r) body (version c) nf (c_body r))
  /\ (forall c uuids d pw ys an rid gen r body,
     request_tax1099 c uuids d pw ys an rid gen = OK r ->
     forallb uid_ok uuids = true -> leaves_stripped (c_body r) = true ->
     (close_elements c = false -> sgml_ok (wire_doc (to_sg (c_body r))) = true) ->
     scalar_text (written_text (prettyprint c) (close_elements c) (c_body r)) = true ->
     serialize_body html_empty true (prettyprint c) (close_elements c) (to_sg (c_body r)) = OK body ->
     exists nf, read_back (c_header r) body (version c) nf (c_body r))
  /\ (forall c uuids d dp ov oc (op : option bool) gen r body,
     request_profile c uuids d dp ov oc gen = OK r ->
     forallb uid_ok uuids = true -> leaves_stripped (c_body r) = true ->
     (dflt oc (close_elements c) = false -> sgml_ok (wire_doc (to_sg (c_body r))) = true) ->
     scalar_text (written_text (dflt op (prettyprint c)) (dflt oc (close_elements c)) (c_body r)) = true ->
     serialize_body html_empty true (dflt op (prettyprint c)) (dflt oc (close_elements c)) (to_sg (c_body r)) = OK body ->
     exists nf, read_back (c_header r) body (dflt ov (version c)) nf (c_body r)).
Proof.
  split; [|split; [|split]].
  - intros * H U L SG SC SB. pose proof (frame_statements _ _ _ _ _ _ _ H) as F. apply statements_closed in H.
    destruct H as [u0 [u1 [u2 [u3 [u4 [rest [EU [_ [_ [_ [_ [_ [Eb [Eh Eg]]]]]]]]]]]]]].
    eexists. eapply written_parses_back; try eassumption.
    + apply (nf_uid_ok gen rest uuids); [|exact U]. intros u I. rewrite EU, !app_assoc. apply in_or_app. right. exact I.
    + rewrite Eb. reflexivity.
  - intros * H U L SG SC SB. pose proof (frame_accounts _ _ _ _ _ _ _ H) as F. apply accounts_closed in H.
    destruct H as [u [rest [EU [Eb [Eh Eg]]]]].
    eexists. eapply written_parses_back; try eassumption.
    + apply (nf_uid_ok gen rest uuids); [|exact U]. intros v I. rewrite EU. right. exact I.
    + rewrite Eb. reflexivity.
  - intros * H U L SG SC SB. pose proof (frame_tax _ _ _ _ _ _ _ _ _ H) as F. apply tax_closed in H.
    destruct H as [u [rest [len [es [EU [_ [_ [Eb [Eh Eg]]]]]]]]].
    eexists. eapply written_parses_back; try eassumption.
    + apply (nf_uid_ok gen rest uuids); [|exact U]. intros v I. rewrite EU. right. exact I.
    + rewrite Eb. reflexivity.
  - intros * H U L SG SC SB. pose proof (frame_profile _ _ _ _ _ _ _ _ H) as F. apply profile_closed in H.
    destruct H as [u [rest [EU [Eb [Eh Eg]]]]].
    eexists. eapply written_parses_back; try eassumption.
    + apply (nf_uid_ok gen rest uuids); [|exact U]. intros v I. rewrite EU. right. exact I.
    + rewrite Eb. reflexivity.
Qed.

(** what the tree builder returns is the composed tree itself with every element's data passed through ET._escape_cdata
    (the converters of the reading side undo that: Types.String unescapes) *)
Fixpoint esc_data (t : Compose.etree) : Compose.etree :=
  match t with Compose.Node g x ch => Compose.Node g (option_map escape_cdata x) (map esc_data ch) end.
Lemma read_tree_is_escaped t :
  frame_ok t = true -> leaves_stripped t = true -> tree_of (wire_doc (to_sg t)) = to_sg (esc_data t).
Proof.
  unfold wire_doc. induction t as [g x ch IH] using cetree_ind. cbn [frame_ok leaves_stripped]. intros F L.
  apply andb_true_iff in F. destruct F as [_ F]. destruct ch as [|c ch].
  - cbn [to_sg map embed wire_it esc_data]. destruct x as [s|]; [rewrite L|]; reflexivity.
  - apply andb_true_iff in F. destruct F as [Fx F]. destruct x; [discriminate|].
    cbn [to_sg esc_data option_map]. cbn [embed]. change (map embed (map to_sg (c :: ch))) with (map embed (map to_sg (c :: ch))).
    remember (c :: ch) as l eqn:El. cbn [wire_it].
    assert (NE : map embed (map to_sg l) <> []) by (subst l; discriminate).
    destruct (map embed (map to_sg l)) as [|i il] eqn:Em; [congruence|]. rewrite <- Em. cbn [tree_of]. f_equal.
    rewrite !map_map. apply map_ext_in. intros y I. rewrite Forall_forall in IH. rewrite forallb_forall in F, L. apply IH; auto.
Qed.

(** the hypotheses are inhabited: a mixed statement request at version 102 without end tags, pretty-printed, and the same at 203 *)
Definition pb_cfg (ver : N) (close : bool) : cfg :=
  {| url := []; userid := T "MoMoney"; clientuid := Some (T "CUID"); org := Some (T "B1"); fid := Some (T "10898"); version := ver;
     appid := d_appid; appver := d_appver; language := d_language; useragent := d_useragent; prettyprint := true;
     close_elements := close; bankid := Some (T "111000614"); brokerid := Some (T "broker"); persist_cookies := true |}.
Definition pb_reqs : list rq :=
  [StmtRq (Some (T "a&b<c")) (Some (T "CHECKING")) (DAware (T "20150101000000.000[+0:UTC]")) DNone (Some true);
   CcStmtEndRq (Some (T "ce")) DNone DNone;
   InvStmtRq (Some (T "i1")) DNone DNone DNone (Some false) (Some false) (Some true) (Some true)].
Definition pb_uuids : list text := [T "U-0"; T "U-1"; T "U-2"; T "NEW_1"].
Definition pb_ok (ver : N) (close : bool) : bool :=
  match request_statements (pb_cfg ver close) pb_uuids (DAware (T "20240301120000.000[+0:UTC]")) (T "pw") true pb_reqs with
  | OK r => forallb uid_ok pb_uuids && leaves_stripped (c_body r) && sgml_ok (wire_doc (to_sg (c_body r)))
            && scalar_text (written_text true close (c_body r))
            && is_ok (serialize_body html_empty true true close (to_sg (c_body r)))
  | Err _ => false
  end.
Lemma parses_back_inhabited : pb_ok 102 false = true /\ pb_ok 102 true = true /\ pb_ok 203 true = true.
Proof. repeat split; vm_compute; reflexivity. Qed.
