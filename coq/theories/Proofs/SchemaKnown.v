(** Witnesses of wf_schema that correspond to recorded findings (/verif/known_findings.json, status "known").
    Each is a specific class/attribute, so any other witness still breaks the obligation. *)
From OfxV Require Import Base.Prelude Model.Schema Model.SchemaWf.
Local Open Scope string_scope.
Definition known_witnesses : list witness :=
  [ W "adjacent" "TAX1099INT_V100" "taxexemptint";
    W "mutex-member" "TAX1099MISC_V100" "addlsttaxwhagg";
    W "mutex-member" "TAX1099INT_V100" "forincome";
    W "mutex-member" "TAX1099DIV_V100" "forincome" ].
