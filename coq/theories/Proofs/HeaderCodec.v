(** The three executable codecs of Model/Header.v (latin_1, cp1252 from the generated table, strict UTF-8) satisfy the
    hypotheses the C05 theorems make about a codec: decoding an ASCII prefix followed by an encoded text gives the prefix
    followed by the text, and the encoding of a text that starts with '<' starts with the byte '<'.  (That these
    functions ARE Python's codecs is checked by the correspondence run, not proved.) *)
From OfxV Require Import Base.Prelude Base.Digits Gen.HeaderGen Model.Header Model.HeaderLayout
  Proofs.HeaderChars Proofs.HeaderParse.
From Coq Require Import ZifyBool ZifyN ZifyNat.
Local Open Scope N_scope.

Lemma map_opt_app {A B} (f : A -> option B) a b :
  map_opt f (a ++ b) = match map_opt f a, map_opt f b with Some x, Some y => Some (x ++ y) | _, _ => None end.
Proof.
  induction a as [|c a IH]; cbn [app map_opt].
  - destruct (map_opt f b); reflexivity.
  - destruct (f c); [|reflexivity]. rewrite IH. destruct (map_opt f a), (map_opt f b); reflexivity.
Qed.
Lemma map_opt_ascii (f : N -> option N) a : (forall c, c < 128 -> f c = Some c) -> ascii a = true -> map_opt f a = Some a.
Proof.
  intros F. induction a as [|c a IH]; [reflexivity|]. unfold ascii. cbn [forallb map_opt]. rewrite andb_true_iff. intros [A B].
  rewrite F by lia. rewrite (IH B). reflexivity.
Qed.

(** * latin_1 *)
Lemma latin1_enc_id s b : latin1_enc s = Some b -> b = s /\ latin1_dec b = Some b.
Proof.
  revert b. induction s as [|c s IH]; intros b H; cbn [latin1_enc map_opt] in H.
  - injection H as H. subst b. split; reflexivity.
  - destruct (c <? 256) eqn:E; [|discriminate H]. fold (latin1_enc s) in H. destruct (latin1_enc s) as [t|] eqn:Es; [|discriminate H].
    injection H as H. subst b. destruct (IH t eq_refl) as [E1 E2]. subst t. split; [reflexivity|].
    unfold latin1_dec in *. cbn [map_opt]. rewrite E, E2. reflexivity.
Qed.
Lemma latin1_ok a s b : ascii a = true -> latin1_enc s = Some b -> latin1_dec (a ++ b) = Some (a ++ s).
Proof.
  intros A E. apply latin1_enc_id in E. destruct E as [E1 E2]. subst b. unfold latin1_dec in *. rewrite map_opt_app, E2.
  rewrite (map_opt_ascii _ a); [reflexivity| |exact A]. intros c L. destruct (c <? 256) eqn:X; [reflexivity|lia].
Qed.

(** * cp1252 *)
Lemma find_index_sound c l : forall k i, find_index c l k = Some i -> exists j, i = k + N.of_nat j /\ nth j l None = Some c.
Proof.
  induction l as [|[x|] l IH]; intros k i H; cbn [find_index] in H; [discriminate H| |].
  - destruct (x =? c) eqn:E.
    + injection H as H. subst i. apply N.eqb_eq in E. subst x. exists 0%nat. split; [lia|reflexivity].
    + apply IH in H. destruct H as [j [E1 E2]]. exists (S j). split; [lia|exact E2].
  - apply IH in H. destruct H as [j [E1 E2]]. exists (S j). split; [lia|exact E2].
Qed.
Lemma cp1252_enc1_dec1 c i : find_index c cp1252_table 0 = Some i -> cp1252_dec1 i = Some c.
Proof. intro H. apply find_index_sound in H. destruct H as [j [E1 E2]]. unfold cp1252_dec1. subst i. rewrite N.add_0_l, Nat2N.id. exact E2. Qed.
Lemma cp1252_enc_dec s : forall b, cp1252_enc s = Some b -> cp1252_dec b = Some s.
Proof.
  induction s as [|c s IH]; intros b H; unfold cp1252_enc in H; cbn [map_opt] in H.
  - injection H as H. subst b. reflexivity.
  - destruct (find_index c cp1252_table 0) as [i|] eqn:E; [|discriminate H]. fold (cp1252_enc s) in H.
    destruct (cp1252_enc s) as [t|] eqn:Es; [|discriminate H]. injection H as H. subst b.
    unfold cp1252_dec. cbn [map_opt]. rewrite (cp1252_enc1_dec1 c i E). fold (cp1252_dec t). rewrite (IH t eq_refl). reflexivity.
Qed.
Lemma cp1252_ascii c : c < 128 -> cp1252_dec1 c = Some c.
Proof.
  intro L. assert (S : forallb (fun c => option_eqb N.eqb (cp1252_dec1 c) (Some c)) (Nrange 128) = true) by (vm_compute; reflexivity).
  pose proof (sweep _ 128 S c L) as F. cbv beta in F. destruct (cp1252_dec1 c) as [x|]; cbn in F; [apply N.eqb_eq in F; congruence|discriminate F].
Qed.
Lemma cp1252_ok a s b : ascii a = true -> cp1252_enc s = Some b -> cp1252_dec (a ++ b) = Some (a ++ s).
Proof.
  intros A E. apply cp1252_enc_dec in E. unfold cp1252_dec in *. rewrite map_opt_app, E.
  rewrite (map_opt_ascii _ a cp1252_ascii A). reflexivity.
Qed.

(** * UTF-8 *)
Ltac Zify.zify_post_hook ::= Z.to_euclidean_division_equations.
Lemma utf8_dec_1 b0 rest : (b0 <? 128) = true -> utf8_dec (b0 :: rest) = option_map (cons b0) (utf8_dec rest).
Proof. intro H1. cbn [utf8_dec]. rewrite H1. reflexivity. Qed.
Lemma utf8_dec_2 b0 b1 rest : (b0 <? 128) = false -> (194 <=? b0) && (b0 <=? 223) = true -> cont b1 = true ->
  utf8_dec (b0 :: b1 :: rest) = option_map (cons ((b0 - 192) * 64 + (b1 - 128))) (utf8_dec rest).
Proof. intros H1 H2 H3. cbn [utf8_dec]. rewrite H1, H2, H3. reflexivity. Qed.
Lemma utf8_dec_3 b0 b1 b2 rest : (b0 <? 128) = false -> (194 <=? b0) && (b0 <=? 223) = false -> (224 <=? b0) && (b0 <=? 239) = true ->
  ((if b0 =? 224 then 160 else 128) <=? b1) && (b1 <=? (if b0 =? 237 then 159 else 191)) && cont b2 = true ->
  utf8_dec (b0 :: b1 :: b2 :: rest) = option_map (cons ((b0 - 224) * 4096 + (b1 - 128) * 64 + (b2 - 128))) (utf8_dec rest).
Proof. intros H1 H2 H3 H4. cbn [utf8_dec]. rewrite H1, H2, H3, H4. reflexivity. Qed.
Lemma utf8_dec_4 b0 b1 b2 b3 rest : (b0 <? 128) = false -> (194 <=? b0) && (b0 <=? 223) = false -> (224 <=? b0) && (b0 <=? 239) = false ->
  (240 <=? b0) && (b0 <=? 244) = true ->
  ((if b0 =? 240 then 144 else 128) <=? b1) && (b1 <=? (if b0 =? 244 then 143 else 191)) && cont b2 && cont b3 = true ->
  utf8_dec (b0 :: b1 :: b2 :: b3 :: rest) =
  option_map (cons ((b0 - 240) * 262144 + (b1 - 128) * 4096 + (b2 - 128) * 64 + (b3 - 128))) (utf8_dec rest).
Proof. intros H1 H2 H3 H3' H4. cbn [utf8_dec]. rewrite H1, H2, H3, H3', H4. reflexivity. Qed.

Lemma utf8_step c bs rest : utf8_enc1 c = Some bs -> utf8_dec (bs ++ rest) = option_map (cons c) (utf8_dec rest).
Proof.
  unfold utf8_enc1. destruct (c <? 128) eqn:C1.
  { intro H. assert (E : bs = [c]) by congruence. clear H. subst bs. cbn [app]. apply utf8_dec_1. exact C1. }
  destruct (c <? 2048) eqn:C2.
  { intro H. remember (192 + c / 64) as b0 eqn:E0. remember (128 + c mod 64) as b1 eqn:E1.
    assert (E : bs = [b0; b1]) by congruence. clear H. subst bs. cbn [app].
    rewrite utf8_dec_2; [|lia|lia|unfold cont; lia].
    f_equal. f_equal. lia. }
  destruct (c <? 65536) eqn:C3.
  { destruct ((55296 <=? c) && (c <=? 57343)) eqn:SG; [discriminate|]. intro H.
    remember (224 + c / 4096) as b0 eqn:E0. remember (128 + (c / 64) mod 64) as b1 eqn:E1. remember (128 + c mod 64) as b2 eqn:E2.
    assert (E : bs = [b0; b1; b2]) by congruence. clear H. subst bs. cbn [app].
    rewrite utf8_dec_3; [|lia|lia|lia|].
    - f_equal. f_equal. lia.
    - unfold cont. destruct (b0 =? 224) eqn:F0; destruct (b0 =? 237) eqn:F1; lia. }
  destruct (c <? 1114112) eqn:C4; [|discriminate].
  intro H.
  remember (240 + c / 262144) as b0 eqn:E0. remember (128 + (c / 4096) mod 64) as b1 eqn:E1.
  remember (128 + (c / 64) mod 64) as b2 eqn:E2. remember (128 + c mod 64) as b3 eqn:E3.
  assert (E : bs = [b0; b1; b2; b3]) by congruence. clear H. subst bs. cbn [app].
  rewrite utf8_dec_4; [|lia|lia|lia|lia|].
  - f_equal. f_equal. lia.
  - unfold cont. destruct (b0 =? 240) eqn:F0; destruct (b0 =? 244) eqn:F1; lia.
Qed.
Lemma utf8_enc_dec s : forall b rest, utf8_enc s = Some b -> utf8_dec (b ++ rest) = option_map (app s) (utf8_dec rest).
Proof.
  induction s as [|c s IH]; intros b rest H; cbn [utf8_enc] in H.
  - injection H as H. subst b. cbn [app]. destruct (utf8_dec rest); reflexivity.
  - destruct (utf8_enc1 c) as [bs|] eqn:E1; [|discriminate H]. destruct (utf8_enc s) as [t|] eqn:E2; [|discriminate H].
    injection H as H. subst b. rewrite <- app_assoc, (utf8_step c bs _ E1), (IH t rest eq_refl). destruct (utf8_dec rest); reflexivity.
Qed.
Lemma utf8_ascii a : forall x, ascii a = true -> utf8_dec (a ++ x) = option_map (app a) (utf8_dec x).
Proof.
  induction a as [|c a IH]; intros x A; [cbn [app]; destruct (utf8_dec x); reflexivity|].
  unfold ascii in A. cbn [forallb] in A. apply andb_true_iff in A. destruct A as [A1 A2]. cbn [app utf8_dec]. rewrite A1.
  rewrite (IH x A2). destruct (utf8_dec x); reflexivity.
Qed.
Lemma utf8_ok a s b : ascii a = true -> utf8_enc s = Some b -> utf8_dec (a ++ b) = Some (a ++ s).
Proof.
  intros A E. rewrite (utf8_ascii a b A). rewrite <- (app_nil_r b). rewrite (utf8_enc_dec s b [] E). cbn [utf8_dec option_map].
  rewrite app_nil_r. reflexivity.
Qed.

(** * all three *)
Theorem codec_ok cd a s b : ascii a = true -> encode_opt cd s = Some b -> decode_opt cd (a ++ b) = Some (a ++ s).
Proof.
  intros A E. unfold encode_opt, decode_opt in *.
  destruct cd as [|p]; [apply latin1_ok; assumption|]. destruct p as [p|p|]; [destruct p; try discriminate E| |apply cp1252_ok; assumption].
  destruct p; try discriminate E. apply utf8_ok; assumption.
Qed.
Theorem codec_first cd s b : encode_opt cd (60 :: s) = Some b -> exists r, b = 60 :: r.
Proof.
  unfold encode_opt. destruct cd as [|p].
  - unfold latin1_enc. cbn [map_opt]. change (60 <? 256) with true. cbv iota. destruct (map_opt _ s); intro H; [injection H as H; eexists; symmetry; exact H|discriminate H].
  - destruct p as [p|p|].
    + destruct p; discriminate.
    + destruct p; try discriminate. cbn [utf8_enc]. change (utf8_enc1 60) with (Some [60]). destruct (utf8_enc s); intro H; [injection H as H; eexists; symmetry; exact H|discriminate H].
    + unfold cp1252_enc. cbn [map_opt]. change (find_index 60 cp1252_table 0) with (Some 60). cbv iota.
      destruct (map_opt _ s); intro H; [injection H as H; eexists; symmetry; exact H|discriminate H].
Qed.
