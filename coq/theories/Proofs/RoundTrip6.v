(** C01/C13, part 6: decidable versions of the class-table condition and of instance validity, and their soundness. *)
From OfxV Require Import Base.Prelude Model.Schema Model.SchemaWf Model.Convert Proofs.ConvertSound Proofs.RoundTrip3 Proofs.RoundTrip5.
From Coq Require Import Lia.
Local Open Scope string_scope.

Fixpoint incrb (keys : list string) (lo : nat) (names : list string) : bool :=
  match names with
  | [] => true
  | a :: t => match index_of a keys with Some i => Nat.leb lo i && incrb keys (Datatypes.S i) t | None => false end
  end.
Lemma incrb_sound keys : forall names lo, incrb keys lo names = true -> incr keys lo names.
Proof.
  induction names as [|a t IH]; intros lo H; [exact I|]. cbn [incrb] in H. destruct (index_of a keys) as [i|] eqn:Ei; [|discriminate].
  apply andb_true_iff in H. destruct H as [H1 H2]. cbn [incr]. exists i. split; [exact Ei|]. split; [apply Nat.leb_le; exact H1|apply IH; exact H2].
Qed.

Lemma dups_nil_nodup (l : list string) : dups l = [] -> NoDup l.
Proof.
  induction l as [|x l IH]; intro H; [constructor|]. cbn [dups] in H. destruct (mem x l) eqn:Em; [discriminate|].
  constructor; [|apply IH; exact H]. intro Hin. unfold mem in Em.
  assert (existsb (String.eqb x) l = true) by (apply existsb_exists; exists x; split; [exact Hin|apply String.eqb_refl]). congruence.
Qed.

Definition first_list_idx (sp : list (string * attr)) : option nat :=
  (fix go (l : list (string * attr)) (i : nat) : option nat :=
     match l with [] => None | (_, a) :: t => if is_list_attr a then Some i else go t (Datatypes.S i) end) sp 0%nat.
Definition last_list_idx1 (sp : list (string * attr)) : nat :=
  (fix go (l : list (string * attr)) (i : nat) (acc : nat) : nat :=
     match l with [] => acc | (_, a) :: t => go t (Datatypes.S i) (if is_list_attr a then Datatypes.S i else acc) end) sp 0%nat 0%nat.
Definition class_lb (c : cinfo) : nat := match first_list_idx (ci_spec c) with Some i => i | None => List.length (ci_spec c) end.
Definition class_ub (c : cinfo) : nat := Nat.max (class_lb c) (last_list_idx1 (ci_spec c)).

Definition idx_ltb (keys : list string) (hi : nat) (a : string) : bool :=
  match index_of a keys with Some i => Nat.ltb i hi | None => true end.

Definition rt_class_okb (c : cinfo) : bool :=
  let keys := map fst (ci_spec c) in
  let lb := class_lb c in let ub := class_ub c in
  ci_export c
  && (match ci_rename c with
      | None => true
      | Some (wire, py) =>
        (match assoc (lower py) (ci_spec c) with Some (AElem _ _) => true | _ => false end)
        && String.eqb py (upper (lower py)) && negb (has_dot wire) && negb (String.eqb wire py) && negb (mem (lower wire) keys)
      end)
  && (match dups keys with [] => true | _ => false end)
  && forallb (fun ka => negb (has_dot (upper (fst ka))) && String.eqb (lower (upper (fst ka))) (fst ka)
                        && match snd ka with ASub t _ | AListAgg t => String.eqb (lower t) (fst ka) | _ => true end) (ci_spec c)
  && (match split_at (ci_spec c) with
      | Some n => incrb keys 0 (map fst (firstn n (spec_no_list c))) && forallb (idx_ltb keys lb) (map fst (firstn n (spec_no_list c)))
      | None => incrb keys 0 (map fst (spec_no_list c))
      end)
  && forallb (fun ka => if is_list_attr (snd ka) then match index_of (fst ka) keys with Some i => Nat.leb lb i && Nat.ltb i ub | None => false end else true) (ci_spec c)
  && (match split_at (ci_spec c) with
      | Some n => incrb keys ub (map fst (filter (fun ka => negb (is_unsup (snd ka))) (skipn n (spec_no_list c))))
      | None => true
      end)
  && (if ci_elist c then match the_listelem c, keys_where is_listagg (ci_spec c) with Some _, [] => true | _, _ => false end
      else match keys_where is_listelem (ci_spec c) with [] => true | _ => false end).

Theorem rt_class_okb_sound_l c : rt_class_okb c = true -> rt_class_ok c (class_lb c) (class_ub c).
Proof.
  unfold rt_class_okb. intro H. repeat (apply andb_true_iff in H; destruct H as [H ?]).
  rename H into Hexp, H0 into Hel, H1 into Hpost, H2 into Hlist, H3 into Hpre, H4 into Htags, H5 into Hdup, H6 into Hren.
  constructor.
  - exact Hexp.
  - destruct (ci_rename c) as [[wire py]|]; [|exact I].
    repeat (apply andb_true_iff in Hren; destruct Hren as [Hren ?]).
    split; [destruct (assoc (lower py) (ci_spec c)) as [[t r| | | |]|]; try discriminate; eauto|].
    split; [apply String.eqb_eq; assumption|]. split; [apply negb_true_iff; assumption|].
    split; [apply String.eqb_neq; apply negb_true_iff; assumption|].
    intro Hin. match goal with H : negb (mem _ _) = true |- _ => apply negb_true_iff in H; unfold mem in H end.
    assert (E : existsb (String.eqb (lower wire)) (map fst (ci_spec c)) = true) by (apply existsb_exists; exists (lower wire); split; [exact Hin|apply String.eqb_refl]).
    congruence.
  - apply dups_nil_nodup. destruct (dups (map fst (ci_spec c))); [reflexivity|discriminate].
  - unfold class_ub. lia.
  - intros k a Hin. rewrite forallb_forall in Htags. specialize (Htags (k, a) Hin). cbn [fst snd] in Htags.
    apply andb_true_iff in Htags. destruct Htags as [Ht Ht3]. apply andb_true_iff in Ht. destruct Ht as [Ht1 Ht2].
    split; [apply negb_true_iff; exact Ht1|]. split; [apply String.eqb_eq; exact Ht2|].
    destruct a; try exact I; apply String.eqb_eq; exact Ht3.
  - destruct (split_at (ci_spec c)) as [n|].
    + apply andb_true_iff in Hpre. destruct Hpre as [Hp1 Hp2]. split; [apply incrb_sound; exact Hp1|].
      intros a i Hin Hi. rewrite forallb_forall in Hp2. specialize (Hp2 a Hin). unfold idx_ltb in Hp2. rewrite Hi in Hp2. apply Nat.ltb_lt. exact Hp2.
    + apply incrb_sound. exact Hpre.
  - intros k a i Hin Hla Hi. rewrite forallb_forall in Hlist. specialize (Hlist (k, a) Hin). cbn [fst snd] in Hlist. rewrite Hla, Hi in Hlist.
    apply andb_true_iff in Hlist. destruct Hlist as [H1 H2]. apply Nat.leb_le in H1. apply Nat.ltb_lt in H2. lia.
  - destruct (split_at (ci_spec c)); [apply incrb_sound; exact Hpost|exact I].
  - destruct (ci_elist c).
    + destruct (the_listelem c) as [[k t]|]; [|discriminate]. destruct (keys_where is_listagg (ci_spec c)) eqn:E; [|discriminate]. exists k, t. split; reflexivity.
    + destruct (keys_where is_listelem (ci_spec c)); [reflexivity|discriminate].
Qed.
