(** Reading the closed forms of Proofs/ComposeProofs.v field by field (property C06): projections of a wrapper,
    the single sign-on, plain values come through unchanged, tax years, and the recorded counter-example. *)
From OfxV Require Import Base.Prelude Base.Digits Base.ComposeBase Gen.ComposeGen Model.Compose Proofs.ComposeProofs.
From Coq Require Import Permutation Arith.
Local Open Scope N_scope.

(** the child with a given tag / the text of an element *)
Definition sub (g : string) (t : option etree) : option etree :=
  match t with Some n => find (fun k => text_eqb (tag_of k) (T g)) (children_of n) | None => None end.
Definition val (t : option etree) : option text := match t with Some n => txt_of n | None => None end.

Lemma norm_plain v : plain v = true -> norm (Some v) = Some v.
Proof.
  unfold plain. intros H. apply andb_true_iff in H. destruct H as [NE NA]. destruct v as [|x s]; [discriminate|].
  unfold norm. rewrite unescape_no_amp by assumption. reflexivity.
Qed.

Lemma find_app_leaf g g' v rest :
  find (fun k => text_eqb (tag_of k) g) (leaf g' v ++ rest) =
  if text_eqb g' g then (match v with Some x => Some (Node g' (Some x) []) | None => find (fun k => text_eqb (tag_of k) g) rest end)
  else find (fun k => text_eqb (tag_of k) g) rest.
Proof. destruct v; cbn [leaf app find tag_of]; destruct (text_eqb g' g); reflexivity. Qed.
Lemma find_leaf g g' v :
  find (fun k => text_eqb (tag_of k) g) (leaf g' v) =
  if text_eqb g' g then (match v with Some x => Some (Node g' (Some x) []) | None => None end) else None.
Proof. destruct v; cbn [leaf find tag_of]; destruct (text_eqb g' g); reflexivity. Qed.
Lemma find_cons g n rest :
  find (fun k => text_eqb (tag_of k) g) (n :: rest) = if text_eqb (tag_of n) g then Some n else find (fun k => text_eqb (tag_of k) g) rest.
Proof. reflexivity. Qed.
Lemma find_nil g : find (fun k => text_eqb (tag_of k) g) [] = None.
Proof. reflexivity. Qed.

Ltac ev_eqb := repeat match goal with |- context [text_eqb ?a ?b] =>
  let r := eval vm_compute in (text_eqb a b) in change (text_eqb a b) with r; cbv iota end.
Ltac look := repeat (first [rewrite find_app_leaf | rewrite find_leaf | rewrite find_cons | rewrite find_nil
                          | progress cbn [children_of txt_of tag_of app sub val]]; ev_eqb).
Ltac fin := repeat match goal with |- context [match ?v with Some _ => _ | None => _ end] => destruct v end; reflexivity.
Ltac proj := cbv zeta; repeat split; try (look; fin).

(** each wrapper carries its request's account id, type, bank / broker id, dates and flags, and its TRNUID *)
Lemma stmt_wrapper_carries c a t s e i u :
  let w := Some (spec_wrapper c (StmtRq a t s e i) u) in
  tag_of (spec_wrapper c (StmtRq a t s e i) u) = T "STMTTRNRQ"
  /\ val (sub "TRNUID" w) = norm (Some u)
  /\ val (sub "BANKID" (sub "BANKACCTFROM" (sub "STMTRQ" w))) = norm (bankid c)
  /\ val (sub "ACCTID" (sub "BANKACCTFROM" (sub "STMTRQ" w))) = norm a
  /\ val (sub "ACCTTYPE" (sub "BANKACCTFROM" (sub "STMTRQ" w))) = keep t
  /\ val (sub "DTSTART" (sub "INCTRAN" (sub "STMTRQ" w))) = dtext s
  /\ val (sub "DTEND" (sub "INCTRAN" (sub "STMTRQ" w))) = dtext e
  /\ val (sub "INCLUDE" (sub "INCTRAN" (sub "STMTRQ" w))) = flag i.
Proof. cbn [spec_wrapper]. unfold wrapper, acct_bank, inctran_node. proj. Qed.

Lemma ccstmt_wrapper_carries a s e i u c :
  let w := Some (spec_wrapper c (CcStmtRq a s e i) u) in
  tag_of (spec_wrapper c (CcStmtRq a s e i) u) = T "CCSTMTTRNRQ"
  /\ val (sub "TRNUID" w) = norm (Some u)
  /\ val (sub "ACCTID" (sub "CCACCTFROM" (sub "CCSTMTRQ" w))) = norm a
  /\ val (sub "DTSTART" (sub "INCTRAN" (sub "CCSTMTRQ" w))) = dtext s
  /\ val (sub "DTEND" (sub "INCTRAN" (sub "CCSTMTRQ" w))) = dtext e
  /\ val (sub "INCLUDE" (sub "INCTRAN" (sub "CCSTMTRQ" w))) = flag i.
Proof. cbn [spec_wrapper]. unfold wrapper, acct_cc, inctran_node. proj. Qed.

Lemma stmtend_wrapper_carries c a t s e u :
  let w := Some (spec_wrapper c (StmtEndRq a t s e) u) in
  tag_of (spec_wrapper c (StmtEndRq a t s e) u) = T "STMTENDTRNRQ"
  /\ val (sub "TRNUID" w) = norm (Some u)
  /\ val (sub "BANKID" (sub "BANKACCTFROM" (sub "STMTENDRQ" w))) = norm (bankid c)
  /\ val (sub "ACCTID" (sub "BANKACCTFROM" (sub "STMTENDRQ" w))) = norm a
  /\ val (sub "ACCTTYPE" (sub "BANKACCTFROM" (sub "STMTENDRQ" w))) = keep t
  /\ val (sub "DTSTART" (sub "STMTENDRQ" w)) = dtext s
  /\ val (sub "DTEND" (sub "STMTENDRQ" w)) = dtext e.
Proof. cbn [spec_wrapper]. unfold wrapper, acct_bank. proj. Qed.

Lemma ccstmtend_wrapper_carries c a s e u :
  let w := Some (spec_wrapper c (CcStmtEndRq a s e) u) in
  tag_of (spec_wrapper c (CcStmtEndRq a s e) u) = T "CCSTMTENDTRNRQ"
  /\ val (sub "TRNUID" w) = norm (Some u)
  /\ val (sub "ACCTID" (sub "CCACCTFROM" (sub "CCSTMTENDRQ" w))) = norm a
  /\ val (sub "DTSTART" (sub "CCSTMTENDRQ" w)) = dtext s
  /\ val (sub "DTEND" (sub "CCSTMTENDRQ" w)) = dtext e.
Proof. cbn [spec_wrapper]. unfold wrapper, acct_cc. proj. Qed.

(** investment: INCTRAN (with the dates) is present exactly when transactions are asked for *)
Lemma invstmt_wrapper_carries c a s e d i oo p b u :
  let w := Some (spec_wrapper c (InvStmtRq a s e d i oo p b) u) in
  tag_of (spec_wrapper c (InvStmtRq a s e d i oo p b) u) = T "INVSTMTTRNRQ"
  /\ val (sub "TRNUID" w) = norm (Some u)
  /\ val (sub "BROKERID" (sub "INVACCTFROM" (sub "INVSTMTRQ" w))) = norm (brokerid c)
  /\ val (sub "ACCTID" (sub "INVACCTFROM" (sub "INVSTMTRQ" w))) = norm a
  /\ sub "INCTRAN" (sub "INVSTMTRQ" w) = (match i with Some true => Some (inctran_node s e i) | _ => None end)
  /\ val (sub "INCOO" (sub "INVSTMTRQ" w)) = flag oo
  /\ val (sub "DTASOF" (sub "INCPOS" (sub "INVSTMTRQ" w))) = dtext d
  /\ val (sub "INCLUDE" (sub "INCPOS" (sub "INVSTMTRQ" w))) = flag p
  /\ val (sub "INCBAL" (sub "INVSTMTRQ" w)) = flag b.
Proof. cbn [spec_wrapper]. unfold wrapper, acct_inv. destruct i as [[|]|]; cbn [app]; proj. Qed.

(** the sign-on is the first child of the body and no other child is a sign-on *)
Lemma msgset_name_not_signon m : text_eqb (msgset_name m) (T "SIGNONMSGSRQV1") = false.
Proof. destruct m; vm_compute; reflexivity. Qed.
Lemma mset_not_signon m ws : Forall (fun n => text_eqb (tag_of n) (T "SIGNONMSGSRQV1") = false) (olist (mset m ws)).
Proof. destruct ws; cbn [mset olist]; constructor; [apply msgset_name_not_signon|constructor]. Qed.

Theorem statements_one_signon c uuids d pw gen reqs r :
  request_statements c uuids d pw gen reqs = OK r ->
  exists rest, c_body r = Node (T "OFX") None (spec_signon c d (userid c) pw :: rest)
               /\ Forall (fun n => text_eqb (tag_of n) (T "SIGNONMSGSRQV1") = false) rest.
Proof.
  intros H. apply statements_closed in H.
  destruct H as [u0 [u1 [u2 [u3 [u4 [rest [_ [_ [_ [_ [_ [_ [E _]]]]]]]]]]]]].
  eexists. split; [exact E|]. repeat (apply Forall_app; split); apply mset_not_signon.
Qed.

(** reading the sign-on: each identity field is the supplied value (constructor-normalised), FI iff ORG,
    CLIENTUID iff configured and version >= 103 *)
Lemma signon_fields c d uid pw :
  let so := sub "SONRQ" (Some (spec_signon c d uid pw)) in
  val (sub "DTCLIENT" so) = dtext d
  /\ val (sub "USERID" so) = norm (Some uid) /\ val (sub "USERPASS" so) = norm (Some pw)
  /\ val (sub "LANGUAGE" so) = keep (Some (language c))
  /\ val (sub "APPID" so) = norm (Some (appid c)) /\ val (sub "APPVER" so) = norm (Some (appver c))
  /\ val (sub "CLIENTUID" so) = (if version c <? 103 then None else norm (clientuid c))
  /\ (truthy (org c) = false -> sub "FI" so = None)
  /\ (truthy (org c) = true -> val (sub "ORG" (sub "FI" so)) = norm (org c) /\ val (sub "FID" (sub "FI" so)) = norm (fid c))
  /\ sub "USERKEY" so = None /\ sub "SESSCOOKIE" so = None.
Proof.
  unfold spec_signon. cbv zeta. destruct (truthy (org c)); repeat split; intros; try discriminate; try (look; fin).
Qed.

(** the recorded finding: a user id containing an entity reference is not what is written *)
Definition entity_cfg : cfg :=
  {| url := []; userid := T "AT&amp;T"; clientuid := None; org := None; fid := None; version := 203; appid := d_appid;
     appver := d_appver; language := d_language; useragent := d_useragent; prettyprint := false; close_elements := true;
     bankid := None; brokerid := None; persist_cookies := true |}.
Lemma signon_entity_witness :
  exists so, signon entity_cfg (DAware (T "20240101")) (T "pw") None = OK so
             /\ val (sub "USERID" (sub "SONRQ" (Some so))) = Some (T "AT&T")
             /\ val (sub "USERID" (sub "SONRQ" (Some so))) <> Some (userid entity_cfg).
Proof. eexists. split; [vm_compute; reflexivity|]. split; [vm_compute; reflexivity|vm_compute; discriminate]. Qed.

(** tax years: four-digit years are written as given *)
Definition tax_len : option N :=
  match lookup_attr (T "TAX1099RQ") (T "taxyear") with Some (CListInt l) => l | _ => None end.
Definition year_ok (n : N) : bool :=
  match taxyear_elem tax_len (dec_of_N n) with
  | OK (Node g (Some x) []) => text_eqb g (T "TAXYEAR") && text_eqb x (dec_of_N n)
  | _ => false
  end.
Definition small (lo n : nat) : list N := map N.of_nat (seq lo n).
(** 1000 .. 9999 as hundreds x units (no large nat literal) *)
Definition years_swept : list N := flat_map (fun h => map (fun k => 100 * h + k) (small 0 100)) (small 10 90).
Lemma year_sweep : forallb year_ok years_swept = true.
Proof. vm_compute. reflexivity. Qed.
Lemma in_small lo n k : (lo <= N.to_nat k < lo + n)%nat -> In k (small lo n).
Proof. intros R. apply in_map_iff. exists (N.to_nat k). split; [apply N2Nat.id|]. apply in_seq. exact R. Qed.
Lemma taxyear_plain n : 1000 <= n < 10000 ->
  taxyear_elem tax_len (dec_of_N n) = OK (Node (T "TAXYEAR") (Some (dec_of_N n)) []).
Proof.
  intros R. pose proof year_sweep as S. rewrite forallb_forall in S.
  assert (D : n = 100 * (n / 100) + n mod 100) by (apply N.div_mod; discriminate).
  assert (B1 : 10 <= n / 100 < 100) by (split; [apply N.div_le_lower_bound; lia | apply N.div_lt_upper_bound; lia]).
  assert (B2 : n mod 100 < 100) by (apply N.mod_lt; discriminate).
  assert (I : In n years_swept).
  { set (h := n / 100) in *. set (m := n mod 100) in *. clearbody h m.
    apply in_flat_map. exists h. split; [apply in_small; lia|].
    apply in_map_iff. exists m. split; [symmetry; exact D|apply in_small; lia]. }
  specialize (S n I). unfold year_ok in S.
  destruct (taxyear_elem tax_len (dec_of_N n)) as [[g [x|] [|? ?]]|]; try discriminate.
  apply andb_true_iff in S. destruct S as [S1 S2]. apply text_eqb_eq in S1, S2. subst. reflexivity.
Qed.

(* ------------------------------------------------------------------ statements assembled for Props/C06 *)
Definition no_signon (l : list etree) : Prop := Forall (fun n => text_eqb (tag_of n) (T "SIGNONMSGSRQV1") = false) l.

Lemma one_signon_all :
  (forall c uuids d pw gen reqs r, request_statements c uuids d pw gen reqs = OK r ->
     exists rest, c_body r = Node (T "OFX") None (spec_signon c d (userid c) pw :: rest) /\ no_signon rest)
  /\ (forall c uuids d pw dt gen r, request_accounts c uuids d pw dt gen = OK r ->
     exists rest, c_body r = Node (T "OFX") None (spec_signon c d (userid c) pw :: rest) /\ no_signon rest)
  /\ (forall c uuids d pw ys an rid gen r, request_tax1099 c uuids d pw ys an rid gen = OK r ->
     exists rest, c_body r = Node (T "OFX") None (spec_signon c d (userid c) pw :: rest) /\ no_signon rest)
  /\ (forall c uuids d dp ov oc gen r, request_profile c uuids d dp ov oc gen = OK r ->
     exists rest, c_body r = Node (T "OFX") None (spec_signon c d auth_placeholder auth_placeholder :: rest) /\ no_signon rest).
Proof.
  split; [exact statements_one_signon|]. split; [|split].
  - intros * H. apply accounts_closed in H. destruct H as [u [rest [_ [E _]]]]. eexists. split; [exact E|].
    constructor; [vm_compute; reflexivity|constructor].
  - intros * H. apply tax_closed in H. destruct H as [u [rest [len [ys' [_ [_ [_ [E _]]]]]]]]. eexists. split; [exact E|].
    constructor; [vm_compute; reflexivity|constructor].
  - intros * H. apply profile_closed in H. destruct H as [u [rest [_ [E _]]]]. eexists. split; [exact E|].
    constructor; [vm_compute; reflexivity|constructor].
Qed.

(** the header of every composed request is the v1 or v2 header text for the effective version *)
Definition header_for (ver : N) (h : text) : Prop :=
  exists nf, (ver / 100 = 1 /\ h = header_v1 ver nf) \/ (ver / 100 = 2 /\ In ver hdr_v2_versions /\ h = header_v2 ver nf).
Lemma header_all :
  (forall c uuids d pw gen reqs r, request_statements c uuids d pw gen reqs = OK r -> header_for (version c) (c_header r))
  /\ (forall c uuids d pw dt gen r, request_accounts c uuids d pw dt gen = OK r -> header_for (version c) (c_header r))
  /\ (forall c uuids d pw ys an rid gen r, request_tax1099 c uuids d pw ys an rid gen = OK r -> header_for (version c) (c_header r))
  /\ (forall c uuids d dp ov oc gen r, request_profile c uuids d dp ov oc gen = OK r -> header_for (dflt ov (version c)) (c_header r)).
Proof.
  split; [|split; [|split]]; intros * H.
  - apply statements_closed in H. destruct H as [? [? [? [? [? [? [_ [_ [_ [_ [_ [_ [_ [E _]]]]]]]]]]]]]]. eapply header_text_ok, E.
  - apply accounts_closed in H. destruct H as [? [? [_ [_ [E _]]]]]. eapply header_text_ok, E.
  - apply tax_closed in H. destruct H as [? [? [? [? [_ [_ [_ [_ [E _]]]]]]]]]. eapply header_text_ok, E.
  - apply profile_closed in H. destruct H as [? [? [_ [_ [E _]]]]]. eapply header_text_ok, E.
Qed.

(** nothing is composed for a version >= 200 without end tags *)
Lemma refusal_all :
  (forall a, dflt (a_close_elements a) d_close_elements = false -> 200 <= dflt (a_version a) d_version -> client_init a = Err Reject)
  /\ (forall c ov oc nf body, dflt oc (close_elements c) = false -> 200 <= dflt ov (version c) ->
        is_ok (serialize c ov oc nf body) = false)
  /\ (forall c uuids d pw gen reqs r, request_statements c uuids d pw gen reqs = OK r -> close_elements c = true \/ version c < 200)
  /\ (forall c uuids d pw dt gen r, request_accounts c uuids d pw dt gen = OK r -> close_elements c = true \/ version c < 200)
  /\ (forall c uuids d pw ys an rid gen r, request_tax1099 c uuids d pw ys an rid gen = OK r -> close_elements c = true \/ version c < 200)
  /\ (forall c uuids d dp ov oc gen r, request_profile c uuids d dp ov oc gen = OK r ->
        dflt oc (close_elements c) = true \/ dflt ov (version c) < 200).
Proof.
  assert (G : forall b v, negb b && (200 <=? v) = false -> b = true \/ v < 200).
  { intros [|] v E; [left; reflexivity|right]. cbn [negb andb] in E. apply N.leb_gt in E. exact E. }
  split; [exact client_init_refuses|]. split; [exact serialize_refuses|].
  split; [|split; [|split]]; intros * H; apply G.
  - apply statements_closed in H. destruct H as [? [? [? [? [? [? [_ [_ [_ [_ [_ [_ [_ [_ E]]]]]]]]]]]]]]. exact E.
  - apply accounts_closed in H. destruct H as [? [? [_ [_ [_ E]]]]]. exact E.
  - apply tax_closed in H. destruct H as [? [? [? [? [_ [_ [_ [_ [_ E]]]]]]]]]. exact E.
  - apply profile_closed in H. destruct H as [? [? [_ [_ [_ E]]]]]. exact E.
Qed.

Lemma wrappers_carry :
  (forall c a t s e i u, let w := Some (spec_wrapper c (StmtRq a t s e i) u) in
     tag_of (spec_wrapper c (StmtRq a t s e i) u) = T "STMTTRNRQ"
     /\ val (sub "TRNUID" w) = norm (Some u)
     /\ val (sub "BANKID" (sub "BANKACCTFROM" (sub "STMTRQ" w))) = norm (bankid c)
     /\ val (sub "ACCTID" (sub "BANKACCTFROM" (sub "STMTRQ" w))) = norm a
     /\ val (sub "ACCTTYPE" (sub "BANKACCTFROM" (sub "STMTRQ" w))) = keep t
     /\ val (sub "DTSTART" (sub "INCTRAN" (sub "STMTRQ" w))) = dtext s
     /\ val (sub "DTEND" (sub "INCTRAN" (sub "STMTRQ" w))) = dtext e
     /\ val (sub "INCLUDE" (sub "INCTRAN" (sub "STMTRQ" w))) = flag i)
  /\ (forall a s e i u c, let w := Some (spec_wrapper c (CcStmtRq a s e i) u) in
     tag_of (spec_wrapper c (CcStmtRq a s e i) u) = T "CCSTMTTRNRQ"
     /\ val (sub "TRNUID" w) = norm (Some u)
     /\ val (sub "ACCTID" (sub "CCACCTFROM" (sub "CCSTMTRQ" w))) = norm a
     /\ val (sub "DTSTART" (sub "INCTRAN" (sub "CCSTMTRQ" w))) = dtext s
     /\ val (sub "DTEND" (sub "INCTRAN" (sub "CCSTMTRQ" w))) = dtext e
     /\ val (sub "INCLUDE" (sub "INCTRAN" (sub "CCSTMTRQ" w))) = flag i)
  /\ (forall c a s e d i oo p b u, let w := Some (spec_wrapper c (InvStmtRq a s e d i oo p b) u) in
     tag_of (spec_wrapper c (InvStmtRq a s e d i oo p b) u) = T "INVSTMTTRNRQ"
     /\ val (sub "TRNUID" w) = norm (Some u)
     /\ val (sub "BROKERID" (sub "INVACCTFROM" (sub "INVSTMTRQ" w))) = norm (brokerid c)
     /\ val (sub "ACCTID" (sub "INVACCTFROM" (sub "INVSTMTRQ" w))) = norm a
     /\ sub "INCTRAN" (sub "INVSTMTRQ" w) = (match i with Some true => Some (inctran_node s e i) | _ => None end)
     /\ val (sub "INCOO" (sub "INVSTMTRQ" w)) = flag oo
     /\ val (sub "DTASOF" (sub "INCPOS" (sub "INVSTMTRQ" w))) = dtext d
     /\ val (sub "INCLUDE" (sub "INCPOS" (sub "INVSTMTRQ" w))) = flag p
     /\ val (sub "INCBAL" (sub "INVSTMTRQ" w)) = flag b)
  /\ (forall c a t s e u, let w := Some (spec_wrapper c (StmtEndRq a t s e) u) in
     tag_of (spec_wrapper c (StmtEndRq a t s e) u) = T "STMTENDTRNRQ"
     /\ val (sub "TRNUID" w) = norm (Some u)
     /\ val (sub "BANKID" (sub "BANKACCTFROM" (sub "STMTENDRQ" w))) = norm (bankid c)
     /\ val (sub "ACCTID" (sub "BANKACCTFROM" (sub "STMTENDRQ" w))) = norm a
     /\ val (sub "ACCTTYPE" (sub "BANKACCTFROM" (sub "STMTENDRQ" w))) = keep t
     /\ val (sub "DTSTART" (sub "STMTENDRQ" w)) = dtext s
     /\ val (sub "DTEND" (sub "STMTENDRQ" w)) = dtext e)
  /\ (forall c a s e u, let w := Some (spec_wrapper c (CcStmtEndRq a s e) u) in
     tag_of (spec_wrapper c (CcStmtEndRq a s e) u) = T "CCSTMTENDTRNRQ"
     /\ val (sub "TRNUID" w) = norm (Some u)
     /\ val (sub "ACCTID" (sub "CCACCTFROM" (sub "CCSTMTENDRQ" w))) = norm a
     /\ val (sub "DTSTART" (sub "CCSTMTENDRQ" w)) = dtext s
     /\ val (sub "DTEND" (sub "CCSTMTENDRQ" w)) = dtext e).
Proof.
  split; [exact stmt_wrapper_carries|]. split; [exact ccstmt_wrapper_carries|]. split; [exact invstmt_wrapper_carries|].
  split; [exact stmtend_wrapper_carries|exact ccstmtend_wrapper_carries].
Qed.

Lemma tax_exact c uuids d pw years acctnum recid gen r :
  request_tax1099 c uuids d pw years acctnum recid gen = OK r ->
  exists u rest ys,
    uuids = u :: rest /\ taxyear_elems tax_len years = OK ys
    /\ c_body r = Node (T "OFX") None
         [spec_signon c d (userid c) pw;
          Node (T "TAX1099MSGSRQV1") None
            [wrapper "TAX1099TRNRQ" u
               (Node (T "TAX1099RQ") None
                  (leaf (T "ACCTNUM") (norm acctnum) ++ leaf (T "RECID") (norm recid) ++ ys))]]%list.
Proof.
  intros H. apply tax_closed in H. destruct H as [u [rest [len [ys [E [EL [HY [Eb _]]]]]]]].
  exists u, rest, ys. split; [exact E|]. split; [|exact Eb]. unfold tax_len. rewrite EL. exact HY.
Qed.
Lemma taxyears_plain ns :
  Forall (fun n => 1000 <= n < 10000) ns ->
  taxyear_elems tax_len (map dec_of_N ns) = OK (map (fun n => Node (T "TAXYEAR") (Some (dec_of_N n)) []) ns).
Proof.
  induction 1 as [|n ns R _ IH]; [reflexivity|]. cbn [map taxyear_elems]. rewrite (taxyear_plain n R). cbn [bind]. rewrite IH. reflexivity.
Qed.

(** one wrapper per request of the kind: a message set is absent exactly when no request of its kinds was made *)
Lemma W_length c l : forall us, List.length us = List.length l -> List.length (W c l us) = List.length l.
Proof. intros us L. unfold W. rewrite map_length, combine_length, L. apply Nat.min_id. Qed.
Lemma statements_closed_full :
  (forall c uuids d pw gen reqs r,
    request_statements c uuids d pw gen reqs = OK r ->
    exists u0 u1 u2 u3 u4 rest,
      uuids = (u0 ++ u1 ++ u2 ++ u3 ++ u4 ++ rest)%list
      /\ List.length u0 = List.length (of_kind KCcStmtEnd reqs) /\ List.length u1 = List.length (of_kind KCcStmt reqs)
      /\ List.length u2 = List.length (of_kind KInvStmt reqs) /\ List.length u3 = List.length (of_kind KStmtEnd reqs)
      /\ List.length u4 = List.length (of_kind KStmt reqs)
      /\ c_body r = Node (T "OFX") None
           (spec_signon c d (userid c) pw
            :: olist (mset MBank (W c (of_kind KStmtEnd reqs) u3 ++ W c (of_kind KStmt reqs) u4))
            ++ olist (mset MCc (W c (of_kind KCcStmtEnd reqs) u0 ++ W c (of_kind KCcStmt reqs) u1))
            ++ olist (mset MInv (W c (of_kind KInvStmt reqs) u2)))%list
      /\ header_text (version c) (if gen then hd_error rest else None) = OK (c_header r)
      /\ negb (close_elements c) && (200 <=? version c) = false)
  /\ (forall c l us, List.length us = List.length l -> List.length (W c l us) = List.length l)
  /\ (forall k reqs, of_kind k reqs = filter (fun r => kind_eqb (kind_of r) k) reqs)
  /\ (forall m ws, mset m ws = match ws with [] => None | _ :: _ => Some (Node (msgset_name m) None ws) end)
  /\ (msgset_name MBank = T "BANKMSGSRQV1" /\ msgset_name MCc = T "CREDITCARDMSGSRQV1" /\ msgset_name MInv = T "INVSTMTMSGSRQV1").
Proof.
  split; [exact statements_closed|]. split; [exact W_length|]. split; [reflexivity|]. split; [reflexivity|].
  repeat split; vm_compute; reflexivity.
Qed.
