(** C08 core: the REPAIRED tree builder accepts an event sequence only if it is properly nested
    ([run_ok_forest], forward invariant [inv]), accepts every properly nested one ([run_forest]), hence
    decides the grammar; event-level fault lemmas (prefix, deletion, renaming, duplication, insertion). *)
From OfxV Require Import Base.Prelude Base.SgmlBase Model.Sgml Model.SgmlSpec.
From Coq Require Import Lia.
Local Open Scope N_scope.

Lemma text_eqb_refl a : text_eqb a a = true.
Proof. apply text_eqb_eq. reflexivity. Qed.
Lemma text_eqb_neq a b : text_eqb a b = false <-> a <> b.
Proof. split; intros H.
  - intro E. apply text_eqb_eq in E. congruence.
  - destruct (text_eqb a b) eqn:E; [apply text_eqb_eq in E; congruence|reflexivity]. Qed.

(** ---------------------------------------------------------------- the builder seen through [attach] *)
Definition attach (n : etree) (b : builder) : result builder :=
  match stack b with
  | (t2, x2, ch2) :: rest2 => OK {| stack := (t2, x2, n :: ch2) :: rest2; root := root b |}
  | [] => match root b with
          | None => OK {| stack := []; root := Some n |}
          | Some _ => Err Reject
          end
  end.

Lemma step_leaf b t x : step repaired b (ELeaf t x) = attach (Node t (Some x) []) b.
Proof.
  destruct b as [st r]. unfold step, attach, b_start, b_data, b_end, bind. cbn [stack root repaired checked].
  destruct st as [|[[t2 x2] ch2] rest2]; [destruct r as [r0|]|]; cbn [stack root andb negb rev app];
    rewrite ?text_eqb_refl; reflexivity.
Qed.
Lemma step_empty b t : step repaired b (EEmpty t) = attach (Node t None []) b.
Proof.
  destruct b as [st r]. unfold step, attach, b_start, b_end, bind. cbn [stack root repaired checked].
  destruct st as [|[[t2 x2] ch2] rest2]; [destruct r as [r0|]|]; cbn [stack root andb negb rev app];
    rewrite ?text_eqb_refl; reflexivity.
Qed.
Lemma step_open_nonempty fr st r t :
  step repaired {| stack := fr :: st; root := r |} (EOpen t) = OK {| stack := (t, None, []) :: fr :: st; root := r |}.
Proof. reflexivity. Qed.
Lemma step_close_top t x ch fr st r :
  step repaired {| stack := (t, x, ch) :: fr :: st; root := r |} (EClose t)
  = attach (Node t x (rev ch)) {| stack := fr :: st; root := r |}.
Proof.
  unfold step, b_end, attach. cbn [stack root repaired checked]. rewrite text_eqb_refl. cbn [andb negb].
  destruct fr as [[t2 x2] ch2]. reflexivity.
Qed.

(** ---------------------------------------------------------------- grammar facts *)
Lemma forest_app a fa b fb : forest a fa -> forest b fb -> forest (a ++ b) (fa ++ fb).
Proof.
  intros Ha Hb. induction Ha as [|t x es ts Ha IH|t es ts Ha IH|t es1 ch es2 ts H1 IH1 H2 IH2]; cbn [app].
  - exact Hb.
  - constructor. exact IH.
  - constructor. exact IH.
  - rewrite <- app_assoc. cbn [app]. constructor; [exact H1|exact IH2].
Qed.

(** ---------------------------------------------------------------- soundness: acceptance implies nesting *)
(** consumed events vs builder state; open frames never carry text *)
Inductive inv : list ev -> list frame -> option etree -> Prop :=
| inv_init : inv [] [] None
| inv_root pre t : forest pre [t] -> inv pre [] (Some t)
| inv_open pre fs r t es f : inv pre fs r -> (fs = [] -> r = None) -> forest es f ->
    inv (pre ++ EOpen t :: es) ((t, None, rev f) :: fs) r.

Lemma inv_attach pre fs r n seg : forest seg [n] -> inv pre fs r ->
  forall b', attach n {| stack := fs; root := r |} = OK b' -> inv (pre ++ seg) (stack b') (root b').
Proof.
  intros He Hinv b' Hat. unfold attach in Hat. cbn [stack root] in Hat.
  destruct Hinv as [|pre t Hf|pre fs r t es f Hinv Hr Hf].
  - inversion Hat; subst; cbn. apply inv_root. exact He.
  - discriminate.
  - inversion Hat; subst; cbn [stack root].
    replace (n :: rev f) with (rev (f ++ [n])) by (rewrite rev_app_distr; reflexivity).
    rewrite <- app_assoc. cbn [app].
    change (EOpen t :: es ++ seg) with (EOpen t :: (es ++ seg)).
    apply inv_open; [exact Hinv|exact Hr|]. apply forest_app; assumption.
Qed.

Lemma inv_step pre b e b' : inv pre (stack b) (root b) -> step repaired b e = OK b' ->
  inv (pre ++ [e]) (stack b') (root b').
Proof.
  intros Hinv Hst. destruct b as [fs r]. cbn [stack root] in Hinv. destruct e as [t|t x|t|t].
  - (* open *)
    unfold step, b_start in Hst. cbn [stack root] in Hst.
    assert (Hok : (fs = [] -> r = None) /\ b' = {| stack := (t, None, []) :: fs; root := r |}).
    { destruct fs as [|fr fs']; destruct r as [r0|]; try discriminate; inversion Hst; subst; split;
        try reflexivity; intro H; try discriminate H; reflexivity. }
    destruct Hok as [Hr ->]. cbn [stack root]. change (@nil etree) with (rev (@nil etree)).
    apply inv_open; [exact Hinv|exact Hr|constructor].
  - rewrite step_leaf in Hst. eapply inv_attach; [|exact Hinv|exact Hst]. repeat constructor.
  - rewrite step_empty in Hst. eapply inv_attach; [|exact Hinv|exact Hst]. repeat constructor.
  - (* close *)
    unfold step, b_end in Hst. cbn [stack root repaired checked] in Hst.
    destruct fs as [|[[t' x'] ch] rest]; [discriminate|].
    destruct (text_eqb t t') eqn:Et; cbn [andb negb] in Hst; [|discriminate].
    apply text_eqb_eq in Et. subst t'.
    inversion Hinv as [| |pre0 fs0 r0 t0 es f Hinv0 Hr Hf]; subst.
    rewrite rev_involutive in Hst. rewrite <- app_assoc. cbn [app].
    assert (Hn : forest (EOpen t :: es ++ [EClose t]) [Node t None f]).
    { change [EClose t] with (EClose t :: []). constructor; [exact Hf|constructor]. }
    destruct rest as [|[[t2 x2] ch2] rest2].
    + (* the root closes *)
      inversion Hst; subst; cbn [stack root].
      inversion Hinv0; subst.
      * cbn [app]. apply inv_root. exact Hn.
      * specialize (Hr eq_refl). discriminate.
    + eapply (inv_attach pre0 ((t2, x2, ch2) :: rest2) r (Node t None f)); [exact Hn|exact Hinv0|].
      unfold attach. cbn [stack root]. exact Hst.
Qed.

Lemma inv_run es : forall pre b b', inv pre (stack b) (root b) -> run repaired b es = OK b' ->
  inv (pre ++ es) (stack b') (root b').
Proof.
  induction es as [|e es IH]; intros pre b b' Hinv Hrun; cbn [run] in Hrun.
  - inversion Hrun; subst. rewrite app_nil_r. exact Hinv.
  - destruct (step repaired b e) as [b1|k] eqn:Hs; cbn [bind] in Hrun; [|discriminate].
    replace (pre ++ e :: es) with ((pre ++ [e]) ++ es) by (rewrite <- app_assoc; reflexivity).
    eapply IH; [|exact Hrun]. eapply inv_step; eassumption.
Qed.

Definition accept (es : list ev) : result (option etree) := bind (run repaired b0 es) (b_close repaired).

Theorem run_ok_forest es t : accept es = OK (Some t) -> forest es [t].
Proof.
  unfold accept. destruct (run repaired b0 es) as [b|k] eqn:Hrun; cbn [bind]; [|discriminate].
  unfold b_close. cbn [repaired checked]. destruct (stack b) eqn:Hs; [|discriminate].
  intro H. inversion H as [Hr].
  pose proof (inv_run es [] b0 b inv_init Hrun) as Hinv. cbn [app] in Hinv. rewrite Hs, Hr in Hinv.
  inversion Hinv; subst. assumption.
Qed.

(** ---------------------------------------------------------------- completeness: nesting implies acceptance *)
Lemma run_app g es1 : forall b es2, run g b (es1 ++ es2) = bind (run g b es1) (fun b' => run g b' es2).
Proof.
  induction es1 as [|e es1 IH]; intros b es2; cbn [app run bind]; [reflexivity|].
  destruct (step g b e) as [b1|k]; cbn [bind]; [apply IH|reflexivity].
Qed.

Lemma run_forest_in es ts : forest es ts -> forall t0 x0 ch0 st r,
  run repaired {| stack := (t0, x0, ch0) :: st; root := r |} es
  = OK {| stack := (t0, x0, (rev ts ++ ch0)%list) :: st; root := r |}.
Proof.
  induction 1 as [|t x es ts Hf IH|t es ts Hf IH|t es1 ch es2 ts H1 IH1 H2 IH2]; intros t0 x0 ch0 st r.
  - reflexivity.
  - cbn [run]. rewrite step_leaf. unfold attach. cbn [stack root bind]. rewrite IH.
    cbn [rev]. rewrite <- app_assoc. reflexivity.
  - cbn [run]. rewrite step_empty. unfold attach. cbn [stack root bind]. rewrite IH.
    cbn [rev]. rewrite <- app_assoc. reflexivity.
  - cbn [run]. rewrite step_open_nonempty. cbn [bind]. rewrite run_app, IH1. cbn [bind run].
    rewrite app_nil_r, step_close_top, rev_involutive. unfold attach. cbn [stack root bind]. rewrite IH2.
    cbn [rev]. rewrite <- app_assoc. reflexivity.
Qed.

Theorem run_forest es t : forest es [t] -> accept es = OK (Some t).
Proof.
  intro H. unfold accept. inversion H as [|t' x es' ts Hf|t' es' ts Hf|t' es1 ch es2 ts H1 H2]; subst.
  - inversion Hf; subst. cbn [run]. rewrite step_leaf. reflexivity.
  - inversion Hf; subst. cbn [run]. rewrite step_empty. reflexivity.
  - inversion H2; subst. cbn [run]. unfold step at 1, b_start, b0. cbn [stack root bind].
    rewrite run_app. rewrite (run_forest_in es1 ch H1). cbn [bind run].
    unfold step, b_end. cbn [stack root repaired checked]. rewrite text_eqb_refl. cbn [andb negb bind].
    rewrite app_nil_r, rev_involutive. reflexivity.
Qed.

Corollary accept_iff_forest es t : accept es = OK (Some t) <-> forest es [t].
Proof. split; [apply run_ok_forest|apply run_forest]. Qed.

(** ---------------------------------------------------------------- depth bookkeeping for the fault lemmas *)
Definition height1 (e : ev) : Z := match e with EOpen _ => 1 | EClose _ => -1 | _ => 0 end%Z.
Fixpoint height (es : list ev) : Z := match es with [] => 0 | e :: r => height1 e + height r end%Z.
Lemma height_app a b : height (a ++ b) = (height a + height b)%Z.
Proof. induction a as [|e a IH]; cbn [app height]; [reflexivity|]. rewrite IH. lia. Qed.

Lemma step_depth b e b' : step repaired b e = OK b' ->
  Z.of_nat (List.length (stack b')) = (Z.of_nat (List.length (stack b)) + height1 e)%Z.
Proof.
  destruct b as [st r]. destruct e as [t|t x|t|t]; intro H.
  - unfold step, b_start in H. cbn [stack root] in H.
    destruct st; destruct r; try discriminate; inversion H; subst; cbn [stack List.length height1]; lia.
  - rewrite step_leaf in H. unfold attach in H. cbn [stack root] in H.
    destruct st as [|[[? ?] ?] ?]; [destruct r; try discriminate|]; inversion H; subst; cbn [stack List.length height1]; lia.
  - rewrite step_empty in H. unfold attach in H. cbn [stack root] in H.
    destruct st as [|[[? ?] ?] ?]; [destruct r; try discriminate|]; inversion H; subst; cbn [stack List.length height1]; lia.
  - unfold step, b_end in H. cbn [stack root repaired checked] in H.
    destruct st as [|[[t' x'] ch] rest]; [discriminate|].
    destruct (text_eqb t t'); cbn [andb negb] in H; [|discriminate].
    destruct rest as [|[[? ?] ?] ?]; inversion H; subst; cbn [stack List.length height1]; lia.
Qed.
Lemma run_depth es : forall b b', run repaired b es = OK b' ->
  Z.of_nat (List.length (stack b')) = (Z.of_nat (List.length (stack b)) + height es)%Z.
Proof.
  induction es as [|e es IH]; intros b b' H; cbn [run] in H.
  - inversion H; subst. cbn [height]. lia.
  - destruct (step repaired b e) as [b1|k] eqn:Hs; cbn [bind] in H; [|discriminate].
    apply IH in H. apply step_depth in Hs. cbn [height]. lia.
Qed.
Lemma accept_height es t : accept es = OK (Some t) -> height es = 0%Z.
Proof.
  unfold accept. destruct (run repaired b0 es) as [b|k] eqn:Hrun; cbn [bind]; [|discriminate].
  unfold b_close. cbn [repaired checked]. destruct (stack b) eqn:Hs; [|discriminate]. intros _.
  apply run_depth in Hrun. rewrite Hs in Hrun. cbn in Hrun. lia.
Qed.

(** once the root is complete, nothing more can be consumed *)
Lemma root_done_stuck r e : exists k, step repaired {| stack := []; root := Some r |} e = Err k.
Proof. destruct e; cbn; eauto. Qed.

Lemma accepted_state es t : accept es = OK (Some t) -> run repaired b0 es = OK {| stack := []; root := Some t |}.
Proof.
  unfold accept. destruct (run repaired b0 es) as [b|k] eqn:Hrun; cbn [bind]; [|discriminate].
  unfold b_close. cbn [repaired checked]. destruct b as [st r]. cbn [stack root]. destruct st; [|discriminate].
  intro H. inversion H; subst. reflexivity.
Qed.

(** a second top-level element, or anything else after a complete document, is refused *)
Lemma accept_extension es t e es' t' : accept es = OK (Some t) -> accept (es ++ e :: es') <> OK (Some t').
Proof.
  intros H H'. apply accepted_state in H. unfold accept in H'. rewrite run_app, H in H'. cbn [bind run] in H'.
  destruct (root_done_stuck t e) as [k Hk]. rewrite Hk in H'. discriminate.
Qed.

(** a document cut off between two events is refused (it may be empty: then no tree is returned) *)
Lemma accept_proper_prefix es t : accept es = OK (Some t) ->
  forall p e q, es = p ++ e :: q -> forall t', accept p <> OK (Some t').
Proof.
  intros H p e q -> t' H'. eapply accept_extension; eassumption.
Qed.

(** deleting an aggregate's end tag / duplicating an end tag or inserting a stray one: the depth no longer returns to 0 *)
Lemma accept_delete_close p u q t t' : accept (p ++ EClose u :: q) = OK (Some t) -> accept (p ++ q) <> OK (Some t').
Proof.
  intros H H'. apply accept_height in H. apply accept_height in H'.
  rewrite height_app in *. cbn [height height1] in H. lia.
Qed.
Lemma accept_insert_close p u q t t' : accept (p ++ q) = OK (Some t) -> accept (p ++ EClose u :: q) <> OK (Some t').
Proof.
  intros H H'. apply accept_height in H. apply accept_height in H'.
  rewrite height_app in *. cbn [height height1] in H'. lia.
Qed.
(** deleting the whole start tag of an aggregate, likewise *)
Lemma accept_delete_open p u q t t' : accept (p ++ EOpen u :: q) = OK (Some t) -> accept (p ++ q) <> OK (Some t').
Proof.
  intros H H'. apply accept_height in H. apply accept_height in H'.
  rewrite height_app in *. cbn [height height1] in H. lia.
Qed.

(** an end tag that is misspelled or names another element *)
Lemma accept_rename_close p u v q t t' : u <> v ->
  accept (p ++ EClose u :: q) = OK (Some t) -> accept (p ++ EClose v :: q) <> OK (Some t').
Proof.
  intros Huv H H'. unfold accept in H, H'. rewrite run_app in H, H'.
  destruct (run repaired b0 p) as [b|k]; cbn [bind run] in H, H'; [|discriminate].
  unfold step, b_end in H, H'. cbn [repaired checked] in H, H'.
  destruct (stack b) as [|[[t0 x0] ch0] rest]; [discriminate|].
  destruct (text_eqb u t0) eqn:E1; cbn [andb negb bind] in H; [|discriminate].
  destruct (text_eqb v t0) eqn:E2; cbn [andb negb bind] in H'; [|discriminate].
  apply text_eqb_eq in E1, E2. congruence.
Qed.
(** two end tags with different names exchanged (adjacent or not): the first of them now names another element *)
Lemma accept_transpose_close p u m v q t t' : u <> v ->
  accept (p ++ EClose u :: m ++ EClose v :: q) = OK (Some t) ->
  accept (p ++ EClose v :: m ++ EClose u :: q) <> OK (Some t').
Proof.
  intros Huv H H'. unfold accept in H, H'. rewrite run_app in H, H'.
  destruct (run repaired b0 p) as [b|k]; cbn [bind run] in H, H'; [|discriminate].
  unfold step at 1, b_end in H. unfold step at 1, b_end in H'. cbn [repaired checked] in H, H'.
  destruct (stack b) as [|[[t0 x0] ch0] rest]; [discriminate|].
  destruct (text_eqb u t0) eqn:E1; cbn [andb negb bind] in H; [|discriminate].
  destruct (text_eqb v t0) eqn:E2; cbn [andb negb bind] in H'; [|discriminate].
  apply text_eqb_eq in E1, E2. congruence.
Qed.
(** an empty aggregate that loses its end tag *)
Lemma accept_unclose_empty p u q t t' : accept (p ++ EEmpty u :: q) = OK (Some t) -> accept (p ++ EOpen u :: q) <> OK (Some t').
Proof.
  intros H H'. apply accept_height in H. apply accept_height in H'.
  rewrite height_app in *. cbn [height height1] in H, H'. lia.
Qed.
(** a failing step is final *)
Lemma accept_err_prefix p k q : run repaired b0 p = Err k -> forall o, accept (p ++ q) <> OK o.
Proof. intros H o H'. unfold accept in H'. rewrite run_app, H in H'. discriminate. Qed.
