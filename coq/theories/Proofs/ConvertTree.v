(** C04, tree route: every instance Aggregate.from_etree returns - and every instance nested in it, at any depth -
    satisfies the declarations of its class; children out of sequence or duplicated are rejected. *)
From OfxV Require Import Base.Prelude Model.Schema Model.SchemaWf Model.Convert Proofs.ConvertSound Proofs.ConvertUnknown.
From Coq Require Import Lia.
Local Open Scope string_scope.

Fixpoint etree_ind' (P : etree -> Prop) (H : forall t x ch, Forall P ch -> P (Node t x ch)) (e : etree) : P e :=
  match e with
  | Node t x ch => H t x ch ((fix go (l : list etree) : Forall P l :=
                               match l with [] => Forall_nil P | c :: r => Forall_cons c (etree_ind' P H c) (go r) end) ch)
  end.

Section Tree.
  Variable sval : Type.
  Variable conv : N -> sin sval -> result (option sval).
  Variable S : schema.
  Notation inst := (inst sval).
  Notation kwval := (kwval sval).
  Notation acc := (acc sval).
  Notation construct := (construct sval conv S).
  Notation from_etree := (from_etree sval conv S).
  Notation step := (step sval).
  Notation satisfies := (satisfies sval S).

  (** P holds of an instance and of every instance nested in it *)
  Inductive all_insts (P : inst -> Prop) : inst -> Prop :=
  | AI cn fs ms : P (Inst sval cn fs ms) ->
                  (forall k j, In (k, FSub sval j) fs -> all_insts P j) ->
                  (forall j, In (MAgg sval j) ms -> all_insts P j) ->
                  all_insts P (Inst sval cn fs ms).

  Lemma map_res_forall2 {A B} (f : A -> result B) : forall l r, Convert.map_res f l = OK r -> Forall2 (fun x y => f x = OK y) l r.
  Proof.
    induction l as [|x l IH]; intros r H; cbn [Convert.map_res] in H.
    - injection H as <-. constructor.
    - destruct (f x) as [y|e] eqn:Ey; cbn [bind] in H; [|discriminate].
      destruct (Convert.map_res f l) as [r'|e] eqn:Er; cbn [bind] in H; [|discriminate].
      injection H as <-. constructor; [exact Ey|apply IH; reflexivity].
  Qed.

  Lemma forall2_in_r {A B} (R : A -> B -> Prop) l l' y : Forall2 R l l' -> In y l' -> exists x, In x l /\ R x y.
  Proof.
    intro F. induction F as [|a b l l' Hab F IH]; intro Hin; [contradiction|].
    destruct Hin as [<-|Hin]; [exists a; split; [left; reflexivity|exact Hab]|].
    destruct (IH Hin) as (x & Hx & Hr). exists x. split; [right; exact Hx|exact Hr].
  Qed.

  (** the sub-instances of a constructed instance are exactly instances that were passed in *)
  Lemma construct_subinsts cn args kw cn' fs ms :
    construct cn args kw = OK (Inst sval cn' fs ms) ->
    (forall k j, In (k, FSub sval j) fs -> exists k', In (k', KInst sval j) kw) /\
    (forall j, In (MAgg sval j) ms -> In (KInst sval j) args).
  Proof.
    intro H. apply construct_ok_iff in H. destruct H as (c & fs0 & ms0 & Hc & _ & _ & _ & Hf & Ha & _ & Hi).
    injection Hi as -> -> ->. split.
    - intros k j Hin. pose proof (set_fields_rel sval conv S _ _ _ Hf) as F.
      destruct (forall2_in_r _ _ _ _ F Hin) as ([k0 a] & _ & Hr). unfold field_rel, kwget in Hr. cbn [fst snd] in Hr. destruct Hr as [_ Hr].
      destruct a as [t req|target req| | |]; try contradiction.
      + destruct (assoc k0 kw) as [[|s|x|j0]|]; try contradiction; try (destruct Hr as [_ Hr]; discriminate);
          destruct Hr as [(y & _ & Hr)|[_ Hr]]; discriminate.
      + destruct (assoc k0 kw) as [[|s|x|j0]|] eqn:Ek; try contradiction; try (destruct Hr as [_ Hr]; discriminate).
        destruct Hr as [_ Hr]. injection Hr as ->. exists k0. apply assoc_in. exact Ek.
      + discriminate.
    - intros j Hin. unfold Convert.apply_args in Ha. destruct (ci_elist c).
      + destruct (filter (fun ka => is_listelem (snd ka)) (ci_spec c)) as [|[k a] l]; [discriminate|].
        destruct a as [| | |t|]; try discriminate. destruct l; [|discriminate].
        destruct (forall2_in_r _ _ _ _ (map_res_forall2 _ _ _ Ha) Hin) as (x & _ & Hx). unfold apply_arg_elist in Hx.
        destruct x as [|s|v|j0]; try discriminate.
        * destruct (conv t (SText sval s)); cbn in Hx; discriminate.
        * destruct (conv t (SNat sval v)); cbn in Hx; discriminate.
      + destruct (forall2_in_r _ _ _ _ (map_res_forall2 _ _ _ Ha) Hin) as (x & Hxin & Hx). unfold apply_arg_plain in Hx.
        destruct x as [|s|v|j0]; try discriminate.
        destruct (mem (lower (icls sval j0)) (listaggregates c)); [|discriminate]. injection Hx as ->. exact Hxin.
  Qed.

  Section Deep.
    Hypothesis Hconv : conv_none_only_empty sval conv.
    Hypothesis Hwf : forall cn c, find_cls S cn = Some c -> groups_wf c.

    Definition deep := all_insts satisfies.
    Definition acc_good (st : result acc) : Prop :=
      match st with
      | Err _ => True
      | OK (args, kw, _, _, _, _) =>
        (forall j, In (KInst sval j) args -> deep j) /\ (forall k j, In (k, KInst sval j) kw -> deep j) /\ (forall k, ~ In (k, KText sval []) kw)
      end.

    Lemma step_good fe c st e : (forall i w, fe e = OK (i, w) -> deep i) -> acc_good st -> acc_good (step fe c st e).
    Proof.
      intros Hfe Hst. destruct st as [a|k]; [|exact I]. destruct a as [[[[[args kw] p] pl] ws] rn].
      cbn [acc_good] in Hst. destruct Hst as (Ha & Hk & Hn). unfold Convert.step.
      destruct (groomed_tag c rn (etag e)) as [tag rn2]. destruct (has_dot tag); [cbn; auto|].
      destruct (index_of (lower tag) (map fst (ci_spec c))) as [idx|]; [|cbn; auto].
      destruct (assoc (lower tag) (ci_spec c)) as [at_|]; [|cbn; auto].
      destruct (Nat.ltb idx p && negb (is_list_attr at_ && pl))%bool; [exact I|].
      assert (Hval : forall v w, (v = KNone sval \/ (exists s, v = KText sval s /\ s <> []) \/ (exists i, v = KInst sval i /\ deep i)) ->
                acc_good (if is_list_attr at_ then OK (v :: args, kw, Datatypes.S idx, true, (rev w ++ ws)%list, rn2)
                          else if kw_has sval kw (lower tag) then Err Reject
                          else OK (args, (lower tag, v) :: kw, Datatypes.S idx, false, (rev w ++ ws)%list, rn2))).
      { intros v w Hv. destruct (is_list_attr at_).
        - cbn. split; [|split; assumption]. intros j [Hj|Hj]; [|apply Ha; exact Hj].
          destruct Hv as [->|[(s & -> & _)|(i & -> & Hd)]]; try discriminate. injection Hj as <-. exact Hd.
        - destruct (kw_has sval kw (lower tag)); [exact I|]. cbn. split; [exact Ha|]. split.
          + intros k j [Hj|Hj]; [|eapply Hk; exact Hj].
            destruct Hv as [->|[(s & -> & _)|(i & -> & Hd)]]; try discriminate. injection Hj as _ <-. exact Hd.
          + intros k [Hj|Hj]; [|eapply Hn; exact Hj].
            destruct Hv as [->|[(s & -> & Hs)|(i & -> & _)]]; try discriminate. injection Hj as _ E. apply Hs. exact E. }
      destruct (is_unsup at_).
      { apply (Hval (KNone sval) (@nil string)). left. reflexivity. }
      destruct (text_truthy (etext e)) eqn:Et.
      { apply (Hval _ (@nil string)). destruct (etext e) as [[|ch0 s]|]; try discriminate. right. left. eexists. split; [reflexivity|discriminate]. }
      destruct (negb (tag =? etag e)); [exact I|].
      destruct (fe e) as [[i w]|k] eqn:Ef; [|exact I]. apply (Hval (KInst sval i) w). right. right. exists i. split; [reflexivity|]. eapply Hfe. reflexivity.
    Qed.

    Lemma fold_good fe c l : Forall (fun e => forall i w, fe e = OK (i, w) -> deep i) l -> forall st, acc_good st -> acc_good (fold_left (step fe c) l st).
    Proof.
      induction 1 as [|e l He _ IH]; intros st Hst; [exact Hst|]. cbn [fold_left]. apply IH. apply step_good; assumption.
    Qed.

    Lemma no_empty_of_notin kw : (forall k, ~ In (k, KText sval []) kw) -> no_empty_text sval kw.
    Proof. intros H k Hk. apply (H k). apply assoc_in. exact Hk. Qed.

    Theorem from_etree_sound_deep_l : forall e i w, from_etree e = OK (i, w) -> deep i.
    Proof.
      induction e as [tag x ch IH] using etree_ind'. intros i w H. cbn [Convert.from_etree] in H.
      destruct (lookup_tag S tag) as [c|] eqn:Hl; [|discriminate].
      pose proof (fold_good from_etree c ch IH (OK (acc0 sval))) as Hg.
      destruct (fold_left (step from_etree c) ch (OK (acc0 sval))) as [a|k]; [|discriminate].
      destruct a as [[[[[args kw] p] pl] ws] rn].
      assert (H0 : acc_good (OK (acc0 sval))).
      { unfold acc0. cbn. split; [intros j []|split; [intros k j []|intros k []]]. }
      specialize (Hg H0). cbn [acc_good] in Hg. destruct Hg as (Ha & Hk & Hn).
      destruct (construct tag (rev args) (rev kw)) as [j|k] eqn:Hc; [|discriminate]. cbn in H. injection H as <- _.
      destruct j as [cn fs ms]. destruct (construct_subinsts _ _ _ _ _ _ Hc) as [Hfs Hms].
      constructor.
      - apply (construct_sound_l sval conv S tag (rev args) (rev kw)); [exact Hconv| |intros c0 Hc0; eapply Hwf; exact Hc0|exact Hc].
        apply no_empty_of_notin. intros k Hin. apply in_rev in Hin. exact (Hn k Hin).
      - intros k j Hin. destruct (Hfs k j Hin) as (k' & Hk'). apply in_rev in Hk'. eapply Hk. exact Hk'.
      - intros j Hin. apply Ha. apply in_rev. apply Hms. exact Hin.
    Qed.
  End Deep.

  (** ---- sequence order and at-most-one occurrence ---- *)
  Lemma fold_err fe c l k : fold_left (step fe c) l (Err k) = Err k.
  Proof. induction l as [|e l IH]; [reflexivity|]. cbn [fold_left]. exact IH. Qed.

  Lemma step_err fe c k e : step fe c (Err k) e = Err k.
  Proof. reflexivity. Qed.

  (** a child the class defines, not touched by groom's rename *)
  Definition known_at (c : cinfo) (e : etree) (idx : nat) (a : attr) : Prop :=
    (match ci_rename c with Some (wire, _) => etag e <> wire | None => True end) /\ has_dot (etag e) = false /\
    index_of (lower (etag e)) (map fst (ci_spec c)) = Some idx /\ assoc (lower (etag e)) (ci_spec c) = Some a.

  Lemma step_known_shape fe c args kw p pl ws rn e idx a :
    known_at c e idx a ->
    match step fe c (OK (args, kw, p, pl, ws, rn)) e with
    | Err _ => True
    | OK (_, _, p', pl', _, _) => p' = Datatypes.S idx /\ pl' = is_list_attr a
    end.
  Proof.
    intros (Hr & Hd & Hi & Ha). unfold Convert.step. rewrite (groomed_tag_other c rn _ Hr), Hd, Hi, Ha.
    destruct (Nat.ltb idx p && negb (is_list_attr a && pl))%bool; [exact I|].
    destruct (is_unsup a).
    { destruct (is_list_attr a); [split; reflexivity|]. destruct (kw_has sval kw (lower (etag e))); [exact I|split; reflexivity]. }
    destruct (text_truthy (etext e)).
    { destruct (is_list_attr a); [split; reflexivity|]. destruct (kw_has sval kw (lower (etag e))); [exact I|split; reflexivity]. }
    rewrite String.eqb_refl. cbn [negb]. destruct (fe e) as [[i w]|k]; [|exact I].
    destruct (is_list_attr a); [split; reflexivity|]. destruct (kw_has sval kw (lower (etag e))); [exact I|split; reflexivity].
  Qed.

  Lemma step_known_late fe c args kw p pl ws rn e idx a :
    known_at c e idx a -> (idx < p)%nat -> (is_list_attr a && pl)%bool = false ->
    step fe c (OK (args, kw, p, pl, ws, rn)) e = Err Reject.
  Proof.
    intros (Hr & Hd & Hi & Ha) Hlt Hl. unfold Convert.step. rewrite (groomed_tag_other c rn _ Hr), Hd, Hi, Ha.
    replace (Nat.ltb idx p) with true by (symmetry; apply Nat.ltb_lt; exact Hlt). rewrite Hl. reflexivity.
  Qed.

  Lemma fold_unknown_shape fe c mid : Forall (unknown_for c) mid -> forall st,
    same_core sval (fold_left (step fe c) mid st) st.
  Proof.
    induction 1 as [|u mid Hu _ IH]; intro st; [apply same_core_refl|]. cbn [fold_left].
    specialize (IH (step fe c st u)). pose proof (step_unknown sval fe c st u Hu) as H1.
    destruct (fold_left (step fe c) mid (step fe c st u)) as [x|j], (step fe c st u) as [y|k], st as [z|l]; cbn in *; try contradiction; congruence.
  Qed.

  (** two children the class defines, the second one's attribute not after the first one's in the class's sequence
      (this includes a repeated non-repeatable child), not both list members, with only unknown elements in between:
      the document is rejected - whatever surrounds them. *)
  Theorem out_of_order_rejected_l tag x c ch1 e1 mid e2 ch2 i1 a1 i2 a2 :
    lookup_tag S tag = Some c -> known_at c e1 i1 a1 -> known_at c e2 i2 a2 -> Forall (unknown_for c) mid ->
    (i2 <= i1)%nat -> (is_list_attr a1 && is_list_attr a2)%bool = false ->
    exists k, from_etree (Node tag x (ch1 ++ e1 :: mid ++ e2 :: ch2)) = Err k.
  Proof.
    intros Hl K1 K2 Hmid Hle Hnl. cbn [Convert.from_etree]. rewrite Hl.
    rewrite fold_left_app. cbn [fold_left]. rewrite fold_left_app. cbn [fold_left].
    destruct (fold_left (step from_etree c) ch1 (OK (acc0 sval))) as [a|k].
    2:{ rewrite step_err. rewrite (fold_err from_etree c mid k). rewrite step_err. rewrite (fold_err from_etree c ch2 k). eauto. }
    destruct a as [[[[[args kw] p] pl] ws] rn].
    match goal with |- context [fold_left _ mid ?t] =>
      pose proof (step_known_shape from_etree c args kw p pl ws rn e1 i1 a1 K1
                  : match t with Err _ => True | OK (_, _, p', pl', _, _) => p' = Datatypes.S i1 /\ pl' = is_list_attr a1 end) as Sh;
      destruct t as [b|k] end.
    2:{ rewrite fold_err, step_err, fold_err. eauto. }
    destruct b as [[[[[args1 kw1] p1] pl1] ws1] rn1]. destruct Sh as [-> ->].
    match goal with |- context [Convert.step _ _ _ ?t e2] =>
      pose proof (fold_unknown_shape from_etree c mid Hmid (OK (args1, kw1, Datatypes.S i1, is_list_attr a1, ws1, rn1))
                  : same_core sval t (OK (args1, kw1, Datatypes.S i1, is_list_attr a1, ws1, rn1))) as Hm;
      destruct t as [m|k] end; [|cbn in Hm; contradiction].
    destruct m as [[[[[args2 kw2] p2] pl2] ws2] rn2]. cbn in Hm. injection Hm as -> -> -> -> ->.
    match goal with |- context [fold_left _ ch2 ?t] =>
      assert (Ht : t = Err Reject) by (apply (step_known_late from_etree c args1 kw1 (Datatypes.S i1) (is_list_attr a1) ws2 rn1 e2 i2 a2 K2); [lia|rewrite andb_comm; exact Hnl]);
      rewrite Ht end.
    rewrite fold_err. eauto.
  Qed.
End Tree.
