(** Version 2: OFX declarations built from an arbitrary list of NAME="value" attributes (render2).  The recogniser of
    OFXHeaderV2.regex is deterministic, so an accepted text has exactly the five attributes in order, with values in
    the pattern's classes.  Hence a missing attribute, two transposed, or a non-numeric VERSION are refused. *)
From OfxV Require Import Base.Prelude Base.Digits Gen.HeaderGen Model.Header Model.HeaderLayout
  Proofs.HeaderChars Proofs.HeaderMatch Proofs.HeaderV1 Proofs.HeaderInit Proofs.HeaderV2 Proofs.HeaderSound Proofs.HeaderReject.
From Coq Require Import ZifyBool ZifyN ZifyNat.
Local Open Scope N_scope.

Lemma strip_prefix_mismatch_gen (t : N) nm : forall q more stuff,
  ~ In t nm -> ~ In t q -> q <> nm -> strip_prefix (nm ++ t :: more) (q ++ t :: stuff) = None.
Proof.
  induction nm as [|a nm IH]; intros q more stuff N1 N2 NE.
  - destruct q as [|c q]; [contradiction|]. cbn [app strip_prefix].
    destruct (t =? c) eqn:E; [|reflexivity]. apply N.eqb_eq in E. exfalso. apply N2. left. auto.
  - destruct q as [|c q]; cbn [app strip_prefix].
    + destruct (a =? t) eqn:E; [|reflexivity]. apply N.eqb_eq in E. exfalso. apply N1. left. exact E.
    + destruct (a =? c) eqn:E; [|reflexivity]. apply N.eqb_eq in E. subst c. apply IH.
      * intro I. apply N1. right. exact I.
      * intro I. apply N2. right. exact I.
      * intro E. apply NE. f_equal. exact E.
Qed.
Lemma first_char_unique (t : N) (a : text) : forall a' b b',
  a ++ t :: b = a' ++ t :: b' -> ~ In t a -> ~ In t a' -> a = a' /\ b = b'.
Proof.
  induction a as [|c a IH]; intros [|c' a'] b b' E N1 N2; cbn [app] in E.
  - injection E as E. split; [reflexivity|exact E].
  - injection E as E1 E2. exfalso. apply N2. left. congruence.
  - injection E as E1 E2. exfalso. apply N1. left. congruence.
  - injection E as E1 E2. subst c'. destruct (IH a' b b' E2) as [Ea Eb].
    + intro I. apply N1. right. exact I.
    + intro I. apply N2. right. exact I.
    + split; [f_equal; exact Ea|exact Eb].
Qed.
Lemma AZ_no_eq n : forallb is_AZ n = true -> ~ In 61 n.
Proof. intros H I. rewrite forallb_forall in H. apply H in I. unfold is_AZ in I. lia. Qed.
Lemma plain_no_quote v : forallb plainc v = true -> ~ In 34 v.
Proof. intros H I. rewrite forallb_forall in H. apply H in I. unfold plainc in I. rewrite !andb_true_iff in I. destruct I as [[_ I] _]. discriminate I. Qed.
Lemma plain_no_lt v : forallb plainc v = true -> forallb (fun c => negb (c =? 60)) v = true.
Proof. rewrite !forallb_forall. intros H c I. apply H in I. unfold plainc in I. rewrite !andb_true_iff in I. tauto. Qed.

Lemma cls_excl (t : N) cls v : cls t = false -> forallb cls v = true -> ~ In t v.
Proof. intros C F I. rewrite forallb_forall in F. apply F in I. congruence. Qed.

Lemma attr2_inv NAME cls n v rest val r :
  attr2 NAME cls (n ++ T "=""" ++ v ++ 34 :: rest) = Some (val, r) ->
  forallb is_AZ n = true -> forallb is_AZ NAME = true -> ~ In 34 v -> cls 34 = false ->
  n = NAME /\ val = v /\ r = rest /\ forallb cls v = true.
Proof.
  intros H An AN Nv C34. unfold attr2 in H.
  destruct (list_eq_dec N.eq_dec n NAME) as [E|NE].
  - subst n. rewrite app_assoc, strip_prefix_app in H. cbn [obind] in H. apply qval_sound in H. destruct H as [_ [Cv E]].
    apply first_char_unique in E; [|exact Nv|apply (cls_excl 34 cls); assumption].
    destruct E as [E1 E2]. subst. tauto.
  - exfalso. change (T "=""") with (61 :: [34]) in H. cbn [app] in H.
    rewrite (strip_prefix_mismatch_gen 61 NAME n [34] (34 :: v ++ 34 :: rest)) in H; [discriminate H|apply AZ_no_eq; exact AN|apply AZ_no_eq; exact An|exact NE].
Qed.

Lemma names5_AZ n : In n names5 -> forallb is_AZ n = true /\ n <> [].
Proof. intro I. assert (F : forallb (fun n => forallb is_AZ n && negb (len n =? 0)) names5 = true) by (vm_compute; reflexivity).
  rewrite forallb_forall in F. apply F in I. apply andb_true_iff in I. destruct I as [I1 I2]. split; [exact I1|]. intro E. subst n. discriminate I2. Qed.

(** one attribute of the pattern against the head of the attribute list *)
Lemma step2 {B} NAME cls fs tail (f : text * text -> option B) b :
  obind (ws1 (render2_attrs fs ++ tail)) (fun s => obind (attr2 NAME cls s) f) = Some b ->
  match tail with c :: _ => is_space c = false | [] => True end -> fs_ok names5 fs = true -> forallb is_AZ NAME = true -> cls 34 = false ->
  exists v r, fs = (NAME, v) :: r /\ forallb cls v = true /\ fs_ok names5 r = true /\ f (v, render2_attrs r ++ tail) = Some b.
Proof.
  intros H Tl Ok AN C34. destruct fs as [|[n v] r].
  - exfalso. cbn [render2_attrs app] in H. destruct tail as [|c tail]; [discriminate H|]. cbn [ws1] in H. rewrite Tl in H. discriminate H.
  - apply fs_ok_cons in Ok. destruct Ok as [In_n [Vv Ok]]. destruct (names5_AZ n In_n) as [An NEn].
    cbn [render2_attrs app] in H. repeat (rewrite <- app_assoc in H || rewrite <- app_comm_cons in H). rewrite ws1_name in H by assumption. cbn [obind] in H.
    apply obind_some in H. destruct H as [[val rest] [A F]].
    assert (Pv : forallb plainc v = true) by (unfold value_ok in Vv; apply andb_true_iff in Vv; tauto).
    apply attr2_inv in A; try assumption; [|apply plain_no_quote; exact Pv].
    destruct A as [E1 [E2 [E3 Cv]]]. subst n val rest. exists v, r. tauto.
Qed.

Definition v2_shape (fs : list (text * text)) : Prop :=
  exists v1 v2 v3 v4 v5, fs = [(T "OFXHEADER", v1); (T "VERSION", v2); (T "SECURITY", v3); (T "OLDFILEUID", v4); (T "NEWFILEUID", v5)]
    /\ forallb is_decimal v1 = true /\ forallb is_decimal v2 = true /\ forallb is_word v3 = true.

Definition decl2 (fs : list (text * text)) : text := T "<?OFX" ++ render2_attrs fs ++ T "?>" ++ CRLF.
Lemma match_v2_shape fs m : fs_ok names5 fs = true -> match_v2_at (decl2 fs) = Some m -> v2_shape fs.
Proof.
  intros Ok M. unfold match_v2_at, decl2 in M. rewrite strip_prefix_app in M. cbn [obind] in M.
  assert (Tl : match T "?>" ++ CRLF with c :: _ => is_space c = false | [] => True end) by (vm_compute; reflexivity).
  apply (step2 (T "OFXHEADER") is_decimal) in M; try assumption; try reflexivity. destruct M as [v1 [r1 [E1 [C1 [Ok1 M]]]]].
  apply (step2 (T "VERSION") is_decimal) in M; try assumption; try reflexivity. destruct M as [v2 [r2 [E2 [C2 [Ok2 M]]]]].
  apply (step2 (T "SECURITY") is_word) in M; try assumption; try reflexivity. destruct M as [v3 [r3 [E3 [C3 [Ok3 M]]]]].
  apply (step2 (T "OLDFILEUID") is_word_dash) in M; try assumption; try reflexivity. destruct M as [v4 [r4 [E4 [C4 [Ok4 M]]]]].
  apply obind_some in M. destruct M as [s5 [W5 M]].
  destruct r4 as [|[n v5] r5].
  { exfalso. cbn [render2_attrs app] in W5. vm_compute in W5. discriminate W5. }
  apply fs_ok_cons in Ok4. destruct Ok4 as [In_n [Vv Ok5]]. destruct (names5_AZ n In_n) as [An NEn].
  cbn [render2_attrs app] in W5. repeat (rewrite <- app_assoc in W5 || rewrite <- app_comm_cons in W5). rewrite ws1_name in W5 by assumption. injection W5 as W5. subst s5.
  apply obind_some in M. destruct M as [[val rest] [A M]].
  assert (Pv : forallb plainc v5 = true) by (unfold value_ok in Vv; apply andb_true_iff in Vv; tauto).
  apply attr2_inv in A; try assumption; try reflexivity; [|apply plain_no_quote; exact Pv].
  destruct A as [F1 [F2 [F3 Cv]]]. subst n val rest.
  (* nothing may follow the fifth attribute *)
  destruct r5 as [|[n6 v6] r6].
  - subst fs r1 r2 r3. exists v1, v2, v3, v4, v5. tauto.
  - exfalso. apply fs_ok_cons in Ok5. destruct Ok5 as [In_6 _]. destruct (names5_AZ n6 In_6) as [A6 NE6].
    cbn [render2_attrs app] in M. repeat (rewrite <- app_assoc in M || rewrite <- app_comm_cons in M).
    destruct n6 as [|c n6]; [contradiction|]. cbn [forallb] in A6. apply andb_true_iff in A6. destruct A6 as [A6 _].
    cbn [app skipws] in M. rewrite sp32 in M. rewrite (AZ_not_space c A6) in M.
    change (T "?>") with (63 :: [62]) in M. cbn [strip_prefix] in M. unfold is_AZ in A6.
    destruct (63 =? c) eqn:E; [clear - E A6; lia|]. discriminate M.
Qed.

Lemma attrs_no_lt fs : fs_ok names5 fs = true -> forallb (fun c => negb (c =? 60)) (render2_attrs fs) = true.
Proof.
  induction fs as [|[n v] r IH]; intro Ok; [reflexivity|]. apply fs_ok_cons in Ok. destruct Ok as [In_n [Vv Ok]].
  destruct (names5_AZ n In_n) as [An _]. cbn [render2_attrs]. cbn [forallb]. rewrite !forallb_app. cbn [forallb].
  rewrite (IH Ok). unfold value_ok in Vv. apply andb_true_iff in Vv. destruct Vv as [Pv _]. rewrite (plain_no_lt v Pv).
  assert (X : forallb (fun c => negb (c =? 60)) n = true).
  { rewrite forallb_forall in *. intros c I. apply An in I. unfold is_AZ in I. lia. }
  rewrite X. reflexivity.
Qed.
Lemma search_v2_none s : forallb (fun c => negb (c =? 60)) s = true -> search_v2 s = None.
Proof. intro H. rewrite <- (app_nil_r s). rewrite search_v2_skip by exact H. reflexivity. Qed.

Theorem v2_accept_shape fs m : fs_ok names5 fs = true -> search_v2 (render2 fs) = Some m -> v2_shape fs.
Proof.
  intros Ok S. unfold render2 in S. change xml_decl with (xml_decl_q 34) in S.
  rewrite xml_decl_skip in S by (left; reflexivity). rewrite search_v2_skip in S by reflexivity.
  fold (decl2 fs) in S. unfold search_v2 in S.
  destruct (match_v2_at (decl2 fs)) as [m'|] eqn:M.
  - apply (match_v2_shape fs m' Ok M).
  - exfalso. assert (D : decl2 fs = 60 :: (T "?OFX" ++ render2_attrs fs ++ T "?>" ++ CRLF)) by reflexivity.
    rewrite D in *. cbn [search] in S. rewrite M in S.
    fold (search_v2 (T "?OFX" ++ render2_attrs fs ++ T "?>" ++ CRLF)) in S. rewrite search_v2_none in S; [discriminate S|].
    rewrite !forallb_app. rewrite (attrs_no_lt fs Ok). reflexivity.
Qed.

(** * consequences for version 2 *)
Lemma not_ok_reject2 s : (forall a e, parse_v2 s <> OK (a, e)) -> parse_v2 s = Err Reject.
Proof. intro H. pose proof (parse_v2_no_crash s) as NC. destruct (parse_v2 s) as [[a e]|[|]]; [exfalso; exact (H a e eq_refl)|reflexivity|contradiction]. Qed.
Lemma parse_v2_needs_match s a e : parse_v2 s = OK (a, e) -> exists m, search_v2 s = Some m.
Proof. unfold parse_v2. destruct (search_v2 s) as [m|]; [exists m; reflexivity|discriminate]. Qed.
Lemma shape2_names fs : v2_shape fs -> map fst fs = names5.
Proof. intros [v1 [v2 [v3 [v4 [v5 [E _]]]]]]. subst fs. reflexivity. Qed.

Lemma fields2_ok h : valid2 h = true -> fs_ok names5 (fields2 h) = true.
Proof.
  intro V. destruct (valid2_inv h V) as [Foh Fve Fse Fol Fne]. destruct (v2_version_range _ Fve) as [R _].
  unfold fs_ok, fields2. cbn [forallb fst snd]. rewrite Foh. rewrite (value_ok_version (h2_version h)) by lia.
  rewrite (value_ok_token _ _ Fse) by reflexivity. rewrite (value_ok_uid _ Fol), (value_ok_uid _ Fne). vm_compute. reflexivity.
Qed.
Lemma text_list_eqb_neq (a b : list text) : list_eqb text_eqb a b = false -> a <> b.
Proof. intros H E. apply (list_eqb_eq text_eqb text_eqb_eq) in E. congruence. Qed.
Lemma refused_by_names2 fs : fs_ok names5 fs = true -> list_eqb text_eqb (map fst fs) names5 = false -> parse_v2 (render2 fs) = Err Reject.
Proof.
  intros Ok NE. apply not_ok_reject2. intros a e P. apply parse_v2_needs_match in P. destruct P as [m S].
  apply (v2_accept_shape fs m Ok) in S. apply shape2_names in S. apply text_list_eqb_neq in NE. contradiction.
Qed.

Theorem v2_missing_rejected h i : valid2 h = true -> (i < 5)%nat -> parse_v2 (render2 (remove_nth i (fields2 h))) = Err Reject.
Proof.
  intros V L. apply refused_by_names2; [apply forallb_remove_nth, fields2_ok, V|].
  rewrite map_remove_nth. change (map fst (fields2 h)) with names5.
  do 5 (destruct i as [|i]; [vm_compute; reflexivity|]). exfalso. lia.
Qed.
Theorem v2_transposed_rejected h i j : valid2 h = true -> (i < j < 5)%nat -> parse_v2 (render2 (swap_nth i j (fields2 h))) = Err Reject.
Proof.
  intros V L. apply refused_by_names2; [apply forallb_swap_nth, fields2_ok, V|].
  rewrite map_swap_nth. change (map fst (fields2 h)) with names5.
  assert (F : forallb (fun i => forallb (fun j => implb (Nat.ltb i j) (negb (list_eqb text_eqb (swap_nth i j names5) names5))) (seq 0 5)) (seq 0 5) = true) by (vm_compute; reflexivity).
  rewrite forallb_forall in F. assert (Ii : In i (seq 0 5)) by (apply in_seq; lia). specialize (F i Ii). rewrite forallb_forall in F.
  assert (Ij : In j (seq 0 5)) by (apply in_seq; lia). specialize (F j Ij). assert (Lt : Nat.ltb i j = true) by (apply Nat.ltb_lt; lia).
  rewrite Lt in F. cbn [implb] in F. apply negb_true_iff in F. exact F.
Qed.
Theorem v2_non_numeric_version_rejected h x : valid2 h = true -> value_ok x = true -> forallb is_decimal x = false ->
  parse_v2 (render2 (set_nth 1 (T "VERSION", x) (fields2 h))) = Err Reject.
Proof.
  intros V Vx ND. apply not_ok_reject2. intros a e P. apply parse_v2_needs_match in P. destruct P as [m S].
  assert (Ok : fs_ok names5 (set_nth 1 (T "VERSION", x) (fields2 h)) = true).
  { apply forallb_set_nth; [cbn [fst snd]; rewrite Vx; reflexivity|apply fields2_ok, V]. }
  apply (v2_accept_shape _ m Ok) in S. destruct S as [v1 [v2 [v3 [v4 [v5 [E [_ [D2 _]]]]]]]].
  cbn [set_nth fields2] in E. injection E as _ E _ _ _. subst v2. congruence.
Qed.

(** str(header) is the rendering of the header's own field list *)
Lemma str_v1_render h : str_v1 h = render1 (fields1 h).
Proof. unfold str_v1, fields1. cbn [render1]. repeat rewrite <- app_assoc. reflexivity. Qed.
Lemma str_v2_render h : str_v2 h = render2 (fields2 h).
Proof. unfold str_v2, render2, fields2. cbn [render2_attrs]. repeat (rewrite <- app_assoc || cbn [app]). reflexivity. Qed.
