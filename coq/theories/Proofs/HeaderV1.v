(** OFXHeaderV1.regex (hand recogniser) accepts every laid-out valid header and returns its values, whatever the
    separators (whitespace or nothing), the blanks after the colons, and whether COMPRESSION is there. *)
From OfxV Require Import Base.Prelude Base.Digits Gen.HeaderGen Model.Header Model.HeaderLayout Proofs.HeaderChars Proofs.HeaderMatch.
From Coq Require Import ZifyBool ZifyN ZifyNat.
Local Open Scope N_scope.

(** every value class excludes whitespace and the colon *)
Lemma cls_ok_decimal : cls_ok is_decimal.
Proof. intros c H. destruct (is_space c) eqn:E; [|reflexivity]. apply space_not_decimal in E. congruence. Qed.
Lemma cls_ok_AZ : cls_ok is_AZ.
Proof. intros c H. destruct (is_space c) eqn:E; [|reflexivity]. apply space_not_AZ in E. congruence. Qed.
Lemma cls_ok_word : cls_ok is_word.
Proof. intros c H. destruct (is_space c) eqn:E; [|reflexivity]. apply space_not_word in E. congruence. Qed.
Lemma cls_ok_enc : cls_ok is_enc.
Proof. intros c H. destruct (is_space c) eqn:E; [|reflexivity]. apply space_not_enc in E. congruence. Qed.
Lemma cls_ok_word_dash : cls_ok is_word_dash.
Proof. intros c H. destruct (is_space c) eqn:E; [|reflexivity]. apply space_not_word_dash in E. congruence. Qed.
Lemma colon_decimal : is_decimal 58 = false. Proof. vm_compute. reflexivity. Qed.
Lemma colon_AZ : is_AZ 58 = false. Proof. vm_compute. reflexivity. Qed.
Lemma colon_word : is_word 58 = false. Proof. vm_compute. reflexivity. Qed.
Lemma colon_enc : is_enc 58 = false. Proof. vm_compute. reflexivity. Qed.
Lemma colon_word_dash : is_word_dash 58 = false. Proof. vm_compute. reflexivity. Qed.

Lemma all_ws_space w : all_ws w = true -> forallb is_space w = true.
Proof. unfold all_ws. rewrite !forallb_forall. intros H c I. apply wsc_space, H, I. Qed.
Lemma all_blank_ws w : all_blank w = true -> all_ws w = true.
Proof. unfold all_blank, all_ws. rewrite !forallb_forall. intros H c I. apply H in I. unfold blankc in I. unfold wsc. lia. Qed.

Lemma fld_app n w v x : fld n w v ++ x = n ++ 58 :: w ++ v ++ x.
Proof. unfold fld. rewrite <- app_assoc. cbn [app]. rewrite <- app_assoc. reflexivity. Qed.

Definition NM_OFXHEADER := T "OFXHEADER".
Definition NM_DATA := T "DATA".
Definition NM_VERSION := T "VERSION".
Definition NM_SECURITY := T "SECURITY".
Definition NM_ENCODING := T "ENCODING".
Definition NM_CHARSET := T "CHARSET".
Definition NM_COMPRESSION := T "COMPRESSION".
Definition NM_OLDFILEUID := T "OLDFILEUID".
Definition NM_NEWFILEUID := T "NEWFILEUID".

Lemma neq_by_length (a b : text) : List.length a <> List.length b -> a <> b.
Proof. intros H E. apply H. rewrite E. reflexivity. Qed.

(** the standard continuation "\s* NEXT:..." fails on anything that starts with a proper suffix of NEXT and a colon *)
Lemma next_fails {A} nm cls (k : text -> option A) q tail :
  forallb is_AZ nm = true -> proper_suffix q nm ->
  match_field nm cls k (skipws (q ++ 58 :: tail)) = None.
Proof.
  intros N P. pose proof (proper_suffix_AZ q nm P N) as Q.
  rewrite skipws_name by exact Q. apply match_field_wrong_name; try assumption.
  apply neq_by_length. apply proper_suffix_length in P. clear - P. lia.
Qed.
(** ... and succeeds, as the field itself does, after separator whitespace *)
Lemma next_after_sep {A} nm cls (k : text -> option A) s tail :
  forallb is_space s = true -> forallb is_AZ nm = true ->
  match_field nm cls k (skipws (s ++ nm ++ 58 :: tail)) = match_field nm cls k (nm ++ 58 :: tail).
Proof. intros S N. rewrite skipws_app_space by exact S. rewrite skipws_name by exact N. reflexivity. Qed.

Section V1Match.
  Variables w1 w2 w3 w4 w5 w6 w7 w8 w9 s1 s2 s3 s4 s5 s6 s7 s8 : text.
  Variables oh da ve se en ch co ol ne rest : text.
  Hypothesis W1 : forallb is_space w1 = true. Hypothesis W2 : forallb is_space w2 = true.
  Hypothesis W3 : forallb is_space w3 = true. Hypothesis W4 : forallb is_space w4 = true.
  Hypothesis W5 : forallb is_space w5 = true. Hypothesis W6 : forallb is_space w6 = true.
  Hypothesis W7 : forallb is_space w7 = true. Hypothesis W8 : forallb is_space w8 = true.
  Hypothesis W9 : forallb is_space w9 = true.
  Hypothesis S1 : forallb is_space s1 = true. Hypothesis S2 : forallb is_space s2 = true.
  Hypothesis S3 : forallb is_space s3 = true. Hypothesis S4 : forallb is_space s4 = true.
  Hypothesis S5 : forallb is_space s5 = true. Hypothesis S6 : forallb is_space s6 = true.
  Hypothesis S7 : forallb is_space s7 = true. Hypothesis S8 : forallb is_space s8 = true.
  Hypothesis Voh : oh <> [] /\ forallb is_decimal oh = true.
  Hypothesis Vda : da <> [] /\ forallb is_AZ da = true.
  Hypothesis Vve : ve <> [] /\ forallb is_decimal ve = true.
  Hypothesis Vse : se <> [] /\ forallb is_word se = true.
  Hypothesis Ven : en <> [] /\ forallb is_enc en = true.
  Hypothesis Vch : ch <> [] /\ forallb is_word_dash ch = true.
  Hypothesis Vco : co <> [] /\ forallb is_AZ co = true.
  Hypothesis Vol : ol <> [] /\ forallb is_word_dash ol = true.
  Hypothesis Vne : ne <> [] /\ forallb is_word_dash ne = true.
  Hypothesis Hrest : stops is_word_dash rest.

  Let T9 := NM_NEWFILEUID ++ 58 :: w9 ++ ne ++ rest.
  Let T8 := NM_OLDFILEUID ++ 58 :: w8 ++ ol ++ s8 ++ T9.
  Let T7 := NM_COMPRESSION ++ 58 :: w7 ++ co ++ s7 ++ T8.
  Let T6 (comp : bool) := NM_CHARSET ++ 58 :: w6 ++ ch ++ s6 ++ (if comp then T7 else T8).
  Let T5 comp := NM_ENCODING ++ 58 :: w5 ++ en ++ s5 ++ T6 comp.
  Let T4 comp := NM_SECURITY ++ 58 :: w4 ++ se ++ s4 ++ T5 comp.
  Let T3 comp := NM_VERSION ++ 58 :: w3 ++ ve ++ s3 ++ T4 comp.
  Let T2 comp := NM_DATA ++ 58 :: w2 ++ da ++ s2 ++ T3 comp.
  Let T1 comp := NM_OFXHEADER ++ 58 :: w1 ++ oh ++ s1 ++ T2 comp.

  Lemma m9 : match_field NM_NEWFILEUID is_word_dash (fun b9 => Some b9) T9 = Some (ne, rest).
  Proof. apply match_field_ok; try tauto; try exact cls_ok_word_dash. Qed.

  Lemma m8 : v1_tail T8 = Some (ol, (ne, rest)).
  Proof.
    unfold v1_tail. fold NM_OLDFILEUID NM_NEWFILEUID. unfold T8, T9.
    apply field_step; try tauto; try exact cls_ok_word_dash; try exact colon_word_dash.
    - rewrite next_after_sep by (try assumption; reflexivity). exact m9.
    - intros q P. apply next_fails; [reflexivity|exact P].
  Qed.

  Lemma m7 : match_field NM_COMPRESSION is_AZ (fun b7 => v1_tail (skipws b7)) T7 = Some (co, (ol, (ne, rest))).
  Proof.
    unfold T7, T8.
    apply field_step; try tauto; try exact cls_ok_AZ; try exact colon_AZ.
    - unfold v1_tail. fold NM_OLDFILEUID NM_NEWFILEUID. rewrite next_after_sep by (try assumption; reflexivity). exact m8.
    - intros q P. unfold v1_tail. fold NM_OLDFILEUID NM_NEWFILEUID. apply next_fails; [reflexivity|exact P].
  Qed.

  Lemma m7' (comp : bool) : v1_compression_tail (if comp then T7 else T8) = Some ((if comp then Some co else None), (ol, (ne, rest))).
  Proof.
    unfold v1_compression_tail. fold NM_COMPRESSION. destruct comp.
    - rewrite m7. reflexivity.
    - unfold T8 at 1. rewrite match_field_wrong_name; try reflexivity.
      + rewrite m8. reflexivity.
      + apply neq_by_length. vm_compute. discriminate.
  Qed.

  (** what follows CHARSET: COMPRESSION or, when it is omitted, OLDFILEUID *)
  Lemma m6 (comp : bool) : match_field NM_CHARSET is_word_dash (fun b6 => v1_compression_tail (skipws b6)) (T6 comp)
                  = Some (ch, ((if comp then Some co else None), (ol, (ne, rest)))).
  Proof.
    unfold T6.
    assert (E : (if comp then T7 else T8) = (if comp then NM_COMPRESSION else NM_OLDFILEUID) ++ 58 ::
                (if comp then w7 ++ co ++ s7 ++ T8 else w8 ++ ol ++ s8 ++ T9)) by (destruct comp; reflexivity).
    rewrite E.
    apply field_step; try tauto; try exact cls_ok_word_dash; try exact colon_word_dash.
    - rewrite skipws_app_space by exact S6. rewrite skipws_name by (destruct comp; reflexivity). rewrite <- E. apply m7'.
    - intros q P.
      assert (Q : forallb is_AZ q = true) by (apply (proper_suffix_AZ q _ P); destruct comp; reflexivity).
      rewrite skipws_name by exact Q.
      unfold v1_compression_tail, v1_tail. fold NM_COMPRESSION NM_OLDFILEUID NM_NEWFILEUID.
      assert (L : (List.length q < List.length (if comp then NM_COMPRESSION else NM_OLDFILEUID))%nat) by (apply proper_suffix_length; exact P).
      rewrite match_field_wrong_name; try reflexivity; try exact Q.
      + rewrite match_field_wrong_name; try reflexivity; try exact Q.
        destruct comp.
        * (* q is a proper suffix of COMPRESSION: it cannot be OLDFILEUID, whose last letter differs *)
          intro E'. destruct P as [p [_ P]]. subst q. apply (f_equal (@rev N)) in P. rewrite rev_app_distr in P.
          vm_compute in P. discriminate P.
        * apply neq_by_length. change (List.length NM_OLDFILEUID) with 10%nat in *. clear - L. lia.
      + apply neq_by_length. destruct comp; [change (List.length NM_COMPRESSION) with 11%nat in * | change (List.length NM_OLDFILEUID) with 10%nat in *; change (List.length NM_COMPRESSION) with 11%nat]; clear - L; lia.
  Qed.

  Ltac std_step lem :=
    apply field_step; try tauto;
    [ rewrite next_after_sep by (try assumption; reflexivity); apply lem
    | intros q P; apply next_fails; [reflexivity|exact P] ].

  Lemma m5 (comp : bool) : match_field NM_ENCODING is_enc (fun b5 => match_field NM_CHARSET is_word_dash (fun b6 => v1_compression_tail (skipws b6)) (skipws b5)) (T5 comp)
                  = Some (en, (ch, ((if comp then Some co else None), (ol, (ne, rest))))).
  Proof.
    unfold T5. pose proof (m6 comp) as M. unfold T6 in *.
    apply field_step; try tauto; try exact cls_ok_enc; try exact colon_enc.
    - rewrite next_after_sep by (try assumption; reflexivity). rewrite M. reflexivity.
    - intros q P. apply next_fails; [reflexivity|exact P].
  Qed.
  Lemma m4 (comp : bool) : match_field NM_SECURITY is_word (fun b4 => match_field NM_ENCODING is_enc (fun b5 => match_field NM_CHARSET is_word_dash (fun b6 => v1_compression_tail (skipws b6)) (skipws b5)) (skipws b4)) (T4 comp)
                  = Some (se, (en, (ch, ((if comp then Some co else None), (ol, (ne, rest)))))).
  Proof.
    unfold T4. pose proof (m5 comp) as M. unfold T5 in *.
    apply field_step; try tauto; try exact cls_ok_word; try exact colon_word.
    - rewrite next_after_sep by (try assumption; reflexivity). rewrite M. reflexivity.
    - intros q P. apply next_fails; [reflexivity|exact P].
  Qed.
  Lemma m3 (comp : bool) : match_field NM_VERSION is_decimal (fun b3 => match_field NM_SECURITY is_word (fun b4 => match_field NM_ENCODING is_enc (fun b5 => match_field NM_CHARSET is_word_dash (fun b6 => v1_compression_tail (skipws b6)) (skipws b5)) (skipws b4)) (skipws b3)) (T3 comp)
                  = Some (ve, (se, (en, (ch, ((if comp then Some co else None), (ol, (ne, rest))))))).
  Proof.
    unfold T3. pose proof (m4 comp) as M. unfold T4 in *.
    apply field_step; try tauto; try exact cls_ok_decimal; try exact colon_decimal.
    - rewrite next_after_sep by (try assumption; reflexivity). rewrite M. reflexivity.
    - intros q P. apply next_fails; [reflexivity|exact P].
  Qed.
  Lemma m2 (comp : bool) : match_field NM_DATA is_AZ (fun b2 => match_field NM_VERSION is_decimal (fun b3 => match_field NM_SECURITY is_word (fun b4 => match_field NM_ENCODING is_enc (fun b5 => match_field NM_CHARSET is_word_dash (fun b6 => v1_compression_tail (skipws b6)) (skipws b5)) (skipws b4)) (skipws b3)) (skipws b2)) (T2 comp)
                  = Some (da, (ve, (se, (en, (ch, ((if comp then Some co else None), (ol, (ne, rest)))))))).
  Proof.
    unfold T2. pose proof (m3 comp) as M. unfold T3 in *.
    apply field_step; try tauto; try exact cls_ok_AZ; try exact colon_AZ.
    - rewrite next_after_sep by (try assumption; reflexivity). rewrite M. reflexivity.
    - intros q P. apply next_fails; [reflexivity|exact P].
  Qed.
  Lemma m1 (comp : bool) : match_v1_at (T1 comp) = Some (oh, (da, (ve, (se, (en, (ch, ((if comp then Some co else None), (ol, (ne, rest))))))))).
  Proof.
    unfold match_v1_at. fold NM_OFXHEADER NM_DATA NM_VERSION NM_SECURITY NM_ENCODING NM_CHARSET.
    unfold T1. pose proof (m2 comp) as M. unfold T2 in *.
    apply field_step; try tauto; try exact cls_ok_decimal; try exact colon_decimal.
    - rewrite next_after_sep by (try assumption; reflexivity). rewrite M. reflexivity.
    - intros q P. apply next_fails; [reflexivity|exact P].
  Qed.

  (** with leading whitespace [ind] (the pattern starts with optional whitespace) the search succeeds at the first position *)
  Lemma search_v1_T1 (comp : bool) ind : forallb is_space ind = true ->
    search_v1 (ind ++ T1 comp) = Some (oh, (da, (ve, (se, (en, (ch, ((if comp then Some co else None), (ol, (ne, rest))))))))).
  Proof.
    intro I. unfold search_v1. apply search_hit. rewrite skipws_app_space by exact I.
    unfold T1 at 1. rewrite skipws_name by reflexivity. apply m1.
  Qed.
End V1Match.
