(** C01, composition: the tree-level round trip (schema engine) joined with the wire theorem of the Sgml/Serialize engine
    (C02's serialize_then_parse).  For every class table and converter pair: a valid instance, written by to_etree, serialised
    by either serializer (plain or pretty-printed), tokenised and built by the parser, is - as a tree - exactly what the
    converter turns back into the very same instance, silently. *)
From OfxV Require Import Base.Prelude Base.SgmlBase Model.Schema Model.Convert Model.Sgml Model.SgmlSpec Model.Serialize
     Proofs.SgmlFaithful Proofs.SerializeProofs Proofs.RoundTrip1 Proofs.RoundTrip3 Proofs.RoundTrip5 Gen.SgmlGen.
Local Open Scope string_scope.

(** the schema engine's trees (tags are identifiers: Coq strings) seen as the wire engine's trees (tags are code points) *)
Fixpoint up (e : Convert.etree) : SgmlBase.etree :=
  match e with Convert.Node t x ch => SgmlBase.Node (T t) x (map up ch) end.
(** element data as it stands on the wire *)
Fixpoint esc_tree (e : Convert.etree) : Convert.etree :=
  match e with Convert.Node t x ch => Convert.Node t (option_map escape_cdata x) (map esc_tree ch) end.

Lemma map_map_up_esc ch : map up (map esc_tree ch) = map (fun c => up (esc_tree c)) ch.
Proof. apply map_map. Qed.

(** what the parser returns for the serialisation of a well-shaped tree is that tree with its data escaped *)
Lemma tree_of_wire_doc_up : forall e, ser_ok html_empty (up e) = true -> tree_of (wire_doc (up e)) = up (esc_tree e).
Proof.
  fix IH 1. intros [t x ch] H. unfold wire_doc. cbn [up embed wire_it]. cbn [up ser_ok] in H.
  apply andb_true_iff in H. destruct H as [Ht H].
  destruct ch as [|c ch].
  - cbn [map] in *. destruct x as [s|]; cbn [esc_tree option_map map up].
    + rewrite H. reflexivity.
    + reflexivity.
  - cbn [map] in H. destruct x as [s|]; [discriminate|]. cbn [andb] in H. apply andb_true_iff in H. destruct H as [Hc Hr].
    cbn [map tree_of esc_tree option_map up]. f_equal. f_equal.
    + apply (IH c Hc).
    + clear Hc c. revert ch Hr. fix go 1. intros [|c ch] Hr; [reflexivity|]. cbn [forallb map] in *. apply andb_true_iff in Hr. destruct Hr as [Hc Hr].
      f_equal; [apply (IH c Hc)|apply (go ch Hr)].
Qed.

Section Wire.
  Variable sval : Type.
  Variable conv : N -> sin sval -> result (option sval).
  Variable unconv : N -> sval -> result text.
  Variable S : schema.
  Notation inst := (inst sval).
  (** the writer as seen from the wire: the converter's text, entity-escaped by the serializer *)
  Definition unconv_w (t : N) (x : sval) : result text := rmap escape_cdata (unconv t x).
  Notation to_etree := (to_etree sval unconv S).
  Notation to_etree_w := (Convert.to_etree sval unconv_w S).

  Lemma rename_first_esc a b ch : rename_first a b (map esc_tree ch) = map esc_tree (rename_first a b ch).
  Proof.
    induction ch as [|[t x c] ch IH]; [reflexivity|]. cbn [map esc_tree rename_first]. destruct (String.eqb t a); [reflexivity|].
    cbn [map esc_tree]. rewrite IH. reflexivity.
  Qed.
  Lemma ungroom_esc c ch : ungroom c (map esc_tree ch) = map esc_tree (ungroom c ch).
  Proof. unfold ungroom. destruct (ci_rename c) as [[w p]|]; [apply rename_first_esc|reflexivity]. Qed.

  Lemma leaf_esc k t x : leaf sval unconv_w k t x = rmap (map esc_tree) (leaf sval unconv k t x).
  Proof. unfold leaf, unconv_w. destruct (unconv t x); reflexivity. Qed.

  (** escaping the data of what to_etree writes = writing with the escaping writer *)
  Lemma to_etree_esc : forall i, to_etree_w i = rmap esc_tree (to_etree i).
  Proof.
    induction i as [cn fs ms IHf IHm] using (inst_ind' sval).
    rewrite !to_etree_unfold. destruct (find_cls S cn) as [c|]; [|reflexivity].
    assert (Hitem : forall p, In p fs -> item_top sval unconv_w S c p = rmap (map esc_tree) (item_top sval unconv S c p)).
    { intros [k v] Hin. destruct v as [|x|j]; cbn [item_top].
      - reflexivity.
      - destruct (assoc k (ci_spec c)) as [[t r| | | |]|]; try reflexivity. apply leaf_esc.
      - rewrite (IHf k j Hin). destruct (Convert.to_etree sval unconv S j); reflexivity. }
    assert (Hitems : forall l, (forall p, In p l -> In p fs) -> items_top sval unconv_w S c l = rmap (map esc_tree) (items_top sval unconv S c l)).
    { induction l as [|p l IHl]; intro Hl; [reflexivity|]. cbn [items_top]. rewrite (Hitem p (Hl p (or_introl eq_refl))), IHl by (intros q Hq; apply Hl; right; exact Hq).
      destruct (item_top sval unconv S c p) as [a|e]; [|reflexivity]. destruct (items_top sval unconv S c l) as [b|e]; [|reflexivity]. cbn. rewrite map_app. reflexivity. }
    assert (Hmem : forall m, In m ms -> member_top sval unconv_w S c m = rmap (map esc_tree) (member_top sval unconv S c m)).
    { intros m Hin. destruct m as [j|s|[x|]]; cbn [member_top]; try reflexivity.
      - destruct (ci_elist c); [reflexivity|]. rewrite (IHm j Hin). destruct (Convert.to_etree sval unconv S j); reflexivity.
      - destruct (if ci_elist c then the_listelem c else None) as [[k t]|]; [apply leaf_esc|reflexivity]. }
    assert (Hmems : forall l, (forall m, In m l -> In m ms) -> mems_top sval unconv_w S c l = rmap (map esc_tree) (mems_top sval unconv S c l)).
    { induction l as [|m l IHl]; intro Hl; [reflexivity|]. cbn [mems_top]. rewrite (Hmem m (Hl m (or_introl eq_refl))), IHl by (intros q Hq; apply Hl; right; exact Hq).
      destruct (member_top sval unconv S c m) as [a|e]; [|reflexivity]. destruct (mems_top sval unconv S c l) as [b|e]; [|reflexivity]. cbn. rewrite map_app. reflexivity. }
    assert (Hemit : forall l k, (forall p, In p l -> In p fs) ->
               emit_top sval unconv_w S c ms l k = rmap (map esc_tree) (emit_top sval unconv S c ms l k)).
    { induction l as [|p l IHl]; intros k Hl.
      - cbn [emit_top]. destruct k; [apply Hmems; auto|reflexivity].
      - assert (Hl' : forall q, In q l -> In q fs) by (intros q Hq; apply Hl; right; exact Hq).
        destruct k as [[|k']|]; cbn [emit_top].
        + rewrite (Hmems ms (fun m (H : In m ms) => H)), (Hitem p (Hl p (or_introl eq_refl))), (Hitems l Hl').
          destruct (mems_top sval unconv S c ms) as [a|e]; [|reflexivity]. destruct (item_top sval unconv S c p) as [b|e]; [|reflexivity].
          destruct (items_top sval unconv S c l) as [d|e]; [|reflexivity]. cbn. rewrite !map_app. reflexivity.
        + rewrite (Hitem p (Hl p (or_introl eq_refl))), (IHl (Some k') Hl').
          destruct (item_top sval unconv S c p) as [b|e]; [|reflexivity]. destruct (emit_top sval unconv S c ms l (Some k')) as [d|e]; [|reflexivity]. cbn. rewrite map_app. reflexivity.
        + rewrite (Hitem p (Hl p (or_introl eq_refl))), (IHl None Hl').
          destruct (item_top sval unconv S c p) as [b|e]; [|reflexivity]. destruct (emit_top sval unconv S c ms l None) as [d|e]; [|reflexivity]. cbn. rewrite map_app. reflexivity. }
    rewrite (Hemit fs _ (fun p (H : In p fs) => H)). destruct (emit_top sval unconv S c ms fs (split_at (ci_spec c))) as [ch|e]; [|reflexivity].
    cbn. rewrite ungroom_esc. reflexivity.
  Qed.

  (** C01 over the message body, XML / SGML-closed form (ET.tostring method html), plain or pretty-printed *)
  Theorem wire_roundtrip_closed_l i e (pretty : bool) :
    valid sval conv unconv_w S i -> to_etree i = OK e -> ser_ok html_empty (up e) = true ->
    exists e', parse repaired (html_text html_empty (if pretty then indent 0%nat (embed (up e)) else embed (up e))) = OK (Some (up e'))
               /\ from_etree sval conv S e' = OK (i, []).
  Proof.
    intros Hv He Hs. exists (esc_tree e). split.
    - rewrite <- (tree_of_wire_doc_up e Hs). apply (serialize_then_parse_l html_empty (up e) pretty Hs).
    - apply (roundtrip_tree_l sval conv unconv_w S i Hv). rewrite to_etree_esc, He. reflexivity.
  Qed.

  (** ... and the SGML form without element end tags (tostring_unclosed_elements, escaping data), for trees in which no aggregate
      is empty and no data element closes an aggregate of its own name ([sgml_ok]: the recorded finding and the inherent ambiguity) *)
  Theorem wire_roundtrip_unclosed_l i e (pretty : bool) :
    valid sval conv unconv_w S i -> to_etree i = OK e -> ser_ok html_empty (up e) = true -> sgml_ok (wire_doc (up e)) = true ->
    exists e', parse repaired (unclosed_text true (if pretty then indent 0%nat (embed (up e)) else embed (up e))) = OK (Some (up e'))
               /\ from_etree sval conv S e' = OK (i, []).
  Proof.
    intros Hv He Hs Hg. exists (esc_tree e). split.
    - rewrite <- (tree_of_wire_doc_up e Hs). apply (unclosed_then_parse_l html_empty (up e) pretty Hs Hg).
    - apply (roundtrip_tree_l sval conv unconv_w S i Hv). rewrite to_etree_esc, He. reflexivity.
  Qed.
End Wire.
