(** C16, core lemmas about Model/Lookup.v: unfolding of the nested fixpoint, the table of per-entry reads, and the two
    inductive theorems - a name nothing defines is an AttributeError (miss), and a name exactly one reachable aggregate
    defines is answered by that aggregate (flat access).  Over every class table, class-attribute table and instance. *)
From OfxV Require Import Base.Prelude Model.Schema Model.Convert Model.Shortcuts Model.Lookup.
Local Open Scope string_scope.

(** nested induction over instances: the hypothesis covers every instance held in the dictionary or in the list *)
Section InstInd.
  Variable sval : Type.
  Variable P : inst sval -> Prop.
  Hypothesis H : forall cn fs ms,
      (forall k j, In (k, FSub sval j) fs -> P j) -> (forall j, In (MAgg sval j) ms -> P j) -> P (Inst sval cn fs ms).
  Fixpoint inst_ind' (i : inst sval) : P i :=
    match i with
    | Inst _ cn fs ms =>
      H cn fs ms
        ((fix gf (l : list (string * fval sval)) : forall k j, In (k, FSub sval j) l -> P j :=
            match l return forall k j, In (k, FSub sval j) l -> P j with
            | [] => fun k j (F : False) => match F with end
            | (k0, f0) :: t =>
              match f0 return forall k j, In (k, FSub sval j) ((k0, f0) :: t) -> P j with
              | FSub _ j0 => fun k j Hin =>
                  match Hin with
                  | or_introl E => eq_ind j0 P (inst_ind' j0) j (f_equal (fun x => match snd x with FSub _ y => y | _ => j0 end) E)
                  | or_intror Hin' => gf t k j Hin'
                  end
              | FNone _ => fun k j Hin =>
                  match Hin with
                  | or_introl E => False_ind _ (eq_ind (FNone sval) (fun x => match x with FNone _ => True | _ => False end) I _ (f_equal snd E))
                  | or_intror Hin' => gf t k j Hin'
                  end
              | FVal _ v0 => fun k j Hin =>
                  match Hin with
                  | or_introl E => False_ind _ (eq_ind (FVal sval v0) (fun x => match x with FVal _ _ => True | _ => False end) I _ (f_equal snd E))
                  | or_intror Hin' => gf t k j Hin'
                  end
              end
            end) fs)
        ((fix gm (l : list (member sval)) : forall j, In (MAgg sval j) l -> P j :=
            match l return forall j, In (MAgg sval j) l -> P j with
            | [] => fun j (F : False) => match F with end
            | m0 :: t =>
              match m0 return forall j, In (MAgg sval j) (m0 :: t) -> P j with
              | MAgg _ j0 => fun j Hin =>
                  match Hin with
                  | or_introl E => eq_ind j0 P (inst_ind' j0) j (f_equal (fun x => match x with MAgg _ y => y | _ => j0 end) E)
                  | or_intror Hin' => gm t j Hin'
                  end
              | MStr _ s0 => fun j Hin =>
                  match Hin with
                  | or_introl E => False_ind _ (eq_ind (MStr sval s0) (fun x => match x with MStr _ _ => True | _ => False end) I _ E)
                  | or_intror Hin' => gm t j Hin'
                  end
              | MVal _ v0 => fun j Hin =>
                  match Hin with
                  | or_introl E => False_ind _ (eq_ind (MVal sval v0) (fun x => match x with MVal _ _ => True | _ => False end) I _ E)
                  | or_intror Hin' => gm t j Hin'
                  end
              end
            end) ms)
    end.
End InstInd.

Lemma mem_in k l : mem k l = true <-> In k l.
Proof.
  unfold mem. rewrite existsb_exists. split.
  - intros (x & Hx & E). apply String.eqb_eq in E. subst. exact Hx.
  - intro Hin. exists k. split; [exact Hin|apply String.eqb_refl].
Qed.
Lemma mem_false_not_in k l : mem k l = false <-> ~ In k l.
Proof. rewrite <- mem_in. destruct (mem k l); split; intros; try discriminate; try reflexivity; exfalso; auto. Qed.
Lemma assoc_in_l {A} k (l : list (string * A)) v : assoc k l = Some v -> In (k, v) l.
Proof.
  induction l as [|[k' v'] l IH]; cbn [assoc]; [discriminate|].
  destruct (String.eqb k k') eqn:E; [apply String.eqb_eq in E; subst; intro Hx; injection Hx as ->; left; reflexivity|].
  intro Hx. right. apply IH. exact Hx.
Qed.
Lemma assoc_none_keys {A} k (l : list (string * A)) : mem k (map fst l) = false -> assoc k l = None.
Proof.
  induction l as [|[k' v'] l IH]; cbn [assoc map fst mem existsb]; [reflexivity|].
  unfold mem in *. cbn [existsb]. destruct (String.eqb k k'); cbn [orb]; [discriminate|exact IH].
Qed.

Lemma in_split_first (s : string) l : In s l -> exists l1 l2, l = (l1 ++ s :: l2)%list /\ ~ In s l1.
Proof.
  induction l as [|x l IH]; [contradiction|]. intro Hin.
  destruct (string_dec x s) as [->|Hne].
  - exists [], l. split; [reflexivity|intros []].
  - destruct Hin as [E|Hin]; [contradiction|]. destruct (IH Hin) as (l1 & l2 & -> & Hn). exists (x :: l1), l2.
    split; [reflexivity|]. intros [E|E]; [apply Hne; exact E|apply Hn; exact E].
Qed.

Section Core.
  Variable sval : Type.
  Variable fx : bool.
  Variable S : schema.
  Variable tb : ltab.
  Notation inst := (inst sval).
  Notation fval := (fval sval).
  Notation member := (member sval).
  Notation lres := (lres sval).
  Notation lookup := (lookup sval fx S tb).
  Notation fsub_of := (fsub_of sval fx S tb).
  Notation msub_of := (msub_of sval fx S tb).
  Notation lookup_body := (lookup_body sval fx S tb).
  Notation proxy_loop := (proxy_loop sval fx).
  Notation lk_wf_b := (lk_wf_b sval S).
  Notation defines := (defines S tb).
  Notation at_path := (at_path sval S).

  Lemma lookup_unfold cn fs ms n :
    lookup (Inst sval cn fs ms) n = lookup_body cn fs ms n (fsub_of fs) (msub_of ms).
  Proof. reflexivity. Qed.

  (** the table handed to the proxy loop: entry k holds getattr(value stored under k, n) *)
  Lemma assoc_fsub s n : forall fs,
      assoc s (fsub_of fs n) = option_map (fun f => held_get sval tb lookup f n) (assoc s fs).
  Proof.
    induction fs as [|[k f] fs IH]; [reflexivity|].
    destruct f as [|v|j]; cbn [Lookup.fsub_of assoc]; destruct (String.eqb s k); cbn [option_map held_get]; auto.
  Qed.

  Lemma lk_wf_node cn fs ms : lk_wf_b (Inst sval cn fs ms) = true -> node_wf_b sval S cn fs = true.
  Proof. cbn [Lookup.lk_wf_b]. intro Hw. apply andb_true_iff in Hw. destruct Hw as [Hw _]. apply andb_true_iff in Hw. tauto. Qed.
  Lemma lk_wf_fields cn fs ms : lk_wf_b (Inst sval cn fs ms) = true -> forall k j, In (k, FSub sval j) fs -> lk_wf_b j = true.
  Proof.
    cbn [Lookup.lk_wf_b]. intro Hw. apply andb_true_iff in Hw. destruct Hw as [Hw _]. apply andb_true_iff in Hw. destruct Hw as [_ Hw].
    revert Hw. induction fs as [|[k0 f0] fs IH]; intros Hw k j Hin; [contradiction|].
    destruct Hin as [E|Hin].
    - injection E as -> ->. apply andb_true_iff in Hw. tauto.
    - destruct f0 as [|v|j0]; try (eapply IH; eassumption). apply andb_true_iff in Hw. destruct Hw as [_ Hw]. eapply IH; eassumption.
  Qed.
  Lemma lk_wf_members cn fs ms : lk_wf_b (Inst sval cn fs ms) = true -> forall j, In (MAgg sval j) ms -> lk_wf_b j = true.
  Proof.
    cbn [Lookup.lk_wf_b]. intro Hw. apply andb_true_iff in Hw. destruct Hw as [_ Hw].
    revert Hw. induction ms as [|m0 ms IH]; intros Hw j Hin; [contradiction|].
    destruct Hin as [E|Hin].
    - subst m0. apply andb_true_iff in Hw. tauto.
    - destruct m0 as [j0|s0|v0]; try (eapply IH; eassumption). apply andb_true_iff in Hw. destruct Hw as [_ Hw]. eapply IH; eassumption.
  Qed.
  Lemma node_wf_cls cn fs : node_wf_b sval S cn fs = true -> exists c, find_cls S cn = Some c /\
      forall k v, In (k, FVal sval v) fs -> mem k (subaggregates c) = false.
  Proof.
    unfold node_wf_b. destruct (find_cls S cn) as [c|]; [|discriminate]. intro Hf. exists c. split; [reflexivity|].
    intros k v Hin. rewrite forallb_forall in Hf. specialize (Hf _ Hin). cbn [fst snd] in Hf. destruct (mem k (subaggregates c)); [discriminate|reflexivity].
  Qed.

  Lemma at_path_cons i s t c j :
    find_cls S (icls sval i) = Some c -> mem s (subaggregates c) = true -> assoc s (ifields sval i) = Some (FSub sval j) ->
    at_path i (s :: t) = at_path j t.
  Proof. intros Hc Hs Ha. cbn [Lookup.at_path]. rewrite Hc, Hs, Ha. reflexivity. Qed.

  Lemma defines_false cn c n : find_cls S cn = Some c -> defines cn n = false ->
    assoc n (ci_spec c) = None /\ class_attr tb cn n = None.
  Proof.
    unfold Lookup.defines. intros -> Hd. apply orb_false_iff in Hd. destruct Hd as [Hs Hc]. split.
    - apply assoc_none_keys. exact Hs.
    - destruct (class_attr tb cn n); [discriminate|reflexivity].
  Qed.

  (** the proxy loop over entries that all miss *)
  Lemma proxy_all_miss tab : fx = true -> forall subs,
      (forall s, In s subs -> assoc s tab = None \/ assoc s tab = Some (LAttr sval) \/ assoc s tab = Some (LKey sval)) ->
      proxy_loop subs tab = LAttr sval.
  Proof.
    intros Hfx. induction subs as [|s subs IH]; intro Hall; [reflexivity|]. cbn [Lookup.proxy_loop].
    assert (Hrest : proxy_loop subs tab = LAttr sval) by (apply IH; intros s' Hs'; apply Hall; right; exact Hs').
    destruct (Hall s (or_introl eq_refl)) as [->|[->| ->]]; [rewrite Hfx in Hrest |- *|..]; exact Hrest.
  Qed.
  Lemma proxy_skip tab : fx = true -> forall l1 l2,
      (forall s, In s l1 -> assoc s tab = None \/ assoc s tab = Some (LAttr sval) \/ assoc s tab = Some (LKey sval)) ->
      proxy_loop (l1 ++ l2) tab = proxy_loop l2 tab.
  Proof.
    intros Hfx. induction l1 as [|s l1 IH]; intros l2 Hall; [reflexivity|]. cbn [app Lookup.proxy_loop].
    assert (Hrest : proxy_loop (l1 ++ l2) tab = proxy_loop l2 tab) by (apply IH; intros s' Hs'; apply Hall; right; exact Hs').
    destruct (Hall s (or_introl eq_refl)) as [->|[->| ->]]; [rewrite Hfx in Hrest |- *|..]; exact Hrest.
  Qed.

  Section Miss.
    Hypothesis Hfx : fx = true.
    Variable n : string.
    Hypothesis Hnone : mem n (lt_none tb) = false.

    (** nothing on the way defines the name: the class of the instance and of every aggregate reachable through
        non-repeated sub-aggregates *)
    Definition nothing_defines (i : inst) : Prop := forall p d, at_path i p = Some d -> defines (icls sval d) n = false.

    Theorem miss_core : forall i, lk_wf_b i = true -> nothing_defines i -> lookup i n = LAttr sval.
    Proof.
      induction i as [cn fs ms IHf _] using inst_ind'. intros Hw Hnd.
      destruct (node_wf_cls _ _ (lk_wf_node _ _ _ Hw)) as (c & Hc & Hval).
      destruct (defines_false cn c n Hc (Hnd [] _ eq_refl)) as [Hsp Hca].
      rewrite lookup_unfold. unfold Lookup.lookup_body. rewrite Hc, Hsp, Hca.
      apply proxy_all_miss; [exact Hfx|]. intros s Hs. rewrite assoc_fsub.
      destruct (assoc s fs) as [[|v|j]|] eqn:Ea; cbn [option_map held_get].
      - right. left. unfold none_get. rewrite Hnone. reflexivity.
      - exfalso. apply assoc_in_l in Ea. specialize (Hval _ _ Ea). apply mem_in in Hs. rewrite Hs in Hval. discriminate.
      - right. left. f_equal. apply (IHf s j (assoc_in_l _ _ _ Ea)).
        + eapply lk_wf_fields; [exact Hw|apply assoc_in_l; exact Ea].
        + intros p d Hp. apply (Hnd (s :: p) d). rewrite (at_path_cons (Inst sval cn fs ms) s p c j); auto. apply mem_in. exact Hs.
      - left. reflexivity.
    Qed.

    (** flat access: all definers of the name sit at one path p; then the instance answers what the aggregate at p answers *)
    Theorem flat_core : forall p i d v,
        lk_wf_b i = true -> at_path i p = Some d ->
        (forall p' d', at_path i p' = Some d' -> defines (icls sval d') n = true -> p' = p) ->
        lookup d n = LOK sval v -> lookup i n = LOK sval v.
    Proof.
      induction p as [|s t IH]; intros i d v Hw Hp Huniq Hd.
      - cbn in Hp. injection Hp as <-. exact Hd.
      - destruct i as [cn fs ms]. pose proof Hp as Hp0. cbn [Lookup.at_path icls ifields] in Hp.
        destruct (find_cls S cn) as [c|] eqn:Hc; [|discriminate].
        destruct (mem s (subaggregates c)) eqn:Hs; [|discriminate].
        destruct (assoc s fs) as [[|v0|j]|] eqn:Ea; try discriminate.
        assert (Hown : defines cn n = false).
        { destruct (defines cn n) eqn:E; [|reflexivity]. specialize (Huniq [] _ eq_refl E). discriminate. }
        destruct (defines_false cn c n Hc Hown) as [Hsp Hca].
        destruct (node_wf_cls _ _ (lk_wf_node _ _ _ Hw)) as (c' & Hc' & Hval). rewrite Hc in Hc'. injection Hc' as <-.
        rewrite lookup_unfold. unfold Lookup.lookup_body. rewrite Hc, Hsp, Hca.
        apply mem_in in Hs. destruct (in_split_first s (subaggregates c) Hs) as (l1 & l2 & El & Hnot).
        rewrite El. rewrite proxy_skip; [|exact Hfx|].
        + cbn [Lookup.proxy_loop]. rewrite assoc_fsub, Ea. cbn [option_map held_get].
          rewrite (IH j d v); [reflexivity| | | |exact Hd].
          * eapply lk_wf_fields; [exact Hw|apply assoc_in_l; exact Ea].
          * exact Hp.
          * intros p' d' Hp' Hdef. assert (E : s :: p' = s :: t).
            { apply (Huniq (s :: p') d'); [|exact Hdef]. rewrite (at_path_cons (Inst sval cn fs ms) s p' c j); auto. apply mem_in. exact Hs. }
            injection E as ->. reflexivity.
        + intros s' Hs'. rewrite assoc_fsub.
          assert (Hs'in : In s' (subaggregates c)) by (rewrite El; apply in_or_app; left; exact Hs').
          destruct (assoc s' fs) as [[|v1|j']|] eqn:Ea'; cbn [option_map held_get].
          * right. left. unfold none_get. rewrite Hnone. reflexivity.
          * exfalso. apply assoc_in_l in Ea'. specialize (Hval _ _ Ea'). apply mem_in in Hs'in. rewrite Hs'in in Hval. discriminate.
          * right. left. f_equal. apply miss_core.
            -- eapply lk_wf_fields; [exact Hw|apply assoc_in_l; exact Ea'].
            -- intros p' d' Hp'. destruct (defines (icls sval d') n) eqn:Hdef; [|reflexivity]. exfalso.
               assert (E : s' :: p' = s :: t).
               { apply (Huniq (s' :: p') d'); [|exact Hdef]. rewrite (at_path_cons (Inst sval cn fs ms) s' p' c j'); auto. apply mem_in. exact Hs'in. }
               injection E as -> _. apply Hnot. exact Hs'.
          * left. reflexivity.
    Qed.
  End Miss.
End Core.
