(** Calendar: Python's [_ymd2ord] / [_ord2ymd] are mutually inverse for every year >= 1 (400-year periodicity plus
    kernel-evaluated sweeps of ONE cycle: 146 097 days), and [_ymd2ord] is the days-from-civil formula. *)
From OfxV Require Import Base.Prelude Model.Calendar.
From Coq Require Import ZifyBool.
Local Open Scope Z_scope.
Ltac Zify.zify_post_hook ::= Z.to_euclidean_division_equations.

(** ---- bounded iteration over an interval of Z (structural on a counter) ---- *)
Fixpoint forall_from (f : Z -> bool) (k : nat) (z : Z) : bool :=
  match k with O => true | S k' => if f z then forall_from f k' (z + 1) else false end.
Lemma forall_from_spec f k : forall z, forall_from f k z = true -> forall i, z <= i < z + Z.of_nat k -> f i = true.
Proof.
  induction k as [|k IH]; intros z H i Hi; [lia|].
  cbn [forall_from] in H. destruct (f z) eqn:E; [|discriminate].
  destruct (Z.eq_dec i z) as [->|N]; [exact E|]. apply (IH (z + 1) H). lia.
Qed.

(** ---- periodicity ---- *)
Lemma dby_shift y q : days_before_year (y + 400 * q) = days_before_year y + 146097 * q.
Proof. unfold days_before_year. lia. Qed.
Lemma is_leap_shift y q : is_leap (y + 400 * q) = is_leap y.
Proof.
  unfold is_leap.
  assert (H4 : (y + 400 * q) mod 4 = y mod 4) by lia.
  assert (H100 : (y + 400 * q) mod 100 = y mod 100) by lia.
  assert (H400 : (y + 400 * q) mod 400 = y mod 400) by lia.
  rewrite H4, H100, H400. reflexivity.
Qed.
Lemma dim_shift y q m : days_in_month (y + 400 * q) m = days_in_month y m.
Proof. unfold days_in_month. rewrite is_leap_shift. reflexivity. Qed.
Lemma ymd2ord_shift y q m d : ymd2ord (y + 400 * q) m d = ymd2ord y m d + 146097 * q.
Proof. unfold ymd2ord, days_before_month. rewrite dby_shift, is_leap_shift. lia. Qed.

(** ---- sweep 1: every valid date of years 1..400 ---- *)
Definition t3eq (a b : Z * Z * Z) : bool :=
  let '(a1, a2, a3) := a in let '(b1, b2, b3) := b in (a1 =? b1) && (a2 =? b2) && (a3 =? b3).
Definition chk_day (y m d : Z) : bool :=
  if d <=? days_in_month y m then
    let n := ymd2ord y m d - 1 in
    (0 <=? n) && (n <? DI400Y) && t3eq (ord2ymd_cycle n) (y, m, d)
  else true.
Definition chk_year (y : Z) : bool := forall_from (fun m => forall_from (chk_day y m) 31 1) 12 1.
Lemma sweep_dates : forall_from chk_year 400 1 = true.
Proof. vm_cast_no_check (eq_refl true). Qed.
Lemma cycle_of_date y m d : 1 <= y <= 400 -> 1 <= m <= 12 -> 1 <= d <= days_in_month y m ->
  0 <= ymd2ord y m d - 1 < DI400Y /\ ord2ymd_cycle (ymd2ord y m d - 1) = (y, m, d).
Proof.
  intros Hy Hm Hd.
  pose proof (forall_from_spec _ _ _ sweep_dates y ltac:(lia)) as Y. unfold chk_year in Y.
  pose proof (forall_from_spec _ _ _ Y m ltac:(lia)) as M. cbv beta in M.
  assert (D31 : days_in_month y m <= 31) by (unfold days_in_month; destruct (m =? 2); [destruct (is_leap y)|destruct ((m =? 4) || (m =? 6) || (m =? 9) || (m =? 11))]; lia).
  pose proof (forall_from_spec _ _ _ M d ltac:(lia)) as D. unfold chk_day in D.
  destruct (d <=? days_in_month y m) eqn:E; [|lia].
  apply andb_true_iff in D as [D D3]. apply andb_true_iff in D as [D1 D2].
  split; [lia|].
  destruct (ord2ymd_cycle (ymd2ord y m d - 1)) as [[a b] c]. cbn [t3eq] in D3.
  assert (a = y /\ b = m /\ c = d) as (-> & -> & ->) by lia. reflexivity.
Qed.

(** ---- sweep 2: every day of the cycle ---- *)
Definition chk_ord (r : Z) : bool :=
  let '(y, m, d) := ord2ymd_cycle r in
  (1 <=? y) && (y <=? 400) && (1 <=? m) && (m <=? 12) && (1 <=? d) && (d <=? days_in_month y m)
  && (ymd2ord y m d =? r + 1).
Lemma sweep_ords : forall_from chk_ord (Z.to_nat 146097) 0 = true.
Proof. vm_cast_no_check (eq_refl true). Qed.
Lemma date_of_cycle r : 0 <= r < DI400Y ->
  let '(y, m, d) := ord2ymd_cycle r in
  1 <= y <= 400 /\ 1 <= m <= 12 /\ 1 <= d <= days_in_month y m /\ ymd2ord y m d = r + 1.
Proof.
  intro Hr. pose proof (forall_from_spec _ _ _ sweep_ords r ltac:(unfold DI400Y in Hr; lia)) as R.
  unfold chk_ord in R. destruct (ord2ymd_cycle r) as [[y m] d]. lia.
Qed.

(** ---- the two inverse laws, every year >= 1 ---- *)
Lemma calendar_inverse_l y m d : 1 <= y -> 1 <= m <= 12 -> 1 <= d <= days_in_month y m ->
  ord2ymd (ymd2ord y m d) = (y, m, d).
Proof.
  intros Hy Hm Hd.
  set (q := (y - 1) / 400). set (y0 := (y - 1) mod 400 + 1).
  assert (Ey : y = y0 + 400 * q) by (unfold q, y0; lia).
  assert (Hy0 : 1 <= y0 <= 400) by (unfold y0; lia).
  rewrite Ey in Hd |- *. rewrite dim_shift in Hd. rewrite ymd2ord_shift.
  destruct (cycle_of_date y0 m d Hy0 Hm Hd) as [B C].
  unfold ord2ymd, DI400Y in *.
  replace ((ymd2ord y0 m d + 146097 * q - 1) mod 146097) with (ymd2ord y0 m d - 1) by lia.
  replace ((ymd2ord y0 m d + 146097 * q - 1) / 146097) with q by lia.
  rewrite C. f_equal. f_equal. lia.
Qed.

Lemma ord_inverse_l n : 1 <= n ->
  let '(y, m, d) := ord2ymd n in
  1 <= y /\ 1 <= m <= 12 /\ 1 <= d <= days_in_month y m /\ ymd2ord y m d = n.
Proof.
  intro Hn. unfold ord2ymd.
  pose proof (date_of_cycle ((n - 1) mod DI400Y) ltac:(unfold DI400Y; lia)) as D.
  destruct (ord2ymd_cycle ((n - 1) mod DI400Y)) as [[y0 m] d]. destruct D as (Y & M & D & E).
  set (q := (n - 1) / DI400Y) in *.
  assert (Hq : 0 <= q) by (unfold q, DI400Y; lia).
  replace (q * 400 + y0) with (y0 + 400 * q) by lia.
  rewrite dim_shift, ymd2ord_shift. repeat split; try lia.
  rewrite E. unfold q, DI400Y. lia.
Qed.

(** ---- Python's table walk is the days-from-civil formula ---- *)
Lemma civil_dim_is_days_in_month y m : 1 <= m <= 12 -> civil_dim y m = days_in_month y m.
Proof.
  intro Hm. unfold civil_dim, days_in_month, civil_leap, is_leap.
  assert (m = 1 \/ m = 2 \/ m = 3 \/ m = 4 \/ m = 5 \/ m = 6 \/ m = 7 \/ m = 8 \/ m = 9 \/ m = 10 \/ m = 11 \/ m = 12) as C by lia.
  repeat (destruct C as [-> | C]); try subst m; cbn -[Z.modulo]; try reflexivity.
  destruct (y mod 100 =? 0) eqn:E100; destruct (y mod 400 =? 0) eqn:E400; destruct (y mod 4 =? 0) eqn:E4; cbn; try reflexivity; lia.
Qed.
Lemma ymd2ord_is_days_from_civil_l y m d : 1 <= m <= 12 -> ymd2ord y m d = civil_ord y m d.
Proof.
  intro Hm. unfold ymd2ord, civil_ord, days_before_year, days_before_month, is_leap.
  assert (m = 1 \/ m = 2 \/ m = 3 \/ m = 4 \/ m = 5 \/ m = 6 \/ m = 7 \/ m = 8 \/ m = 9 \/ m = 10 \/ m = 11 \/ m = 12) as C by lia.
  repeat (destruct C as [-> | C]); try subst m; cbn -[Z.div Z.modulo Z.mul Z.add Z.sub];
    change ((153 * (1 + 9) + 2) / 5) with 306; change ((153 * (2 + 9) + 2) / 5) with 337;
    change ((153 * (3 - 3) + 2) / 5) with 0; change ((153 * (4 - 3) + 2) / 5) with 31;
    change ((153 * (5 - 3) + 2) / 5) with 61; change ((153 * (6 - 3) + 2) / 5) with 92;
    change ((153 * (7 - 3) + 2) / 5) with 122; change ((153 * (8 - 3) + 2) / 5) with 153;
    change ((153 * (9 - 3) + 2) / 5) with 184; change ((153 * (10 - 3) + 2) / 5) with 214;
    change ((153 * (11 - 3) + 2) / 5) with 245; change ((153 * (12 - 3) + 2) / 5) with 275;
    destruct (y mod 4 =? 0) eqn:E4; destruct (y mod 100 =? 0) eqn:E100; destruct (y mod 400 =? 0) eqn:E400;
    cbn [andb orb negb]; lia.
Qed.
