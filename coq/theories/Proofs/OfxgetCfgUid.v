(** default_clientuid_stable (C18): every run that saves the settings leaves a [DEFAULT] clientuid in the file, the
    one that was there or - the first time - the generated one; so over any sequence of such runs it never changes. *)
From OfxV Require Import Base.Prelude Base.Digits Base.OfxgetBase Gen.OfxgetGen Model.OfxgetCfg.
From OfxV Require Import Proofs.OfxgetCfgMerge Proofs.OfxgetCfgParse Proofs.OfxgetCfgRoundtrip Proofs.OfxgetCfgValues Proofs.OfxgetCfgWrite
                         Proofs.OfxgetCfgPersist.
From Coq Require Import Lia.
Local Open Scope N_scope.

(** the default CLIENTUID a file holds *)
Definition default_uid (user : option text) : option text :=
  match parse_opt user with OK c => assoc (T "clientuid") (c_defaults c) | Err _ => None end.

(** a run that saved the settings, inside the stated domain *)
Definition good_write (lookup : text -> option ohrec) (fi : text) (user : option text) (uuid : text) (cli : amap) (t' : text) : Prop :=
  exists a s cf cu,
    run_ofxget lookup uuid fi user cli = OK (a, OK (Some t')) /\
    assoc (T "server") cli = Some (PStr s) /\ clean_name s = true /\ clean_value uuid = true /\
    parse_text fi = OK cf /\ c_defaults cf = [] /\ parse_opt user = OK cu /\ clean_cfg cu /\
    (forall o ty v, In (o, ty) og_configurable -> args_get a o = Some v -> null_val v = false -> clean_val ty v = true).

Lemma test_true_nonnull' d l o v : test_cfg_val d l o v = OK true -> null_val v = false.
Proof. unfold test_cfg_val, null_val. destruct (existsb (py_eq v) og_null_args); [discriminate | reflexivity]. Qed.

Lemma good_write_uid lookup fi user uuid cli t' :
  good_write lookup fi user uuid cli t' ->
  exists cw, parse_text t' = OK cw /\ clean_cfg cw /\
             assoc (T "clientuid") (c_defaults cw) = Some (match default_uid user with Some u => u | None => uuid end).
Proof.
  intros (a1 & s & cf & cu & Hrun1 & Hs1 & Hname & Huuid & Hcf & Hcfd & Hcu & Hclean & Hvals).
  destruct (run_wrote _ _ _ _ _ _ _ Hrun1) as (c1 & lib & cw & Hr1 & Hrl & Hm1 & Hdry & Hmk & Ht').
  destruct (read_two_files_struct _ _ _ Hr1) as (cf' & cu' & Hcf' & Hcu' & Ec1).
  rewrite Hcf in Hcf'. apply OK_inj in Hcf'. subst cf'. rewrite Hcu in Hcu'. apply OK_inj in Hcu'. subst cu'.
  pose proof (cc_wfk _ Hclean) as Wu.
  assert (Mk : ukeys (c_defaults c1) /\ forallb clean_item (c_defaults c1) = true /\ forall k, assoc k (c_defaults c1) = assoc k (c_defaults cu)).
  { rewrite Ec1. rewrite !merge_defaults_eq. cbn [c_defaults empty_cfg]. rewrite Hcfd.
    change (@dmerge text [] []) with (@nil (text * text)). split; [|split].
    - apply ukeys_dmerge. constructor.
    - apply clean_dmerge; [reflexivity | apply (cc_defaults _ Hclean)].
    - intro k. rewrite dmerge_assoc by apply (wfk_defaults _ Wu). destruct (assoc k (c_defaults cu)); reflexivity. }
  destruct Mk as (Mu & Mc & Ma).
  destruct (merge_config_shape _ _ _ _ Hm1) as (ucfg1 & Hu1 & Sh1). cbv zeta in Sh1.
  destruct (mk_server_cfg_spec _ _ _ _ _ _ _ Hmk Hcu) as (s' & lib_cfg & Hsv & Hsn & Hlc & Hspec).
  assert (Ea1 : a1 = cli :: ucfg1 :: oh_layer lookup [cli; ucfg1; og_defaults] ++ [og_defaults]).
  { destruct Sh1 as [E|(sx & _ & _ & _ & _ & E)]; [exact E|]. exfalso. rewrite E in Hsv. unfold get_or, url_as_server in Hsv.
    cbn [args_get] in Hsv. rewrite assoc_dset, text_eqb_refl in Hsv. discriminate. }
  assert (Es' : s' = s).
  { rewrite Ea1 in Hsv. unfold get_or in Hsv. cbn [args_get] in Hsv. rewrite Hs1 in Hsv. injection Hsv as <-. reflexivity. }
  subst s'.
  assert (Hnd : text_eqb s DEFAULTSECT = false).
  { unfold clean_name in Hname. repeat match goal with X : _ && _ = true |- _ => apply andb_true_iff in X; destruct X end. apply negb_true_iff. assumption. }
  cbv zeta in Hspec. specialize (Hspec Hnd). destruct Hspec as (Hk & Hd & Hg & Hcl).
  assert (Ccw : clean_cfg cw).
  { apply Hcl; auto. intros o ty t Hin Hw. unfold will_write in Hw. destruct (args_get a1 o) as [v|] eqn:Ev; [|discriminate].
    match type of Hw with match ?T with _ => _ end = _ => destruct T as [[|]|] eqn:Et; try discriminate end.
    destruct (arg2config ty v) as [t0|] eqn:Ea; [|discriminate]. injection Hw as <-.
    pose proof (Hvals _ _ _ Hin Ev (test_true_nonnull' _ _ _ _ Et)) as Hc.
    destruct (arg2config_roundtrip _ _ Hc) as (txt & E1 & E2 & E3). rewrite Ea in E1. apply OK_inj in E1. subst txt. exact E2. }
  exists cw. split; [rewrite Ht'; apply parse_write_roundtrip; exact Ccw|]. split; [exact Ccw|].
  rewrite Hd, text_eqb_refl. f_equal. unfold default_uid. rewrite Hcu.
  rewrite dmerge_assoc by apply (wfk_defaults _ Wu). rewrite Ma. destruct (assoc (T "clientuid") (c_defaults cu)); reflexivity.
Qed.

(** a sequence of saving runs on the same file *)
Inductive write_runs (lookup : text -> option ohrec) (fi : text) : text -> list (text * amap) -> text -> Prop :=
| wr_nil t : write_runs lookup fi t [] t
| wr_cons t uuid cli t' rest final :
    good_write lookup fi (Some t) uuid cli t' -> write_runs lookup fi t' rest final ->
    write_runs lookup fi t ((uuid, cli) :: rest) final.

Lemma default_clientuid_stable_l lookup fi user uuid cli t1 rest tn :
  good_write lookup fi user uuid cli t1 -> write_runs lookup fi t1 rest tn ->
  exists u, default_uid (Some t1) = Some u /\ default_uid (Some tn) = Some u
            /\ u = match default_uid user with Some u0 => u0 | None => uuid end.
Proof.
  intros H1 Hr. destruct (good_write_uid _ _ _ _ _ _ H1) as (cw & Hp & _ & Hu).
  set (u := match default_uid user with Some u0 => u0 | None => uuid end) in *.
  exists u. assert (E1 : default_uid (Some t1) = Some u) by (unfold default_uid; cbn [parse_opt]; rewrite Hp; exact Hu).
  split; [exact E1|]. split; [|reflexivity]. clear H1 Hp Hu cw.
  induction Hr as [t|t uuid' cli' t' rest final Hg Hr IH]; [exact E1|]. apply IH.
  destruct (good_write_uid _ _ _ _ _ _ Hg) as (cw' & Hp' & _ & Hu'). unfold default_uid at 1. cbn [parse_opt]. rewrite Hp', Hu', E1. reflexivity.
Qed.
