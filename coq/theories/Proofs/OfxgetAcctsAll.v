(** Lemmas about _merge_acctinfo (Model/OfxgetAccts.v, C19): what the sorted / grouped / parsed account
    information puts under each account option, stated with plain filters over the server's list. *)
From OfxV Require Import Base.Prelude Base.Digits Base.OfxgetBase Gen.OfxgetGen Model.OfxgetCfg Model.OfxgetAccts.
From OfxV Require Import Proofs.OfxgetAcctsProofs.
From Coq Require Import Lia.
Local Open Scope N_scope.

(* ------------------------------------------------------------------ specification side: plain filters *)
Definition bankty_eqb (a b : bankty) : bool :=
  match a, b with
  | CHECKING, CHECKING | SAVINGS, SAVINGS | MONEYMRKT, MONEYMRKT | CREDITLINE, CREDITLINE | CD, CD => true
  | _, _ => false
  end.
(** ids of the ACTIVE bank accounts of type [ty], in the order the server lists them *)
Definition active_bank (ty : bankty) (l : list acctinfo) : list text :=
  List.concat (map (fun a => match a with
                             | BankInfo _ id t ACTIVE => if bankty_eqb t ty then [id] else []
                             | _ => []
                             end) l).
Definition active_cc (l : list acctinfo) : list text :=
  List.concat (map (fun a => match a with CcInfo id ACTIVE => [id] | _ => [] end) l).
Definition active_inv (l : list acctinfo) : list text :=
  List.concat (map (fun a => match a with InvInfo _ id ACTIVE => [id] | _ => [] end) l).
Definition lists_cc (l : list acctinfo) : bool :=
  existsb (fun a => match a with CcInfo _ _ => true | _ => false end) l.

(* ------------------------------------------------------------------ dicts *)
Lemma assoc_dd_append k k' v (m : dict (list text)) :
  assoc k (dd_append k' v m) =
  if text_eqb k k' then Some (match assoc k m with Some l => l ++ [v] | None => [v] end) else assoc k m.
Proof.
  induction m as [|[k0 l0] m IH]; cbn [dd_append assoc].
  - destruct (text_eqb k k'); reflexivity.
  - destruct (text_eqb k' k0) eqn:E0.
    + apply text_eqb_eq in E0. subst k0. cbn [assoc]. destruct (text_eqb k k'); reflexivity.
    + cbn [assoc]. destruct (text_eqb k k0) eqn:E1.
      * apply text_eqb_eq in E1. subst k0.
        destruct (text_eqb k k') eqn:E2; [|reflexivity].
        apply text_eqb_eq in E2. subst k'. rewrite text_eqb_refl in E0. discriminate.
      * exact IH.
Qed.

Lemma assoc_dd_to_amap k m : assoc k (dd_to_amap m) = option_map PList (assoc k m).
Proof.
  induction m as [|[k0 l0] m IH]; [reflexivity|]. cbn [dd_to_amap map assoc fst snd] in *.
  destruct (text_eqb k k0); [reflexivity | exact IH].
Qed.

(** how an accumulated list and further appended ids combine *)
Definition comb (o : option (list text)) (xs : list text) : option (list text) :=
  match o, xs with
  | None, [] => None
  | None, _ => Some xs
  | Some l, _ => Some (l ++ xs)
  end.
Lemma comb_app o xs ys : comb (comb o xs) ys = comb o (xs ++ ys).
Proof.
  destruct o as [l|]; cbn.
  - destruct xs; cbn; rewrite <- ?app_assoc; reflexivity.
  - destruct xs as [|x xs]; cbn; [reflexivity|]. destruct ys; cbn; rewrite ?app_nil_r; reflexivity.
Qed.

(* ------------------------------------------------------------------ parse_bankacctinfos *)
Definition active_by_name (k : text) (l : list acctinfo) : list text :=
  List.concat (map (fun a => match a with
                             | BankInfo _ id t ACTIVE => if text_eqb k (bankty_name t) then [id] else []
                             | _ => []
                             end) l).

Lemma bank_scan_assoc : forall l ids m k,
  assoc k (snd (bank_scan l ids m)) = comb (assoc k m) (active_by_name k l).
Proof.
  induction l as [|a l IH]; intros ids m k.
  - cbn. destruct (assoc k m); cbn; rewrite ?app_nil_r; reflexivity.
  - destruct a as [b id t st| | |]; cbn [bank_scan]; try (rewrite IH; reflexivity).
    destruct st; cbn [is_active ai_status]; try (rewrite IH; reflexivity).
    rewrite IH, assoc_dd_append. unfold active_by_name. cbn [map List.concat].
    destruct (text_eqb k (bankty_name t)) eqn:E.
    + fold (active_by_name k l). destruct (assoc k m); cbn [comb app].
      * rewrite <- app_assoc. reflexivity.
      * reflexivity.
    + reflexivity.
Qed.

Lemma active_by_name_bank ty l : active_by_name (bankty_name ty) l = active_bank ty l.
Proof.
  unfold active_by_name, active_bank. f_equal. apply map_ext. intros [b id t st| | |]; try reflexivity.
  destruct st; try reflexivity. destruct t, ty; reflexivity.
Qed.

Lemma active_by_name_other k l : (forall t, text_eqb k (bankty_name t) = false) -> active_by_name k l = [].
Proof.
  intro H. unfold active_by_name. induction l as [|a l IH]; [reflexivity|]. cbn [map List.concat]. rewrite IH.
  destruct a as [b id t st| | |]; try reflexivity. destruct st; try reflexivity. rewrite H. reflexivity.
Qed.

Definition opt_plist (xs : list text) : option pyval := if is_nil xs then None else Some (PList xs).

Lemma comb_none xs : option_map PList (comb None xs) = opt_plist xs.
Proof. destruct xs; reflexivity. Qed.

Lemma parse_bank_assoc l m k :
  parse_bankacctinfos l = OK m -> text_eqb k (T "bankid") = false ->
  assoc k m = opt_plist (active_by_name k l).
Proof.
  unfold parse_bankacctinfos. destruct (bank_scan l [] []) as [ids dd] eqn:E. intros H Hk.
  assert (Hdd : assoc k (dd_to_amap dd) = opt_plist (active_by_name k l)).
  { rewrite assoc_dd_to_amap. change dd with (snd (ids, dd)). rewrite <- E, bank_scan_assoc. cbn [assoc]. apply comb_none. }
  destruct ids as [|i ids].
  - injection H as <-. exact Hdd.
  - apply bind_ok in H. destruct H as (b & _ & H). injection H as <-.
    rewrite assoc_app, Hdd. destruct (opt_plist _); [reflexivity|]. rewrite assoc_single.
    match goal with |- (if ?c then _ else _) = _ => replace c with false by (symmetry; exact Hk) end. reflexivity.
Qed.

(* ------------------------------------------------------------------ parse_invacctinfos *)
Lemma inv_scan_assoc : forall l ids m k,
  assoc k (snd (inv_scan l ids m)) =
  comb (assoc k m) (if text_eqb k (T "investment") then active_inv l else []).
Proof.
  induction l as [|a l IH]; intros ids m k.
  - cbn [inv_scan snd]. unfold active_inv. cbn [map List.concat].
    destruct (text_eqb k (T "investment")); destruct (assoc k m); cbn [comb]; rewrite ?app_nil_r; reflexivity.
  - destruct a as [| | |b id st]; cbn [inv_scan]; try (rewrite IH; reflexivity).
    destruct st; cbn [is_active ai_status]; try (rewrite IH; reflexivity).
    rewrite IH, assoc_dd_append. unfold active_inv. cbn [map List.concat]. fold (active_inv l).
    destruct (text_eqb k (T "investment")) eqn:E.
    + destruct (assoc k m); cbn [comb app]; [rewrite <- app_assoc|]; reflexivity.
    + reflexivity.
Qed.

Lemma parse_inv_assoc l m k :
  parse_invacctinfos l = OK m -> text_eqb k (T "brokerid") = false ->
  assoc k m = if text_eqb k (T "investment") then opt_plist (active_inv l) else None.
Proof.
  unfold parse_invacctinfos. destruct (inv_scan l [] []) as [ids dd] eqn:E. intros H Hk.
  assert (Hdd : assoc k (dd_to_amap dd) = if text_eqb k (T "investment") then opt_plist (active_inv l) else None).
  { rewrite assoc_dd_to_amap. change dd with (snd (ids, dd)). rewrite <- E, inv_scan_assoc. cbn [assoc].
    destruct (text_eqb k (T "investment")); [apply comb_none | reflexivity]. }
  destruct ids as [|i ids].
  - injection H as <-. exact Hdd.
  - apply bind_ok in H. destruct H as (b & _ & H). injection H as <-.
    rewrite assoc_app, Hdd. destruct (if text_eqb k (T "investment") then _ else _); [reflexivity|].
    rewrite assoc_single.
    match goal with |- (if ?c then _ else _) = _ => replace c with false by (symmetry; exact Hk) end. reflexivity.
Qed.

(* ------------------------------------------------------------------ sorted by class name = the four filters in a row *)
Definition F (k : N) (l : list acctinfo) : list acctinfo := filter (fun a => ai_rank a =? k) l.

Lemma F_rank k l : Forall (fun a => ai_rank a = k) (F k l).
Proof.
  unfold F. induction l as [|a l IH]; cbn [filter]; [constructor|].
  destruct (ai_rank a =? k) eqn:E; [constructor; [apply N.eqb_eq; exact E | exact IH] | exact IH].
Qed.

Lemma insert_lt a : forall xs ys, Forall (fun b => ai_rank b < ai_rank a) xs -> insert_ai a (xs ++ ys) = xs ++ insert_ai a ys.
Proof.
  induction xs as [|x xs IH]; intros ys H; [reflexivity|]. inversion H as [|? ? Hx Hr]; subst.
  cbn [app insert_ai]. replace (ai_rank a <=? ai_rank x) with false by (symmetry; apply N.leb_gt; exact Hx).
  rewrite IH by exact Hr. reflexivity.
Qed.
Lemma insert_ge a ys : Forall (fun b => ai_rank a <= ai_rank b) ys -> insert_ai a ys = a :: ys.
Proof.
  destruct ys as [|y ys]; intro H; [reflexivity|]. inversion H as [|? ? Hy _]; subst.
  cbn [insert_ai]. replace (ai_rank a <=? ai_rank y) with true by (symmetry; apply N.leb_le; exact Hy). reflexivity.
Qed.

Lemma Forall_rank_impl (P : N -> Prop) k l : P k -> Forall (fun a => ai_rank a = k) l -> Forall (fun a => P (ai_rank a)) l.
Proof. intros Hp H. induction H as [|a l Ha _ IH]; constructor; [rewrite Ha; exact Hp | exact IH]. Qed.

Lemma ai_rank_cases a : ai_rank a = 0 \/ ai_rank a = 1 \/ ai_rank a = 2 \/ ai_rank a = 3.
Proof. destruct a; cbn; auto. Qed.

Lemma F_cons_eq k a l : ai_rank a = k -> F k (a :: l) = a :: F k l.
Proof. intro H. unfold F. cbn [filter]. rewrite H, N.eqb_refl. reflexivity. Qed.
Lemma F_cons_neq k a l : ai_rank a <> k -> F k (a :: l) = F k l.
Proof. intro H. unfold F. cbn [filter]. replace (ai_rank a =? k) with false by (symmetry; apply N.eqb_neq; exact H). reflexivity. Qed.

Ltac rk P := eapply (Forall_rank_impl P); [|eassumption]; cbv beta; lia.

Lemma sort_ai_blocks l : sort_ai l = F 0 l ++ F 1 l ++ F 2 l ++ F 3 l.
Proof.
  induction l as [|a l IH]; [reflexivity|]. cbn [sort_ai]. rewrite IH.
  pose proof (F_rank 0 l) as R0. pose proof (F_rank 1 l) as R1. pose proof (F_rank 2 l) as R2. pose proof (F_rank 3 l) as R3.
  destruct (ai_rank_cases a) as [E|[E|[E|E]]].
  - rewrite (F_cons_eq 0 a l E), (F_cons_neq 1 a l), (F_cons_neq 2 a l), (F_cons_neq 3 a l) by (rewrite E; lia).
    cbn [app]. apply insert_ge. rewrite E.
    repeat (apply Forall_app; split); rk (fun r => 0 <= r).
  - rewrite (F_cons_neq 0 a l), (F_cons_eq 1 a l E), (F_cons_neq 2 a l), (F_cons_neq 3 a l) by (rewrite E; lia).
    rewrite insert_lt by (rewrite E; rk (fun r => r < 1)). f_equal.
    cbn [app]. apply insert_ge. rewrite E.
    repeat (apply Forall_app; split); rk (fun r => 1 <= r).
  - rewrite (F_cons_neq 0 a l), (F_cons_neq 1 a l), (F_cons_eq 2 a l E), (F_cons_neq 3 a l) by (rewrite E; lia).
    rewrite insert_lt by (rewrite E; rk (fun r => r < 2)). f_equal.
    rewrite insert_lt by (rewrite E; rk (fun r => r < 2)). f_equal.
    cbn [app]. apply insert_ge. rewrite E.
    repeat (apply Forall_app; split); rk (fun r => 2 <= r).
  - rewrite (F_cons_neq 0 a l), (F_cons_neq 1 a l), (F_cons_neq 2 a l), (F_cons_eq 3 a l E) by (rewrite E; lia).
    rewrite insert_lt by (rewrite E; rk (fun r => r < 3)). f_equal.
    rewrite insert_lt by (rewrite E; rk (fun r => r < 3)). f_equal.
    rewrite insert_lt by (rewrite E; rk (fun r => r < 3)). f_equal.
    apply insert_ge. rewrite E. rk (fun r => 3 <= r).
Qed.

(* ------------------------------------------------------------------ groupby of homogeneous blocks *)
Lemma groupby_head a l : exists g gs, groupby_ai (a :: l) = (ai_rank a, g) :: gs.
Proof.
  cbn [groupby_ai]. destruct (groupby_ai l) as [|[k g] gs]; [eauto|].
  destruct (ai_rank a =? k) eqn:E; [apply N.eqb_eq in E; subst k|]; eauto.
Qed.

Definition G (k : N) (xs : list acctinfo) : list (N * list acctinfo) := if is_nil xs then [] else [(k, xs)].

Lemma groupby_block k : forall xs ys,
  Forall (fun a => ai_rank a = k) xs -> Forall (fun a => ai_rank a <> k) ys ->
  groupby_ai (xs ++ ys) = G k xs ++ groupby_ai ys.
Proof.
  induction xs as [|x xs IH]; intros ys Hx Hy; [reflexivity|].
  inversion Hx as [|? ? Hx1 Hx2]; subst. cbn [app groupby_ai]. rewrite (IH ys Hx2 Hy).
  destruct xs as [|x' xs]; cbn [G is_nil app].
  - destruct ys as [|y ys].
    + reflexivity.
    + destruct (groupby_head y ys) as (g & gs & E). rewrite E.
      inversion Hy as [|? ? Hy1 _]; subst.
      replace (ai_rank x =? ai_rank y) with false by (symmetry; apply N.eqb_neq; congruence). reflexivity.
  - rewrite N.eqb_refl. reflexivity.
Qed.

Lemma groupby_sorted l : groupby_ai (sort_ai l) = G 0 (F 0 l) ++ G 1 (F 1 l) ++ G 2 (F 2 l) ++ G 3 (F 3 l).
Proof.
  rewrite sort_ai_blocks.
  pose proof (F_rank 0 l) as R0. pose proof (F_rank 1 l) as R1. pose proof (F_rank 2 l) as R2. pose proof (F_rank 3 l) as R3.
  rewrite (groupby_block 0 _ _ R0) by (repeat (apply Forall_app; split); rk (fun r => r <> 0)).
  f_equal.
  rewrite (groupby_block 1 _ _ R1) by (repeat (apply Forall_app; split); rk (fun r => r <> 1)).
  f_equal.
  rewrite (groupby_block 2 _ _ R2) by (rk (fun r => r <> 2)).
  f_equal.
  rewrite <- (app_nil_r (F 3 l)) at 1. rewrite (groupby_block 3 _ _ R3) by constructor.
  cbn [groupby_ai]. rewrite app_nil_r. reflexivity.
Qed.

(* ------------------------------------------------------------------ the discovered map *)
Lemma parse_groups_app : forall g1 g2 ms,
  parse_groups (g1 ++ g2) = OK ms -> exists m1 m2, parse_groups g1 = OK m1 /\ parse_groups g2 = OK m2 /\ ms = m1 ++ m2.
Proof.
  induction g1 as [|g g1 IH]; intros g2 ms H; cbn [app parse_groups] in *.
  - exists [], ms. auto.
  - apply bind_ok in H. destruct H as (m & Hm & H). apply bind_ok in H. destruct H as (ms' & Hms & H).
    injection H as <-. destruct (IH _ _ Hms) as (m1 & m2 & H1 & H2 & ->).
    exists (m :: m1), m2. rewrite Hm, H1. cbn. auto.
Qed.

(** scanning only looks at the accounts of its own kind *)
Lemma bank_scan_filter : forall l ids m, bank_scan (F 0 l) ids m = bank_scan l ids m.
Proof.
  induction l as [|a l IH]; intros ids m; [reflexivity|].
  destruct a as [b id t st| | |]; unfold F in *; cbn [filter ai_rank N.eqb Pos.eqb bank_scan]; try apply IH.
  destruct (is_active _); apply IH.
Qed.
Lemma inv_scan_filter : forall l ids m, inv_scan (F 3 l) ids m = inv_scan l ids m.
Proof.
  induction l as [|a l IH]; intros ids m; [reflexivity|].
  destruct a as [| | |b id st]; unfold F in *; cbn [filter ai_rank N.eqb Pos.eqb inv_scan]; try apply IH.
  destruct (is_active _); apply IH.
Qed.
Lemma cc_ids_filter l : cc_ids (F 2 l) = active_cc l.
Proof.
  unfold cc_ids, active_cc, F. induction l as [|a l IH]; [reflexivity|].
  destruct a as [| |id st|]; cbn [filter ai_rank N.eqb Pos.eqb map List.concat app]; try exact IH.
  rewrite IH. reflexivity.
Qed.
Lemma F2_nil l : is_nil (F 2 l) = negb (lists_cc l).
Proof.
  unfold F, lists_cc. induction l as [|a l IH]; [reflexivity|].
  destruct a; cbn [filter ai_rank N.eqb Pos.eqb existsb orb]; try exact IH. reflexivity.
Qed.
Lemma parse_bank_filter l : parse_bankacctinfos (F 0 l) = parse_bankacctinfos l.
Proof. unfold parse_bankacctinfos. rewrite bank_scan_filter. reflexivity. Qed.
Lemma parse_inv_filter l : parse_invacctinfos (F 3 l) = parse_invacctinfos l.
Proof. unfold parse_invacctinfos. rewrite inv_scan_filter. reflexivity. Qed.

Lemma bank_scan_nil_of_F0_nil l : is_nil (F 0 l) = true -> forall k, active_by_name k l = [].
Proof.
  intros H k. unfold active_by_name, F in *. induction l as [|a l IH]; [reflexivity|].
  destruct a as [b id t st| | |]; cbn [filter ai_rank N.eqb Pos.eqb] in H; try discriminate; cbn [map List.concat app]; auto.
Qed.
Lemma active_inv_nil_of_F3_nil l : is_nil (F 3 l) = true -> active_inv l = [].
Proof.
  intros H. unfold active_inv, F in *. induction l as [|a l IH]; [reflexivity|].
  destruct a as [| | |b id st]; cbn [filter ai_rank N.eqb Pos.eqb] in H; try discriminate; cbn [map List.concat app]; auto.
Qed.

(** the keys the loops of request_stmt / request_stmtend look up, none of which is "bankid" / "brokerid" *)
Definition acct_key (k : text) : Prop :=
  (exists ty, k = bankty_name ty) \/ k = T "creditcard" \/ k = T "investment".

Definition bank_part (k : text) (l : list acctinfo) : option pyval := opt_plist (active_by_name k l).
Definition cc_part (k : text) (l : list acctinfo) : option pyval :=
  if text_eqb k (T "creditcard") then (if lists_cc l then Some (PList (active_cc l)) else None) else None.
Definition inv_part (k : text) (l : list acctinfo) : option pyval :=
  if text_eqb k (T "investment") then opt_plist (active_inv l) else None.

Lemma G_parse_bank l ms : parse_groups (G 0 (F 0 l)) = OK ms ->
  forall k, text_eqb k (T "bankid") = false -> assoc k (List.concat ms) = bank_part k l.
Proof.
  unfold G. destruct (is_nil (F 0 l)) eqn:E; intros H k Hk.
  - injection H as <-. cbn. unfold bank_part. rewrite (bank_scan_nil_of_F0_nil _ E). reflexivity.
  - cbn [parse_groups parse_group fst snd] in H. apply bind_ok in H. destruct H as (m & Hm & H). injection H as <-.
    cbn [List.concat]. rewrite app_nil_r. rewrite parse_bank_filter in Hm. apply (parse_bank_assoc _ _ _ Hm Hk).
Qed.
Lemma G_parse_bp l ms : parse_groups (G 1 (F 1 l)) = OK ms -> List.concat ms = [].
Proof.
  unfold G. destruct (is_nil (F 1 l)); intro H; [injection H as <-; reflexivity|].
  cbn in H. injection H as <-. reflexivity.
Qed.
Lemma G_parse_cc l ms : parse_groups (G 2 (F 2 l)) = OK ms ->
  forall k, assoc k (List.concat ms) = cc_part k l.
Proof.
  unfold G, cc_part. rewrite F2_nil. destruct (lists_cc l); cbn [negb]; intros H k.
  - cbn [is_nil parse_groups parse_group fst snd bind parse_ccacctinfos] in H.
    apply OK_inj in H. subst ms.
    cbn [List.concat app]. rewrite assoc_single, cc_ids_filter. reflexivity.
  - apply OK_inj in H. subst ms. cbn [List.concat assoc]. destruct (text_eqb k (T "creditcard")); reflexivity.
Qed.
Lemma G_parse_inv l ms : parse_groups (G 3 (F 3 l)) = OK ms ->
  forall k, text_eqb k (T "brokerid") = false -> assoc k (List.concat ms) = inv_part k l.
Proof.
  unfold G, inv_part. destruct (is_nil (F 3 l)) eqn:E; intros H k Hk.
  - apply OK_inj in H. subst ms. cbn [List.concat assoc]. rewrite (active_inv_nil_of_F3_nil _ E).
    destruct (text_eqb k (T "investment")); reflexivity.
  - cbn [parse_groups parse_group fst snd] in H. apply bind_ok in H. destruct H as (m & Hm & H). injection H as <-.
    cbn [List.concat]. rewrite app_nil_r. rewrite parse_inv_filter in Hm. apply (parse_inv_assoc _ _ _ Hm Hk).
Qed.

Lemma concat_app' (a b : list amap) : List.concat (a ++ b) = List.concat a ++ List.concat b.
Proof. apply concat_app. Qed.

(** every key other than "bankid" / "brokerid": first the bank part, then the credit-card part, then the investment part *)
Lemma discovered_assoc l d k :
  discovered l = OK d -> text_eqb k (T "bankid") = false -> text_eqb k (T "brokerid") = false ->
  assoc k d = match bank_part k l with
              | Some v => Some v
              | None => match cc_part k l with Some v => Some v | None => inv_part k l end
              end.
Proof.
  unfold discovered. intros H Hb Hi. apply bind_ok in H. destruct H as (ms & Hms & H). apply OK_inj in H. subst d.
  rewrite groupby_sorted in Hms.
  apply parse_groups_app in Hms. destruct Hms as (m0 & r0 & H0 & Hr & ->).
  apply parse_groups_app in Hr. destruct Hr as (m1 & r1 & H1 & Hr & ->).
  apply parse_groups_app in Hr. destruct Hr as (m2 & m3 & H2 & H3 & ->).
  rewrite !concat_app', !assoc_app.
  rewrite (G_parse_bank _ _ H0 k Hb), (G_parse_bp _ _ H1), (G_parse_cc _ _ H2 k), (G_parse_inv _ _ H3 k Hi).
  cbn [assoc]. reflexivity.
Qed.

(** specialised to the account options *)
Lemma discovered_bank l d ty : discovered l = OK d -> assoc (bankty_name ty) d = opt_plist (active_bank ty l).
Proof.
  intro H. rewrite (discovered_assoc _ _ _ H) by (destruct ty; reflexivity).
  unfold bank_part. rewrite active_by_name_bank. destruct (opt_plist (active_bank ty l)) eqn:E; [reflexivity|].
  unfold cc_part, inv_part. destruct ty; reflexivity.
Qed.
Lemma discovered_cc l d : discovered l = OK d ->
  assoc (T "creditcard") d = if lists_cc l then Some (PList (active_cc l)) else None.
Proof.
  intro H. rewrite (discovered_assoc _ _ _ H) by reflexivity.
  unfold bank_part. rewrite active_by_name_other by (intros []; reflexivity). cbn [opt_plist is_nil].
  unfold cc_part. change (text_eqb (T "creditcard") (T "creditcard")) with true. cbv iota.
  destruct (lists_cc l); reflexivity.
Qed.
Lemma discovered_inv l d : discovered l = OK d -> assoc (T "investment") d = opt_plist (active_inv l).
Proof.
  intro H. rewrite (discovered_assoc _ _ _ H) by reflexivity.
  unfold bank_part. rewrite active_by_name_other by (intros []; reflexivity). cbn [opt_plist is_nil].
  unfold cc_part, inv_part. reflexivity.
Qed.

(* ------------------------------------------------------------------ the merged arguments *)
Lemma merge_acctinfo_shape m0 rest r a' :
  merge_acctinfo (m0 :: rest) r = OK a' ->
  exists l d, extract_acctinfos r = OK l /\ discovered l = OK d /\ a' = m0 :: d :: rest.
Proof.
  unfold merge_acctinfo. intro H. apply bind_ok in H. destruct H as (l & Hl & H).
  apply bind_ok in H. destruct H as (d & Hd & H). injection H as <-. eauto.
Qed.

(** command-line lists shadow discovered ones, discovered lists shadow configured ones *)
Lemma merged_lookup m0 d rest k :
  args_get (m0 :: d :: rest) k =
  match assoc k m0 with
  | Some v => Some v
  | None => match assoc k d with Some v => Some v | None => args_get rest k end
  end.
Proof. reflexivity. Qed.
