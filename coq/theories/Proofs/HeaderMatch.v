(** The hand recogniser of OFXHeaderV1.regex on structured header text: a field whose value is followed by
    whitespace, by nothing at all (the next field name glued to it: the greedy run is given back character by
    character until the name matches), or by the end of the header.  Generic in the separators and blanks, so that
    both str(header) (C12 round trip) and every tolerated file layout (C05) are instances. *)
From OfxV Require Import Base.Prelude Base.Digits Gen.HeaderGen Model.Header Model.HeaderLayout Proofs.HeaderChars.
From Coq Require Import ZifyBool ZifyN ZifyNat.
Local Open Scope N_scope.

(** * try_ends *)
Lemma try_ends_first {A} (k : text -> option A) v back a :
  v <> [] -> k back = Some a -> try_ends k (rev v) back = Some (v, a).
Proof.
  intros NE K. destruct (rev v) as [|c rv'] eqn:E.
  - exfalso. apply NE. rewrite <- (rev_involutive v), E. reflexivity.
  - cbn [try_ends]. rewrite K, <- E, rev_involutive. reflexivity.
Qed.

(** candidates that are too long (the value plus a non-empty part [p] of the extra run [x]) fail: skip them *)
Lemma try_ends_app {A} (k : text -> option A) x : forall rv back,
  (forall p q, rev x = p ++ q -> p <> [] -> k (q ++ back) = None) ->
  try_ends k (x ++ rv) back = try_ends k rv (rev x ++ back).
Proof.
  induction x as [|c x IH]; intros rv back F; [reflexivity|].
  cbn [app try_ends].
  assert (K0 : k back = None).
  { apply (F (rev (c :: x)) []). - rewrite app_nil_r. reflexivity.
    - cbn [rev]. intro E. apply app_eq_nil in E. destruct E as [_ E]. discriminate E. }
  rewrite K0. rewrite (IH rv (c :: back)).
  - cbn [rev]. rewrite <- app_assoc. reflexivity.
  - intros p q E NE. change (q ++ c :: back) with (q ++ [c] ++ back). rewrite app_assoc.
    apply (F p (q ++ [c])); [|exact NE]. cbn [rev]. rewrite E, app_assoc. reflexivity.
Qed.

(** * span *)
Lemma span_app_gen p v x : forallb p v = true -> span p (v ++ x) = (v ++ fst (span p x), snd (span p x)).
Proof.
  induction v as [|c v IH]; cbn [forallb app]; intro H.
  - destruct (span p x); reflexivity.
  - apply andb_true_iff in H. destruct H as [Hc Hv]. cbn [span]. rewrite Hc, (IH Hv). reflexivity.
Qed.
Lemma span_split p x : x = fst (span p x) ++ snd (span p x) /\ forallb p (fst (span p x)) = true.
Proof.
  induction x as [|c x [IH1 IH2]]; [split; reflexivity|].
  cbn [span]. destruct (p c) eqn:E.
  - destruct (span p x) as [a b]. cbn [fst snd] in *. split; [cbn [app]; f_equal; exact IH1|cbn [forallb]; rewrite E; exact IH2].
  - split; reflexivity.
Qed.
(** a run inside [n ++ c :: t] with [c] outside the class stays inside [n] *)
Lemma span_before p n c t : p c = false ->
  exists r q, n = r ++ q /\ span p (n ++ c :: t) = (r, q ++ c :: t).
Proof.
  intro Hc. induction n as [|d n [r [q [E S]]]].
  - exists [], []. split; [reflexivity|]. cbn [app span]. rewrite Hc. reflexivity.
  - cbn [app span]. destruct (p d) eqn:Ed.
    + exists (d :: r), q. split; [cbn [app]; f_equal; exact E|]. rewrite S. reflexivity.
    + exists [], (d :: n). split; reflexivity.
Qed.

(** * one field *)
Definition cls_ok (cls : N -> bool) : Prop := forall c, cls c = true -> is_space c = false.
Definition stops (cls : N -> bool) (rest : text) : Prop := match rest with [] => True | c :: _ => cls c = false end.

Lemma match_field_unfold {A} name cls (k : text -> option A) w v x :
  forallb is_space w = true -> v <> [] -> forallb cls v = true -> cls_ok cls ->
  match_field name cls k (name ++ 58 :: w ++ v ++ x) =
  try_ends k (rev (v ++ fst (span cls x))) (snd (span cls x)).
Proof.
  intros W NE V OK. unfold match_field.
  change (name ++ 58 :: w ++ v ++ x) with (name ++ [58] ++ (w ++ v ++ x)). rewrite app_assoc, strip_prefix_app.
  rewrite skipws_app_space by exact W.
  destruct v as [|c v]; [contradiction|]. cbn [forallb] in V. apply andb_true_iff in V. destruct V as [Vc Vv].
  change ((c :: v) ++ x) with (c :: (v ++ x)). rewrite skipws_stop by (apply OK; exact Vc).
  change (c :: v ++ x) with ((c :: v) ++ x). rewrite span_app_gen by (cbn [forallb]; rewrite Vc; exact Vv).
  reflexivity.
Qed.

(** the value is followed by something outside its class (whitespace, '<', the end) *)
Lemma match_field_ok {A} name cls (k : text -> option A) w v rest a :
  forallb is_space w = true -> v <> [] -> forallb cls v = true -> cls_ok cls ->
  stops cls rest -> k rest = Some a ->
  match_field name cls k (name ++ 58 :: w ++ v ++ rest) = Some (v, a).
Proof.
  intros W NE V OK ST K. rewrite match_field_unfold by assumption.
  assert (S : span cls rest = ([], rest)).
  { destruct rest as [|c r]; [reflexivity|]. cbn [stops] in ST. cbn [span]. rewrite ST. reflexivity. }
  rewrite S. cbn [fst snd]. rewrite app_nil_r. apply try_ends_first; assumption.
Qed.

Definition proper_suffix (q n : text) : Prop := exists p, p <> [] /\ n = p ++ q.

(** the value is followed by separator whitespace [s] (possibly none) and then the next field name [nxt] and its
    colon; every continuation started inside the name fails. *)
Lemma field_step {A} name cls (k : text -> option A) w v s nxt tail a :
  forallb is_space w = true -> v <> [] -> forallb cls v = true -> cls_ok cls -> cls 58 = false ->
  forallb is_space s = true ->
  k (s ++ nxt ++ 58 :: tail) = Some a ->
  (forall q, proper_suffix q nxt -> k (q ++ 58 :: tail) = None) ->
  match_field name cls k (name ++ 58 :: w ++ v ++ s ++ nxt ++ 58 :: tail) = Some (v, a).
Proof.
  intros W NE V OK C58 S K F.
  destruct s as [|c s].
  - cbn [app] in *. rewrite match_field_unfold by assumption.
    destruct (span_before cls nxt 58 tail C58) as [r [q [E SP]]]. rewrite SP. cbn [fst snd].
    rewrite rev_app_distr. rewrite try_ends_app.
    + rewrite rev_involutive, app_assoc, <- E. apply try_ends_first; assumption.
    + intros p q' E' NEp. rewrite rev_involutive in E'. rewrite app_assoc. apply F.
      exists p. split; [exact NEp|]. rewrite E, E', app_assoc. reflexivity.
  - cbn [forallb] in S. apply andb_true_iff in S. destruct S as [Sc Ss].
    apply match_field_ok; try assumption.
    cbn [app stops]. destruct (cls c) eqn:E; [|reflexivity]. apply OK in E. congruence.
Qed.

(** * a name does not match inside another one *)
Lemma strip_prefix_mismatch nm : forall q stuff,
  ~ In 58 nm -> ~ In 58 q -> q <> nm -> strip_prefix (nm ++ [58]) (q ++ 58 :: stuff) = None.
Proof.
  induction nm as [|a nm IH]; intros q stuff N1 N2 NE.
  - destruct q as [|c q]; [contradiction|]. cbn [app strip_prefix].
    destruct (58 =? c) eqn:E; [|reflexivity]. apply N.eqb_eq in E. exfalso. apply N2. left. auto.
  - destruct q as [|c q]; cbn [app strip_prefix].
    + destruct (a =? 58) eqn:E; [|reflexivity]. apply N.eqb_eq in E. exfalso. apply N1. left. exact E.
    + destruct (a =? c) eqn:E; [|reflexivity]. apply N.eqb_eq in E. subst c. apply IH.
      * intro I. apply N1. right. exact I.
      * intro I. apply N2. right. exact I.
      * intro E. apply NE. f_equal. exact E.
Qed.

Lemma AZ_not_space c : is_AZ c = true -> is_space c = false.
Proof. intro U. apply negb_true_iff. refine (sweep_impl is_AZ (fun c => negb (is_space c)) 128 _ c (is_AZ_lt c U) U). vm_compute. reflexivity. Qed.
Lemma AZ_not_colon c : is_AZ c = true -> c <> 58.
Proof. unfold is_AZ. lia. Qed.
Lemma AZ_no_colon n : forallb is_AZ n = true -> ~ In 58 n.
Proof. intros H I. rewrite forallb_forall in H. apply H in I. unfold is_AZ in I. lia. Qed.

Lemma proper_suffix_AZ q n : proper_suffix q n -> forallb is_AZ n = true -> forallb is_AZ q = true.
Proof. intros [p [_ E]] H. subst n. rewrite forallb_app in H. apply andb_true_iff in H. tauto. Qed.
Lemma proper_suffix_length q n : proper_suffix q n -> (List.length q < List.length n)%nat.
Proof. intros [p [NE E]]. subst n. rewrite app_length. destruct p; [contradiction|]. cbn [List.length]. lia. Qed.

Lemma skipws_name q tail : forallb is_AZ q = true -> skipws (q ++ 58 :: tail) = q ++ 58 :: tail.
Proof.
  destruct q as [|c q]; intro H.
  - cbn [app]. apply skipws_stop. vm_compute. reflexivity.
  - cbn [forallb] in H. apply andb_true_iff in H. cbn [app]. apply skipws_stop, AZ_not_space. tauto.
Qed.

(** a field match attempted on (a suffix of) a different name fails *)
Lemma match_field_wrong_name {A} nm cls (k : text -> option A) q tail :
  forallb is_AZ nm = true -> forallb is_AZ q = true -> q <> nm ->
  match_field nm cls k (q ++ 58 :: tail) = None.
Proof.
  intros N Q NE. unfold match_field. rewrite strip_prefix_mismatch; try reflexivity; try assumption; apply AZ_no_colon; assumption.
Qed.

Lemma search_hit {A} (m : text -> option A) s r : m s = Some r -> search m s = Some r.
Proof. intro H. destruct s; cbn [search]; rewrite H; reflexivity. Qed.
