(** DateTimeM, part 4 (rejections): what an accepted text must look like ([match_dt_shape], [match_hms_shape]) and the
    listed corruptions -- month 00/13.., day 00/32.., hour 24.., minute 60.., second 61.., a non-digit in a digit position,
    wrong length -- are rejected, for every text; whatever the tables. *)
From OfxV Require Import Base.Prelude Base.Digits Model.Calendar Model.DateTimeM Proofs.DateTimeMDigits.
From Coq Require Import ZifyBool ZifyN ZifyNat.
Local Open Scope N_scope.
Ltac Zify.zify_post_hook ::= Z.to_euclidean_division_equations.

(** ---- [$]: at most one trailing newline is dropped ---- *)
Lemma strip_nl_spec s :
  strip_nl s = match rev s with c :: r => if c =? 10 then rev r else s | [] => s end.
Proof.
  unfold strip_nl. destruct (rev s) as [|c r]; [reflexivity|].
  destruct c as [|p]; [reflexivity|]. do 4 (destruct p as [p|p|]; try reflexivity).
Qed.
Lemma strip_nl_cases s : strip_nl s = s \/ s = (strip_nl s ++ [10])%list.
Proof.
  rewrite strip_nl_spec. destruct (rev s) as [|c r] eqn:E; [left; reflexivity|].
  destruct (N.eqb_spec c 10) as [->|]; [right|left; reflexivity].
  rewrite <- (rev_involutive s), E. reflexivity.
Qed.
Lemma strip_nl_app a rest : no_nl a -> strip_nl (a ++ rest) = (a ++ strip_nl rest)%list.
Proof.
  intro NA. rewrite !strip_nl_spec, rev_app_distr. destruct (rev rest) as [|c r] eqn:E.
  - assert (rest = []) as -> by (rewrite <- (rev_involutive rest), E; reflexivity).
    cbn [app]. rewrite app_nil_r. destruct (rev a) as [|c r] eqn:EA; [reflexivity|].
    destruct (N.eqb_spec c 10) as [->|]; [|reflexivity]. exfalso.
    assert (S : a = (rev r ++ [10])%list) by (rewrite <- (rev_involutive a), EA; reflexivity).
    unfold no_nl in NA. rewrite S, existsb_app in NA. cbn in NA. rewrite orb_true_r in NA. discriminate.
  - cbn [app]. destruct (c =? 10); [|reflexivity]. rewrite rev_app_distr, rev_involutive. reflexivity.
Qed.

(** ---- the shape of accepted texts ---- *)
Lemma match_ms_shape r ms r' : match_ms r = (ms, r') ->
  (ms = None /\ r' = r /\ match r with 46 :: x => take3 x = None | _ => True end)
  \/ (exists m, ms = Some m /\ m < 1000 /\ r = (46 :: d3 m ++ r')%list).
Proof.
  unfold match_ms. destruct r as [|c x]; [intro E; injection E as <- <-; left; auto|].
  destruct (N.eqb_spec c 46) as [->|NE].
  - destruct (take3 x) as [[m x']|] eqn:T3.
    + intro E. injection E as <- <-. right. exists m. apply take3_inv in T3 as [-> L]. auto.
    + intro E. injection E as <- <-. left. auto.
  - intro E. assert (E' : (None, c :: x) = (ms, r')).
    { revert E. destruct c as [|p]; [auto|]. do 6 (destruct p as [p|p|]; auto). exfalso; apply NE; reflexivity. }
    injection E' as <- <-. left. split; [reflexivity|]. split; [reflexivity|].
    destruct c as [|p]; [exact I|]. do 6 (destruct p as [p|p|]; try exact I). exfalso; apply NE; reflexivity.
Qed.
Lemma match_bracket_shape zeros r br : match_bracket zeros r = Some br ->
  (r = [] /\ br = None)
  \/ (exists inner g, r = (91 :: inner ++ [93])%list /\ br = Some g /\ no_nl inner /\ match_inner zeros inner = Some g).
Proof.
  unfold match_bracket. destruct r as [|c body]; [intro E; injection E as <-; left; auto|].
  destruct (N.eqb_spec c 91) as [->|NE].
  - destruct (rev body) as [|e irev] eqn:ER; [discriminate|].
    destruct (N.eqb_spec e 93) as [->|NE2].
    + destruct (existsb (N.eqb 10) (rev irev)) eqn:NL; [discriminate|].
      destruct (match_inner zeros (rev irev)) as [g|] eqn:MI; [|discriminate].
      intro E. injection E as <-. right. exists (rev irev), g. repeat split; try assumption.
      rewrite <- (rev_involutive body), ER. reflexivity.
    + intro E. exfalso. revert E. destruct e as [|p]; [discriminate|]. do 7 (destruct p as [p|p|]; try discriminate).
      exfalso; apply NE2; reflexivity.
  - intro E. exfalso. revert E. destruct c as [|p]; [discriminate|]. do 7 (destruct p as [p|p|]; try discriminate).
    exfalso; apply NE; reflexivity.
Qed.
Lemma match_hms_shape zeros s h mi sec ms br : match_hms zeros s = Some (h, mi, sec, ms, br) ->
  exists r r', s = (d2 h ++ d2 mi ++ d2 sec ++ r)%list /\ h <= 23 /\ mi <= 59 /\ sec <= 60
    /\ match_ms r = (ms, r') /\ match_bracket zeros r' = Some br.
Proof.
  unfold match_hms.
  destruct (take2 s) as [[h0 r0]|] eqn:T1; [|discriminate]. destruct (h0 <=? 23) eqn:E1; [|discriminate].
  destruct (take2 r0) as [[mi0 r1]|] eqn:T2; [|discriminate]. destruct (mi0 <=? 59) eqn:E2; [|discriminate].
  destruct (take2 r1) as [[s0 r2]|] eqn:T3; [|discriminate]. destruct (s0 <=? 60) eqn:E3; [|discriminate].
  destruct (match_ms r2) as [ms0 r3] eqn:MM. destruct (match_bracket zeros r3) as [br0|] eqn:MB; [|discriminate].
  intro E. injection E as <- <- <- <- <-.
  apply take2_inv in T1 as [-> _]. apply take2_inv in T2 as [-> _]. apply take2_inv in T3 as [-> _].
  exists r2, r3. repeat split; try assumption; lia.
Qed.
Lemma match_dt_shape zeros s g : match_dt zeros s = Some g ->
  exists r, s = (d4 (g_y g) ++ d2 (g_mo g) ++ d2 (g_d g) ++ r)%list
    /\ g_y g < 10000 /\ 1 <= g_mo g <= 12 /\ 1 <= g_d g <= 31
    /\ match g_time g with
       | None => r = [] /\ g_ms g = None /\ g_br g = None
       | Some (h, mi, sec) => r <> [] /\ match_hms zeros r = Some (h, mi, sec, g_ms g, g_br g)
       end.
Proof.
  unfold match_dt.
  destruct (take4 s) as [[y r0]|] eqn:T1; [|discriminate].
  destruct (take2 r0) as [[mo r1]|] eqn:T2; [|discriminate]. destruct ((1 <=? mo) && (mo <=? 12)) eqn:E1; [|discriminate].
  destruct (take2 r1) as [[d r2]|] eqn:T3; [|discriminate]. destruct ((1 <=? d) && (d <=? 31)) eqn:E2; [|discriminate].
  apply take4_inv in T1 as [-> Y]. apply take2_inv in T2 as [-> _]. apply take2_inv in T3 as [-> _].
  destruct r2 as [|c r2].
  - intro E. injection E as <-. cbn [g_y g_mo g_d g_time g_ms g_br]. exists []. repeat split; try lia.
  - destruct (match_hms zeros (c :: r2)) as [[[[[h mi] sec] ms] br]|] eqn:MH; [|discriminate].
    intro E. injection E as <-. cbn [g_y g_mo g_d g_time g_ms g_br]. exists (c :: r2).
    repeat split; try lia; try assumption. discriminate.
Qed.

(** ---- the listed single-field corruptions ---- *)
Section Any.
Variable zeros : list N.
Variable tzs : list (text * Z).

Lemma dt_convert_nomatch s : match_dt zeros (strip_nl s) = None -> dt_convert zeros tzs s = Err Reject.
Proof. intro H. unfold dt_convert, dt_convert_gen. rewrite H. reflexivity. Qed.
Lemma tm_convert_nomatch s : match_hms zeros (strip_nl s) = None -> tm_convert zeros tzs s = Err Reject.
Proof. intro H. unfold tm_convert, tm_convert_gen, match_time. rewrite H. reflexivity. Qed.

Theorem dt_rejects_month_l y mo rest : y < 10000 -> mo < 100 -> (mo = 0 \/ 12 < mo) ->
  dt_convert zeros tzs (d4 y ++ d2 mo ++ rest) = Err Reject.
Proof.
  intros Y M C. apply dt_convert_nomatch. rewrite app_assoc, strip_nl_app by (apply no_nl_app; [apply no_nl_d4|apply no_nl_d2]).
  rewrite <- app_assoc. unfold match_dt. rewrite take4_d4, take2_d2 by lia.
  destruct ((1 <=? mo) && (mo <=? 12)) eqn:E; [lia|reflexivity].
Qed.
Theorem dt_rejects_day_l y mo d rest : y < 10000 -> 1 <= mo <= 12 -> d < 100 -> (d = 0 \/ 31 < d) ->
  dt_convert zeros tzs (d4 y ++ d2 mo ++ d2 d ++ rest) = Err Reject.
Proof.
  intros Y M D C. apply dt_convert_nomatch.
  rewrite 2 app_assoc, strip_nl_app by (repeat apply no_nl_app; [apply no_nl_d4|apply no_nl_d2|apply no_nl_d2]).
  rewrite <- !app_assoc. unfold match_dt. rewrite take4_d4, take2_d2 by lia.
  destruct ((1 <=? mo) && (mo <=? 12)) eqn:E; [|lia]. rewrite take2_d2 by lia.
  destruct ((1 <=? d) && (d <=? 31)) eqn:E2; [lia|reflexivity].
Qed.
(** hour 24.., minute 60.., second 61..: in a time text and after any date *)
Lemma hms_rejects h mi sec rest : h < 100 -> mi < 100 -> sec < 100 -> (23 < h \/ 59 < mi \/ 60 < sec) ->
  match_hms zeros (d2 h ++ d2 mi ++ d2 sec ++ rest) = None.
Proof.
  intros H M S C. unfold match_hms. rewrite take2_d2 by lia. destruct (h <=? 23) eqn:E1; [|reflexivity].
  rewrite take2_d2 by lia. destruct (mi <=? 59) eqn:E2; [|reflexivity].
  rewrite take2_d2 by lia. destruct (sec <=? 60) eqn:E3; [lia|reflexivity].
Qed.
Theorem tm_rejects_field_l h mi sec rest : h < 100 -> mi < 100 -> sec < 100 -> (23 < h \/ 59 < mi \/ 60 < sec) ->
  tm_convert zeros tzs (d2 h ++ d2 mi ++ d2 sec ++ rest) = Err Reject.
Proof.
  intros H M S C. apply tm_convert_nomatch.
  rewrite 2 app_assoc, strip_nl_app by (repeat apply no_nl_app; apply no_nl_d2). rewrite <- !app_assoc.
  apply hms_rejects; assumption.
Qed.
Theorem dt_rejects_field_l y mo d h mi sec rest : y < 10000 -> 1 <= mo <= 12 -> 1 <= d <= 31 ->
  h < 100 -> mi < 100 -> sec < 100 -> (23 < h \/ 59 < mi \/ 60 < sec) ->
  dt_convert zeros tzs (d4 y ++ d2 mo ++ d2 d ++ d2 h ++ d2 mi ++ d2 sec ++ rest) = Err Reject.
Proof.
  intros Y MO D H M S C. apply dt_convert_nomatch.
  rewrite 5 app_assoc, strip_nl_app by (repeat apply no_nl_app; try apply no_nl_d4; apply no_nl_d2). rewrite <- !app_assoc.
  unfold match_dt. rewrite take4_d4, take2_d2 by lia.
  destruct ((1 <=? mo) && (mo <=? 12)) eqn:E; [|lia]. rewrite take2_d2 by lia.
  destruct ((1 <=? d) && (d <=? 31)) eqn:E2; [|lia].
  rewrite hms_rejects by assumption. unfold d2. cbn [app]. reflexivity.
Qed.

(** ---- digit positions and lengths ---- *)
Lemma forallb_digit_d2 n : n < 100 -> forallb is_digit (d2 n) = true.
Proof. intro H. unfold d2. cbn [forallb]. rewrite !is_digit_off by lia. reflexivity. Qed.
Lemma forallb_digit_d4 n : n < 10000 -> forallb is_digit (d4 n) = true.
Proof. intro H. unfold d4. cbn [forallb]. rewrite !is_digit_off by lia. reflexivity. Qed.

(** an accepted (newline-stripped) date-time text: 8 digits and nothing else, or 14 digits followed by nothing,
    a dot or an opening bracket *)
Lemma match_dt_digits s g : match_dt zeros s = Some g ->
  (List.length s = 8%nat /\ forallb is_digit s = true)
  \/ (exists p r, s = (p ++ r)%list /\ List.length p = 14%nat /\ forallb is_digit p = true
                  /\ match r with [] => True | c :: _ => c = 46 \/ c = 91 end).
Proof.
  intro M. destruct (match_dt_shape zeros s g M) as (r & -> & Y & MO & D & T).
  destruct (g_time g) as [[[h mi] sec]|].
  - right. destruct T as [_ MH]. destruct (match_hms_shape _ _ _ _ _ _ _ MH) as (r1 & r2 & -> & H & MI & S & MM & MB).
    exists (d4 (g_y g) ++ d2 (g_mo g) ++ d2 (g_d g) ++ d2 h ++ d2 mi ++ d2 sec)%list, r1.
    split; [rewrite <- !app_assoc; reflexivity|]. split; [reflexivity|]. split.
    + rewrite !forallb_app, forallb_digit_d4, !forallb_digit_d2 by lia. reflexivity.
    + destruct (match_ms_shape _ _ _ MM) as [(_ & E2 & _)|(m & _ & _ & E2)]; [|rewrite E2; left; reflexivity]. subst r2.
      destruct (match_bracket_shape _ _ _ MB) as [(E3 & _)|(inner & g0 & E3 & _)]; rewrite E3; [exact I|right; reflexivity].
  - left. destruct T as (-> & _). rewrite app_nil_r. split; [reflexivity|].
    rewrite !forallb_app, forallb_digit_d4, !forallb_digit_d2 by lia. reflexivity.
Qed.

Theorem dt_rejects_wrong_length_l s : forallb is_digit s = true ->
  List.length s <> 8%nat -> List.length s <> 14%nat -> dt_convert zeros tzs s = Err Reject.
Proof.
  intros D L8 L14. apply dt_convert_nomatch. rewrite (strip_nl_no_nl s (no_nl_digits s D)).
  destruct (match_dt zeros s) as [g|] eqn:M; [exfalso|reflexivity].
  destruct (match_dt_digits s g M) as [(L & _)|(p & r & -> & LP & _ & R)]; [auto|].
  destruct r as [|c r]; [rewrite app_nil_r in L14; auto|].
  rewrite forallb_app in D. apply andb_true_iff in D as [_ D]. cbn [forallb] in D. apply andb_true_iff in D as [D _].
  apply is_digit_iff in D. lia.
Qed.

(** a character that is not an ASCII digit among the first 8 (date) or, when a time part follows, the first 14 *)
Theorem dt_rejects_letter_l a c b : is_digit c = false ->
  (List.length a < 8)%nat \/ ((List.length a < 14)%nat /\ (9 < List.length (a ++ c :: b))%nat) ->
  dt_convert zeros tzs (a ++ c :: b) = Err Reject.
Proof.
  intros NC K. apply dt_convert_nomatch.
  destruct (match_dt zeros (strip_nl (a ++ c :: b))) as [g|] eqn:M; [exfalso|reflexivity].
  set (s := (a ++ c :: b)%list) in *. set (s' := strip_nl s) in *.
  assert (NTH : forall p r, s' = (p ++ r)%list -> (List.length a < List.length p)%nat -> forallb is_digit p = true -> False).
  { intros p r E LP DP.
    assert (S : exists tl, s = (p ++ tl)%list).
    { destruct (strip_nl_cases s) as [E0|E0]; fold s' in E0.
      - exists r. rewrite <- E0. exact E.
      - exists (r ++ [10])%list. rewrite E0, E, <- app_assoc. reflexivity. }
    destruct S as [tl S]. unfold s in S.
    assert (IN : In c p).
    { assert (N1 : nth_error (a ++ c :: b) (List.length a) = Some c).
      { rewrite nth_error_app2 by lia. rewrite Nat.sub_diag. reflexivity. }
      rewrite S, nth_error_app1 in N1 by lia. eapply nth_error_In; eassumption. }
    rewrite forallb_forall in DP. rewrite (DP c IN) in NC. discriminate. }
  destruct (match_dt_digits s' g M) as [(L & D)|(p & r & E & LP & DP & _)].
  - destruct K as [K|[K1 K2]].
    + apply (NTH s' []); [rewrite app_nil_r; reflexivity|lia|exact D].
    + destruct (strip_nl_cases s) as [E0|E0]; fold s' in E0.
      * rewrite <- E0 in K2. lia.
      * rewrite E0, app_length in K2. cbn in K2. lia.
  - apply (NTH p r E); [|exact DP]. destruct K as [K|[K _]]; lia.
Qed.
End Any.
