(** Lemmas about read_config and merge_config (Model/OfxgetCfg.v, C18): what the typed read of a section
    holds for each option, and the exact list of maps merge_config returns. *)
From OfxV Require Import Base.Prelude Base.Digits Base.OfxgetBase Gen.OfxgetGen Model.OfxgetCfg.
From OfxV Require Export Proofs.OfxgetBaseFacts.
From Coq Require Import Lia.
Local Open Scope N_scope.

(** the first source that sets something *)
Fixpoint first_of {A} (l : list (option A)) : option A :=
  match l with
  | [] => None
  | Some v :: _ => Some v
  | None :: r => first_of r
  end.

Lemma args_get_first (a : args) k : args_get a k = first_of (map (assoc k) a).
Proof. induction a as [|m a IH]; [reflexivity|]. cbn [args_get map first_of]. destruct (assoc k m); [reflexivity | exact IH]. Qed.

(* ------------------------------------------------------------------ read_config *)
Lemma read_opts_spec c s : forall opts m,
  read_opts c s opts = OK m ->
  forall o,
    match assoc o og_configurable with
    | Some ty => if mem_text o opts
                 then exists raw v, cfg_get c s o = Some raw /\ typed ty raw = OK v /\ assoc o m = Some v
                 else assoc o m = None
    | None => assoc o m = None
    end.
Proof.
  induction opts as [|p opts IH]; intros m H o; cbn [read_opts] in H.
  - apply OK_inj in H. subst m. destruct (assoc o og_configurable); reflexivity.
  - destruct (assoc p og_configurable) as [typ|] eqn:Ep.
    + destruct (cfg_get c s p) as [rawp|] eqn:Eg; [|discriminate].
      apply bind_ok in H. destruct H as (vp & Hvp & H). apply bind_ok in H. destruct H as (m' & Hm' & H).
      apply OK_inj in H. subst m. specialize (IH _ Hm' o).
      destruct (assoc o og_configurable) as [ty|] eqn:Eo.
      * cbn [mem_text existsb assoc]. destruct (text_eqb o p) eqn:Eop.
        { apply text_eqb_eq in Eop. subst p. cbn [orb]. rewrite Ep in Eo. injection Eo as <-. eauto. }
        { cbn [orb]. exact IH. }
      * cbn [assoc]. destruct (text_eqb o p) eqn:Eop; [|exact IH].
        apply text_eqb_eq in Eop. subst p. congruence.
    + specialize (IH _ H o). destruct (assoc o og_configurable) as [ty|] eqn:Eo; [|exact IH].
      cbn [mem_text existsb]. destruct (text_eqb o p) eqn:Eop; [|exact IH].
      apply text_eqb_eq in Eop. subst p. congruence.
Qed.

Lemma mem_text_In k l : mem_text k l = true <-> In k l.
Proof.
  unfold mem_text. rewrite existsb_exists. split.
  - intros (x & Hx & E). apply text_eqb_eq in E. subst. exact Hx.
  - intro H. exists k. split; [exact H | apply text_eqb_refl].
Qed.

Lemma options_mem c s opts o :
  options c s = OK opts -> mem_text o opts = match cfg_get c s o with Some _ => true | None => false end.
Proof.
  unfold options, cfg_get. destruct (assoc s (c_sections c)) as [d|] eqn:Es.
  - intro H. apply OK_inj in H. subst opts.
    destruct (assoc o d) as [v|] eqn:Ed.
    + apply mem_text_In. apply in_or_app. left. apply has_key_keys. unfold has_key. rewrite Ed. reflexivity.
    + destruct (assoc o (c_defaults c)) as [v|] eqn:Edf.
      * apply mem_text_In. apply in_or_app. right. apply filter_In. split.
        { apply has_key_keys. unfold has_key. rewrite Edf. reflexivity. }
        { unfold has_key. rewrite Ed. reflexivity. }
      * destruct (mem_text o _) eqn:Em; [|reflexivity]. apply mem_text_In in Em. apply in_app_or in Em. destruct Em as [Em|Em].
        { apply has_key_keys in Em. unfold has_key in Em. rewrite Ed in Em. discriminate. }
        { apply filter_In in Em. destruct Em as [Em _]. apply has_key_keys in Em. unfold has_key in Em. rewrite Edf in Em. discriminate. }
  - destruct (text_eqb s DEFAULTSECT); [|discriminate]. intro H. apply OK_inj in H. subst opts.
    destruct (assoc o (c_defaults c)) as [v|] eqn:Edf.
    + apply mem_text_In. apply has_key_keys. unfold has_key. rewrite Edf. reflexivity.
    + destruct (mem_text o _) eqn:Em; [|reflexivity]. apply mem_text_In in Em. apply has_key_keys in Em.
      unfold has_key in Em. rewrite Edf in Em. discriminate.
Qed.

(** what read_config(cfg, section) holds for option [o]: the typed value of the raw text the parser finds for it
    (the section's own entry, else the [DEFAULT] entry), for CONFIGURABLE options only *)
Lemma read_config_lookup c s m o :
  read_config c s = OK m ->
  if cfg_has c s then
    match assoc o og_configurable, cfg_get c s o with
    | Some ty, Some raw => exists v, typed ty raw = OK v /\ assoc o m = Some v
    | _, _ => assoc o m = None
    end
  else m = [].
Proof.
  unfold read_config. destruct (cfg_has c s); cbn [negb]; intro H.
  - apply bind_ok in H. destruct H as (opts & Hopts & H).
    pose proof (read_opts_spec _ _ _ _ H o) as Hs. rewrite (options_mem _ _ _ o Hopts) in Hs.
    destruct (assoc o og_configurable) as [ty|]; [|exact Hs].
    destruct (cfg_get c s o) as [raw|].
    + destruct Hs as (raw' & v & E & Ht & Ha). injection E as <-. eauto.
    + exact Hs.
  - apply OK_inj in H. auto.
Qed.

(* ------------------------------------------------------------------ merge_config *)
(** read_config of the nickname's section; no nickname: {} *)
Definition user_layer (cli : amap) (c : cfg) : result amap :=
  match assoc (T "server") cli with
  | Some (PStr s) => read_config c s
  | Some _ => Err Crash
  | None => OK []
  end.

(** the OFX Home map, present exactly when an id is in effect and the lookup answers *)
Definition oh_layer (lookup : text -> option ohrec) (base : args) : list amap :=
  match args_get base (T "ofxhome") with
  | Some (PStr s) => if py_truthy (PStr s) then match lookup s with Some r => [ofxhome_map r] | None => [] end else []
  | _ => []
  end.

(** facts about the generated DEFAULTS the proofs use *)
Definition defaults_facts : bool :=
  pyval_eqb (get_or [og_defaults] (T "ofxhome") PNone) (PStr [])
  && has_key (T "url") og_defaults && has_key (T "ofxhome") og_defaults.
Lemma defaults_facts_true : defaults_facts = true.
Proof. vm_compute. reflexivity. Qed.
Lemma default_ofxhome : assoc (T "ofxhome") og_defaults = Some (PStr []).
Proof. vm_compute. reflexivity. Qed.

(** the sloppy command line: a URL where the nickname goes *)
Definition url_as_server (cli : amap) (s : text) : amap := dset (T "server") PNone (dset (T "url") (PStr s) cli).

Lemma merge_from_ofxhome_shape lookup cli ucfg a :
  merge_from_ofxhome lookup [cli; ucfg; og_defaults] = OK a ->
  a = cli :: ucfg :: oh_layer lookup [cli; ucfg; og_defaults] ++ [og_defaults].
Proof.
  unfold merge_from_ofxhome, oh_layer. destruct (args_get [cli; ucfg; og_defaults] (T "ofxhome")) as [id|]; [|discriminate].
  destruct (py_truthy id) eqn:Et.
  - destruct id as [|s| | |]; try discriminate. rewrite Et. destruct (lookup s); intro H; apply OK_inj in H; subst a; reflexivity.
  - intro H. apply OK_inj in H. subst a. destruct id as [|s| | |]; try reflexivity. rewrite Et. reflexivity.
Qed.

Lemma oh_layer_unconsulted lookup cli ucfg :
  has_key (T "ofxhome") cli = false -> has_key (T "ofxhome") ucfg = false ->
  oh_layer lookup [cli; ucfg; og_defaults] = [].
Proof.
  unfold has_key, oh_layer. cbn [args_get].
  destruct (assoc (T "ofxhome") cli); [discriminate|]. destruct (assoc (T "ofxhome") ucfg); [discriminate|]. intros _ _.
  rewrite default_ofxhome. reflexivity.
Qed.

(** the list of maps merge_config returns *)
Lemma merge_config_shape lookup cli c a :
  merge_config lookup cli c = OK a ->
  exists ucfg, user_layer cli c = OK ucfg /\
    let chain := cli :: ucfg :: oh_layer lookup [cli; ucfg; og_defaults] ++ [og_defaults] in
    a = chain
    \/ (exists s, assoc (T "server") cli = Some (PStr s) /\ has_scheme s = true /\
                  py_truthy (get_or chain (T "url") PNone) = false /\
                  py_truthy (get_or chain (T "dryrun") (PBool false)) = false /\
                  a = url_as_server cli s :: ucfg :: oh_layer lookup [cli; ucfg; og_defaults] ++ [og_defaults]).
Proof.
  unfold merge_config. intro H. apply bind_ok in H. destruct H as (ucfg & Hu & H).
  exists ucfg. split; [exact Hu|].
  destruct (args_get [cli; ucfg; og_defaults] (T "url")) as [url|] eqn:Eurl; [|discriminate].
  apply bind_ok in H. destruct H as (merged & Hm & H).
  assert (Em : merged = cli :: ucfg :: oh_layer lookup [cli; ucfg; og_defaults] ++ [og_defaults]).
  { destruct (has_key (T "ofxhome") cli) eqn:E1; cbn [orb] in Hm; [apply merge_from_ofxhome_shape; exact Hm|].
    destruct (has_key (T "ofxhome") ucfg) eqn:E2; cbn [orb] in Hm; [apply merge_from_ofxhome_shape; exact Hm|].
    destruct (negb (py_truthy url)); [apply merge_from_ofxhome_shape; exact Hm|].
    apply OK_inj in Hm. subst merged. rewrite oh_layer_unconsulted by assumption. reflexivity. }
  subst merged. cbv zeta.
  set (chain := cli :: ucfg :: oh_layer lookup [cli; ucfg; og_defaults] ++ [og_defaults]) in *.
  destruct (py_truthy (get_or chain (T "url") PNone)) eqn:Tu; cbn [orb] in H; [left; apply OK_inj in H; auto|].
  destruct (py_truthy (get_or chain (T "dryrun") (PBool false))) eqn:Td; cbn [orb] in H; [left; apply OK_inj in H; auto|].
  destruct (py_eq (get_or chain (T "request") PNone) (PStr (T "list"))); [left; apply OK_inj in H; auto|].
  right. destruct (assoc (T "server") cli) as [[|s| | |]|] eqn:Es; try discriminate.
  destruct (has_scheme s) eqn:Hs; [|discriminate].
  exists s. repeat split; auto. unfold chain in H. cbn [app] in H. apply OK_inj in H. subst a. reflexivity.
Qed.

(** lookups in the returned maps *)
Lemma chain_lookup (cli ucfg : amap) (ohl : list amap) o :
  args_get (cli :: ucfg :: ohl ++ [og_defaults]) o =
  first_of [assoc o cli; assoc o ucfg; first_of (map (assoc o) ohl); assoc o og_defaults].
Proof.
  rewrite args_get_first. cbn [map first_of]. destruct (assoc o cli); [reflexivity|]. destruct (assoc o ucfg); [reflexivity|].
  rewrite map_app. induction ohl as [|m ohl IH]; cbn [map app first_of].
  - destruct (assoc o og_defaults); reflexivity.
  - destruct (assoc o m); [reflexivity | exact IH].
Qed.

Lemma effective_is_first_setter_l lookup cli c a :
  merge_config lookup cli c = OK a ->
  exists ucfg, user_layer cli c = OK ucfg /\
    let ohl := oh_layer lookup [cli; ucfg; og_defaults] in
    let chain o := first_of [assoc o cli; assoc o ucfg; first_of (map (assoc o) ohl); assoc o og_defaults] in
    (forall o, args_get a o = chain o)
    \/ (exists s, assoc (T "server") cli = Some (PStr s) /\ has_scheme s = true /\
                  py_truthy (match chain (T "url") with Some v => v | None => PNone end) = false /\
                  forall o, args_get a o =
                            if text_eqb o (T "server") then Some PNone
                            else if text_eqb o (T "url") then Some (PStr s) else chain o).
Proof.
  intro H. destruct (merge_config_shape _ _ _ _ H) as (ucfg & Hu & Hs). exists ucfg. split; [exact Hu|].
  cbv zeta in *. destruct Hs as [->|(s & Es & Hsch & Tu & Td & ->)].
  - left. intro o. apply chain_lookup.
  - right. exists s. repeat split; auto.
    + unfold get_or in Tu. rewrite chain_lookup in Tu. exact Tu.
    + intro o. rewrite chain_lookup. cbn [first_of]. unfold url_as_server. rewrite !assoc_dset.
      destruct (text_eqb o (T "server")); [reflexivity|]. destruct (text_eqb o (T "url")); reflexivity.
Qed.
