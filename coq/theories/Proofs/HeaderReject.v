(** Header texts made of arbitrary "NAME:value" lines (render1): if OFXHeaderV1.parse accepts one, the nine (or,
    without COMPRESSION, eight) names occur in it in the canonical order as consecutive lines, and the values the
    pattern constrains are runs of its classes.  Hence a mandatory field missing, two fields transposed, or a
    non-numeric VERSION are refused (C12 missing_or_transposed_field_rejected, non_numeric_version_rejected).
    The argument follows the colons: values and separators hold none, so the k-th colon of the match is the k-th
    colon of the text from where the match starts, and the name before it is determined. *)
From OfxV Require Import Base.Prelude Base.Digits Gen.HeaderGen Model.Header Model.HeaderLayout
  Proofs.HeaderChars Proofs.HeaderMatch Proofs.HeaderV1 Proofs.HeaderInit Proofs.HeaderV2 Proofs.HeaderSound.
From Coq Require Import ZifyBool ZifyN ZifyNat.
Local Open Scope N_scope.

(** * lists *)
Lemma first_colon_unique (a : text) : forall a' b b',
  a ++ 58 :: b = a' ++ 58 :: b' -> ~ In 58 a -> ~ In 58 a' -> a = a' /\ b = b'.
Proof.
  induction a as [|c a IH]; intros [|c' a'] b b' E N1 N2; cbn [app] in E.
  - injection E as E. split; [reflexivity|exact E].
  - injection E as E1 E2. exfalso. apply N2. left. congruence.
  - injection E as E1 E2. exfalso. apply N1. left. congruence.
  - injection E as E1 E2. subst c'. destruct (IH a' b b' E2) as [Ea Eb].
    + intro I. apply N1. right. exact I.
    + intro I. apply N2. right. exact I.
    + split; [f_equal; exact Ea|exact Eb].
Qed.
Lemma split_first_colon (s : text) : ~ In 58 s \/ exists p1 p2, s = p1 ++ 58 :: p2 /\ ~ In 58 p1.
Proof.
  induction s as [|c s [IH|[p1 [p2 [E N]]]]].
  - left. intros [].
  - destruct (N.eq_dec c 58) as [C|C].
    + right. exists [], s. split; [subst c; reflexivity|intros []].
    + left. intros [I|I]; [congruence|exact (IH I)].
  - destruct (N.eq_dec c 58) as [C|C].
    + right. exists [], s. split; [subst c; reflexivity|intros []].
    + right. exists (c :: p1), p2. split; [cbn [app]; f_equal; exact E|]. intros [I|I]; [congruence|exact (N I)].
Qed.
Lemma not_in_app {A} (x : A) a b : ~ In x (a ++ b) <-> ~ In x a /\ ~ In x b.
Proof. rewrite in_app_iff. tauto. Qed.

(** a name after a line feed: the all-capitals text before the colon lies within the name *)
Lemma name_suffix a n b NAME : a ++ 10 :: n = b ++ NAME -> forallb is_AZ NAME = true -> exists l, n = l ++ NAME.
Proof.
  intros E A. destruct (app_eq_app _ _ _ _ E) as [l [[E1 E2]|[E1 E2]]].
  - (* NAME = l ++ 10 :: n: a line feed inside NAME *)
    exfalso. rewrite E2 in A. rewrite forallb_app in A. apply andb_true_iff in A. destruct A as [_ A]. cbn in A. discriminate A.
  - destruct l as [|c l]; cbn [app] in E2.
    + exfalso. rewrite <- E2 in A. cbn in A. discriminate A.
    + injection E2 as _ E2. exists l. exact E2.
Qed.
Fixpoint is_suffix (m n : text) : bool := text_eqb m n || match n with [] => false | _ :: r => is_suffix m r end.
Lemma is_suffix_app l m : is_suffix m (l ++ m) = true.
Proof. induction l as [|c l IH]; cbn [app is_suffix]. - destruct m; cbn [is_suffix]; rewrite (proj2 (text_eqb_eq _ _) eq_refl); reflexivity. - rewrite IH. apply orb_true_r. Qed.
Lemma names9_suffix_free : forallb (fun n => forallb (fun m => implb (is_suffix m n) (text_eqb m n)) names9) names9 = true.
Proof. vm_compute. reflexivity. Qed.
Lemma name_is_suffix_eq n m l : In n names9 -> In m names9 -> n = l ++ m -> n = m.
Proof.
  intros In_n In_m E. pose proof names9_suffix_free as F. rewrite forallb_forall in F. specialize (F n In_n). rewrite forallb_forall in F.
  specialize (F m In_m). rewrite E, is_suffix_app in F. cbn [implb] in F. apply text_eqb_eq in F. rewrite E. symmetry. exact F.
Qed.
Lemma names9_AZ n : In n names9 -> forallb is_AZ n = true /\ n <> [].
Proof. intro I. assert (F : forallb (fun n => forallb is_AZ n && negb (len n =? 0)) names9 = true) by (vm_compute; reflexivity).
  rewrite forallb_forall in F. apply F in I. apply andb_true_iff in I. destruct I as [I1 I2]. split; [exact I1|]. intro E. subst n. discriminate I2. Qed.
Lemma AZ_no_colon' n : forallb is_AZ n = true -> ~ In 58 n.
Proof. apply AZ_no_colon. Qed.

(** * the rendered text *)
Definition R (v : text) (fs : list (text * text)) : text := v ++ CRLF ++ render1 fs.
Lemma value_ok_inv v : value_ok v = true -> v <> [] /\ ~ In 58 v /\ (forall c, In c v -> is_space c = false).
Proof.
  unfold value_ok. rewrite andb_true_iff. intros [A B]. split; [intro E; subst v; discriminate B|].
  rewrite forallb_forall in A. split.
  - intro I. apply A in I. unfold plainc in I. rewrite !andb_true_iff in I. destruct I as [[[_ I] _] _]. cbn in I. discriminate I.
  - intros c I. apply A in I. unfold plainc in I. rewrite !andb_true_iff in I. destruct I as [[[I _] _] _]. apply negb_true_iff in I. exact I.
Qed.
Lemma fs_ok_cons names n v fs : fs_ok names ((n, v) :: fs) = true -> In n names /\ value_ok v = true /\ fs_ok names fs = true.
Proof. unfold fs_ok. cbn [forallb fst snd]. rewrite !andb_true_iff. intros [[A B] D]. split; [apply mem_text_in; exact A|tauto]. Qed.
Lemma CRLF_no_colon : ~ In 58 CRLF.
Proof. cbn. intros [H|[H|[]]]; discriminate H. Qed.

(** the first colon of [a ++ render1 fs] (a: nothing, or a colon-free text ending with a line feed) *)
Lemma head_colon a fs pre NAME y :
  ~ In 58 a -> (a = [] \/ exists a', a = a' ++ [10]) -> fs_ok names9 fs = true -> In NAME names9 -> ~ In 58 pre ->
  a ++ render1 fs = pre ++ NAME ++ 58 :: y ->
  exists v' fs', fs = (NAME, v') :: fs' /\ y = R v' fs' /\ a = pre.
Proof.
  intros Na Sa Ok In_N Np E. destruct (names9_AZ NAME In_N) as [AZN NEN].
  destruct fs as [|[n v'] fs'].
  - exfalso. cbn [render1] in E. assert (I : In 58 (a ++ CRLF)) by (rewrite E; rewrite !in_app_iff; right; right; left; reflexivity).
    apply in_app_iff in I. destruct I as [I|I]; [exact (Na I)|exact (CRLF_no_colon I)].
  - apply fs_ok_cons in Ok. destruct Ok as [In_n [Vv Ok]]. destruct (names9_AZ n In_n) as [AZn NEn].
    cbn [render1] in E. rewrite app_assoc in E. rewrite (app_assoc pre) in E.
    apply first_colon_unique in E.
    + destruct E as [E1 E2].
      assert (S : exists l, n = l ++ NAME).
      { destruct Sa as [Sa|[a' Sa]]; subst a; [exists pre; exact E1|]. rewrite <- app_assoc in E1. cbn [app] in E1. apply (name_suffix a' n pre NAME E1 AZN). }
      destruct S as [l S]. pose proof (name_is_suffix_eq n NAME l In_n In_N S) as EN. clear S. rewrite EN in *.
      apply app_inv_tail in E1. exists v', fs'. split; [reflexivity|]. split; [symmetry; exact E2|exact E1].
    + apply not_in_app. split; [exact Na|apply AZ_no_colon; exact AZn].
    + apply not_in_app. split; [exact Np|apply AZ_no_colon; exact AZN].
Qed.

(** wherever "NAME:" stands in the text, it is one of the lines *)
Lemma locate fs : forall a pre NAME y,
  ~ In 58 a -> (a = [] \/ exists a', a = a' ++ [10]) -> fs_ok names9 fs = true -> In NAME names9 ->
  a ++ render1 fs = pre ++ NAME ++ 58 :: y ->
  exists fs1 v' fs2, fs = fs1 ++ (NAME, v') :: fs2 /\ y = R v' fs2.
Proof.
  induction fs as [|[n v'] fs' IH]; intros a pre NAME y Na Sa Ok In_N E.
  - exfalso. cbn [render1] in E. assert (I : In 58 (a ++ CRLF)) by (rewrite E; rewrite !in_app_iff; right; right; left; reflexivity).
    apply in_app_iff in I. destruct I as [I|I]; [exact (Na I)|exact (CRLF_no_colon I)].
  - destruct (split_first_colon pre) as [Np|[p1 [p2 [Ep Np]]]].
    + destruct (head_colon a _ pre NAME y Na Sa Ok In_N Np E) as [v'' [fs'' [E1 [E2 _]]]].
      exists [], v'', fs''. split; [exact E1|exact E2].
    + pose proof Ok as Ok'. apply fs_ok_cons in Ok'. destruct Ok' as [In_n [Vv Ok']]. destruct (names9_AZ n In_n) as [AZn NEn].
      subst pre. cbn [render1] in E.
      assert (E0 : (a ++ n) ++ 58 :: (v' ++ CRLF ++ render1 fs') = p1 ++ 58 :: (p2 ++ NAME ++ 58 :: y)).
      { rewrite <- app_assoc. rewrite E. rewrite <- app_assoc. reflexivity. }
      clear E. rename E0 into E.
      apply first_colon_unique in E; [|apply not_in_app; split; [exact Na|apply AZ_no_colon; exact AZn]|exact Np].
      destruct E as [_ E]. destruct (value_ok_inv v' Vv) as [_ [Nv _]].
      assert (E' : (v' ++ CRLF) ++ render1 fs' = p2 ++ NAME ++ 58 :: y) by (rewrite <- app_assoc; exact E).
      destruct (IH (v' ++ CRLF) p2 NAME y) as [fs1 [v'' [fs2 [E1 E2]]]]; try assumption.
      * apply not_in_app. split; [exact Nv|exact CRLF_no_colon].
      * right. exists (v' ++ [13]). rewrite <- app_assoc. reflexivity.
      * exists ((n, v') :: fs1), v'', fs2. split; [cbn [app]; f_equal; exact E1|exact E2].
Qed.

(** value then whitespace, read two ways *)
Lemma split_unique (a : text) : forall b s t,
  a ++ s = b ++ t -> (forall c, In c a -> is_space c = false) -> (forall c, In c b -> is_space c = false) ->
  forallb is_space s = true -> forallb is_space t = true -> a = b /\ s = t.
Proof.
  induction a as [|c a IH]; intros [|d b] s t E Ha Hb Hs Ht; cbn [app] in E.
  - split; [reflexivity|exact E].
  - exfalso. subst s. cbn [forallb] in Hs. apply andb_true_iff in Hs. destruct Hs as [Hs _]. rewrite (Hb d) in Hs by (left; reflexivity). discriminate Hs.
  - exfalso. subst t. cbn [forallb] in Ht. apply andb_true_iff in Ht. destruct Ht as [Ht _]. rewrite (Ha c) in Ht by (left; reflexivity). discriminate Ht.
  - injection E as E1 E2. subst d. destruct (IH b s t E2) as [Ea Es]; try assumption.
    + intros x I. apply Ha. right. exact I.
    + intros x I. apply Hb. right. exact I.
    + split; [f_equal; exact Ea|exact Es].
Qed.
Lemma CRLF_space : forallb is_space CRLF = true.
Proof. vm_compute. reflexivity. Qed.

(** * one level of the pattern against one line of the text *)
Definition cls_plain (cls : N -> bool) : Prop := (forall c, cls c = true -> is_space c = false) /\ cls 58 = false.
Lemma cls_no_colon cls v : cls 58 = false -> forallb cls v = true -> ~ In 58 v.
Proof. intros C F I. rewrite forallb_forall in F. apply F in I. congruence. Qed.
Lemma space_no_colon w : forallb is_space w = true -> ~ In 58 w.
Proof. intros F I. rewrite forallb_forall in F. apply F in I. apply space_not_colon in I. apply I. reflexivity. Qed.

Lemma level {A} NAME cls (k : text -> option A) cls0 v fs w0 val0 x0 val a :
  R v fs = w0 ++ val0 ++ x0 -> forallb is_space w0 = true -> val0 <> [] -> forallb cls0 val0 = true -> cls_plain cls0 ->
  value_ok v = true -> fs_ok names9 fs = true -> In NAME names9 ->
  match_field NAME cls k (skipws x0) = Some (val, a) ->
  val0 = v /\ exists v' fs' w x, fs = (NAME, v') :: fs' /\ R v' fs' = w ++ val ++ x /\ forallb is_space w = true
                                /\ val <> [] /\ forallb cls val = true /\ k x = Some a.
Proof.
  intros E W0 N0 C0 [P0 Q0] Vv Ok In_N M.
  apply match_field_sound in M. destruct M as [w [x [Ex [W [C [NE K]]]]]].
  destruct (skipws_split x0) as [sp [Sp Esp]]. rewrite Ex in Esp.
  destruct (value_ok_inv v Vv) as [NEv [Ncv Nsv]].
  unfold R in E. rewrite Esp in E.
  assert (E' : (v ++ CRLF) ++ render1 fs = (w0 ++ val0 ++ sp) ++ NAME ++ 58 :: (w ++ val ++ x)).
  { rewrite <- !app_assoc. exact E. }
  destruct (head_colon (v ++ CRLF) fs (w0 ++ val0 ++ sp) NAME (w ++ val ++ x)) as [v' [fs' [E1 [E2 E3]]]]; try assumption.
  - apply not_in_app. split; [exact Ncv|exact CRLF_no_colon].
  - right. exists (v ++ [13]). rewrite <- app_assoc. reflexivity.
  - rewrite !not_in_app. split; [apply space_no_colon; exact W0|]. split; [apply (cls_no_colon cls0); assumption|apply space_no_colon; exact Sp].
  - (* v ++ CRLF = w0 ++ val0 ++ sp: no leading whitespace, and the value is the run *)
    assert (W0nil : w0 = []).
    { destruct w0 as [|c w0]; [reflexivity|]. exfalso. destruct v as [|d v]; [contradiction|]. cbn [app] in E3. injection E3 as E3 _. subst d.
      cbn [forallb] in W0. apply andb_true_iff in W0. destruct W0 as [W0 _]. rewrite (Nsv c) in W0 by (left; reflexivity). discriminate W0. }
    subst w0. cbn [app] in E3.
    destruct (split_unique v val0 CRLF sp E3 Nsv) as [Ev _]; [| exact CRLF_space | exact Sp |].
    + intros c I. apply P0. rewrite forallb_forall in C0. apply C0. exact I.
    + split; [symmetry; exact Ev|]. exists v', fs', w, x. repeat split; try assumption. symmetry. exact E2.
Qed.

Lemma cls_plain_decimal : cls_plain is_decimal. Proof. split; [exact cls_ok_decimal|exact colon_decimal]. Qed.
Lemma cls_plain_AZ : cls_plain is_AZ. Proof. split; [exact cls_ok_AZ|exact colon_AZ]. Qed.
Lemma cls_plain_word : cls_plain is_word. Proof. split; [exact cls_ok_word|exact colon_word]. Qed.
Lemma cls_plain_enc : cls_plain is_enc. Proof. split; [exact cls_ok_enc|exact colon_enc]. Qed.
Lemma cls_plain_word_dash : cls_plain is_word_dash. Proof. split; [exact cls_ok_word_dash|exact colon_word_dash]. Qed.

Lemma fs_ok_app names a b : fs_ok names (a ++ b) = true -> fs_ok names a = true /\ fs_ok names b = true.
Proof. unfold fs_ok. rewrite forallb_app, andb_true_iff. tauto. Qed.

(** what an accepted text looks like *)
Definition v1_shape (fs : list (text * text)) : Prop :=
  exists fs1 fs2 v1 v2 v3 v4 v5 v6 v7 v8 v9 (comp : bool),
    fs = fs1 ++ (T "OFXHEADER", v1) :: (T "DATA", v2) :: (T "VERSION", v3) :: (T "SECURITY", v4) :: (T "ENCODING", v5) :: (T "CHARSET", v6) ::
                (if comp then [(T "COMPRESSION", v7)] else []) ++ (T "OLDFILEUID", v8) :: (T "NEWFILEUID", v9) :: fs2
    /\ forallb is_decimal v1 = true /\ forallb is_AZ v2 = true /\ forallb is_decimal v3 = true /\ forallb is_word v4 = true
    /\ forallb is_enc v5 = true /\ forallb is_word_dash v6 = true /\ (comp = true -> forallb is_AZ v7 = true)
    /\ forallb is_word_dash v8 = true.

Lemma in9 n : mem_text n names9 = true -> In n names9.
Proof. apply mem_text_in. Qed.

Lemma tail_shape v fs w0 val0 x0 cls0 ol ne fin :
  R v fs = w0 ++ val0 ++ x0 -> forallb is_space w0 = true -> val0 <> [] -> forallb cls0 val0 = true -> cls_plain cls0 ->
  value_ok v = true -> fs_ok names9 fs = true ->
  v1_tail (skipws x0) = Some (ol, (ne, fin)) ->
  val0 = v /\ exists v8 v9 fs2, fs = (T "OLDFILEUID", v8) :: (T "NEWFILEUID", v9) :: fs2 /\ forallb is_word_dash v8 = true.
Proof.
  intros E W0 N0 C0 P0 Vv Ok M. unfold v1_tail in M.
  destruct (level (T "OLDFILEUID") is_word_dash _ cls0 v fs w0 val0 x0 ol _ E W0 N0 C0 P0 Vv Ok ltac:(apply in9; reflexivity) M)
    as [E0 [v8 [fs8 [w8 [x8 [Efs [E8 [W8 [N8 [C8 K8]]]]]]]]]].
  split; [exact E0|]. subst fs. apply fs_ok_cons in Ok. destruct Ok as [_ [V8 Ok]].
  cbv beta in K8.
  destruct (level (T "NEWFILEUID") is_word_dash _ is_word_dash v8 fs8 w8 ol x8 ne _ E8 W8 N8 C8 cls_plain_word_dash V8 Ok ltac:(apply in9; reflexivity) K8)
    as [E0' [v9 [fs9 [w9 [x9 [Efs' _]]]]]].
  subst fs8 ol. exists v8, v9, fs9. split; [reflexivity|exact C8].
Qed.

Theorem v1_accept_shape fs m : fs_ok names9 fs = true -> search_v1 (render1 fs) = Some m -> v1_shape fs.
Proof.
  intros Ok S. unfold search_v1 in S. apply search_sound in S. destruct S as [pre [t [Et M]]].
  destruct m as [oh [da [ve [se [en [ch [co [ol [ne fin]]]]]]]]]. unfold match_v1_at in M.
  apply match_field_sound in M. destruct M as [w1 [x1 [Ex [W1 [C1 [N1 K1]]]]]].
  destruct (skipws_split t) as [sp [Sp Esp]]. rewrite Ex in Esp. rewrite Esp in Et.
  assert (E0 : [] ++ render1 fs = (pre ++ sp) ++ T "OFXHEADER" ++ 58 :: (w1 ++ oh ++ x1)) by (cbn [app]; rewrite Et, <- app_assoc; reflexivity).
  destruct (locate fs [] (pre ++ sp) (T "OFXHEADER") (w1 ++ oh ++ x1)) as [fs1 [v1 [fsA [Efs EA]]]];
    [intros []|left; reflexivity|exact Ok|apply in9; reflexivity|exact E0|].
  subst fs. apply fs_ok_app in Ok. destruct Ok as [_ Ok]. apply fs_ok_cons in Ok. destruct Ok as [_ [V1 OkA]].
  symmetry in EA. cbv beta in K1.
  destruct (level (T "DATA") is_AZ _ is_decimal v1 fsA w1 oh x1 da _ EA W1 N1 C1 cls_plain_decimal V1 OkA ltac:(apply in9; reflexivity) K1)
    as [Eoh [v2 [fsB [w2 [x2 [EfsA [EB [W2 [N2 [C2 K2]]]]]]]]]].
  subst fsA. apply fs_ok_cons in OkA. destruct OkA as [_ [V2 OkB]]. cbv beta in K2.
  destruct (level (T "VERSION") is_decimal _ is_AZ v2 fsB w2 da x2 ve _ EB W2 N2 C2 cls_plain_AZ V2 OkB ltac:(apply in9; reflexivity) K2)
    as [Eda [v3 [fsC [w3 [x3 [EfsB [EC [W3 [N3 [C3 K3]]]]]]]]]].
  subst fsB. apply fs_ok_cons in OkB. destruct OkB as [_ [V3 OkC]]. cbv beta in K3.
  destruct (level (T "SECURITY") is_word _ is_decimal v3 fsC w3 ve x3 se _ EC W3 N3 C3 cls_plain_decimal V3 OkC ltac:(apply in9; reflexivity) K3)
    as [Eve [v4 [fsD [w4 [x4 [EfsC [ED [W4 [N4 [C4 K4]]]]]]]]]].
  subst fsC. apply fs_ok_cons in OkC. destruct OkC as [_ [V4 OkD]]. cbv beta in K4.
  destruct (level (T "ENCODING") is_enc _ is_word v4 fsD w4 se x4 en _ ED W4 N4 C4 cls_plain_word V4 OkD ltac:(apply in9; reflexivity) K4)
    as [Ese [v5 [fsE [w5 [x5 [EfsD [EE [W5 [N5 [C5 K5]]]]]]]]]].
  subst fsD. apply fs_ok_cons in OkD. destruct OkD as [_ [V5 OkE]]. cbv beta in K5.
  destruct (level (T "CHARSET") is_word_dash _ is_enc v5 fsE w5 en x5 ch _ EE W5 N5 C5 cls_plain_enc V5 OkE ltac:(apply in9; reflexivity) K5)
    as [Een [v6 [fsF [w6 [x6 [EfsE [EF [W6 [N6 [C6 K6]]]]]]]]]].
  subst fsE. apply fs_ok_cons in OkE. destruct OkE as [_ [V6 OkF]]. cbv beta in K6.
  unfold v1_compression_tail in K6.
  match type of K6 with match ?X with _ => _ end = _ => destruct X as [[c r]|] eqn:M7 end.
  - injection K6 as K6a K6b. subst co r.
    destruct (level (T "COMPRESSION") is_AZ _ is_word_dash v6 fsF w6 ch x6 c _ EF W6 N6 C6 cls_plain_word_dash V6 OkF ltac:(apply in9; reflexivity) M7)
      as [Ech [v7 [fsG [w7 [x7 [EfsF [EG [W7 [N7 [C7 K7]]]]]]]]]].
    subst fsF. apply fs_ok_cons in OkF. destruct OkF as [_ [V7 OkG]]. cbv beta in K7.
    destruct (tail_shape v7 fsG w7 c x7 is_AZ ol ne fin EG W7 N7 C7 cls_plain_AZ V7 OkG K7) as [Ec [v8 [v9 [fs2 [EfsG C8]]]]].
    subst fsG. exists fs1, fs2, v1, v2, v3, v4, v5, v6, v7, v8, v9, true. cbn [app].
    subst oh da ve se en ch c. repeat split; try assumption; try (intro; assumption).
  - match type of K6 with match ?X with _ => _ end = _ => destruct X as [r|] eqn:M8 end; [|discriminate K6].
    injection K6 as K6a K6b. subst co r.
    destruct (tail_shape v6 fsF w6 ch x6 is_word_dash ol ne fin EF W6 N6 C6 cls_plain_word_dash V6 OkF M8) as [Ech [v8 [v9 [fs2 [EfsF C8]]]]].
    subst fsF. exists fs1, fs2, v1, v2, v3, v4, v5, v6, [], v8, v9, false. cbn [app].
    subst oh da ve se en ch. repeat split; try assumption; try discriminate.
Qed.

(** * consequences for version 1 *)
Lemma parse_v1_needs_match s a e : parse_v1 s = OK (a, e) -> exists m, search_v1 s = Some m.
Proof. unfold parse_v1. destruct (search_v1 s) as [m|]; [exists m; reflexivity|discriminate]. Qed.
Lemma not_ok_reject1 s : (forall a e, parse_v1 s <> OK (a, e)) -> parse_v1 s = Err Reject.
Proof. intro H. pose proof (parse_v1_no_crash s) as NC. destruct (parse_v1 s) as [[a e]|[|]]; [exfalso; exact (H a e eq_refl)|reflexivity|contradiction]. Qed.

Lemma is_prefix_app w r : is_prefix w (w ++ r) = true.
Proof. induction w as [|a w IH]; [reflexivity|]. cbn [app is_prefix]. rewrite (proj2 (text_eqb_eq a a) eq_refl). exact IH. Qed.
Lemma has_window_app l1 w l2 : has_window w (l1 ++ w ++ l2) = true.
Proof.
  induction l1 as [|a l1 IH]; cbn [app].
  - destruct (w ++ l2) eqn:E; cbn [has_window]; rewrite <- ?E, is_prefix_app; reflexivity.
  - cbn [has_window]. rewrite IH. apply orb_true_r.
Qed.
Lemma shape_window fs : v1_shape fs -> has_window names9 (map fst fs) || has_window names8 (map fst fs) = true.
Proof.
  intros [fs1 [fs2 [v1 [v2 [v3 [v4 [v5 [v6 [v7 [v8 [v9 [comp [E _]]]]]]]]]]]]]. subst fs. rewrite map_app. destruct comp; cbn [map app fst].
  - change (has_window names9 (map fst fs1 ++ names9 ++ map fst fs2) || has_window names8 (map fst fs1 ++ names9 ++ map fst fs2) = true).
    rewrite has_window_app. reflexivity.
  - change (has_window names9 (map fst fs1 ++ names8 ++ map fst fs2) || has_window names8 (map fst fs1 ++ names8 ++ map fst fs2) = true).
    rewrite has_window_app. apply orb_true_r.
Qed.

Lemma plain_uid u : forallb uidc u = true -> forallb plainc u = true.
Proof.
  rewrite !forallb_forall. intros H c I. apply H in I. unfold plainc. rewrite (uidc_not_space c I). unfold uidc in I.
  cbn [negb andb]. destruct (c =? 58) eqn:E1; [lia|]. destruct (c =? 34) eqn:E2; [lia|]. destruct (c =? 60) eqn:E3; [lia|]. reflexivity.
Qed.
Lemma plain_digits n : forallb plainc (dec_of_N n) = true.
Proof.
  pose proof (dec_of_N_all_digits n) as D. rewrite forallb_forall in *. intros c I. apply D in I. unfold plainc.
  rewrite (digit_not_space c I). unfold is_digit in I. cbn [negb andb].
  destruct (c =? 58) eqn:E1; [lia|]. destruct (c =? 34) eqn:E2; [lia|]. destruct (c =? 60) eqn:E3; [lia|]. reflexivity.
Qed.
Lemma value_ok_intro v : forallb plainc v = true -> v <> [] -> value_ok v = true.
Proof. intros P NE. unfold value_ok. rewrite P. destruct v; [contradiction|reflexivity]. Qed.
Lemma value_ok_token s l : mem_text s l = true -> forallb value_ok l = true -> value_ok s = true.
Proof. intros M F. apply mem_text_in in M. rewrite forallb_forall in F. apply F, M. Qed.
Lemma value_ok_version z : (0 <= z)%Z -> value_ok (dec_of_Z z) = true.
Proof. intro H. rewrite dec_of_Z_nonneg by exact H. apply value_ok_intro; [apply plain_digits|apply dec_nonempty]. Qed.
Lemma value_ok_uid u : uid_ok u = true -> value_ok u = true.
Proof. intro H. apply uid_ok_inv in H. destruct H as [A [B _]]. apply value_ok_intro; [apply plain_uid; exact A|exact B]. Qed.

Lemma fields1_ok h : valid1 h = true -> fs_ok names9 (fields1 h) = true.
Proof.
  intro V. destruct (valid1_inv h V) as [Foh Fda Fve Fse Fen Fch Fco Fol Fne].
  unfold fs_ok, fields1. cbn [forallb fst snd].
  rewrite Foh, Fda, Fco. rewrite (value_ok_version (h1_version h)) by lia.
  rewrite (value_ok_token _ _ Fse) by reflexivity. rewrite (value_ok_token _ _ Fen) by reflexivity. rewrite (value_ok_token _ _ Fch) by reflexivity.
  rewrite (value_ok_uid _ Fol), (value_ok_uid _ Fne). vm_compute. reflexivity.
Qed.

Lemma forallb_remove_nth {A} (p : A -> bool) l : forall i, forallb p l = true -> forallb p (remove_nth i l) = true.
Proof.
  induction l as [|x l IH]; intros [|i] H; cbn [remove_nth]; try exact H; cbn [forallb] in *; apply andb_true_iff in H; destruct H as [H1 H2]; [exact H2|].
  rewrite H1. apply IH. exact H2.
Qed.
Lemma forallb_set_nth {A} (p : A -> bool) y l : forall i, p y = true -> forallb p l = true -> forallb p (set_nth i y l) = true.
Proof.
  induction l as [|x l IH]; intros [|i] Hy H; cbn [set_nth]; try exact H; cbn [forallb] in *; apply andb_true_iff in H; destruct H as [H1 H2].
  - rewrite Hy. exact H2.
  - rewrite H1. apply IH; assumption.
Qed.
Lemma forallb_nth_error {A} (p : A -> bool) l : forall i x, forallb p l = true -> nth_error l i = Some x -> p x = true.
Proof.
  induction l as [|y l IH]; intros [|i] x H E; cbn [nth_error] in E; try discriminate E; cbn [forallb] in H; apply andb_true_iff in H; destruct H as [H1 H2].
  - injection E as E. subst. exact H1.
  - exact (IH i x H2 E).
Qed.
Lemma forallb_swap_nth {A} (p : A -> bool) l i j : forallb p l = true -> forallb p (swap_nth i j l) = true.
Proof.
  intro H. unfold swap_nth. destruct (nth_error l i) as [a|] eqn:Ei; [|exact H]. destruct (nth_error l j) as [b|] eqn:Ej; [|exact H].
  apply forallb_set_nth; [exact (forallb_nth_error p l i a H Ei)|]. apply forallb_set_nth; [exact (forallb_nth_error p l j b H Ej)|exact H].
Qed.
Lemma map_remove_nth {A B} (f : A -> B) l : forall i, map f (remove_nth i l) = remove_nth i (map f l).
Proof. induction l as [|x l IH]; intros [|i]; cbn [remove_nth map]; try reflexivity. rewrite IH. reflexivity. Qed.
Lemma map_set_nth {A B} (f : A -> B) y l : forall i, map f (set_nth i y l) = set_nth i (f y) (map f l).
Proof. induction l as [|x l IH]; intros [|i]; cbn [set_nth map]; try reflexivity. rewrite IH. reflexivity. Qed.
Lemma nth_error_map' {A B} (f : A -> B) l : forall i, nth_error (map f l) i = option_map f (nth_error l i).
Proof. induction l as [|x l IH]; intros [|i]; cbn [nth_error map option_map]; try reflexivity. apply IH. Qed.
Lemma map_swap_nth {A B} (f : A -> B) l i j : map f (swap_nth i j l) = swap_nth i j (map f l).
Proof.
  unfold swap_nth. rewrite !nth_error_map'. destruct (nth_error l i) as [a|]; cbn [option_map]; [|reflexivity].
  destruct (nth_error l j) as [b|]; cbn [option_map]; [|reflexivity]. rewrite !map_set_nth. reflexivity.
Qed.

Definition no_window (l : list text) : bool := negb (has_window names9 l || has_window names8 l).
Lemma refused_by_names fs : fs_ok names9 fs = true -> no_window (map fst fs) = true -> parse_v1 (render1 fs) = Err Reject.
Proof.
  intros Ok NW. apply not_ok_reject1. intros a e P. apply parse_v1_needs_match in P. destruct P as [m S].
  apply (v1_accept_shape fs m Ok) in S. apply shape_window in S. unfold no_window in NW. rewrite S in NW. discriminate NW.
Qed.

(** C12 missing_or_transposed_field_rejected, version 1: any mandatory line deleted (COMPRESSION may be omitted: the
    library allows it), any two lines swapped *)
Theorem v1_missing_rejected h i : valid1 h = true -> (i < 9)%nat -> i <> 6%nat ->
  parse_v1 (render1 (remove_nth i (fields1 h))) = Err Reject.
Proof.
  intros V L N6. apply refused_by_names; [apply forallb_remove_nth, fields1_ok, V|].
  rewrite map_remove_nth. change (map fst (fields1 h)) with names9.
  do 9 (destruct i as [|i]; [try (vm_compute; reflexivity); try (exfalso; apply N6; reflexivity)|]). exfalso. lia.
Qed.
Theorem v1_transposed_rejected h i j : valid1 h = true -> (i < j < 9)%nat ->
  parse_v1 (render1 (swap_nth i j (fields1 h))) = Err Reject.
Proof.
  intros V L. apply refused_by_names; [apply forallb_swap_nth, fields1_ok, V|].
  rewrite map_swap_nth. change (map fst (fields1 h)) with names9.
  assert (F : forallb (fun i => forallb (fun j => implb (Nat.ltb i j) (no_window (swap_nth i j names9))) (seq 0 9)) (seq 0 9) = true) by (vm_compute; reflexivity).
  rewrite forallb_forall in F. assert (Ii : In i (seq 0 9)) by (apply in_seq; lia). specialize (F i Ii). rewrite forallb_forall in F.
  assert (Ij : In j (seq 0 9)) by (apply in_seq; lia). specialize (F j Ij). assert (Lt : Nat.ltb i j = true) by (apply Nat.ltb_lt; lia).
  rewrite Lt in F. exact F.
Qed.

(** a VERSION value with a character that is not a decimal digit is refused by the pattern *)
Theorem v1_non_numeric_version_rejected h x : valid1 h = true -> value_ok x = true -> forallb is_decimal x = false ->
  parse_v1 (render1 (set_nth 2 (T "VERSION", x) (fields1 h))) = Err Reject.
Proof.
  intros V Vx ND. apply not_ok_reject1. intros a e P. apply parse_v1_needs_match in P. destruct P as [m S].
  assert (Ok : fs_ok names9 (set_nth 2 (T "VERSION", x) (fields1 h)) = true).
  { apply forallb_set_nth; [cbn [fst snd]; rewrite Vx; reflexivity|apply fields1_ok, V]. }
  apply (v1_accept_shape _ m Ok) in S.
  destruct S as [fs1 [fs2 [v1 [v2 [v3 [v4 [v5 [v6 [v7 [v8 [v9 [comp [E [_ [_ [D3 _]]]]]]]]]]]]]]]].
  assert (I : In (T "VERSION", v3) (set_nth 2 (T "VERSION", x) (fields1 h))).
  { rewrite E. apply in_app_iff. right. right. right. left. reflexivity. }
  cbn [set_nth fields1 In] in I.
  repeat (destruct I as [I|I]; [try (apply (f_equal fst) in I; vm_compute in I; discriminate I)|]); try contradiction.
  injection I as I. subst v3. congruence.
Qed.
