(** C17, engine Dispatch: lemmas.  Histories, thread programs, schedules and instances are unbounded;
    every proof is an induction over the list concerned. *)
From OfxV Require Import Base.Prelude Model.Dispatch.
Local Open Scope N_scope.

Lemma ty_eqb_eq a b : ty_eqb a b = true <-> a = b.
Proof. destruct a, b; cbv; split; congruence. Qed.
Lemma ty_eqb_refl a : ty_eqb a a = true.
Proof. apply ty_eqb_eq. reflexivity. Qed.
Lemma ty_eqb_neq a b : ty_eqb a b = false <-> a <> b.
Proof.
  split.
  - intros E H. apply ty_eqb_eq in H. congruence.
  - intros H. destruct (ty_eqb a b) eqn:E; [apply ty_eqb_eq in E; contradiction | reflexivity].
Qed.

Lemma lookup_set t t' h l : lookup t' (set t h l) = if ty_eqb t' t then Some h else lookup t' l.
Proof.
  induction l as [|[k x] r IH]; cbn [set lookup].
  - reflexivity.
  - destruct (ty_eqb t k) eqn:E.
    + apply ty_eqb_eq in E. subst k. cbn [lookup]. destruct (ty_eqb t' t); reflexivity.
    + cbn [lookup]. rewrite IH. destruct (ty_eqb t' k) eqn:E2; [|reflexivity].
      apply ty_eqb_eq in E2. subst k. destruct (ty_eqb t' t) eqn:E3; [|reflexivity].
      apply ty_eqb_eq in E3. subst t'. rewrite ty_eqb_refl in E. discriminate.
Qed.

Lemma set_keys_present t h l : lookup t l <> None -> map fst (set t h l) = map fst l.
Proof.
  induction l as [|[k x] r IH]; cbn [set lookup map fst].
  - congruence.
  - destruct (ty_eqb t k) eqn:E; cbn [map fst]; [reflexivity|]. intros H. rewrite IH; auto.
Qed.

(** the registry is the import-time one up to the instance the datetime handler is bound to *)
Definition reg_shape (reg : list (ty * handler)) : Prop :=
  exists b, reg = [(TObject, Default); (TDatetime, UnconvDatetime b); (TNone, UnconvNone)].

Lemma reg_shape_init : reg_shape (registry init_state).
Proof. exists None. reflexivity. Qed.
Lemma reg_shape_set reg i : reg_shape reg -> reg_shape (set TDatetime (UnconvDatetime (Some i)) reg).
Proof. intros [b ->]. exists (Some i). reflexivity. Qed.
Lemma reg_shape_keys reg : reg_shape reg -> map fst reg = map fst (registry init_state).
Proof. intros [b ->]. reflexivity. Qed.
Lemma reg_shape_datetime reg : reg_shape reg -> exists b, lookup TDatetime reg = Some (UnconvDatetime b).
Proof. intros [b ->]. exists b. reflexivity. Qed.

(** ---------- the registry keeps its shape under every atomic step (no hypothesis on fmt) ---------- *)
Lemma step_reg_shape rereg rebinds fmt st th :
  reg_shape (registry st) -> reg_shape (registry (fst (step rereg rebinds fmt st th))).
Proof.
  intros H. unfold step. destruct (pc th); cbn [fst registry cache_clear cache_store]; auto.
  destruct (todo th) as [|[i reaches|c v|] r]; cbn [fst]; auto.
  - destruct (rereg && reaches); cbn [fst reg_set registry]; auto using reg_shape_set.
  - destruct (lookup (vty v) (cache st)); cbn [fst]; auto.
Qed.

Lemma sched_step_reg_shape rereg rebinds fmt cfg k :
  reg_shape (registry (fst cfg)) -> reg_shape (registry (fst (sched_step rereg rebinds fmt cfg k))).
Proof.
  intros H. unfold sched_step. destruct (nth_error (snd cfg) k) as [th|]; auto.
  pose proof (step_reg_shape rereg rebinds fmt (fst cfg) th H) as S.
  destruct (step rereg rebinds fmt (fst cfg) th). exact S.
Qed.

Lemma run_schedule_reg_shape rereg rebinds fmt sched : forall cfg,
  reg_shape (registry (fst cfg)) -> reg_shape (registry (fst (run_schedule rereg rebinds fmt cfg sched))).
Proof.
  unfold run_schedule. induction sched as [|k r IH]; intros cfg H; cbn [fold_left]; auto.
  apply IH. apply sched_step_reg_shape. exact H.
Qed.

Lemma dispatch_registry st t : registry (snd (dispatch st t)) = registry st.
Proof. unfold dispatch. destruct (lookup t (cache st)); reflexivity. Qed.

Lemma run_op_reg_shape rereg rebinds fmt st o :
  reg_shape (registry st) -> reg_shape (registry (fst (run_op rereg rebinds fmt st o))).
Proof.
  intros H. destruct o as [i reaches|c v|]; cbn [run_op]; auto.
  - destruct (rereg && reaches); cbn [fst register cache_clear reg_set registry]; auto using reg_shape_set.
  - pose proof (dispatch_registry st (vty v)) as D. destruct (dispatch st (vty v)) as [h st'].
    cbn [fst snd] in *. rewrite D. exact H.
Qed.

Lemma run_ops_reg_shape rereg rebinds fmt ops : forall st,
  reg_shape (registry st) -> reg_shape (registry (fst (run_ops rereg rebinds fmt st ops))).
Proof.
  induction ops as [|o r IH]; intros st H; cbn [run_ops fst]; auto.
  pose proof (run_op_reg_shape rereg rebinds fmt st o H) as H1.
  destruct (run_op rereg rebinds fmt st o) as [st1 out]. cbn [fst] in H1.
  specialize (IH st1 H1). destruct (run_ops rereg rebinds fmt st1 r) as [st2 outs]. exact IH.
Qed.

Theorem registry_keys_constant_thm : forall rereg rebinds fmt,
  (forall ops, map fst (registry (fst (run_ops rereg rebinds fmt init_state ops))) = map fst (registry init_state))
  /\ (forall progs sched,
        map fst (registry (fst (run_schedule rereg rebinds fmt (init_state, map new_thread progs) sched)))
        = map fst (registry init_state)).
Proof.
  intros rereg rebinds fmt. split.
  - intros ops. apply reg_shape_keys, run_ops_reg_shape, reg_shape_init.
  - intros progs sched. apply reg_shape_keys, run_schedule_reg_shape. exact reg_shape_init.
Qed.

(** ---------- semantics ---------- *)
Section Semantics.
  Variables rereg rebinds : bool.
  Variable fmt : inst -> pyval -> result text.
  (** either the interpreter rebinds a registered bound method to the calling instance, or what the handler
      computes does not depend on the instance it runs with *)
  Hypothesis self_irrelevant : rebinds = true \/ forall i j v, fmt i v = fmt j v.

  (** the handler answers like the one the import-time state dispatches to *)
  Definition good (t : ty) (h : handler) : Prop :=
    forall c v, sem rebinds fmt h c v = sem rebinds fmt (fst (dispatch init_state t)) c v.
  Definition cache_good (c : list (ty * handler)) : Prop := forall t h, lookup t c = Some h -> good t h.
  Definition inv (st : state) : Prop := reg_shape (registry st) /\ cache_good (cache st).

  Lemma search_good reg t : reg_shape reg -> good t (search reg t).
  Proof.
    intros [b ->] c v. destruct t; cbv [search lookup find_impl mro ty_eqb ty_code N.eqb Pos.eqb dispatch init_state cache registry fst];
      try reflexivity; cbn [sem]; destruct b as [i|]; try reflexivity;
      (destruct self_irrelevant as [R | E]; [rewrite R; reflexivity | rewrite (E (if rebinds then c else i) c); reflexivity]).
  Qed.

  Lemma good_spec t h c v : good t h -> vty v = t -> sem rebinds fmt h c v = spec_unconvert fmt c v.
  Proof.
    intros G E. rewrite G. unfold spec_unconvert. rewrite E.
    destruct t; try reflexivity.
    cbv [dispatch init_state cache registry lookup fst search find_impl mro ty_eqb ty_code N.eqb Pos.eqb].
    cbn [sem]. unfold is_none. rewrite E. rewrite ty_eqb_refl. reflexivity.
  Qed.

  Lemma inv_init : inv init_state.
  Proof. split; [apply reg_shape_init|]. intros t h H. discriminate. Qed.
  Lemma inv_reg_set st i : inv st -> inv (reg_set st TDatetime (UnconvDatetime (Some i))).
  Proof. intros [R C]. split; cbn [reg_set registry cache]; auto using reg_shape_set. Qed.
  Lemma inv_cache_clear st : inv st -> inv (cache_clear st).
  Proof. intros [R C]. split; cbn [cache_clear registry cache]; auto. intros t h H. discriminate. Qed.
  Lemma inv_cache_store st t h : inv st -> good t h -> inv (cache_store st t h).
  Proof.
    intros [R C] G. split; cbn [cache_store registry cache]; auto.
    intros t' h' H. rewrite lookup_set in H. destruct (ty_eqb t' t) eqn:E.
    - apply ty_eqb_eq in E. subst t'. injection H as <-. exact G.
    - apply C. exact H.
  Qed.

  Lemma dispatch_inv st t : inv st -> good t (fst (dispatch st t)) /\ inv (snd (dispatch st t)).
  Proof.
    intros I. unfold dispatch. destruct (lookup t (cache st)) as [h|] eqn:E; cbn [fst snd].
    - split; [|exact I]. destruct I as [_ C]. exact (C t h E).
    - destruct I as [R C]. pose proof (search_good (registry st) t R) as G. split; [exact G|].
      apply inv_cache_store; [split; assumption | exact G].
  Qed.

  Lemma run_op_inv st o : inv st ->
    inv (fst (run_op rereg rebinds fmt st o))
    /\ snd (run_op rereg rebinds fmt st o) = match o with Unconvert c v => Some (spec_unconvert fmt c v) | _ => None end.
  Proof.
    intros I. destruct o as [i reaches|c v|]; cbn [run_op].
    - destruct (rereg && reaches); cbn [fst snd]; split; auto. apply inv_cache_clear, inv_reg_set, I.
    - destruct (dispatch_inv st (vty v) I) as [G I']. destruct (dispatch st (vty v)) as [h st']. cbn [fst snd] in *.
      split; [exact I'|]. f_equal. apply (good_spec (vty v)); [exact G | reflexivity].
    - cbn [fst snd]. auto.
  Qed.

  Lemma run_ops_inv ops : forall st, inv st ->
    inv (fst (run_ops rereg rebinds fmt st ops)) /\ snd (run_ops rereg rebinds fmt st ops) = spec_outcomes fmt ops.
  Proof.
    induction ops as [|o r IH]; intros st I; cbn [run_ops spec_outcomes fst snd]; [auto|].
    destruct (run_op_inv st o I) as [I1 O1]. destruct (run_op rereg rebinds fmt st o) as [st1 out]. cbn [fst snd] in *.
    destruct (IH st1 I1) as [I2 O2]. destruct (run_ops rereg rebinds fmt st1 r) as [st2 outs]. cbn [fst snd] in *.
    split; [exact I2|]. subst out outs. destruct o; reflexivity.
  Qed.

  Theorem dispatch_history_independent_sec : forall ops t caller v,
    sem rebinds fmt (fst (dispatch (fst (run_ops rereg rebinds fmt init_state ops)) t)) caller v
    = sem rebinds fmt (fst (dispatch init_state t)) caller v.
  Proof.
    intros ops t caller v. destruct (run_ops_inv ops init_state inv_init) as [I _].
    destruct (dispatch_inv _ t I) as [G _]. apply G.
  Qed.

  Theorem model_functions_total_on_inputs_sec : forall hist ops,
    snd (run_ops rereg rebinds fmt (fst (run_ops rereg rebinds fmt init_state hist)) ops) = spec_outcomes fmt ops.
  Proof.
    intros hist ops. destruct (run_ops_inv hist init_state inv_init) as [I _].
    destruct (run_ops_inv ops _ I) as [_ O]. exact O.
  Qed.

  (** ---------- interleavings ---------- *)
  Fixpoint calls (ops : list op) : list (inst * pyval) :=
    match ops with
    | [] => []
    | Unconvert c v :: r => (c, v) :: calls r
    | _ :: r => calls r
    end.
  Definition pending (p : tpc) : list (inst * pyval) :=
    match p with PMiss c v | PFound c v _ | PHave c v _ => [(c, v)] | _ => [] end.
  Definition dkey (d : completed) : inst * pyval := (d_caller d, d_val d).
  Definition done_ok (d : completed) : Prop :=
    good (vty (d_val d)) (d_handler d) /\ d_out d = spec_unconvert fmt (d_caller d) (d_val d).

  (** what is known of a thread running [prog] at any moment *)
  Definition tinv (prog : list op) (th : thread) : Prop :=
    match pc th with PFound _ v h | PHave _ v h => good (vty v) h | _ => True end
    /\ Forall done_ok (done th)
    /\ calls prog = (map dkey (done th) ++ pending (pc th) ++ calls (todo th))%list.

  Lemma tinv_new prog : tinv prog (new_thread prog).
  Proof. repeat split; cbn; auto. Qed.

  Lemma step_inv prog st th : inv st -> tinv prog th ->
    inv (fst (step rereg rebinds fmt st th)) /\ tinv prog (snd (step rereg rebinds fmt st th)).
  Proof.
    intros I [P [D K]]. unfold step. destruct (pc th) as [| |c v|c v h|c v h] eqn:EP; cbn [pending] in K.
    - destruct (todo th) as [|[i reaches|c v|] r] eqn:ET; cbn [fst snd].
      + split; [exact I|]. unfold tinv. rewrite EP, ET. auto.
      + destruct (rereg && reaches); cbn [fst snd]; (split; [auto using inv_reg_set|]);
          unfold tinv; cbn [pc todo done pending calls] in *; auto.
      + destruct (lookup (vty v) (cache st)) as [h|] eqn:EL; cbn [fst snd]; (split; [exact I|]);
          unfold tinv; cbn [pc todo done pending calls app] in *; repeat split; auto.
        destruct I as [_ C]. exact (C _ _ EL).
      + split; [exact I|]. unfold tinv; cbn [pc todo done pending calls] in *; auto.
    - cbn [fst snd]. split; [apply inv_cache_clear, I|]. unfold tinv; cbn [pc todo done pending]; auto.
    - cbn [fst snd]. split; [exact I|]. unfold tinv; cbn [pc todo done pending]. repeat split; auto.
      apply search_good. apply I.
    - cbn [fst snd]. split; [apply inv_cache_store; assumption|]. unfold tinv; cbn [pc todo done pending]; auto.
    - cbn [fst snd]. split; [exact I|]. unfold tinv; cbn [pc todo done pending]. repeat split; auto.
      + apply Forall_app. split; [exact D|]. constructor; [|constructor]. split; cbn [d_val d_handler d_out d_caller]; auto.
        apply (good_spec (vty v)); auto.
      + rewrite K. rewrite map_app. cbn [map dkey d_caller d_val app]. rewrite <- app_assoc. reflexivity.
  Qed.

  Lemma Forall2_nth_replace {A B} (P : A -> B -> Prop) : forall la lb k b b',
    Forall2 P la lb -> nth_error lb k = Some b ->
    (forall a, nth_error la k = Some a -> P a b -> P a b') ->
    Forall2 P la (replace_nth k b' lb).
  Proof.
    intros la lb k b b' F. revert k. induction F as [|a0 b0 la lb H F IH]; intros k N Q.
    - destruct k; discriminate.
    - destruct k as [|k]; cbn [replace_nth nth_error] in *.
      + injection N as ->. constructor; [apply Q; auto | exact F].
      + constructor; [exact H|]. apply IH; auto.
  Qed.

  Definition cfg_inv (progs : list (list op)) (cfg : state * list thread) : Prop :=
    inv (fst cfg) /\ Forall2 tinv progs (snd cfg).

  Lemma sched_step_inv progs cfg k : cfg_inv progs cfg -> cfg_inv progs (sched_step rereg rebinds fmt cfg k).
  Proof.
    intros [I F]. unfold sched_step. destruct (nth_error (snd cfg) k) as [th|] eqn:N; [|split; assumption].
    assert (S : forall prog, tinv prog th ->
                  inv (fst (step rereg rebinds fmt (fst cfg) th)) /\ tinv prog (snd (step rereg rebinds fmt (fst cfg) th)))
      by (intros prog T; apply step_inv; assumption).
    destruct (step rereg rebinds fmt (fst cfg) th) as [st' th']. cbn [fst snd] in *. split.
    - assert (E : exists prog, nth_error progs k = Some prog /\ tinv prog th).
      { clear S. revert k N. induction F as [|p t lp lt H F IH]; intros k N; [destruct k; discriminate|].
        destruct k as [|k]; cbn [nth_error] in *; [injection N as ->; eauto | eauto]. }
      destruct E as [prog [_ T]]. apply (S prog T).
    - apply (Forall2_nth_replace tinv progs (snd cfg) k th th' F N). intros prog _ T. apply (S prog T).
  Qed.

  Lemma run_schedule_inv progs sched : forall cfg, cfg_inv progs cfg -> cfg_inv progs (run_schedule rereg rebinds fmt cfg sched).
  Proof.
    unfold run_schedule. induction sched as [|k r IH]; intros cfg H; cbn [fold_left]; auto.
    apply IH, sched_step_inv, H.
  Qed.

  Lemma cfg_inv_start progs : cfg_inv progs (init_state, map new_thread progs).
  Proof.
    split; [apply inv_init|]. cbn [snd]. induction progs as [|p r IH]; cbn [map]; constructor; auto using tinv_new.
  Qed.

  Lemma calls_spec prog : map (fun cv => spec_unconvert fmt (fst cv) (snd cv)) (calls prog) = spec_outcomes fmt prog.
  Proof. induction prog as [|[i reaches|c v|] r IH]; cbn [calls spec_outcomes map fst snd]; congruence. Qed.

  Lemma tinv_finished prog th : tinv prog th -> finished th = true -> map d_out (done th) = spec_outcomes fmt prog.
  Proof.
    intros [_ [D K]] Fin. unfold finished in Fin. destruct (pc th); try discriminate. destruct (todo th); try discriminate.
    cbn [pending calls app] in K. rewrite app_nil_r in K. rewrite <- calls_spec, K, map_map.
    clear K Fin. induction D as [|d l [_ O] D IH]; cbn [map]; [reflexivity|]. rewrite IH. f_equal. exact O.
  Qed.

  Theorem dispatch_interleaving_independent_sec : forall progs sched,
    let cfg := run_schedule rereg rebinds fmt (init_state, map new_thread progs) sched in
    (forall th d, In th (snd cfg) -> In d (done th) ->
        (forall c v, sem rebinds fmt (d_handler d) c v = sem rebinds fmt (fst (dispatch init_state (vty (d_val d)))) c v)
        /\ d_out d = spec_unconvert fmt (d_caller d) (d_val d))
    /\ (forall t h, lookup t (cache (fst cfg)) = Some h ->
        forall c v, sem rebinds fmt h c v = sem rebinds fmt (fst (dispatch init_state t)) c v)
    /\ (exists b, lookup TDatetime (registry (fst cfg)) = Some (UnconvDatetime b))
    /\ Forall2 (fun prog th => finished th = true -> map d_out (done th) = spec_outcomes fmt prog) progs (snd cfg).
  Proof.
    intros progs sched cfg. destruct (run_schedule_inv progs sched _ (cfg_inv_start progs)) as [[R C] F].
    fold cfg in R, C, F. repeat split.
    - assert (T : exists prog, tinv prog th).
      { clear -F H. induction F as [|p t lp lt HT F IH]; [contradiction|]. destruct H as [<-|H]; eauto. }
      destruct T as [prog [_ [D _]]]. rewrite Forall_forall in D. apply (D d H0).
    - assert (T : exists prog, tinv prog th).
      { clear -F H. induction F as [|p t lp lt HT F IH]; [contradiction|]. destruct H as [<-|H]; eauto. }
      destruct T as [prog [_ [D _]]]. rewrite Forall_forall in D. apply (D d H0).
    - intros t h H. exact (C t h H).
    - apply reg_shape_datetime, R.
    - clear -F. induction F as [|p t lp lt HT F IH]; constructor; auto. intros Fin. apply tinv_finished; assumption.
  Qed.
End Semantics.

Definition dispatch_history_independent_thm := dispatch_history_independent_sec.
Definition dispatch_interleaving_independent_thm := dispatch_interleaving_independent_sec.
Definition model_functions_total_on_inputs_thm := model_functions_total_on_inputs_sec.
