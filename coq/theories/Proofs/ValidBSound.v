(** valid_b reflects validity: every real instance on which the correspondence run evaluates valid_b to true is in the domain
    of the round-trip theorem (instantiated with the converter tables of that run). *)
From OfxV Require Import Base.Prelude Model.Schema Model.SchemaWf Model.Convert Model.ValidB
     Proofs.RoundTrip3 Proofs.RoundTrip5 Proofs.RoundTrip6.
Local Open Scope string_scope.

Section VBS.
  Variable sval : Type.
  Variable sval_eqb : sval -> sval -> bool.
  Hypothesis sval_eqb_eq : forall a b, sval_eqb a b = true -> a = b.
  Variable conv : N -> sin sval -> result (option sval).
  Variable unconv : N -> sval -> result text.
  Variable S : schema.

Lemma inst_eqb_eq : forall a b : inst sval, ginst_eqb sval sval_eqb a b = true -> a = b.
Proof.
  induction a as [ca fa ma IHf IHm] using (inst_ind' sval). intros [cb fb mb] H. cbn [ginst_eqb] in H.
  apply andb_true_iff in H. destruct H as [H Hm]. apply andb_true_iff in H. destruct H as [Hc Hf].
  apply String.eqb_eq in Hc. subst cb. f_equal.
  - clear Hm IHm. revert fb Hf. induction fa as [|[k u] fa IHl]; intros [|[k' v] fb] Hf; try discriminate; [reflexivity|].
    apply andb_true_iff in Hf. destruct Hf as [Hf Hr]. apply andb_true_iff in Hf. destruct Hf as [Hk Hv]. apply String.eqb_eq in Hk. subst k'.
    f_equal.
    + f_equal. destruct u as [|x|i], v as [|y|j]; try discriminate; [reflexivity|apply sval_eqb_eq in Hv; subst; reflexivity|].
      f_equal. apply (IHf k i); [left; reflexivity|exact Hv].
    + apply IHl; [intros k0 j0 Hin; apply (IHf k0 j0); right; exact Hin|exact Hr].
  - clear Hf IHf. revert mb Hm. induction ma as [|u ma IHl]; intros [|v mb] Hm; try discriminate; [reflexivity|].
    apply andb_true_iff in Hm. destruct Hm as [Hv Hr]. f_equal.
    + destruct u as [i|s|x], v as [j|t|y]; try discriminate.
      * f_equal. apply (IHm i); [left; reflexivity|exact Hv].
      * f_equal. apply text_eqb_eq. exact Hv.
      * f_equal. destruct x, y; try discriminate; [apply sval_eqb_eq in Hv; subst; reflexivity|reflexivity].
    + apply IHl; [intros j0 Hin; apply (IHm j0); right; exact Hin|exact Hr].
Qed.

  Lemma scalar_ok_spec t x : scalar_ok sval sval_eqb conv unconv t x = true -> exists s, unconv t x = OK s /\ s <> [] /\ conv t (SText sval s) = OK (Some x).
  Proof.
    unfold scalar_ok. destruct (unconv t x) as [s|e]; [|discriminate]. intro H. apply andb_true_iff in H. destruct H as [Hn Hc].
    exists s. split; [reflexivity|]. split; [intros ->; discriminate|].
    destruct (conv t (SText sval s)) as [[y|]|e]; try discriminate. apply sval_eqb_eq in Hc. subst y. reflexivity.
  Qed.

  Lemma strs_eqb_eq (a b : list string) : strs_eqb a b = true -> a = b.
  Proof. apply (list_eqb_eq String.eqb). intros x y. apply String.eqb_eq. Qed.

  Theorem valid_b_sound_l : forall i, valid_b sval sval_eqb conv unconv S i = true -> valid sval conv unconv S i.
  Proof.
    induction i as [cn fs ms IHf IHm] using (inst_ind' sval). intro H. cbn [valid_b] in H.
    destruct (find_cls S cn) as [c|] eqn:Hcls; [|discriminate].
    apply andb_true_iff in H; destruct H as [H Hcan]. apply andb_true_iff in H; destruct H as [H Hsp].
    apply andb_true_iff in H; destruct H as [H Hms]. apply andb_true_iff in H; destruct H as [H Hfs].
    apply andb_true_iff in H; destruct H as [Hcl Hnm].
    apply (Valid sval conv unconv S cn c (class_lb c) (class_ub c) fs ms Hcls (rt_class_okb_sound_l c Hcl) (strs_eqb_eq _ _ Hnm)).
    - clear -Hfs sval_eqb_eq. induction fs as [|[k0 v0] fs IHl]; intros k x Hin; [contradiction|].
      destruct v0 as [|x0|j0].
      + destruct Hin as [E|Hin]; [discriminate|apply (IHl Hfs k x Hin)].
      + apply andb_true_iff in Hfs. destruct Hfs as [H1 H2]. destruct Hin as [E|Hin]; [|apply (IHl H2 k x Hin)].
        injection E as -> ->. destruct (assoc k (ci_spec c)) as [[ty req| | | |]|]; try discriminate.
        destruct (scalar_ok_spec _ _ H1) as (s & Hs). exists ty, req, s. split; [reflexivity|exact Hs].
      + repeat (apply andb_true_iff in Hfs; destruct Hfs as [Hfs ?]). destruct Hin as [E|Hin]; [discriminate|apply (IHl H k x Hin)].
    - clear -Hfs sval_eqb_eq. induction fs as [|[k0 v0] fs IHl]; intros k j Hin; [contradiction|].
      destruct v0 as [|x0|j0].
      + destruct Hin as [E|Hin]; [discriminate|apply (IHl Hfs k j Hin)].
      + apply andb_true_iff in Hfs. destruct Hfs as [H1 H2]. destruct Hin as [E|Hin]; [discriminate|apply (IHl H2 k j Hin)].
      + repeat (apply andb_true_iff in Hfs; destruct Hfs as [Hfs ?]). destruct Hin as [E|Hin]; [|apply (IHl H k j Hin)].
        injection E as -> ->. destruct (assoc k (ci_spec c)) as [[|t req| | |]|]; try discriminate.
        exists t, req. split; [reflexivity|]. split; [apply String.eqb_eq; assumption|apply negb_true_iff; assumption].
    - intros k j Hin. apply (IHf k j Hin). clear -Hfs Hin. induction fs as [|[k0 v0] fs IHl]; [contradiction|].
      destruct v0 as [|x0|j0].
      + destruct Hin as [E|Hin]; [discriminate|apply (IHl Hfs Hin)].
      + apply andb_true_iff in Hfs. destruct Hfs as [H1 H2]. destruct Hin as [E|Hin]; [discriminate|apply (IHl H2 Hin)].
      + repeat (apply andb_true_iff in Hfs; destruct Hfs as [Hfs ?]). destruct Hin as [E|Hin]; [|apply (IHl H Hin)].
        injection E as -> ->. assumption.
    - clear -Hms sval_eqb_eq. induction ms as [|m0 ms IHl]; intros j Hin; [contradiction|].
      destruct m0 as [j0|s0|[x0|]]; try discriminate.
      + repeat (apply andb_true_iff in Hms; destruct Hms as [Hms ?]). destruct Hin as [E|Hin]; [|apply (IHl H j Hin)].
        injection E as ->. split; [apply negb_true_iff; assumption|]. split; [assumption|apply negb_true_iff; assumption].
      + repeat (apply andb_true_iff in Hms; destruct Hms as [Hms ?]). destruct Hin as [E|Hin]; [discriminate|apply (IHl H j Hin)].
    - intros j Hin. apply (IHm j Hin). clear -Hms Hin. induction ms as [|m0 ms IHl]; [contradiction|].
      destruct m0 as [j0|s0|[x0|]]; try discriminate.
      + repeat (apply andb_true_iff in Hms; destruct Hms as [Hms ?]). destruct Hin as [E|Hin]; [|apply (IHl H Hin)].
        injection E as ->. assumption.
      + repeat (apply andb_true_iff in Hms; destruct Hms as [Hms ?]). destruct Hin as [E|Hin]; [discriminate|apply (IHl H Hin)].
    - clear -Hms sval_eqb_eq. induction ms as [|m0 ms IHl]; intros v Hin; [contradiction|].
      destruct m0 as [j0|s0|[x0|]]; try discriminate.
      + repeat (apply andb_true_iff in Hms; destruct Hms as [Hms ?]). destruct Hin as [E|Hin]; [discriminate|apply (IHl H v Hin)].
      + repeat (apply andb_true_iff in Hms; destruct Hms as [Hms ?]). destruct Hin as [E|Hin]; [|apply (IHl H v Hin)].
        injection E as <-. split; [assumption|]. destruct (the_listelem c) as [[k ty]|]; [|discriminate].
        destruct (scalar_ok_spec _ _ H0) as (s & Hs). exists x0, k, ty, s. split; [reflexivity|]. split; [reflexivity|exact Hs].
    - clear -Hms sval_eqb_eq. induction ms as [|m0 ms IHl]; intros s Hin; [contradiction|].
      destruct m0 as [j0|s0|[x0|]]; try discriminate.
      + repeat (apply andb_true_iff in Hms; destruct Hms as [Hms ?]). destruct Hin as [E|Hin]; [discriminate|apply (IHl H s Hin)].
      + repeat (apply andb_true_iff in Hms; destruct Hms as [Hms ?]). destruct Hin as [E|Hin]; [discriminate|apply (IHl H s Hin)].
    - intro Hn. rewrite Hn in Hsp. destruct ms; [reflexivity|discriminate].
    - destruct (construct sval conv S cn (canon_args sval unconv c ms) (canon_kw sval unconv c fs)) as [j|e]; [|discriminate].
      apply inst_eqb_eq in Hcan. subst j. reflexivity.
  Qed.
End VBS.
