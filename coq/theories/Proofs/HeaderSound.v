(** Soundness of the recognisers: what a successful match says about the text (every value is a non-empty run of
    its class after "NAME:" and optional whitespace); what a successful constructor call says about its arguments
    (every field is in the validator's domain); parse never fails with anything but the header error.
    C12: v1_field_domain, v2_field_domain, make_header_kind, non_numeric_version_rejected. *)
From OfxV Require Import Base.Prelude Base.Digits Gen.HeaderGen Model.Header Model.HeaderLayout
  Proofs.HeaderChars Proofs.HeaderMatch Proofs.HeaderV1 Proofs.HeaderInit Proofs.HeaderV2.
From Coq Require Import ZifyBool ZifyN ZifyNat.
Local Open Scope N_scope.

(** * recogniser soundness *)
Lemma strip_prefix_sound p : forall s t, strip_prefix p s = Some t -> s = p ++ t.
Proof.
  induction p as [|a p IH]; intros s t H; [cbn in H; injection H as H; subst; reflexivity|].
  destruct s as [|b s]; [discriminate H|]. cbn [strip_prefix] in H. destruct (a =? b) eqn:E; [|discriminate H].
  apply N.eqb_eq in E. subst b. cbn [app]. f_equal. apply IH. exact H.
Qed.
Lemma skipws_split s : exists w, forallb is_space w = true /\ s = w ++ skipws s.
Proof.
  induction s as [|c s [w [W E]]]; [exists []; split; reflexivity|].
  cbn [skipws]. destruct (is_space c) eqn:C.
  - exists (c :: w). split; [cbn [forallb]; rewrite C; exact W|cbn [app]; f_equal; exact E].
  - exists []. split; reflexivity.
Qed.
Lemma try_ends_sound {A} (k : text -> option A) rv : forall back v a,
  try_ends k rv back = Some (v, a) -> exists x, rev rv = v ++ x /\ v <> [] /\ k (x ++ back) = Some a.
Proof.
  induction rv as [|c rv IH]; intros back v a H; [discriminate H|].
  cbn [try_ends] in H. destruct (k back) as [a'|] eqn:K.
  - injection H as H1 H2. subst v a'. exists []. rewrite app_nil_r. split; [reflexivity|]. split; [|exact K].
    cbn [rev]. intro E. apply app_eq_nil in E. destruct E as [_ E]. discriminate E.
  - apply IH in H. destruct H as [x [E [NE K']]]. exists (x ++ [c]). split; [cbn [rev]; rewrite E, app_assoc; reflexivity|].
    split; [exact NE|]. rewrite <- app_assoc. exact K'.
Qed.
Lemma forallb_app_l {A} (p : A -> bool) a b : forallb p (a ++ b) = true -> forallb p a = true.
Proof. rewrite forallb_app, andb_true_iff. tauto. Qed.

Lemma match_field_sound {A} name cls (k : text -> option A) s v a :
  match_field name cls k s = Some (v, a) ->
  exists w x, s = name ++ 58 :: w ++ v ++ x /\ forallb is_space w = true /\ forallb cls v = true /\ v <> [] /\ k x = Some a.
Proof.
  unfold match_field. intro H. destruct (strip_prefix (name ++ [58]) s) as [s1|] eqn:P; [|discriminate H].
  apply strip_prefix_sound in P. destruct (skipws_split s1) as [w [W E]].
  destruct (span cls (skipws s1)) as [run rest] eqn:S.
  apply try_ends_sound in H. destruct H as [x [R [NE K]]]. rewrite rev_involutive in R.
  pose proof (span_split cls (skipws s1)) as [SS SA]. rewrite S in SS, SA. cbn [fst snd] in SS, SA.
  exists w, (x ++ rest). split; [|split; [exact W|split; [|split; [exact NE|exact K]]]].
  - rewrite P, <- app_assoc. cbn [app]. f_equal. f_equal. rewrite E at 1. f_equal. rewrite SS, R, <- app_assoc. reflexivity.
  - rewrite R in SA. apply (forallb_app_l _ _ _ SA).
Qed.

(** the values of a v1 match are non-empty runs of their classes *)
Record v1_classes (oh da ve se en ch : text) (co : option text) (ol ne : text) : Prop := {
  c_oh : oh <> [] /\ forallb is_decimal oh = true; c_da : da <> [] /\ forallb is_AZ da = true;
  c_ve : ve <> [] /\ forallb is_decimal ve = true; c_se : se <> [] /\ forallb is_word se = true;
  c_en : en <> [] /\ forallb is_enc en = true; c_ch : ch <> [] /\ forallb is_word_dash ch = true;
  c_co : match co with Some c => c <> [] /\ forallb is_AZ c = true | None => True end;
  c_ol : ol <> [] /\ forallb is_word_dash ol = true; c_ne : ne <> [] /\ forallb is_word_dash ne = true }.

Lemma v1_tail_classes s ol ne fin : v1_tail s = Some (ol, (ne, fin)) ->
  (ol <> [] /\ forallb is_word_dash ol = true) /\ (ne <> [] /\ forallb is_word_dash ne = true).
Proof.
  unfold v1_tail. intro H. apply match_field_sound in H. destruct H as [w [x [_ [_ [C1 [N1 K]]]]]].
  apply match_field_sound in K. destruct K as [w' [x' [_ [_ [C2 [N2 _]]]]]]. tauto.
Qed.
Lemma match_v1_classes s oh da ve se en ch co ol ne fin :
  match_v1_at s = Some (oh, (da, (ve, (se, (en, (ch, (co, (ol, (ne, fin))))))))) -> v1_classes oh da ve se en ch co ol ne.
Proof.
  unfold match_v1_at. intro H.
  apply match_field_sound in H. destruct H as [? [? [_ [_ [C1 [N1 H]]]]]].
  apply match_field_sound in H. destruct H as [? [? [_ [_ [C2 [N2 H]]]]]].
  apply match_field_sound in H. destruct H as [? [? [_ [_ [C3 [N3 H]]]]]].
  apply match_field_sound in H. destruct H as [? [? [_ [_ [C4 [N4 H]]]]]].
  apply match_field_sound in H. destruct H as [? [? [_ [_ [C5 [N5 H]]]]]].
  apply match_field_sound in H. destruct H as [? [? [_ [_ [C6 [N6 H]]]]]].
  unfold v1_compression_tail in H.
  match type of H with match ?X with _ => _ end = _ => destruct X as [[c r]|] eqn:M end.
  - injection H as H1 H2. subst co r. apply match_field_sound in M. destruct M as [? [? [_ [_ [C7 [N7 M]]]]]].
    apply v1_tail_classes in M. constructor; tauto.
  - match type of H with match ?X with _ => _ end = _ => destruct X as [r|] eqn:M' end; [|discriminate H]. injection H as H1 H2. subst co r.
    apply v1_tail_classes in M'. constructor; tauto.
Qed.
Lemma search_sound {A} (m : text -> option A) s r : search m s = Some r -> exists pre t, s = pre ++ t /\ m t = Some r.
Proof.
  induction s as [|c s IH]; cbn [search]; intro H.
  - destruct (m []) eqn:E; [|discriminate H]. exists [], []. split; [reflexivity|]. rewrite E. exact H.
  - destruct (m (c :: s)) eqn:E.
    + exists [], (c :: s). split; [reflexivity|]. rewrite E. exact H.
    + apply IH in H. destruct H as [pre [t [E1 E2]]]. exists (c :: pre), t. split; [cbn [app]; f_equal; exact E1|exact E2].
Qed.
Lemma search_v1_classes s oh da ve se en ch co ol ne fin :
  search_v1 s = Some (oh, (da, (ve, (se, (en, (ch, (co, (ol, (ne, fin))))))))) -> v1_classes oh da ve se en ch co ol ne.
Proof. unfold search_v1. intro H. apply search_sound in H. destruct H as [pre [t [_ M]]]. apply match_v1_classes in M. exact M. Qed.

(** * constructor soundness: an accepted call has every field in its validator's domain *)
Lemma bind_ok {A B} (r : result A) (f : A -> result B) b : bind r f = OK b -> exists a, r = OK a /\ f a = OK b.
Proof. destruct r as [a|k]; cbn [bind]; intro H; [exists a; split; [reflexivity|exact H]|discriminate H]. Qed.
Lemma oneof_text_ok valid v y : oneof_text valid v = OK y -> y = v /\ mem_text v valid = true.
Proof. unfold oneof_text, mem_text. destruct (existsb (text_eqb v) valid); intro H; [injection H as H; split; congruence|discriminate H]. Qed.
Lemma oneof_int_ok valid v y : oneof_int valid v = OK y -> y = v /\ In v valid.
Proof.
  unfold oneof_int. destruct (existsb (Z.eqb v) valid) eqn:E; intro H; [|discriminate H]. injection H as H. split; [congruence|].
  apply existsb_exists in E. destruct E as [x [I E]]. apply Z.eqb_eq in E. subst. exact I.
Qed.
Lemma integer_conv_ok l v y : integer_conv (Some l) v = OK y -> y = v /\ (Z.abs v < Z.of_N (10 ^ l))%Z.
Proof. unfold integer_conv. destruct (Z.of_N (10 ^ l) <=? Z.abs v)%Z eqn:E; intro H; [discriminate H|]. injection H as H. split; [congruence|lia]. Qed.
Lemma string_conv_ok l v y : string_conv (Some l) v = OK y -> y = unescape v /\ len (unescape v) <= l.
Proof. unfold string_conv. destruct (l <? len (unescape v)) eqn:E; intro H; [discriminate H|]. injection H as H. split; [congruence|lia]. Qed.

Record init1_facts (version : pyv) (ofxheader : option pyv) (data security encoding charset compression old new : option text) (a : hdr1) : Prop := {
  i_oh : In (h1_ofxheader a) v1_ofxheader_valid /\ int_or ofxheader 100 = OK (h1_ofxheader a);
  i_da : h1_data a = or_text data (T "OFXSGML") /\ mem_text (h1_data a) v1_data_valid = true;
  i_ve : int_or (Some version) 102 = OK (h1_version a) /\ (Z.abs (h1_version a) < 1000)%Z;
  i_se : h1_security a = or_text security (T "NONE") /\ mem_text (h1_security a) v1_security_valid = true;
  i_en : h1_encoding a = or_text encoding (T "USASCII") /\ mem_text (h1_encoding a) v1_encoding_valid = true;
  i_ch : h1_charset a = or_text charset (T "NONE") /\ mem_text (h1_charset a) v1_charset_valid = true;
  i_co : h1_compression a = or_text compression (T "NONE") /\ mem_text (h1_compression a) v1_compression_valid = true;
  i_ol : h1_old a = unescape (or_text old (T "NONE")) /\ len (h1_old a) <= 36;
  i_ne : h1_new a = unescape (or_text new (T "NONE")) /\ len (h1_new a) <= 36 }.
Lemma init_v1_sound v oh da se en ch co ol ne a :
  init_v1 v oh da se en ch co ol ne = OK a -> init1_facts v oh da se en ch co ol ne a.
Proof.
  unfold init_v1. intro H.
  apply bind_ok in H. destruct H as [x1 [E1 H]]. apply bind_ok in H. destruct H as [x2 [E2 H]].
  apply bind_ok in H. destruct H as [x3 [E3 H]]. apply bind_ok in H. destruct H as [x4 [E4 H]].
  apply bind_ok in H. destruct H as [x5 [E5 H]]. apply bind_ok in H. destruct H as [x6 [E6 H]].
  apply bind_ok in H. destruct H as [x7 [E7 H]]. apply bind_ok in H. destruct H as [x8 [E8 H]].
  apply bind_ok in H. destruct H as [x9 [E9 H]]. apply bind_ok in H. destruct H as [x10 [E10 H]].
  apply bind_ok in H. destruct H as [x11 [E11 H]]. injection H as H. subst a.
  apply oneof_int_ok in E2. apply oneof_text_ok in E3. change v1_version_len with (Some 3) in E5. apply integer_conv_ok in E5.
  apply oneof_text_ok in E6. apply oneof_text_ok in E7. apply oneof_text_ok in E8. apply oneof_text_ok in E9.
  change v1_old_len with (Some 36) in E10. change v1_new_len with (Some 36) in E11.
  apply string_conv_ok in E10. apply string_conv_ok in E11.
  destruct E2 as [-> I2]. destruct E3 as [-> I3]. destruct E5 as [-> I5]. destruct E6 as [-> I6]. destruct E7 as [-> I7].
  destruct E8 as [-> I8]. destruct E9 as [-> I9]. destruct E10 as [-> I10]. destruct E11 as [-> I11].
  constructor; cbn [h1_ofxheader h1_data h1_version h1_security h1_encoding h1_charset h1_compression h1_old h1_new]; try (split; [reflexivity|assumption]); try (split; assumption).
Qed.

Record init2_facts (version : pyv) (ofxheader : option pyv) (security old new : option text) (a : hdr2) : Prop := {
  j_ve : py_int version = Some (h2_version a) /\ In (h2_version a) v2_version_valid;
  j_oh : In (h2_ofxheader a) v2_ofxheader_valid /\ int_or ofxheader 200 = OK (h2_ofxheader a);
  j_se : h2_security a = or_text security (T "NONE") /\ mem_text (h2_security a) v2_security_valid = true;
  j_ol : h2_old a = unescape (or_text old (T "NONE")) /\ len (h2_old a) <= 36;
  j_ne : h2_new a = unescape (or_text new (T "NONE")) /\ len (h2_new a) <= 36 }.
Lemma init_v2_sound v oh se ol ne a : init_v2 v oh se ol ne = OK a -> init2_facts v oh se ol ne a.
Proof.
  unfold init_v2. destruct (py_int v) as [z|] eqn:P; [|discriminate]. intro H.
  apply bind_ok in H. destruct H as [x1 [E1 H]]. apply bind_ok in H. destruct H as [x2 [E2 H]].
  apply bind_ok in H. destruct H as [x3 [E3 H]]. apply bind_ok in H. destruct H as [x4 [E4 H]].
  apply bind_ok in H. destruct H as [x5 [E5 H]]. apply bind_ok in H. destruct H as [x6 [E6 H]]. injection H as H. subst a.
  apply oneof_int_ok in E1. apply oneof_int_ok in E3. apply oneof_text_ok in E4.
  change v2_old_len with (Some 36) in E5. change v2_new_len with (Some 36) in E6. apply string_conv_ok in E5. apply string_conv_ok in E6.
  destruct E1 as [-> I1]. destruct E3 as [-> I3]. destruct E4 as [-> I4]. destruct E5 as [-> I5]. destruct E6 as [-> I6].
  constructor; cbn [h2_ofxheader h2_version h2_security h2_old h2_new]; try (split; [reflexivity|assumption]); try (split; assumption).
Qed.

(** * the constructors and the parsers raise nothing but the header error *)
Lemma bind_no_crash {A B} (r : result A) (f : A -> result B) :
  r <> Err Crash -> (forall a, f a <> Err Crash) -> bind r f <> Err Crash.
Proof. destruct r as [a|[|]]; cbn [bind]; intros H1 H2; [apply H2|discriminate|contradiction]. Qed.
Lemma int_or_no_crash x d : int_or x d <> Err Crash.
Proof. unfold int_or. destruct x as [v|]; [|discriminate]. destruct (truthy v); [|discriminate]. destruct (py_int v); discriminate. Qed.
Lemma oneof_int_no_crash l v : oneof_int l v <> Err Crash.
Proof. unfold oneof_int. destruct (existsb _ _); discriminate. Qed.
Lemma oneof_text_no_crash l v : oneof_text l v <> Err Crash.
Proof. unfold oneof_text. destruct (existsb _ _); discriminate. Qed.
Lemma integer_conv_no_crash l v : integer_conv l v <> Err Crash.
Proof. unfold integer_conv. destruct l; [destruct (_ <=? _)%Z|]; discriminate. Qed.
Lemma string_conv_no_crash l v : string_conv l v <> Err Crash.
Proof. unfold string_conv. destruct l; [destruct (_ <? _)|]; discriminate. Qed.
Lemma init_v1_no_crash v oh da se en ch co ol ne : init_v1 v oh da se en ch co ol ne <> Err Crash.
Proof.
  unfold init_v1.
  repeat (apply bind_no_crash; [first [apply int_or_no_crash|apply oneof_int_no_crash|apply oneof_text_no_crash|apply integer_conv_no_crash|apply string_conv_no_crash]|intro]).
  discriminate.
Qed.
Lemma init_v2_no_crash v oh se ol ne : init_v2 v oh se ol ne <> Err Crash.
Proof.
  unfold init_v2. destruct (py_int v); [|discriminate].
  repeat (apply bind_no_crash; [first [apply int_or_no_crash|apply oneof_int_no_crash|apply oneof_text_no_crash|apply integer_conv_no_crash|apply string_conv_no_crash]|intro]).
  discriminate.
Qed.
Lemma parse_v1_no_crash s : parse_v1 s <> Err Crash.
Proof.
  unfold parse_v1. destruct (search_v1 s) as [[oh [da [ve [se [en [ch [co [ol [ne fin]]]]]]]]]|]; [|discriminate].
  apply bind_no_crash; [apply init_v1_no_crash|discriminate].
Qed.
Lemma parse_v2_no_crash s : parse_v2 s <> Err Crash.
Proof.
  unfold parse_v2. destruct (search_v2 s) as [[oh [ve [se [ol [ne fin]]]]]|]; [|discriminate].
  apply bind_no_crash; [apply init_v2_no_crash|discriminate].
Qed.
Lemma make_header_no_crash v se ol ne : make_header v se ol ne <> Err Crash.
Proof.
  unfold make_header. destruct (py_int v); [|discriminate]. destruct (_ =? 1)%Z.
  - pose proof (init_v1_no_crash v None None se None None None ol ne). destruct (init_v1 _ _ _ _ _ _ _ _ _) as [|[|]]; cbn [rmap]; congruence.
  - destruct (_ =? 2)%Z; [|discriminate].
    pose proof (init_v2_no_crash v None se ol ne). destruct (init_v2 _ _ _ _ _) as [|[|]]; cbn [rmap]; congruence.
Qed.

(** the generated domains are within the specification's tables (an ADDED token breaks these) *)
Lemma gen_domains_within_spec :
  v1_ofxheader_valid = [100%Z] /\ v1_data_valid = [T "OFXSGML"] /\ v1_compression_valid = [T "NONE"]
  /\ forallb (fun t => mem_text t spec_security) v1_security_valid = true
  /\ forallb (fun t => mem_text t spec_encoding) v1_encoding_valid = true
  /\ forallb (fun t => mem_text t spec_charset) v1_charset_valid = true
  /\ v2_ofxheader_valid = [200%Z] /\ forallb (fun z => existsb (Z.eqb z) spec_v2_versions) v2_version_valid = true
  /\ forallb (fun t => mem_text t spec_security) v2_security_valid = true.
Proof. vm_compute. repeat split; reflexivity. Qed.
Lemma mem_within t gen spec : mem_text t gen = true -> forallb (fun x => mem_text x spec) gen = true -> mem_text t spec = true.
Proof. intros M F. apply mem_text_in in M. rewrite forallb_forall in F. apply F, M. Qed.

Lemma word_dash_no_amp u : forallb is_word_dash u = true -> unescape u = u.
Proof.
  intro H. unfold unescape. assert (E : mem_N 38 u = false); [|rewrite E; reflexivity].
  induction u as [|c u IH]; [reflexivity|]. cbn [forallb] in H. apply andb_true_iff in H. destruct H as [Hc Hu].
  unfold mem_N in *. cbn [existsb]. rewrite (IH Hu). destruct (38 =? c) eqn:E; [|reflexivity].
  apply N.eqb_eq in E. subst c. vm_compute in Hc. discriminate Hc.
Qed.
Lemma or_text_nonempty v d : v <> [] -> or_text (Some v) d = v.
Proof. apply or_text_some. Qed.
Lemma int_or_str v d z : v <> [] -> int_or (Some (VStr v)) d = OK z -> int_of_text v = Some z.
Proof.
  intros NE. unfold int_or, truthy, py_int. destruct v; [contradiction|]. cbn [negb len].
  destruct (len (n :: v) =? 0) eqn:E; [unfold len in E; cbn [List.length] in E; lia|]. cbn [negb].
  destruct (int_of_text (n :: v)); intro H; [injection H as H; congruence|discriminate H].
Qed.

(** * C12 v1_field_domain: whatever header text the pattern accepts, a header object exists only if every field
    is in its domain; otherwise the outcome is the header error. *)
Record v1_domain (oh da ve se en ch : text) (co : option text) (ol ne : text) (a : hdr1) : Prop := {
  d_oh : int_of_text oh = Some 100%Z /\ h1_ofxheader a = 100%Z;
  d_da : da = T "OFXSGML" /\ h1_data a = da;
  d_ve : int_of_text ve = Some (h1_version a) /\ (0 <= h1_version a < 1000)%Z;
  d_se : mem_text se spec_security = true /\ h1_security a = se;
  d_en : mem_text en spec_encoding = true /\ h1_encoding a = en;
  d_ch : mem_text ch spec_charset = true /\ h1_charset a = ch;
  d_co : (co = None \/ co = Some (T "NONE")) /\ h1_compression a = T "NONE";
  d_ol : len ol <= 36 /\ h1_old a = ol;
  d_ne : len ne <= 36 /\ h1_new a = ne }.

Lemma digits_acc_nonneg s : forall acc p n, digits_acc s acc p = Some n -> True.
Proof. intros. exact I. Qed.
Lemma decimal_text_nonneg v z : v <> [] -> forallb is_decimal v = true -> int_of_text v = Some z -> (0 <= z)%Z.
Proof.
  intros NE D. unfold int_of_text.
  set (s1 := rev (skip_int_space (rev (skip_int_space v)))).
  (* a text of decimal digits does not start with a sign, so the value is Z.of_N of something *)
  assert (S : skip_int_space v = v).
  { destruct v as [|c v]; [contradiction|]. cbn [forallb] in D. apply andb_true_iff in D. destruct D as [Dc _].
    cbn [skip_int_space]. unfold int_space. destruct (c <? 128) eqn:L.
    - assert (X : ((9 <=? c) && (c <=? 13) || (c =? 32)) = false); [|rewrite X; reflexivity].
      destruct ((9 <=? c) && (c <=? 13) || (c =? 32)) eqn:X; [|reflexivity]. exfalso.
      assert (Sp : is_space c = true).
      { refine (sweep_impl (fun c => (9 <=? c) && (c <=? 13) || (c =? 32)) is_space 128 _ c _ X); [vm_compute; reflexivity|lia]. }
      apply space_not_decimal in Sp. congruence.
    - destruct (is_space c) eqn:Sp; [apply space_not_decimal in Sp; congruence|reflexivity]. }
  assert (Hd : forall c r, s1 = c :: r -> is_decimal c = true \/ True) by (intros; right; exact I).
  assert (Sg : forall c r, s1 = c :: r -> c = 45 -> False).
  { intros c r E C. subst c. unfold s1 in E. rewrite S in E.
    (* the first character of s1 is a character of v *)
    assert (In 45 v).
    { assert (I45 : In 45 (rev (skip_int_space (rev v)))) by (rewrite E; left; reflexivity).
      apply in_rev in I45.
      assert (Sub : forall t x, In x (skip_int_space t) -> In x t).
      { induction t as [|y t IHt]; cbn [skip_int_space]; [tauto|]. destruct (int_space y); intros x Hx; [right; apply IHt; exact Hx|exact Hx]. }
      apply Sub in I45. apply in_rev in I45. exact I45. }
    rewrite forallb_forall in D. apply D in H. vm_compute in H. discriminate H. }
  destruct s1 as [|c r] eqn:E.
  - cbn. discriminate.
  - destruct (N.eq_dec c 45) as [C|C]; [exfalso; exact (Sg c r eq_refl C)|].
    assert (G : forall o : option N, option_map Z.of_N o = Some z -> (0 <= z)%Z).
    { intros [n|]; cbn; intro H; [injection H as H; lia|discriminate H]. }
    destruct c as [|p]; [apply G|].
    repeat (destruct p as [p|p|]; try (apply G)); try (exfalso; apply C; reflexivity).
Qed.

Lemma singleton_mem t x : mem_text t [x] = true -> t = x.
Proof. intro H. apply mem_text_in in H. destruct H as [H|[]]. congruence. Qed.

Theorem v1_field_domain_l s :
  parse_v1 s = Err Reject \/
  exists oh da ve se en ch co ol ne fin a,
    search_v1 s = Some (oh, (da, (ve, (se, (en, (ch, (co, (ol, (ne, fin)))))))))
    /\ parse_v1 s = OK (a, len s - len fin) /\ v1_domain oh da ve se en ch co ol ne a.
Proof.
  pose proof (parse_v1_no_crash s) as NC. unfold parse_v1 in *.
  destruct (search_v1 s) as [[oh [da [ve [se [en [ch [co [ol [ne fin]]]]]]]]]|] eqn:S; [|left; reflexivity].
  destruct (init_v1 (VStr ve) (Some (VStr oh)) (Some da) (Some se) (Some en) (Some ch) co (Some ol) (Some ne)) as [a|k] eqn:I.
  2:{ left. cbn [bind] in *. destruct k; [reflexivity|contradiction]. }
  right. exists oh, da, ve, se, en, ch, co, ol, ne, fin, a. split; [reflexivity|]. split; [reflexivity|].
  destruct (search_v1_classes _ _ _ _ _ _ _ _ _ _ _ S) as [[Noh Coh] [Nda Cda] [Nve Cve] [Nse Cse] [Nen Cen] [Nch Cch] Cco [Nol Col] [Nne Cne]].
  destruct (init_v1_sound _ _ _ _ _ _ _ _ _ _ I) as [[Ioh Eoh] [Eda Ida] [Eve Ive] [Ese Ise] [Een Ien] [Ech Ich] [Eco Ico] [Eol Iol] [Ene Ine]].
  destruct gen_domains_within_spec as [G1 [G2 [G3 [G4 [G5 [G6 _]]]]]].
  rewrite or_text_some in Eda, Ese, Een, Ech, Eol, Ene by assumption.
  rewrite (word_dash_no_amp ol Col) in Eol. rewrite (word_dash_no_amp ne Cne) in Ene.
  rewrite G1 in Ioh. destruct Ioh as [Ioh|[]]. rewrite G2 in Ida. apply singleton_mem in Ida.
  constructor.
  - split; [|congruence]. apply (int_or_str oh 100%Z); [exact Noh|congruence].
  - split; congruence.
  - assert (X : int_of_text ve = Some (h1_version a)) by (apply (int_or_str ve 102%Z); assumption).
    split; [exact X|]. pose proof (decimal_text_nonneg ve _ Nve Cve X) as Y. clear - Y Ive. lia.
  - split; [|exact Ese]. rewrite <- Ese. apply (mem_within _ _ _ Ise G4).
  - split; [|exact Een]. rewrite <- Een. apply (mem_within _ _ _ Ien G5).
  - split; [|exact Ech]. rewrite <- Ech. apply (mem_within _ _ _ Ich G6).
  - rewrite G3 in Ico. apply singleton_mem in Ico. split; [|exact Ico].
    destruct co as [c|]; [right|left; reflexivity]. destruct Cco as [Nc _]. rewrite or_text_some in Eco by exact Nc. congruence.
  - split; [rewrite <- Eol; exact Iol|exact Eol].
  - split; [rewrite <- Ene; exact Ine|exact Ene].
Qed.

(** * version 2 *)
Lemma qval_sound cls q s v r : qval cls q s = Some (v, r) -> v <> [] /\ forallb cls v = true /\ s = v ++ q :: r.
Proof.
  unfold qval. pose proof (span_split cls s) as [E F]. destruct (span cls s) as [run rest]. cbn [fst snd] in *.
  destruct run as [|c run]; [discriminate|]. destruct rest as [|d rest]; [discriminate|].
  destruct (d =? q) eqn:D; [|discriminate]. apply N.eqb_eq in D. subst d. intro H. injection H as H1 H2. subst v r.
  split; [discriminate|]. split; [exact F|exact E].
Qed.
Lemma attr2_sound name cls s v r : attr2 name cls s = Some (v, r) -> v <> [] /\ forallb cls v = true.
Proof.
  unfold attr2. destruct (strip_prefix _ s) as [t|]; [|discriminate]. cbn [obind]. intro H. apply qval_sound in H. tauto.
Qed.
Lemma obind_some {A B} (o : option A) (f : A -> option B) b : obind o f = Some b -> exists a, o = Some a /\ f a = Some b.
Proof. destruct o as [a|]; cbn [obind]; intro H; [exists a; split; [reflexivity|exact H]|discriminate H]. Qed.
Record v2_classes (oh ve se ol ne : text) : Prop := {
  c2_oh : oh <> [] /\ forallb is_decimal oh = true; c2_ve : ve <> [] /\ forallb is_decimal ve = true;
  c2_se : se <> [] /\ forallb is_word se = true; c2_ol : ol <> [] /\ forallb is_word_dash ol = true;
  c2_ne : ne <> [] /\ forallb is_word_dash ne = true }.
Lemma match_v2_classes s oh ve se ol ne fin : match_v2_at s = Some (oh, (ve, (se, (ol, (ne, fin))))) -> v2_classes oh ve se ol ne.
Proof.
  unfold match_v2_at. intro H.
  apply obind_some in H. destruct H as [? [_ H]]. apply obind_some in H. destruct H as [? [_ H]].
  apply obind_some in H. destruct H as [[oh' ?] [A1 H]]. apply obind_some in H. destruct H as [? [_ H]].
  apply obind_some in H. destruct H as [[ve' ?] [A2 H]]. apply obind_some in H. destruct H as [? [_ H]].
  apply obind_some in H. destruct H as [[se' ?] [A3 H]]. apply obind_some in H. destruct H as [? [_ H]].
  apply obind_some in H. destruct H as [[ol' ?] [A4 H]]. apply obind_some in H. destruct H as [? [_ H]].
  apply obind_some in H. destruct H as [[ne' ?] [A5 H]]. apply obind_some in H. destruct H as [? [_ H]].
  injection H as -> -> -> -> -> _.
  apply attr2_sound in A1, A2, A3, A4, A5. constructor; assumption.
Qed.

Record v2_domain (oh ve se ol ne : text) (a : hdr2) : Prop := {
  d2_oh : int_of_text oh = Some 200%Z /\ h2_ofxheader a = 200%Z;
  d2_ve : int_of_text ve = Some (h2_version a) /\ In (h2_version a) spec_v2_versions;
  d2_se : mem_text se spec_security = true /\ h2_security a = se;
  d2_ol : len ol <= 36 /\ h2_old a = ol;
  d2_ne : len ne <= 36 /\ h2_new a = ne }.
Theorem v2_field_domain_l s :
  parse_v2 s = Err Reject \/
  exists oh ve se ol ne fin a,
    search_v2 s = Some (oh, (ve, (se, (ol, (ne, fin))))) /\ parse_v2 s = OK (a, len s - len fin) /\ v2_domain oh ve se ol ne a.
Proof.
  pose proof (parse_v2_no_crash s) as NC. unfold parse_v2 in *.
  destruct (search_v2 s) as [[oh [ve [se [ol [ne fin]]]]]|] eqn:S; [|left; reflexivity].
  destruct (init_v2 (VStr ve) (Some (VStr oh)) (Some se) (Some ol) (Some ne)) as [a|k] eqn:I.
  2:{ left. cbn [bind] in *. destruct k; [reflexivity|contradiction]. }
  right. exists oh, ve, se, ol, ne, fin, a. split; [reflexivity|]. split; [reflexivity|].
  unfold search_v2 in S. apply search_sound in S. destruct S as [pre [t [_ M]]]. apply match_v2_classes in M.
  destruct M as [[Noh Coh] [Nve Cve] [Nse Cse] [Nol Col] [Nne Cne]].
  destruct (init_v2_sound _ _ _ _ _ _ I) as [[Pve Ive] [Ioh Eoh] [Ese Ise] [Eol Iol] [Ene Ine]].
  destruct gen_domains_within_spec as [_ [_ [_ [_ [_ [_ [G7 [G8 G9]]]]]]]].
  rewrite or_text_some in Ese, Eol, Ene by assumption.
  rewrite (word_dash_no_amp ol Col) in Eol. rewrite (word_dash_no_amp ne Cne) in Ene.
  rewrite G7 in Ioh. destruct Ioh as [Ioh|[]].
  constructor.
  - split; [|congruence]. apply (int_or_str oh 200%Z); [exact Noh|congruence].
  - split; [exact Pve|]. rewrite forallb_forall in G8. apply G8 in Ive. apply existsb_exists in Ive.
    destruct Ive as [x [Ix Ex]]. apply Z.eqb_eq in Ex. subst x. exact Ix.
  - split; [|exact Ese]. rewrite <- Ese. apply (mem_within _ _ _ Ise G9).
  - split; [rewrite <- Eol; exact Iol|exact Eol].
  - split; [rewrite <- Ene; exact Ine|exact Ene].
Qed.

(** * C12 make_header_kind / non_numeric_version_rejected *)
Lemma int_or_version v d y z : int_or (Some v) d = OK y -> py_int v = Some z -> z <> 0%Z -> y = z.
Proof.
  unfold int_or. intros H P NZ. destruct (truthy v) eqn:Tr.
  - rewrite P in H. injection H as H. congruence.
  - exfalso. destruct v as [z'|t]; cbn [truthy py_int] in *.
    + injection P as P. subst z'. destruct (z =? 0)%Z eqn:E; [lia|discriminate Tr].
    + destruct t; [vm_compute in P; discriminate P|]. unfold len in Tr. cbn [List.length] in Tr. destruct (N.of_nat _ =? 0) eqn:E; [lia|discriminate Tr].
Qed.

Lemma major1 z : (z / 100 =? 1)%Z = true <-> (100 <= z < 200)%Z.
Proof. rewrite Z.eqb_eq. split; intro H; Z.to_euclidean_division_equations; lia. Qed.
Lemma major2 z : (z / 100 =? 2)%Z = true <-> (200 <= z < 300)%Z.
Proof. rewrite Z.eqb_eq. split; intro H; Z.to_euclidean_division_equations; lia. Qed.

Theorem make_header_kind_l v se ol ne :
  match make_header v se ol ne with
  | OK (H1 a) => exists z, py_int v = Some z /\ (100 <= z < 200)%Z /\ h1_version a = z /\ h1_ofxheader a = 100%Z
                           /\ exists t, str_hdr (H1 a) = T "OFXHEADER:100" ++ t
  | OK (H2 a) => exists z, py_int v = Some z /\ In z spec_v2_versions /\ h2_version a = z /\ h2_ofxheader a = 200%Z
                           /\ exists t, str_hdr (H2 a) = T "<?xml " ++ t
  | Err Reject => True
  | Err Crash => False
  end.
Proof.
  pose proof (make_header_no_crash v se ol ne) as NC. unfold make_header in *.
  destruct (py_int v) as [z|] eqn:P; [|exact I].
  destruct (z / 100 =? 1)%Z eqn:M1.
  - destruct (init_v1 v None None se None None None ol ne) as [a|[|]] eqn:E; cbn [rmap] in *; [|exact I|contradiction].
    destruct (init_v1_sound _ _ _ _ _ _ _ _ _ _ E) as [[Ioh Eoh] _ [Eve Ive] _ _ _ _ _ _].
    assert (R : (100 <= z < 200)%Z) by (apply major1; exact M1).
    exists z. split; [reflexivity|]. split; [exact R|]. split; [apply (int_or_version v 102%Z); [exact Eve|exact P|clear - R; lia]|].
    cbn [int_or] in Eoh. injection Eoh as Eoh. split; [congruence|].
    cbn [str_hdr]. unfold str_v1. rewrite <- Eoh. eexists. reflexivity.
  - destruct (z / 100 =? 2)%Z eqn:M2; [|exact I].
    destruct (init_v2 v None se ol ne) as [a|[|]] eqn:E; cbn [rmap] in *; [|exact I|contradiction].
    destruct (init_v2_sound _ _ _ _ _ _ E) as [[Pve Ive] [Ioh Eoh] _ _ _].
    destruct gen_domains_within_spec as [_ [_ [_ [_ [_ [_ [G7 [G8 _]]]]]]]].
    exists z. split; [reflexivity|]. rewrite P in Pve. injection Pve as Pve. subst z.
    split; [|split; [reflexivity|]].
    + rewrite forallb_forall in G8. apply G8 in Ive. apply existsb_exists in Ive. destruct Ive as [x [Ix Ex]]. apply Z.eqb_eq in Ex. subst x. exact Ix.
    + cbn [int_or] in Eoh. injection Eoh as Eoh. split; [congruence|]. cbn [str_hdr]. unfold str_v2, xml_decl. eexists. reflexivity.
Qed.

(** versions that are neither 1xx nor 2xx, and texts that are not numbers, are refused with the header error *)
Theorem make_header_refuses v se ol ne :
  (py_int v = None -> make_header v se ol ne = Err Reject) /\
  (forall z, py_int v = Some z -> ~ (100 <= z < 300)%Z -> make_header v se ol ne = Err Reject) /\
  (forall z, py_int v = Some z -> (200 <= z < 300)%Z -> ~ In z spec_v2_versions -> make_header v se ol ne = Err Reject).
Proof.
  split; [|split].
  - intro P. unfold make_header. rewrite P. reflexivity.
  - intros z P R. unfold make_header. rewrite P.
    destruct (z / 100 =? 1)%Z eqn:M1; [apply major1 in M1; exfalso; apply R; clear - M1; lia|].
    destruct (z / 100 =? 2)%Z eqn:M2; [apply major2 in M2; exfalso; apply R; clear - M2; lia|]. reflexivity.
  - intros z P R NI. pose proof (make_header_kind_l v se ol ne) as K.
    destruct (make_header v se ol ne) as [[a|a]|[|]]; [| |reflexivity|contradiction].
    + destruct K as [z' [P' [R' _]]]. rewrite P in P'. injection P' as <-. clear - R R'. lia.
    + destruct K as [z' [P' [I' _]]]. rewrite P in P'. injection P' as <-. contradiction.
Qed.

(** valid arguments are accepted, with the defaults the class supplies *)
Definition opt_valid (p : text -> bool) (x : option text) : bool := match x with Some (c :: r) => p (c :: r) | _ => true end.
Theorem make_header_accepts_v1 v z se ol ne : py_int v = Some z -> (100 <= z < 200)%Z ->
  opt_valid (fun s => mem_text s spec_security) se = true -> opt_valid uid_ok ol = true -> opt_valid uid_ok ne = true ->
  make_header v se ol ne = OK (H1 (Hdr1 100 (T "OFXSGML") z (or_text se (T "NONE")) (T "USASCII") (T "NONE") (T "NONE")
                                      (or_text ol (T "NONE")) (or_text ne (T "NONE")))).
Proof.
  intros P R Vse Vol Vne. unfold make_header. rewrite P.
  assert (M : (z / 100 =? 1)%Z = true) by (apply major1; exact R). rewrite M.
  unfold init_v1. cbn [int_or bind].
  change (oneof_int v1_ofxheader_valid 100) with (OK 100%Z : result Z). cbn [bind].
  change (oneof_text v1_data_valid (or_text None (T "OFXSGML"))) with (OK (T "OFXSGML") : result text). cbn [bind].
  assert (Tr : truthy v = true).
  { destruct v as [z'|t]; cbn [truthy py_int] in *; [injection P as ->; destruct (z =? 0)%Z eqn:E; [clear - E R; lia|reflexivity]|].
    destruct t; [vm_compute in P; discriminate P|]. unfold len. cbn [List.length]. destruct (N.of_nat _ =? 0) eqn:E; [clear - E; lia|reflexivity]. }
  rewrite Tr, P. cbn [bind].
  assert (IC : integer_conv v1_version_len z = OK z).
  { unfold integer_conv, v1_version_len. change (Z.of_N (10 ^ 3)) with 1000%Z. destruct (1000 <=? Z.abs z)%Z eqn:E; [clear - E R; lia|reflexivity]. }
  rewrite IC. cbn [bind].
  assert (S : oneof_text v1_security_valid (or_text se (T "NONE")) = OK (or_text se (T "NONE"))).
  { destruct se as [[|c r]|]; try (vm_compute; reflexivity). cbn [opt_valid] in Vse. cbn [or_text]. apply sec1_ok in Vse. tauto. }
  rewrite S. cbn [bind].
  change (oneof_text v1_encoding_valid (or_text None (T "USASCII"))) with (OK (T "USASCII") : result text). cbn [bind].
  change (oneof_text v1_charset_valid (or_text None (T "NONE"))) with (OK (T "NONE") : result text). cbn [bind].
  change (oneof_text v1_compression_valid (or_text None (T "NONE"))) with (OK (T "NONE") : result text). cbn [bind].
  assert (U : forall x, opt_valid uid_ok x = true -> string_conv (Some 36) (or_text x (T "NONE")) = OK (or_text x (T "NONE"))).
  { intros [[|c r]|] Hx; try (vm_compute; reflexivity). cbn [opt_valid] in Hx. cbn [or_text]. apply string_conv_uid. exact Hx. }
  change v1_old_len with (Some 36). change v1_new_len with (Some 36). rewrite (U ol Vol), (U ne Vne). cbn [bind rmap]. reflexivity.
Qed.
Theorem make_header_accepts_v2 v z se ol ne : py_int v = Some z -> In z spec_v2_versions ->
  opt_valid (fun s => mem_text s spec_security) se = true -> opt_valid uid_ok ol = true -> opt_valid uid_ok ne = true ->
  make_header v se ol ne = OK (H2 (Hdr2 200 z (or_text se (T "NONE")) (or_text ol (T "NONE")) (or_text ne (T "NONE")))).
Proof.
  intros P R Vse Vol Vne. unfold make_header. rewrite P.
  destruct (v2_version_range z R) as [Rg O].
  assert (M1 : (z / 100 =? 1)%Z = false).
  { cbn [spec_v2_versions In] in R. destruct R as [H|[H|[H|[H|[H|[H|[H|[]]]]]]]]; subst z; reflexivity. }
  assert (M2 : (z / 100 =? 2)%Z = true).
  { cbn [spec_v2_versions In] in R. destruct R as [H|[H|[H|[H|[H|[H|[H|[]]]]]]]]; subst z; reflexivity. }
  rewrite M1, M2. unfold init_v2. rewrite P, O. cbn [bind int_or].
  change (oneof_int v2_ofxheader_valid 200) with (OK 200%Z : result Z). cbn [bind].
  assert (S : oneof_text v2_security_valid (or_text se (T "NONE")) = OK (or_text se (T "NONE"))).
  { destruct se as [[|c r]|]; try (vm_compute; reflexivity). cbn [opt_valid] in Vse. cbn [or_text]. apply sec2_ok in Vse. tauto. }
  rewrite S. cbn [bind].
  assert (U : forall x, opt_valid uid_ok x = true -> string_conv (Some 36) (or_text x (T "NONE")) = OK (or_text x (T "NONE"))).
  { intros [[|c r]|] Hx; try (vm_compute; reflexivity). cbn [opt_valid] in Hx. cbn [or_text]. apply string_conv_uid. exact Hx. }
  change v2_old_len with (Some 36). change v2_new_len with (Some 36). rewrite (U ol Vol), (U ne Vne). cbn [bind rmap]. reflexivity.
Qed.
