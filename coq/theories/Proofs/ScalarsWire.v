(** Reading the WIRE spelling of what a converter writes returns the value (for composing the wire-level round trip, C01):
    element data goes through ET._escape_cdata (closed forms) or saxutils.escape (repaired unclosed form) between
    [unconvert] and [convert].  Strings: String.convert un-escapes what the serializer escaped, and the length limit is
    applied to the un-escaped value.  Every other type writes texts free of & < >, which escaping leaves alone.
    (Proofs/ScalarsSerializeBridge.v: this engine's model of ET._escape_cdata is the Serialize engine's.) *)
From OfxV Require Import Base.Prelude Base.Digits Gen.ScalarsGen Model.PyDecimal Model.Scalars Model.ScalarsLex
  Proofs.ScalarsText Proofs.PyDecimalProofs Proofs.ScalarsProofs Proofs.ScalarsLexProofs.
From Coq Require Import Lia ZifyBool ZifyN ZifyNat.
Local Open Scope N_scope.

(** ---- texts without markup characters are written as they are ---- *)
Definition markup_free (s : text) : bool := forallb (fun c => negb ((c =? 38) || (c =? 60) || (c =? 62))) s.
Lemma wire_datum_plain f s : markup_free s = true -> wire_datum f s = s.
Proof.
  rewrite wire_datum_flat. induction s as [|c s IH]; [reflexivity|]. intro H. cbn [markup_free forallb] in H.
  apply andb_true_iff in H. destruct H as [Hc Hs]. cbn [flat_map]. rewrite (IH Hs). unfold esc1.
  destruct (c =? 38); [discriminate Hc|]. destruct (c =? 60); [discriminate Hc|]. destruct (c =? 62); [discriminate Hc|]. reflexivity.
Qed.
Lemma wire_datum_nonnil f s : s <> [] -> wire_datum f s <> [].
Proof.
  rewrite wire_datum_flat. destruct s as [|c r]; [congruence|]. intros _. cbn [flat_map]. unfold esc1.
  destruct (c =? 38); [discriminate|]. destruct (c =? 60); [discriminate|]. destruct (c =? 62); discriminate.
Qed.

Lemma plain_chars_markup_free s : forallb plain_char s = true -> markup_free s = true.
Proof.
  unfold markup_free. intro H. rewrite forallb_forall in *. intros c Hc. specialize (H c Hc). apply plain_char_cases in H.
  cbn [In] in H. destruct H as [<-|[<-|[<-|[<-|[<-|[<-|[<-|[<-|[<-|[<-|[<-|[<-|[]]]]]]]]]]]]]; reflexivity.
Qed.
Lemma Z_text_markup_free z : markup_free (Z_text z) = true.
Proof.
  apply plain_chars_markup_free. unfold Z_text. rewrite forallb_app, (digits_plain _ (dec_of_N_all_digits _)). destruct (z <? 0)%Z; reflexivity.
Qed.
Lemma to_plain_markup_free neg c e : (e <= 0)%Z -> markup_free (to_plain_fin neg c e) = true.
Proof.
  intro He. destruct (to_plain_split neg c e He) as (ip & fp & -> & Hip & _ & Hfp & _). apply plain_chars_markup_free.
  rewrite !forallb_app, sign_text_plain, (digits_plain ip Hip). cbn [andb]. destruct fp as [|f fp]; [reflexivity|].
  cbn [frac_text forallb]. change (plain_char 46) with true. cbn [andb]. exact (digits_plain _ Hfp).
Qed.

(** the tokens of an enumeration are written as they are: OneOf.convert does not un-escape, so a token containing & < >
    could not be read back from the wire; [tokens_plain] is decidable and holds for every declared token set *)
Definition tokens_plain (t : sty) : bool := match t with TOneOf valid => forallb markup_free valid | _ => true end.

Lemma mem_text_forallb s l p : mem_text s l = true -> forallb p l = true -> p s = true.
Proof.
  intros Hm Hp. apply mem_text_In in Hm. rewrite forallb_forall in Hp. exact (Hp s Hm).
Qed.

(** what every non-string type writes is free of markup characters *)
Lemma written_text_markup_free t req v s w : (match t with TString _ _ => False | _ => True end) -> tokens_plain t = true ->
  convert_sty t req v = OK (v, w) -> unconvert_sty t req v = OK (Some s, w) -> markup_free s = true.
Proof.
  intros Ht Htok Hc Hu. destruct t as [|l strict|valid|l|scale]; [| contradiction | | |]; cbn [unconvert_sty convert_sty] in *.
  - destruct v; cbn [unconvert_bool] in Hu; try discriminate.
    + exfalso. exact (req_none_not_some _ _ _ Hu).
    + rewrite bool_inv in Hu. cbn [nowarn rmap] in Hu. injection Hu as <- _. destruct b; reflexivity.
  - destruct v; cbn [unconvert_oneof] in Hu; try discriminate.
    + exfalso. exact (req_none_not_some _ _ _ Hu).
    + destruct (mem_text s0 valid) eqn:Em; cbn [nowarn rmap] in Hu; [|discriminate]. injection Hu as <- _.
      exact (mem_text_forallb s0 valid markup_free Em Htok).
  - assert (Hz : forall z, nowarn (bind (enforce_length_int l z) (fun _ => rmap Some (py_str_of_int z))) = OK (Some s, w) -> markup_free s = true).
    { intros z Hz. destruct (enforce_length_int l z) as [[]|]; cbn [bind] in Hz; [|discriminate]. unfold py_str_of_int in Hz.
      destruct (MAX_STR_DIGITS <? List.length (dec_of_N (Z.abs_N z)))%nat; cbn [rmap nowarn] in Hz; [discriminate|]. injection Hz as <- _. apply Z_text_markup_free. }
    destruct v; cbn [unconvert_integer] in Hu; try discriminate.
    + exfalso. exact (req_none_not_some _ _ _ Hu).
    + exact (Hz _ Hu).
    + exact (Hz _ Hu).
  - destruct v; cbn [unconvert_decimal] in Hu; try discriminate.
    + exfalso. exact (req_none_not_some _ _ _ Hu).
    + destruct (convert_decimal scale req (PDec d)) as [v1|] eqn:E1; cbn [nowarn rmap] in Hc; [|discriminate]. injection Hc as -> _.
      cbn [convert_decimal] in E1. destruct d as [neg c e| |]; cbn [normalize_dec] in E1; try discriminate.
      destruct (normalize_dec_fixed_shape scale neg c e E1) as [He _].
      cbn [is_finite negb to_plain] in Hu.
      destruct scale as [n|]; [destruct (same_quantum_exp (Fin neg c e) (quantum_exp n))|]; cbn [nowarn rmap] in Hu; try discriminate;
        injection Hu as <- _; exact (to_plain_markup_free neg c e He).
Qed.

Lemma string_entities_ok : entities_ok string_entities = true.
Proof. vm_compute. reflexivity. Qed.

Theorem wire_convert_unconvert_sty f t req v w s w' :
  value_wf v -> ~ bool_in_integer t v -> tokens_plain t = true ->
  convert_sty t req v = OK (v, w) -> unconvert_sty t req v = OK (Some s, w') ->
  convert_sty t req (PStr (wire_datum f s)) = OK (v, w').
Proof.
  intros Hwf Hb Htok Hc Hu. destruct t as [|l strict|valid|l|scale].
  2:{ (* String / NagString *)
    cbn [convert_sty unconvert_sty] in *. destruct v; cbn [convert_string unconvert_string] in *; try discriminate.
    - exfalso. exact (req_none_not_some _ _ _ Hu).
    - destruct (isnil s0) eqn:En; [destruct req; cbn in Hc; discriminate|].
      destruct (enforce_length_str l strict s0) as [[u2 w2]|] eqn:Ee2; cbn [rmap fst snd] in Hu; [|discriminate].
      pose proof (enforce_length_str_ok _ _ _ _ _ Ee2) as E2. subst u2.
      assert (s = s0) by congruence. assert (w2 = w') by congruence. subst s w2.
      assert (Hne : s0 <> []) by (destruct s0; [discriminate En|discriminate]).
      rewrite (isnil_false _ (wire_datum_nonnil f s0 Hne)). unfold string_unescape.
      rewrite (unescape_escape_l string_entities s0 f string_entities_ok), Ee2. reflexivity. }
  all: assert (Hw : w = w') by
    (cbn [convert_sty unconvert_sty] in Hc, Hu;
     repeat match type of Hc with nowarn ?x = _ => destruct x; cbn [nowarn rmap] in Hc; [|discriminate] end;
     repeat match type of Hu with nowarn ?x = _ => destruct x; cbn [nowarn rmap] in Hu; [|discriminate] end; congruence).
  all: subst w'.
  all: match type of Hc with convert_sty ?t _ _ = _ => rewrite (wire_datum_plain f s (written_text_markup_free t req v s w I Htok Hc Hu)) end.
  all: exact (convert_unconvert_sty _ req v w s w Hwf Hb Hc Hu).
Qed.

(** for every element, ListElement nesting included *)
Theorem wire_convert_unconvert_l : forall f e v w s w',
  value_wf v -> ~ bool_in_integer (elem_sty e) v -> tokens_plain (elem_sty e) = true ->
  convert e v = OK (v, w) -> unconvert e v = OK (Some s, w') ->
  convert e (PStr (wire_datum f s)) = OK (v, w').
Proof. intros f e v w s w'. rewrite !convert_elem, unconvert_elem. apply wire_convert_unconvert_sty. Qed.
