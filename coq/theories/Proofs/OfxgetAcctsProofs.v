(** Lemmas about Model/OfxgetAccts.v (C19): the statement-request lists are concatenations of per-type maps
    in a fixed order (map/concat reasoning over arbitrary lists), the document order of such a list is the list
    itself, every container becomes one request carrying the client's ids / the dates / the flags. *)
From OfxV Require Import Base.Prelude Base.Digits Base.OfxgetBase Gen.OfxgetGen Model.OfxgetCfg Model.OfxgetAccts.
From OfxV Require Export Proofs.OfxgetBaseFacts.
From Coq Require Import Lia.
Local Open Scope N_scope.

(* ------------------------------------------------------------------ what the specification talks about *)
(** the account list an option denotes (empty when the option does not hold a list) *)
Definition accts_of (a : args) (k : text) : list text :=
  match acct_list a k with OK l => l | Err _ => [] end.

(** one expected request: its kind, its account type (bank requests), the configured account id *)
Record expect := { e_kind : rkind; e_ty : option text; e_id : text }.

Definition flag_is (a : args) (k : text) (b : bool) : Prop := get_or a k PNone = PBool b.

Definition has_bankid (a : args) (d : docrq) : Prop :=
  exists b, str_or_none a (T "bankid") = OK (Some b) /\ o_inst d = Some (unescape b).
Definition has_brokerid (a : args) (d : docrq) : Prop :=
  exists b, str_or_none a (T "brokerid") = OK (Some b) /\ o_inst d = Some (unescape b).

(** the request [d] of the document is the one the property demands for [e]: that account, that type, the
    configured bank / broker id, the given start / end / as-of dates and include flags *)
Definition doc_matches (a : args) (dt : dates) (e : expect) (d : docrq) : Prop :=
  o_kind d = e_kind e /\ o_acctid d = unescape (e_id e) /\ o_accttype d = e_ty e /\
  match e_kind e with
  | KStmt =>
    has_bankid a d /\ (exists i, flag_is a (T "inctran") i /\ o_inctran d = Some (d_start dt, d_end dt, i)) /\
    o_dtstart d = None /\ o_dtend d = None /\ o_incoo d = None /\ o_incpos d = None /\ o_incbal d = None
  | KCcStmt =>
    o_inst d = None /\ (exists i, flag_is a (T "inctran") i /\ o_inctran d = Some (d_start dt, d_end dt, i)) /\
    o_dtstart d = None /\ o_dtend d = None /\ o_incoo d = None /\ o_incpos d = None /\ o_incbal d = None
  | KInvStmt =>
    has_brokerid a d /\
    o_inctran d = (if py_truthy (flag a (T "inctran")) then Some (d_start dt, d_end dt, true) else None) /\
    o_dtstart d = None /\ o_dtend d = None /\
    (exists oo pos bal, flag_is a (T "incoo") oo /\ flag_is a (T "incpos") pos /\ flag_is a (T "incbal") bal /\
                        o_incoo d = Some oo /\ o_incpos d = Some (d_asof dt, pos) /\ o_incbal d = Some bal)
  | KStmtEnd =>
    has_bankid a d /\ o_inctran d = None /\ o_dtstart d = d_start dt /\ o_dtend d = d_end dt /\
    o_incoo d = None /\ o_incpos d = None /\ o_incbal d = None
  | KCcStmtEnd =>
    o_inst d = None /\ o_inctran d = None /\ o_dtstart d = d_start dt /\ o_dtend d = d_end dt /\
    o_incoo d = None /\ o_incpos d = None /\ o_incbal d = None
  end.

(** the expected requests: type by type in the fixed order, one per configured account, in the order configured *)
Definition expect_bank (kind : rkind) (a : args) (types : list text) : list expect :=
  List.concat (map (fun ty => map (fun id => {| e_kind := kind; e_ty := Some (upper ty); e_id := id |}) (accts_of a ty)) types).
Definition expect_cc (kind : rkind) (a : args) : list expect :=
  map (fun id => {| e_kind := kind; e_ty := None; e_id := id |}) (accts_of a (T "creditcard")).
Definition expect_inv (a : args) : list expect :=
  map (fun id => {| e_kind := KInvStmt; e_ty := None; e_id := id |}) (accts_of a (T "investment")).
Definition expect_stmt (a : args) : list expect := expect_bank KStmt a og_stmt_types ++ expect_cc KCcStmt a ++ expect_inv a.
Definition expect_stmtend (a : args) : list expect := expect_bank KStmtEnd a og_stmtend_types ++ expect_cc KCcStmtEnd a.

(* ------------------------------------------------------------------ the container lists *)
Lemma acct_list_accts_of a k l : acct_list a k = OK l -> accts_of a k = l.
Proof. unfold accts_of. intros ->. reflexivity. Qed.

Lemma bank_loop_spec kind a dt : forall types acc l,
  bank_loop kind a dt types acc = OK l ->
  l = acc ++ List.concat (map (fun ty => map (mk_bank kind a dt ty) (accts_of a ty)) types).
Proof.
  induction types as [|ty r IH]; intros acc l H; cbn [bank_loop] in H.
  - injection H as <-. cbn. rewrite app_nil_r. reflexivity.
  - apply bind_ok in H. destruct H as (ids & H1 & H2).
    apply IH in H2. rewrite H2. cbn [map List.concat]. rewrite (acct_list_accts_of _ _ _ H1), app_assoc. reflexivity.
Qed.

Lemma stmt_rqs_spec a dt l :
  stmt_rqs a dt = OK l ->
  l = List.concat (map (fun ty => map (mk_bank KStmt a dt ty) (accts_of a ty)) og_stmt_types)
      ++ map (mk_cc KCcStmt a dt) (accts_of a (T "creditcard")) ++ map (mk_inv a dt) (accts_of a (T "investment")).
Proof.
  unfold stmt_rqs. intro H.
  apply bind_ok in H. destruct H as (l1 & H1 & H).
  apply bind_ok in H. destruct H as (cc & H2 & H).
  apply bind_ok in H. destruct H as (inv & H3 & H).
  injection H as <-. apply bank_loop_spec in H1. cbn [app] in H1. subst l1.
  rewrite (acct_list_accts_of _ _ _ H2), (acct_list_accts_of _ _ _ H3). reflexivity.
Qed.

Lemma stmtend_rqs_spec a dt l :
  stmtend_rqs a dt = OK l ->
  l = List.concat (map (fun ty => map (mk_bank KStmtEnd a dt ty) (accts_of a ty)) og_stmtend_types)
      ++ map (mk_cc KCcStmtEnd a dt) (accts_of a (T "creditcard")).
Proof.
  unfold stmtend_rqs. intro H.
  apply bind_ok in H. destruct H as (l1 & H1 & H).
  apply bind_ok in H. destruct H as (cc & H2 & H).
  injection H as <-. apply bank_loop_spec in H1. cbn [app] in H1. subst l1.
  rewrite (acct_list_accts_of _ _ _ H2). reflexivity.
Qed.

(* ------------------------------------------------------------------ document order *)
Lemma of_kind_all k l : Forall (fun q => q_kind q = k) l -> of_kind k l = l.
Proof.
  induction 1 as [|q l Hq _ IH]; [reflexivity|]. unfold of_kind in *. cbn [filter].
  rewrite Hq. replace (kind_eqb k k) with true by (destruct k; reflexivity). rewrite IH. reflexivity.
Qed.
Lemma of_kind_none k k' l : k' <> k -> Forall (fun q => q_kind q = k') l -> of_kind k l = [].
Proof.
  intros Hk. induction 1 as [|q l Hq _ IH]; [reflexivity|]. unfold of_kind in *. cbn [filter].
  rewrite Hq. replace (kind_eqb k' k) with false by (destruct k, k'; try reflexivity; contradiction). exact IH.
Qed.
Lemma of_kind_app k a b : of_kind k (a ++ b) = of_kind k a ++ of_kind k b.
Proof. apply filter_app. Qed.

Lemma Forall_concat_map {A B} (P : B -> Prop) (f : A -> list B) l :
  (forall x, Forall P (f x)) -> Forall P (List.concat (map f l)).
Proof. intro H. induction l; cbn; [constructor | apply Forall_app; auto]. Qed.
Lemma Forall_map_const {A B} (P : B -> Prop) (f : A -> B) l : (forall x, P (f x)) -> Forall P (map f l).
Proof. intro H. induction l; cbn; constructor; auto. Qed.

Lemma doc_order_stmt (b c i : list rq) :
  Forall (fun q => q_kind q = KStmt) b -> Forall (fun q => q_kind q = KCcStmt) c -> Forall (fun q => q_kind q = KInvStmt) i ->
  doc_order (b ++ c ++ i) = b ++ c ++ i.
Proof.
  intros Hb Hc Hi. unfold doc_order. rewrite !of_kind_app.
  rewrite (of_kind_all _ _ Hb), (of_kind_all _ _ Hc), (of_kind_all _ _ Hi).
  rewrite (of_kind_none KStmtEnd KStmt b), (of_kind_none KStmtEnd KCcStmt c), (of_kind_none KStmtEnd KInvStmt i),
          (of_kind_none KStmt KCcStmt c), (of_kind_none KStmt KInvStmt i),
          (of_kind_none KCcStmtEnd KStmt b), (of_kind_none KCcStmtEnd KCcStmt c), (of_kind_none KCcStmtEnd KInvStmt i),
          (of_kind_none KCcStmt KStmt b), (of_kind_none KCcStmt KInvStmt i),
          (of_kind_none KInvStmt KStmt b), (of_kind_none KInvStmt KCcStmt c); try assumption; try discriminate.
  cbn [app]. rewrite !app_nil_r. reflexivity.
Qed.

Lemma doc_order_stmtend (b c : list rq) :
  Forall (fun q => q_kind q = KStmtEnd) b -> Forall (fun q => q_kind q = KCcStmtEnd) c ->
  doc_order (b ++ c) = b ++ c.
Proof.
  intros Hb Hc. unfold doc_order. rewrite !of_kind_app.
  rewrite (of_kind_all _ _ Hb), (of_kind_all _ _ Hc).
  rewrite (of_kind_none KStmtEnd KCcStmtEnd c), (of_kind_none KStmt KStmtEnd b), (of_kind_none KStmt KCcStmtEnd c),
          (of_kind_none KCcStmtEnd KStmtEnd b), (of_kind_none KCcStmt KStmtEnd b), (of_kind_none KCcStmt KCcStmtEnd c),
          (of_kind_none KInvStmt KStmtEnd b), (of_kind_none KInvStmt KCcStmtEnd c); try assumption; try discriminate.
  cbn [app]. rewrite !app_nil_r. reflexivity.
Qed.

(* ------------------------------------------------------------------ from containers to requests *)
Lemma wrap_all_Forall2 b br : forall l ds, wrap_all b br l = OK ds -> Forall2 (fun q d => wrap b br q = OK d) l ds.
Proof.
  induction l as [|q l IH]; intros ds H; cbn [wrap_all] in H.
  - injection H as <-. constructor.
  - apply bind_ok in H. destruct H as (d & Hd & H). apply bind_ok in H. destruct H as (ds' & Hds & H).
    injection H as <-. constructor; auto.
Qed.

Lemma conv_string_ok max v u : conv_string max v = OK u -> exists s, v = Some s /\ u = unescape s.
Proof.
  unfold conv_string. destruct v as [[|c s]|]; try discriminate. intro H. exists (c :: s). split; [reflexivity|].
  destruct max as [n|]; [destruct (n <? _); [discriminate|] |]; injection H as <-; reflexivity.
Qed.
Lemma conv_bool_ok v b : conv_bool v = OK b -> v = PBool b.
Proof. destruct v; cbn; try discriminate. intro H. injection H as <-. reflexivity. Qed.

Lemma str_or_none_some a k bankid : str_or_none a k = OK bankid -> forall b, bankid = Some b -> str_or_none a k = OK (Some b).
Proof. intros H b ->. exact H. Qed.

(** a container of the bank loops *)
Lemma wrap_bank_stmt a dt bankid brokerid ty id d :
  str_or_none a (T "bankid") = OK bankid ->
  wrap bankid brokerid (mk_bank KStmt a dt ty id) = OK d ->
  doc_matches a dt {| e_kind := KStmt; e_ty := Some (upper ty); e_id := id |} d.
Proof.
  intros Hb H. unfold wrap in H. cbn [mk_bank q_kind q_acctid q_accttype q_inctran q_dtstart q_dtend] in H.
  apply bind_ok in H. destruct H as (b & H1 & H). apply bind_ok in H. destruct H as (i & H2 & H).
  destruct (negb (accttype_ok (upper ty))); [discriminate|].
  apply bind_ok in H. destruct H as (inc & H3 & H). injection H as <-.
  apply conv_string_ok in H1. destruct H1 as (b0 & -> & ->).
  apply conv_string_ok in H2. destruct H2 as (i0 & Hi & ->). injection Hi as <-.
  apply conv_bool_ok in H3.
  unfold doc_matches. cbn. repeat split; try reflexivity.
  - exists b0. split; [exact Hb | reflexivity].
  - exists inc. split; [exact H3 | reflexivity].
Qed.

Lemma wrap_bank_stmtend a dt bankid brokerid ty id d :
  str_or_none a (T "bankid") = OK bankid ->
  wrap bankid brokerid (mk_bank KStmtEnd a dt ty id) = OK d ->
  doc_matches a dt {| e_kind := KStmtEnd; e_ty := Some (upper ty); e_id := id |} d.
Proof.
  intros Hb H. unfold wrap in H. cbn [mk_bank q_kind q_acctid q_accttype q_inctran q_dtstart q_dtend] in H.
  apply bind_ok in H. destruct H as (b & H1 & H). apply bind_ok in H. destruct H as (i & H2 & H).
  destruct (negb (accttype_ok (upper ty))); [discriminate|]. injection H as <-.
  apply conv_string_ok in H1. destruct H1 as (b0 & -> & ->).
  apply conv_string_ok in H2. destruct H2 as (i0 & Hi & ->). injection Hi as <-.
  unfold doc_matches. cbn. repeat split; try reflexivity.
  exists b0. split; [exact Hb | reflexivity].
Qed.

Lemma wrap_cc_stmt a dt bankid brokerid id d :
  wrap bankid brokerid (mk_cc KCcStmt a dt id) = OK d ->
  doc_matches a dt {| e_kind := KCcStmt; e_ty := None; e_id := id |} d.
Proof.
  intro H. unfold wrap in H. cbn [mk_cc q_kind q_acctid q_accttype q_inctran q_dtstart q_dtend] in H.
  apply bind_ok in H. destruct H as (i & H2 & H). apply bind_ok in H. destruct H as (inc & H3 & H). injection H as <-.
  apply conv_string_ok in H2. destruct H2 as (i0 & Hi & ->). injection Hi as <-.
  apply conv_bool_ok in H3.
  unfold doc_matches. cbn. repeat split; try reflexivity.
  exists inc. split; [exact H3 | reflexivity].
Qed.

Lemma wrap_cc_stmtend a dt bankid brokerid id d :
  wrap bankid brokerid (mk_cc KCcStmtEnd a dt id) = OK d ->
  doc_matches a dt {| e_kind := KCcStmtEnd; e_ty := None; e_id := id |} d.
Proof.
  intro H. unfold wrap in H. cbn [mk_cc q_kind q_acctid q_accttype q_inctran q_dtstart q_dtend] in H.
  apply bind_ok in H. destruct H as (i & H2 & H). injection H as <-.
  apply conv_string_ok in H2. destruct H2 as (i0 & Hi & ->). injection Hi as <-.
  unfold doc_matches. cbn. repeat split; reflexivity.
Qed.

Lemma wrap_inv a dt bankid brokerid id d :
  str_or_none a (T "brokerid") = OK brokerid ->
  wrap bankid brokerid (mk_inv a dt id) = OK d ->
  doc_matches a dt {| e_kind := KInvStmt; e_ty := None; e_id := id |} d.
Proof.
  intros Hb H. unfold wrap in H.
  cbn [mk_inv q_kind q_acctid q_accttype q_inctran q_dtstart q_dtend q_dtasof q_incoo q_incpos q_incbal] in H.
  apply bind_ok in H. destruct H as (b & H1 & H). apply bind_ok in H. destruct H as (i & H2 & H).
  apply bind_ok in H. destruct H as (oo & H3 & H). apply bind_ok in H. destruct H as (pos & H4 & H).
  apply bind_ok in H. destruct H as (bal & H5 & H). injection H as <-.
  apply conv_string_ok in H1. destruct H1 as (b0 & -> & ->).
  apply conv_string_ok in H2. destruct H2 as (i0 & Hi & ->). injection Hi as <-.
  apply conv_bool_ok in H3. apply conv_bool_ok in H4. apply conv_bool_ok in H5.
  unfold doc_matches. cbn. repeat split; try reflexivity.
  - exists b0. split; [exact Hb | reflexivity].
  - exists oo, pos, bal. repeat split; assumption || reflexivity.
Qed.

(* Forall2 over the pieces of the list *)
Lemma Forall2_app_inv_l' {A B} (R : A -> B -> Prop) l1 l2 l :
  Forall2 R (l1 ++ l2) l -> exists m1 m2, l = m1 ++ m2 /\ Forall2 R l1 m1 /\ Forall2 R l2 m2.
Proof.
  revert l. induction l1 as [|x l1 IH]; intros l H; cbn in H.
  - exists [], l. auto.
  - inversion H as [|? y ? l' Hxy Hr]; subst. destruct (IH _ Hr) as (m1 & m2 & -> & H1 & H2).
    exists (y :: m1), m2. repeat split; auto.
Qed.

Lemma Forall2_map_l {A B C} (R : B -> C -> Prop) (f : A -> B) l m :
  Forall2 R (map f l) m -> Forall2 (fun x y => R (f x) y) l m.
Proof.
  revert m. induction l as [|x l IH]; intros m H; cbn in H; inversion H; subst; constructor; auto.
Qed.
Lemma Forall2_map_l_inv {A B C} (R : B -> C -> Prop) (f : A -> B) l m :
  Forall2 (fun x y => R (f x) y) l m -> Forall2 R (map f l) m.
Proof. induction 1; cbn; constructor; auto. Qed.
Lemma Forall2_impl' {A B} (R S : A -> B -> Prop) l m : (forall x y, R x y -> S x y) -> Forall2 R l m -> Forall2 S l m.
Proof. intros H. induction 1; constructor; auto. Qed.

Lemma Forall2_concat_map {A B C D} (R : B -> C -> Prop) (S : D -> C -> Prop) (f : A -> list B) (g : A -> list D) :
  (forall x m, Forall2 R (f x) m -> Forall2 S (g x) m) ->
  forall l m, Forall2 R (List.concat (map f l)) m -> Forall2 S (List.concat (map g l)) m.
Proof.
  intros H. induction l as [|x l IH]; intros m Hm; cbn in *.
  - inversion Hm. constructor.
  - apply Forall2_app_inv_l' in Hm. destruct Hm as (m1 & m2 & -> & H1 & H2).
    apply Forall2_app; auto.
Qed.

(** the statement requests of the document are, in order, the expected ones *)
Lemma compose_stmt a dt rqs ds :
  stmt_rqs a dt = OK rqs -> compose a rqs = OK ds -> Forall2 (doc_matches a dt) (expect_stmt a) ds.
Proof.
  intros Hr Hc. apply stmt_rqs_spec in Hr. subst rqs.
  unfold compose in Hc. apply bind_ok in Hc. destruct Hc as (_ & _ & Hc).
  apply bind_ok in Hc. destruct Hc as (bankid & Hb & Hc). apply bind_ok in Hc. destruct Hc as (brokerid & Hbr & Hc).
  rewrite doc_order_stmt in Hc.
  2:{ apply Forall_concat_map. intro ty. apply Forall_map_const. reflexivity. }
  2:{ apply Forall_map_const. reflexivity. }
  2:{ apply Forall_map_const. reflexivity. }
  apply wrap_all_Forall2 in Hc.
  apply Forall2_app_inv_l' in Hc. destruct Hc as (m1 & m23 & -> & H1 & H23).
  apply Forall2_app_inv_l' in H23. destruct H23 as (m2 & m3 & -> & H2 & H3).
  unfold expect_stmt. apply Forall2_app; [|apply Forall2_app].
  - unfold expect_bank. revert H1. apply Forall2_concat_map. intros ty m Hm.
    apply Forall2_map_l in Hm. apply Forall2_map_l_inv. revert Hm. apply Forall2_impl'.
    intros id d Hd. eapply wrap_bank_stmt; eassumption.
  - unfold expect_cc. apply Forall2_map_l in H2. apply Forall2_map_l_inv. revert H2. apply Forall2_impl'.
    intros id d Hd. eapply wrap_cc_stmt; eassumption.
  - unfold expect_inv. apply Forall2_map_l in H3. apply Forall2_map_l_inv. revert H3. apply Forall2_impl'.
    intros id d Hd. eapply wrap_inv; eassumption.
Qed.

Lemma compose_stmtend a dt rqs ds :
  stmtend_rqs a dt = OK rqs -> compose a rqs = OK ds -> Forall2 (doc_matches a dt) (expect_stmtend a) ds.
Proof.
  intros Hr Hc. apply stmtend_rqs_spec in Hr. subst rqs.
  unfold compose in Hc. apply bind_ok in Hc. destruct Hc as (_ & _ & Hc).
  apply bind_ok in Hc. destruct Hc as (bankid & Hb & Hc). apply bind_ok in Hc. destruct Hc as (brokerid & Hbr & Hc).
  rewrite doc_order_stmtend in Hc.
  2:{ apply Forall_concat_map. intro ty. apply Forall_map_const. reflexivity. }
  2:{ apply Forall_map_const. reflexivity. }
  apply wrap_all_Forall2 in Hc.
  apply Forall2_app_inv_l' in Hc. destruct Hc as (m1 & m2 & -> & H1 & H2).
  unfold expect_stmtend. apply Forall2_app.
  - unfold expect_bank. revert H1. apply Forall2_concat_map. intros ty m Hm.
    apply Forall2_map_l in Hm. apply Forall2_map_l_inv. revert Hm. apply Forall2_impl'.
    intros id d Hd. eapply wrap_bank_stmtend; eassumption.
  - unfold expect_cc. apply Forall2_map_l in H2. apply Forall2_map_l_inv. revert H2. apply Forall2_impl'.
    intros id d Hd. eapply wrap_cc_stmtend; eassumption.
Qed.

(** with_all leaves the arguments alone without --all *)
Lemma with_all_off a r : py_truthy (get_or a (T "all") PNone) = false -> with_all a r = OK a.
Proof. unfold with_all. intros ->. reflexivity. Qed.

Lemma stmt_requests_exact_l conv r a ds :
  request_stmt conv r a = OK ds ->
  exists dt a', convert_datetime conv a = OK dt /\ with_all a r = OK a' /\
                Forall2 (doc_matches a' dt) (expect_stmt a') ds.
Proof.
  unfold request_stmt. intro H.
  apply bind_ok in H. destruct H as (dt & Hdt & H). apply bind_ok in H. destruct H as (a' & Ha & H).
  apply bind_ok in H. destruct H as (rqs & Hr & H).
  exists dt, a'. repeat split; auto. eapply compose_stmt; eassumption.
Qed.

Lemma stmtend_requests_exact_l conv r a ds :
  request_stmtend conv r a = OK ds ->
  exists dt a', convert_datetime conv a = OK dt /\ with_all a r = OK a' /\
                Forall2 (doc_matches a' dt) (expect_stmtend a') ds.
Proof.
  unfold request_stmtend. intro H.
  apply bind_ok in H. destruct H as (dt & Hdt & H). apply bind_ok in H. destruct H as (a' & Ha & H).
  apply bind_ok in H. destruct H as (rqs & Hr & H).
  exists dt, a'. repeat split; auto. eapply compose_stmtend; eassumption.
Qed.

(** ids without '&' are carried unchanged *)
Lemma starts_with_head p c s : starts_with (c :: p) s = true -> exists r, s = c :: r.
Proof. destruct s as [|d s]; cbn; [discriminate|]. intro H. apply andb_true_iff in H. destruct H as [H _]. apply N.eqb_eq in H. subst. eauto. Qed.

Lemma replace_go_noamp pat rep : forall s, ~ In 38 s -> replace_go (38 :: pat) rep O s = s.
Proof.
  induction s as [|c s IH]; intro H; [reflexivity|]. cbn [replace_go].
  destruct (starts_with (38 :: pat) (c :: s)) eqn:E.
  - apply starts_with_head in E. destruct E as (r & E). injection E as -> _. exfalso. apply H. left. reflexivity.
  - rewrite IH; [reflexivity|]. intro Hin. apply H. right. exact Hin.
Qed.

Lemma unescape_noamp s : ~ In 38 s -> unescape s = s.
Proof.
  intro H. unfold unescape, replace_all.
  change (T "&lt;") with (38 :: T "lt;"). change (T "&gt;") with (38 :: T "gt;").
  change (T "&nbsp;") with (38 :: T "nbsp;"). change (T "&apos;") with (38 :: T "apos;").
  change (T "&quot;") with (38 :: T "quot;"). change (T "&amp;") with (38 :: T "amp;").
  cbv iota beta. repeat rewrite (replace_go_noamp _ _ s H). reflexivity.
Qed.
