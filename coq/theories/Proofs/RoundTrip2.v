(** C01/C13, part 2: completeness of the reader's fold.  If every child is one the class defines, the values they denote
    are available, their attribute indices respect the class's sequence and non-repeated names are distinct, then the fold of
    update_args succeeds and accumulates exactly those values - with no warning. *)
From OfxV Require Import Base.Prelude Model.Schema Model.SchemaWf Model.Convert Proofs.ConvertSound Proofs.ConvertUnknown Proofs.ConvertPlaces.
From Coq Require Import Lia.
Local Open Scope string_scope.

Section RT2.
  Variable sval : Type.
  Variable conv : N -> sin sval -> result (option sval).
  Variable S : schema.
  Notation inst := (inst sval).
  Notation kwval := (kwval sval).
  Notation acc := (acc sval).
  Notation step := (step sval).
  Notation entry := (string * attr * etree * bool)%type.
  Notation entries := (entries).
  Notation entry_value := (entry_value sval).

  Fixpoint all_known (c : cinfo) (rn : bool) (ch : list etree) : bool :=
    match ch with
    | [] => true
    | e :: r =>
      let (tag, rn') := groomed_tag c rn (etag e) in
      negb (has_dot tag)
      && match index_of (lower tag) (map fst (ci_spec c)), assoc (lower tag) (ci_spec c) with Some _, Some _ => true | _, _ => false end
      && all_known c rn' r
    end.

  Definition eidx (c : cinfo) (en : entry) : nat :=
    match index_of (entry_name en) (map fst (ci_spec c)) with Some i => i | None => 0 end.
  (** the sequence check of update_args, on the entries *)
  Fixpoint chain (c : cinfo) (p : nat) (pl : bool) (ens : list entry) : Prop :=
    match ens with
    | [] => True
    | en :: r => (p <= eidx c en \/ (is_list_entry en = true /\ pl = true))%nat /\ chain c (Datatypes.S (eidx c en)) (is_list_entry en) r
    end.
  Fixpoint zip_args (ens : list entry) (vals : list kwval) : list kwval :=
    match ens, vals with
    | en :: r, v :: vr => if is_list_entry en then v :: zip_args r vr else zip_args r vr
    | _, _ => []
    end.
  Fixpoint zip_kw (ens : list entry) (vals : list kwval) : list (string * kwval) :=
    match ens, vals with
    | en :: r, v :: vr => if is_list_entry en then zip_kw r vr else (entry_name en, v) :: zip_kw r vr
    | _, _ => []
    end.
  Definition quiet (fe : etree -> result (inst * list string)) (en : entry) : Prop :=
    match en with (_, a, e, r) => is_unsup a = false -> text_truthy (etext e) = false -> r = false -> exists i, fe e = OK (i, []) end.

  Lemma kw_has_cons (kw : list (string * kwval)) a v k : kw_has sval ((a, v) :: kw) k = (String.eqb k a || kw_has sval kw k)%bool.
  Proof. reflexivity. Qed.

  Lemma fold_complete fe c : forall ch rn0 args0 kw0 p0 pl0 ws0 vals,
    all_known c rn0 ch = true ->
    Convert.map_res (entry_value fe) (entries c rn0 ch) = OK vals ->
    Forall (quiet fe) (entries c rn0 ch) ->
    chain c p0 pl0 (entries c rn0 ch) ->
    NoDup (map fst (zip_kw (entries c rn0 ch) vals)) ->
    (forall k, In k (map fst (zip_kw (entries c rn0 ch) vals)) -> kw_has sval kw0 k = false) ->
    exists p pl rn,
      fold_left (step fe c) ch (OK (args0, kw0, p0, pl0, ws0, rn0))
      = OK ((rev (zip_args (entries c rn0 ch) vals) ++ args0)%list, (rev (zip_kw (entries c rn0 ch) vals) ++ kw0)%list, p, pl, ws0, rn).
  Proof.
    induction ch as [|e ch IH]; intros rn0 args0 kw0 p0 pl0 ws0 vals Hk Hv Hq Hc Hnd Hfresh.
    - cbn. eauto.
    - cbn [all_known entries] in *. cbn [fold_left]. unfold Convert.step at 2.
      destruct (groomed_tag c rn0 (etag e)) as [tag rn1].
      destruct (has_dot tag); [discriminate|]. cbn [negb andb] in Hk.
      destruct (index_of (lower tag) (map fst (ci_spec c))) as [idx|] eqn:Ei; [|discriminate].
      destruct (assoc (lower tag) (ci_spec c)) as [a|] eqn:Ea; [|discriminate]. cbn [andb] in Hk.
      set (en := (lower tag, a, e, negb (String.eqb tag (etag e)))) in *.
      cbn [Convert.map_res] in Hv. destruct (entry_value fe en) as [v|k] eqn:Ev; cbn [bind] in Hv; [|discriminate].
      destruct (Convert.map_res (entry_value fe) (entries c rn1 ch)) as [vr|k] eqn:Evr; cbn [bind] in Hv; [|discriminate].
      injection Hv as <-.
      inversion Hq as [|? ? Hq1 Hq2]; subst. cbn [chain] in Hc. destruct Hc as [Hc1 Hc2].
      assert (Hidx : eidx c en = idx) by (unfold eidx, en; cbn [entry_name]; rewrite Ei; reflexivity).
      rewrite Hidx in Hc1, Hc2.
      assert (Hlt : (Nat.ltb idx p0 && negb (is_list_attr a && pl0))%bool = false).
      { destruct Hc1 as [Hle|[Hl Hp]].
        - replace (Nat.ltb idx p0) with false by (symmetry; apply Nat.ltb_ge; exact Hle). reflexivity.
        - unfold en in Hl. cbn [is_list_entry] in Hl. rewrite Hl, Hp. cbn. apply andb_false_r. }
      rewrite Hlt.
      (* the value read from this child *)
      assert (Hrv : (if is_unsup a then OK (KNone sval, @nil string)
                     else if text_truthy (etext e) then OK (match etext e with Some s => KText sval s | None => KNone sval end, [])
                     else if negb (String.eqb tag (etag e)) then Err Reject
                     else match fe e with OK (i, w) => OK (KInst sval i, w) | Err k => Err k end) = OK (v, [])).
      { unfold ConvertPlaces.entry_value, en in Ev. unfold quiet, en in Hq1.
        destruct (is_unsup a); [injection Ev as <-; reflexivity|].
        destruct (text_truthy (etext e)); [injection Ev as <-; reflexivity|].
        destruct (negb (String.eqb tag (etag e))); [discriminate|].
        destruct (Hq1 eq_refl eq_refl eq_refl) as (i & Hi). rewrite Hi in *. injection Ev as <-. reflexivity. }
      rewrite Hrv. cbn [rev app].
      cbn [zip_args zip_kw] in *. fold en in Hnd, Hfresh |- *.
      change (is_list_entry en) with (is_list_attr a) in *.
      destruct (is_list_attr a) eqn:El.
      + destruct (IH rn1 (v :: args0) kw0 (Datatypes.S idx) true ws0 vr Hk Evr Hq2 Hc2 Hnd Hfresh) as (p & pl & rn & Hf).
        exists p, pl, rn. rewrite Hf. cbn [rev]. rewrite <- !app_assoc. reflexivity.
      + cbn [map fst] in Hnd, Hfresh. apply NoDup_cons_iff in Hnd. destruct Hnd as [Hni Hnd'].
        rewrite (Hfresh (lower tag) (or_introl eq_refl)).
        destruct (IH rn1 args0 ((lower tag, v) :: kw0) (Datatypes.S idx) false ws0 vr Hk Evr Hq2 Hc2 Hnd') as (p & pl & rn & Hf).
        { intros k Hin. rewrite kw_has_cons. rewrite (Hfresh k (or_intror Hin)). rewrite orb_false_r.
          apply String.eqb_neq. intros ->. contradiction. }
        exists p, pl, rn. rewrite Hf. cbn [rev]. rewrite <- !app_assoc. reflexivity.
  Qed.
End RT2.
