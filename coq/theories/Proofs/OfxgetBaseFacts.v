(** Small facts about results, text equality and association lists shared by the proofs of the two ofxget
    engines (C18, C19). *)
From OfxV Require Import Base.Prelude Base.OfxgetBase.
Local Open Scope N_scope.

Lemma bind_ok {A B} (r : result A) (f : A -> result B) b :
  bind r f = OK b -> exists a, r = OK a /\ f a = OK b.
Proof. destruct r as [a|k]; cbn; [eauto | discriminate]. Qed.

Lemma OK_inj {A} (x y : A) : @OK A x = OK y -> x = y.
Proof. intro H. injection H as H. exact H. Qed.

Lemma text_eqb_refl s : text_eqb s s = true.
Proof. apply text_eqb_eq. reflexivity. Qed.

Lemma text_eqb_neq a b : a <> b -> text_eqb a b = false.
Proof. intro H. destruct (text_eqb a b) eqn:E; [apply text_eqb_eq in E; contradiction | reflexivity]. Qed.

Lemma text_eqb_false a b : text_eqb a b = false -> a <> b.
Proof. intros H ->. rewrite text_eqb_refl in H. discriminate. Qed.

Lemma text_eqb_sym a b : text_eqb a b = text_eqb b a.
Proof.
  destruct (text_eqb a b) eqn:E.
  - apply text_eqb_eq in E. subst. symmetry. apply text_eqb_refl.
  - symmetry. apply text_eqb_neq. intro H. subst. rewrite text_eqb_refl in E. discriminate.
Qed.

Lemma assoc_app {A} k (a b : dict A) :
  assoc k (a ++ b) = match assoc k a with Some v => Some v | None => assoc k b end.
Proof.
  induction a as [|[k' v] a IH]; [reflexivity|]. cbn [app assoc]. destruct (text_eqb k k'); [reflexivity | exact IH].
Qed.

Lemma assoc_single {A} k k' (v : A) : assoc k [(k', v)] = if text_eqb k k' then Some v else None.
Proof. reflexivity. Qed.

Lemma assoc_In {A} k (m : dict A) v : assoc k m = Some v -> In (k, v) m.
Proof.
  induction m as [|[k' v'] m IH]; cbn [assoc]; [discriminate|].
  destruct (text_eqb k k') eqn:E; intro H.
  - apply text_eqb_eq in E. injection H as <-. subst. left. reflexivity.
  - right. auto.
Qed.

Lemma assoc_None_keys {A} k (m : dict A) : assoc k m = None <-> ~ In k (map fst m).
Proof.
  induction m as [|[k' v'] m IH]; cbn [assoc map fst In]; [tauto|].
  destruct (text_eqb k k') eqn:E.
  - apply text_eqb_eq in E. subst. split; [discriminate | intro H; exfalso; apply H; left; reflexivity].
  - apply text_eqb_false in E. rewrite IH. split; [intros H [H1|H1]; [congruence | auto] | tauto].
Qed.

Lemma has_key_keys {A} k (m : dict A) : has_key k m = true <-> In k (map fst m).
Proof.
  unfold has_key. destruct (assoc k m) eqn:E.
  - split; [intros _ | reflexivity]. apply assoc_In in E. apply (in_map fst) in E. exact E.
  - apply assoc_None_keys in E. split; [discriminate | contradiction].
Qed.

Lemma has_key_false {A} k (m : dict A) : has_key k m = false <-> ~ In k (map fst m).
Proof.
  rewrite <- has_key_keys. destruct (has_key k m); split; intro H.
  - discriminate.
  - exfalso. apply H. reflexivity.
  - intro. discriminate.
  - reflexivity.
Qed.

(** d[k] = v *)
Lemma assoc_dset {A} k k' (v : A) m : assoc k (dset k' v m) = if text_eqb k k' then Some v else assoc k m.
Proof.
  induction m as [|[k0 v0] m IH]; cbn [dset assoc].
  - reflexivity.
  - destruct (text_eqb k' k0) eqn:E0; cbn [assoc].
    + apply text_eqb_eq in E0. subst k0. destruct (text_eqb k k'); reflexivity.
    + rewrite IH. destruct (text_eqb k k0) eqn:E1; [|reflexivity].
      apply text_eqb_eq in E1. subst k0. rewrite (text_eqb_neq k k'); [reflexivity|].
      intros ->. rewrite text_eqb_refl in E0. discriminate.
Qed.

Lemma dset_new {A} k (v : A) m : ~ In k (map fst m) -> dset k v m = m ++ [(k, v)].
Proof.
  induction m as [|[k0 v0] m IH]; intro H; [reflexivity|]. cbn [dset map fst In] in *.
  rewrite (text_eqb_neq k k0) by (intros ->; apply H; left; reflexivity).
  rewrite IH by (intro; apply H; right; assumption). reflexivity.
Qed.

Lemma dset_keys {A} k (v : A) m k' : In k' (map fst (dset k v m)) <-> k' = k \/ In k' (map fst m).
Proof.
  induction m as [|[k0 v0] m IH]; cbn [dset map fst In].
  - split; [intros [<-|[]]; auto | intros [->|[]]; auto].
  - destruct (text_eqb k k0) eqn:E; cbn [map fst In].
    + apply text_eqb_eq in E. subst k0. split; [intros [<-|H]; auto | intros [->|[<-|H]]; auto].
    + rewrite IH. tauto.
Qed.

Lemma dset_app_last {A} k (v w : A) pre : ~ In k (map fst pre) -> dset k w (pre ++ [(k, v)]) = pre ++ [(k, w)].
Proof.
  induction pre as [|[k0 v0] pre IH]; intro H; cbn [app dset].
  - rewrite text_eqb_refl. reflexivity.
  - cbn [map fst In] in H. rewrite (text_eqb_neq k k0) by (intros ->; apply H; left; reflexivity).
    rewrite IH by (intro; apply H; right; assumption). reflexivity.
Qed.

Lemma assoc_app_last {A} k (v : A) pre : ~ In k (map fst pre) -> assoc k (pre ++ [(k, v)]) = Some v.
Proof.
  intro H. rewrite assoc_app. apply assoc_None_keys in H. rewrite H. cbn [assoc]. rewrite text_eqb_refl. reflexivity.
Qed.
