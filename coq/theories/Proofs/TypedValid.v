(** C01 with NO hypothesis left on the element converters.  [typed_valid]: validity of an instance of the typed schema model,
    stated with the structural clauses only plus "every value is one an instance can hold under its declared element type"
    ([typed_held]: C10's [held] for Bool / String / NagString / OneOf / Integer / Decimal, millisecond-precision instants in range
    for DateTime / Time).  It implies [valid] for the concrete converters (the scalar clauses are held_value_reads_back and
    held_datetime_reads_back), hence every round-trip theorem: tree level, wire level, and over the bytes of a file. *)
From OfxV Require Import Base.Prelude Base.SgmlBase Model.Schema Model.Convert Model.Sgml Model.SgmlSpec Model.Serialize
     Model.Scalars Model.Typed Model.TypedDT Model.Header Model.HeaderLayout Gen.SgmlGen Gen.DateTimeGen
     Proofs.SerializeProofs Proofs.RoundTrip3 Proofs.WireRoundTrip Proofs.TypedRoundTrip Proofs.TypedDTRoundTrip Proofs.TypedDTHeld
     Proofs.FileRoundTrip.
Local Open Scope N_scope.

Section TypedValid.
  Variable table : list (N * ety).
  Variable u : bool -> pyval -> result text.          (* the date-time writer *)
  Variable S : schema.
  Hypothesis Wi : writes_instants nd_zeros u.
  Hypothesis Wt : writes_times nd_zeros u.
  Notation conv := (conv_typed table (conv_dt_m nd_zeros tzs)).
  Notation unconv := (unconv_typed table u).
  Notation unconvw := (unconv_w pyval (unconv_typed table u)).

  Definition typed_held (t : N) (v : pyval) : Prop :=
    match lookup_ety table t with
    | Some (ESty e) => held e v
    | Some (EDateTime _) => held_dt u v
    | Some (ETime _) => held_tm u v
    | _ => False
    end.

  Lemma typed_held_reads_back t v : typed_held t v ->
    exists s, unconvw t v = OK s /\ s <> [] /\ conv t (SText pyval s) = OK (Some v).
  Proof.
    unfold typed_held. destruct (lookup_ety table t) as [[e|r|r|]|] eqn:Et; try contradiction; intro H.
    - apply (held_value_reads_back_l table (conv_dt_m nd_zeros tzs) u t e v Et H).
    - apply (held_datetime_reads_back_l table u Wi Wt t r v). left. split; assumption.
    - apply (held_datetime_reads_back_l table u Wi Wt t r v). right. split; assumption.
  Qed.

  Inductive typed_valid : inst pyval -> Prop :=
  | TValid cn c lb ub fs ms :
      find_cls S cn = Some c -> rt_class_ok c lb ub ->
      map fst fs = map fst (spec_no_list c) ->
      (forall k x, In (k, FVal pyval x) fs -> exists t req, assoc k (ci_spec c) = Some (AElem t req) /\ typed_held t x) ->
      (forall k j, In (k, FSub pyval j) fs ->
         exists t req, assoc k (ci_spec c) = Some (ASub t req) /\ lower (icls pyval j) = k /\ has_dot (icls pyval j) = false) ->
      (forall k j, In (k, FSub pyval j) fs -> typed_valid j) ->
      (forall j, In (MAgg pyval j) ms -> ci_elist c = false /\ mem (lower (icls pyval j)) (listaggregates c) = true /\ has_dot (icls pyval j) = false) ->
      (forall j, In (MAgg pyval j) ms -> typed_valid j) ->
      (forall v, In (MVal pyval v) ms -> ci_elist c = true /\ exists x k t, v = Some x /\ the_listelem c = Some (k, t) /\ typed_held t x) ->
      (forall s, ~ In (MStr pyval s) ms) ->
      (split_at (ci_spec c) = None -> ms = []) ->
      construct pyval conv S cn (canon_args pyval unconvw c ms) (canon_kw pyval unconvw c fs) = OK (Inst pyval cn fs ms) ->
      typed_valid (Inst pyval cn fs ms).

  Theorem typed_valid_is_valid i : typed_valid i -> valid pyval conv unconvw S i.
  Proof.
    induction 1 as [cn c lb ub fs ms Hc Hrt Hfs Hval Hsub _ IHsub Hagg _ IHagg Hmv Hstr Hsp Hcons].
    apply (Valid pyval conv unconvw S cn c lb ub fs ms Hc Hrt Hfs); try assumption.
    - intros k x Hin. destruct (Hval k x Hin) as (t & req & Ha & Hh). destruct (typed_held_reads_back t x Hh) as (s & Hu & Hne & Hcv).
      exists t, req, s. repeat split; assumption.
    - intros v Hin. destruct (Hmv v Hin) as (He & x & k & t & -> & Hl & Hh). split; [exact He|].
      destruct (typed_held_reads_back t x Hh) as (s & Hu & Hne & Hcv). exists x, k, t, s. repeat split; assumption.
  Qed.

  (** C01, complete: a valid instance of the typed model, written behind any tolerated version-2 header, comes back from the bytes *)
  Theorem typed_file_roundtrip_v2_l l h i e (pretty : bool) :
    valid2 h = true -> lay2_ok l = true -> typed_valid i -> to_etree pyval unconv S i = OK e -> ser_ok html_empty (up e) = true ->
    let it := if pretty then indent 0%nat (embed (up e)) else embed (up e) in
    scalar_text (html_text html_empty it) = true ->
    exists msg e', parse_header (file2 l h (tostring_html html_empty it)) = OK (H2 h, msg)
                   /\ parse repaired msg = OK (Some (up e'))
                   /\ from_etree pyval conv S e' = OK (i, []).
  Proof.
    intros V L Hv He Hs. apply (file_roundtrip_v2_l pyval conv unconv S l h i e pretty V L (typed_valid_is_valid i Hv) He Hs).
  Qed.

  Theorem typed_file_roundtrip_v1_l l h cd i e (pretty closed : bool) encbody :
    valid1 h = true -> lay1_ok l h = true -> HeaderParse.spec_codec (h1_charset h) = Some cd ->
    typed_valid i -> to_etree pyval unconv S i = OK e -> ser_ok html_empty (up e) = true ->
    (closed = false -> sgml_ok (wire_doc (up e)) = true /\ is_agg (wire_doc (up e)) = true) ->
    let it := if pretty then indent 0%nat (embed (up e)) else embed (up e) in
    encode_opt cd (if closed then html_text html_empty it else unclosed_text true it) = Some encbody ->
    exists msg e', parse_header (file1 l h encbody) = OK (H1 h, msg)
                   /\ parse repaired msg = OK (Some (up e'))
                   /\ from_etree pyval conv S e' = OK (i, []).
  Proof.
    intros V L SC Hv He Hs Hc. apply (file_roundtrip_v1_l pyval conv unconv S l h cd i e pretty closed encbody V L SC (typed_valid_is_valid i Hv) He Hs Hc).
  Qed.
End TypedValid.

(** the decidable route to the same domain: what the correspondence run evaluates on real instances (TValidM cases) *)
From OfxV Require Import Model.PyDecimal Model.ValidB Model.TypedCases Proofs.ValidBSound.
Lemma pyval_eqb_eq a b : pyval_eqb a b = true -> a = b.
Proof.
  destruct a, b; cbn [pyval_eqb]; try discriminate; intro H.
  - reflexivity.
  - f_equal. apply Bool.eqb_prop. exact H.
  - f_equal. apply Z.eqb_eq. exact H.
  - f_equal. apply text_eqb_eq. exact H.
  - f_equal. destruct d, d0; cbn [dec_eqb] in H; try discriminate.
    + apply andb_true_iff in H as [H He]. apply andb_true_iff in H as [Hn Hc].
      apply Bool.eqb_prop in Hn. apply N.eqb_eq in Hc. apply Z.eqb_eq in He. congruence.
    + apply Bool.eqb_prop in H. congruence.
    + apply andb_true_iff in H as [H Hp]. apply andb_true_iff in H as [Hn Hs].
      apply Bool.eqb_prop in Hn. apply Bool.eqb_prop in Hs. apply N.eqb_eq in Hp. congruence.
  - f_equal. apply Z.eqb_eq. exact H.
  - f_equal. apply Z.eqb_eq. exact H.
  - f_equal. apply N.eqb_eq. exact H.
Qed.

Theorem typed_valid_b_sound_l table S i :
  valid_b pyval pyval_eqb (conv_typed table (conv_dt_m nd_zeros tzs)) (unconv_esc table) S i = true ->
  valid pyval (conv_typed table (conv_dt_m nd_zeros tzs)) (unconv_w pyval (unconv_typed table unconv_dt_utc)) S i.
Proof. exact (valid_b_sound_l pyval pyval_eqb pyval_eqb_eq _ _ S i). Qed.
