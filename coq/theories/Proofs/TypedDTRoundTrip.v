(** The scalar clause of C01's validity for DateTime and Time elements, PROVED through the C09 engine: a held instant with
    millisecond precision, written by ANY writer that writes some aware representation of that instant (whole-minute offset
    -12:00..+14:00, readable and markup-free zone name: what Types.DateTime.unconvert does for every tzinfo), escaped by the
    serializer and read by the converter, comes back as the very same instant.  The writer for UTC values (what every
    converted instance holds) is shown to be such a writer. *)
From OfxV Require Import Base.Prelude Base.Digits Base.SgmlBase Model.Calendar Model.DateTimeM Model.DateTimeMCases Model.Scalars
     Model.Serialize Model.TypedDT Proofs.CalendarProofs Proofs.DateTimeMDigits Proofs.DateTimeMRead Proofs.DateTimeMWrite
     Proofs.SerializeProofs.
From Coq Require Import ZifyBool ZifyN ZifyNat.
Local Open Scope Z_scope.
Ltac Zify.zify_post_hook ::= Z.to_euclidean_division_equations.

Lemma OK_inj {A} (a b : A) : OK a = OK b -> a = b.
Proof. intro H. injection H as H. exact H. Qed.

(** ---- text without markup characters is not changed by the serializer's escaping ---- *)
Definition plainc (c : N) : bool := negb (c =? 38)%N && negb (c =? 60)%N && negb (c =? 62)%N.
Definition plain (s : text) : bool := forallb plainc s.
Lemma plain_weaken a s : (a = 38 \/ a = 60 \/ a = 62)%N -> plain s = true -> forallb (fun c => negb (c =? a)%N) s = true.
Proof.
  intros Ha H. unfold plain in H. rewrite forallb_forall in *. intros c Hc. specialize (H c Hc). unfold plainc in H.
  destruct Ha as [->|[->| ->]]; lia.
Qed.
Lemma escape_plain s : plain s = true -> Serialize.escape_cdata s = s.
Proof.
  intro H. unfold Serialize.escape_cdata.
  rewrite (replace1_nochange 38 AMP s) by (apply plain_weaken; auto).
  rewrite (replace1_nochange 60 LTE s) by (apply plain_weaken; auto).
  apply replace1_nochange. apply plain_weaken; auto.
Qed.
Lemma plain_app a b : plain a = true -> plain b = true -> plain (a ++ b) = true.
Proof. unfold plain. rewrite forallb_app. intros -> ->. reflexivity. Qed.
Lemma plain_cons c a : plainc c = true -> plain a = true -> plain (c :: a) = true.
Proof. unfold plain. cbn [forallb]. intros -> ->. reflexivity. Qed.
Lemma plain_of_digits s : forallb is_digit s = true -> plain s = true.
Proof.
  unfold plain. rewrite !forallb_forall. intros H c Hc. specialize (H c Hc). apply is_digit_iff in H. unfold plainc. lia.
Qed.
Lemma plain_d2 n : (n < 100)%N -> plain (d2 n) = true.
Proof. intro H. unfold d2, plain, plainc. cbn [forallb]. lia. Qed.
Lemma plain_d3 n : (n < 1000)%N -> plain (d3 n) = true.
Proof. intro H. unfold d3, plain, plainc. cbn [forallb]. lia. Qed.
Lemma plain_d4 n : (n < 10000)%N -> plain (d4 n) = true.
Proof. intro H. unfold d4, plain, plainc. cbn [forallb]. lia. Qed.

Definition name_plain (name : option text) : Prop := forall n, name = Some n -> plain n = true.

Lemma plain_time_render b off name : valid_fields b = true -> name_plain name ->
  plain (time_render (written_time b off name)) = true.
Proof.
  intros V NP. apply valid_fields_iff in V. destruct V as (_ & H & MI & S & U).
  unfold time_render, written_time, hms_text, ms_text, br_text, bracket_text, bracket_inner, hours_text, written_off.
  cbn [o_sign o_hh o_mm o_name].
  repeat first [apply plain_app | apply plain_cons; [reflexivity|]].
  - apply plain_d2. lia.
  - apply plain_d2. lia.
  - apply plain_d2. lia.
  - apply plain_d3. lia.
  - destruct (off / 60 <? 0); reflexivity.
  - apply plain_of_digits. apply dec_of_N_all_digits.
  - destruct (Z.to_N (Z.abs (off / 60)) mod 60 =? 0)%N eqn:E; cbn [mm_text]; [reflexivity|].
    apply plain_cons; [reflexivity|]. apply plain_d2. lia.
  - destruct name as [n|]; cbn [name_text]; [|reflexivity]. apply plain_cons; [reflexivity|]. apply NP. reflexivity.
  - reflexivity.
Qed.

Lemma EPOCH_is : us_of_fields (mkdtf 1970 1 1 0 0 0 0) = EPOCH_US.
Proof. vm_compute. reflexivity. Qed.

Section Tables.
Variable zeros : list N.
Variable tzs : list (text * Z).
Hypothesis Hz : ascii_zeros zeros = true.

(** held instants: the years the writer can print with four digits and still round up, i.e. 1000-01-01 .. 9998-12-31 *)
Definition dt_range (x : Z) : Prop := days_before_year 1000 * US_DAY <= x + EPOCH_US < days_before_year 9999 * US_DAY.

(** what is asked of a writer: its text for an instant is the C09 engine's text for SOME aware value standing for that instant *)
Definition writes_instants (u : bool -> pyval -> result text) : Prop :=
  forall x t, dt_range x -> u false (PDT x) = OK t ->
    exists v offmin, dt_unconvert v = OK t /\ instant_us v = x + EPOCH_US /\ a_off v = Some (offmin * 60) /\ -720 <= offmin <= 840
                     /\ valid_fields (a_f v) = true /\ 1000 <= f_y (a_f v) <= 9998
                     /\ name_readable zeros offmin (a_name v) /\ name_plain (a_name v).
Definition writes_times (u : bool -> pyval -> result text) : Prop :=
  forall x t, 0 <= x < US_DAY -> u true (PTime x) = OK t ->
    exists v offmin, tm_unconvert v = OK t /\ (tod_us (a_f v) - offmin * 60 * 1000000) mod US_DAY = x
                     /\ a_off v = Some (offmin * 60) /\ -720 <= offmin <= 840 /\ time_valid (a_f v)
                     /\ name_readable zeros offmin (a_name v) /\ name_plain (a_name v).

Theorem dt_value_reads_back_l u x t : writes_instants u -> dt_range x -> x mod 1000 = 0 -> u false (PDT x) = OK t ->
  t <> [] /\ Serialize.escape_cdata t = t /\ conv_dt_m zeros tzs false t = OK (Some (PDT x)).
Proof.
  intros W R M E. destruct (W x t R E) as (v & offmin & U & I & O & OR & V & Y & NR & NP).
  destruct (dt_roundtrip_half_ms_l zeros tzs Hz v offmin O OR V Y NR) as (t' & f & U' & C & Vf & D & Mf).
  rewrite U in U'. apply OK_inj in U'. subst t'.
  destruct (dt_unconvert_render zeros v _ O V Y) as (b & _ & _ & B3 & YB & Et). rewrite U in Et. apply OK_inj in Et.
  assert (P : plain t = true).
  { rewrite Et. unfold render_dt. apply valid_fields_iff in B3 as B3'. destruct B3' as ((_ & Mo & Dd) & _).
    assert (D31 : days_in_month (f_y b) (f_mo b) <= 31).
    { unfold days_in_month. destruct (f_mo b =? 2); [destruct (is_leap (f_y b))|destruct (_ || _)]; lia. }
    apply plain_app; [apply plain_d4; lia|]. apply plain_app; [apply plain_d2; lia|]. apply plain_app; [apply plain_d2; lia|].
    apply plain_time_render; assumption. }
  split; [|split].
  - rewrite Et. unfold render_dt, d4. discriminate.
  - apply escape_plain. exact P.
  - unfold conv_dt_m. rewrite C. cbn [rmap]. do 3 f_equal. rewrite I in D. unfold EPOCH_US in *. lia.
Qed.

Lemma tod_us_proj g : tod_us (mkdtf 0 0 0 (f_h g) (f_mi g) (f_s g) (f_us g)) = tod_us g.
Proof. reflexivity. Qed.

Lemma tm_convert_range t f : tm_convert zeros tzs t = OK f -> 0 <= tod_us f < US_DAY.
Proof.
  unfold tm_convert, tm_convert_gen. destruct (match_time zeros (strip_nl t)) as [g|]; [|discriminate].
  destruct (parse_gmt_offset true zeros tzs (g_br g)) as [off|e]; [|discriminate]. cbn [bind].
  destruct (groups_time g) as [[h mi] sec].
  destruct (mk_datetime 1999 6 8 h mi sec (1000 * groups_ms g)) as [v|e] eqn:Ev; [|discriminate]. cbn [bind].
  unfold dt_add_us. destruct ((0 <=? us_of_fields v + - off * 1000000) && (us_of_fields v + - off * 1000000 <? MAXORDINAL * US_DAY)) eqn:Er; [|discriminate].
  destruct (us_of_fields_of_us (us_of_fields v + - off * 1000000) ltac:(lia)) as [_ Vv]. specialize (Vv ltac:(lia)).
  generalize dependent (fields_of_us (us_of_fields v + - off * 1000000)). intros g0 Vg.
  cbn [rmap]. intro H. apply OK_inj in H. subst f. rewrite tod_us_proj. apply tod_range. exact Vg.
Qed.

Theorem tm_value_reads_back_l u x t : writes_times u -> 0 <= x < US_DAY -> x mod 1000 = 0 -> u true (PTime x) = OK t ->
  t <> [] /\ Serialize.escape_cdata t = t /\ conv_dt_m zeros tzs true t = OK (Some (PTime x)).
Proof.
  intros W R M E. destruct (W x t R E) as (v & offmin & U & I & O & OR & TV & NR & NP).
  destruct (tm_roundtrip_half_ms_l zeros tzs Hz v offmin O OR TV NR) as (t' & f & U' & C & D & Mf).
  rewrite U in U'. apply OK_inj in U'. subst t'.
  destruct (tm_unconvert_render zeros v _ O TV) as (b & _ & _ & B3 & Et). rewrite U in Et. apply OK_inj in Et.
  pose proof (tm_convert_range t f C) as FR.
  split; [|split].
  - rewrite Et. unfold time_render, written_time, hms_text, d2. discriminate.
  - apply escape_plain. rewrite Et. apply plain_time_render; assumption.
  - unfold conv_dt_m. rewrite C. cbn [rmap]. do 3 f_equal.
    unfold dial_close in D. unfold US_DAY in *. lia.
Qed.
End Tables.
