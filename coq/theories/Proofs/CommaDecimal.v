(** C03 ("decimals with '.' or ',' separator"): decimal.Decimal never accepts a text containing a comma, so for EVERY text the
    converter's try/except (Types.Decimal._convert_str) reads the text with its commas turned into points: the value a
    comma-separated amount gets is the value of the same amount written with a point. *)
From OfxV Require Import Base.Prelude Base.Digits Model.PyDecimal Model.Scalars Gen.ScalarsGen.
Local Open Scope N_scope.

Lemma in_lstrip p c s : p c = false -> In c s -> In c (lstrip p s).
Proof.
  intros Hp. induction s as [|d s IH]; intros Hin; [exact Hin|].
  cbn [lstrip]. destruct (p d) eqn:E; [|exact Hin].
  destruct Hin as [->|Hin]; [congruence|]. apply IH. exact Hin.
Qed.
Lemma in_rstrip p c s : p c = false -> In c s -> In c (rstrip p s).
Proof.
  intros Hp. induction s as [|d s IH]; intros Hin; [exact Hin|].
  cbn [rstrip]. destruct Hin as [->|Hin].
  - destruct (rstrip p s); [rewrite Hp|]; left; reflexivity.
  - specialize (IH Hin). destruct (rstrip p s) as [|e r']; [destruct IH|]. right. exact IH.
Qed.
Lemma comma_not_space : py_isspace 44 = false.
Proof. vm_compute. reflexivity. Qed.
Lemma in_strip c s : py_isspace c = false -> In c s -> In c (strip py_isspace s).
Proof. intros Hp Hin. unfold strip. apply in_lstrip; [exact Hp|]. apply in_rstrip; assumption. Qed.

Lemma in_dec_to_ascii s a : In 44 s -> dec_to_ascii s = Some a -> In 44 a.
Proof.
  revert a. induction s as [|c s IH]; intros a Hin H; [destruct Hin|].
  cbn [dec_to_ascii] in H.
  destruct Hin as [->|Hin].
  - cbn in H. destruct (dec_to_ascii s); cbn [ocons] in H; [|discriminate]. injection H as <-. left. reflexivity.
  - destruct (c =? 95); [exact (IH a Hin H)|].
    assert (Ho : forall x, ocons x (dec_to_ascii s) = Some a -> In 44 a).
    { intros x Hx. destruct (dec_to_ascii s) as [t|] eqn:E; cbn [ocons] in Hx; [|discriminate].
      injection Hx as <-. right. exact (IH t Hin eq_refl). }
    destruct ((0 <? c) && (c <=? 127)); [exact (Ho _ H)|].
    destruct (py_isspace c); [exact (Ho _ H)|].
    destruct (py_decimal c); [exact (Ho _ H)|discriminate].
Qed.

Lemma span_digits_comma s : In 44 s -> In 44 (snd (span_digits s)).
Proof.
  induction s as [|c s IH]; intros Hin; [destruct Hin|].
  cbn [span_digits]. destruct (is_digit c) eqn:E.
  - destruct Hin as [->|Hin]; [discriminate E|]. specialize (IH Hin). destruct (span_digits s) as [a b]. exact IH.
  - exact Hin.
Qed.
Lemma parse_sign_comma s : In 44 s -> In 44 (snd (parse_sign s)).
Proof.
  intros Hin. destruct s as [|c s]; [destruct Hin|].
  unfold parse_sign. destruct c as [|p]; [exact Hin|].
  do 6 (try (destruct p as [p|p|])); cbn [snd]; try exact Hin; (destruct Hin as [H|H]; [discriminate H|exact H]).
Qed.
Lemma parse_exponent_comma s : In 44 s -> parse_exponent s = None.
Proof.
  intros Hin. destruct s as [|c r]; [destruct Hin|]. cbn [parse_exponent].
  destruct ((c =? 101) || (c =? 69)) eqn:E; [|reflexivity].
  destruct Hin as [->|Hin]; [discriminate E|].
  pose proof (parse_sign_comma r Hin) as H1. destruct (parse_sign r) as [eneg r1]. cbn [snd] in H1.
  pose proof (span_digits_comma r1 H1) as H2. destruct (span_digits r1) as [ed r2]. cbn [snd] in H2.
  destruct r2 as [|x r2]; [destruct H2|]. cbn [isnil negb]. rewrite orb_true_r. reflexivity.
Qed.
Lemma strip_prefix_comma p s t : ~ In 44 p -> In 44 s -> strip_prefix p s = Some t -> In 44 t.
Proof.
  revert s t. induction p as [|a p IH]; intros s t Hp Hin H.
  - destruct s; cbn in H; injection H as <-; exact Hin.
  - destruct s as [|b s]; [destruct Hin|]. cbn [strip_prefix] in H. destruct (a =? b) eqn:E; [|discriminate].
    apply N.eqb_eq in E. subst b. destruct Hin as [Ha|Hin]; [exfalso; apply Hp; left; exact Ha|].
    apply (IH s t); [intro X; apply Hp; right; exact X|exact Hin|exact H].
Qed.
Lemma digits_no_comma p : In 44 p -> forallb is_digit p = false.
Proof.
  induction p as [|c p IH]; intros Hin; [destruct Hin|]. cbn [forallb].
  destruct Hin as [->|Hin]; [reflexivity|]. rewrite (IH Hin). apply andb_false_r.
Qed.
Lemma text_eqb_comma a b : In 44 a -> ~ In 44 b -> text_eqb a b = false.
Proof.
  intros Ha Hb. destruct (text_eqb a b) eqn:E; [|reflexivity].
  exfalso. apply Hb. apply text_eqb_eq in E. subst b. exact Ha.
Qed.

Lemma lower_comma body : In 44 body -> In 44 (map lower body).
Proof. intros H. change 44 with (lower 44). apply in_map. exact H. Qed.

Lemma of_ascii_comma a : In 44 a -> of_ascii a = Err Crash.
Proof.
  intros Hin. unfold of_ascii.
  pose proof (parse_sign_comma a Hin) as Hb. destruct (parse_sign a) as [neg body]. cbn [snd] in Hb.
  pose proof (lower_comma body Hb) as Hl.
  rewrite (text_eqb_comma (map lower body) (T "inf") Hl), (text_eqb_comma (map lower body) (T "infinity") Hl);
    [|cbn; intuition discriminate|cbn; intuition discriminate].
  cbn [orb].
  destruct (strip_prefix (T "snan") (map lower body)) as [p|] eqn:E1.
  { rewrite (digits_no_comma p); [reflexivity|].
    apply (strip_prefix_comma (T "snan") (map lower body) p); [cbn; intuition discriminate|exact Hl|exact E1]. }
  destruct (strip_prefix (T "nan") (map lower body)) as [p|] eqn:E2.
  { rewrite (digits_no_comma p); [reflexivity|].
    apply (strip_prefix_comma (T "nan") (map lower body) p); [cbn; intuition discriminate|exact Hl|exact E2]. }
  pose proof (span_digits_comma body Hb) as H1. destruct (span_digits body) as [ip r1]. cbn [snd] in H1.
  assert (H2 : forall fp r2, (match r1 with 46 :: r => span_digits r | _ => ([], r1) end) = (fp, r2) -> In 44 r2).
  { intros fp r2 Hm. destruct r1 as [|c r]; [destruct H1|].
    destruct c as [|q]; [injection Hm as _ <-; exact H1|].
    do 6 (try (destruct q as [q|q|])); cbv beta iota in Hm; try (injection Hm as _ <-; exact H1).
    destruct H1 as [H|H]; [discriminate H|]. pose proof (span_digits_comma r H) as H3. rewrite Hm in H3. exact H3. }
  destruct (match r1 with 46 :: r => span_digits r | _ => ([], r1) end) as [fp r2] eqn:Em.
  specialize (H2 fp r2 eq_refl).
  destruct (isnil ip && isnil fp); [reflexivity|].
  rewrite (parse_exponent_comma r2 H2). reflexivity.
Qed.

Theorem comma_rejected_by_decimal s : In 44 s -> of_string s = Err Crash.
Proof.
  intros Hin. unfold of_string.
  pose proof (in_strip 44 s comma_not_space Hin) as H1.
  destruct (dec_to_ascii (strip py_isspace s)) as [a|] eqn:E; [|reflexivity].
  apply of_ascii_comma. exact (in_dec_to_ascii _ a H1 E).
Qed.

Lemma comma_to_dot_id s : ~ In 44 s -> comma_to_dot s = s.
Proof.
  induction s as [|c s IH]; intros Hn; [reflexivity|]. cbn [comma_to_dot map].
  destruct (c =? 44) eqn:E.
  - apply N.eqb_eq in E. exfalso. apply Hn. left. exact E.
  - f_equal. apply IH. intro X. apply Hn. right. exact X.
Qed.

(** the converter's try/except is "read the text with commas turned into points" -- for every text *)
Theorem of_string_comma_is_dot s : of_string_comma s = of_string (comma_to_dot s).
Proof.
  unfold of_string_comma. destruct (in_dec N.eq_dec 44 s) as [Hin|Hn].
  - rewrite (comma_rejected_by_decimal s Hin). reflexivity.
  - rewrite (comma_to_dot_id s Hn). destruct (of_string s); reflexivity.
Qed.

Theorem convert_decimal_comma_is_dot scale required s :
  convert_decimal scale required (PStr s) = convert_decimal scale required (PStr (comma_to_dot s)).
Proof.
  cbn [convert_decimal]. rewrite (of_string_comma_is_dot s), (of_string_comma_is_dot (comma_to_dot s)).
  f_equal. f_equal. unfold comma_to_dot. rewrite map_map. apply map_ext. intro c.
  destruct (c =? 44) eqn:E; [reflexivity|]. rewrite E. reflexivity.
Qed.

Example comma_example :
  convert_decimal (Some 2) true (PStr (T "-1234,50")) = convert_decimal (Some 2) true (PStr (T "-1234.50")) /\
  is_ok (convert_decimal (Some 2) true (PStr (T "-1234,50"))) = true /\
  of_string (T "1,5") = Err Crash.
Proof. vm_compute. auto. Qed.
