(** DateTimeM: facts about the regenerated tables (Gen/DateTimeGen.v), by evaluation. *)
From OfxV Require Import Base.Prelude Base.Digits Model.Calendar Model.DateTimeM Proofs.DateTimeMRead Gen.DateTimeGen.
Local Open Scope N_scope.
(** the decimal-digit table contains the ASCII digits with their values *)
Lemma nd_zeros_ascii : ascii_zeros nd_zeros = true.
Proof. vm_compute. reflexivity. Qed.
