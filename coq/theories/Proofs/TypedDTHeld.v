(** DateTime / Time elements in the typed schema model: the UTC writer is a writer in the sense of TypedDTRoundTrip, and the
    scalar clause of validity (what [valid] asks of every element value) holds for date-time values. *)
From OfxV Require Import Base.Prelude Base.Digits Base.SgmlBase Model.Schema Model.Convert Model.Calendar Model.DateTimeM Model.DateTimeMCases
     Model.Scalars Model.Serialize Model.Typed Model.TypedDT Proofs.CalendarProofs Proofs.DateTimeMDigits Proofs.DateTimeMRead
     Proofs.DateTimeMWrite Proofs.DateTimeMGen Proofs.WireRoundTrip Proofs.TypedDTRoundTrip Gen.DateTimeGen.
From Coq Require Import ZifyBool ZifyN ZifyNat.
Local Open Scope Z_scope.
Ltac Zify.zify_post_hook ::= Z.to_euclidean_division_equations.

Lemma year_of_instant f : valid_fields f = true ->
  days_before_year 1000 * US_DAY <= us_of_fields f < days_before_year 9999 * US_DAY -> 1000 <= f_y f <= 9998.
Proof.
  intros V R. split.
  - destruct (Z_le_gt_dec 1000 (f_y f)) as [|G]; [assumption|exfalso].
    pose proof (year_of_us_upper _ 999 V ltac:(lia)) as U. change (999 + 1) with 1000 in U. lia.
  - destruct (Z_le_gt_dec (f_y f) 9998) as [|G]; [assumption|exfalso].
    pose proof (year_of_us_lower _ 9999 V ltac:(lia)) as L. lia.
Qed.

Lemma utc_name_ok offmin : name_readable nd_zeros offmin (Some UTC_NAME) /\ name_plain (Some UTC_NAME).
Proof.
  split.
  - intros n E. injection E as <-. split; [reflexivity|]. intros _. vm_compute. reflexivity.
  - intros n E. injection E as <-. reflexivity.
Qed.

Lemma utc_writes_instants : writes_instants nd_zeros unconv_dt_utc.
Proof.
  intros x t R E. unfold dt_range in R. cbn [unconv_dt_utc] in E.
  assert (R0 : 0 <= x + EPOCH_US < MAXORDINAL * US_DAY).
  { change (days_before_year 1000) with 364877 in R. change (days_before_year 9999) with 3651694 in R.
    unfold MAXORDINAL, US_DAY in *. lia. }
  destruct ((0 <=? x + EPOCH_US) && (x + EPOCH_US <? MAXORDINAL * US_DAY)) eqn:Er; [|lia].
  destruct (us_of_fields_of_us (x + EPOCH_US) ltac:(lia)) as [Eu Vv]. specialize (Vv ltac:(lia)).
  exists (utc_value (fields_of_us (x + EPOCH_US))), 0. split; [exact E|]. split.
  - unfold instant_us, utc_value. cbn [a_f a_off]. lia.
  - split; [reflexivity|]. split; [lia|]. split; [exact Vv|]. split.
    + apply year_of_instant; [exact Vv|]. cbn [utc_value a_f]. rewrite Eu. exact R.
    + apply utc_name_ok.
Qed.

Lemma utc_writes_times : writes_times nd_zeros unconv_dt_utc.
Proof.
  intros x t R E. cbn [unconv_dt_utc] in E.
  destruct ((0 <=? x) && (x <? US_DAY)) eqn:Er; [|lia].
  assert (R0 : x < MAXORDINAL * US_DAY) by (unfold MAXORDINAL, US_DAY in *; lia).
  destruct (us_of_fields_of_us x ltac:(lia)) as [Eu Vv]. specialize (Vv R0).
  exists (utc_value (fields_of_us x)), 0. split; [exact E|].
  pose proof (us_of_fields_tod (fields_of_us x)) as UT. pose proof (tod_range _ Vv) as TR.
  apply valid_fields_iff in Vv as Vv'. destruct Vv' as ((Yy & Mo & Dd) & H & MI & S & U).
  pose proof (ymd2ord_bounds (f_y (fields_of_us x)) _ _ Mo Dd) as OB.
  split.
  - cbn [utc_value a_f]. rewrite Eu in UT. unfold US_DAY in *.
    assert (ymd2ord (f_y (fields_of_us x)) (f_mo (fields_of_us x)) (f_d (fields_of_us x)) >= 1).
    { pose proof (dby_mono 1 (f_y (fields_of_us x)) ltac:(lia)). change (days_before_year 1) with 0 in *. lia. }
    lia.
  - split; [reflexivity|]. split; [lia|]. split; [cbn [utc_value a_f]; unfold time_valid; lia|]. apply utc_name_ok.
Qed.

(** the scalar clause of [valid] for date-time elements of the typed model, with the C09 reader and any conforming writer *)
Section Held.
  Variable table : list (N * ety).
  Variable u : bool -> pyval -> result text.
  Hypothesis Wi : writes_instants nd_zeros u.
  Hypothesis Wt : writes_times nd_zeros u.
  Let conv := conv_typed table (conv_dt_m nd_zeros tzs).
  Let unconv := unconv_typed table u.

  Definition held_dt (v : pyval) : Prop :=
    match v with
    | PDT x => dt_range x /\ x mod 1000 = 0 /\ exists t, u false (PDT x) = OK t
    | _ => False
    end.
  Definition held_tm (v : pyval) : Prop :=
    match v with
    | PTime x => 0 <= x < US_DAY /\ x mod 1000 = 0 /\ exists t, u true (PTime x) = OK t
    | _ => False
    end.

  Theorem held_datetime_reads_back_l t req v :
    (lookup_ety table t = Some (EDateTime req) /\ held_dt v) \/ (lookup_ety table t = Some (ETime req) /\ held_tm v) ->
    exists s, unconv_w pyval unconv t v = OK s /\ s <> [] /\ conv t (SText pyval s) = OK (Some v).
  Proof.
    intros [[Ht H]|[Ht H]].
    - destruct v as [| | | | |x| |]; try contradiction. destruct H as (R & M & (s & E)).
      destruct (dt_value_reads_back_l nd_zeros tzs nd_zeros_ascii u x s Wi R M E) as (Hne & Hesc & Hc).
      exists s. unfold unconv_w, unconv, unconv_typed, conv, conv_typed. rewrite Ht, E. cbn [rmap]. rewrite Hesc.
      split; [reflexivity|]. split; [exact Hne|exact Hc].
    - destruct v as [| | | | | |x|]; try contradiction. destruct H as (R & M & (s & E)).
      destruct (tm_value_reads_back_l nd_zeros tzs nd_zeros_ascii u x s Wt R M E) as (Hne & Hesc & Hc).
      exists s. unfold unconv_w, unconv, unconv_typed, conv, conv_typed. rewrite Ht, E. cbn [rmap]. rewrite Hesc.
      split; [reflexivity|]. split; [exact Hne|exact Hc].
  Qed.
End Held.

(** non-vacuity: the UTC writer writes every instant of the range *)
Lemma utc_writer_total x : dt_range x -> exists t, unconv_dt_utc false (PDT x) = OK t.
Proof.
  intro R. cbn [unconv_dt_utc]. unfold dt_range in R.
  change (days_before_year 1000) with 364877 in R. change (days_before_year 9999) with 3651694 in R.
  destruct ((0 <=? x + EPOCH_US) && (x + EPOCH_US <? MAXORDINAL * US_DAY)) eqn:Er; [|unfold MAXORDINAL, US_DAY in *; lia].
  destruct (us_of_fields_of_us (x + EPOCH_US) ltac:(lia)) as [Eu Vv]. specialize (Vv ltac:(lia)).
  assert (Y : 1000 <= f_y (fields_of_us (x + EPOCH_US)) <= 9998).
  { apply year_of_instant; [exact Vv|]. rewrite Eu. change (days_before_year 1000) with 364877. change (days_before_year 9999) with 3651694. exact R. }
  destruct (dt_unconvert_render nd_zeros (utc_value (fields_of_us (x + EPOCH_US))) 0 eq_refl Vv Y) as (b & _ & _ & _ & _ & E).
  eexists. exact E.
Qed.
