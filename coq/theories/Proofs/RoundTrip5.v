(** C01/C13, part 5: the tree-level round trip.  For every class table and every converter pair, a valid instance written by
    to_etree is read back by from_etree as the very same instance, with no warning. *)
From OfxV Require Import Base.Prelude Model.Schema Model.SchemaWf Model.Convert Proofs.ConvertSound Proofs.ConvertUnknown Proofs.ConvertPlaces
     Proofs.RoundTrip1 Proofs.RoundTrip2 Proofs.RoundTrip3 Proofs.RoundTrip4.
From Coq Require Import Lia.
Local Open Scope string_scope.

Inductive sublist {A} : list A -> list A -> Prop :=
| sl_nil : sublist [] []
| sl_skip x l l' : sublist l l' -> sublist l (x :: l')
| sl_cons x l l' : sublist l l' -> sublist (x :: l) (x :: l').
Lemma sublist_in {A} (l l' : list A) x : sublist l l' -> In x l -> In x l'.
Proof. induction 1; cbn [In]; [tauto| |]; intuition. Qed.
Lemma sublist_nil {A} (l : list A) : sublist [] l.
Proof. induction l; constructor; assumption. Qed.

Section RT5.
  Variable sval : Type.
  Variable conv : N -> sin sval -> result (option sval).
  Variable unconv : N -> sval -> result text.
  Variable S : schema.
  Notation inst := (inst sval).
  Notation fval := (fval sval).
  Notation member := (member sval).
  Notation kwval := (kwval sval).
  Notation to_etree := (to_etree sval unconv S).
  Notation from_etree := (from_etree sval conv S).
  Notation construct := (construct sval conv S).
  Notation spec3 := (string * attr * kwval)%type.
  Notation incr := (incr).
  Notation valid := (valid sval conv unconv S).

  Lemma incr_sublist keys : forall names names' lo, incr keys lo names -> sublist names' names -> incr keys lo names'.
  Proof.
    intros names names' lo H Hs. revert lo H. induction Hs as [|x l l' Hs IH|x l l' Hs IH]; intros lo H.
    - exact I.
    - cbn [RoundTrip3.incr] in H. destruct H as (i & Hi & Hlo & Ht). apply IH. eapply incr_weaken; [|exact Ht]. lia.
    - cbn [RoundTrip3.incr] in *. destruct H as (i & Hi & Hlo & Ht). exists i. repeat split; try assumption. apply IH. exact Ht.
  Qed.

  Lemma to_etree_tag j e : to_etree j = OK e -> etag e = icls sval j /\ etext e = None.
  Proof.
    destruct j as [cn fs ms]. rewrite to_etree_unfold. destruct (find_cls S cn) as [c|]; [|discriminate].
    destruct (emit_top sval unconv S c ms fs (split_at (ci_spec c))); cbn; [|discriminate]. intro H. injection H as <-. split; reflexivity.
  Qed.

  Lemma index_of_in k (l : list string) : In k l -> exists i, index_of k l = Some i.
  Proof.
    induction l as [|x l IH]; [contradiction|]. intro H. cbn [index_of]. destruct (String.eqb_spec k x) as [->|Hne]; [eauto|].
    destruct H as [->|H]; [contradiction|]. destruct (IH H) as (i & ->). cbn. eauto.
  Qed.
  Lemma assoc_in_keys {A} k (l : list (string * A)) a : assoc k l = Some a -> In k (map fst l).
  Proof. intro H. apply assoc_in in H. change k with (fst (k, a)). apply in_map. exact H. Qed.

  (** the reader-side description of the children written for a list of fields *)
  Definition fspec_of (c : cinfo) (p : string * fval) : list spec3 :=
    match p with
    | (k, FNone _) => []
    | (k, FVal _ x) => match assoc k (ci_spec c) with
                       | Some (AElem t r) => match unconv t x with OK s => [(k, AElem t r, KText sval s)] | Err _ => [] end
                       | _ => []
                       end
    | (k, FSub _ j) => match assoc k (ci_spec c) with Some (ASub t r) => [(k, ASub t r, KInst sval j)] | _ => [] end
    end.
  Definition mspec_of (c : cinfo) (m : member) : list spec3 :=
    match m with
    | MAgg _ j => match assoc (lower (icls sval j)) (ci_spec c) with Some a => [(lower (icls sval j), a, KInst sval j)] | None => [] end
    | MVal _ (Some x) => match the_listelem c with
                         | Some (k, t) => match unconv t x with OK s => [(k, AListElem t, KText sval s)] | Err _ => [] end
                         | None => []
                         end
    | _ => []
    end.

  Lemma canon_kw_cons c p l : canon_kw sval unconv c (p :: l) = (canon_field sval unconv c p ++ canon_kw sval unconv c l)%list.
  Proof. reflexivity. Qed.
  Lemma canon_args_cons c m l : canon_args sval unconv c (m :: l) = (canon_member sval unconv c m ++ canon_args sval unconv c l)%list.
  Proof. reflexivity. Qed.
  Lemma skw_app (a b : list spec3) : skw sval (a ++ b) = (skw sval a ++ skw sval b)%list.
  Proof. apply flat_map_app. Qed.
  Lemma sargs_app (a b : list spec3) : sargs sval (a ++ b) = (sargs sval a ++ sargs sval b)%list.
  Proof. apply flat_map_app. Qed.


  Lemma in_nodup_assoc {A} (l : list (string * A)) k a : NoDup (map fst l) -> In (k, a) l -> assoc k l = Some a.
  Proof.
    induction l as [|[k' a'] l IHl]; intros Hnd Hin; [contradiction|]. cbn [map fst] in Hnd. inversion Hnd as [|? ? Hni Hnd']; subst.
    cbn [assoc]. destruct Hin as [E|Hin].
    - injection E as -> ->. rewrite String.eqb_refl. reflexivity.
    - destruct (String.eqb_spec k k') as [->|_]; [|apply IHl; assumption].
      exfalso. apply Hni. change k' with (fst (k', a)). apply in_map. exact Hin.
  Qed.

  (** ---- list plumbing ---- *)
  Lemma sublist_app {A} (a a' b b' : list A) : sublist a a' -> sublist b b' -> sublist (a ++ b) (a' ++ b').
  Proof. intros H1 H2. induction H1; cbn [app]; [exact H2|apply sl_skip; assumption|apply sl_cons; assumption]. Qed.
  Lemma sublist_refl {A} (l : list A) : sublist l l.
  Proof. induction l; constructor; assumption. Qed.
  Lemma nodup_sublist {A} (l l' : list A) : sublist l l' -> NoDup l' -> NoDup l.
  Proof.
    induction 1 as [|x l l' Hs IHs|x l l' Hs IHs]; intro Hnd; [constructor| |]; inversion Hnd as [|? ? Hni Hnd']; subst.
    - apply IHs. exact Hnd'.
    - constructor; [|apply IHs; exact Hnd']. intro Hin. apply Hni. eapply sublist_in; eassumption.
  Qed.
  Lemma sublist_map_filter {A} (p : string * A -> bool) l : sublist (map fst (filter p l)) (map fst l).
  Proof. induction l as [|x l IHl]; cbn [filter map]; [constructor|]. destruct (p x); cbn [map]; [apply sl_cons|apply sl_skip]; exact IHl. Qed.
  Lemma in_firstn {A} (l : list A) n x : In x (firstn n l) -> In x l.
  Proof. intro H. rewrite <- (firstn_skipn n l). apply in_or_app. left. exact H. Qed.
  Lemma in_skipn {A} (l : list A) n x : In x (skipn n l) -> In x l.
  Proof. intro H. rewrite <- (firstn_skipn n l). apply in_or_app. right. exact H. Qed.
  (** names that all carry a supported attribute survive the removal of the Unsupported entries *)
  Lemma sublist_filter_names (sp : list (string * attr)) : NoDup (map fst sp) -> forall L names,
    (forall ka, In ka L -> In ka sp) -> sublist names (map fst L) ->
    (forall k, In k names -> exists a, assoc k sp = Some a /\ is_unsup a = false) ->
    sublist names (map fst (filter (fun ka => negb (is_unsup (snd ka))) L)).
  Proof.
    intros Hnd. induction L as [|[k a] L IHL]; intros names Hsub Hs Hu; cbn [map fst] in Hs.
    - inversion Hs; subst. constructor.
    - cbn [filter snd]. inversion Hs as [|x l l' Hs'|x l l' Hs']; subst.
      + assert (IH' : sublist names (map fst (filter (fun ka => negb (is_unsup (snd ka))) L))).
        { apply IHL; [intros ka Hin; apply Hsub; right; exact Hin|exact Hs'|exact Hu]. }
        destruct (negb (is_unsup a)); [cbn [map fst]; apply sl_skip|]; exact IH'.
      + destruct (Hu k (or_introl eq_refl)) as (a' & Ha' & Hun).
        rewrite (in_nodup_assoc sp k a Hnd (Hsub (k, a) (or_introl eq_refl))) in Ha'. injection Ha' as <-. rewrite Hun. cbn [negb map fst].
        apply sl_cons. apply IHL; [intros ka Hin; apply Hsub; right; exact Hin|exact Hs'|intros k0 Hin; apply Hu; right; exact Hin].
  Qed.

  Section Node.
    Variable c : cinfo.
    Variables lb ub : nat.
    Hypothesis Hc : rt_class_ok c lb ub.
    (** nested instances already round-trip *)
    Variable ok_sub : inst -> Prop.
    Hypothesis IH : forall j e, ok_sub j -> to_etree j = OK e -> from_etree e = OK (j, []).

    Definition fields_ok (l : list (string * fval)) : Prop :=
      (forall k x, In (k, FVal sval x) l -> exists t req s, assoc k (ci_spec c) = Some (AElem t req) /\ unconv t x = OK s /\ s <> [] /\ conv t (SText sval s) = OK (Some x))
      /\ (forall k j, In (k, FSub sval j) l -> (exists t req, assoc k (ci_spec c) = Some (ASub t req) /\ lower (icls sval j) = k /\ has_dot (icls sval j) = false) /\ ok_sub j).

    Lemma fields_ok_cons p l : fields_ok (p :: l) -> fields_ok l.
    Proof. intros [H1 H2]. split; intros; [eapply H1|eapply H2]; right; eassumption. Qed.

    Lemma items_goods : forall l chs, fields_ok l -> items_top sval unconv S c l = OK chs ->
      Forall2 (good sval from_etree c) chs (flat_map (fspec_of c) l)
      /\ skw sval (flat_map (fspec_of c) l) = canon_kw sval unconv c l /\ sargs sval (flat_map (fspec_of c) l) = []
      /\ sublist (map fst (skw sval (flat_map (fspec_of c) l))) (map fst l)
      /\ (forall k v, In (k, v) (skw sval (flat_map (fspec_of c) l)) -> exists a, assoc k (ci_spec c) = Some a /\ is_unsup a = false).
    Proof.
      induction l as [|[k v] l IHl]; intros chs Hok H; cbn [items_top] in H.
      - injection H as <-. cbn. repeat split; try constructor. intros k v [].
      - destruct (item_top sval unconv S c (k, v)) as [x|e] eqn:Ex; cbn [bind] in H; [|discriminate].
        destruct (items_top sval unconv S c l) as [r|e] eqn:Er; cbn [bind] in H; [|discriminate].
        injection H as <-. destruct (IHl r (fields_ok_cons _ _ Hok) eq_refl) as (F & Hk & Ha & Hs & Hu).
        cbn [flat_map]. rewrite !skw_app, !sargs_app, Hk, Ha. rewrite Hk in Hs, Hu. rewrite !canon_kw_cons.
        destruct v as [|xv|j]; cbn [item_top fspec_of canon_field] in *.
        + injection Ex as <-. cbn [app skw sargs flat_map map]. repeat split; try assumption. apply sl_skip. exact Hs.
        + destruct Hok as [Hv _]. destruct (Hv k xv (or_introl eq_refl)) as (t & req & s & Has & Hun & Hne & Hcv).
          rewrite Has in *. unfold leaf in Ex. rewrite Hun in *. cbn in Ex. injection Ex as <-. cbn [app skw sargs flat_map is_list_attr map fst].
          destruct (rc_tags _ _ _ Hc k (AElem t req) (assoc_in _ _ _ Has)) as (Hd & Hlo & _).
          repeat split; try reflexivity.
          * constructor; [|exact F]. cbn [good etag]. repeat split; try assumption.
            -- apply index_of_in. eapply assoc_in_keys. exact Has.
            -- cbn. destruct s; [contradiction|reflexivity].
            -- cbn. intros _ Hf _. destruct s; [contradiction|discriminate].
            -- cbn. destruct s; [contradiction|reflexivity].
          * apply sl_cons. exact Hs.
          * intros k0 v0 [E|Hin]; [injection E as <- <-; exists (AElem t req); split; [exact Has|reflexivity]|apply (Hu k0 v0 Hin)].
        + destruct Hok as [_ Hsub]. destruct (Hsub k j (or_introl eq_refl)) as ((t & req & Has & Hlo & Hd) & Hj).
          rewrite Has in *. destruct (to_etree j) as [ej|e] eqn:Ej; cbn in Ex; [|discriminate]. injection Ex as <-.
          cbn [app skw sargs flat_map is_list_attr map fst]. destruct (to_etree_tag _ _ Ej) as [Ht Hx].
          repeat split; try reflexivity.
          * constructor; [|exact F]. cbn [good]. rewrite Ht. repeat split; try assumption.
            -- apply index_of_in. eapply assoc_in_keys. exact Has.
            -- cbn. rewrite Hx. cbn. rewrite (IH j ej Hj Ej). reflexivity.
            -- cbn. intros _ _ _. exists j. apply (IH j ej Hj Ej).
          * apply sl_cons. exact Hs.
          * intros k0 v0 [E|Hin]; [injection E as <- <-; exists (ASub t req); split; [exact Has|reflexivity]|apply (Hu k0 v0 Hin)].
    Qed.

    (** ---- members ---- *)
    Definition members_ok (ms : list member) : Prop :=
      (forall j, In (MAgg sval j) ms -> (ci_elist c = false /\ mem (lower (icls sval j)) (listaggregates c) = true /\ has_dot (icls sval j) = false) /\ ok_sub j)
      /\ (forall v, In (MVal sval v) ms -> ci_elist c = true /\ exists x k t s, v = Some x /\ the_listelem c = Some (k, t) /\ unconv t x = OK s /\ s <> [] /\ conv t (SText sval s) = OK (Some x))
      /\ (forall s, ~ In (MStr sval s) ms).
    Lemma members_ok_cons m l : members_ok (m :: l) -> members_ok l.
    Proof.
      intros (H1 & H2 & H3). split; [|split].
      - intros j Hin. apply H1. right. exact Hin.
      - intros v Hin. apply H2. right. exact Hin.
      - intros s Hin. apply (H3 s). right. exact Hin.
    Qed.

    Lemma mem_keys_where (p : attr -> bool) (sp : list (string * attr)) k : mem k (keys_where p sp) = true -> exists a, In (k, a) sp /\ p a = true.
    Proof.
      unfold mem, keys_where. intro H. apply existsb_exists in H. destruct H as (k' & Hin & He). apply String.eqb_eq in He. subst k'.
      apply in_map_iff in Hin. destruct Hin as ([k0 a] & Hk & Hf). cbn in Hk. subst k0. apply filter_In in Hf. destruct Hf as [Hin Hp]. exists a. split; assumption.
    Qed.
    Lemma the_listelem_in k t : the_listelem c = Some (k, t) -> In (k, AListElem t) (ci_spec c).
    Proof.
      unfold the_listelem. intro H.
      destruct (filter (fun ka => is_listelem (snd ka)) (ci_spec c)) as [|[k0 a0] rest] eqn:E; [discriminate|].
      destruct a0 as [| | |t0|]; try discriminate. destruct rest; [|discriminate]. injection H as <- <-.
      assert (Hin : In (k0, AListElem t0) (filter (fun ka => is_listelem (snd ka)) (ci_spec c))) by (rewrite E; left; reflexivity).
      apply filter_In in Hin. apply Hin.
    Qed.

    Lemma mems_goods : forall ms chs, members_ok ms -> mems_top sval unconv S c ms = OK chs ->
      Forall2 (good sval from_etree c) chs (flat_map (mspec_of c) ms)
      /\ sargs sval (flat_map (mspec_of c) ms) = canon_args sval unconv c ms /\ skw sval (flat_map (mspec_of c) ms) = []
      /\ (forall k a v, In (k, a, v) (flat_map (mspec_of c) ms) -> is_list_attr a = true /\ In (k, a) (ci_spec c)).
    Proof.
      induction ms as [|m ms IHm]; intros chs Hok H; cbn [mems_top] in H.
      - injection H as <-. cbn. split; [constructor|]. split; [reflexivity|]. split; [reflexivity|]. intros k a v [].
      - destruct (member_top sval unconv S c m) as [x|e] eqn:Ex; cbn [bind] in H; [|discriminate].
        destruct (mems_top sval unconv S c ms) as [r|e] eqn:Er; cbn [bind] in H; [|discriminate].
        injection H as <-. destruct (IHm r (members_ok_cons _ _ Hok) eq_refl) as (F & Ha & Hk & Hl).
        cbn [flat_map]. rewrite !skw_app, !sargs_app, Ha, Hk. rewrite !canon_args_cons.
        destruct Hok as (Hagg & Hval & Hstr).
        destruct m as [j|s0|[xv|]]; cbn [member_top mspec_of canon_member] in *; try discriminate.
        + destruct (Hagg j (or_introl eq_refl)) as ((Hel & Hmem & Hd) & Hj). rewrite Hel in *.
          destruct (to_etree j) as [ej|e] eqn:Ej; cbn in Ex; [|discriminate]. injection Ex as <-.
          unfold listaggregates in Hmem. rewrite Hel in Hmem. destruct (mem_keys_where _ _ _ Hmem) as (a & Hin & Hpa).
          rewrite (in_nodup_assoc _ _ _ (rc_nodup _ _ _ Hc) Hin). destruct (to_etree_tag _ _ Ej) as [Ht Hx].
          assert (Hla : is_list_attr a = true) by (destruct a; try discriminate; reflexivity).
          cbn [app skw sargs flat_map]. rewrite Hla. cbn [app]. split; [|split; [reflexivity|split; [reflexivity|]]].
          * constructor; [|exact F]. cbn [good]. rewrite Ht. repeat split; try assumption.
            -- apply index_of_in. change (lower (icls sval j)) with (fst (lower (icls sval j), a)). apply in_map. exact Hin.
            -- apply (in_nodup_assoc _ _ _ (rc_nodup _ _ _ Hc) Hin).
            -- cbn. replace (is_unsup a) with false by (destruct a; try discriminate; reflexivity). rewrite Hx. cbn. rewrite (IH j ej Hj Ej). reflexivity.
            -- cbn. intros _ _ _. exists j. apply (IH j ej Hj Ej).
            -- destruct a; try discriminate; exact I.
          * intros k0 a0 v0 [E|Hin']; [injection E as <- <- <-; split; [exact Hla|exact Hin]|apply (Hl _ _ _ Hin')].
        + destruct (Hval (Some xv) (or_introl eq_refl)) as (Hel & x1 & k & t & s & E & Hle & Hun & Hne & Hcv). injection E as <-.
          rewrite Hel, Hle in *. unfold leaf in Ex. rewrite Hun in *. cbn in Ex. injection Ex as <-.
          pose proof (the_listelem_in _ _ Hle) as Hin.
          destruct (rc_tags _ _ _ Hc k (AListElem t) Hin) as (Hd & Hlo & _).
          cbn [app skw sargs flat_map is_list_attr]. split; [|split; [reflexivity|split; [reflexivity|]]].
          * constructor; [|exact F]. cbn [good etag]. repeat split; try assumption.
            -- apply index_of_in. change k with (fst (k, AListElem t)). apply in_map. exact Hin.
            -- apply (in_nodup_assoc _ _ _ (rc_nodup _ _ _ Hc) Hin).
            -- cbn. destruct s; [contradiction|reflexivity].
            -- cbn. intros _ Hf _. destruct s; [contradiction|discriminate].
            -- cbn. destruct s; [contradiction|reflexivity].
          * intros k0 a0 v0 [E|Hin']; [injection E as <- <- <-; split; [reflexivity|exact Hin]|apply (Hl _ _ _ Hin')].
    Qed.

    (** ---- the sequence check on what the writer emits ---- *)
    Definition names3 (l : list spec3) : list string := map (fun s : spec3 => fst (fst s)) l.
    Definition nonlist3 (l : list spec3) : Prop := forall k a v, In (k, a, v) l -> is_list_attr a = false.

    Lemma skw_names l : nonlist3 l -> map fst (skw sval l) = names3 l.
    Proof.
      induction l as [|[[k a] v] l IHl]; intro H; [reflexivity|]. cbn [names3 map fst]. unfold skw. cbn [flat_map]. fold (skw sval l).
      rewrite (H k a v (or_introl eq_refl)). cbn [app map fst]. f_equal. apply IHl. intros k0 a0 v0 Hin. apply (H k0 a0 v0). right. exact Hin.
    Qed.
    Lemma fspec_nonlist l : nonlist3 (flat_map (fspec_of c) l).
    Proof.
      intros k a v Hin. apply in_flat_map in Hin. destruct Hin as ([k0 v0] & _ & Hin). unfold fspec_of in Hin.
      destruct v0 as [|x|j].
      - destruct Hin.
      - destruct (assoc k0 (ci_spec c)) as [[t r|t r|t|t|]|]; cbn in Hin; try contradiction. destruct (unconv t x); cbn in Hin; [|contradiction]. destruct Hin as [E|[]]. injection E as <- <- <-. reflexivity.
      - destruct (assoc k0 (ci_spec c)) as [[t r|t r|t|t|]|]; cbn in Hin; try contradiction. destruct Hin as [E|[]]. injection E as <- <- <-. reflexivity.
    Qed.

    Lemma sidx_of k i : index_of k (map fst (ci_spec c)) = Some i -> sidx c k = i.
    Proof. unfold sidx. intros ->. reflexivity. Qed.

    Lemma schain_fields rest hi : forall specs lo,
      nonlist3 specs -> incr (map fst (ci_spec c)) lo (names3 specs) ->
      (forall a i, In a (names3 specs) -> index_of a (map fst (ci_spec c)) = Some i -> (i < hi)%nat) -> (lo <= hi)%nat ->
      (forall p' pl', (p' <= hi)%nat -> schain sval c p' pl' rest) ->
      forall p pl, (p <= lo)%nat -> schain sval c p pl (specs ++ rest).
    Proof.
      induction specs as [|[[k a] v] specs IHs]; intros lo Hnl Hincr Hb Hle Hrest p pl Hp.
      - cbn [app]. apply Hrest. lia.
      - cbn [names3 map fst RoundTrip3.incr] in Hincr. destruct Hincr as (i & Hi & Hlo & Ht).
        cbn [app schain]. rewrite (sidx_of k i Hi). split; [left; lia|].
        assert (Hih : (i < hi)%nat) by (apply (Hb k i); [left; reflexivity|exact Hi]).
        apply (IHs (Datatypes.S i)); try assumption; try lia.
        + intros k0 a0 v0 Hin. apply (Hnl k0 a0 v0). right. exact Hin.
        + intros a0 i0 Hin. apply Hb. right. exact Hin.
    Qed.

    Lemma schain_members rest : (lb <= ub)%nat -> forall specs,
      (forall k a v, In (k, a, v) specs -> is_list_attr a = true /\ In (k, a) (ci_spec c)) ->
      (forall p' pl', (p' <= ub)%nat -> schain sval c p' pl' rest) ->
      forall p pl, ((p <= lb)%nat \/ (pl = true /\ (p <= ub)%nat)) -> schain sval c p pl (specs ++ rest).
    Proof.
      intros Hlu. induction specs as [|[[k a] v] specs IHs]; intros Hl Hrest p pl Hp.
      - cbn [app]. apply Hrest. destruct Hp as [Hp|[_ Hp]]; lia.
      - destruct (Hl k a v (or_introl eq_refl)) as [Hla Hin].
        destruct (index_of_in k (map fst (ci_spec c))) as (i & Hi); [change k with (fst (k, a)); apply in_map; exact Hin|].
        destruct (rc_list _ _ _ Hc k a i Hin Hla Hi) as [H1 H2].
        cbn [app schain]. rewrite (sidx_of k i Hi), Hla. split.
        + destruct Hp as [Hp|[Hp _]]; [left; lia|right; split; [reflexivity|exact Hp]].
        + apply IHs; [intros k0 a0 v0 Hin0; apply (Hl k0 a0 v0); right; exact Hin0|exact Hrest|right; split; [reflexivity|lia]].
    Qed.

    Lemma index_of_lt k (l : list string) i : index_of k l = Some i -> (i < List.length l)%nat.
    Proof.
      revert i. induction l as [|x l IHl]; intros i H; cbn [index_of] in H; [discriminate|].
      destruct (String.eqb k x); [injection H as <-; cbn; lia|]. destruct (index_of k l) as [j|]; [|discriminate]. injection H as <-. specialize (IHl j eq_refl). cbn. lia.
    Qed.
  End Node.

  Lemma nodup_spec_no_list c : NoDup (map fst (ci_spec c)) -> NoDup (map fst (spec_no_list c)).
  Proof. intro H. eapply nodup_sublist; [|exact H]. unfold spec_no_list. apply sublist_map_filter. Qed.
  Lemma firstn_map_fst {A} n (l : list (string * A)) : map fst (firstn n l) = firstn n (map fst l).
  Proof. symmetry. apply firstn_map. Qed.
  Lemma canon_kw_app c l1 l2 : canon_kw sval unconv c (l1 ++ l2) = (canon_kw sval unconv c l1 ++ canon_kw sval unconv c l2)%list.
  Proof. apply flat_map_app. Qed.


  Lemma index_of_some_in k (l : list string) i : index_of k l = Some i -> In k l.
  Proof.
    revert i. induction l as [|x l IHl]; intros i H; cbn [index_of] in H; [discriminate|].
    destruct (String.eqb_spec k x) as [->|_]; [left; reflexivity|]. destruct (index_of k l) as [j|]; [|discriminate]. right. apply (IHl j eq_refl).
  Qed.
  Lemma forall2_combine_in {A B} (R : A -> B -> Prop) l l' x y : Forall2 R l l' -> In (x, y) (combine l l') -> R x y.
  Proof.
    intro F. induction F as [|a b l l' Hab F IHF]; cbn [combine]; [intros []|]. intros [E|Hin]; [injection E as <- <-; exact Hab|apply IHF; exact Hin].
  Qed.
  Lemma forall2_in_l {A B} (R : A -> B -> Prop) l l' x : Forall2 R l l' -> In x l -> exists y, R x y.
  Proof. intro F. induction F as [|a b l l' Hab F IHF]; [intros []|]. intros [<-|Hin]; [eauto|apply IHF; exact Hin]. Qed.

  (** what ungroom writes is what groom reads back *)
  Lemma ungroom_goods c lb ub ch specs :
    rt_class_ok c lb ub -> Forall2 (good sval from_etree c) ch specs -> goods sval from_etree c false (ungroom c ch) specs.
  Proof.
    intros Hc F. pose proof (rc_rename _ _ _ Hc) as Hr. unfold ungroom. destruct (ci_rename c) as [[wire py]|] eqn:Er.
    - destruct Hr as ((t & r & Hpy) & Hup & Hdw & Hne & Hnw).
      apply (goods_renamed sval from_etree c wire py Er Hne ch specs F).
      + intros e Hin He. destruct (forall2_in_l _ _ _ _ F Hin) as ([[k a] v] & Hg). destruct Hg as (_ & Hl & (idx & Hi) & _).
        apply Hnw. rewrite <- He, Hl. eapply index_of_some_in. exact Hi.
      + intros e [[k a] v] Hin He. pose proof (forall2_combine_in _ _ _ _ _ F Hin) as Hg. destruct Hg as (_ & Hl & _ & Ha & _).
        rewrite He in Hl. rewrite <- Hl, Hpy in Ha. injection Ha as <-. exact I.
    - apply goods_plain; [exact F|]. intros e _. unfold groomed_tag. rewrite Er. reflexivity.
  Qed.

  (** C01 / C13, tree level: what to_etree writes for a valid instance, from_etree reads back as that very instance, silently *)
  Theorem roundtrip_tree_l : forall i, valid i -> forall e, to_etree i = OK e -> from_etree e = OK (i, []).
  Proof.
    induction i as [cn fs ms IHf IHm] using (inst_ind' sval). intros Hv e He.
    inversion Hv as [cn' c lb ub fs' ms' Hcls Hc Hnames Hfv Hfs Hfsv Hma Hmav Hmv Hstr Hnosplit Hcanon]; subst.
    rewrite to_etree_unfold, Hcls in He.
    destruct (emit_top sval unconv S c ms fs (split_at (ci_spec c))) as [ch|k] eqn:Eem; cbn in He; [|discriminate]. injection He as <-.
    set (ok_sub := fun j : inst => valid j /\ (forall e, to_etree j = OK e -> from_etree e = OK (j, []))).
    assert (IH : forall j e, ok_sub j -> to_etree j = OK e -> from_etree e = OK (j, [])) by (intros j e [_ H] He; apply H; exact He).
    assert (Hfok : forall l, (forall p, In p l -> In p fs) -> fields_ok c ok_sub l).
    { intros l Hl. split.
      - intros k x Hin. apply (Hfv k x). apply Hl. exact Hin.
      - intros k j Hin. split; [apply (Hfs k j); apply Hl; exact Hin|]. split; [apply (Hfsv k j); apply Hl; exact Hin|].
        apply (IHf k j); [apply Hl; exact Hin|apply (Hfsv k j); apply Hl; exact Hin]. }
    assert (Hmok : members_ok c ok_sub ms).
    { split; [|split].
      - intros j Hin. split; [apply (Hma j Hin)|]. split; [apply (Hmav j Hin)|apply (IHm j Hin); apply (Hmav j Hin)].
      - exact Hmv.
      - exact Hstr. }
    assert (Hlook : lookup_tag S cn = Some c) by (unfold lookup_tag; rewrite Hcls, (rc_export _ _ _ Hc); reflexivity).
    pose proof (rc_nodup _ _ _ Hc) as Hnd.
    pose proof (nodup_spec_no_list c Hnd) as Hndnl.
    set (keys := map fst (ci_spec c)) in *.
    (* the reader-side description of the children and the fold over them *)
    assert (Hfold : exists specs p pl rn,
               fold_left (step sval from_etree c) (ungroom c ch) (OK (acc0 sval)) = OK (rev (sargs sval specs), rev (skw sval specs), p, pl, [], rn)
               /\ sargs sval specs = canon_args sval unconv c ms /\ skw sval specs = canon_kw sval unconv c fs).
    { pose proof (emit_top_split sval unconv S c ms fs _ ch Eem) as Hsplit.
      destruct (split_at (ci_spec c)) as [n|] eqn:En.
      - destruct Hsplit as (a & m & b & Ha & Hm & Hb & ->).
        destruct (items_goods c lb ub Hc ok_sub IH (firstn n fs) a (Hfok _ (fun p => in_firstn fs n p)) Ha) as (FA & KA & AA & SA & UA).
        destruct (items_goods c lb ub Hc ok_sub IH (skipn n fs) b (Hfok _ (fun p => in_skipn fs n p)) Hb) as (FB & KB & AB & SB & UB).
        destruct (mems_goods c lb ub Hc ok_sub IH ms m Hmok Hm) as (FM & AM & KM & LM).
        set (A := flat_map (fspec_of c) (firstn n fs)) in *. set (B := flat_map (fspec_of c) (skipn n fs)) in *. set (M := flat_map (mspec_of c) ms) in *.
        assert (Hskw : skw sval (A ++ M ++ B) = canon_kw sval unconv c fs).
        { rewrite !skw_app, KA, KM, KB. cbn [app]. rewrite <- canon_kw_app, firstn_skipn. reflexivity. }
        assert (Hsargs : sargs sval (A ++ M ++ B) = canon_args sval unconv c ms).
        { rewrite !sargs_app, AA, AM, AB. cbn [app]. rewrite app_nil_r. reflexivity. }
        pose proof (rc_pre _ _ _ Hc) as Hpre. pose proof (rc_post _ _ _ Hc) as Hpost. rewrite En in Hpre, Hpost. destruct Hpre as [Hpre1 Hpre2].
        assert (HnA : names3 A = map fst (canon_kw sval unconv c (firstn n fs))) by (rewrite <- KA; symmetry; apply skw_names; apply fspec_nonlist).
        assert (HnB : names3 B = map fst (canon_kw sval unconv c (skipn n fs))) by (rewrite <- KB; symmetry; apply skw_names; apply fspec_nonlist).
        assert (HsubA : sublist (names3 A) (map fst (firstn n (spec_no_list c)))).
        { rewrite HnA. rewrite firstn_map_fst, <- Hnames, <- firstn_map_fst. rewrite <- KA. exact SA. }
        assert (Hchain : schain sval c 0 false (A ++ M ++ B)).
        { apply (schain_fields c (M ++ B) lb A 0).
          - apply fspec_nonlist.
          - eapply incr_sublist; [exact Hpre1|exact HsubA].
          - intros a0 i0 Hin. apply Hpre2. eapply sublist_in; [exact HsubA|exact Hin].
          - lia.
          - intros p' pl' Hp'. apply (schain_members c lb ub Hc B (rc_lbub _ _ _ Hc) M LM); [|left; exact Hp'].
            intros p2 pl2 Hp2. rewrite <- (app_nil_r B).
            apply (schain_fields c [] (ub + List.length keys) B ub).
            + apply fspec_nonlist.
            + eapply incr_sublist; [exact Hpost|]. rewrite HnB.
              apply (sublist_filter_names (ci_spec c) Hnd).
              * intros ka Hin. apply in_skipn in Hin. unfold spec_no_list in Hin. apply filter_In in Hin. apply Hin.
              * rewrite <- (skipn_map fst), <- Hnames, skipn_map. rewrite <- KB. exact SB.
              * intros k0 Hin. rewrite <- KB in Hin. apply in_map_iff in Hin. destruct Hin as ([k1 v1] & E & Hin). cbn in E. subst k1. apply (UB k0 v1 Hin).
            + intros a0 i0 _ Hi0. apply index_of_lt in Hi0. fold keys in Hi0. lia.
            + lia.
            + intros; exact I.
            + exact Hp2.
          - lia. }
        destruct (goods_fold' sval from_etree c (ungroom c (a ++ m ++ b)) (A ++ M ++ B) [] [] 0 false [] false) as (p & pl & rn & Hf).
        + apply (ungroom_goods c lb ub _ _ Hc). apply forall2_app; [exact FA|apply forall2_app; [exact FM|exact FB]].
        + exact Hchain.
        + rewrite Hskw. eapply nodup_sublist; [|exact Hndnl]. rewrite <- Hnames.
          rewrite <- (firstn_skipn n fs) at 2. rewrite <- (firstn_skipn n fs) at 1. rewrite canon_kw_app, !map_app.
          apply sublist_app; [rewrite <- KA; exact SA|rewrite <- KB; exact SB].
        + intros k0 _. reflexivity.
        + exists (A ++ M ++ B)%list, p, pl, rn. rewrite !app_nil_r in Hf. split; [exact Hf|split; assumption].
      - rewrite (Hnosplit eq_refl) in *.
        destruct (items_goods c lb ub Hc ok_sub IH fs ch (Hfok _ (fun p H => H)) Hsplit) as (FA & KA & AA & SA & UA).
        set (A := flat_map (fspec_of c) fs) in *.
        pose proof (rc_pre _ _ _ Hc) as Hpre. rewrite En in Hpre.
        assert (HnA : names3 A = map fst (canon_kw sval unconv c fs)) by (rewrite <- KA; symmetry; apply skw_names; apply fspec_nonlist).
        destruct (goods_fold' sval from_etree c (ungroom c ch) A [] [] 0 false [] false (ungroom_goods c lb ub _ _ Hc FA)) as (p & pl & rn & Hf).
        + rewrite <- (app_nil_r A). apply (schain_fields c [] (List.length keys) A 0).
          * apply fspec_nonlist.
          * eapply incr_sublist; [exact Hpre|]. rewrite HnA, <- Hnames, <- KA. exact SA.
          * intros a0 i0 _ Hi0. apply index_of_lt in Hi0. exact Hi0.
          * lia.
          * intros; exact I.
          * lia.
        + rewrite KA. eapply nodup_sublist; [|exact Hndnl]. rewrite <- Hnames, <- KA. exact SA.
        + intros k0 _. reflexivity.
        + exists A, p, pl, rn. rewrite !app_nil_r in Hf. split; [exact Hf|]. split; [rewrite AA; reflexivity|exact KA]. }
    destruct Hfold as (specs & p & pl & rn & Hf & Hsa & Hsk).
    cbn [Convert.from_etree]. rewrite Hlook.
    match goal with |- context [fold_left ?f ?l ?a] =>
      match type of Hf with ?lhs = _ => change (fold_left f l a) with lhs end end.
    rewrite Hf. rewrite !rev_involutive, Hsa, Hsk, Hcanon. reflexivity.
  Qed.
End RT5.
