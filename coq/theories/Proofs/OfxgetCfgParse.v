(** The configparser layering (Model/OfxgetCfg.v, C18): dictionaries produced by the reader have unique keys;
    reading a second file on top of a first one makes every (section, option) of the second shadow the first,
    section by section, and likewise for the [DEFAULT] entries. *)
From OfxV Require Import Base.Prelude Base.Digits Base.OfxgetBase Gen.OfxgetGen Model.OfxgetCfg.
From OfxV Require Import Proofs.OfxgetCfgMerge.
From Coq Require Import Lia.
Local Open Scope N_scope.

(* ------------------------------------------------------------------ unique keys *)
Definition ukeys {A} (m : dict A) : Prop := NoDup (map fst m).
Record wfk (c : cfg) : Prop := {
  wfk_defaults : ukeys (c_defaults c);
  wfk_names : ukeys (c_sections c);
  wfk_sections : Forall (fun p => ukeys (snd p)) (c_sections c);
  wfk_nodefault : has_key DEFAULTSECT (c_sections c) = false }.

Lemma NoDup_app_cons_last {A} (l : list A) x : NoDup l -> ~ In x l -> NoDup (l ++ [x]).
Proof.
  induction 1 as [|y l Hy Hl IH]; intro Hx; cbn [app].
  - constructor; [intros [] | constructor].
  - constructor.
    + intro Hin. apply in_app_or in Hin. destruct Hin as [Hin|[<-|[]]]; [contradiction|]. apply Hx. left. reflexivity.
    + apply IH. intro Hin. apply Hx. right. exact Hin.
Qed.

Lemma dset_fst {A} k (v : A) m : map fst (dset k v m) = if has_key k m then map fst m else map fst m ++ [k].
Proof.
  induction m as [|[k0 v0] m IH]; [reflexivity|]. unfold has_key in *. cbn [dset assoc map fst].
  destruct (text_eqb k k0) eqn:E; cbn [map fst].
  - apply text_eqb_eq in E. subst. reflexivity.
  - rewrite IH. destruct (assoc k m); reflexivity.
Qed.

Lemma ukeys_dset {A} k (v : A) m : ukeys m -> ukeys (dset k v m).
Proof.
  unfold ukeys. rewrite dset_fst. destruct (has_key k m) eqn:E; [auto|]. intro H.
  apply has_key_false in E. apply NoDup_app_cons_last; auto.
Qed.

Lemma Forall_dset {A} (P : text * A -> Prop) k v m : Forall P m -> (forall k', P (k', v)) -> Forall P (dset k v m).
Proof.
  intros H Hv. induction H as [|[k0 v0] m H0 Hm IH]; cbn [dset]; [constructor; auto|].
  destruct (text_eqb k k0); constructor; auto.
Qed.

Lemma assoc_Forall {A} (P : text * A -> Prop) k m v : Forall P m -> assoc k m = Some v -> P (k, v).
Proof. intros H E. apply assoc_In in E. rewrite Forall_forall in H. apply (H _ E). Qed.

Lemma has_key_dset {A} k k' (v : A) m : has_key k (dset k' v m) = text_eqb k k' || has_key k m.
Proof. unfold has_key. rewrite assoc_dset. destruct (text_eqb k k'); reflexivity. Qed.

Lemma wfk_set c name k v : wfk c -> wfk (sect_set_opt c name k v).
Proof.
  intros [Hd Hn Hs Hnd]. unfold sect_set_opt. destruct (assoc name (c_sections c)) as [d|] eqn:E.
  - constructor; cbn [c_defaults c_sections]; auto.
    + apply ukeys_dset. exact Hn.
    + apply Forall_dset; [exact Hs|]. intros k'. cbn [snd]. apply ukeys_dset. apply (assoc_Forall _ _ _ _ Hs E).
    + rewrite has_key_dset, Hnd. rewrite orb_false_r. apply text_eqb_neq. intros <-. unfold has_key in Hnd. rewrite E in Hnd. discriminate.
  - constructor; cbn [c_defaults c_sections]; auto. apply ukeys_dset. exact Hd.
Qed.

Lemma wfk_empty : wfk empty_cfg.
Proof. constructor; cbn; auto; constructor. Qed.

Lemma wfk_flush st : wfk (rs_cfg st) -> wfk (flush st).
Proof.
  unfold flush. intro H. destruct (rs_pend st) as [[k ls]|]; [|exact H]. destruct (rs_cur st); [|exact H]. apply wfk_set. exact H.
Qed.

Lemma has_key_app {A} k (a b : dict A) : has_key k (a ++ b) = has_key k a || has_key k b.
Proof. unfold has_key. rewrite assoc_app. destruct (assoc k a); reflexivity. Qed.

Lemma wfk_add c name : wfk c -> has_key name (c_sections c) = false -> text_eqb name DEFAULTSECT = false ->
  wfk {| c_defaults := c_defaults c; c_sections := c_sections c ++ [(name, [])] |}.
Proof.
  intros [Hd Hn Hs Hnd] Hk Hne. constructor; cbn [c_defaults c_sections]; auto.
  - unfold ukeys. rewrite map_app. cbn [map fst]. apply NoDup_app_cons_last; [exact Hn|]. apply has_key_false. exact Hk.
  - apply Forall_app. split; [exact Hs|]. constructor; [constructor | constructor].
  - rewrite has_key_app, Hnd. cbn [orb]. unfold has_key. cbn [assoc]. rewrite text_eqb_sym, Hne. reflexivity.
Qed.

Lemma wfk_step st line st' : wfk (rs_cfg st) -> read_step st line = OK st' -> wfk (rs_cfg st').
Proof.
  intros Hw. unfold read_step. destruct (is_comment _); [intro H; apply OK_inj in H; subst; exact Hw|].
  destruct (is_nil _).
  { intro H. apply OK_inj in H. subst. unfold append_pending. destruct (rs_pend st) as [[k ls]|]; exact Hw. }
  destruct (is_continuation _ _).
  { intro H. apply OK_inj in H. subst. unfold append_pending. destruct (rs_pend st) as [[k ls]|]; exact Hw. }
  unfold read_header_or_option. destruct (section_header _) as [name|].
  - destruct (has_key name (c_sections (flush st))) eqn:Ek.
    + destruct (mem_text _ _); [discriminate|]. intro H. apply OK_inj in H. subst. cbn [rs_cfg]. apply wfk_flush. exact Hw.
    + destruct (text_eqb name DEFAULTSECT) eqn:Ed; intro H; apply OK_inj in H; subst; cbn [rs_cfg].
      * apply wfk_flush. exact Hw.
      * apply wfk_add; auto. apply wfk_flush. exact Hw.
  - destruct (rs_cur st) as [cur|]; [|discriminate]. destruct (split_option _) as [[k0 v]|]; [|discriminate].
    destruct (is_nil k0); [discriminate|]. destruct (pair_mem _ _ _); [discriminate|].
    intro H. apply OK_inj in H. subst. cbn [rs_cfg]. apply wfk_flush. exact Hw.
Qed.

Lemma wfk_lines : forall ls st st', wfk (rs_cfg st) -> read_lines st ls = OK st' -> wfk (rs_cfg st').
Proof.
  induction ls as [|l ls IH]; intros st st' Hw H; cbn [read_lines] in H.
  - apply OK_inj in H. subst. exact Hw.
  - apply bind_ok in H. destruct H as (st1 & H1 & H). eapply IH; [|exact H]. eapply wfk_step; eassumption.
Qed.

Lemma parse_text_wfk t c : parse_text t = OK c -> wfk c.
Proof.
  unfold parse_text. intro H. apply bind_ok in H. destruct H as (st & Hs & H). apply OK_inj in H. subst c.
  apply wfk_flush. eapply wfk_lines; [|exact Hs]. cbn [rs_cfg]. apply wfk_empty.
Qed.

(* ------------------------------------------------------------------ merging *)
Lemma dmerge_assoc {A} o : forall (d d0 : dict A), ukeys d ->
  assoc o (dmerge d0 d) = match assoc o d with Some v => Some v | None => assoc o d0 end.
Proof.
  unfold dmerge. induction d as [|[k v] d IH]; intros d0 Hu; [reflexivity|].
  cbn [fold_left fst snd]. unfold ukeys in Hu. cbn [map fst] in Hu. inversion Hu as [|? ? Hk Hu']; subst.
  rewrite IH by exact Hu'. cbn [assoc]. rewrite assoc_dset.
  destruct (text_eqb o k) eqn:E.
  - apply text_eqb_eq in E. subst o. apply assoc_None_keys in Hk. rewrite Hk. reflexivity.
  - reflexivity.
Qed.

Lemma merge_sections_assoc s : forall (fcs secs0 : dict section), ukeys fcs ->
  assoc s (fold_left merge_section fcs secs0) =
  match assoc s fcs, assoc s secs0 with
  | Some d, Some d0 => Some (dmerge d0 d)
  | Some d, None => Some d
  | None, x => x
  end.
Proof.
  induction fcs as [|[n d] fcs IH]; intros secs0 Hu; cbn [fold_left].
  - cbn [assoc]. destruct (assoc s secs0); reflexivity.
  - unfold ukeys in Hu. cbn [map fst] in Hu. inversion Hu as [|? ? Hn Hu']; subst. rewrite IH by exact Hu'.
    cbn [assoc]. unfold merge_section. cbn [fst snd].
    destruct (text_eqb s n) eqn:E.
    + apply text_eqb_eq in E. subst n. apply assoc_None_keys in Hn. rewrite Hn.
      destruct (assoc s secs0) as [d0|] eqn:E0.
      * rewrite assoc_dset, text_eqb_refl. reflexivity.
      * rewrite assoc_app, E0. cbn [assoc]. rewrite text_eqb_refl. reflexivity.
    + destruct (assoc n secs0) as [d0|] eqn:E0.
      * rewrite assoc_dset, E. reflexivity.
      * rewrite assoc_app. cbn [assoc]. rewrite E. destruct (assoc s secs0); reflexivity.
Qed.

(** the section's own entry for an option *)
Definition sec_get (c : cfg) (s o : text) : option text :=
  match assoc s (c_sections c) with Some d => assoc o d | None => None end.

Lemma merge_sec_get c0 fc s o : wfk fc ->
  sec_get (cfg_merge c0 fc) s o = match sec_get fc s o with Some v => Some v | None => sec_get c0 s o end.
Proof.
  intros [Hd Hn Hs Hnd]. unfold sec_get, cfg_merge. cbn [c_sections]. rewrite merge_sections_assoc by exact Hn.
  destruct (assoc s (c_sections fc)) as [d|] eqn:E; [|reflexivity].
  destruct (assoc s (c_sections c0)) as [d0|].
  - apply dmerge_assoc. apply (assoc_Forall _ _ _ _ Hs E).
  - destruct (assoc o d); reflexivity.
Qed.

Lemma merge_has_section c0 fc s : wfk fc ->
  has_key s (c_sections (cfg_merge c0 fc)) = has_key s (c_sections fc) || has_key s (c_sections c0).
Proof.
  intros [Hd Hn Hs Hnd]. unfold has_key, cfg_merge. cbn [c_sections]. rewrite merge_sections_assoc by exact Hn.
  destruct (assoc s (c_sections fc)); destruct (assoc s (c_sections c0)); reflexivity.
Qed.

Lemma merge_defaults c0 fc o : wfk fc ->
  assoc o (c_defaults (cfg_merge c0 fc)) = match assoc o (c_defaults fc) with Some v => Some v | None => assoc o (c_defaults c0) end.
Proof. intros [Hd _ _ _]. unfold cfg_merge. cbn [c_defaults]. apply dmerge_assoc. exact Hd. Qed.

(** cfg_get in terms of the section's entry and the [DEFAULT] entry *)
Lemma cfg_get_sec c s o :
  cfg_get c s o =
  if has_key s (c_sections c) then match sec_get c s o with Some v => Some v | None => assoc o (c_defaults c) end
  else if text_eqb s DEFAULTSECT then assoc o (c_defaults c) else None.
Proof. unfold cfg_get, sec_get, has_key. destruct (assoc s (c_sections c)); reflexivity. Qed.

(* ------------------------------------------------------------------ two files *)
(** the user's file, or nothing *)
Definition parse_opt (u : option text) : result cfg := match u with Some t => parse_text t | None => OK empty_cfg end.

(** where the raw text of (section, option) comes from after read([fi.cfg, ofxget.cfg]) *)
Definition raw_sources (cf cu : cfg) (s o : text) : option text :=
  if has_key s (c_sections cu) || has_key s (c_sections cf)
  then first_of [sec_get cu s o; sec_get cf s o; assoc o (c_defaults cu); assoc o (c_defaults cf)]
  else if text_eqb s DEFAULTSECT then first_of [assoc o (c_defaults cu); assoc o (c_defaults cf)] else None.

Lemma read_two_files fi user c :
  read_files empty_cfg [Some fi; user] = OK c ->
  exists cf cu, parse_text fi = OK cf /\ parse_opt user = OK cu /\
    (forall s, cfg_has c s = text_eqb s DEFAULTSECT || has_key s (c_sections cu) || has_key s (c_sections cf)) /\
    (forall s o, cfg_get c s o = raw_sources cf cu s o).
Proof.
  cbn [read_files]. unfold read_text. intro H.
  apply bind_ok in H. destruct H as (c1 & H1 & H). apply bind_ok in H1. destruct H1 as (cf & Hcf & H1). apply OK_inj in H1. subst c1.
  pose proof (parse_text_wfk _ _ Hcf) as Wf.
  assert (E : exists cu, parse_opt user = OK cu /\ wfk cu /\ c = cfg_merge (cfg_merge empty_cfg cf) cu).
  { destruct user as [u|]; cbn [parse_opt] in *.
    - apply bind_ok in H. destruct H as (c2 & H2 & H). apply OK_inj in H. subst c2.
      apply bind_ok in H2. destruct H2 as (cu & Hcu & H2). apply OK_inj in H2. subst c.
      exists cu. split; [exact Hcu|]. split; [eapply parse_text_wfk; exact Hcu | reflexivity].
    - apply OK_inj in H. subst c. exists empty_cfg. split; [reflexivity|]. split; [apply wfk_empty | reflexivity]. }
  destruct E as (cu & Hcu & Wu & ->). exists cf, cu. repeat split; auto.
  - intro s. unfold cfg_has. rewrite !merge_has_section by assumption. cbn [empty_cfg c_sections has_key assoc].
    rewrite orb_false_r, orb_assoc. reflexivity.
  - intros s o. rewrite cfg_get_sec. unfold raw_sources.
    rewrite !merge_has_section by assumption. cbn [empty_cfg c_sections has_key assoc]. rewrite orb_false_r.
    rewrite !merge_sec_get, !merge_defaults by assumption.
    unfold sec_get at 3. cbn [empty_cfg c_sections c_defaults assoc].
    destruct (has_key s (c_sections cu) || has_key s (c_sections cf)).
    + cbn [first_of]. destruct (sec_get cu s o); [reflexivity|]. destruct (sec_get cf s o); [reflexivity|].
      destruct (assoc o (c_defaults cu)); [reflexivity|]. destruct (assoc o (c_defaults cf)); reflexivity.
    + destruct (text_eqb s DEFAULTSECT); [|reflexivity]. cbn [first_of].
      destruct (assoc o (c_defaults cu)); [reflexivity|]. destruct (assoc o (c_defaults cf)); reflexivity.
Qed.
