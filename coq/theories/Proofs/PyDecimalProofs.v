(** Lemmas about the decimal model: plain notation (format(d,"f")) read back by decimal.Decimal() gives the same
    sign, coefficient and exponent for every finite value with exponent <= 0; quantize is idempotent and stays
    representable; plain notation is lexically a decimal number. *)
From OfxV Require Import Base.Prelude Base.Digits Gen.ScalarsGen Model.PyDecimal.
From Coq Require Import Lia ZifyBool ZifyN ZifyNat.
From Coq Require Decimal DecimalFacts DecimalPos DecimalN.
Local Open Scope N_scope.

(** ---- digits ---- *)
Lemma dec_of_N_nonnil n : dec_of_N n <> [].
Proof.
  unfold dec_of_N. intro E. apply uint_to_text_nil in E. destruct n as [|p]; [discriminate E|].
  cbn in E. exact (DecimalPos.Unsigned.to_uint_nonnil p E).
Qed.
Lemma dec_of_N_length_pos n : (1 <= List.length (dec_of_N n))%nat.
Proof. pose proof (dec_of_N_nonnil n). destruct (dec_of_N n); [congruence|cbn; lia]. Qed.
Lemma ndigits_pos c : (1 <= ndigits c)%Z.
Proof. unfold ndigits. pose proof (dec_of_N_length_pos c). lia. Qed.

Lemma digits_val_dec_of_N n : digits_val (dec_of_N n) = n.
Proof. unfold digits_val, dec_of_N. rewrite text_to_uint_to_text. apply DecimalN.Unsigned.of_to. Qed.

Lemma digits_val_zero_cons r : digits_val (48 :: r) = digits_val r.
Proof. unfold digits_val. cbn [text_to_uint]. destruct (text_to_uint r) as [u|]; reflexivity. Qed.
Lemma digits_val_zeros k t : digits_val (zeros k ++ t) = digits_val t.
Proof. induction k as [|k IH]; [reflexivity|]. cbn [zeros repeat app]. rewrite digits_val_zero_cons. exact IH. Qed.

Lemma zeros_all_digits k : forallb is_digit (zeros k) = true.
Proof. induction k as [|k IH]; [reflexivity|]. cbn [zeros repeat forallb]. exact IH. Qed.
Lemma zeros_length k : List.length (zeros k) = k.
Proof. apply repeat_length. Qed.

Lemma forallb_firstn {A} (f : A -> bool) n l : forallb f l = true -> forallb f (firstn n l) = true.
Proof. intro H. rewrite <- (firstn_skipn n l), forallb_app in H. apply andb_true_iff in H. tauto. Qed.
Lemma forallb_skipn {A} (f : A -> bool) n l : forallb f l = true -> forallb f (skipn n l) = true.
Proof. intro H. rewrite <- (firstn_skipn n l), forallb_app in H. apply andb_true_iff in H. tauto. Qed.

(** ---- scanning ---- *)
Definition starts_nondigit (r : text) : Prop := match r with [] => True | c :: _ => is_digit c = false end.
Lemma span_digits_app ds r : forallb is_digit ds = true -> starts_nondigit r -> span_digits (ds ++ r) = (ds, r).
Proof.
  intros Hd Hr. induction ds as [|c ds IH].
  - cbn [app]. destruct r as [|x r]; [reflexivity|]. cbn [span_digits]. cbn in Hr. rewrite Hr. reflexivity.
  - cbn [forallb] in Hd. apply andb_true_iff in Hd. destruct Hd as [Hc Hd]. cbn [app span_digits]. rewrite Hc, (IH Hd). reflexivity.
Qed.

Lemma digit_range c : is_digit c = true -> 48 <= c <= 57.
Proof. unfold is_digit. lia. Qed.

(** the characters of plain notation *)
Definition plain_char (c : N) : bool := (c =? 45) || (c =? 46) || is_digit c.
Lemma plain_char_cases c : plain_char c = true -> In c [45;46;48;49;50;51;52;53;54;55;56;57].
Proof.
  unfold plain_char, is_digit. intro H. cbn [In].
  assert (c = 45 \/ c = 46 \/ c = 48 \/ c = 49 \/ c = 50 \/ c = 51 \/ c = 52 \/ c = 53 \/ c = 54 \/ c = 55 \/ c = 56 \/ c = 57) by lia.
  intuition.
Qed.
Lemma plain_chars_facts : forallb (fun c => negb (py_isspace c) && negb (c =? 95) && (0 <? c) && (c <=? 127)) [45;46;48;49;50;51;52;53;54;55;56;57] = true.
Proof. vm_compute. reflexivity. Qed.
Lemma plain_char_fact c : plain_char c = true -> py_isspace c = false /\ (c =? 95) = false /\ (0 <? c) = true /\ (c <=? 127) = true.
Proof.
  intro H. apply plain_char_cases in H. pose proof plain_chars_facts as F. rewrite forallb_forall in F. specialize (F c H).
  apply andb_true_iff in F. destruct F as [F F4]. apply andb_true_iff in F. destruct F as [F F3]. apply andb_true_iff in F. destruct F as [F1 F2].
  apply negb_true_iff in F1. apply negb_true_iff in F2. auto.
Qed.

Lemma lstrip_id p s : (match s with [] => True | c :: _ => p c = false end) -> lstrip p s = s.
Proof. destruct s as [|c s]; [reflexivity|]. intro H. cbn [lstrip]. rewrite H. reflexivity. Qed.
Lemma rstrip_id p s : forallb (fun c => negb (p c)) s = true -> rstrip p s = s.
Proof.
  induction s as [|c s IH]; [reflexivity|]. intro H. cbn [forallb] in H. apply andb_true_iff in H. destruct H as [Hc Hs].
  cbn [rstrip]. rewrite (IH Hs). apply negb_true_iff in Hc. rewrite Hc. destruct s; reflexivity.
Qed.
Lemma strip_id p s : forallb (fun c => negb (p c)) s = true -> strip p s = s.
Proof.
  intro H. unfold strip. rewrite (rstrip_id p s H). apply lstrip_id. destruct s as [|c s]; [exact I|].
  cbn [forallb] in H. apply andb_true_iff in H. destruct H as [Hc _]. apply negb_true_iff in Hc. exact Hc.
Qed.

Lemma plain_text_strip t : forallb plain_char t = true -> strip py_isspace t = t.
Proof.
  intro H. apply strip_id. rewrite forallb_forall in *. intros c Hc. specialize (H c Hc).
  destruct (plain_char_fact c H) as [F _]. rewrite F. reflexivity.
Qed.
Lemma plain_text_ascii t : forallb plain_char t = true -> dec_to_ascii t = Some t.
Proof.
  induction t as [|c t IH]; [reflexivity|]. intro H. cbn [forallb] in H. apply andb_true_iff in H. destruct H as [Hc Ht].
  destruct (plain_char_fact c Hc) as (_ & F2 & F3 & F4). cbn [dec_to_ascii]. rewrite F2, F3, F4. cbn [andb]. rewrite (IH Ht). reflexivity.
Qed.
Lemma of_string_plain t : forallb plain_char t = true -> of_string t = of_ascii t.
Proof. intro H. unfold of_string. rewrite (plain_text_strip t H), (plain_text_ascii t H). reflexivity. Qed.

(** ---- the number grammar on sign / integer part / fraction part ---- *)
Definition frac_text (fp : text) : text := match fp with [] => [] | _ => 46 :: fp end.

Lemma digit_not_sign d r : is_digit d = true -> parse_sign (d :: r) = (false, d :: r).
Proof.
  intro H. apply digit_range in H. unfold parse_sign.
  destruct d as [|p]; [lia|]. do 6 (destruct p as [p|p|]; try reflexivity; try lia).
Qed.

Lemma of_ascii_digits_first neg d rest :
  is_digit d = true ->
  of_ascii (sign_text neg ++ d :: rest) =
    (let body := d :: rest in
     let (ip, r1) := span_digits body in
     let (fp, r2) := match r1 with 46 :: r => span_digits r | _ => ([], r1) end in
     if isnil ip && isnil fp then Err Crash
     else match parse_exponent r2 with
          | None => Err Crash
          | Some e => finite_exact neg (digits_val (ip ++ fp)) (e - Z.of_nat (List.length fp))
          end).
Proof.
  intro Hd. unfold of_ascii.
  assert (Hs : parse_sign (sign_text neg ++ d :: rest) = (neg, d :: rest)).
  { destruct neg; cbn [sign_text app]; [reflexivity|]. apply digit_not_sign. exact Hd. }
  rewrite Hs. cbn [map].
  assert (Hl : lower d = d). { unfold lower. apply digit_range in Hd. destruct ((65 <=? d) && (d <=? 90)) eqn:E; [lia|reflexivity]. }
  rewrite Hl.
  assert (H1 : text_eqb (d :: map lower rest) (T "inf") = false).
  { unfold text_eqb. change (T "inf") with [105;110;102]. cbn [list_eqb]. apply digit_range in Hd. destruct (d =? 105) eqn:E; [lia|reflexivity]. }
  assert (H2 : text_eqb (d :: map lower rest) (T "infinity") = false).
  { unfold text_eqb. change (T "infinity") with [105;110;102;105;110;105;116;121]. cbn [list_eqb]. apply digit_range in Hd. destruct (d =? 105) eqn:E; [lia|reflexivity]. }
  rewrite H1, H2. cbn [orb].
  assert (H3 : strip_prefix (T "snan") (d :: map lower rest) = None).
  { change (T "snan") with [115;110;97;110]. cbn [strip_prefix]. apply digit_range in Hd. destruct (115 =? d) eqn:E; [lia|reflexivity]. }
  assert (H4 : strip_prefix (T "nan") (d :: map lower rest) = None).
  { change (T "nan") with [110;97;110]. cbn [strip_prefix]. apply digit_range in Hd. destruct (110 =? d) eqn:E; [lia|reflexivity]. }
  rewrite H3, H4. reflexivity.
Qed.

Lemma of_ascii_plain neg ip fp :
  forallb is_digit ip = true -> ip <> [] -> forallb is_digit fp = true ->
  of_ascii (sign_text neg ++ ip ++ frac_text fp) = finite_exact neg (digits_val (ip ++ fp)) (- Z.of_nat (List.length fp)).
Proof.
  intros Hip Hne Hfp. destruct ip as [|d ip]; [congruence|]. clear Hne.
  assert (Hd : is_digit d = true) by (cbn [forallb] in Hip; apply andb_true_iff in Hip; tauto).
  change ((d :: ip) ++ frac_text fp) with (d :: (ip ++ frac_text fp)).
  rewrite (of_ascii_digits_first neg d _ Hd). cbv zeta.
  change (d :: ip ++ frac_text fp) with ((d :: ip) ++ frac_text fp).
  assert (Hsn : starts_nondigit (frac_text fp)) by (destruct fp; [exact I|reflexivity]).
  rewrite (span_digits_app (d :: ip) (frac_text fp) Hip Hsn).
  destruct fp as [|f fp].
  - cbn [frac_text]. cbn [isnil andb parse_exponent List.length]. reflexivity.
  - cbn [frac_text]. pose proof (span_digits_app (f :: fp) [] Hfp I) as Hs. rewrite app_nil_r in Hs. rewrite Hs.
    cbn [isnil andb parse_exponent]. reflexivity.
Qed.

(** ---- format(d, "f") in sign / integer part / fraction part form ---- *)
Lemma to_plain_split neg c e : (e <= 0)%Z ->
  exists ip fp, to_plain_fin neg c e = sign_text neg ++ ip ++ frac_text fp
                /\ forallb is_digit ip = true /\ ip <> [] /\ forallb is_digit fp = true
                /\ Z.of_nat (List.length fp) = (- e)%Z /\ digits_val (ip ++ fp) = c.
Proof.
  intro He. unfold to_plain_fin. set (ds := dec_of_N c).
  assert (Hds : forallb is_digit ds = true) by apply dec_of_N_all_digits.
  destruct (0 <=? e)%Z eqn:E0.
  - assert (e = 0%Z) by lia. subst e. exists ds, []. cbn [frac_text List.length]. rewrite !app_nil_r.
    repeat split; try assumption; try reflexivity.
    + f_equal. destruct (c =? 0) eqn:Ec; [|reflexivity].
      apply N.eqb_eq in Ec. subst c. reflexivity.
    + apply dec_of_N_nonnil.
    + apply digits_val_dec_of_N.
  - set (k := Z.to_nat (- e)).
    set (ds' := if (List.length ds <=? k)%nat then zeros (k - List.length ds + 1) ++ ds else ds).
    assert (Hk : (1 <= k)%nat) by lia.
    assert (Hlen : (k + 1 <= List.length ds')%nat).
    { unfold ds'. destruct (List.length ds <=? k)%nat eqn:El; [rewrite app_length, zeros_length|]; lia. }
    assert (Hd' : forallb is_digit ds' = true).
    { unfold ds'. destruct (List.length ds <=? k)%nat; [rewrite forallb_app, zeros_all_digits|]; exact Hds. }
    assert (Hv : digits_val ds' = c).
    { unfold ds'. destruct (List.length ds <=? k)%nat; [rewrite digits_val_zeros|]; apply digits_val_dec_of_N. }
    set (n := (List.length ds' - k)%nat).
    exists (firstn n ds'), (skipn n ds').
    assert (Hsk : List.length (skipn n ds') = k) by (rewrite skipn_length; lia).
    assert (Hfn : List.length (firstn n ds') = n) by (rewrite firstn_length; lia).
    repeat split.
    + f_equal. f_equal. cbn [app]. destruct (skipn n ds') eqn:Es; [cbn in Hsk; lia|reflexivity].
    + apply forallb_firstn. exact Hd'.
    + intro E. rewrite E in Hfn. cbn in Hfn. lia.
    + apply forallb_skipn. exact Hd'.
    + rewrite Hsk. lia.
    + rewrite firstn_skipn. exact Hv.
Qed.

Lemma sign_text_plain neg : forallb plain_char (sign_text neg) = true.
Proof. destruct neg; reflexivity. Qed.
Lemma digits_plain s : forallb is_digit s = true -> forallb plain_char s = true.
Proof. intro H. rewrite forallb_forall in *. intros c Hc. unfold plain_char. rewrite (H c Hc). apply orb_true_r. Qed.

(** decimal.Decimal(format(d, "f")) == d, sign, coefficient and exponent, for every finite d with exponent <= 0 *)
Lemma decimal_plain_roundtrip_l neg c e :
  (e <= 0)%Z -> representable c e = true -> of_string (to_plain_fin neg c e) = OK (Fin neg c e).
Proof.
  intros He Hr. destruct (to_plain_split neg c e He) as (ip & fp & Et & Hip & Hne & Hfp & Hl & Hv).
  rewrite Et. rewrite of_string_plain.
  - rewrite (of_ascii_plain neg ip fp Hip Hne Hfp), Hv. replace (- Z.of_nat (List.length fp))%Z with e by lia.
    unfold finite_exact. rewrite Hr. reflexivity.
  - rewrite !forallb_app, sign_text_plain, (digits_plain ip Hip). cbn [andb].
    destruct fp as [|f fp]; [reflexivity|]. cbn [frac_text forallb]. change (plain_char 46) with true. cbn [andb]. exact (digits_plain _ Hfp).
Qed.
Lemma decimal_plain_roundtrip_comma neg c e :
  (e <= 0)%Z -> representable c e = true -> of_string_comma (to_plain_fin neg c e) = OK (Fin neg c e).
Proof. intros He Hr. unfold of_string_comma. rewrite (decimal_plain_roundtrip_l neg c e He Hr). reflexivity. Qed.

(** ---- multiplying by ten appends a zero digit ---- *)
Lemma uint_to_text_revapp l acc :
  uint_to_text (Decimal.revapp l acc) = uint_to_text (Decimal.revapp l Decimal.Nil) ++ uint_to_text acc.
Proof.
  revert acc. induction l as [|l IH|l IH|l IH|l IH|l IH|l IH|l IH|l IH|l IH|l IH]; intro acc; cbn [Decimal.revapp];
    [reflexivity| rewrite (IH (_ Decimal.Nil)), (IH (_ acc)), <- app_assoc; reflexivity ..].
Qed.
Lemma dec_of_N_tenfold c : c <> 0 -> dec_of_N (c * 10) = dec_of_N c ++ [48].
Proof.
  intro Hc. destruct c as [|p]; [congruence|]. unfold dec_of_N.
  replace (N.pos p * 10) with (10 * N.pos p) by apply N.mul_comm.
  change (N.to_uint (10 * N.pos p)) with (Decimal.rev (DecimalPos.Unsigned.to_lu (10 * N.pos p))).
  rewrite DecimalPos.Unsigned.to_ldec_tenfold. unfold Decimal.rev. cbn [Decimal.revapp].
  rewrite uint_to_text_revapp. reflexivity.
Qed.
Lemma zeros_snoc k : zeros (S k) = zeros k ++ [48].
Proof. unfold zeros. induction k as [|k IH]; [reflexivity|]. cbn [repeat List.app] in *. f_equal. exact IH. Qed.
Lemma dec_of_N_pow10 c k : c <> 0 -> dec_of_N (c * 10 ^ k) = dec_of_N c ++ zeros (N.to_nat k).
Proof.
  intro Hc. induction k as [|k IH] using N.peano_ind.
  - rewrite N.pow_0_r, N.mul_1_r. cbn [N.to_nat zeros repeat]. rewrite app_nil_r. reflexivity.
  - rewrite N.pow_succ_r', N2Nat.inj_succ, zeros_snoc, app_assoc, <- IH.
    replace (c * (10 * 10 ^ k)) with (c * 10 ^ k * 10) by (rewrite (N.mul_comm 10), N.mul_assoc; reflexivity).
    apply dec_of_N_tenfold. assert (10 ^ k <> 0) by (apply N.pow_nonzero; discriminate). intro E. apply N.eq_mul_0 in E. tauto.
Qed.
Lemma ndigits_pow10 c k : c <> 0 -> ndigits (c * 10 ^ k) = (ndigits c + Z.of_N k)%Z.
Proof. intro Hc. unfold ndigits. rewrite (dec_of_N_pow10 c k Hc), app_length, zeros_length. lia. Qed.

(** ---- quantize ---- *)
Definition quantum_in_range (q : Z) : Prop := (DEFAULT_ETINY <= q <= DEFAULT_EMAX)%Z.
Definition coeff_fits (c : N) : Prop := c = 0 \/ (ndigits c <= PREC)%Z.

Lemma quantize_result neg c e q d : quantize neg c e q = OK d ->
  exists c', d = Fin neg c' q /\ quantum_in_range q /\ coeff_fits c'.
Proof.
  unfold quantize, quantum_in_range, coeff_fits. intro H.
  destruct ((DEFAULT_EMAX <? q) || (q <? DEFAULT_ETINY))%Z eqn:Er; [discriminate|].
  assert (Hq : (DEFAULT_ETINY <= q <= DEFAULT_EMAX)%Z) by lia.
  destruct (c =? 0) eqn:Ec.
  - injection H as <-. exists 0. auto.
  - destruct (PREC <? ndigits c + (e - q))%Z eqn:Ep; [discriminate|].
    destruct (q <=? e)%Z eqn:Eqe.
    + injection H as <-. eexists. split; [reflexivity|]. split; [exact Hq|]. right.
      rewrite ndigits_pow10 by lia. lia.
    + destruct (ndigits c <? q - e)%Z eqn:En.
      * injection H as <-. exists 0. auto.
      * cbv zeta in H. match type of H with (if (PREC <? ndigits ?x)%Z then _ else _) = _ => set (q' := x) in *; destruct (PREC <? ndigits q')%Z eqn:E28 end; [discriminate|].
        injection H as <-. exists q'. split; [reflexivity|]. split; [exact Hq|]. right. lia.
Qed.

Lemma quantize_fixed neg c q : quantum_in_range q -> coeff_fits c -> quantize neg c q q = OK (Fin neg c q).
Proof.
  unfold quantum_in_range, coeff_fits, quantize. intros Hq Hc.
  destruct ((DEFAULT_EMAX <? q) || (q <? DEFAULT_ETINY))%Z eqn:Er; [unfold DEFAULT_EMAX, DEFAULT_ETINY in *; lia|].
  destruct (c =? 0) eqn:Ec; [apply N.eqb_eq in Ec; subst c; reflexivity|].
  destruct Hc as [Hc|Hc]; [lia|].
  destruct (PREC <? ndigits c + (q - q))%Z eqn:Ep; [lia|].
  destruct (q <=? q)%Z eqn:Eqq; [|lia]. rewrite Z.sub_diag. change (Z.to_N 0) with 0. rewrite N.pow_0_r, N.mul_1_r. reflexivity.
Qed.

Lemma quantize_idem neg c e q d : quantize neg c e q = OK d ->
  match d with Fin n' c' e' => quantize n' c' e' q = OK d | _ => False end.
Proof.
  intro H. destruct (quantize_result _ _ _ _ _ H) as (c' & -> & Hq & Hc). exact (quantize_fixed neg c' q Hq Hc).
Qed.

Lemma ndigits_0 : ndigits 0 = 1%Z.
Proof. reflexivity. Qed.
Lemma fits_representable c q : quantum_in_range q -> coeff_fits c -> representable c q = true.
Proof.
  unfold quantum_in_range, coeff_fits, representable, DEFAULT_ETINY, DEFAULT_EMAX, MAX_EMAX, MAX_ETINY, PREC. intros Hq [->|Hc].
  - rewrite ndigits_0. lia.
  - lia.
Qed.
Lemma quantize_wf neg c e q d : quantize neg c e q = OK d -> dec_wf d = true.
Proof.
  intro H. destruct (quantize_result _ _ _ _ _ H) as (c' & -> & Hq & Hc). exact (fits_representable c' q Hq Hc).
Qed.
(** the exponent of a quantize result is the quantum's *)
Lemma quantize_exp neg c e q n' c' e' : quantize neg c e q = OK (Fin n' c' e') -> e' = q /\ n' = neg.
Proof. intro H. destruct (quantize_result _ _ _ _ _ H) as (c'' & E & _). injection E as -> -> ->. auto. Qed.

(** ---- of_string delivers representable values ---- *)
Lemma finite_exact_wf neg c e d : finite_exact neg c e = OK d -> dec_wf d = true.
Proof. unfold finite_exact. destruct (representable c e) eqn:E; [|discriminate]. intro H. injection H as <-. exact E. Qed.
Lemma of_ascii_wf s d : of_ascii s = OK d -> dec_wf d = true.
Proof.
  unfold of_ascii. destruct (parse_sign s) as [neg body].
  destruct (text_eqb (map lower body) (T "inf") || text_eqb (map lower body) (T "infinity")); [intro H; injection H as <-; reflexivity|].
  destruct (strip_prefix (T "snan") (map lower body)) as [p|].
  { destruct (forallb is_digit p); [intro H; injection H as <-; reflexivity|discriminate]. }
  destruct (strip_prefix (T "nan") (map lower body)) as [p|].
  { destruct (forallb is_digit p); [intro H; injection H as <-; reflexivity|discriminate]. }
  destruct (span_digits body) as [ip r1].
  destruct (match r1 with 46 :: r => span_digits r | _ => ([], r1) end) as [fp r2].
  destruct (isnil ip && isnil fp); [discriminate|].
  destruct (parse_exponent r2) as [e|]; [|discriminate]. apply finite_exact_wf.
Qed.
Lemma of_string_wf s d : of_string s = OK d -> dec_wf d = true.
Proof. unfold of_string. destruct (dec_to_ascii (strip py_isspace s)); [apply of_ascii_wf|discriminate]. Qed.
Lemma of_string_comma_wf s d : of_string_comma s = OK d -> dec_wf d = true.
Proof.
  unfold of_string_comma. destruct (of_string s) eqn:E; [intro H; injection H as <-; exact (of_string_wf _ _ E)|apply of_string_wf].
Qed.

(** ---- magnitude of a coefficient; quantize rounds to the nearest multiple of the quantum, ties to even ---- *)
Lemma of_lu_bound l : DecimalPos.Unsigned.of_lu l < 10 ^ N.of_nat (Decimal.nb_digits l).
Proof.
  induction l; cbn [Decimal.nb_digits DecimalPos.Unsigned.of_lu]; rewrite ?Nat2N.inj_succ, ?N.pow_succ_r'; lia.
Qed.
Lemma uint_to_text_len u : List.length (uint_to_text u) = Decimal.nb_digits u.
Proof. induction u; cbn [uint_to_text List.length Decimal.nb_digits]; congruence. Qed.
Lemma coeff_lt_pow c : c < 10 ^ Z.to_N (ndigits c).
Proof.
  unfold ndigits, dec_of_N. rewrite uint_to_text_len.
  rewrite <- (DecimalN.Unsigned.of_to c) at 1. unfold N.of_uint. rewrite DecimalPos.Unsigned.of_uint_alt.
  pose proof (of_lu_bound (Decimal.rev (N.to_uint c))) as H. rewrite DecimalFacts.nb_digits_rev in H.
  replace (Z.to_N (Z.of_nat (Decimal.nb_digits (N.to_uint c)))) with (N.of_nat (Decimal.nb_digits (N.to_uint c))) by lia. exact H.
Qed.

(** quantize returns the multiple of the quantum nearest to the operand, ties to the even coefficient (ROUND_HALF_EVEN) *)
Lemma quantize_nearest neg c e q c' : quantize neg c e q = OK (Fin neg c' q) ->
  ((q <= e)%Z -> c' = c * 10 ^ Z.to_N (e - q)) /\
  ((e < q)%Z -> let p := 10 ^ Z.to_N (q - e) in
               2 * c <= 2 * c' * p + p /\ 2 * c' * p <= 2 * c + p /\ ((2 * c = 2 * c' * p + p \/ 2 * c' * p = 2 * c + p) -> N.even c' = true)).
Proof.
  unfold quantize. intro H.
  destruct ((DEFAULT_EMAX <? q) || (q <? DEFAULT_ETINY))%Z; [discriminate|].
  destruct (c =? 0) eqn:Ec.
  - apply N.eqb_eq in Ec. subst c. injection H as <-. split; [intros _; reflexivity|]. intros _. cbv zeta.
    assert (0 < 10 ^ Z.to_N (q - e)) by (apply N.neq_0_lt_0, N.pow_nonzero; discriminate). split; [lia|]. split; [lia|]. intros [E|E]; [lia|reflexivity].
  - destruct (PREC <? ndigits c + (e - q))%Z; [discriminate|]. destruct (q <=? e)%Z eqn:Eqe.
    + injection H as <-. split; [reflexivity|lia].
    + split; [lia|]. intros _. cbv zeta. set (sh := (q - e)%Z) in *.
      assert (Hp : 0 < 10 ^ Z.to_N sh) by (apply N.neq_0_lt_0, N.pow_nonzero; discriminate).
      destruct (ndigits c <? sh)%Z eqn:En.
      * injection H as <-. pose proof (coeff_lt_pow c) as Hc.
        assert (10 * 10 ^ Z.to_N (ndigits c) <= 10 ^ Z.to_N sh).
        { rewrite <- N.pow_succ_r'. apply N.pow_le_mono_r; [discriminate|]. pose proof (ndigits_pos c). lia. }
        split; [lia|]. split; [lia|]. intros [E|E]; [lia|reflexivity].
      * cbv zeta in H. set (p := 10 ^ Z.to_N sh) in *.
        assert (Hh : 2 * (5 * 10 ^ (Z.to_N sh - 1)) = p).
        { unfold p. replace (Z.to_N sh) with (N.succ (Z.to_N sh - 1)) at 2 by lia. rewrite N.pow_succ_r'. lia. }
        set (half := 5 * 10 ^ (Z.to_N sh - 1)) in *.
        pose proof (N.div_mod c p ltac:(lia)) as Hdm. pose proof (N.mod_lt c p ltac:(lia)) as Hm.
        set (qq := c / p) in *. set (r := c mod p) in *.
        destruct ((half <? r) || ((r =? half) && N.odd qq)) eqn:Eb.
        -- destruct (PREC <? ndigits (qq + 1))%Z; [discriminate|]. injection H as <-.
           assert (Hr : half < r \/ (r = half /\ N.odd qq = true)) by lia. split; [nia|]. split; [nia|].
           intros [E|E]; [nia|]. destruct Hr as [Hr|[Hr Ho]]; [nia|]. rewrite <- N.negb_odd, N.add_1_r, N.odd_succ, <- N.negb_odd, Ho. reflexivity.
        -- destruct (PREC <? ndigits qq)%Z; [discriminate|]. injection H as <-.
           assert (Hr : r < half \/ (r = half /\ N.odd qq = false)) by lia. split; [nia|]. split; [nia|].
           intros [E|E]; [|nia]. destruct Hr as [Hr|[Hr Ho]]; [nia|]. rewrite <- N.negb_odd, Ho. reflexivity.
Qed.
