(** Lemmas behind the C10 theorems: per type, convert / unconvert are mutually inverse on what convert delivers,
    canonical, strict at the limits, and refuse wrong types and bad texts; lifted to [elem] (ListElement nesting). *)
From OfxV Require Import Base.Prelude Base.Digits Gen.ScalarsGen Model.PyDecimal Model.Scalars Model.ScalarsLex
  Proofs.ScalarsText Proofs.PyDecimalProofs.
From Coq Require Import Lia ZifyBool ZifyN ZifyNat.
From Coq Require Decimal DecimalFacts DecimalPos DecimalN.
Local Open Scope N_scope.

(** a [dec] standing for a Python decimal.Decimal object is representable by libmpdec *)
Definition value_wf (v : pyval) : Prop := match v with PDec d => dec_wf d = true | _ => True end.

(** ================= Bool: facts about the mapping regenerated from Types.py ================= *)
Lemma bool_mapping_is : bool_mapping = [([89], true); ([78], false)].
Proof. reflexivity. Qed.
Lemma bool_get s b : mapping_get bool_mapping s = Some b -> (s = [89] /\ b = true) \/ (s = [78] /\ b = false).
Proof.
  rewrite bool_mapping_is. cbn [mapping_get]. destruct (text_eqb [78] s) eqn:E1.
  - intro H. injection H as <-. apply text_eqb_eq in E1. auto.
  - destruct (text_eqb [89] s) eqn:E2; [|discriminate]. intro H. injection H as <-. apply text_eqb_eq in E2. auto.
Qed.
Lemma bool_inv (b : bool) : mapping_inv bool_mapping b = Some (if b then [89] else [78]).
Proof. destruct b; reflexivity. Qed.
Lemma bool_get_inv (b : bool) : mapping_get bool_mapping (if b then [89] else [78]) = Some b.
Proof. destruct b; reflexivity. Qed.

(** ================= Integer: str(int) and int(str) ================= *)
Lemma uint_to_text_length u : List.length (uint_to_text u) = Decimal.nb_digits u.
Proof. induction u; cbn [uint_to_text List.length Decimal.nb_digits]; congruence. Qed.
Lemma text_to_uint_length s u : text_to_uint s = Some u -> Decimal.nb_digits u = List.length s.
Proof.
  revert u. induction s as [|c s IH]; intros u H; cbn [text_to_uint] in H.
  - injection H as <-. reflexivity.
  - destruct (text_to_uint s) as [u'|]; [|discriminate]. specialize (IH u' eq_refl). cbn [List.length]. rewrite <- IH.
    repeat match type of H with (if ?b then _ else _) = _ => destruct b end; try discriminate; injection H as <-; reflexivity.
Qed.
Lemma all_digits_to_uint s : forallb is_digit s = true -> exists u, text_to_uint s = Some u.
Proof.
  induction s as [|c s IH]; intro H; [exists Decimal.Nil; reflexivity|].
  cbn [forallb] in H. apply andb_true_iff in H. destruct H as [Hc Hs]. destruct (IH Hs) as [u Eu].
  cbn [text_to_uint]. rewrite Eu. apply digit_range in Hc.
  assert (c = 48 \/ c = 49 \/ c = 50 \/ c = 51 \/ c = 52 \/ c = 53 \/ c = 54 \/ c = 55 \/ c = 56 \/ c = 57) as Hcases by lia.
  destruct Hcases as [->|[->|[->|[->|[->|[->|[->|[->|[->| ->]]]]]]]]]; eexists; reflexivity.
Qed.
(** the canonical numeral is never longer than a numeral with leading zeros *)
Lemma dec_of_digits_val_length s : forallb is_digit s = true -> s <> [] ->
  (List.length (dec_of_N (digits_val s)) <= List.length s)%nat.
Proof.
  intros H Hne. destruct (all_digits_to_uint s H) as [u Eu]. unfold digits_val, dec_of_N. rewrite Eu.
  rewrite DecimalN.Unsigned.to_of, uint_to_text_length, <- (text_to_uint_length s u Eu).
  unfold Decimal.unorm. pose proof (DecimalFacts.nb_digits_nzhead u) as Hn.
  destruct (Decimal.nzhead u) eqn:En; try exact Hn.
  cbn [Decimal.nb_digits]. rewrite (text_to_uint_length s u Eu). destruct s; [congruence|cbn; lia].
Qed.

Lemma und_digits_all s : forallb is_digit s = true -> s <> [] -> und_digits s = Some s.
Proof.
  induction s as [|c s IH]; intros H Hne; [congruence|]. cbn [forallb] in H. apply andb_true_iff in H. destruct H as [Hc Hs].
  cbn [und_digits]. rewrite Hc. destruct s as [|d r]; [reflexivity|].
  assert (Hd : is_digit d = true) by (cbn [forallb] in Hs; apply andb_true_iff in Hs; tauto).
  assert (E : (d =? 95) = false) by (apply digit_range in Hd; lia). rewrite E.
  rewrite (IH Hs) by discriminate. reflexivity.
Qed.
Lemma und_digits_sound s ds : und_digits s = Some ds -> forallb is_digit ds = true /\ ds <> [] /\ (List.length ds <= List.length s)%nat
  /\ (exists d r, s = d :: r /\ is_digit d = true).
Proof.
  revert ds. induction s as [s IH] using (well_founded_induction (Wf_nat.well_founded_ltof _ (@List.length N))).
  intros ds H. destruct s as [|c s]; [discriminate|]. cbn [und_digits] in H. destruct (is_digit c) eqn:Hc; [|discriminate].
  assert (Hlast : exists d r, c :: s = d :: r /\ is_digit d = true) by (exists c, s; auto).
  destruct s as [|d r].
  - injection H as <-. cbn [forallb]. rewrite Hc. repeat split; auto; discriminate.
  - destruct (d =? 95).
    + destruct (und_digits r) as [t|] eqn:Er; [|discriminate]. injection H as <-.
      destruct (IH r ltac:(unfold Wf_nat.ltof; cbn; lia) t Er) as (A & B & L & _). cbn [forallb List.length]. rewrite Hc, A. repeat split; auto; try discriminate. cbn in *. lia.
    + destruct (und_digits (d :: r)) as [t|] eqn:Er; [|discriminate]. injection H as <-.
      destruct (IH (d :: r) ltac:(unfold Wf_nat.ltof; cbn; lia) t Er) as (A & B & L & _). cbn [forallb List.length]. rewrite Hc, A. repeat split; auto; try discriminate. cbn in *. lia.
Qed.

Lemma ascii_digits_int_to_ascii s : forallb (fun c => c <? 127) s = true -> int_to_ascii s = Some s.
Proof.
  induction s as [|c s IH]; [reflexivity|]. intro H. cbn [forallb] in H. apply andb_true_iff in H. destruct H as [Hc Hs].
  cbn [int_to_ascii]. rewrite Hc, (IH Hs). reflexivity.
Qed.
Lemma digits_lt127 s : forallb is_digit s = true -> forallb (fun c => c <? 127) s = true.
Proof. intro H. rewrite forallb_forall in *. intros c Hc. specialize (H c Hc). apply digit_range in H. lia. Qed.
Lemma digits_not_space s : forallb is_digit s = true -> forallb (fun c => negb (int_isspace_ascii c)) s = true.
Proof. intro H. rewrite forallb_forall in *. intros c Hc. specialize (H c Hc). apply digit_range in H. unfold int_isspace_ascii. lia. Qed.

Lemma Z_text_nonnil z : Z_text z <> [].
Proof. unfold Z_text. pose proof (dec_of_N_nonnil (Z.abs_N z)). destruct (z <? 0)%Z; [discriminate|exact H]. Qed.

(** int(str(z)) == z *)
Lemma int_of_Z_text z : (List.length (dec_of_N (Z.abs_N z)) <= MAX_STR_DIGITS)%nat -> py_int_of_string (Z_text z) = OK z.
Proof.
  intro Hlen. set (ds := dec_of_N (Z.abs_N z)) in *.
  assert (Hd : forallb is_digit ds = true) by apply dec_of_N_all_digits.
  assert (Hne : ds <> []) by apply dec_of_N_nonnil.
  unfold py_int_of_string, Z_text. fold ds.
  assert (Ha : int_to_ascii ((if (z <? 0)%Z then [45] else []) ++ ds) = Some ((if (z <? 0)%Z then [45] else []) ++ ds)).
  { apply ascii_digits_int_to_ascii. rewrite forallb_app, (digits_lt127 ds Hd). destruct (z <? 0)%Z; reflexivity. }
  rewrite Ha. destruct ds as [|d r] eqn:Eds; [congruence|].
  assert (Hdd : is_digit d = true) by (cbn [forallb] in Hd; apply andb_true_iff in Hd; tauto).
  assert (Hsp : int_isspace_ascii d = false) by (apply digit_range in Hdd; unfold int_isspace_ascii; lia).
  assert (Hps : parse_sign (lstrip int_isspace_ascii ((if (z <? 0)%Z then [45] else []) ++ d :: r)) = ((z <? 0)%Z, d :: r)).
  { destruct (z <? 0)%Z; cbn [app lstrip].
    - change (int_isspace_ascii 45) with false. cbv iota. reflexivity.
    - rewrite Hsp. apply digit_not_sign. exact Hdd. }
  rewrite Hps, (rstrip_id _ _ (digits_not_space _ Hd)), (und_digits_all _ Hd) by discriminate.
  destruct (MAX_STR_DIGITS <? List.length (d :: r))%nat eqn:E; [lia|].
  rewrite <- Eds. unfold ds. rewrite digits_val_dec_of_N. f_equal. destruct (z <? 0)%Z eqn:Ez; lia.
Qed.

Lemma str_int_roundtrip z s : py_str_of_int z = OK s -> py_int_of_string s = OK z /\ s <> [].
Proof.
  unfold py_str_of_int. destruct (MAX_STR_DIGITS <? List.length (dec_of_N (Z.abs_N z)))%nat eqn:E; [discriminate|].
  intro H. injection H as <-. split; [apply int_of_Z_text; lia|apply Z_text_nonnil].
Qed.

(** what int(str) delivers can be written again *)
Lemma int_of_string_writable s z : py_int_of_string s = OK z -> py_str_of_int z = OK (Z_text z).
Proof.
  unfold py_int_of_string. destruct (int_to_ascii s) as [a|]; [|discriminate].
  destruct (parse_sign (lstrip int_isspace_ascii a)) as [neg body].
  destruct (und_digits (rstrip int_isspace_ascii body)) as [ds|] eqn:Eu; [|discriminate].
  destruct (MAX_STR_DIGITS <? List.length ds)%nat eqn:El; [discriminate|]. intro H. injection H as <-.
  destruct (und_digits_sound _ _ Eu) as (Hd & Hne & _).
  pose proof (dec_of_digits_val_length ds Hd Hne) as Hl. unfold py_str_of_int.
  assert (Ea : Z.abs_N (if neg then (- Z.of_N (digits_val ds))%Z else Z.of_N (digits_val ds)) = digits_val ds) by (destruct neg; lia).
  rewrite Ea. destruct (MAX_STR_DIGITS <? List.length (dec_of_N (digits_val ds)))%nat eqn:E2; [lia|reflexivity].
Qed.

(** ================= unescape never empties a text (entity values are non-empty) ================= *)
Definition entities_nonempty (ents : list (text * text)) : bool := forallb (fun kv => negb (isnil (snd kv))) ents.
Lemma replace_all_nonnil pat rep s : s <> [] -> rep <> [] -> replace_all pat rep s <> [].
Proof.
  intros Hs Hr. destruct s as [|c r]; [congruence|]. unfold replace_all. destruct pat as [|a p].
  - destruct rep; [congruence|discriminate].
  - cbn [replace_go]. destruct (prefixb (a :: p) (c :: r)); [destruct rep; [congruence|discriminate]|discriminate].
Qed.
Lemma replace_seq_nonnil table s : forallb (fun kv => negb (isnil (snd kv))) table = true -> s <> [] -> replace_seq table s <> [].
Proof.
  unfold replace_seq. revert s. induction table as [|kv table IH]; intros s H Hs; [exact Hs|].
  cbn [forallb] in H. apply andb_true_iff in H. destruct H as [H1 H2]. cbn [fold_left]. apply IH; [exact H2|].
  apply replace_all_nonnil; [exact Hs|]. destruct kv as [k v]. cbn [snd] in *. destruct v; [discriminate H1|discriminate].
Qed.
Lemma sax_unescape_nonnil ents s : entities_nonempty ents = true -> s <> [] -> sax_unescape ents s <> [].
Proof.
  intros He Hs. unfold sax_unescape. apply replace_seq_nonnil; [|exact Hs].
  rewrite !forallb_app. apply andb_true_iff. split; [reflexivity|]. apply andb_true_iff. split; [exact He|reflexivity].
Qed.
Lemma string_entities_nonempty : entities_nonempty string_entities = true.
Proof. vm_compute. reflexivity. Qed.
Lemma string_unescape_nonnil s : s <> [] -> string_unescape s <> [].
Proof. apply sax_unescape_nonnil. exact string_entities_nonempty. Qed.

Lemma isnil_false {A} (l : list A) : l <> [] -> isnil l = false.
Proof. destruct l; [congruence|reflexivity]. Qed.
Lemma isnil_true {A} (l : list A) : isnil l = true -> l = [].
Proof. destruct l; [reflexivity|discriminate]. Qed.

(** ================= writing then reading returns the value ================= *)
Definition bool_in_integer (t : sty) (v : pyval) : Prop :=
  match t, v with TInteger _, PBool _ => True | _, _ => False end.

Lemma req_none_not_some {A} req (s : A) w : nowarn (rmap (fun _ : pyval => @None A) (enforce_required req PNone)) = OK (Some s, w) -> False.
Proof. destruct req; cbn; discriminate. Qed.
Lemma req_none_not_some' {A} req (s : A) : rmap (fun _ : pyval => @None A) (enforce_required req PNone) = OK (Some s) -> False.
Proof. destruct req; cbn; discriminate. Qed.

Lemma enforce_length_str_ok l strict s s' w : enforce_length_str l strict s = OK (s', w) -> s' = s.
Proof.
  unfold enforce_length_str. destruct l as [n|]; [destruct (n <? tlen s); [destruct strict|]|]; intro H; try discriminate; injection H as <- _; reflexivity.
Qed.

Lemma convert_unconvert_bool req v s : convert_bool req v = OK v -> unconvert_bool req v = OK (Some s) -> convert_bool req (PStr s) = OK v.
Proof.
  intros Hc Hu. destruct v; cbn [convert_bool unconvert_bool] in *; try discriminate.
  - exfalso. exact (req_none_not_some' _ _ Hu).
  - rewrite bool_inv in Hu. injection Hu as <-. rewrite bool_get_inv. reflexivity.
Qed.

Lemma convert_unconvert_string l strict req v s w w' :
  convert_string l strict req v = OK (v, w) -> unconvert_string l strict req v = OK (Some s, w') ->
  convert_string l strict req (PStr s) = OK (v, w').
Proof.
  intros Hc Hu. destruct v; cbn [convert_string unconvert_string] in *; try discriminate.
  - exfalso. exact (req_none_not_some _ _ _ Hu).
  - destruct (isnil s0) eqn:En.
    { destruct req; cbn in Hc; discriminate. }
    destruct (enforce_length_str l strict (string_unescape s0)) as [[u wu]|] eqn:Ee; cbn [rmap fst snd] in Hc; [|discriminate].
    assert (Eu : u = s0) by congruence. pose proof (enforce_length_str_ok _ _ _ _ _ Ee) as Hu1. rewrite Eu in Hu1.
    destruct (enforce_length_str l strict s0) as [[u2 w2]|] eqn:Ee2; cbn [rmap fst snd] in Hu; [|discriminate].
    pose proof (enforce_length_str_ok _ _ _ _ _ Ee2) as E2. subst u2.
    assert (s = s0) by congruence. assert (w2 = w') by congruence. subst s w2.
    rewrite En, <- Hu1, Ee2. reflexivity.
Qed.

Lemma convert_unconvert_oneof valid req v s : convert_oneof valid req v = OK v -> unconvert_oneof valid req v = OK (Some s) -> convert_oneof valid req (PStr s) = OK v.
Proof.
  intros Hc Hu. destruct v; cbn [convert_oneof unconvert_oneof] in *; try discriminate.
  - exfalso. exact (req_none_not_some' _ _ Hu).
  - destruct (mem_text s0 valid) eqn:Em; [|discriminate]. injection Hu as <-. rewrite Em. exact Hc.
Qed.

Lemma convert_unconvert_integer l req z s : convert_integer l req (PInt z) = OK (PInt z) -> unconvert_integer l req (PInt z) = OK (Some s) ->
  convert_integer l req (PStr s) = OK (PInt z).
Proof.
  cbn [convert_integer unconvert_integer]. intros Hc Hu.
  destruct (enforce_length_int l z) as [[]|] eqn:El; cbn [bind] in *; [|discriminate].
  destruct (py_str_of_int z) as [t|] eqn:Es; cbn [rmap] in Hu; [|discriminate]. injection Hu as <-.
  destruct (str_int_roundtrip z t Es) as [Hr Hne]. rewrite (isnil_false _ Hne), Hr. cbn [bind]. rewrite El. reflexivity.
Qed.
(** Integer keeps a bool and writes it as 1 / 0, which reads back as the int *)
Lemma integer_bool_reads_back l req b s : unconvert_integer l req (PBool b) = OK (Some s) ->
  convert_integer l req (PBool b) = OK (PBool b) /\ convert_integer l req (PStr s) = OK (PInt (Z_of_bool b)).
Proof.
  cbn [convert_integer unconvert_integer]. intro Hu.
  destruct (enforce_length_int l (Z_of_bool b)) as [[]|] eqn:El; cbn [bind] in *; [|discriminate]. split; [reflexivity|].
  destruct (py_str_of_int (Z_of_bool b)) as [t|] eqn:Es; cbn [rmap] in Hu; [|discriminate]. injection Hu as <-.
  destruct (str_int_roundtrip _ t Es) as [Hr Hne]. rewrite (isnil_false _ Hne), Hr. cbn [bind]. rewrite El. reflexivity.
Qed.

(** normalisation delivers well-formed, normalised values and is idempotent *)
Lemma normalize_dec_fixed scale d v : dec_wf d = true -> normalize_dec scale d = OK v ->
  exists d', v = PDec d' /\ dec_wf d' = true /\ normalize_dec scale d' = OK (PDec d').
Proof.
  intros Hwf H. destruct d as [neg c e| |]; cbn [normalize_dec] in H; try discriminate.
  destruct scale as [n|].
  - destruct (quantize neg c e (quantum_exp n)) as [d'|] eqn:Eq; cbn [rmap] in H; [|discriminate]. injection H as <-.
    exists d'. split; [reflexivity|]. split; [exact (quantize_wf _ _ _ _ _ Eq)|].
    pose proof (quantize_idem _ _ _ _ _ Eq) as Hi. destruct d' as [n' c' e'| |]; try contradiction. cbn [normalize_dec]. rewrite Hi. reflexivity.
  - destruct (0 <? e)%Z eqn:Epos.
    + destruct (quantize neg c e 0) as [d'|] eqn:Eq; cbn [rmap] in H; [|discriminate]. injection H as <-.
      exists d'. split; [reflexivity|]. split; [exact (quantize_wf _ _ _ _ _ Eq)|].
      destruct (quantize_result _ _ _ _ _ Eq) as (c' & -> & _). cbn [normalize_dec]. reflexivity.
    + injection H as <-. exists (Fin neg c e). split; [reflexivity|]. split; [exact Hwf|]. cbn [normalize_dec]. rewrite Epos. reflexivity.
Qed.

(** a decimal that convert leaves unchanged has exponent <= 0 (the quantum's when a scale is declared) *)
Lemma normalize_dec_fixed_shape scale neg c e : normalize_dec scale (Fin neg c e) = OK (PDec (Fin neg c e)) ->
  (e <= 0)%Z /\ (forall n, scale = Some n -> e = quantum_exp n).
Proof.
  cbn [normalize_dec]. destruct scale as [n|].
  - destruct (quantize neg c e (quantum_exp n)) as [d'|] eqn:Eq; cbn [rmap]; [|discriminate]. intro H. injection H as ->.
    destruct (quantize_exp _ _ _ _ _ _ _ Eq) as [He _]. split; [unfold quantum_exp in He; lia|]. intros n0 E. injection E as <-. exact He.
  - destruct (0 <? e)%Z eqn:Epos.
    + destruct (quantize neg c e 0) as [d'|] eqn:Eq; cbn [rmap]; [|discriminate]. intro H. injection H as ->.
      destruct (quantize_exp _ _ _ _ _ _ _ Eq) as [He _]. lia.
    + intros _. split; [lia|discriminate].
Qed.

Lemma convert_unconvert_decimal scale req d s : dec_wf d = true ->
  convert_decimal scale req (PDec d) = OK (PDec d) -> unconvert_decimal scale req (PDec d) = OK (Some s) ->
  convert_decimal scale req (PStr s) = OK (PDec d).
Proof.
  intros Hwf Hc Hu. cbn [convert_decimal unconvert_decimal] in *.
  destruct d as [neg c e| |]; cbn [normalize_dec] in Hc; try discriminate.
  destruct (normalize_dec_fixed_shape scale neg c e Hc) as [He _].
  assert (s = to_plain_fin neg c e) as ->.
  { cbn [is_finite negb to_plain] in Hu. destruct scale as [n|]; [destruct (same_quantum_exp (Fin neg c e) (quantum_exp n))|]; try discriminate; injection Hu as <-; reflexivity. }
  rewrite (decimal_plain_roundtrip_comma neg c e He Hwf). cbn [bind]. exact Hc.
Qed.

Theorem convert_unconvert_sty t req v w s w' :
  value_wf v -> ~ bool_in_integer t v ->
  convert_sty t req v = OK (v, w) -> unconvert_sty t req v = OK (Some s, w') ->
  convert_sty t req (PStr s) = OK (v, w').
Proof.
  intros Hwf Hb Hc Hu. destruct t as [|l strict|valid|l|scale]; cbn [convert_sty unconvert_sty] in *.
  - destruct (convert_bool req v) as [v1|] eqn:E1; cbn [nowarn rmap] in Hc; [|discriminate]. injection Hc as -> <-.
    destruct (unconvert_bool req v) as [o|] eqn:E2; cbn [nowarn rmap] in Hu; [|discriminate]. injection Hu as -> <-.
    rewrite (convert_unconvert_bool req v s E1 E2). reflexivity.
  - exact (convert_unconvert_string l strict req v s w w' Hc Hu).
  - destruct (convert_oneof valid req v) as [v1|] eqn:E1; cbn [nowarn rmap] in Hc; [|discriminate]. injection Hc as -> <-.
    destruct (unconvert_oneof valid req v) as [o|] eqn:E2; cbn [nowarn rmap] in Hu; [|discriminate]. injection Hu as -> <-.
    rewrite (convert_unconvert_oneof valid req v s E1 E2). reflexivity.
  - destruct (convert_integer l req v) as [v1|] eqn:E1; cbn [nowarn rmap] in Hc; [|discriminate]. injection Hc as -> <-.
    destruct (unconvert_integer l req v) as [o|] eqn:E2; cbn [nowarn rmap] in Hu; [|discriminate]. injection Hu as -> <-.
    destruct v; try (cbn [unconvert_integer] in E2; discriminate).
    + exfalso. exact (req_none_not_some' _ _ E2).
    + exfalso. apply Hb. exact I.
    + rewrite (convert_unconvert_integer l req z s E1 E2). reflexivity.
  - destruct (convert_decimal scale req v) as [v1|] eqn:E1; cbn [nowarn rmap] in Hc; [|discriminate]. injection Hc as -> <-.
    destruct (unconvert_decimal scale req v) as [o|] eqn:E2; cbn [nowarn rmap] in Hu; [|discriminate]. injection Hu as -> <-.
    destruct v; try (cbn [unconvert_decimal] in E2; discriminate).
    + exfalso. exact (req_none_not_some' _ _ E2).
    + rewrite (convert_unconvert_decimal scale req d s Hwf E1 E2). reflexivity.
Qed.

(** ================= reading then writing: a canonical text that reads to the same value ================= *)
(** a str value on which String.convert's un-escaping does nothing (see notes: the reading adopted for C10) *)
Definition entity_free (v : pyval) : Prop := match v with PStr s => string_unescape s = s | _ => True end.

Lemma normalize_dec_finite scale d d' : normalize_dec scale d = OK (PDec d') -> is_finite d' = true.
Proof.
  destruct d as [neg c e| |]; cbn [normalize_dec]; try discriminate. destruct scale as [n|].
  - destruct (quantize neg c e (quantum_exp n)) as [x|] eqn:Eq; cbn [rmap]; [|discriminate]. intro H. injection H as ->.
    destruct (quantize_result _ _ _ _ _ Eq) as (c' & -> & _). reflexivity.
  - destruct (0 <? e)%Z.
    + destruct (quantize neg c e 0) as [x|] eqn:Eq; cbn [rmap]; [|discriminate]. intro H. injection H as ->.
      destruct (quantize_result _ _ _ _ _ Eq) as (c' & -> & _). reflexivity.
    + intro H. injection H as <-. reflexivity.
Qed.

Theorem canonical_sty t req s v w :
  convert_sty t req (PStr s) = OK (v, w) -> v <> PNone -> entity_free v ->
  exists c w1, unconvert_sty t req v = OK (Some c, w1) /\ convert_sty t req (PStr c) = OK (v, w1).
Proof.
  intros Hc Hn Hf. destruct t as [|l strict|valid|l|scale]; cbn [convert_sty unconvert_sty] in *.
  - (* Bool *)
    cbn [convert_bool] in Hc. destruct (mapping_get bool_mapping s) as [b|] eqn:Eg; cbn [nowarn rmap] in Hc; [|discriminate].
    injection Hc as <- <-. exists (if b then [89] else [78]), false. cbn [unconvert_bool convert_bool]. rewrite bool_inv, bool_get_inv. auto.
  - (* String / NagString *)
    cbn [convert_string] in Hc. destruct (isnil s) eqn:En.
    { destruct req; cbn in Hc; [discriminate|]. injection Hc as <- _. congruence. }
    destruct (enforce_length_str l strict (string_unescape s)) as [[u wu]|] eqn:Ee; cbn [rmap fst snd] in Hc; [|discriminate].
    injection Hc as <- <-. pose proof (enforce_length_str_ok _ _ _ _ _ Ee) as ->. cbn [entity_free] in Hf.
    assert (Hne : string_unescape s <> []) by (apply string_unescape_nonnil; destruct s; [discriminate|discriminate]).
    exists (string_unescape s), wu. cbn [unconvert_string convert_string]. rewrite (isnil_false _ Hne), Hf, Ee. auto.
  - (* OneOf *)
    cbn [convert_oneof] in Hc. destruct (isnil s) eqn:En.
    { destruct req; cbn in Hc; [discriminate|]. injection Hc as <- _. congruence. }
    destruct (mem_text s valid) eqn:Em; cbn [nowarn rmap] in Hc; [|discriminate]. injection Hc as <- <-.
    exists s, false. cbn [unconvert_oneof convert_oneof]. rewrite En, Em. auto.
  - (* Integer *)
    cbn [convert_integer] in Hc. destruct (isnil s) eqn:En.
    { destruct req; cbn in Hc; [discriminate|]. injection Hc as <- _. congruence. }
    destruct (py_int_of_string s) as [z|] eqn:Ei; cbn [bind] in Hc; [|discriminate].
    destruct (enforce_length_int l z) as [[]|] eqn:El; cbn [bind nowarn rmap] in Hc; [|discriminate]. injection Hc as <- <-.
    exists (Z_text z), false. cbn [unconvert_integer convert_integer]. rewrite El. cbn [bind].
    rewrite (int_of_string_writable s z Ei). cbn [rmap nowarn].
    destruct (str_int_roundtrip z (Z_text z) (int_of_string_writable s z Ei)) as [Hr Hne].
    rewrite (isnil_false _ Hne), Hr. cbn [bind]. rewrite El. auto.
  - (* Decimal *)
    cbn [convert_decimal] in Hc. destruct (of_string_comma s) as [d0|] eqn:Eo; cbn [bind] in Hc; [|discriminate].
    destruct (normalize_dec scale d0) as [v0|] eqn:En; cbn [nowarn rmap] in Hc; [|discriminate]. injection Hc as <- <-.
    destruct (normalize_dec_fixed scale d0 v0 (of_string_comma_wf _ _ Eo) En) as (d' & -> & Hwf & Hfix).
    pose proof (normalize_dec_finite _ _ _ Hfix) as Hfin. destruct d' as [neg c e| |]; try discriminate.
    destruct (normalize_dec_fixed_shape scale neg c e Hfix) as [He Hq].
    assert (Hu : unconvert_decimal scale req (PDec (Fin neg c e)) = OK (Some (to_plain_fin neg c e))).
    { cbn [unconvert_decimal is_finite negb to_plain]. destruct scale as [n|]; [|reflexivity].
      cbn [same_quantum_exp]. rewrite (Hq n eq_refl), Z.eqb_refl. reflexivity. }
    exists (to_plain_fin neg c e), false. rewrite Hu. cbn [nowarn rmap]. split; [reflexivity|].
    rewrite (convert_unconvert_decimal scale req (Fin neg c e) _ Hwf Hfix Hu). reflexivity.
Qed.

(** ================= None ================= *)
Theorem none_passthrough_sty t req :
  (req = false -> convert_sty t req PNone = OK (PNone, false) /\ unconvert_sty t req PNone = OK (None, false)) /\
  (req = true -> convert_sty t req PNone = Err Reject /\ unconvert_sty t req PNone = Err Reject).
Proof. destruct t, req; split; intro H; try discriminate H; split; reflexivity. Qed.

(** ================= limits ================= *)
Theorem string_limits n strict req s :
  (tlen s <= n -> unconvert_sty (TString (Some n) strict) req (PStr s) = OK (Some s, false)) /\
  (n < tlen s -> unconvert_sty (TString (Some n) true) req (PStr s) = Err Reject
                 /\ unconvert_sty (TString (Some n) false) req (PStr s) = OK (Some s, true)) /\
  (s <> [] -> string_unescape s = s ->
     (tlen s <= n -> convert_sty (TString (Some n) strict) req (PStr s) = OK (PStr s, false)) /\
     (n < tlen s -> convert_sty (TString (Some n) true) req (PStr s) = Err Reject
                    /\ convert_sty (TString (Some n) false) req (PStr s) = OK (PStr s, true))).
Proof.
  cbn [unconvert_sty convert_sty unconvert_string convert_string enforce_length_str]. repeat split.
  - intro H. destruct (n <? tlen s) eqn:E; [lia|reflexivity].
  - destruct (n <? tlen s) eqn:E; [reflexivity|lia].
  - destruct (n <? tlen s) eqn:E; [reflexivity|lia].
  - intro H2. rewrite (isnil_false _ H), H0. destruct (n <? tlen s) eqn:E; [lia|reflexivity].
  - rewrite (isnil_false _ H), H0. destruct (n <? tlen s) eqn:E; [reflexivity|lia].
  - rewrite (isnil_false _ H), H0. destruct (n <? tlen s) eqn:E; [reflexivity|lia].
Qed.

Theorem integer_limits n req z :
  ((Z.abs z < Z.of_N (10 ^ n))%Z ->
     convert_sty (TInteger (Some n)) req (PInt z) = OK (PInt z, false) /\
     unconvert_sty (TInteger (Some n)) req (PInt z) = nowarn (rmap Some (py_str_of_int z)) /\
     ((List.length (dec_of_N (Z.abs_N z)) <= MAX_STR_DIGITS)%nat ->
        unconvert_sty (TInteger (Some n)) req (PInt z) = OK (Some (Z_text z), false) /\
        convert_sty (TInteger (Some n)) req (PStr (Z_text z)) = OK (PInt z, false))) /\
  ((Z.of_N (10 ^ n) <= Z.abs z)%Z ->
     convert_sty (TInteger (Some n)) req (PInt z) = Err Reject /\
     unconvert_sty (TInteger (Some n)) req (PInt z) = Err Reject /\
     ((List.length (dec_of_N (Z.abs_N z)) <= MAX_STR_DIGITS)%nat ->
        convert_sty (TInteger (Some n)) req (PStr (Z_text z)) = Err Reject)).
Proof.
  cbn [convert_sty unconvert_sty convert_integer unconvert_integer enforce_length_int]. split; intro H.
  - destruct (Z.of_N (10 ^ n) <=? Z.abs z)%Z eqn:E; [lia|]. cbn [bind]. repeat split.
    + unfold py_str_of_int. destruct (MAX_STR_DIGITS <? List.length (dec_of_N (Z.abs_N z)))%nat eqn:E2; [lia|reflexivity].
    + rewrite (isnil_false _ (Z_text_nonnil z)), (int_of_Z_text z H0). cbn [bind enforce_length_int]. rewrite E. reflexivity.
  - destruct (Z.of_N (10 ^ n) <=? Z.abs z)%Z eqn:E; [|lia]. cbn [bind]. repeat split.
    intro H0. rewrite (isnil_false _ (Z_text_nonnil z)), (int_of_Z_text z H0). cbn [bind enforce_length_int]. rewrite E. reflexivity.
Qed.

Theorem decimal_limits n req :
  (forall neg c e, e <> quantum_exp n -> unconvert_sty (TDecimal (Some n)) req (PDec (Fin neg c e)) = Err Reject) /\
  (forall x d w, convert_sty (TDecimal (Some n)) req x = OK (PDec d, w) ->
     exists neg c, d = Fin neg c (quantum_exp n) /\ (c = 0 \/ (ndigits c <= PREC)%Z)) /\
  (forall d, is_finite d = false -> forall sc, unconvert_sty (TDecimal sc) req (PDec d) = Err Reject
                                        /\ convert_sty (TDecimal sc) req (PDec d) = Err Reject).
Proof.
  repeat split.
  - intros neg c e He. cbn [unconvert_sty unconvert_decimal is_finite negb same_quantum_exp].
    destruct (e =? quantum_exp n)%Z eqn:E; [lia|reflexivity].
  - intros x d w H. cbn [convert_sty] in H.
    assert (Hn : forall d0, normalize_dec (Some n) d0 = OK (PDec d) -> exists neg c, d = Fin neg c (quantum_exp n) /\ (c = 0 \/ (ndigits c <= PREC)%Z)).
    { intros d0 Hd. destruct d0 as [neg c e| |]; cbn [normalize_dec] in Hd; try discriminate.
      destruct (quantize neg c e (quantum_exp n)) as [d1|] eqn:Eq; cbn [rmap] in Hd; [|discriminate]. injection Hd as ->.
      destruct (quantize_result _ _ _ _ _ Eq) as (c' & -> & _ & Hc). exists neg, c'. auto. }
    destruct x; cbn [convert_decimal] in H.
    + destruct req; cbn in H; discriminate.
    + destruct (normalize_dec (Some n) (dec_of_Z (Z_of_bool b))) eqn:E; cbn [nowarn rmap] in H; [|discriminate]. injection H as -> _. exact (Hn _ E).
    + destruct (normalize_dec (Some n) (dec_of_Z z)) eqn:E; cbn [nowarn rmap] in H; [|discriminate]. injection H as -> _. exact (Hn _ E).
    + destruct (of_string_comma s) as [d0|]; cbn [bind] in H; [|discriminate].
      destruct (normalize_dec (Some n) d0) eqn:E; cbn [nowarn rmap] in H; [|discriminate]. injection H as -> _. exact (Hn _ E).
    + destruct (normalize_dec (Some n) d0) eqn:E; cbn [nowarn rmap] in H; [|discriminate]. injection H as -> _. exact (Hn _ E).
    + discriminate.
    + discriminate.
    + discriminate.
  - cbn [unconvert_sty unconvert_decimal]. rewrite H. reflexivity.
  - destruct d; [discriminate H|reflexivity|reflexivity].
Qed.

(** ================= wrong Python type on write ================= *)
Definition right_type (t : sty) (v : pyval) : bool :=
  match v with
  | PNone => true
  | PBool _ => match t with TBool | TInteger _ => true | _ => false end       (* a Python bool is an int *)
  | PInt _ => match t with TInteger _ => true | _ => false end
  | PStr _ => match t with TString _ _ | TOneOf _ => true | _ => false end
  | PDec _ => match t with TDecimal _ => true | _ => false end
  | _ => false
  end.
Theorem wrong_type_rejected_sty t req v : right_type t v = false -> unconvert_sty t req v = Err Reject.
Proof. destruct t, v; cbn [right_type]; intro H; try discriminate H; reflexivity. Qed.

(** ================= bad text on read ================= *)
Lemma mem_text_In s l : mem_text s l = true <-> In s l.
Proof.
  unfold mem_text. rewrite existsb_exists. split.
  - intros (x & Hx & E). apply text_eqb_eq in E. subst. exact Hx.
  - intro H. exists s. split; [exact H|]. apply text_eqb_eq. reflexivity.
Qed.
Theorem bool_bad_text req s : s <> [89] -> s <> [78] -> convert_sty TBool req (PStr s) = Err Reject.
Proof.
  intros H1 H2. cbn [convert_sty convert_bool]. destruct (mapping_get bool_mapping s) as [b|] eqn:E; [|reflexivity].
  apply bool_get in E. destruct E as [[E _]|[E _]]; congruence.
Qed.
Theorem oneof_bad_text valid req s : s <> [] -> ~ In s valid -> convert_sty (TOneOf valid) req (PStr s) = Err Reject.
Proof.
  intros H1 H2. cbn [convert_sty convert_oneof]. rewrite (isnil_false _ H1).
  destruct (mem_text s valid) eqn:E; [|reflexivity]. apply mem_text_In in E. contradiction.
Qed.
Theorem oneof_accepts_exactly valid req s : s <> [] -> In s valid -> convert_sty (TOneOf valid) req (PStr s) = OK (PStr s, false).
Proof.
  intros H1 H2. cbn [convert_sty convert_oneof]. rewrite (isnil_false _ H1). apply mem_text_In in H2. rewrite H2. reflexivity.
Qed.

(** ================= non-numeric text: a text without any decimal digit is read by neither int() nor Decimal() ================= *)
Definition is_pydigit (c : N) : bool := match py_decimal c with Some _ => true | None => false end.
Definition has_digit (s : text) : bool := existsb is_pydigit s.

Lemma ascii_digits_pydigit : forallb is_pydigit [48;49;50;51;52;53;54;55;56;57] = true.
Proof. vm_compute. reflexivity. Qed.
Lemma digit_is_pydigit c : is_digit c = true -> is_pydigit c = true.
Proof.
  intro H. apply digit_range in H. pose proof ascii_digits_pydigit as F. rewrite forallb_forall in F. apply F. cbn [In].
  assert (c = 48 \/ c = 49 \/ c = 50 \/ c = 51 \/ c = 52 \/ c = 53 \/ c = 54 \/ c = 55 \/ c = 56 \/ c = 57) by lia. intuition.
Qed.
Lemma has_digit_In s : has_digit s = true <-> exists c, In c s /\ is_pydigit c = true.
Proof. unfold has_digit. apply existsb_exists. Qed.

Lemma lstrip_incl p s x : In x (lstrip p s) -> In x s.
Proof. induction s as [|c s IH]; [auto|]. cbn [lstrip]. destruct (p c); [right; auto|auto]. Qed.
Lemma rstrip_incl p s x : In x (rstrip p s) -> In x s.
Proof.
  induction s as [|c s IH]; [auto|]. cbn [rstrip]. destruct (rstrip p s) as [|a r] eqn:E.
  - destruct (p c); [intros []|]. intros [H|[]]. left. exact H.
  - intros [H|H]; [left; exact H|right; apply IH; exact H].
Qed.
Lemma strip_incl p s x : In x (strip p s) -> In x s.
Proof. unfold strip. intro H. apply lstrip_incl in H. apply rstrip_incl in H. exact H. Qed.
Lemma parse_sign_incl s x : In x (snd (parse_sign s)) -> In x s.
Proof.
  unfold parse_sign. destruct s as [|c r]; [auto|]. destruct (N.eq_dec c 43) as [->|H1]; [right; exact H|].
  destruct (N.eq_dec c 45) as [->|H2]; [right; exact H|].
  destruct c as [|p]; [auto|]. do 6 (destruct p as [p|p|]; auto). all: congruence.
Qed.
Lemma span_digits_incl s ip r x : span_digits s = (ip, r) -> (In x ip -> In x s /\ is_digit x = true) /\ (In x r -> In x s).
Proof.
  revert ip r. induction s as [|c s IH]; intros ip r H; cbn [span_digits] in H.
  - injection H as <- <-. split; intros [].
  - destruct (is_digit c) eqn:Ec.
    + destruct (span_digits s) as [a b] eqn:Es. injection H as <- <-. destruct (IH a b eq_refl) as [I1 I2]. split.
      * intros [<-|Hx]; [split; [left; reflexivity|exact Ec]|]. destruct (I1 Hx). split; [right; assumption|assumption].
      * intro Hx. right. exact (I2 Hx).
    + injection H as <- <-. split; [intros []|auto].
Qed.

Lemma int_to_ascii_digit s a d : int_to_ascii s = Some a -> In d a -> is_digit d = true -> has_digit s = true.
Proof.
  revert a. induction s as [|c s IH]; intros a H Hd Hdd; cbn [int_to_ascii] in H.
  - injection H as <-. destruct Hd.
  - unfold has_digit. cbn [existsb]. apply orb_true_iff.
    assert (Hrec : forall a', int_to_ascii s = Some a' -> In d a' -> existsb is_pydigit s = true) by (intros a' E I; exact (IH a' E I Hdd)).
    destruct (c <? 127) eqn:E1.
    + destruct (int_to_ascii s) as [a'|]; cbn [ocons] in H; [|discriminate]. injection H as <-. destruct Hd as [<-|Hd]; [left; apply digit_is_pydigit; exact Hdd|right; exact (Hrec a' eq_refl Hd)].
    + destruct (py_isspace c).
      * destruct (int_to_ascii s) as [a'|]; cbn [ocons] in H; [|discriminate]. injection H as <-. destruct Hd as [<-|Hd]; [discriminate Hdd|right; exact (Hrec a' eq_refl Hd)].
      * destruct (py_decimal c) as [v|] eqn:Ep; [|discriminate].
        destruct (int_to_ascii s) as [a'|]; cbn [ocons] in H; [|discriminate]. injection H as <-. destruct Hd as [_|Hd]; [left; unfold is_pydigit; rewrite Ep; reflexivity|right; exact (Hrec a' eq_refl Hd)].
Qed.
Lemma dec_to_ascii_digit s a d : dec_to_ascii s = Some a -> In d a -> is_digit d = true -> has_digit s = true.
Proof.
  revert a. induction s as [|c s IH]; intros a H Hd Hdd; cbn [dec_to_ascii] in H.
  - injection H as <-. destruct Hd.
  - unfold has_digit. cbn [existsb]. apply orb_true_iff.
    assert (Hrec : forall a', dec_to_ascii s = Some a' -> In d a' -> existsb is_pydigit s = true) by (intros a' E I; exact (IH a' E I Hdd)).
    destruct (c =? 95); [right; exact (Hrec a H Hd)|].
    destruct ((0 <? c) && (c <=? 127)) eqn:E1.
    + destruct (dec_to_ascii s) as [a'|]; cbn [ocons] in H; [|discriminate]. injection H as <-. destruct Hd as [<-|Hd]; [left; apply digit_is_pydigit; exact Hdd|right; exact (Hrec a' eq_refl Hd)].
    + destruct (py_isspace c).
      * destruct (dec_to_ascii s) as [a'|]; cbn [ocons] in H; [|discriminate]. injection H as <-. destruct Hd as [<-|Hd]; [discriminate Hdd|right; exact (Hrec a' eq_refl Hd)].
      * destruct (py_decimal c) as [v|] eqn:Ep; [|discriminate].
        destruct (dec_to_ascii s) as [a'|]; cbn [ocons] in H; [|discriminate]. injection H as <-. destruct Hd as [_|Hd]; [left; unfold is_pydigit; rewrite Ep; reflexivity|right; exact (Hrec a' eq_refl Hd)].
Qed.

Lemma int_of_string_has_digit s z : py_int_of_string s = OK z -> has_digit s = true.
Proof.
  unfold py_int_of_string. destruct (int_to_ascii s) as [a|] eqn:Ea; [|discriminate].
  destruct (parse_sign (lstrip int_isspace_ascii a)) as [neg body] eqn:Ep.
  destruct (und_digits (rstrip int_isspace_ascii body)) as [ds|] eqn:Eu; [|discriminate]. intros _.
  destruct (und_digits_sound _ _ Eu) as (_ & _ & _ & d & r & Er & Hd).
  apply (int_to_ascii_digit s a d Ea); [|exact Hd].
  apply (lstrip_incl int_isspace_ascii). apply parse_sign_incl. rewrite Ep. cbn [snd].
  apply (rstrip_incl int_isspace_ascii). rewrite Er. left. reflexivity.
Qed.

Lemma of_ascii_fin_has_digit a neg c e : of_ascii a = OK (Fin neg c e) -> exists d, In d a /\ is_digit d = true.
Proof.
  unfold of_ascii. destruct (parse_sign a) as [sg body] eqn:Ep.
  destruct (text_eqb (map lower body) (T "inf") || text_eqb (map lower body) (T "infinity")); [discriminate|].
  destruct (strip_prefix (T "snan") (map lower body)) as [p|]; [destruct (forallb is_digit p); discriminate|].
  destruct (strip_prefix (T "nan") (map lower body)) as [p|]; [destruct (forallb is_digit p); discriminate|].
  destruct (span_digits body) as [ip r1] eqn:E1.
  destruct (match r1 with 46 :: r => span_digits r | _ => ([], r1) end) as [fp r2] eqn:E2.
  destruct (isnil ip && isnil fp) eqn:En; [discriminate|]. intros _.
  assert (Hb : forall x, In x body -> In x a) by (intros x Hx; apply parse_sign_incl; rewrite Ep; exact Hx).
  destruct ip as [|d ip].
  - destruct fp as [|d fp]; [discriminate En|].
    assert (Hfp : In d r1 /\ is_digit d = true).
    { destruct r1 as [|x r]; [injection E2 as E _; discriminate E|].
      destruct (N.eq_dec x 46) as [->|Hc].
      - destruct (span_digits_incl r (d :: fp) r2 d E2) as [I1 _]. destruct (I1 (or_introl eq_refl)). split; [right; assumption|assumption].
      - exfalso. destruct x as [|q]; [injection E2 as E _; discriminate E|].
        do 6 (destruct q as [q|q|]; try (injection E2 as E _; discriminate E)). congruence. }
    destruct Hfp as [Hin Hd]. exists d. split; [|exact Hd]. apply Hb.
    destruct (span_digits_incl body [] r1 d E1) as [_ I2]. exact (I2 Hin).
  - destruct (span_digits_incl body (d :: ip) r1 d E1) as [I1 _]. destruct (I1 (or_introl eq_refl)) as [Hin Hd].
    exists d. split; [apply Hb; exact Hin|exact Hd].
Qed.
Lemma of_string_fin_has_digit s neg c e : of_string s = OK (Fin neg c e) -> has_digit s = true.
Proof.
  unfold of_string. destruct (dec_to_ascii (strip py_isspace s)) as [a|] eqn:Ea; [|discriminate]. intro H.
  destruct (of_ascii_fin_has_digit _ _ _ _ H) as (d & Hin & Hd).
  pose proof (dec_to_ascii_digit _ _ _ Ea Hin Hd) as Hs. apply has_digit_In in Hs. destruct Hs as (x & Hx & Hp).
  apply has_digit_In. exists x. split; [exact (strip_incl _ _ _ Hx)|exact Hp].
Qed.
Lemma comma_dot_pydigit : is_pydigit 44 = false /\ is_pydigit 46 = false.
Proof. split; vm_compute; reflexivity. Qed.
Lemma has_digit_comma_to_dot s : has_digit (comma_to_dot s) = has_digit s.
Proof.
  unfold has_digit, comma_to_dot. induction s as [|c s IH]; [reflexivity|]. cbn [map existsb]. rewrite IH. f_equal.
  destruct (c =? 44) eqn:E; [|reflexivity]. apply N.eqb_eq in E. subst c. destruct comma_dot_pydigit as [-> ->]. reflexivity.
Qed.

Theorem integer_non_numeric l req s : s <> [] -> has_digit s = false -> convert_sty (TInteger l) req (PStr s) = Err Reject.
Proof.
  intros Hne Hd. cbn [convert_sty convert_integer]. rewrite (isnil_false _ Hne).
  destruct (py_int_of_string s) as [z|k] eqn:E.
  - apply int_of_string_has_digit in E. congruence.
  - cbn [bind nowarn rmap]. revert E. unfold py_int_of_string. destruct (int_to_ascii s); [|intro E; injection E as <-; reflexivity].
    destruct (parse_sign (lstrip int_isspace_ascii t)). destruct (und_digits (rstrip int_isspace_ascii t0)); [|intro E; injection E as <-; reflexivity].
    destruct (MAX_STR_DIGITS <? List.length t1)%nat; [intro E; injection E as <-; reflexivity|discriminate].
Qed.
Theorem decimal_non_numeric sc req s : has_digit s = false -> is_ok (convert_sty (TDecimal sc) req (PStr s)) = false.
Proof.
  intro Hd. cbn [convert_sty convert_decimal]. destruct (of_string_comma s) as [d|k] eqn:E; [|reflexivity].
  cbn [bind]. destruct d as [neg c e| |]; [|reflexivity|reflexivity]. exfalso.
  unfold of_string_comma in E. destruct (of_string s) as [d1|] eqn:E1.
  - injection E as ->. apply of_string_fin_has_digit in E1. congruence.
  - apply of_string_fin_has_digit in E. rewrite has_digit_comma_to_dot in E. congruence.
Qed.

(** ================= lifting to Element / ListElement ================= *)
Lemma convert_elem e v : convert e v = convert_sty (elem_sty e) (elem_required e) v.
Proof. induction e as [t r|c IH r]; [reflexivity|exact IH]. Qed.
Lemma unconvert_elem e v : unconvert e v = unconvert_sty (elem_sty e) (elem_required e) v.
Proof. induction e as [t r|c IH r]; [reflexivity|exact IH]. Qed.
