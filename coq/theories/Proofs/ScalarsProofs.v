(** Lemmas behind the C10 theorems: per type, convert / unconvert are mutually inverse on what convert delivers,
    canonical, strict at the limits, and refuse wrong types and bad texts; lifted to [elem] (ListElement nesting). *)
From OfxV Require Import Base.Prelude Base.Digits Gen.ScalarsGen Model.PyDecimal Model.Scalars Model.ScalarsLex
  Proofs.ScalarsText Proofs.PyDecimalProofs.
From Coq Require Import Lia ZifyBool ZifyN ZifyNat.
From Coq Require Decimal DecimalFacts DecimalPos DecimalN.
Local Open Scope N_scope.

(** a [dec] standing for a Python decimal.Decimal object is representable by libmpdec *)
Definition value_wf (v : pyval) : Prop := match v with PDec d => dec_wf d = true | _ => True end.

(** ================= Bool: facts about the mapping regenerated from Types.py ================= *)
Lemma bool_mapping_is : bool_mapping = [([89], true); ([78], false)].
Proof. reflexivity. Qed.
Lemma bool_get s b : mapping_get bool_mapping s = Some b -> (s = [89] /\ b = true) \/ (s = [78] /\ b = false).
Proof.
  rewrite bool_mapping_is. cbn [mapping_get]. destruct (text_eqb [78] s) eqn:E1.
  - intro H. injection H as <-. apply text_eqb_eq in E1. auto.
  - destruct (text_eqb [89] s) eqn:E2; [|discriminate]. intro H. injection H as <-. apply text_eqb_eq in E2. auto.
Qed.
Lemma bool_inv (b : bool) : mapping_inv bool_mapping b = Some (if b then [89] else [78]).
Proof. destruct b; reflexivity. Qed.
Lemma bool_get_inv (b : bool) : mapping_get bool_mapping (if b then [89] else [78]) = Some b.
Proof. destruct b; reflexivity. Qed.

(** ================= Integer: str(int) and int(str) ================= *)
Lemma uint_to_text_length u : List.length (uint_to_text u) = Decimal.nb_digits u.
Proof. induction u; cbn [uint_to_text List.length Decimal.nb_digits]; congruence. Qed.
Lemma text_to_uint_length s u : text_to_uint s = Some u -> Decimal.nb_digits u = List.length s.
Proof.
  revert u. induction s as [|c s IH]; intros u H; cbn [text_to_uint] in H.
  - injection H as <-. reflexivity.
  - destruct (text_to_uint s) as [u'|]; [|discriminate]. specialize (IH u' eq_refl). cbn [List.length]. rewrite <- IH.
    repeat match type of H with (if ?b then _ else _) = _ => destruct b end; try discriminate; injection H as <-; reflexivity.
Qed.
Lemma all_digits_to_uint s : forallb is_digit s = true -> exists u, text_to_uint s = Some u.
Proof.
  induction s as [|c s IH]; intro H; [exists Decimal.Nil; reflexivity|].
  cbn [forallb] in H. apply andb_true_iff in H. destruct H as [Hc Hs]. destruct (IH Hs) as [u Eu].
  cbn [text_to_uint]. rewrite Eu. apply digit_range in Hc.
  assert (c = 48 \/ c = 49 \/ c = 50 \/ c = 51 \/ c = 52 \/ c = 53 \/ c = 54 \/ c = 55 \/ c = 56 \/ c = 57) as Hcases by lia.
  destruct Hcases as [->|[->|[->|[->|[->|[->|[->|[->|[->| ->]]]]]]]]]; eexists; reflexivity.
Qed.
(** the canonical numeral is never longer than a numeral with leading zeros *)
Lemma dec_of_digits_val_length s : forallb is_digit s = true -> s <> [] ->
  (List.length (dec_of_N (digits_val s)) <= List.length s)%nat.
Proof.
  intros H Hne. destruct (all_digits_to_uint s H) as [u Eu]. unfold digits_val, dec_of_N. rewrite Eu.
  rewrite DecimalN.Unsigned.to_of, uint_to_text_length, <- (text_to_uint_length s u Eu).
  unfold Decimal.unorm. pose proof (DecimalFacts.nb_digits_nzhead u) as Hn.
  destruct (Decimal.nzhead u) eqn:En; try exact Hn.
  cbn [Decimal.nb_digits]. rewrite (text_to_uint_length s u Eu). destruct s; [congruence|cbn; lia].
Qed.

Lemma und_digits_all s : forallb is_digit s = true -> s <> [] -> und_digits s = Some s.
Proof.
  induction s as [|c s IH]; intros H Hne; [congruence|]. cbn [forallb] in H. apply andb_true_iff in H. destruct H as [Hc Hs].
  cbn [und_digits]. rewrite Hc. destruct s as [|d r]; [reflexivity|].
  assert (Hd : is_digit d = true) by (cbn [forallb] in Hs; apply andb_true_iff in Hs; tauto).
  assert (E : (d =? 95) = false) by (apply digit_range in Hd; lia). rewrite E.
  rewrite (IH Hs) by discriminate. reflexivity.
Qed.
Lemma und_digits_sound s ds : und_digits s = Some ds -> forallb is_digit ds = true /\ ds <> [] /\ (List.length ds <= List.length s)%nat
  /\ (exists d r, s = d :: r /\ is_digit d = true).
Proof.
  revert ds. induction s as [s IH] using (well_founded_induction (Wf_nat.well_founded_ltof _ (@List.length N))).
  intros ds H. destruct s as [|c s]; [discriminate|]. cbn [und_digits] in H. destruct (is_digit c) eqn:Hc; [|discriminate].
  assert (Hlast : exists d r, c :: s = d :: r /\ is_digit d = true) by (exists c, s; auto).
  destruct s as [|d r].
  - injection H as <-. cbn [forallb]. rewrite Hc. repeat split; auto; discriminate.
  - destruct (d =? 95).
    + destruct (und_digits r) as [t|] eqn:Er; [|discriminate]. injection H as <-.
      destruct (IH r ltac:(unfold Wf_nat.ltof; cbn; lia) t Er) as (A & B & L & _). cbn [forallb List.length]. rewrite Hc, A. repeat split; auto; try discriminate. cbn in *. lia.
    + destruct (und_digits (d :: r)) as [t|] eqn:Er; [|discriminate]. injection H as <-.
      destruct (IH (d :: r) ltac:(unfold Wf_nat.ltof; cbn; lia) t Er) as (A & B & L & _). cbn [forallb List.length]. rewrite Hc, A. repeat split; auto; try discriminate. cbn in *. lia.
Qed.

Lemma ascii_digits_int_to_ascii s : forallb (fun c => c <? 127) s = true -> int_to_ascii s = Some s.
Proof.
  induction s as [|c s IH]; [reflexivity|]. intro H. cbn [forallb] in H. apply andb_true_iff in H. destruct H as [Hc Hs].
  cbn [int_to_ascii]. rewrite Hc, (IH Hs). reflexivity.
Qed.
Lemma digits_lt127 s : forallb is_digit s = true -> forallb (fun c => c <? 127) s = true.
Proof. intro H. rewrite forallb_forall in *. intros c Hc. specialize (H c Hc). apply digit_range in H. lia. Qed.
Lemma digits_not_space s : forallb is_digit s = true -> forallb (fun c => negb (int_isspace_ascii c)) s = true.
Proof. intro H. rewrite forallb_forall in *. intros c Hc. specialize (H c Hc). apply digit_range in H. unfold int_isspace_ascii. lia. Qed.

Lemma Z_text_nonnil z : Z_text z <> [].
Proof. unfold Z_text. pose proof (dec_of_N_nonnil (Z.abs_N z)). destruct (z <? 0)%Z; [discriminate|exact H]. Qed.

(** int(str(z)) == z *)
Lemma int_of_Z_text z : (List.length (dec_of_N (Z.abs_N z)) <= MAX_STR_DIGITS)%nat -> py_int_of_string (Z_text z) = OK z.
Proof.
  intro Hlen. set (ds := dec_of_N (Z.abs_N z)) in *.
  assert (Hd : forallb is_digit ds = true) by apply dec_of_N_all_digits.
  assert (Hne : ds <> []) by apply dec_of_N_nonnil.
  unfold py_int_of_string, Z_text. fold ds.
  assert (Ha : int_to_ascii ((if (z <? 0)%Z then [45] else []) ++ ds) = Some ((if (z <? 0)%Z then [45] else []) ++ ds)).
  { apply ascii_digits_int_to_ascii. rewrite forallb_app, (digits_lt127 ds Hd). destruct (z <? 0)%Z; reflexivity. }
  rewrite Ha. destruct ds as [|d r] eqn:Eds; [congruence|].
  assert (Hdd : is_digit d = true) by (cbn [forallb] in Hd; apply andb_true_iff in Hd; tauto).
  assert (Hsp : int_isspace_ascii d = false) by (apply digit_range in Hdd; unfold int_isspace_ascii; lia).
  assert (Hps : parse_sign (lstrip int_isspace_ascii ((if (z <? 0)%Z then [45] else []) ++ d :: r)) = ((z <? 0)%Z, d :: r)).
  { destruct (z <? 0)%Z; cbn [app lstrip].
    - change (int_isspace_ascii 45) with false. cbv iota. reflexivity.
    - rewrite Hsp. apply digit_not_sign. exact Hdd. }
  rewrite Hps, (rstrip_id _ _ (digits_not_space _ Hd)), (und_digits_all _ Hd) by discriminate.
  destruct (MAX_STR_DIGITS <? List.length (d :: r))%nat eqn:E; [lia|].
  rewrite <- Eds. unfold ds. rewrite digits_val_dec_of_N. f_equal. destruct (z <? 0)%Z eqn:Ez; lia.
Qed.

Lemma str_int_roundtrip z s : py_str_of_int z = OK s -> py_int_of_string s = OK z /\ s <> [].
Proof.
  unfold py_str_of_int. destruct (MAX_STR_DIGITS <? List.length (dec_of_N (Z.abs_N z)))%nat eqn:E; [discriminate|].
  intro H. injection H as <-. split; [apply int_of_Z_text; lia|apply Z_text_nonnil].
Qed.

(** what int(str) delivers can be written again *)
Lemma int_of_string_writable s z : py_int_of_string s = OK z -> py_str_of_int z = OK (Z_text z).
Proof.
  unfold py_int_of_string. destruct (int_to_ascii s) as [a|]; [|discriminate].
  destruct (parse_sign (lstrip int_isspace_ascii a)) as [neg body].
  destruct (und_digits (rstrip int_isspace_ascii body)) as [ds|] eqn:Eu; [|discriminate].
  destruct (MAX_STR_DIGITS <? List.length ds)%nat eqn:El; [discriminate|]. intro H. injection H as <-.
  destruct (und_digits_sound _ _ Eu) as (Hd & Hne & _).
  pose proof (dec_of_digits_val_length ds Hd Hne) as Hl. unfold py_str_of_int.
  assert (Ea : Z.abs_N (if neg then (- Z.of_N (digits_val ds))%Z else Z.of_N (digits_val ds)) = digits_val ds) by (destruct neg; lia).
  rewrite Ea. destruct (MAX_STR_DIGITS <? List.length (dec_of_N (digits_val ds)))%nat eqn:E2; [lia|reflexivity].
Qed.

(** ================= unescape never empties a text (entity values are non-empty) ================= *)
Definition entities_nonempty (ents : list (text * text)) : bool := forallb (fun kv => negb (isnil (snd kv))) ents.
Lemma replace_all_nonnil pat rep s : s <> [] -> rep <> [] -> replace_all pat rep s <> [].
Proof.
  intros Hs Hr. destruct s as [|c r]; [congruence|]. unfold replace_all. destruct pat as [|a p].
  - destruct rep; [congruence|discriminate].
  - cbn [replace_go]. destruct (prefixb (a :: p) (c :: r)); [destruct rep; [congruence|discriminate]|discriminate].
Qed.
Lemma replace_seq_nonnil table s : forallb (fun kv => negb (isnil (snd kv))) table = true -> s <> [] -> replace_seq table s <> [].
Proof.
  unfold replace_seq. revert s. induction table as [|kv table IH]; intros s H Hs; [exact Hs|].
  cbn [forallb] in H. apply andb_true_iff in H. destruct H as [H1 H2]. cbn [fold_left]. apply IH; [exact H2|].
  apply replace_all_nonnil; [exact Hs|]. destruct kv as [k v]. cbn [snd] in *. destruct v; [discriminate H1|discriminate].
Qed.
Lemma sax_unescape_nonnil ents s : entities_nonempty ents = true -> s <> [] -> sax_unescape ents s <> [].
Proof.
  intros He Hs. unfold sax_unescape. apply replace_seq_nonnil; [|exact Hs].
  rewrite !forallb_app. unfold entities_nonempty in He. rewrite He. reflexivity.
Qed.
Lemma string_entities_nonempty : entities_nonempty string_entities = true.
Proof. vm_compute. reflexivity. Qed.
Lemma string_unescape_nonnil s : s <> [] -> string_unescape s <> [].
Proof. apply sax_unescape_nonnil. exact string_entities_nonempty. Qed.

Lemma isnil_false {A} (l : list A) : l <> [] -> isnil l = false.
Proof. destruct l; [congruence|reflexivity]. Qed.
Lemma isnil_true {A} (l : list A) : isnil l = true -> l = [].
Proof. destruct l; [reflexivity|discriminate]. Qed.

(** ================= writing then reading returns the value ================= *)
Definition bool_in_integer (t : sty) (v : pyval) : Prop :=
  match t, v with TInteger _, PBool _ => True | _, _ => False end.

Lemma req_none_not_some {A} req (s : A) w : nowarn (rmap (fun _ : pyval => @None A) (enforce_required req PNone)) = OK (Some s, w) -> False.
Proof. destruct req; cbn; discriminate. Qed.
Lemma req_none_not_some' {A} req (s : A) : rmap (fun _ : pyval => @None A) (enforce_required req PNone) = OK (Some s) -> False.
Proof. destruct req; cbn; discriminate. Qed.

Lemma enforce_length_str_ok l strict s s' w : enforce_length_str l strict s = OK (s', w) -> s' = s.
Proof.
  unfold enforce_length_str. destruct l as [n|]; [destruct (n <? tlen s); [destruct strict|]|]; intro H; try discriminate; injection H as <- _; reflexivity.
Qed.

Lemma convert_unconvert_bool req v s : convert_bool req v = OK v -> unconvert_bool req v = OK (Some s) -> convert_bool req (PStr s) = OK v.
Proof.
  intros Hc Hu. destruct v; cbn [convert_bool unconvert_bool] in *; try discriminate.
  - exfalso. exact (req_none_not_some' _ _ Hu).
  - rewrite bool_inv in Hu. injection Hu as <-. rewrite bool_get_inv. reflexivity.
  - destruct (mapping_get bool_mapping s0); discriminate.
Qed.

Lemma convert_unconvert_string l strict req v s w w' :
  convert_string l strict req v = OK (v, w) -> unconvert_string l strict req v = OK (Some s, w') ->
  convert_string l strict req (PStr s) = OK (v, w').
Proof.
  intros Hc Hu. destruct v; cbn [convert_string unconvert_string] in *; try discriminate.
  - exfalso. exact (req_none_not_some _ _ _ Hu).
  - destruct (isnil s0) eqn:En.
    { destruct req; cbn in Hc; discriminate. }
    destruct (enforce_length_str l strict (string_unescape s0)) as [[u wu]|] eqn:Ee; cbn [rmap fst snd] in Hc; [|discriminate].
    injection Hc as Hu0 <-. pose proof (enforce_length_str_ok _ _ _ _ _ Ee) as Hu1. subst u.
    destruct (enforce_length_str l strict s0) as [[u2 w2]|] eqn:Ee2; cbn [rmap fst snd] in Hu; [|discriminate].
    injection Hu as <- <-. pose proof (enforce_length_str_ok _ _ _ _ _ Ee2) as ->.
    rewrite En, Hu0, Ee2. reflexivity.
Qed.

Lemma convert_unconvert_oneof valid req v s : convert_oneof valid req v = OK v -> unconvert_oneof valid req v = OK (Some s) -> convert_oneof valid req (PStr s) = OK v.
Proof.
  intros Hc Hu. destruct v; cbn [convert_oneof unconvert_oneof] in *; try discriminate.
  - exfalso. exact (req_none_not_some' _ _ Hu).
  - destruct (mem_text s0 valid); [|discriminate]. injection Hu as <-. exact Hc.
Qed.

Lemma convert_unconvert_integer l req z s : convert_integer l req (PInt z) = OK (PInt z) -> unconvert_integer l req (PInt z) = OK (Some s) ->
  convert_integer l req (PStr s) = OK (PInt z).
Proof.
  cbn [convert_integer unconvert_integer]. intros Hc Hu.
  destruct (enforce_length_int l z) as [[]|] eqn:El; cbn [bind] in *; [|discriminate].
  destruct (py_str_of_int z) as [t|] eqn:Es; cbn [rmap] in Hu; [|discriminate]. injection Hu as <-.
  destruct (str_int_roundtrip z t Es) as [Hr Hne]. rewrite (isnil_false _ Hne), Hr. cbn [bind]. rewrite El. reflexivity.
Qed.
(** Integer keeps a bool and writes it as 1 / 0, which reads back as the int *)
Lemma integer_bool_reads_back l req b s : unconvert_integer l req (PBool b) = OK (Some s) ->
  convert_integer l req (PBool b) = OK (PBool b) /\ convert_integer l req (PStr s) = OK (PInt (Z_of_bool b)).
Proof.
  cbn [convert_integer unconvert_integer]. intro Hu.
  destruct (enforce_length_int l (Z_of_bool b)) as [[]|] eqn:El; cbn [bind] in *; [|discriminate]. split; [reflexivity|].
  destruct (py_str_of_int (Z_of_bool b)) as [t|] eqn:Es; cbn [rmap] in Hu; [|discriminate]. injection Hu as <-.
  destruct (str_int_roundtrip _ t Es) as [Hr Hne]. rewrite (isnil_false _ Hne), Hr. cbn [bind]. rewrite El. reflexivity.
Qed.

(** normalisation delivers well-formed, normalised values and is idempotent *)
Lemma normalize_dec_fixed scale d v : dec_wf d = true -> normalize_dec scale d = OK v ->
  exists d', v = PDec d' /\ dec_wf d' = true /\ normalize_dec scale d' = OK (PDec d').
Proof.
  intros Hwf H. destruct d as [neg c e| |]; cbn [normalize_dec] in H; try discriminate.
  destruct scale as [n|].
  - destruct (quantize neg c e (quantum_exp n)) as [d'|] eqn:Eq; cbn [rmap] in H; [|discriminate]. injection H as <-.
    exists d'. split; [reflexivity|]. split; [exact (quantize_wf _ _ _ _ _ Eq)|].
    pose proof (quantize_idem _ _ _ _ _ Eq) as Hi. destruct d' as [n' c' e'| |]; try contradiction. cbn [normalize_dec]. rewrite Hi. reflexivity.
  - destruct (0 <? e)%Z eqn:Epos.
    + destruct (quantize neg c e 0) as [d'|] eqn:Eq; cbn [rmap] in H; [|discriminate]. injection H as <-.
      exists d'. split; [reflexivity|]. split; [exact (quantize_wf _ _ _ _ _ Eq)|].
      destruct (quantize_result _ _ _ _ _ Eq) as (c' & -> & _). cbn [normalize_dec]. reflexivity.
    + injection H as <-. exists (Fin neg c e). split; [reflexivity|]. split; [exact Hwf|]. cbn [normalize_dec]. rewrite Epos. reflexivity.
Qed.

(** a decimal that convert leaves unchanged has exponent <= 0 (the quantum's when a scale is declared) *)
Lemma normalize_dec_fixed_shape scale neg c e : normalize_dec scale (Fin neg c e) = OK (PDec (Fin neg c e)) ->
  (e <= 0)%Z /\ (forall n, scale = Some n -> e = quantum_exp n).
Proof.
  cbn [normalize_dec]. destruct scale as [n|].
  - destruct (quantize neg c e (quantum_exp n)) as [d'|] eqn:Eq; cbn [rmap]; [|discriminate]. intro H. injection H as ->.
    destruct (quantize_exp _ _ _ _ _ _ _ Eq) as [He _]. split; [unfold quantum_exp in He; lia|]. intros n0 E. injection E as <-. exact He.
  - destruct (0 <? e)%Z eqn:Epos.
    + destruct (quantize neg c e 0) as [d'|] eqn:Eq; cbn [rmap]; [|discriminate]. intro H. injection H as ->.
      destruct (quantize_exp _ _ _ _ _ _ _ Eq) as [He _]. lia.
    + intros _. split; [lia|discriminate].
Qed.

Lemma convert_unconvert_decimal scale req d s : dec_wf d = true ->
  convert_decimal scale req (PDec d) = OK (PDec d) -> unconvert_decimal scale req (PDec d) = OK (Some s) ->
  convert_decimal scale req (PStr s) = OK (PDec d).
Proof.
  intros Hwf Hc Hu. cbn [convert_decimal unconvert_decimal] in *.
  destruct d as [neg c e| |]; cbn [normalize_dec] in Hc; try discriminate.
  destruct (normalize_dec_fixed_shape scale neg c e Hc) as [He _].
  assert (s = to_plain_fin neg c e) as ->.
  { cbn [is_finite negb to_plain] in Hu. destruct scale as [n|]; [destruct (same_quantum_exp (Fin neg c e) (quantum_exp n))|]; try discriminate; injection Hu as <-; reflexivity. }
  rewrite (decimal_plain_roundtrip_comma neg c e He Hwf). cbn [bind]. exact Hc.
Qed.

Theorem convert_unconvert_sty t req v w s w' :
  value_wf v -> ~ bool_in_integer t v ->
  convert_sty t req v = OK (v, w) -> unconvert_sty t req v = OK (Some s, w') ->
  convert_sty t req (PStr s) = OK (v, w').
Proof.
  intros Hwf Hb Hc Hu. destruct t as [|l strict|valid|l|scale]; cbn [convert_sty unconvert_sty] in *.
  - destruct (convert_bool req v) as [v1|] eqn:E1; cbn [nowarn rmap] in Hc; [|discriminate]. injection Hc as -> <-.
    destruct (unconvert_bool req v) as [o|] eqn:E2; cbn [nowarn rmap] in Hu; [|discriminate]. injection Hu as -> <-.
    rewrite (convert_unconvert_bool req v s E1 E2). reflexivity.
  - exact (convert_unconvert_string l strict req v s w w' Hc Hu).
  - destruct (convert_oneof valid req v) as [v1|] eqn:E1; cbn [nowarn rmap] in Hc; [|discriminate]. injection Hc as -> <-.
    destruct (unconvert_oneof valid req v) as [o|] eqn:E2; cbn [nowarn rmap] in Hu; [|discriminate]. injection Hu as -> <-.
    rewrite (convert_unconvert_oneof valid req v s E1 E2). reflexivity.
  - destruct (convert_integer l req v) as [v1|] eqn:E1; cbn [nowarn rmap] in Hc; [|discriminate]. injection Hc as -> <-.
    destruct (unconvert_integer l req v) as [o|] eqn:E2; cbn [nowarn rmap] in Hu; [|discriminate]. injection Hu as -> <-.
    destruct v; try (cbn [unconvert_integer] in E2; discriminate).
    + exfalso. exact (req_none_not_some' _ _ E2).
    + exfalso. apply Hb. exact I.
    + rewrite (convert_unconvert_integer l req z s E1 E2). reflexivity.
  - destruct (convert_decimal scale req v) as [v1|] eqn:E1; cbn [nowarn rmap] in Hc; [|discriminate]. injection Hc as -> <-.
    destruct (unconvert_decimal scale req v) as [o|] eqn:E2; cbn [nowarn rmap] in Hu; [|discriminate]. injection Hu as -> <-.
    destruct v; try (cbn [unconvert_decimal] in E2; discriminate).
    + exfalso. exact (req_none_not_some' _ _ E2).
    + rewrite (convert_unconvert_decimal scale req d s Hwf E1 E2). reflexivity.
Qed.
