(** C01/C13, part 3: validity of an instance, canonical constructor arguments, and what the emitted children are to the reader
    (including the three classes whose groom/ungroom renames one data element: MAIL FROM/FRM, MFINFO and STOCKINFO YIELD/YLD). *)
From OfxV Require Import Base.Prelude Model.Schema Model.SchemaWf Model.Convert Proofs.ConvertSound Proofs.ConvertUnknown Proofs.ConvertPlaces
     Proofs.RoundTrip1 Proofs.RoundTrip2.
From Coq Require Import Lia.
Local Open Scope string_scope.

Section RT3.
  Variable sval : Type.
  Variable conv : N -> sin sval -> result (option sval).
  Variable unconv : N -> sval -> result text.
  Variable S : schema.
  Notation inst := (inst sval).
  Notation fval := (fval sval).
  Notation member := (member sval).
  Notation kwval := (kwval sval).
  Notation to_etree := (to_etree sval unconv S).
  Notation from_etree := (from_etree sval conv S).
  Notation construct := (construct sval conv S).
  Notation entry := (string * attr * etree * bool)%type.

  (** [incr keys lo names]: the names occur in [keys] at strictly increasing positions, all >= lo *)
  Fixpoint incr (keys : list string) (lo : nat) (names : list string) : Prop :=
    match names with
    | [] => True
    | a :: t => exists i, index_of a keys = Some i /\ (lo <= i)%nat /\ incr keys (Datatypes.S i) t
    end.
  Lemma incr_weaken keys lo lo' names : (lo' <= lo)%nat -> incr keys lo names -> incr keys lo' names.
  Proof. destruct names as [|a t]; cbn [incr]; [trivial|]. intros Hle (i & Hi & Hlo & Ht). exists i. repeat split; try assumption. lia. Qed.
  (** dropping names keeps the property *)
  Lemma incr_filter keys (p : string -> bool) : forall names lo, incr keys lo names -> incr keys lo (filter p names).
  Proof.
    induction names as [|a t IH]; intros lo H; [exact I|]. cbn [incr] in H. destruct H as (i & Hi & Hlo & Ht). cbn [filter].
    destruct (p a).
    - cbn [incr]. exists i. repeat split; try assumption. apply IH. exact Ht.
    - apply IH. eapply incr_weaken; [|exact Ht]. lia.
  Qed.

  (** what the class table must satisfy for the writer's output to be readable (all decidable; see [rt_class_okb]) *)
  Record rt_class_ok (c : cinfo) (lb ub : nat) : Prop := {
    rc_export : ci_export c = true;
    rc_rename : match ci_rename c with
                | None => True
                | Some (wire, py) =>
                  (* the python-side tag is that of a data element of the class, the wire tag is nobody's *)
                  (exists t r, assoc (lower py) (ci_spec c) = Some (AElem t r)) /\ py = upper (lower py)
                  /\ has_dot wire = false /\ wire <> py /\ ~ In (lower wire) (map fst (ci_spec c))
                end;
    rc_nodup : NoDup (map fst (ci_spec c));
    rc_lbub : (lb <= ub)%nat;
    rc_tags : forall k a, In (k, a) (ci_spec c) ->
                has_dot (upper k) = false /\ lower (upper k) = k /\
                match a with ASub t _ | AListAgg t => lower t = k | _ => True end;
    rc_pre : match split_at (ci_spec c) with
             | Some n => incr (map fst (ci_spec c)) 0 (map fst (firstn n (spec_no_list c)))
                         /\ (forall a i, In a (map fst (firstn n (spec_no_list c))) -> index_of a (map fst (ci_spec c)) = Some i -> (i < lb)%nat)
             | None => incr (map fst (ci_spec c)) 0 (map fst (spec_no_list c))
             end;
    rc_list : forall k a i, In (k, a) (ci_spec c) -> is_list_attr a = true -> index_of k (map fst (ci_spec c)) = Some i -> (lb <= i < ub)%nat;
    rc_post : match split_at (ci_spec c) with
              | Some n => incr (map fst (ci_spec c)) ub (map fst (filter (fun ka => negb (is_unsup (snd ka))) (skipn n (spec_no_list c))))
              | None => True
              end;
    rc_elist : if ci_elist c then exists k t, the_listelem c = Some (k, t) /\ keys_where is_listagg (ci_spec c) = []
               else keys_where is_listelem (ci_spec c) = []
  }.

  (** the keyword / positional arguments that denote an instance: what the reader reconstructs from the writer's output *)
  Definition canon_field (c : cinfo) (p : string * fval) : list (string * kwval) :=
    match p with
    | (k, FNone _) => []
    | (k, FSub _ j) => [(k, KInst sval j)]
    | (k, FVal _ x) => match assoc k (ci_spec c) with
                       | Some (AElem t _) => match unconv t x with OK s => [(k, KText sval s)] | Err _ => [] end
                       | _ => []
                       end
    end.
  Definition canon_kw (c : cinfo) (fs : list (string * fval)) : list (string * kwval) := flat_map (canon_field c) fs.
  Definition canon_member (c : cinfo) (m : member) : list kwval :=
    match m with
    | MAgg _ j => [KInst sval j]
    | MVal _ (Some x) => match the_listelem c with Some (k, t) => match unconv t x with OK s => [KText sval s] | Err _ => [] end | None => [] end
    | _ => []
    end.
  Definition canon_args (c : cinfo) (ms : list member) : list kwval := flat_map (canon_member c) ms.

  (** a valid instance, as the property means it: of an exported class whose table entry is well-formed, fields in spec order,
      every value writable to a non-empty text that reads back to it, children of the declared tag, members of the repeated
      kinds, and accepted by its own class constructor when given back (canonical arguments) - at every depth. *)
  Inductive valid : inst -> Prop :=
  | Valid cn c lb ub fs ms :
      find_cls S cn = Some c -> rt_class_ok c lb ub ->
      map fst fs = map fst (spec_no_list c) ->
      (forall k x, In (k, FVal sval x) fs ->
         exists t req s, assoc k (ci_spec c) = Some (AElem t req) /\ unconv t x = OK s /\ s <> [] /\ conv t (SText sval s) = OK (Some x)) ->
      (forall k j, In (k, FSub sval j) fs ->
         exists t req, assoc k (ci_spec c) = Some (ASub t req) /\ lower (icls sval j) = k /\ has_dot (icls sval j) = false) ->
      (forall k j, In (k, FSub sval j) fs -> valid j) ->
      (forall j, In (MAgg sval j) ms -> ci_elist c = false /\ mem (lower (icls sval j)) (listaggregates c) = true /\ has_dot (icls sval j) = false) ->
      (forall j, In (MAgg sval j) ms -> valid j) ->
      (forall v, In (MVal sval v) ms -> ci_elist c = true /\ exists x k t s, v = Some x /\ the_listelem c = Some (k, t) /\ unconv t x = OK s /\ s <> [] /\ conv t (SText sval s) = OK (Some x)) ->
      (forall s, ~ In (MStr sval s) ms) ->
      (split_at (ci_spec c) = None -> ms = []) ->
      construct cn (canon_args c ms) (canon_kw c fs) = OK (Inst sval cn fs ms) ->
      valid (Inst sval cn fs ms).

  (** induction principle that reaches the nested instances *)
  Lemma inst_ind' (P : inst -> Prop)
        (H : forall cn fs ms, (forall k j, In (k, FSub sval j) fs -> P j) -> (forall j, In (MAgg sval j) ms -> P j) -> P (Inst sval cn fs ms)) :
    forall i, P i.
  Proof.
    fix IH 1. intros [cn fs ms]. apply H.
    - revert fs. fix go 1. intros [|[k0 v0] t] k j Hin; [destruct Hin|].
      destruct Hin as [E|Hin]; [|exact (go t k j Hin)].
      destruct v0 as [|x0|j0]; try discriminate E. injection E as _ <-. apply IH.
    - revert ms. fix go 1. intros [|m0 t] j Hin; [destruct Hin|].
      destruct Hin as [E|Hin]; [|exact (go t j Hin)].
      destruct m0 as [j0|s0|v0]; try discriminate E. injection E as <-. apply IH.
  Qed.
End RT3.
