(** C16: the shortcut theorems instantiated on the REGENERATED tables (Gen/SchemaS.S, Gen/LookupGen.LT): each named shortcut
    of the live classes equals its explicit path.  The premises about the class table are discharged by evaluation. *)
From OfxV Require Import Base.Prelude Model.Schema Model.Convert Model.Shortcuts Model.Lookup Model.LookupWalk
     Proofs.LookupCore Proofs.LookupShortcuts Proofs.LookupThms Gen.SchemaGen Gen.SchemaS Gen.LookupGen.
Local Open Scope string_scope.

(** (class, shortcut, the attribute it names) - from the property text *)
Definition alias_spec : list (string * string * string) :=
  [ ("STMTRS", "account", "bankacctfrom"); ("STMTRS", "transactions", "banktranlist"); ("STMTRS", "balance", "ledgerbal");
    ("CCSTMTRS", "account", "ccacctfrom"); ("CCSTMTRS", "transactions", "banktranlist"); ("CCSTMTRS", "balance", "ledgerbal");
    ("INVSTMTRS", "account", "invacctfrom"); ("INVSTMTRS", "transactions", "invtranlist"); ("INVSTMTRS", "positions", "invposlist");
    ("INVSTMTRS", "balances", "invbal");
    ("STMTTRNRS", "statement", "stmtrs"); ("CCSTMTTRNRS", "statement", "ccstmtrs"); ("CCSTMTENDTRNRS", "statement", "ccstmtendrs");
    ("INVSTMTTRNRS", "statement", "invstmtrs"); ("PROFTRNRS", "profile", "profrs") ].
(** the classes carrying the Origcurrency mixin *)
Definition cur_classes : list string :=
  ["STMTTRN"; "CLOSING"; "STPCHKNUM"; "INVBUY"; "INVSELL"; "INCOME"; "INVEXPENSE"; "MARGININTEREST"; "REINVEST"; "RETOFCAP"; "SPLIT"].

Definition is_alias_row (r : string * string * string) : bool :=
  let '(cn, n, a) := r in
  match find_cls S cn with
  | Some c => match assoc n (ci_spec c), class_attr LT cn n, assoc a (ci_spec c) with
              | None, Some (KShortcut (SCAlias a')), Some _ => String.eqb a a'
              | _, _, _ => false
              end
  | None => false
  end.
Lemma alias_rows_ok : forallb is_alias_row alias_spec = true.
Proof. vm_compute. reflexivity. Qed.

Section Live.
  Variable sval : Type.
  Variable fx : bool.
  Notation inst := (inst sval).
  Notation getattr := (getattr_m sval fx S LT).

  Theorem alias_is_path_l cn n a fs ms : In (cn, n, a) alias_spec ->
    getattr (Inst sval cn fs ms) n = getattr (Inst sval cn fs ms) a.
  Proof.
    intro Hin. pose proof alias_rows_ok as H. rewrite forallb_forall in H. specialize (H _ Hin). unfold is_alias_row in H.
    destruct (find_cls S cn) as [c|] eqn:Hc; [|discriminate].
    destruct (assoc n (ci_spec c)) eqn:Hs; [discriminate|].
    destruct (class_attr LT cn n) as [[sc|]|] eqn:Hk; try discriminate. destruct sc; try discriminate.
    destruct (assoc a (ci_spec c)) as [at_|] eqn:Ha; [|discriminate]. apply String.eqb_eq in H. subst a0.
    unfold getattr_m. f_equal. apply (alias_core sval fx S LT cn fs ms n a c Hc Hs Hk). exists at_. exact Ha.
  Qed.

  (** SONRS.org / SONRS.fid = self.fi.org / self.fi.fid *)
  Theorem sonrs_org_fid_l n fs ms j v : In n ["org"; "fid"] -> assoc "fi" fs = Some (FSub sval j) ->
    getattr j n = OK v -> getattr (Inst sval "SONRS" fs ms) n = OK v.
  Proof.
    intros Hin Ea Hv. apply to_result_ok. apply to_result_ok in Hv.
    destruct Hin as [<-|[<-|[]]].
    - eapply (via_core sval fx S LT "SONRS" fs ms "org" "fi" "org"); [vm_compute; reflexivity|vm_compute; reflexivity|vm_compute; reflexivity| |exact Ea|exact Hv].
      eexists. split; [vm_compute; reflexivity|discriminate].
    - eapply (via_core sval fx S LT "SONRS" fs ms "fid" "fi" "fid"); [vm_compute; reflexivity|vm_compute; reflexivity|vm_compute; reflexivity| |exact Ea|exact Hv].
      eexists. split; [vm_compute; reflexivity|discriminate].
  Qed.


  (** ---- class-table facts by evaluation ---- *)
  Definition is_sc (cn n : string) (sc : shortcut) : bool :=
    match find_cls S cn with
    | Some c => match assoc n (ci_spec c) with
                | None => match class_attr LT cn n with Some k => ckind_eqb k (KShortcut sc) | None => false end
                | Some _ => false
                end
    | None => false
    end.
  Definition has_sub (cn a : string) : bool :=
    match find_cls S cn with
    | Some c => match assoc a (ci_spec c) with Some (ASub _ _) => true | _ => false end
    | None => false
    end.
End Live.

Lemma strs_eqb_eq a b : strs_eqb a b = true -> a = b.
Proof. apply (proj1 (list_eqb_eq String.eqb String.eqb_eq a b)). Qed.
Lemma opt_str_eqb_eq a b : opt_str_eqb a b = true -> a = b.
Proof. destruct a, b; cbn; try discriminate; [intro H; apply String.eqb_eq in H; subst|]; reflexivity. Qed.
Lemma pair_str_eqb_iff (x y : string * string) : pair_eqb String.eqb String.eqb x y = true <-> x = y.
Proof.
  destruct x as [a b], y as [a' b']. unfold pair_eqb. cbn [fst snd]. rewrite andb_true_iff, !String.eqb_eq.
  split; [intros [-> ->]; reflexivity|intro E; injection E; auto].
Qed.
Lemma tests_eqb_eq a b : list_eqb (pair_eqb String.eqb String.eqb) a b = true -> a = b.
Proof. apply (proj1 (list_eqb_eq _ pair_str_eqb_iff a b)). Qed.
Ltac sb := repeat match goal with
  | H : (_ && _)%bool = true |- _ => apply andb_true_iff in H; destruct H
  | H : String.eqb _ _ = true |- _ => apply String.eqb_eq in H; subst
  | H : strs_eqb _ _ = true |- _ => apply strs_eqb_eq in H; subst
  | H : opt_str_eqb _ _ = true |- _ => apply opt_str_eqb_eq in H; subst
  | H : Bool.eqb _ _ = true |- _ => apply Bool.eqb_prop in H; subst
  | H : list_eqb (pair_eqb String.eqb String.eqb) _ _ = true |- _ => apply tests_eqb_eq in H; subst
  end.
Lemma shortcut_eqb_eq a b : shortcut_eqb a b = true -> a = b.
Proof. destruct a, b; cbn [shortcut_eqb]; try discriminate; intro H; sb; reflexivity. Qed.
Lemma ckind_eqb_eq a b : ckind_eqb a b = true -> a = b.
Proof. destruct a, b; cbn [ckind_eqb]; try discriminate; intro H; [apply shortcut_eqb_eq in H; subst|]; reflexivity. Qed.

Lemma is_sc_spec cn n sc : is_sc cn n sc = true ->
  exists c, find_cls S cn = Some c /\ assoc n (ci_spec c) = None /\ class_attr LT cn n = Some (KShortcut sc).
Proof.
  unfold is_sc. destruct (find_cls S cn) as [c|]; [|discriminate]. destruct (assoc n (ci_spec c)) eqn:Es; [discriminate|].
  destruct (class_attr LT cn n) as [k|]; [|discriminate]. intro H. apply ckind_eqb_eq in H. subst k. exists c. auto.
Qed.
Lemma has_sub_spec cn a c : find_cls S cn = Some c -> has_sub cn a = true -> exists t, assoc a (ci_spec c) = Some t /\ t <> AUnsupported.
Proof.
  unfold has_sub. intros ->. destruct (assoc a (ci_spec c)) as [[| t r | | |]|]; try discriminate. intros _. eexists. split; [reflexivity|discriminate].
Qed.

Definition cur_class_ok (cn : string) : bool :=
  has_sub cn "currency" && has_sub cn "origcurrency"
  && is_sc cn "curtype" (SCCur "currency" "origcurrency" None)
  && is_sc cn "cursym" (SCCur "currency" "origcurrency" (Some "cursym"))
  && is_sc cn "currate" (SCCur "currency" "origcurrency" (Some "currate")).
Lemma cur_classes_ok : forallb cur_class_ok cur_classes = true.
Proof. vm_compute. reflexivity. Qed.

(** (message set class, [(wrapper class, attribute holding its statement or closing statement)]) - from the property text *)
Definition msgset_tests_spec : list (string * list (string * string)) :=
  [ ("BANKMSGSRQV1", [("STMTTRNRQ", "stmtrq"); ("STMTENDTRNRQ", "stmtendrq")]);
    ("CREDITCARDMSGSRQV1", [("CCSTMTTRNRQ", "ccstmtrq"); ("CCSTMTENDTRNRQ", "ccstmtendrq")]);
    ("INVSTMTMSGSRQV1", [("INVSTMTTRNRQ", "invstmtrq")]);
    ("BANKMSGSRSV1", [("STMTTRNRS", "stmtrs"); ("STMTENDTRNRS", "stmtendrs")]);
    ("CREDITCARDMSGSRSV1", [("CCSTMTTRNRS", "ccstmtrs"); ("CCSTMTENDTRNRS", "ccstmtendrs")]);
    ("INVSTMTMSGSRSV1", [("INVSTMTTRNRS", "invstmtrs")]) ].
Definition msgset_row_ok (r : string * list (string * string)) : bool :=
  match wrapped_desc LT (fst r) "statements" with
  | Some (_, _, t) => list_eqb (pair_eqb String.eqb String.eqb) t (snd r)
  | None => false
  end.

Section Live2.
  Variable sval : Type.
  Variable fx : bool.
  Notation inst := (inst sval).
  Notation getattr := (getattr_m sval fx S LT).

  (** Origcurrency: the currency aggregate is CURRENCY when present, else ORIGCURRENCY; curtype is its class name, cursym / currate
      are its attributes; None when neither is present *)
  Theorem currency_shortcuts_l cn fs ms j : In cn cur_classes -> cur_path sval fs "currency" "origcurrency" = Some j ->
    getattr (Inst sval cn fs ms) "curtype" = OK (PName sval (icls sval j)) /\
    (forall v, getattr j "cursym" = OK v -> getattr (Inst sval cn fs ms) "cursym" = OK v) /\
    (forall v, getattr j "currate" = OK v -> getattr (Inst sval cn fs ms) "currate" = OK v).
  Proof.
    intros Hin Hp. pose proof cur_classes_ok as H. rewrite forallb_forall in H. specialize (H _ Hin). unfold cur_class_ok in H. sb.
    match goal with H : is_sc cn "curtype" _ = true |- _ => destruct (is_sc_spec _ _ _ H) as (c & Hc & Hs1 & Hk1) end.
    match goal with H : is_sc cn "cursym" _ = true |- _ => destruct (is_sc_spec _ _ _ H) as (c2 & Hc2 & Hs2 & Hk2) end.
    match goal with H : is_sc cn "currate" _ = true |- _ => destruct (is_sc_spec _ _ _ H) as (c3 & Hc3 & Hs3 & Hk3) end.
    rewrite Hc in Hc2, Hc3. injection Hc2 as <-. injection Hc3 as <-.
    match goal with H : has_sub cn "currency" = true |- _ => pose proof (has_sub_spec _ _ c Hc H) as A1 end.
    match goal with H : has_sub cn "origcurrency" = true |- _ => pose proof (has_sub_spec _ _ c Hc H) as A2 end.
    split; [|split].
    - apply to_result_ok. exact (cur_core sval fx S LT cn fs ms "curtype" _ _ None c j Hc Hs1 Hk1 A1 A2 Hp).
    - intros v Hv. apply to_result_ok. apply to_result_ok in Hv.
      exact (cur_core sval fx S LT cn fs ms "cursym" _ _ (Some "cursym") c j Hc Hs2 Hk2 A1 A2 Hp v Hv).
    - intros v Hv. apply to_result_ok. apply to_result_ok in Hv.
      exact (cur_core sval fx S LT cn fs ms "currate" _ _ (Some "currate") c j Hc Hs3 Hk3 A1 A2 Hp v Hv).
  Qed.
  Theorem currency_none_l cn fs ms n : In cn cur_classes -> In n ["curtype"; "cursym"; "currate"] ->
    assoc "currency" fs = Some (FNone sval) -> assoc "origcurrency" fs = Some (FNone sval) ->
    getattr (Inst sval cn fs ms) n = OK (PNone sval).
  Proof.
    intros Hin Hn E1 E2. pose proof cur_classes_ok as H. rewrite forallb_forall in H. specialize (H _ Hin). unfold cur_class_ok in H. sb.
    match goal with H : is_sc cn "curtype" _ = true |- _ => destruct (is_sc_spec _ _ _ H) as (c & Hc & Hs1 & Hk1) end.
    match goal with H : is_sc cn "cursym" _ = true |- _ => destruct (is_sc_spec _ _ _ H) as (c2 & Hc2 & Hs2 & Hk2) end.
    match goal with H : is_sc cn "currate" _ = true |- _ => destruct (is_sc_spec _ _ _ H) as (c3 & Hc3 & Hs3 & Hk3) end.
    rewrite Hc in Hc2, Hc3. injection Hc2 as <-. injection Hc3 as <-.
    match goal with H : has_sub cn "currency" = true |- _ => pose proof (has_sub_spec _ _ c Hc H) as A1 end.
    match goal with H : has_sub cn "origcurrency" = true |- _ => pose proof (has_sub_spec _ _ c Hc H) as A2 end.
    apply to_result_ok. destruct Hn as [<-|[<-|[<-|[]]]].
    - exact (cur_none_core sval fx S LT cn fs ms _ _ _ _ c Hc Hs1 Hk1 A1 A2 E1 E2).
    - exact (cur_none_core sval fx S LT cn fs ms _ _ _ _ c Hc Hs2 Hk2 A1 A2 E1 E2).
    - exact (cur_none_core sval fx S LT cn fs ms _ _ _ _ c Hc Hs3 Hk3 A1 A2 E1 E2).
  Qed.

  (** OFX.signon = signonmsgsrqv1.sonrq, else signonmsgsrsv1.sonrs *)
  Lemma ofx_signon_facts : is_sc "OFX" "signon" (SCSignon "signonmsgsrqv1" "sonrq" "signonmsgsrsv1" "sonrs") = true
                           /\ has_sub "OFX" "signonmsgsrqv1" = true /\ has_sub "OFX" "signonmsgsrsv1" = true.
  Proof. vm_compute. auto. Qed.
  Theorem ofx_signon_l fs ms :
    (forall j v, assoc "signonmsgsrqv1" fs = Some (FSub sval j) -> getattr j "sonrq" = OK v -> getattr (Inst sval "OFX" fs ms) "signon" = OK v) /\
    (forall j v, assoc "signonmsgsrqv1" fs = Some (FNone sval) -> assoc "signonmsgsrsv1" fs = Some (FSub sval j) -> getattr j "sonrs" = OK v ->
                 getattr (Inst sval "OFX" fs ms) "signon" = OK v).
  Proof.
    destruct ofx_signon_facts as (H1 & H2 & H3). destruct (is_sc_spec _ _ _ H1) as (c & Hc & Hs & Hk).
    destruct (signon_core sval fx S LT "OFX" fs ms "signon" _ _ _ _ c Hc Hs Hk (has_sub_spec _ _ c Hc H2) (has_sub_spec _ _ c Hc H3)) as [A B].
    split.
    - intros j v E Hv. apply to_result_ok. apply to_result_ok in Hv. exact (A j v E Hv).
    - intros j v E1 E2 Hv. apply to_result_ok. apply to_result_ok in Hv. exact (B j v E1 E2 Hv).
  Qed.

  (** OFX.statements walks the six message sets in this order *)
  Theorem ofx_statements_live_l (i : inst) : icls sval i = "OFX" -> concat_ok_b sval S LT "statements" i = true ->
    getattr i "statements" =
    OK (PList sval (map (PInst sval)
         (flat_map (fun a => match assoc a (ifields sval i) with Some (FSub _ j) => walk_of sval S LT "statements" j | _ => [] end) stmt_msgsets))).
  Proof.
    intros Hc Hok. rewrite (proj1 (statements_is_path_walk_l sval S LT fx "statements" i) Hok). unfold concat_walk. rewrite Hc.
    replace (concat_desc LT "OFX" "statements") with (Some (stmt_msgsets, "statements")) by (vm_compute; reflexivity). reflexivity.
  Qed.

  (** each message set walks its wrappers with the tests of the specification (closing statements included) *)
  Theorem msgset_statements_live_l cn tests fs ms :
    forallb msgset_row_ok msgset_tests_spec = true ->
    In (cn, tests) msgset_tests_spec -> wrapped_ok_b sval S LT "statements" (Inst sval cn fs ms) = true ->
    getattr (Inst sval cn fs ms) "statements" = OK (PList sval (map (PInst sval) (walk_members sval S tests ms))).
  Proof.
    intros Hall Hin Hok. rewrite forallb_forall in Hall. specialize (Hall _ Hin). unfold msgset_row_ok in Hall. cbn [fst snd] in Hall.
    rewrite (proj2 (statements_is_path_walk_l sval S LT fx "statements" (Inst sval cn fs ms)) Hok). unfold walk_of. cbn [icls imembers].
    destruct (wrapped_desc LT cn "statements") as [[[st ea] t]|]; [|discriminate]. apply tests_eqb_eq in Hall. subst t. reflexivity.
  Qed.
End Live2.
