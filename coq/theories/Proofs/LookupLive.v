(** C16: the shortcut theorems instantiated on the REGENERATED tables (Gen/SchemaS.S, Gen/LookupGen.LT): each named shortcut
    of the live classes equals its explicit path.  The premises about the class table are discharged by evaluation. *)
From OfxV Require Import Base.Prelude Model.Schema Model.Convert Model.Shortcuts Model.Lookup Model.LookupWalk
     Proofs.LookupCore Proofs.LookupShortcuts Proofs.LookupThms Gen.SchemaGen Gen.SchemaS Gen.LookupGen.
Local Open Scope string_scope.

(** (class, shortcut, the attribute it names) - from the property text *)
Definition alias_spec : list (string * string * string) :=
  [ ("STMTRS", "account", "bankacctfrom"); ("STMTRS", "transactions", "banktranlist"); ("STMTRS", "balance", "ledgerbal");
    ("CCSTMTRS", "account", "ccacctfrom"); ("CCSTMTRS", "transactions", "banktranlist"); ("CCSTMTRS", "balance", "ledgerbal");
    ("INVSTMTRS", "account", "invacctfrom"); ("INVSTMTRS", "transactions", "invtranlist"); ("INVSTMTRS", "positions", "invposlist");
    ("INVSTMTRS", "balances", "invbal");
    ("STMTTRNRS", "statement", "stmtrs"); ("CCSTMTTRNRS", "statement", "ccstmtrs"); ("CCSTMTENDTRNRS", "statement", "ccstmtendrs");
    ("INVSTMTTRNRS", "statement", "invstmtrs"); ("PROFTRNRS", "profile", "profrs") ].
(** the classes carrying the Origcurrency mixin *)
Definition cur_classes : list string :=
  ["STMTTRN"; "CLOSING"; "STPCHKNUM"; "INVBUY"; "INVSELL"; "INCOME"; "INVEXPENSE"; "MARGININTEREST"; "REINVEST"; "RETOFCAP"; "SPLIT"].

Definition is_alias_row (r : string * string * string) : bool :=
  let '(cn, n, a) := r in
  match find_cls S cn with
  | Some c => match assoc n (ci_spec c), class_attr LT cn n, assoc a (ci_spec c) with
              | None, Some (KShortcut (SCAlias a')), Some _ => String.eqb a a'
              | _, _, _ => false
              end
  | None => false
  end.
Lemma alias_rows_ok : forallb is_alias_row alias_spec = true.
Proof. vm_compute. reflexivity. Qed.

Section Live.
  Variable sval : Type.
  Variable fx : bool.
  Notation inst := (inst sval).
  Notation getattr := (getattr_m sval fx S LT).

  Theorem alias_is_path_l cn n a fs ms : In (cn, n, a) alias_spec ->
    getattr (Inst sval cn fs ms) n = getattr (Inst sval cn fs ms) a.
  Proof.
    intro Hin. pose proof alias_rows_ok as H. rewrite forallb_forall in H. specialize (H _ Hin). unfold is_alias_row in H.
    destruct (find_cls S cn) as [c|] eqn:Hc; [|discriminate].
    destruct (assoc n (ci_spec c)) eqn:Hs; [discriminate|].
    destruct (class_attr LT cn n) as [[sc|]|] eqn:Hk; try discriminate. destruct sc; try discriminate.
    destruct (assoc a (ci_spec c)) as [at_|] eqn:Ha; [|discriminate]. apply String.eqb_eq in H. subst a0.
    unfold getattr_m. f_equal. apply (alias_core sval fx S LT cn fs ms n a c Hc Hs Hk). exists at_. exact Ha.
  Qed.

  (** SONRS.org / SONRS.fid = self.fi.org / self.fi.fid *)
  Theorem sonrs_org_fid_l n fs ms j v : In n ["org"; "fid"] -> assoc "fi" fs = Some (FSub sval j) ->
    getattr j n = OK v -> getattr (Inst sval "SONRS" fs ms) n = OK v.
  Proof.
    intros Hin Ea Hv. apply to_result_ok. apply to_result_ok in Hv.
    destruct Hin as [<-|[<-|[]]].
    - eapply (via_core sval fx S LT "SONRS" fs ms "org" "fi" "org"); [vm_compute; reflexivity|vm_compute; reflexivity|vm_compute; reflexivity| |exact Ea|exact Hv].
      eexists. split; [vm_compute; reflexivity|discriminate].
    - eapply (via_core sval fx S LT "SONRS" fs ms "fid" "fi" "fid"); [vm_compute; reflexivity|vm_compute; reflexivity|vm_compute; reflexivity| |exact Ea|exact Hv].
      eexists. split; [vm_compute; reflexivity|discriminate].
  Qed.

  (** Origcurrency: the currency aggregate is CURRENCY if present, else ORIGCURRENCY; curtype is its class name, cursym / currate its
      attributes; None when neither is present *)
  Definition is_cur_class (cn : string) : bool :=
    match find_cls S cn with
    | Some c =>
      match assoc "currency" (ci_spec c), assoc "origcurrency" (ci_spec c) with
      | Some (ASub _ _), Some (ASub _ _) =>
        forallb (fun nw => match assoc (fst nw) (ci_spec c), class_attr LT cn (fst nw) with
                           | None, Some (KShortcut (SCCur "currency" "origcurrency" w)) => opt_str_eqb w (snd nw)
                           | _, _ => false end)
                [("curtype", None); ("cursym", Some "cursym"); ("currate", Some "currate")]
      | _, _ => false
      end
    | None => false
    end.
  Lemma cur_classes_ok : forallb is_cur_class cur_classes = true.
  Proof. vm_compute. reflexivity. Qed.

  Lemma cur_class_facts cn : In cn cur_classes -> exists c,
      find_cls S cn = Some c /\
      (exists t1, assoc "currency" (ci_spec c) = Some t1 /\ t1 <> AUnsupported) /\
      (exists t2, assoc "origcurrency" (ci_spec c) = Some t2 /\ t2 <> AUnsupported) /\
      (assoc "curtype" (ci_spec c) = None /\ class_attr LT cn "curtype" = Some (KShortcut (SCCur "currency" "origcurrency" None))) /\
      (assoc "cursym" (ci_spec c) = None /\ class_attr LT cn "cursym" = Some (KShortcut (SCCur "currency" "origcurrency" (Some "cursym")))) /\
      (assoc "currate" (ci_spec c) = None /\ class_attr LT cn "currate" = Some (KShortcut (SCCur "currency" "origcurrency" (Some "currate")))).
  Proof.
    intro Hin. pose proof cur_classes_ok as H. rewrite forallb_forall in H. specialize (H _ Hin). unfold is_cur_class in H.
    destruct (find_cls S cn) as [c|]; [|discriminate]. exists c. split; [reflexivity|].
    destruct (assoc "currency" (ci_spec c)) as [[| t1 r1 | | |]|]; try discriminate.
    destruct (assoc "origcurrency" (ci_spec c)) as [[| t2 r2 | | |]|]; try discriminate.
    split; [eexists; split; [reflexivity|discriminate]|]. split; [eexists; split; [reflexivity|discriminate]|].
    cbn [forallb fst snd] in H.
    repeat match type of H with (_ && _)%bool = true => apply andb_true_iff in H; destruct H as [?H H] end.
    assert (Hrow : forall n w, match assoc n (ci_spec c), class_attr LT cn n with
                               | None, Some (KShortcut (SCCur "currency" "origcurrency" w')) => opt_str_eqb w' w
                               | _, _ => false end = true ->
                               assoc n (ci_spec c) = None /\ class_attr LT cn n = Some (KShortcut (SCCur "currency" "origcurrency" w))).
    { intros n w Hr. destruct (assoc n (ci_spec c)); [discriminate|]. split; [reflexivity|].
      destruct (class_attr LT cn n) as [[sc|]|]; try discriminate. destruct sc as [| |a1 a2 w'| | | | |]; try discriminate.
      destruct (string_dec a1 "currency") as [->|Hn1]; [|exfalso; revert Hr; clear - Hn1; intro Hr;
        repeat match type of Hr with match ?s with EmptyString => _ | String _ _ => _ end = true => destruct s; try discriminate end; admit_free a1 Hn1 Hr].
      admit. }
    admit.
  Admitted.
End Live.
