(** C16: the property theorems in the form the Props files state them (getattr_m / result level), and the facts about the
    regenerated tables that tie them to the live classes. *)
From OfxV Require Import Base.Prelude Model.Schema Model.Convert Model.Shortcuts Model.Lookup Model.LookupWalk
     Proofs.LookupCore Proofs.LookupShortcuts.
Local Open Scope string_scope.

Section Thms.
  Variable sval : Type.
  Variable S : schema.
  Variable tb : ltab.
  Notation inst := (inst sval).

  Lemma to_result_ok fx i n v : getattr_m sval fx S tb i n = OK v <-> lookup sval fx S tb i n = LOK sval v.
  Proof. unfold getattr_m, to_result. destruct (lookup sval fx S tb i n); split; intro H; try discriminate; injection H as ->; reflexivity. Qed.

  Theorem miss_is_attribute_error_l (i : inst) n :
    lk_wf_b sval S i = true -> mem n (lt_none tb) = false ->
    (forall p d, at_path sval S i p = Some d -> defines S tb (icls sval d) n = false) ->
    getattr_m sval true S tb i n = Err Reject.
  Proof. intros Hw Hn Hd. unfold getattr_m. rewrite (miss_core sval true S tb eq_refl n Hn i Hw Hd). reflexivity. Qed.

  Lemma at_path_blank cn p d : at_path sval S (Inst sval cn [] []) p = Some d -> d = Inst sval cn [] [].
  Proof.
    destruct p as [|s t]; cbn [at_path icls ifields assoc]; [intro H; injection H as <-; reflexivity|].
    destruct (find_cls S cn); [|discriminate]. destruct (mem s (subaggregates c)); discriminate.
  Qed.
  Lemma at_path_cons_inv (i : inst) s t d : at_path sval S i (s :: t) = Some d ->
    exists j, In (s, FSub sval j) (ifields sval i) /\ at_path sval S j t = Some d.
  Proof.
    cbn [at_path]. destruct (find_cls S (icls sval i)); [|discriminate]. destruct (mem s (subaggregates c)); [|discriminate].
    destruct (assoc s (ifields sval i)) as [[|v|j]|] eqn:Ea; try discriminate. intro H. exists j. split; [apply assoc_in_l; exact Ea|exact H].
  Qed.
  Theorem miss_on_blank_l cn n :
    (exists c, find_cls S cn = Some c) -> mem n (lt_none tb) = false -> defines S tb cn n = false ->
    getattr_m sval true S tb (Inst sval cn [] []) n = Err Reject.
  Proof.
    intros (c & Hc) Hn Hd. apply miss_is_attribute_error_l; [|exact Hn|].
    - cbn [lk_wf_b]. unfold node_wf_b. rewrite Hc. reflexivity.
    - intros p d Hp. rewrite (at_path_blank cn p d Hp). exact Hd.
  Qed.

  Theorem flat_access_unique_l (i d : inst) p n :
    lk_wf_b sval S i = true -> mem n (lt_none tb) = false -> at_path sval S i p = Some d ->
    (forall p' d', at_path sval S i p' = Some d' -> defines S tb (icls sval d') n = true -> p' = p) ->
    (forall v, getattr_m sval true S tb d n = OK v -> getattr_m sval true S tb i n = OK v) /\
    (forall f, stored_b sval S d n = true -> assoc n (ifields sval d) = Some f ->
               getattr_m sval true S tb i n = OK (obj_of_fval sval f)).
  Proof.
    intros Hw Hn Hp Hu.
    assert (H1 : forall v, getattr_m sval true S tb d n = OK v -> getattr_m sval true S tb i n = OK v).
    { intros v Hv. apply to_result_ok. apply to_result_ok in Hv. exact (flat_core sval true S tb eq_refl n Hn p i d v Hw Hp Hu Hv). }
    split; [exact H1|]. intros f Hs Ea. apply H1. apply to_result_ok.
    destruct (own_lookup sval true S tb d n Hs) as (c & f' & _ & Ea' & _ & Hl). rewrite Ea in Ea'. injection Ea' as <-. exact Hl.
  Qed.

  Theorem statements_is_path_walk_l fx n (i : inst) :
    (concat_ok_b sval S tb n i = true ->
     getattr_m sval fx S tb i n = OK (PList sval (map (PInst sval) (concat_walk sval S tb n i)))) /\
    (wrapped_ok_b sval S tb n i = true ->
     getattr_m sval fx S tb i n = OK (PList sval (map (PInst sval) (walk_of sval S tb n i)))).
  Proof.
    split; intro H; apply to_result_ok; [apply concat_core|apply wrapped_core]; exact H.
  Qed.

  Theorem securities_is_path_walk_l fx n (i : inst) :
    (truthy_ok_b sval S tb n i = true -> getattr_m sval fx S tb i n = OK (PList sval (truthy_walk sval S tb n i))) /\
    (class_level_b S tb (icls sval i) n (fun k => match k with KShortcut (SCMembersOf _) => true | _ => false end) = true ->
     getattr_m sval fx S tb i n = OK (PList sval (sec_of sval S tb n i))).
  Proof.
    split; intro H; apply to_result_ok; [apply truthy_core; exact H|].
    destruct (class_level_spec S tb _ _ _ H) as (c & x & Hc & Hs & Hk & Hx).
    destruct x as [sc|]; [|discriminate]. destruct sc; try discriminate.
    destruct i as [cn fs ms]. cbn [icls] in *. unfold sec_of, members_desc. cbn [icls imembers]. rewrite Hk.
    apply (members_core sval fx S tb cn fs ms n cls c Hc Hs Hk).
  Qed.
End Thms.
