(** The boolean validator run over real instances reflects the declarative predicate of ConvertSound. *)
From OfxV Require Import Base.Prelude Model.Schema Model.SchemaWf Model.Convert Model.Satisfies Proofs.ConvertSound.
Local Open Scope string_scope.

Section Refl.
  Variable sval : Type.
  Variable S : schema.

  Lemma forall2b_spec {A B} (f : A -> B -> bool) (P : A -> B -> Prop) :
    (forall a b, f a b = true <-> P a b) -> forall l l', forall2b f l l' = true <-> Forall2 P l l'.
  Proof.
    intros H. induction l as [|a l IH]; intros [|b l']; cbn [forall2b]; split; intro F; try discriminate; try constructor; try (inversion F; fail).
    - apply andb_true_iff in F. destruct F as [F1 F2]. apply H. exact F1.
    - apply andb_true_iff in F. destruct F as [F1 F2]. apply IH. exact F2.
    - inversion F; subst. apply andb_true_iff. split; [apply H; assumption|apply IH; assumption].
  Qed.

  Lemma field_decl_okb_spec ka f : field_decl_okb sval S ka f = true <-> field_decl_ok sval S ka f.
  Proof.
    unfold field_decl_okb, field_decl_ok. rewrite andb_true_iff. rewrite String.eqb_eq.
    destruct (snd ka) as [t req|target req|target|t|], (snd f) as [|v|j]; try (split; [intros [_ H]; discriminate|intros [_ []]]);
      try (destruct req; cbn; split; intros [H1 H2]; split; try assumption; try reflexivity; try discriminate);
      try (split; intros [H1 H2]; split; try assumption; try reflexivity; try exact I).
  Qed.

  Lemma member_decl_okb_spec c m : member_decl_okb sval c m = true <-> member_decl_ok sval c m.
  Proof.
    destruct m as [j|s|v]; cbn [member_decl_okb member_decl_ok].
    - rewrite andb_true_iff, negb_true_iff. tauto.
    - split; [discriminate|intros []].
    - tauto.
  Qed.

  Theorem satisfies_b_reflects_l i : satisfies_b sval S i = true <-> satisfies sval S i.
  Proof.
    unfold satisfies_b, satisfies. destruct (find_cls S (icls sval i)) as [c|].
    2:{ split; [discriminate|intros (c & Hc & _); discriminate]. }
    rewrite !andb_true_iff, (forall2b_spec _ _ field_decl_okb_spec), !forallb_forall. split.
    - intros [[[H1 H2] H3] H4]. exists c. split; [reflexivity|]. split; [exact H1|]. split; [|split].
      + apply Forall_forall. intros m Hm. apply member_decl_okb_spec. apply H2. exact Hm.
      + apply Forall_forall. intros g Hg. apply Nat.leb_le. apply (H3 g Hg).
      + apply Forall_forall. intros g Hg. apply Nat.eqb_eq. apply (H4 g Hg).
    - intros (c' & Hc & H1 & H2 & H3 & H4). injection Hc as <-. rewrite Forall_forall in H2, H3, H4. repeat split.
      + exact H1.
      + intros m Hm. apply member_decl_okb_spec. apply H2. exact Hm.
      + intros g Hg. apply Nat.leb_le. apply (H3 g Hg).
      + intros g Hg. apply Nat.eqb_eq. apply (H4 g Hg).
  Qed.
End Refl.
