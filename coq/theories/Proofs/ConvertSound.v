(** C04: every declared constraint is enforced on both construction routes.
    [construct_ok_iff] characterises acceptance exactly (soundness and completeness of the checks);
    [construct_sound] / [from_etree_sound]: every instance that exists satisfies the declarative reading
    [satisfies] of its class's declarations - for EVERY class table and converter oracle. *)
From OfxV Require Import Base.Prelude Model.Schema Model.SchemaWf Model.Convert.
From Coq Require Import Lia.
Local Open Scope string_scope.

Section Sound.
  Variable sval : Type.
  Variable conv : N -> sin sval -> result (option sval).
  Variable S : schema.
  Notation inst := (inst sval).
  Notation fval := (fval sval).
  Notation member := (member sval).
  Notation kwval := (kwval sval).
  Notation construct := (construct sval conv S).
  Notation from_etree := (from_etree sval conv S).
  Notation set_field := (set_field sval conv S).
  Notation set_fields := (set_fields sval conv S).
  Notation apply_args := (apply_args sval conv).

  Definition hook_ok (c : cinfo) (args : list kwval) (kw : list (string * kwval)) : bool :=
    match ci_hook c with Some h => run_hook sval h args kw | None => true end.
  Definition optmx_ok (c : cinfo) (kw : list (string * kwval)) : bool :=
    forallb (fun g => Nat.leb (count_present sval kw g) 1) (ci_optmx c).
  Definition reqmx_ok (c : cinfo) (kw : list (string * kwval)) : bool :=
    forallb (fun g => Nat.eqb (count_present sval kw g) 1) (ci_reqmx c).
  Definition residual_ok (c : cinfo) (kw : list (string * kwval)) : bool :=
    forallb (fun k => mem k (map fst (spec_no_list c))) (map fst kw).

  (** exact characterisation of acceptance by the constructor *)
  Theorem construct_ok_iff cn args kw i :
    construct cn args kw = OK i <->
    exists c fields members,
      find_cls S cn = Some c /\ hook_ok c args kw = true /\ optmx_ok c kw = true /\ reqmx_ok c kw = true
      /\ set_fields kw (spec_no_list c) = OK fields /\ apply_args c args = OK members
      /\ residual_ok c kw = true /\ i = Inst sval cn fields members.
  Proof.
    unfold Convert.construct, hook_ok, optmx_ok, reqmx_ok, residual_ok. split.
    - destruct (find_cls S cn) as [c|]; [|discriminate].
      destruct (match ci_hook c with Some h => run_hook sval h args kw | None => true end) eqn:Eh; cbn [negb]; [|discriminate].
      destruct (forallb (fun g => Nat.leb (count_present sval kw g) 1) (ci_optmx c)) eqn:Eo; cbn [negb]; [|discriminate].
      destruct (forallb (fun g => Nat.eqb (count_present sval kw g) 1) (ci_reqmx c)) eqn:Er; cbn [negb]; [|discriminate].
      destruct (set_fields kw (spec_no_list c)) as [fs|k] eqn:Ef; cbn [bind]; [|discriminate].
      destruct (apply_args c args) as [ms|k] eqn:Ea; cbn [bind]; [|discriminate].
      destruct (forallb (fun k => mem k (map fst (spec_no_list c))) (map fst kw)) eqn:Ers; [|discriminate].
      intro H. injection H as <-. exists c, fs, ms. repeat split; assumption.
    - intros (c & fs & ms & Hc & Hh & Ho & Hr & Hf & Ha & Hrs & ->).
      rewrite Hc, Hh, Ho, Hr. cbn [negb]. rewrite Hf. cbn [bind]. rewrite Ha. cbn [bind]. rewrite Hrs. reflexivity.
  Qed.

  (** ---- what one accepted field looks like ---- *)
  Definition kwget (kw : list (string * kwval)) (k : string) : kwval := match assoc k kw with Some v => v | None => KNone sval end.
  Definition field_rel (kw : list (string * kwval)) (ka : string * attr) (f : string * fval) : Prop :=
    fst f = fst ka /\
    match snd ka with
    | AUnsupported => snd f = FNone sval
    | ASub target req =>
      match kwget kw (fst ka) with
      | KNone _ => req = false /\ snd f = FNone sval
      | KInst _ j => isinstance sval S j target = true /\ snd f = FSub sval j
      | _ => False
      end
    | AElem t req =>
      match kwget kw (fst ka) with
      | KNone _ => req = false /\ snd f = FNone sval
      | KText _ s => (exists x, conv t (SText sval s) = OK (Some x) /\ snd f = FVal sval x) \/ (conv t (SText sval s) = OK None /\ snd f = FNone sval)
      | KNat _ v => (exists x, conv t (SNat sval v) = OK (Some x) /\ snd f = FVal sval x) \/ (conv t (SNat sval v) = OK None /\ snd f = FNone sval)
      | KInst _ _ => False
      end
    | _ => False
    end.

  Lemma set_field_rel kw ka f : set_field kw ka = OK f -> field_rel kw ka f.
  Proof.
    destruct ka as [k a]. unfold Convert.set_field, field_rel, kwget. cbn [fst snd].
    destruct a as [t req|target req|target|t|].
    - destruct (match assoc k kw with Some v => v | None => KNone sval end) as [|s|v|j].
      + destruct req; [discriminate|]. intro H; injection H as <-. cbn. auto.
      + destruct (conv t (SText sval s)) as [[x|]|e]; try discriminate; intro H; injection H as <-; cbn; split; auto. left; eauto.
      + destruct (conv t (SNat sval v)) as [[x|]|e]; try discriminate; intro H; injection H as <-; cbn; split; auto. left; eauto.
      + discriminate.
    - destruct (match assoc k kw with Some v => v | None => KNone sval end) as [|s|v|j]; try discriminate.
      + destruct req; [discriminate|]. intro H; injection H as <-. cbn. auto.
      + destruct (isinstance sval S j target) eqn:E; [|discriminate]. intro H; injection H as <-. cbn. auto.
    - discriminate.
    - discriminate.
    - intro H; injection H as <-. cbn. auto.
  Qed.

  Lemma set_fields_rel kw sp : forall fs, set_fields kw sp = OK fs -> Forall2 (field_rel kw) sp fs.
  Proof.
    induction sp as [|ka sp IH]; intros fs H; cbn [Convert.set_fields] in H.
    - injection H as <-. constructor.
    - destruct (set_field kw ka) as [f|e] eqn:Ef; cbn [bind] in H; [|discriminate].
      destruct (set_fields kw sp) as [r|e] eqn:Er; cbn [bind] in H; [|discriminate].
      injection H as <-. constructor; [apply set_field_rel; exact Ef|apply IH; reflexivity].
  Qed.

  (** ---- the declarative reading of a class's declarations, on an instance ---- *)
  Definition field_present (fs : list (string * fval)) (k : string) : bool :=
    match assoc k fs with Some (FNone _) | None => false | Some _ => true end.
  Definition field_decl_ok (ka : string * attr) (f : string * fval) : Prop :=
    fst f = fst ka /\
    match snd ka, snd f with
    | AUnsupported, FNone _ => True
    | ASub _ req, FNone _ | AElem _ req, FNone _ => req = false          (* required children are present *)
    | ASub target _, FSub _ j => isinstance sval S j target = true        (* of the declared class *)
    | AElem _ _, FVal _ _ => True                                          (* a value the converter produced *)
    | _, _ => False
    end.
  Definition member_decl_ok (c : cinfo) (m : member) : Prop :=
    match m with
    | MAgg _ j => ci_elist c = false /\ mem (lower (icls sval j)) (listaggregates c) = true   (* permitted list member types *)
    | MStr _ _ => False                                 (* a bare str is never a list member of an aggregate *)
    | MVal _ _ => ci_elist c = true
    end.
  Definition satisfies (i : inst) : Prop :=
    exists c, find_cls S (icls sval i) = Some c
      /\ Forall2 field_decl_ok (spec_no_list c) (ifields sval i)
      /\ Forall (member_decl_ok c) (imembers sval i)
      /\ Forall (fun g => (List.length (filter (field_present (ifields sval i)) g) <= 1)%nat) (ci_optmx c)
      /\ Forall (fun g => List.length (filter (field_present (ifields sval i)) g) = 1%nat) (ci_reqmx c).

  (** ---- hypotheses on the converter oracle (what the real converters do; checked by the correspondence runs):
           only the empty string converts to None, and never for a required element ---- *)
  Definition conv_none_only_empty : Prop :=
    (forall t s, conv t (SText sval s) = OK None -> s = []) /\ (forall t v, conv t (SNat sval v) <> OK None).
  Definition no_empty_text (kw : list (string * kwval)) : Prop :=
    forall k, assoc k kw <> Some (KText sval []).
  (** ... or, for ANY keyword arguments (empty strings included): what the real converters do with "": never a value, and refused
      where the class requires the element (checked on every real converter by the correspondence run) *)
  Definition conv_empty_never_value : Prop := forall t x, conv t (SText sval []) <> OK (Some x).
  Definition conv_required_refuses_empty (c : cinfo) : Prop :=
    forall k t, In (k, AElem t true) (spec_no_list c) -> conv t (SText sval []) <> OK None.
  (** either way an empty text among the keywords does no harm *)
  Definition empties_harmless (c : cinfo) (kw : list (string * kwval)) : Prop :=
    no_empty_text kw \/ (conv_empty_never_value /\ conv_required_refuses_empty c).

  Lemma field_rel_decl c kw ka f : conv_none_only_empty -> empties_harmless c kw -> In ka (spec_no_list c) -> field_rel kw ka f -> field_decl_ok ka f.
  Proof.
    intros [H1 H2] Hne Hin. destruct ka as [k a], f as [k' v]. unfold field_rel, field_decl_ok, kwget. cbn [fst snd]. intros [-> H]. split; [reflexivity|].
    destruct a as [t req|target req|target|t|]; try contradiction.
    - destruct (assoc k kw) as [[|s|x|j]|] eqn:Ek; try contradiction.
      + destruct H as [-> ->]. reflexivity.
      + destruct H as [(x & _ & ->)|[Hn ->]]; [exact I|]. pose proof (H1 _ _ Hn) as Hs. subst s.
        destruct Hne as [Hne|[_ Hreq]]; [exfalso; exact (Hne k Ek)|].
        destruct req; [|reflexivity]. exfalso. exact (Hreq k t Hin Hn).
      + destruct H as [(y & _ & ->)|[Hn ->]]; [exact I|]. exfalso. exact (H2 _ _ Hn).
      + destruct H as [-> ->]. reflexivity.
    - destruct (assoc k kw) as [[|s|x|j]|] eqn:Ek; try contradiction.
      + destruct H as [-> ->]. reflexivity.
      + destruct H as [Hi ->]. exact Hi.
      + destruct H as [-> ->]. reflexivity.
    - rewrite H. exact I.
  Qed.

  Lemma forall2_impl_in {A B} (P Q : A -> B -> Prop) l l' : (forall a b, In a l -> P a b -> Q a b) -> Forall2 P l l' -> Forall2 Q l l'.
  Proof.
    intros H F. induction F as [|a b l l' Hab F IH]; constructor.
    - apply H; [left; reflexivity|exact Hab].
    - apply IH. intros a' b' Hin. apply H. right. exact Hin.
  Qed.

  Lemma forall2_impl {A B} (P Q : A -> B -> Prop) l l' : (forall a b, P a b -> Q a b) -> Forall2 P l l' -> Forall2 Q l l'.
  Proof. intros H F. induction F; constructor; auto. Qed.

  (** looking a field up by name, given unique attribute names *)
  Lemma forall2_assoc kw sp : forall fs, Forall2 (field_rel kw) sp fs -> NoDup (map fst sp) ->
    forall k a, In (k, a) sp -> exists v, assoc k fs = Some v /\ field_rel kw (k, a) (k, v).
  Proof.
    induction sp as [|[k0 a0] sp IH]; intros fs F Hnd k a Hin; [contradiction|].
    inversion F as [|? [k1 v1] ? fs' Hr F']; subst. cbn [map fst] in Hnd. inversion Hnd as [|? ? Hni Hnd']; subst.
    assert (Hk : k1 = k0) by (destruct Hr as [Hr _]; exact Hr). subst k1.
    destruct Hin as [E|Hin].
    - injection E as -> ->. exists v1. cbn [assoc]. rewrite String.eqb_refl. split; [reflexivity|exact Hr].
    - destruct (IH fs' F' Hnd' k a Hin) as (v & Hv & Hrel). exists v. cbn [assoc].
      destruct (String.eqb_spec k k0) as [->|_]; [|split; assumption].
      exfalso. apply Hni. change k0 with (fst (k0, a)). apply in_map. exact Hin.
  Qed.

  Lemma assoc_in {A} k (l : list (string * A)) v : assoc k l = Some v -> In (k, v) l.
  Proof.
    induction l as [|[k' v'] l IH]; cbn [assoc]; [discriminate|].
    destruct (String.eqb_spec k k') as [->|_]; [intro H; injection H as ->; left; reflexivity|]. intro H. right. apply IH. exact H.
  Qed.

  (** presence of a group member on the instance = presence of its keyword *)
  Lemma present_agree c kw fs m :
    conv_none_only_empty -> empties_harmless c kw -> NoDup (map fst (ci_spec c)) ->
    Forall2 (field_rel kw) (spec_no_list c) fs -> mutex_member_ok c m = true ->
    field_present fs m = kw_notnone sval kw m.
  Proof.
    intros [H1 H2] Hne Hnd F Hm. unfold mutex_member_ok in Hm.
    destruct (assoc m (ci_spec c)) as [a|] eqn:Ea; [|discriminate].
    assert (Hin : In (m, a) (spec_no_list c)).
    { unfold spec_no_list. apply filter_In. split; [apply assoc_in; exact Ea|]. cbn [snd]. destruct a; try discriminate; reflexivity. }
    assert (Hnd' : NoDup (map fst (spec_no_list c))).
    { unfold spec_no_list. clear -Hnd. induction (ci_spec c) as [|[k a'] l IH]; cbn [filter map]; [constructor|].
      cbn [map fst] in Hnd. inversion Hnd as [|? ? Hni Hnd']; subst.
      destruct (negb (is_list_attr (snd (k, a')))); [|apply IH; exact Hnd'].
      cbn [map fst]. constructor; [|apply IH; exact Hnd']. intro Hc. apply Hni.
      clear -Hc. induction l as [|[k2 a2] l IHl]; cbn [filter map] in *; [contradiction|].
      destruct (negb (is_list_attr (snd (k2, a2)))); cbn [map fst In] in *; [destruct Hc as [->|Hc]; [left; reflexivity|right; apply IHl; exact Hc]|right; apply IHl; exact Hc]. }
    destruct (forall2_assoc kw _ _ F Hnd' m a Hin) as (v & Hv & Hrel).
    unfold field_present, kw_notnone. rewrite Hv. unfold field_rel, kwget in Hrel. cbn [fst snd] in Hrel. destruct Hrel as [_ Hrel].
    destruct a as [t req|target req|target|t|]; try discriminate.
    - destruct (assoc m kw) as [[|s|x|j]|] eqn:Ek; try contradiction.
      + destruct Hrel as [_ ->]. reflexivity.
      + destruct s as [|ch s].
        * destruct Hne as [Hne|[Hnv _]]; [exfalso; exact (Hne m Ek)|].
          destruct Hrel as [(x & Hx & _)|[_ ->]]; [exfalso; exact (Hnv _ _ Hx)|reflexivity].
        * destruct Hrel as [(x & _ & ->)|[Hn ->]]; [reflexivity|]. apply H1 in Hn. discriminate.
      + destruct Hrel as [(y & _ & ->)|[Hn ->]]; [reflexivity|]. exfalso. exact (H2 _ _ Hn).
      + destruct Hrel as [_ ->]. reflexivity.
    - destruct (assoc m kw) as [[|s|x|j]|] eqn:Ek; try contradiction.
      + destruct Hrel as [_ ->]. reflexivity.
      + destruct Hrel as [_ ->]. reflexivity.
      + destruct Hrel as [_ ->]. reflexivity.
  Qed.

  Definition groups_wf (c : cinfo) : Prop :=
    NoDup (map fst (ci_spec c)) /\ forallb (fun g => forallb (mutex_member_ok c) g) (ci_optmx c ++ ci_reqmx c) = true.

  Lemma map_res_forall {A B} (f : A -> result B) (P : B -> Prop) :
    (forall x y, f x = OK y -> P y) -> forall l r, Convert.map_res f l = OK r -> Forall P r.
  Proof.
    intros Hf. induction l as [|x l IH]; intros r H; cbn [Convert.map_res] in H.
    - injection H as <-. constructor.
    - destruct (f x) as [y|e] eqn:Ey; cbn [bind] in H; [|discriminate].
      destruct (Convert.map_res f l) as [r'|e] eqn:Er; cbn [bind] in H; [|discriminate].
      injection H as <-. constructor; [eapply Hf; exact Ey|apply IH; reflexivity].
  Qed.

  Lemma apply_args_members c args ms : apply_args c args = OK ms -> Forall (member_decl_ok c) ms.
  Proof.
    unfold Convert.apply_args. destruct (ci_elist c) eqn:El.
    - destruct (filter (fun ka => is_listelem (snd ka)) (ci_spec c)) as [|[k a] l]; [discriminate|].
      destruct a as [| | |t|]; try discriminate. destruct l; [|discriminate].
      apply map_res_forall. intros x y Hy. unfold apply_arg_elist in Hy.
      destruct x as [|s|v|j]; try discriminate.
      + destruct (conv t (SText sval s)); cbn in Hy; [injection Hy as <-; exact El|discriminate].
      + destruct (conv t (SNat sval v)); cbn in Hy; [injection Hy as <-; exact El|discriminate].
    - apply map_res_forall. intros x y Hy. unfold apply_arg_plain in Hy.
      destruct x as [|s|v|j]; try discriminate.
      destruct (mem (lower (icls sval j)) (listaggregates c)) eqn:Emem; [|discriminate]. injection Hy as <-. split; [exact El|exact Emem].
  Qed.

  (** keyword route: "every instance that exists satisfies all constraints of its class" *)
  Theorem construct_sound_gen_l cn args kw i :
    conv_none_only_empty -> (forall c, find_cls S cn = Some c -> empties_harmless c kw) -> (forall c, find_cls S cn = Some c -> groups_wf c) ->
    construct cn args kw = OK i -> satisfies i.
  Proof.
    intros Hc Hne0 Hwf H. apply construct_ok_iff in H.
    destruct H as (c & fs & ms & Hcls & Hh & Ho & Hr & Hf & Ha & Hrs & ->).
    pose proof (Hne0 c Hcls) as Hne.
    destruct (Hwf c Hcls) as [Hnd Hg]. exists c. cbn [icls ifields imembers]. split; [exact Hcls|].
    pose proof (set_fields_rel _ _ _ Hf) as F.
    rewrite forallb_app in Hg. apply andb_true_iff in Hg. destruct Hg as [Hgo Hgr].
    split; [|split; [|split]].
    - eapply forall2_impl_in; [|exact F]. intros a b Hin. apply (field_rel_decl c); assumption.
    - apply (apply_args_members c args ms Ha).
    - apply Forall_forall. intros g Hg. unfold optmx_ok in Ho. rewrite forallb_forall in Ho, Hgo. specialize (Ho g Hg). specialize (Hgo g Hg).
      apply Nat.leb_le in Ho. unfold count_present in Ho.
      rewrite (filter_ext_in (field_present fs) (kw_notnone sval kw) g); [exact Ho|].
      intros m Hm. rewrite forallb_forall in Hgo. apply (present_agree c kw fs m Hc Hne Hnd F (Hgo m Hm)).
    - apply Forall_forall. intros g Hg. unfold reqmx_ok in Hr. rewrite forallb_forall in Hr, Hgr. specialize (Hr g Hg). specialize (Hgr g Hg).
      apply Nat.eqb_eq in Hr. unfold count_present in Hr.
      rewrite (filter_ext_in (field_present fs) (kw_notnone sval kw) g); [exact Hr|].
      intros m Hm. rewrite forallb_forall in Hgr. apply (present_agree c kw fs m Hc Hne Hnd F (Hgr m Hm)).
  Qed.

  (** keyword route: "every instance that exists satisfies all constraints of its class" - for keyword arguments without an empty
      string (what conversion from a tree passes) ... *)
  Theorem construct_sound_l cn args kw i :
    conv_none_only_empty -> no_empty_text kw -> (forall c, find_cls S cn = Some c -> groups_wf c) ->
    construct cn args kw = OK i -> satisfies i.
  Proof. intros Hc Hne. apply construct_sound_gen_l; [exact Hc|]. intros c _. left. exact Hne. Qed.

  (** ... and for ANY keyword arguments, empty strings included, given what the real converters do with "" *)
  Theorem construct_sound_any_kw_l cn args kw i :
    conv_none_only_empty -> conv_empty_never_value -> (forall c, find_cls S cn = Some c -> conv_required_refuses_empty c) ->
    (forall c, find_cls S cn = Some c -> groups_wf c) ->
    construct cn args kw = OK i -> satisfies i.
  Proof. intros Hc Hv Hq. apply construct_sound_gen_l; [exact Hc|]. intros c Hcls. right. split; [exact Hv|exact (Hq c Hcls)]. Qed.

  (** ---- each violation, stated directly on the input, is rejected (keyword route) ---- *)
  Lemma not_ok_err {A} (r : result A) : (forall a, r <> OK a) -> exists k, r = Err k.
  Proof. destruct r as [a|k]; [intro H; exfalso; exact (H a eq_refl)|eauto]. Qed.

  Lemma set_fields_in kw sp fs ka : set_fields kw sp = OK fs -> In ka sp -> exists f, set_field kw ka = OK f.
  Proof.
    revert fs. induction sp as [|x sp IH]; intros fs H Hin; [contradiction|]. cbn [Convert.set_fields] in H.
    destruct (set_field kw x) as [f|e] eqn:Ef; cbn [bind] in H; [|discriminate].
    destruct (set_fields kw sp) as [r|e] eqn:Er; cbn [bind] in H; [|discriminate].
    destruct Hin as [<-|Hin]; [eauto|]. eapply IH; [reflexivity|exact Hin].
  Qed.

  Theorem missing_required_rejected_l cn c args kw k a :
    find_cls S cn = Some c -> In (k, a) (spec_no_list c) ->
    (match a with AElem _ req | ASub _ req => req | _ => false end) = true ->
    kwget kw k = KNone sval -> exists e, construct cn args kw = Err e.
  Proof.
    intros Hc Hin Hreq Hk. apply not_ok_err. intros i H. apply construct_ok_iff in H.
    destruct H as (c' & fs & ms & Hc' & _ & _ & _ & Hf & _). rewrite Hc in Hc'. injection Hc' as <-.
    destruct (set_fields_in _ _ _ _ Hf Hin) as (f & Hsf). unfold Convert.set_field in Hsf. unfold kwget in Hk.
    destruct a as [t req|target req| | |]; try discriminate; cbn in Hreq; subst req; rewrite Hk in Hsf; discriminate.
  Qed.

  Theorem two_of_group_rejected_l cn c args kw g :
    find_cls S cn = Some c -> In g (ci_optmx c ++ ci_reqmx c) -> (2 <= count_present sval kw g)%nat ->
    exists e, construct cn args kw = Err e.
  Proof.
    intros Hc Hg Hn. apply not_ok_err. intros i H. apply construct_ok_iff in H.
    destruct H as (c' & fs & ms & Hc' & _ & Ho & Hr & _). rewrite Hc in Hc'. injection Hc' as <-.
    apply in_app_or in Hg. destruct Hg as [Hg|Hg].
    - unfold optmx_ok in Ho. rewrite forallb_forall in Ho. specialize (Ho g Hg). apply Nat.leb_le in Ho. lia.
    - unfold reqmx_ok in Hr. rewrite forallb_forall in Hr. specialize (Hr g Hg). apply Nat.eqb_eq in Hr. lia.
  Qed.

  Theorem none_of_required_group_rejected_l cn c args kw g :
    find_cls S cn = Some c -> In g (ci_reqmx c) -> count_present sval kw g = 0%nat ->
    exists e, construct cn args kw = Err e.
  Proof.
    intros Hc Hg Hn. apply not_ok_err. intros i H. apply construct_ok_iff in H.
    destruct H as (c' & fs & ms & Hc' & _ & _ & Hr & _). rewrite Hc in Hc'. injection Hc' as <-.
    unfold reqmx_ok in Hr. rewrite forallb_forall in Hr. specialize (Hr g Hg). apply Nat.eqb_eq in Hr. lia.
  Qed.

  Theorem unknown_keyword_rejected_l cn c args kw k :
    find_cls S cn = Some c -> In k (map fst kw) -> mem k (map fst (spec_no_list c)) = false ->
    exists e, construct cn args kw = Err e.
  Proof.
    intros Hc Hin Hm. apply not_ok_err. intros i H. apply construct_ok_iff in H.
    destruct H as (c' & fs & ms & Hc' & _ & _ & _ & _ & _ & Hrs & _). rewrite Hc in Hc'. injection Hc' as <-.
    unfold residual_ok in Hrs. rewrite forallb_forall in Hrs. rewrite (Hrs k Hin) in Hm. discriminate.
  Qed.

  Lemma map_res_in {A B} (f : A -> result B) l r x : Convert.map_res f l = OK r -> In x l -> exists y, f x = OK y.
  Proof.
    revert r. induction l as [|a l IH]; intros r H Hin; [contradiction|]. cbn [Convert.map_res] in H.
    destruct (f a) as [y|e] eqn:Ey; cbn [bind] in H; [|discriminate].
    destruct (Convert.map_res f l) as [r'|e] eqn:Er; cbn [bind] in H; [|discriminate].
    destruct Hin as [<-|Hin]; [eauto|]. eapply IH; [reflexivity|exact Hin].
  Qed.

  (** a list member of a class that is not one of the declared repeated children *)
  Theorem foreign_member_rejected_l cn c args kw j :
    find_cls S cn = Some c -> ci_elist c = false -> In (KInst sval j) args -> mem (lower (icls sval j)) (listaggregates c) = false ->
    exists e, construct cn args kw = Err e.
  Proof.
    intros Hc Hel Hin Hm. apply not_ok_err. intros i H. apply construct_ok_iff in H.
    destruct H as (c' & fs & ms & Hc' & _ & _ & _ & _ & Ha & _). rewrite Hc in Hc'. injection Hc' as <-.
    unfold Convert.apply_args in Ha. rewrite Hel in Ha. destruct (map_res_in _ _ _ _ Ha Hin) as (y & Hy).
    unfold apply_arg_plain in Hy. rewrite Hm in Hy. discriminate.
  Qed.

  (** a value its converter refuses (over-long string, too many digits, foreign token, malformed text ...) *)
  Theorem converter_error_rejected_l cn c args kw k t req x e0 :
    find_cls S cn = Some c -> In (k, AElem t req) (spec_no_list c) ->
    (kwget kw k = KText sval x /\ conv t (SText sval x) = Err e0) ->
    exists e, construct cn args kw = Err e.
  Proof.
    intros Hc Hin [Hk Hv]. apply not_ok_err. intros i H. apply construct_ok_iff in H.
    destruct H as (c' & fs & ms & Hc' & _ & _ & _ & Hf & _). rewrite Hc in Hc'. injection Hc' as <-.
    destruct (set_fields_in _ _ _ _ Hf Hin) as (f & Hsf). unfold Convert.set_field in Hsf. unfold kwget in Hk. rewrite Hk, Hv in Hsf. discriminate.
  Qed.

  (** a sub-aggregate of the wrong class *)
  Theorem wrong_subaggregate_rejected_l cn c args kw k target req j :
    find_cls S cn = Some c -> In (k, ASub target req) (spec_no_list c) ->
    kwget kw k = KInst sval j -> isinstance sval S j target = false ->
    exists e, construct cn args kw = Err e.
  Proof.
    intros Hc Hin Hk Hi. apply not_ok_err. intros i H. apply construct_ok_iff in H.
    destruct H as (c' & fs & ms & Hc' & _ & _ & _ & Hf & _). rewrite Hc in Hc'. injection Hc' as <-.
    destruct (set_fields_in _ _ _ _ Hf Hin) as (f & Hsf). unfold Convert.set_field in Hsf. unfold kwget in Hk. rewrite Hk, Hi in Hsf. discriminate.
  Qed.
End Sound.
