(** C01 over BYTES, version-2 (XML) files: four engines composed.  A valid instance written by to_etree, serialised by the html
    writer (plain or pretty-printed), UTF-8 encoded and placed after ANY tolerated version-2 header layout, is handed over by
    parse_header as exactly the serialised text (Header engine, C05), which the tokenizer and tree builder turn into the tree
    (Sgml/Serialize engine, C02) that from_etree converts back into the very same instance (schema engine). *)
From OfxV Require Import Base.Prelude Base.Digits Base.SgmlBase Model.Schema Model.Convert Model.Sgml Model.SgmlSpec Model.Serialize
     Model.Header Model.HeaderLayout Gen.HeaderGen Gen.SgmlGen
     Proofs.SgmlFaithful Proofs.SerializeProofs Proofs.HeaderParse Proofs.HeaderCodec Proofs.HeaderExact Proofs.RoundTrip3 Proofs.RoundTrip5 Proofs.WireRoundTrip.
Local Open Scope N_scope.

(** Unicode scalar values only (what a Python str of real text holds): both engines' UTF-8 encoders agree on them *)
Definition scalar_text (s : text) : bool := forallb (fun c => negb (is_surrogate c) && (c <? 1114112)) s.

Lemma utf8_encoders_agree s : scalar_text s = true -> utf8_enc s = Some (utf8_xcr s).
Proof.
  induction s as [|c s IH]; intro H; [reflexivity|]. cbn [scalar_text forallb] in H. apply andb_true_iff in H. destruct H as [Hc Hs].
  apply andb_true_iff in Hc. destruct Hc as [Hsur Hmax]. cbn [utf8_enc utf8_xcr]. rewrite (IH Hs).
  apply negb_true_iff in Hsur. rewrite Hsur.
  unfold utf8_enc1, utf8_point. unfold is_surrogate in Hsur.
  destruct (c <? 128); [reflexivity|]. destruct (c <? 2048); [reflexivity|].
  destruct (c <? 65536); [rewrite Hsur; reflexivity|]. rewrite Hmax. reflexivity.
Qed.

(** the html writer's text for a root element: '<' ... '>' followed by the root's tail *)
Lemma html_root_shape he t x tl ch : Serialize.mem_text (Serialize.lower_ascii t) he = false ->
  exists core, html_text he (INode t x tl ch) = (core ++ (if Serialize.truthy tl then Serialize.escape_cdata (Serialize.or_empty tl) else []))%list /\ body_ok core = true.
Proof.
  intro Hm. cbn [html_text]. rewrite Hm.
  match goal with |- exists core, ([60] ++ t ++ [62] ++ ?a ++ ?b ++ ([60; 47] ++ t ++ [62]) ++ ?tl)%list = _ /\ _ =>
    exists (([60] ++ t ++ [62] ++ a ++ b ++ [60; 47] ++ t) ++ [62])%list end.
  split.
  - rewrite <- !app_assoc. reflexivity.
  - match goal with |- body_ok (([60] ++ ?m) ++ [62])%list = true => generalize m; intro m' end.
    change (([60] ++ m') ++ [62])%list with (60 :: (m' ++ [62]))%list. unfold body_ok. cbn [rev]. rewrite rev_unit. reflexivity.
Qed.

(** the root the writers hand to the serialiser: no tail (plain) or a newline (utils.indent at level 0) *)
Lemma root_text_shape e (pretty : bool) : ser_ok html_empty e = true ->
  exists core trail, html_text html_empty (if pretty then indent 0%nat (embed e) else embed e) = (core ++ trail)%list
                     /\ body_ok core = true /\ all_ws trail = true.
Proof.
  destruct e as [t x ch]. intro Hs. cbn [ser_ok] in Hs. apply andb_true_iff in Hs. destruct Hs as [Ht _].
  unfold tag_ok in Ht. apply andb_true_iff in Ht. destruct Ht as [_ Ht]. apply negb_true_iff in Ht.
  cbn [Serialize.mem_text existsb] in Ht. apply orb_false_iff in Ht. destruct Ht as [_ Ht]. apply orb_false_iff in Ht. destruct Ht as [_ Hm].
  change (Serialize.mem_text (Serialize.lower_ascii t) html_empty = false) in Hm.
  cbn [embed]. destruct pretty.
  - cbn [indent]. destruct (map embed ch) as [|c r].
    + destruct (html_root_shape html_empty t x None [] Hm) as [core [E B]]. exists core, []. cbn [negb Nat.eqb andb]. rewrite E. auto.
    + match goal with |- exists core trail, html_text _ (INode t ?x' ?tl' ?ch') = _ /\ _ /\ _ =>
        destruct (html_root_shape html_empty t x' tl' ch' Hm) as [core [E B]] end.
      exists core, [10]. rewrite E. split; [reflexivity|auto].
  - destruct (html_root_shape html_empty t x None (map embed ch) Hm) as [core [E B]]. exists core, []. rewrite E. auto.
Qed.

(** * what .strip() leaves of a rendering: the root's trailing white space goes, the rest is still a rendering of the same document *)
Definition drop_ws (r : rdoc) : rdoc :=
  match r with RAgg t a ch _ => RAgg t a ch [] | RLeaf t cd w1 x w2 cl _ => RLeaf t cd w1 x w2 cl [] end.
Definition last_ws (r : rdoc) : text := match r with RAgg _ _ _ w => w | RLeaf _ _ _ _ _ _ w => w end.
Definition ends_tag (r : rdoc) : bool := match r with RAgg _ _ _ _ => true | RLeaf _ _ _ _ _ cl _ => cl end.

Ltac norm_app := repeat first [rewrite <- app_assoc | rewrite app_nil_r | progress cbn [app]].
Lemma render_drop r : render_toks (flatten r) = (render_toks (flatten (drop_ws r)) ++ last_ws r)%list.
Proof.
  destruct r as [t a [|c ch] w|t cd w1 x w2 cl w3]; cbn [drop_ws last_ws flatten]; unfold render_toks; cbn [flat_map];
    rewrite ?flat_map_app; cbn [flat_map render_tok]; unfold endtag; norm_app; try reflexivity.
Qed.

Lemma drop_ok r d : ok_rendering [] r d -> ok_rendering [] (drop_ws r) d.
Proof.
  intros (E & R & B). split; [|split; [|exact B]].
  - destruct r; exact E.
  - destruct r as [t a ch w|t cd w1 x w2 cl w3]; cbn [drop_ws rend_ok] in *.
    + rewrite !andb_true_iff in *. destruct R as [[[R1 R2] R3] R4]. repeat split; assumption.
    + rewrite !andb_true_iff in *. destruct R as [[[R1 R2] R3] R4]. repeat split; assumption.
Qed.

Lemma body_ok_wrap m : body_ok (60 :: m ++ [62])%list = true.
Proof. unfold body_ok. cbn [rev]. rewrite rev_unit. reflexivity. Qed.

Lemma drop_body_ok r : ends_tag r = true -> body_ok (render_toks (flatten (drop_ws r))) = true.
Proof.
  destruct r as [t a [|c ch] w|t cd w1 x w2 cl w3]; cbn [drop_ws ends_tag flatten]; intro H.
  - unfold render_toks. cbn [flat_map render_tok]. unfold endtag, LT, GT.
    match goal with |- body_ok ?g = true => replace g with (60 :: (t ++ 62 :: a ++ [60; SL] ++ t) ++ [62])%list end; [apply body_ok_wrap|].
    norm_app. reflexivity.
  - unfold render_toks. cbn [flat_map]. rewrite !flat_map_app. cbn [flat_map render_tok]. unfold endtag, LT, GT.
    norm_app.
    match goal with |- body_ok (60 :: ?u)%list = true => assert (EQ : exists m, u = (m ++ [62])%list) end.
    { match goal with |- exists m, (t ++ 62 :: a ++ ?X ++ ?Y ++ 60 :: SL :: t ++ [62])%list = _ => exists (t ++ 62 :: a ++ X ++ Y ++ 60 :: SL :: t)%list end.
      norm_app. reflexivity. }
    destruct EQ as [m EQ]. rewrite EQ. apply body_ok_wrap.
  - subst cl. unfold render_toks. cbn [flat_map render_tok]. unfold endtag, LT, GT.
    match goal with |- body_ok ?g = true =>
      replace g with (60 :: (t ++ 62 :: w1 ++ (if cd then CDO ++ x ++ CDC else x) ++ w2 ++ [60; SL] ++ t) ++ [62])%list end; [apply body_ok_wrap|].
    norm_app. reflexivity.
Qed.

(** the root's tail after the writers' preparation: absent, or the newline utils.indent puts there *)
Lemma root_tail e (pretty : bool) :
  let it := if pretty then indent 0%nat (embed e) else embed e in or_empty (itail it) = [] \/ or_empty (itail it) = [10].
Proof.
  destruct e as [t x ch]. cbn [embed]. destruct pretty; [|left; reflexivity].
  cbn [indent]. destruct (map embed ch); [left; reflexivity|right; reflexivity].
Qed.
Lemma last_ws_html e : last_ws (rend_html e) = or_empty (itail e).
Proof. destruct e as [t x tl [|c ch]]; cbn [rend_html itail]; [|reflexivity]. destruct x as [s|]; [destruct (stripped s)|]; reflexivity. Qed.
Lemma last_ws_unc e : last_ws (rend_unc e) = or_empty (itail e).
Proof. destruct e as [t x tl [|c ch]]; reflexivity. Qed.
Lemma ends_tag_html e : ends_tag (rend_html e) = true.
Proof. destruct e as [t x tl [|c ch]]; cbn [rend_html]; [|reflexivity]. destruct x as [s|]; [destruct (stripped s)|]; reflexivity. Qed.
Definition is_agg (d : doc) : bool := match d with Agg _ _ => true | Leaf _ _ => false end.
Lemma ends_tag_erase r : is_agg (erase r) = true -> ends_tag r = true.
Proof. destruct r; [reflexivity|discriminate]. Qed.

(** both writers, plain or pretty: the text is (what parse_header keeps after .strip()) ++ (white space), and what is kept parses
    to the tree of the wire document *)
Lemma written_text_splits e (pretty closed : bool) :
  ser_ok html_empty e = true -> (closed = false -> sgml_ok (wire_doc e) = true /\ is_agg (wire_doc e) = true) ->
  let it := if pretty then indent 0%nat (embed e) else embed e in
  let txt := if closed then html_text html_empty it else unclosed_text true it in
  exists core trail, txt = (core ++ trail)%list /\ body_ok core = true /\ all_ws trail = true
                     /\ parse repaired core = OK (Some (tree_of (wire_doc e)))
                     /\ parse repaired txt = OK (Some (tree_of (wire_doc e))).
Proof.
  intros H Hc it txt. pose proof (ser_ok_shape html_empty e H) as Hs.
  assert (Hit : shape_ok html_empty it = true /\ wire_it it = wire_doc e).
  { subst it. destruct pretty; [apply indent_shape; exact Hs|split; [exact Hs|reflexivity]]. }
  destruct Hit as [Hit Hw]. destruct (rend_html_ok html_empty it Hit) as (Hr & He & Hwf).
  assert (Hr' : exists r, txt = render_toks (flatten r) /\ ok_rendering [] r (wire_doc e) /\ ends_tag r = true /\ last_ws r = or_empty (itail it)).
  { destruct closed.
    - exists (rend_html it). split; [apply html_render; exact Hit|]. rewrite <- Hw. split; [split; [exact He|split; [exact Hr|reflexivity]]|].
      split; [apply ends_tag_html|apply last_ws_html].
    - destruct (Hc eq_refl) as [Hg Ha]. rewrite <- Hw in Hg. destruct (rend_unc_ok html_empty it Hit Hg) as (Hr2 & He2).
      exists (rend_unc it). split; [apply unclosed_render|]. rewrite <- Hw. split; [split; [exact He2|split; [exact Hr2|reflexivity]]|].
      split; [apply ends_tag_erase; rewrite He2, Hw; exact Ha|apply last_ws_unc]. }
  destruct Hr' as (r & Et & Ok & Hend & Hl). rewrite Hw in Hwf.
  exists (render_toks (flatten (drop_ws r))), (last_ws r). split; [rewrite Et; apply render_drop|]. split; [apply drop_body_ok; exact Hend|].
  split; [|split].
  - rewrite Hl. destruct (root_tail e pretty) as [T|T]; fold it in T; rewrite T; reflexivity.
  - apply (parse_render_faithful_l [] (drop_ws r) (wire_doc e) Hwf (drop_ok r _ Ok)).
  - rewrite Et. apply (parse_render_faithful_l [] r (wire_doc e) Hwf Ok).
Qed.

(** * schema-free file theorems: any well-shaped element tree, written behind a tolerated header, is split and parsed back *)
Theorem tree_file_v2_l l h e (pretty : bool) :
  valid2 h = true -> lay2_ok l = true -> ser_ok html_empty e = true ->
  let it := if pretty then indent 0%nat (embed e) else embed e in
  scalar_text (html_text html_empty it) = true ->
  exists msg, parse_header (file2 l h (tostring_html html_empty it)) = OK (H2 h, msg)
              /\ parse repaired msg = OK (Some (tree_of (wire_doc e))).
Proof.
  intros V L Hs it Hsc.
  destruct (written_text_splits e pretty true Hs ltac:(discriminate)) as (core & trail & E & B & W & _ & P). fold it in E, P.
  exists (html_text html_empty it). split; [|exact P].
  unfold tostring_html. rewrite E. apply (parse_header_exact_v2_c l h core trail _ V L B W).
  rewrite <- E. apply utf8_encoders_agree. exact Hsc.
Qed.

Theorem tree_file_v1_l l h cd e (pretty closed : bool) encbody :
  valid1 h = true -> lay1_ok l h = true -> spec_codec (h1_charset h) = Some cd -> ser_ok html_empty e = true ->
  (closed = false -> sgml_ok (wire_doc e) = true /\ is_agg (wire_doc e) = true) ->
  let it := if pretty then indent 0%nat (embed e) else embed e in
  encode_opt cd (if closed then html_text html_empty it else unclosed_text true it) = Some encbody ->
  exists msg, parse_header (file1 l h encbody) = OK (H1 h, msg)
              /\ parse repaired msg = OK (Some (tree_of (wire_doc e))).
Proof.
  intros V L SC Hs Hc it EN.
  destruct (written_text_splits e pretty closed Hs Hc) as (core & trail & E & B & W & P & _). fold it in E.
  exists core. split; [|exact P].
  apply (parse_header_exact_v1_c l h cd core trail encbody V L B W SC). rewrite <- E. exact EN.
Qed.

Section FILE.
  Variable sval : Type.
  Variable conv : N -> sin sval -> result (option sval).
  Variable unconv : N -> sval -> result text.
  Variable S : schema.
  Let unconv_w := unconv_w sval unconv.

  Lemma reads_back i e : valid sval conv unconv_w S i -> Convert.to_etree sval unconv S i = OK e ->
    from_etree sval conv S (esc_tree e) = OK (i, []).
  Proof.
    intros Hv He. apply (roundtrip_tree_l sval conv unconv_w S i Hv). unfold unconv_w. rewrite (to_etree_esc sval unconv S i), He. reflexivity.
  Qed.

  (** C01 over the bytes of a version-2 file: written by OFXClient.serialize (ET.tostring html, utf_8) behind ANY tolerated
      version-2 header layout, read by parse_header, TreeBuilder and from_etree *)
  Theorem file_roundtrip_v2_l l h i e (pretty : bool) :
    valid2 h = true -> lay2_ok l = true ->
    valid sval conv unconv_w S i -> Convert.to_etree sval unconv S i = OK e -> ser_ok html_empty (up e) = true ->
    let it := if pretty then indent 0%nat (embed (up e)) else embed (up e) in
    scalar_text (html_text html_empty it) = true ->
    exists msg e', parse_header (file2 l h (tostring_html html_empty it)) = OK (H2 h, msg)
                   /\ parse repaired msg = OK (Some (up e'))
                   /\ from_etree sval conv S e' = OK (i, []).
  Proof.
    intros V L Hv He Hs it Hsc.
    destruct (written_text_splits (up e) pretty true Hs ltac:(discriminate)) as (core & trail & E & B & W & _ & P). fold it in E, P.
    exists (html_text html_empty it), (esc_tree e). split; [|split].
    - unfold tostring_html. rewrite E. apply (parse_header_exact_v2_c l h core trail _ V L B W).
      rewrite <- E. apply utf8_encoders_agree. exact Hsc.
    - rewrite P, (tree_of_wire_doc_up e Hs). reflexivity.
    - apply reads_back; assumption.
  Qed.

  (** ... and of a version-1 file, element end tags written or not, the body in the codec the header declares (cd);
      here parse_header strips the message, so the text that reaches the tree builder is the body without the root's tail *)
  Theorem file_roundtrip_v1_l l h cd i e (pretty closed : bool) encbody :
    valid1 h = true -> lay1_ok l h = true -> spec_codec (h1_charset h) = Some cd ->
    valid sval conv unconv_w S i -> Convert.to_etree sval unconv S i = OK e -> ser_ok html_empty (up e) = true ->
    (closed = false -> sgml_ok (wire_doc (up e)) = true /\ is_agg (wire_doc (up e)) = true) ->
    let it := if pretty then indent 0%nat (embed (up e)) else embed (up e) in
    encode_opt cd (if closed then html_text html_empty it else unclosed_text true it) = Some encbody ->
    exists msg e', parse_header (file1 l h encbody) = OK (H1 h, msg)
                   /\ parse repaired msg = OK (Some (up e'))
                   /\ from_etree sval conv S e' = OK (i, []).
  Proof.
    intros V L SC Hv He Hs Hc it EN.
    destruct (written_text_splits (up e) pretty closed Hs Hc) as (core & trail & E & B & W & P & _). fold it in E.
    exists core, (esc_tree e). split; [|split].
    - apply (parse_header_exact_v1_c l h cd core trail encbody V L B W SC). rewrite <- E. exact EN.
    - rewrite P, (tree_of_wire_doc_up e Hs). reflexivity.
    - apply reads_back; assumption.
  Qed.
End FILE.

(** * the files OFXClient.serialize writes: bytes(str(make_header(...)), "utf_8") + body, the header being ASCII *)
Lemma client_file_v2 h enc : (str_v2 h ++ enc)%list = file2 lay2_str h enc.
Proof. rewrite HeaderV2.str_v2_layout. unfold file2, head2, lay2_str. cbn [m_lines m_ver m_enc m_sa m_a m_b lead_text]. rewrite <- !app_assoc. reflexivity. Qed.
Lemma client_file_v1 h enc : (str_v1 h ++ enc)%list = file1 lay1_str h enc.
Proof. rewrite HeaderInit.str_v1_layout. unfold file1. cbn [l_lines l_gap lay1_str lead_text]. rewrite <- !app_assoc. reflexivity. Qed.
Lemma lay2_str_ok : lay2_ok lay2_str = true.
Proof. reflexivity. Qed.

Section CLIENT.
  Variable sval : Type.
  Variable conv : N -> sin sval -> result (option sval).
  Variable unconv : N -> sval -> result text.
  Variable S : schema.

  (** what OFXClient.serialize returns for an OFX version >= 200, read back *)
  Corollary client_bytes_roundtrip_v2_l h i e (pretty : bool) :
    valid2 h = true ->
    valid sval conv (unconv_w sval unconv) S i -> Convert.to_etree sval unconv S i = OK e -> ser_ok html_empty (up e) = true ->
    let it := if pretty then indent 0%nat (embed (up e)) else embed (up e) in
    scalar_text (html_text html_empty it) = true ->
    exists msg e', parse_header (str_v2 h ++ tostring_html html_empty it) = OK (H2 h, msg)
                   /\ parse repaired msg = OK (Some (up e'))
                   /\ from_etree sval conv S e' = OK (i, []).
  Proof. intros V Hv He Hs it Hsc. rewrite client_file_v2. apply (file_roundtrip_v2_l sval conv unconv S lay2_str h i e pretty V lay2_str_ok Hv He Hs Hsc). Qed.

  (** ... and for a version < 200 (the header then declares a codec cd; serialize always writes utf_8, so the statement is
      for bodies whose utf_8 bytes are also their encoding in cd: all of them when cd is utf_8, the ASCII ones otherwise) *)
  Corollary client_bytes_roundtrip_v1_l h cd i e (pretty closed : bool) encbody :
    valid1 h = true -> spec_codec (h1_charset h) = Some cd ->
    valid sval conv (unconv_w sval unconv) S i -> Convert.to_etree sval unconv S i = OK e -> ser_ok html_empty (up e) = true ->
    (closed = false -> sgml_ok (wire_doc (up e)) = true /\ is_agg (wire_doc (up e)) = true) ->
    let it := if pretty then indent 0%nat (embed (up e)) else embed (up e) in
    encode_opt cd (if closed then html_text html_empty it else unclosed_text true it) = Some encbody ->
    exists msg e', parse_header (str_v1 h ++ encbody) = OK (H1 h, msg)
                   /\ parse repaired msg = OK (Some (up e'))
                   /\ from_etree sval conv S e' = OK (i, []).
  Proof.
    intros V SC Hv He Hs Hc it EN. rewrite client_file_v1.
    apply (file_roundtrip_v1_l sval conv unconv S lay1_str h cd i e pretty closed encbody V (HeaderInit.lay1_str_ok h V) SC Hv He Hs Hc EN).
  Qed.
End CLIENT.

(** the same at the layout str(header) has, without a schema: what the C06 engine's composed (header text, element tree) pairs need *)
Corollary client_tree_bytes_v2_l h e (pretty : bool) :
  valid2 h = true -> ser_ok html_empty e = true ->
  let it := if pretty then indent 0%nat (embed e) else embed e in
  scalar_text (html_text html_empty it) = true ->
  exists msg, parse_header (str_v2 h ++ tostring_html html_empty it) = OK (H2 h, msg)
              /\ parse repaired msg = OK (Some (tree_of (wire_doc e))).
Proof. intros V Hs it Hsc. rewrite client_file_v2. apply (tree_file_v2_l lay2_str h e pretty V lay2_str_ok Hs Hsc). Qed.

Corollary client_tree_bytes_v1_l h cd e (pretty closed : bool) encbody :
  valid1 h = true -> spec_codec (h1_charset h) = Some cd -> ser_ok html_empty e = true ->
  (closed = false -> sgml_ok (wire_doc e) = true /\ is_agg (wire_doc e) = true) ->
  let it := if pretty then indent 0%nat (embed e) else embed e in
  encode_opt cd (if closed then html_text html_empty it else unclosed_text true it) = Some encbody ->
  exists msg, parse_header (str_v1 h ++ encbody) = OK (H1 h, msg)
              /\ parse repaired msg = OK (Some (tree_of (wire_doc e))).
Proof.
  intros V SC Hs Hc it EN. rewrite client_file_v1.
  apply (tree_file_v1_l lay1_str h cd e pretty closed encbody V (HeaderInit.lay1_str_ok h V) SC Hs Hc EN).
Qed.

(** * the UTF-8 layer between the writers and the reader, for Unicode scalar text: both writers' encoders produce the same bytes,
      and the reader's strict decoder returns the text *)
Theorem utf8_layer_roundtrip_l s : scalar_text s = true ->
  utf8_strict s = OK (utf8_xcr s) /\ decode_opt 2 (utf8_xcr s) = Some s.
Proof.
  intro H. split.
  - induction s as [|x s IH]; [reflexivity|]. cbn [scalar_text forallb] in H. apply andb_true_iff in H. destruct H as [Hx Hs].
    apply andb_true_iff in Hx. destruct Hx as [Hsur _]. apply negb_true_iff in Hsur. cbn [utf8_strict utf8_xcr]. rewrite Hsur.
    rewrite (IH Hs). reflexivity.
  - pose proof (HeaderCodec.codec_ok 2 [] s (utf8_xcr s) eq_refl (utf8_encoders_agree s H)) as D. exact D.
Qed.
